/-
  Proofs/ReplaceToks.lean — `replace` is a splice of the token sequence (C02), preserves normal
  form, and what it returns has validated content at every rebuilt node (used by C01).
-/
import PM.Basic
import PM.Fragment
import PM.Content
import PM.Replace
import Proofs.Toks
import Proofs.TokCore
namespace PM

/-- tokens remaining at/after an offset, as described by `splitRight` -/
def RSplit.toks : RSplit → List Tok
  | .flat rest => ftoks rest
  | .deep (.elem _ _ _ kids) inner rest => (ftoks kids).drop inner ++ [Tok.cl] ++ ftoks rest
  | .deep _ _ rest => ftoks rest

/-! ### generic list arithmetic -/

theorem take_app_le {α} (l r : List α) (n : Nat) (h : n ≤ l.length) : (l ++ r).take n = l.take n := by
  rw [List.take_append]; simp [Nat.sub_eq_zero_of_le h]

theorem drop_app_le {α} (l r : List α) (n : Nat) (h : n ≤ l.length) : (l ++ r).drop n = l.drop n ++ r := by
  rw [List.drop_append]; simp [Nat.sub_eq_zero_of_le h]

theorem take_app_ge {α} (l r : List α) (n : Nat) (h : l.length ≤ n) :
    (l ++ r).take n = l ++ r.take (n - l.length) := by
  rw [List.take_append, List.take_of_length_le h]

theorem drop_app_ge {α} (l r : List α) (n : Nat) (h : l.length ≤ n) :
    (l ++ r).drop n = r.drop (n - l.length) := by
  rw [List.drop_append, List.drop_eq_nil_of_le h]; simp

theorem splitRight_toks : ∀ (Rt : List Node) (t : Nat) (r : RSplit), splitRight Rt t = some r →
    r.toks = (ftoks Rt).drop t
  | [], 0, r, h => by simp [splitRight] at h; subst h; simp [RSplit.toks]
  | [], _+1, r, h => by simp [splitRight] at h
  | n :: ns, t, r, h => by
    unfold splitRight at h
    split at h
    · rename_i ht; subst ht; simp at h; subst h; simp [RSplit.toks]
    · split at h
      · rename_i ht hle
        have ih := splitRight_toks ns (t - n.size) r h
        rw [ih, ftoks_cons, drop_app_ge _ _ _ (by rw [Node.toks_length]; exact hle), Node.toks_length]
      · rename_i ht hlt
        cases n with
        | text s m =>
          simp only at h
          split at h
          · simp at h; subst h
            simp only [Node.size_text] at hlt
            simp only [RSplit.toks, ftoks_cons, Node.toks_text]
            rw [drop_app_le _ _ _ (by simp; omega)]
            simp
          · simp at h
        | leaf ty a m => simp at h
        | elem ty a m kids =>
          simp at h; subst h
          simp only [Node.size_elem] at hlt
          simp only [RSplit.toks, ftoks_cons, Node.toks_elem]
          obtain ⟨t', rfl⟩ : ∃ t', t = t' + 1 := ⟨t - 1, by omega⟩
          simp only [List.cons_append, List.drop_succ_cons, Nat.add_sub_cancel, List.append_assoc]
          rw [drop_app_le _ _ _ (by rw [ftoks_length]; omega)]

theorem splitRight_flat_toks {Rt : List Node} {t : Nat} {rest : List Node}
    (h : splitRight Rt t = some (.flat rest)) : ftoks rest = (ftoks Rt).drop t := by
  have := splitRight_toks Rt t _ h; simpa [RSplit.toks] using this

theorem splitRight_deep_toks {Rt : List Node} {t : Nat} {ty a m kids inner rest}
    (h : splitRight Rt t = some (.deep (.elem ty a m kids) inner rest)) :
    (ftoks kids).drop inner ++ Tok.cl :: ftoks rest = (ftoks Rt).drop t := by
  have := splitRight_toks Rt t _ h; simpa [RSplit.toks] using this

theorem close_ok {S : Schema} {ty a m content c} (h : S.close ty a m content = .ok c) :
    c = .elem ty a m content := by
  unfold Schema.close at h
  split at h
  · simp at h; exact h.symm
  · simp at h

/-- taking `f` tokens of an element's tokens when `0 < f < size` -/
theorem take_elem_toks (ty a m) (kids : List Node) (rest : List Tok) (f : Nat) (hf : f ≠ 0)
    (hlt : f < 2 + fsize kids) :
    ((Node.elem ty a m kids).toks ++ rest).take f = Tok.op ty a m :: (ftoks kids).take (f - 1) := by
  obtain ⟨f', rfl⟩ : ∃ f', f = f' + 1 := ⟨f - 1, by omega⟩
  simp only [Node.toks_elem, List.cons_append, List.take_succ_cons, Nat.add_sub_cancel, List.append_assoc]
  rw [take_app_le _ _ _ (by rw [ftoks_length]; omega)]

/-- **two-way join is a splice** -/
theorem twoWay_toks (S : Schema) : ∀ (L : List Node) (f : Nat) (Rt : List Node) (t : Nat) (X : List Node),
    twoWay S L f Rt t = .ok X → ftoks X = (ftoks L).take f ++ (ftoks Rt).drop t
  | [], f, Rt, t, X, h => by
    unfold twoWay at h
    split at h
    · split at h
      · rename_i rest hs; simp at h; subst h
        simp [splitRight_flat_toks hs]
      · simp at h
      · simp at h
    · simp at h
  | n :: ns, f, Rt, t, X, h => by
    unfold twoWay at h
    split at h
    · rename_i hf; subst hf
      split at h
      · rename_i rest hs; simp at h; subst h
        simp [splitRight_flat_toks hs]
      · simp at h
      · simp at h
    · split at h
      · rename_i hf hle
        split at h
        · rename_i r hr
          simp at h; subst h
          have ih := twoWay_toks S ns (f - n.size) Rt t r hr
          rw [ftoks_cons, ih, ftoks_cons, take_app_ge _ _ _ (by rw [Node.toks_length]; exact hle),
            Node.toks_length, List.append_assoc]
        · simp at h
      · rename_i hf hlt
        cases n with
        | text s m =>
          simp only at h
          split at h
          · simp at h
          · split at h
            · rename_i rest hs; simp at h; subst h
              simp only [Node.size_text] at hlt
              rw [ftoks_cons, splitRight_flat_toks hs, ftoks_cons, take_app_le _ _ _ (by simp; omega)]
              simp
            · simp at h
            · simp at h
        | leaf ty a m => simp at h
        | elem ty a m kids =>
          simp only at h
          split at h
          · rename_i ty' a' m' kids' inner rest hs
            split at h
            · split at h
              · rename_i innerRes hin
                split at h
                · rename_i c hc
                  simp at h; subst h
                  have ih := twoWay_toks S kids (f - 1) kids' inner innerRes hin
                  have hr := splitRight_deep_toks hs
                  rw [close_ok hc]
                  simp only [Node.size_elem, Nat.not_le] at hlt
                  rw [ftoks_cons (Node.elem ty a m kids), take_elem_toks _ _ _ _ _ _ hf hlt, ← hr]
                  simp [fromArray_toks, ih]
                · simp at h
              · simp at h
            · simp at h
          · simp at h
          · simp at h

/-- tokens of the slice content `M` with `a` open levels on the left and `b` on the right removed -/
def midToks (M : List Node) (a b : Nat) : List Tok :=
  ((ftoks M).drop a).take (fsize M - a - b)

/-! ### spine depth vs. size -/

theorem spineL_le : ∀ M : List Node, 2 * spineL M ≤ fsize M
  | [] => by simp [spineL]
  | .text .. :: _ => by simp [spineL]
  | .leaf .. :: _ => by simp [spineL]
  | .elem _ _ _ kids :: rest => by
    have := spineL_le kids
    simp [spineL]; omega

theorem spineR_le : ∀ M : List Node, 2 * spineR M ≤ fsize M
  | [] => by simp [spineR]
  | [.text ..] => by simp [spineR]
  | [.leaf ..] => by simp [spineR]
  | [.elem _ _ _ kids] => by
    have := spineR_le kids
    simp [spineR]; omega
  | _ :: n :: ns => by
    have := spineR_le (n :: ns)
    simp only [spineR, fsize_cons] at *; omega

theorem spineR_concat_elem (ty a m kids) : ∀ init : List Node,
    spineR (init ++ [Node.elem ty a m kids]) = 1 + spineR kids
  | [] => by simp [spineR]
  | [x] => by simp [spineR]
  | x :: y :: r => by
    have := spineR_concat_elem ty a m kids (y :: r)
    simpa [spineR] using this

theorem getLast?_decomp {α} {l : List α} {x : α} (h : l.getLast? = some x) : l = l.dropLast ++ [x] := by
  have hne : l ≠ [] := by intro h0; subst h0; simp at h
  rw [List.getLast?_eq_some_getLast hne] at h
  simp at h
  rw [← h]; exact (List.dropLast_concat_getLast hne).symm

theorem midToks_eq (M : List Node) (a b : Nat) :
    midToks M a b = ((ftoks M).take (fsize M - b)).drop a := by
  unfold midToks; rw [List.drop_take, Nat.sub_right_comm]

/-- dropping `a` tokens of an element's tokens when `0 < a ≤ 1 + fsize kids` -/
theorem drop_elem_toks (ty at_ m) (kids : List Node) (rest : List Tok) (a : Nat) (ha : a ≠ 0)
    (hle : a - 1 ≤ fsize kids) :
    ((Node.elem ty at_ m kids).toks ++ rest).drop a = (ftoks kids).drop (a - 1) ++ Tok.cl :: rest := by
  obtain ⟨a', rfl⟩ : ∃ a', a = a' + 1 := ⟨a - 1, by omega⟩
  simp only [Node.toks_elem, List.cons_append, List.drop_succ_cons, Nat.add_sub_cancel, List.append_assoc] at *
  rw [drop_app_le _ _ _ (by rw [ftoks_length]; omega)]; simp

/-- removing the last `b` tokens of a list ending in an element, `1 ≤ b ≤ 1 + fsize kidsE` -/
theorem take_last_elem (init : List Node) (ty a m) (kidsE : List Node) (b : Nat) (hb : b ≠ 0)
    (hle : b - 1 ≤ fsize kidsE) :
    (ftoks (init ++ [Node.elem ty a m kidsE])).take (fsize (init ++ [Node.elem ty a m kidsE]) - b)
      = ftoks init ++ Tok.op ty a m :: (ftoks kidsE).take (fsize kidsE - (b - 1)) := by
  rw [ftoks_append, fsize_append, take_app_ge _ _ _ (by rw [ftoks_length]; simp; omega)]
  congr 1
  simp only [ftoks_cons, ftoks_nil, Node.toks_elem, List.append_nil, fsize_cons, fsize_nil,
    Node.size_elem, ftoks_length]
  have : fsize init + (2 + fsize kidsE + 0) - b - fsize init = (fsize kidsE - (b - 1)) + 1 := by omega
  rw [this, List.take_succ_cons, take_app_le _ _ _ (by rw [ftoks_length]; omega)]

/-! ### right join, flat tail -/

theorem rightJoin_toks {S : Schema} {M : List Node} {b : Nat} {rs : RSplit} {rj : List Node}
    {Rt : List Node} {t : Nat}
    (hs : splitRight Rt t = some rs) (h : rightJoin S M b rs = .ok rj) :
    (b = 0 ∧ rj = [] ∧ ftoks rs.rest = (ftoks Rt).drop t) ∨
    (∃ tyE aE mE kidsE tyR aR mR kidsR innerT rest, b ≠ 0 ∧
      M.getLast? = some (.elem tyE aE mE kidsE) ∧ rs = .deep (.elem tyR aR mR kidsR) innerT rest ∧
      ftoks rj ++ ftoks rs.rest
        = Tok.op tyE aE mE :: (ftoks kidsE).take (fsize kidsE - (b - 1)) ++ (ftoks Rt).drop t) := by
  unfold rightJoin at h
  split at h
  · rename_i rest
    split at h
    · rename_i hb; simp at h; subst h
      exact .inl ⟨hb, rfl, by simpa [RSplit.rest] using splitRight_flat_toks hs⟩
    · simp at h
  · rename_i cR innerT rest
    split at h
    · simp at h
    · rename_i hb
      split at h
      · rename_i tyE aE mE kidsE tyR aR mR kidsR hl
        split at h
        · split at h
          · rename_i r hr
            split at h
            · rename_i c hc
              simp at h; subst h
              refine .inr ⟨tyE, aE, mE, kidsE, tyR, aR, mR, kidsR, innerT, rest, hb, hl, rfl, ?_⟩
              rw [close_ok hc, ← splitRight_deep_toks hs]
              simp [RSplit.rest, fromArray_toks, twoWay_toks S _ _ _ _ _ hr]
            · simp at h
          · simp at h
        · simp at h
      · simp at h

theorem flatTail_toks {S : Schema} {M : List Node} {a b : Nat} {Rt : List Node} {t : Nat} {X : List Node}
    (hb : b ≤ spineR M) (h : flatTail S M a b Rt t = .ok X) :
    ftoks X = midToks M a b ++ (ftoks Rt).drop t := by
  unfold flatTail at h
  split at h
  · simp at h
  · rename_i ha
    simp at ha; subst ha
    split at h
    · simp at h
    · rename_i rs hs
      split at h
      · rename_i rj hrj
        simp at h; subst h
        rw [midToks_eq]
        rcases rightJoin_toks hs hrj with ⟨hb0, hrj0, hrest⟩ | ⟨tyE, aE, mE, kidsE, _, _, _, _, _, _, hb0, hl, _, htoks⟩
        · subst hb0; subst hrj0
          simp [middle, ftoks_append, hrest, ← ftoks_length]
        · obtain ⟨init, hM⟩ : ∃ init, M = init ++ [Node.elem tyE aE mE kidsE] := ⟨_, getLast?_decomp hl⟩
          subst hM
          have hsp : b - 1 ≤ fsize kidsE := by
            rw [spineR_concat_elem] at hb
            have := spineR_le kidsE; omega
          have hmid : middle (init ++ [Node.elem tyE aE mE kidsE]) false (b != 0) = init := by
            simp [middle, hb0]
          rw [hmid, ftoks_append, ftoks_append, htoks, take_last_elem _ _ _ _ _ _ hb0 hsp]
          simp
      · simp at h

/-- the tail of a level when `f` is deep in `L` and the slice is open on the left: after the
    left join node come the rest of the slice's first child … -/
theorem openTail_toks {S : Schema} {tyS aS mS} {kidsS Mtail : List Node} {a b : Nat} {rs : RSplit}
    {rj Rt : List Node} {t : Nat}
    (ha0 : a ≠ 0) (ha : a ≤ spineL (Node.elem tyS aS mS kidsS :: Mtail))
    (hb : b ≤ spineR (Node.elem tyS aS mS kidsS :: Mtail))
    (hs : splitRight Rt t = some rs)
    (hrj : rightJoin S (Node.elem tyS aS mS kidsS :: Mtail) b rs = .ok rj)
    (hne : b ≠ 0 → Mtail ≠ []) :
    (ftoks kidsS).drop (a - 1) ++
        Tok.cl :: ftoks (middle (Node.elem tyS aS mS kidsS :: Mtail) true (b != 0) ++ rj ++ rs.rest)
      = midToks (Node.elem tyS aS mS kidsS :: Mtail) a b ++ (ftoks Rt).drop t := by
  have hale : a - 1 ≤ fsize kidsS := by
    have := spineL_le kidsS
    simp only [spineL] at ha; omega
  rw [midToks_eq]
  rcases rightJoin_toks hs hrj with ⟨hb0, hrj0, hrest⟩ | ⟨tyE, aE, mE, kidsE, _, _, _, _, _, _, hb0, hl, _, htoks⟩
  · subst hb0; subst hrj0
    have hmid : middle (Node.elem tyS aS mS kidsS :: Mtail) true (0 != 0) = Mtail := by simp [middle]
    rw [hmid, Nat.sub_zero, List.take_of_length_le (by rw [ftoks_length]; exact Nat.le_refl _),
      ftoks_cons, drop_elem_toks _ _ _ _ _ _ ha0 hale]
    simp [ftoks_append, hrest]
  · have hMt := hne hb0
    have hl' : Mtail.getLast? = some (Node.elem tyE aE mE kidsE) := by
      cases Mtail with
      | nil => exact absurd rfl hMt
      | cons x xs => simpa [List.getLast?_cons_cons] using hl
    obtain ⟨init, hM⟩ : ∃ init, Mtail = init ++ [Node.elem tyE aE mE kidsE] := ⟨_, getLast?_decomp hl'⟩
    subst hM
    have hsp : b - 1 ≤ fsize kidsE := by
      have h1 := spineR_concat_elem tyE aE mE kidsE (Node.elem tyS aS mS kidsS :: init)
      simp only [List.cons_append] at h1
      rw [h1] at hb
      have := spineR_le kidsE; omega
    have hmid : middle (Node.elem tyS aS mS kidsS :: (init ++ [Node.elem tyE aE mE kidsE])) true (b != 0)
        = init := by
      simp [middle, hb0]
    have h2 := take_last_elem (Node.elem tyS aS mS kidsS :: init) tyE aE mE kidsE b hb0 hsp
    simp only [List.cons_append] at h2
    rw [hmid, h2, ftoks_cons]
    simp only [List.append_assoc]
    rw [drop_elem_toks _ _ _ _ _ _ ha0 hale, ftoks_append, ftoks_append, htoks]
    simp

theorem midToks_single (tyS aS mS) (kidsS : List Node) (a b' : Nat) (ha0 : a ≠ 0)
    (hale : a - 1 ≤ fsize kidsS) :
    midToks [Node.elem tyS aS mS kidsS] a (b' + 1) = midToks kidsS (a - 1) b' := by
  unfold midToks
  have h := drop_elem_toks tyS aS mS kidsS [] a ha0 hale
  simp only [List.append_nil] at h
  simp only [ftoks_cons, ftoks_nil, List.append_nil, fsize_cons, fsize_nil, Node.size_elem]
  rw [h]
  have : 2 + fsize kidsS + 0 - a - (b' + 1) = fsize kidsS - (a - 1) - b' := by omega
  rw [this, take_app_le _ _ _ (by rw [List.length_drop, ftoks_length]; omega)]

/-- **three-way join is a splice** (at and below the slice's top level, and above it where the
    "slice" is a wrapper copy of `from`'s ancestors) -/
theorem threeWay_toks (S : Schema) : ∀ (L : List Node) (f extra : Nat) (M : List Node) (a b : Nat)
    (Rt : List Node) (t : Nat) (X : List Node),
    a ≤ spineL M → b ≤ spineR M → threeWay S L f extra M a b Rt t = .ok X →
    ftoks X = (ftoks L).take f ++ midToks M a b ++ (ftoks Rt).drop t
  | [], f, extra, M, a, b, Rt, t, X, ha, hb, h => by
    unfold threeWay at h
    split at h
    · split at h
      · simp [flatTail_toks hb h]
      · simp at h
    · simp at h
  | n :: ns, f, extra, M, a, b, Rt, t, X, ha, hb, h => by
    unfold threeWay at h
    split at h
    · rename_i hf; subst hf
      split at h
      · simp [flatTail_toks hb h]
      · simp at h
    · rename_i hf
      split at h
      · rename_i hle
        split at h
        · rename_i r hr
          simp at h; subst h
          have ih := threeWay_toks S ns (f - n.size) extra M a b Rt t r ha hb hr
          rw [ftoks_cons, ih, ftoks_cons, take_app_ge _ _ _ (by rw [Node.toks_length]; exact hle),
            Node.toks_length]
          simp
        · simp at h
      · rename_i hlt
        cases n with
        | text s m =>
          simp only at h
          split at h
          · simp at h
          · split at h
            · simp at h
            · split at h
              · rename_i r hr
                simp at h; subst h
                simp only [Node.size_text] at hlt
                rw [ftoks_cons, flatTail_toks hb hr, ftoks_cons, take_app_le _ _ _ (by simp; omega)]
                simp
              · simp at h
        | leaf ty at_ m => simp at h
        | elem tyL aL mL kidsL =>
          simp only [Node.size_elem, Nat.not_le] at hlt
          simp only at h
          split at h
          · simp at h
          · rename_i rs hs
            split at h
            · -- above the slice
              split at h
              · rename_i tyR aR mR kidsR innerT rest
                split at h
                · split at h
                  · rename_i inner hin
                    split at h
                    · rename_i c hc
                      simp at h; subst h
                      have ih := threeWay_toks S kidsL (f - 1) (extra - 1) M a b kidsR innerT inner ha hb hin
                      rw [close_ok hc, ftoks_cons (Node.elem tyL aL mL kidsL),
                        take_elem_toks _ _ _ _ _ _ hf hlt, ← splitRight_deep_toks hs]
                      simp [fromArray_toks, ih]
                    · simp at h
                  · simp at h
                · simp at h
              · simp at h
            · split at h
              · simp at h
              · rename_i ha0
                split at h
                · simp at h
                · rename_i cS Mtail
                  split at h
                  · rename_i tyS aS mS kidsS
                    split at h
                    · simp at h
                    · have hale : a - 1 ≤ fsize kidsS := by
                        have := spineL_le kidsS
                        simp only [spineL] at ha; omega
                      split at h
                      · -- both open, single slice child
                        rename_i tyR aR mR kidsR innerT rest b' x hx
                        obtain ⟨rfl, rfl⟩ : Node.elem tyS aS mS kidsS = x ∧ Mtail = [] := by
                          simpa using hx
                        split at h
                        · simp at h
                        · split at h
                          · rename_i inner hin
                            split at h
                            · rename_i c hc
                              simp at h; subst h
                              have ha' : a - 1 ≤ spineL kidsS := by simp only [spineL] at ha; omega
                              have hb' : b' ≤ spineR kidsS := by simp only [spineR] at hb; omega
                              have ih := threeWay_toks S kidsL (f - 1) 0 kidsS (a - 1) b' kidsR innerT inner
                                ha' hb' hin
                              rw [close_ok hc, ftoks_cons (Node.elem tyL aL mL kidsL),
                                take_elem_toks _ _ _ _ _ _ hf hlt, ← splitRight_deep_toks hs,
                                midToks_single _ _ _ _ _ _ ha0 hale]
                              simp [fromArray_toks, ih]
                            · simp at h
                          · simp at h
                      · rename_i rs b _ _ _ hnot
                        split at h
                        · simp at h
                        · split at h
                          · rename_i lr hlr
                            split at h
                            · rename_i cl hcl
                              split at h
                              · rename_i rj hrj
                                simp at h; subst h
                                have hne : b ≠ 0 → Mtail ≠ [] := by
                                  intro hb0 hMt; subst hMt
                                  rcases rightJoin_toks hs hrj with ⟨h0, _⟩ |
                                    ⟨_, _, _, _, tyR, aR, mR, kidsR, innerT, rest, _, _, hrs, _⟩
                                  · exact hb0 h0
                                  · obtain ⟨b', rfl⟩ : ∃ b', b = b' + 1 := ⟨b - 1, by omega⟩
                                    exact hnot tyR aR mR kidsR innerT rest b' _ hrs rfl rfl
                                have key := openTail_toks ha0 ha hb hs hrj hne
                                rw [close_ok hcl, ftoks_cons (Node.elem tyL aL mL kidsL),
                                  take_elem_toks _ _ _ _ _ _ hf hlt]
                                simp only [ftoks_cons, Node.toks_elem, fromArray_toks,
                                  twoWay_toks S _ _ _ _ _ hlr, List.cons_append, List.append_assoc]
                                simp only [List.append_assoc] at key
                                simp only [List.nil_append]
                                rw [key]
                              · simp at h
                            · simp at h
                          · simp at h
                  · simp at h

/-! ### cuts at depth 0, `atLevel`, `outer` -/

theorem ancestorOpens_nil_of_depth {l : List Node} {p : Nat} (h : depthAt l p = 0) :
    ancestorOpens l p = [] := by
  apply List.eq_nil_of_length_eq_zero
  rw [ancestorOpens_length, h]

theorem fcut_prefix_toks {level l : List Node} {f : Nat} (h : fcut level 0 f = .ok l)
    (hf : f ≤ fsize level) (hd : depthAt level f = 0) : ftoks l = (ftoks level).take f := by
  by_cases hf0 : f = 0
  · subst hf0
    unfold fcut at h
    split at h
    · rename_i h0; simp at h0; simp at h; subst h
      have : (ftoks level).length = 0 := by rw [ftoks_length]; exact h0.symm
      simp [List.eq_nil_of_length_eq_zero this]
    · simp at h; subst h; simp
  · have := fcut_toks level l 0 f (by omega) hf h
    rw [this, ancestorOpens_zero, hd]; simp

theorem fcut_suffix_toks {level r : List Node} {t : Nat} (h : fcut level t (fsize level) = .ok r)
    (hd : depthAt level t = 0) : ftoks r = (ftoks level).drop t := by
  by_cases ht : t < fsize level
  · by_cases ht0 : t = 0
    · subst ht0
      unfold fcut at h
      simp at h; subst h; simp
    · have := fcut_toks level r t (fsize level) ht (Nat.le_refl _) h
      rw [this, ancestorOpens_nil_of_depth hd, depthAt_fsize]
      simp only [List.nil_append, List.replicate_zero, List.append_nil]
      exact List.take_of_length_le (by rw [List.length_drop, ftoks_length]; exact Nat.le_refl _)
  · have hle : fsize level ≤ t := by omega
    rw [List.drop_eq_nil_of_le (by rw [ftoks_length]; exact hle)]
    unfold fcut at h
    split at h
    · rename_i h0; simp at h0; simp at h; subst h
      have : (ftoks level).length = 0 := by rw [ftoks_length]; omega
      exact List.eq_nil_of_length_eq_zero this
    · simp at h; subst h; simp

theorem atLevel_toks {S : Schema} {sl : Slice} {ty : TypeId} {level : List Node} {f t extra : Nat}
    {X : List Node} (hwf : sl.wf = true) (hf : f ≤ fsize level)
    (h : atLevel S sl ty level f t extra = .ok X) :
    ftoks X = (ftoks level).take f ++ sl.toks ++ (ftoks level).drop t := by
  unfold atLevel at h
  simp only at h
  split at h
  · rename_i c hc
    split at h
    · simp at h; subst h
      split at hc
      · rename_i h0
        cases hx : twoWay S level f level t with
        | error e => rw [hx] at hc; simp [Except.map] at hc
        | ok r =>
          rw [hx] at hc; simp [Except.map] at hc; subst hc
          have hnil : sl.toks = [] := by
            have : (ftoks sl.content).length = 0 := by rw [ftoks_length]; exact h0
            simp [Slice.toks, List.eq_nil_of_length_eq_zero this]
          rw [fromArray_toks, twoWay_toks S _ _ _ _ _ hx, hnil]; simp
      · split at hc
        · rename_i hcond
          simp only [Bool.and_eq_true, decide_eq_true_eq] at hcond
          obtain ⟨⟨⟨ha, hb⟩, hdf⟩, hdt⟩ := hcond
          split at hc
          · rename_i l r hl hr
            simp at hc; subst hc
            rw [fappend_toks, fappend_toks, fcut_prefix_toks hl hf hdf, fcut_suffix_toks hr hdt]
            simp [Slice.toks, ha, hb, ← ftoks_length]
          · simp at hc
          · simp at hc
        · cases hx : threeWay S level f extra sl.content sl.openStart sl.openEnd level t with
          | error e => rw [hx] at hc; simp [Except.map] at hc
          | ok r =>
            rw [hx] at hc; simp [Except.map] at hc; subst hc
            simp only [Slice.wf, Bool.and_eq_true, decide_eq_true_eq] at hwf
            rw [fromArray_toks, threeWay_toks S _ _ _ _ _ _ _ _ _ hwf.1 hwf.2 hx]
            rfl
    · simp at h
  · simp at h

theorem set_mid {α} (pre : List α) (n x : α) (ns : List α) :
    (pre ++ n :: ns).set pre.length x = pre ++ x :: ns := by
  induction pre with
  | nil => simp
  | cons p ps ih => simp [ih]

theorem outer_toks (S : Schema) (sl : Slice) (hwf : sl.wf = true) :
    ∀ (rest : List Node) (ty : TypeId) (level : List Node) (f0 t0 idx f t extra : Nat)
      (pre X : List Node),
      level = pre ++ rest → idx = pre.length → f0 = fsize pre + f → t0 = fsize pre + t →
      f ≤ t → t0 ≤ fsize level →
      outer S sl ty level f0 t0 idx rest f t extra = .ok X →
      ftoks X = (ftoks level).take f0 ++ sl.toks ++ (ftoks level).drop t0
  | [], ty, level, f0, t0, idx, f, t, extra, pre, X, hl, hi, hf0, ht0, hft, htl, h => by
    unfold outer at h
    exact atLevel_toks hwf (by omega) h
  | n :: ns, ty, level, f0, t0, idx, f, t, extra, pre, X, hl, hi, hf0, ht0, hft, htl, h => by
    have hfl : f0 ≤ fsize level := by omega
    unfold outer at h
    split at h
    · exact atLevel_toks hwf hfl h
    · rename_i hf
      split at h
      · rename_i hle
        refine outer_toks S sl hwf ns ty level f0 t0 (idx + 1) (f - n.size) (t - n.size) extra
          (pre ++ [n]) X ?_ ?_ ?_ ?_ ?_ htl h
        · simp [hl]
        · simp [hi]
        · rw [fsize_append]; simp; omega
        · rw [fsize_append]; simp; omega
        · omega
      · rename_i hlt
        split at h
        · rename_i tyC aC mC kidsC
          split at h
          · rename_i hcond
            simp only [Bool.and_eq_true, decide_eq_true_eq, Node.size_elem] at hcond
            simp only [Node.size_elem, Nat.not_le] at hlt
            split at h
            · rename_i inner hin
              simp at h; subst h
              have ih := outer_toks S sl hwf kidsC tyC kidsC (f - 1) (t - 1) 0 (f - 1) (t - 1) (extra - 1)
                [] inner rfl rfl (by simp) (by simp) (by omega) (by omega) hin
              subst hl; subst hi; subst hf0; subst ht0
              rw [set_mid, ftoks_append, ftoks_append, ftoks_cons, ftoks_cons,
                take_app_ge _ _ _ (by rw [ftoks_length]; omega),
                drop_app_ge _ _ _ (by rw [ftoks_length]; omega), ftoks_length,
                Nat.add_sub_cancel_left, Nat.add_sub_cancel_left,
                take_elem_toks _ _ _ _ _ _ hf hlt,
                drop_elem_toks _ _ _ _ _ _ (by omega) (by omega)]
              simp [ih]
            · simp at h
          · exact atLevel_toks hwf hfl h
        · exact atLevel_toks hwf hfl h

theorem spine_sum_le : ∀ c : List Node, spineL c + spineR c ≤ fsize c
  | [] => by simp [spineL, spineR]
  | [.text ..] => by simp [spineL, spineR]
  | [.leaf ..] => by simp [spineL, spineR]
  | [.elem _ _ _ kids] => by
    have := spine_sum_le kids
    simp [spineL, spineR]; omega
  | x :: n :: ns => by
    have h1 : spineL (x :: n :: ns) = spineL [x] := by cases x <;> simp [spineL]
    have h2 := spineL_le [x]
    have h3 := spineR_le (n :: ns)
    simp only [spineR, fsize_cons, fsize_nil, h1] at *
    omega

theorem replaceKids_ok {S : Schema} {ty : TypeId} {kids : List Node} {f t : Nat} {sl : Slice}
    {kids' : List Node} (h : replaceKids S ty kids f t sl = .ok kids') :
    f ≤ t ∧ t ≤ fsize kids ∧ sl.wf = true ∧
      outer S sl ty kids f t 0 kids f t (depthAt kids f - sl.openStart) = .ok kids' := by
  unfold replaceKids at h
  split at h
  · simp at h
  · rename_i hg
    simp only [inRange, Bool.or_eq_true, Bool.not_eq_true', decide_eq_false_iff_not,
      decide_eq_true_eq, not_or, Nat.not_lt, Decidable.not_not] at hg
    simp only at h
    split at h
    · simp at h
    · split at h
      · simp at h
      · split at h
        · simp at h
        · rename_i hw
          simp only [Bool.not_eq_true', Bool.not_eq_false] at hw
          exact ⟨hg.2, hg.1.2, hw, h⟩

/-- **replace is a splice**: on success the new token sequence is
    `old[:from] ++ slice tokens ++ old[to:]`. -/
theorem replaceKids_toks (S : Schema) (ty : TypeId) (kids : List Node) (f t : Nat) (sl : Slice)
    (kids' : List Node) (h : replaceKids S ty kids f t sl = .ok kids') :
    ftoks kids' = (ftoks kids).take f ++ sl.toks ++ (ftoks kids).drop t := by
  obtain ⟨hft, htl, hwf, ho⟩ := replaceKids_ok h
  exact outer_toks S sl hwf kids ty kids f t 0 f t _ [] kids' rfl rfl (by simp) (by simp) hft htl ho

/-- success implies the guards the model checks -/
theorem replaceKids_guards (S : Schema) (ty : TypeId) (kids : List Node) (f t : Nat) (sl : Slice)
    (kids' : List Node) (h : replaceKids S ty kids f t sl = .ok kids') :
    f ≤ t ∧ t ≤ fsize kids ∧ sl.wf = true := by
  obtain ⟨hft, htl, hwf, _⟩ := replaceKids_ok h
  exact ⟨hft, htl, hwf⟩

/-- **size arithmetic** -/
theorem replaceKids_size (S : Schema) (ty : TypeId) (kids : List Node) (f t : Nat) (sl : Slice)
    (kids' : List Node) (h : replaceKids S ty kids f t sl = .ok kids') :
    (fsize kids' : Int) = fsize kids + sl.size - ((t : Int) - f) := by
  obtain ⟨hft, htl, hwf, _⟩ := replaceKids_ok h
  have ht := congrArg List.length (replaceKids_toks S ty kids f t sl kids' h)
  simp only [Slice.wf, Bool.and_eq_true, decide_eq_true_eq] at hwf
  have hs := spine_sum_le sl.content
  simp only [Slice.toks, List.length_append, List.length_take, List.length_drop, ftoks_length] at ht
  simp only [Slice.size]
  omega

/-! ### normal form -/

@[simp] theorem fnormKids_nil : fnormKids [] = true := by simp [fnormKids]
@[simp] theorem fnormKids_cons (n : Node) (ns : List Node) :
    fnormKids (n :: ns) = (n.norm && fnormKids ns) := by simp [fnormKids]
@[simp] theorem Node.norm_text (s : List Nat) (m : Marks) : (Node.text s m).norm = !s.isEmpty := by
  simp [Node.norm]
@[simp] theorem Node.norm_leaf (t : TypeId) (a : Attrs) (m : Marks) : (Node.leaf t a m).norm = true := by
  simp [Node.norm]
theorem Node.norm_elem (t : TypeId) (a : Attrs) (m : Marks) (k : List Node) :
    (Node.elem t a m k).norm = fnorm k := by
  simp [Node.norm, fnorm]

theorem fnormKids_iff (l : List Node) : fnormKids l = true ↔ ∀ n ∈ l, n.norm = true := by
  induction l with
  | nil => simp
  | cons n ns ih => simp [ih]

theorem fnormKids_of_fnorm {l : List Node} (h : fnorm l = true) : fnormKids l = true := by
  simp only [fnorm, Bool.and_eq_true] at h; exact h.1

theorem fnormKids_drop {l : List Node} (h : fnormKids l = true) (k : Nat) : fnormKids (l.drop k) = true := by
  rw [fnormKids_iff] at *
  intro n hn; exact h n (List.mem_of_mem_drop hn)

theorem fnormKids_dropLast {l : List Node} (h : fnormKids l = true) : fnormKids l.dropLast = true := by
  rw [fnormKids_iff] at *
  intro n hn; exact h n (List.dropLast_subset l hn)

theorem middle_norm {M : List Node} (h : fnormKids M = true) (oL oR : Bool) :
    fnormKids (middle M oL oR) = true := by
  unfold middle
  cases oL <;> cases oR <;>
    simp only [if_true, if_false, Bool.false_eq_true] <;>
    first | exact h | exact fnormKids_dropLast h | exact fnormKids_drop h 1
          | exact fnormKids_dropLast (fnormKids_drop h 1)

def RSplit.normK : RSplit → Bool
  | .flat rest => fnormKids rest
  | .deep c _ rest => c.norm && fnormKids rest

theorem splitRight_norm : ∀ (Rt : List Node) (t : Nat) (r : RSplit), fnormKids Rt = true →
    splitRight Rt t = some r → r.normK = true
  | [], 0, r, hn, h => by simp [splitRight] at h; subst h; simp [RSplit.normK]
  | [], _+1, r, hn, h => by simp [splitRight] at h
  | n :: ns, t, r, hn, h => by
    unfold splitRight at h
    simp only [fnormKids_cons, Bool.and_eq_true] at hn
    split at h
    · simp at h; subst h; simp [RSplit.normK, hn]
    · split at h
      · exact splitRight_norm ns (t - n.size) r hn.2 h
      · rename_i ht hlt
        cases n with
        | text s m =>
          simp only at h
          split at h
          · simp at h; subst h
            simp only [Node.size_text, Nat.not_le] at hlt
            simp only [RSplit.normK, fnormKids_cons, Node.norm_text, hn.2, Bool.and_true]
            cases hd : s.drop t with
            | nil => simp at hd; omega
            | cons x xs => simp
          · simp at h
        | leaf ty a m => simp at h
        | elem ty a m kids =>
          simp at h; subst h
          simp [RSplit.normK, hn]

theorem close_norm {S : Schema} {ty a m} {pieces : List Node} {c : Node}
    (hp : fnormKids pieces = true) (h : S.close ty a m (fromArray pieces) = .ok c) : c.norm = true := by
  rw [close_ok h, Node.norm_elem]; exact fromArray_norm _ hp

theorem take_nonempty {s : List Nat} {f : Nat} (hf : f ≠ 0) (hs : s.isEmpty = false) :
    (s.take f).isEmpty = false := by
  cases s with
  | nil => simp at hs
  | cons x xs =>
    obtain ⟨f', rfl⟩ : ∃ f', f = f' + 1 := ⟨f - 1, by omega⟩
    simp

theorem twoWay_norm (S : Schema) : ∀ (L : List Node) (f : Nat) (Rt : List Node) (t : Nat) (X : List Node),
    fnormKids L = true → fnormKids Rt = true → twoWay S L f Rt t = .ok X → fnormKids X = true
  | [], f, Rt, t, X, hL, hR, h => by
    unfold twoWay at h
    split at h
    · split at h
      · rename_i rest hs; simp at h; subst h
        simpa [RSplit.normK] using splitRight_norm _ _ _ hR hs
      · simp at h
      · simp at h
    · simp at h
  | n :: ns, f, Rt, t, X, hL, hR, h => by
    unfold twoWay at h
    simp only [fnormKids_cons, Bool.and_eq_true] at hL
    split at h
    · split at h
      · rename_i rest hs; simp at h; subst h
        simpa [RSplit.normK] using splitRight_norm _ _ _ hR hs
      · simp at h
      · simp at h
    · rename_i hf
      split at h
      · split at h
        · rename_i r hr
          simp at h; subst h
          simp [hL.1, twoWay_norm S ns _ Rt t r hL.2 hR hr]
        · simp at h
      · cases n with
        | text s m =>
          simp only at h
          split at h
          · simp at h
          · split at h
            · rename_i rest hs; simp at h; subst h
              have hr : fnormKids rest = true := by
                simpa [RSplit.normK] using splitRight_norm _ _ _ hR hs
              have h1 := hL.1
              simp only [Node.norm_text, Bool.not_eq_true'] at h1
              simp [hr, take_nonempty hf h1]
            · simp at h
            · simp at h
        | leaf ty a m => simp at h
        | elem ty a m kids =>
          simp only at h
          split at h
          · rename_i ty' a' m' kids' inner rest hs
            split at h
            · split at h
              · rename_i innerRes hin
                split at h
                · rename_i c hc
                  simp at h; subst h
                  have hr := splitRight_norm _ _ _ hR hs
                  simp only [RSplit.normK, Bool.and_eq_true, Node.norm_elem] at hr
                  have h1 := hL.1
                  rw [Node.norm_elem] at h1
                  have ih := twoWay_norm S kids (f - 1) kids' inner innerRes (fnormKids_of_fnorm h1)
                    (fnormKids_of_fnorm hr.1) hin
                  simp [close_norm ih hc, hr.2]
                · simp at h
              · simp at h
            · simp at h
          · simp at h
          · simp at h

theorem RSplit.rest_norm {rs : RSplit} (h : rs.normK = true) : fnormKids rs.rest = true := by
  cases rs with
  | flat r => simpa [RSplit.normK, RSplit.rest] using h
  | deep c i r =>
    simp only [RSplit.normK, Bool.and_eq_true] at h
    simpa [RSplit.rest] using h.2

theorem rightJoin_norm {S : Schema} {M : List Node} {b : Nat} {rs : RSplit} {rj : List Node}
    (hM : fnormKids M = true) (hrs : rs.normK = true) (h : rightJoin S M b rs = .ok rj) :
    fnormKids rj = true := by
  unfold rightJoin at h
  split at h
  · split at h
    · simp at h; subst h; simp
    · simp at h
  · rename_i cR innerT rest
    split at h
    · simp at h
    · split at h
      · rename_i tyE aE mE kidsE tyR aR mR kidsR hl
        split at h
        · split at h
          · rename_i r hr
            split at h
            · rename_i c hc
              simp at h; subst h
              have hE : (Node.elem tyE aE mE kidsE).norm = true :=
                (fnormKids_iff M).1 hM _ (List.mem_of_getLast? hl)
              simp only [RSplit.normK, Bool.and_eq_true] at hrs
              rw [Node.norm_elem] at hE
              have hR := hrs.1
              rw [Node.norm_elem] at hR
              have := twoWay_norm S _ _ _ _ _ (fnormKids_of_fnorm hE) (fnormKids_of_fnorm hR) hr
              simp [close_norm this hc]
            · simp at h
          · simp at h
        · simp at h
      · simp at h

theorem flatTail_norm {S : Schema} {M : List Node} {a b : Nat} {Rt : List Node} {t : Nat} {X : List Node}
    (hM : fnormKids M = true) (hR : fnormKids Rt = true) (h : flatTail S M a b Rt t = .ok X) :
    fnormKids X = true := by
  unfold flatTail at h
  split at h
  · simp at h
  · split at h
    · simp at h
    · rename_i rs hs
      have hrs := splitRight_norm _ _ _ hR hs
      split at h
      · rename_i rj hrj
        simp at h; subst h
        simp [fnormKids_append, middle_norm hM, rightJoin_norm hM hrs hrj, RSplit.rest_norm hrs]
      · simp at h

theorem threeWay_norm (S : Schema) : ∀ (L : List Node) (f extra : Nat) (M : List Node) (a b : Nat)
    (Rt : List Node) (t : Nat) (X : List Node),
    fnormKids L = true → fnormKids M = true → fnormKids Rt = true →
    threeWay S L f extra M a b Rt t = .ok X → fnormKids X = true
  | [], f, extra, M, a, b, Rt, t, X, hL, hM, hR, h => by
    unfold threeWay at h
    split at h
    · split at h
      · exact flatTail_norm hM hR h
      · simp at h
    · simp at h
  | n :: ns, f, extra, M, a, b, Rt, t, X, hL, hM, hR, h => by
    unfold threeWay at h
    simp only [fnormKids_cons, Bool.and_eq_true] at hL
    split at h
    · split at h
      · exact flatTail_norm hM hR h
      · simp at h
    · rename_i hf
      split at h
      · split at h
        · rename_i r hr
          simp at h; subst h
          simp [hL.1, threeWay_norm S ns _ extra M a b Rt t r hL.2 hM hR hr]
        · simp at h
      · cases n with
        | text s m =>
          simp only at h
          split at h
          · simp at h
          · split at h
            · simp at h
            · split at h
              · rename_i r hr
                simp at h; subst h
                have h1 := hL.1
                simp only [Node.norm_text, Bool.not_eq_true'] at h1
                simp [flatTail_norm hM hR hr, take_nonempty hf h1]
              · simp at h
        | leaf ty at_ m => simp at h
        | elem tyL aL mL kidsL =>
          have hkL : fnormKids kidsL = true := by
            have h1 := hL.1
            rw [Node.norm_elem] at h1; exact fnormKids_of_fnorm h1
          simp only at h
          split at h
          · simp at h
          · rename_i rs hs
            have hrs := splitRight_norm _ _ _ hR hs
            split at h
            · split at h
              · rename_i tyR aR mR kidsR innerT rest
                simp only [RSplit.normK, Bool.and_eq_true, Node.norm_elem] at hrs
                split at h
                · split at h
                  · rename_i inner hin
                    split at h
                    · rename_i c hc
                      simp at h; subst h
                      have ih := threeWay_norm S kidsL (f - 1) (extra - 1) M a b kidsR innerT inner
                        hkL hM (fnormKids_of_fnorm hrs.1) hin
                      simp [close_norm ih hc, hrs.2]
                    · simp at h
                  · simp at h
                · simp at h
              · simp at h
            · split at h
              · simp at h
              · split at h
                · simp at h
                · rename_i cS Mtail
                  split at h
                  · rename_i tyS aS mS kidsS
                    have hkS : fnormKids kidsS = true := by
                      simp only [fnormKids_cons, Bool.and_eq_true, Node.norm_elem] at hM
                      exact fnormKids_of_fnorm hM.1
                    split at h
                    · simp at h
                    · split at h
                      · rename_i tyR aR mR kidsR innerT rest b' x hx
                        simp only [RSplit.normK, Bool.and_eq_true, Node.norm_elem] at hrs
                        split at h
                        · simp at h
                        · split at h
                          · rename_i inner hin
                            split at h
                            · rename_i c hc
                              simp at h; subst h
                              have ih := threeWay_norm S kidsL (f - 1) 0 kidsS _ b' kidsR innerT inner
                                hkL hkS (fnormKids_of_fnorm hrs.1) hin
                              simp [close_norm ih hc, hrs.2]
                            · simp at h
                          · simp at h
                      · split at h
                        · simp at h
                        · split at h
                          · rename_i lr hlr
                            split at h
                            · rename_i cl hcl
                              split at h
                              · rename_i rj hrj
                                simp at h; subst h
                                have h2 := twoWay_norm S _ _ _ _ _ hkL hkS hlr
                                simp [close_norm h2 hcl, fnormKids_append, middle_norm hM,
                                  rightJoin_norm hM hrs hrj, RSplit.rest_norm hrs]
                              · simp at h
                            · simp at h
                          · simp at h
                  · simp at h

theorem atLevel_norm {S : Schema} {sl : Slice} {ty : TypeId} {level : List Node} {f t extra : Nat}
    {X : List Node} (hl : fnorm level = true) (hs : fnorm sl.content = true)
    (h : atLevel S sl ty level f t extra = .ok X) : fnorm X = true := by
  have hlk := fnormKids_of_fnorm hl
  have hsk := fnormKids_of_fnorm hs
  unfold atLevel at h
  simp only at h
  split at h
  · rename_i c hc
    split at h
    · simp at h; subst h
      split at hc
      · cases hx : twoWay S level f level t with
        | error e => rw [hx] at hc; simp [Except.map] at hc
        | ok r =>
          rw [hx] at hc; simp [Except.map] at hc; subst hc
          exact fromArray_norm _ (twoWay_norm S _ _ _ _ _ hlk hlk hx)
      · split at hc
        · split at hc
          · rename_i l r hl' hr'
            simp at hc; subst hc
            exact fappend_norm _ _ (fappend_norm _ _ (fcut_norm _ _ _ _ hl hl') hs)
              (fcut_norm _ _ _ _ hl hr')
          · simp at hc
          · simp at hc
        · cases hx : threeWay S level f extra sl.content sl.openStart sl.openEnd level t with
          | error e => rw [hx] at hc; simp [Except.map] at hc
          | ok r =>
            rw [hx] at hc; simp [Except.map] at hc; subst hc
            exact fromArray_norm _ (threeWay_norm S _ _ _ _ _ _ _ _ _ hlk hsk hlk hx)
    · simp at h
  · simp at h

theorem adjOk_elem_right (p : Node) (ty a m k) : adjOk p (Node.elem ty a m k) = true := by
  cases p <;> simp [adjOk]

theorem adjOk_elem_left (p : Node) (ty a m k) : adjOk (Node.elem ty a m k) p = true := by
  cases p <;> simp [adjOk]

/-- replacing a child by an element keeps the no-adjacent-equal-marks-text property -/
theorem chainOk_set_elem (n : Node) (ns : List Node) (ty a m k) : ∀ pre : List Node,
    chainOk (pre ++ n :: ns) = true → chainOk (pre ++ Node.elem ty a m k :: ns) = true
  | [], h => by
    cases ns with
    | nil => simp [chainOk]
    | cons b rest =>
      simp only [List.nil_append, chainOk, Bool.and_eq_true] at h ⊢
      exact ⟨adjOk_elem_left _ _ _ _ _, h.2⟩
  | [p], h => by
    have h0 := chainOk_set_elem n ns ty a m k []
    simp only [List.cons_append, List.nil_append, chainOk, Bool.and_eq_true] at h h0 ⊢
    exact ⟨adjOk_elem_right _ _ _ _ _, h0 h.2⟩
  | p :: q :: r, h => by
    have h0 := chainOk_set_elem n ns ty a m k (q :: r)
    simp only [List.cons_append, chainOk, Bool.and_eq_true] at h h0 ⊢
    exact ⟨h.1, h0 h.2⟩

theorem outer_norm (S : Schema) (sl : Slice) (hs : fnorm sl.content = true) :
    ∀ (rest : List Node) (ty : TypeId) (level : List Node) (f0 t0 idx f t extra : Nat)
      (pre X : List Node),
      level = pre ++ rest → idx = pre.length → fnorm level = true →
      outer S sl ty level f0 t0 idx rest f t extra = .ok X → fnorm X = true
  | [], ty, level, f0, t0, idx, f, t, extra, pre, X, hl, hi, hn, h => by
    unfold outer at h
    exact atLevel_norm hn hs h
  | n :: ns, ty, level, f0, t0, idx, f, t, extra, pre, X, hl, hi, hn, h => by
    unfold outer at h
    split at h
    · exact atLevel_norm hn hs h
    · split at h
      · refine outer_norm S sl hs ns ty level f0 t0 (idx + 1) (f - n.size) (t - n.size) extra
          (pre ++ [n]) X ?_ ?_ hn h
        · simp [hl]
        · simp [hi]
      · split at h
        · rename_i tyC aC mC kidsC _
          split at h
          · split at h
            · rename_i inner hin
              simp at h; subst h
              subst hl; subst hi
              simp only [fnorm, Bool.and_eq_true] at hn
              have hk : fnorm kidsC = true := by
                have h1 := hn.1
                simp only [fnormKids_append, fnormKids_cons, Bool.and_eq_true] at h1
                rw [← Node.norm_elem tyC aC mC]; exact h1.2.1
              have ih := outer_norm S sl hs kidsC tyC kidsC (f - 1) (t - 1) 0 (f - 1) (t - 1) (extra - 1)
                [] inner rfl rfl hk hin
              rw [set_mid]
              simp only [fnorm, Bool.and_eq_true]
              refine ⟨?_, chainOk_set_elem _ _ _ _ _ _ _ hn.2⟩
              have h1 := hn.1
              simp only [fnormKids_append, fnormKids_cons, Bool.and_eq_true] at h1 ⊢
              exact ⟨h1.1, by rw [Node.norm_elem]; exact ih, h1.2.2⟩
            · simp at h
          · exact atLevel_norm hn hs h
        · exact atLevel_norm hn hs h

/-- **normal form is preserved** (adjacent same-markup text is merged) -/
theorem replaceKids_norm (S : Schema) (ty : TypeId) (kids : List Node) (f t : Nat) (sl : Slice)
    (kids' : List Node) (hn : fnorm kids = true) (hs : fnorm sl.content = true)
    (h : replaceKids S ty kids f t sl = .ok kids') : fnorm kids' = true := by
  obtain ⟨_, _, _, ho⟩ := replaceKids_ok h
  exact outer_norm S sl hs kids ty kids f t 0 f t _ [] kids' rfl rfl hn ho

/-! ### the statements as originally posed (binder form), checked against the proofs above -/

example (Rt : List Node) (t : Nat) (r : RSplit) (h : splitRight Rt t = some r) :
    r.toks = (ftoks Rt).drop t := splitRight_toks Rt t r h

example (S : Schema) (L : List Node) (f : Nat) (Rt : List Node) (t : Nat) (X : List Node)
    (h : twoWay S L f Rt t = .ok X) : ftoks X = (ftoks L).take f ++ (ftoks Rt).drop t :=
  twoWay_toks S L f Rt t X h

example (S : Schema) (L : List Node) (f extra : Nat) (M : List Node) (a b : Nat)
    (Rt : List Node) (t : Nat) (X : List Node)
    (ha : a ≤ spineL M) (hb : b ≤ spineR M)
    (h : threeWay S L f extra M a b Rt t = .ok X) :
    ftoks X = (ftoks L).take f ++ midToks M a b ++ (ftoks Rt).drop t :=
  threeWay_toks S L f extra M a b Rt t X ha hb h

end PM
