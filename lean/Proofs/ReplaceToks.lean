/-
  Proofs/ReplaceToks.lean — `replace` is a splice of the token sequence (C02), preserves normal
  form, and what it returns has validated content at every rebuilt node (used by C01).
-/
import PM.Basic
import PM.Fragment
import PM.Content
import PM.Replace
import Proofs.Toks
import Proofs.TokCore
namespace PM

/-- tokens remaining at/after an offset, as described by `splitRight` -/
def RSplit.toks : RSplit → List Tok
  | .flat rest => ftoks rest
  | .deep (.elem _ _ _ kids) inner rest => (ftoks kids).drop inner ++ [Tok.cl] ++ ftoks rest
  | .deep _ _ rest => ftoks rest

theorem splitRight_toks (Rt : List Node) (t : Nat) (r : RSplit) (h : splitRight Rt t = some r) :
    r.toks = (ftoks Rt).drop t := by
  sorry

/-- **two-way join is a splice** -/
theorem twoWay_toks (S : Schema) (L : List Node) (f : Nat) (Rt : List Node) (t : Nat) (X : List Node)
    (h : twoWay S L f Rt t = .ok X) : ftoks X = (ftoks L).take f ++ (ftoks Rt).drop t := by
  sorry

/-- tokens of the slice content `M` with `a` open levels on the left and `b` on the right removed -/
def midToks (M : List Node) (a b : Nat) : List Tok :=
  ((ftoks M).drop a).take (fsize M - a - b)

/-- **three-way join is a splice** (at and below the slice's top level, and above it where the
    "slice" is a wrapper copy of `from`'s ancestors) -/
theorem threeWay_toks (S : Schema) (L : List Node) (f extra : Nat) (M : List Node) (a b : Nat)
    (Rt : List Node) (t : Nat) (X : List Node)
    (ha : a ≤ spineL M) (hb : b ≤ spineR M)
    (h : threeWay S L f extra M a b Rt t = .ok X) :
    ftoks X = (ftoks L).take f ++ midToks M a b ++ (ftoks Rt).drop t := by
  sorry

/-- **replace is a splice**: on success the new token sequence is
    `old[:from] ++ slice tokens ++ old[to:]`. -/
theorem replaceKids_toks (S : Schema) (ty : TypeId) (kids : List Node) (f t : Nat) (sl : Slice)
    (kids' : List Node) (h : replaceKids S ty kids f t sl = .ok kids') :
    ftoks kids' = (ftoks kids).take f ++ sl.toks ++ (ftoks kids).drop t := by
  sorry

/-- success implies the guards the model checks -/
theorem replaceKids_guards (S : Schema) (ty : TypeId) (kids : List Node) (f t : Nat) (sl : Slice)
    (kids' : List Node) (h : replaceKids S ty kids f t sl = .ok kids') :
    f ≤ t ∧ t ≤ fsize kids ∧ sl.wf = true := by
  sorry

/-- **size arithmetic** -/
theorem replaceKids_size (S : Schema) (ty : TypeId) (kids : List Node) (f t : Nat) (sl : Slice)
    (kids' : List Node) (h : replaceKids S ty kids f t sl = .ok kids') :
    (fsize kids' : Int) = fsize kids + sl.size - ((t : Int) - f) := by
  sorry

/-- **normal form is preserved** (adjacent same-markup text is merged) -/
theorem replaceKids_norm (S : Schema) (ty : TypeId) (kids : List Node) (f t : Nat) (sl : Slice)
    (kids' : List Node) (hn : fnorm kids = true) (hs : fnorm sl.content = true)
    (h : replaceKids S ty kids f t sl = .ok kids') : fnorm kids' = true := by
  sorry

end PM
