/-
  Proofs/MarkPlanUndoAdd.lean — `add_mark` emits only steps whose naive inverse is exact (C04, work
  package `wk-histundo`): second invariant of the fold of `add_mark` (`AddInv2`: `removed` ranges
  with the same mark are disjoint, `added` ranges are disjoint) and the guards of the planned steps
  along their application.
-/
import Proofs.MarkPlanUndo
namespace PM
open MarkGuard

/-! ### 1. the second invariant -/

/-- an earlier `removed` range with the same mark ends before a later one starts (the lists are kept
    latest first) -/
def RSep (later earlier : Nat × Nat × Mark) : Prop := later.2.2 = earlier.2.2 → earlier.2.1 ≤ later.1
def ASep (later earlier : Nat × Nat) : Prop := earlier.2 ≤ later.1

structure AddJ (S : Schema) (m : Mark) (P : List NV) (e_ : Nat) (done : Marks)
    (R : List (Nat × Nat × Mark)) : Prop where
  k1 : ∀ r ∈ R, (∃ w ∈ P, Proc S m w ∧ r.2.1 ≤ w.pos + w.node.size) ∨ (r.2.1 = e_ ∧ r.2.2 ∈ done)
  k2 : R.Pairwise RSep

theorem addMarkDisplace_inv2 (S : Schema) (m : Mark) (P : List NV) (a e_ : Nat) (newSet done : Marks)
    (R : List (Nat × Nat × Mark)) (x : Mark)
    (hP : ∀ w ∈ P, Proc S m w → w.pos + w.node.size ≤ a)
    (hJ : AddJ S m P e_ done R) (hx : x ∉ done) :
    AddJ S m P e_ (done ++ [x]) (addMarkDisplace newSet a e_ R x) := by
  have hweak : ∀ r ∈ R, (∃ w ∈ P, Proc S m w ∧ r.2.1 ≤ w.pos + w.node.size) ∨
      (r.2.1 = e_ ∧ r.2.2 ∈ done ++ [x]) := by
    intro r hr
    rcases hJ.k1 r hr with h | ⟨h1, h2⟩
    · exact .inl h
    · exact .inr ⟨h1, List.mem_append_left _ h2⟩
  have hnew : ∀ earlier ∈ R, RSep (a, e_, x) earlier := by
    intro r hr hst
    rcases hJ.k1 r hr with ⟨w, hw, hpw, hle⟩ | ⟨_, h2⟩
    · have := hP w hw hpw
      simp only; omega
    · have hst' : x = r.2.2 := hst
      rw [← hst'] at h2
      exact absurd h2 hx
  unfold addMarkDisplace
  split
  · exact ⟨hweak, hJ.k2⟩
  · cases R with
    | nil =>
      refine ⟨fun r hr => ?_, List.pairwise_singleton _ _⟩
      simp only [List.mem_singleton] at hr
      subst hr
      exact .inr ⟨rfl, by simp⟩
    | cons r0 rest =>
      obtain ⟨a0, b0, y0⟩ := r0
      simp only
      split
      · rename_i hc
        simp only [Bool.and_eq_true, beq_iff_eq] at hc
        obtain ⟨_, rfl⟩ := hc
        constructor
        · intro r hr
          rcases List.mem_cons.mp hr with rfl | hr
          · exact .inr ⟨rfl, by simp⟩
          · exact hweak r (List.mem_cons_of_mem _ hr)
        · have := hJ.k2
          rw [List.pairwise_cons] at this ⊢
          exact ⟨fun r hr hst => this.1 r hr hst, this.2⟩
      · constructor
        · intro r hr
          rcases List.mem_cons.mp hr with rfl | hr
          · exact .inr ⟨rfl, by simp⟩
          · exact hweak r hr
        · rw [List.pairwise_cons]
          exact ⟨hnew, hJ.k2⟩

theorem addMarkDisplace_fold2 (S : Schema) (m : Mark) (P : List NV) (a e_ : Nat) (newSet : Marks)
    (hP : ∀ w ∈ P, Proc S m w → w.pos + w.node.size ≤ a) :
    ∀ (ms done : Marks) (R : List (Nat × Nat × Mark)), AddJ S m P e_ done R → ms.Nodup →
      (∀ x ∈ ms, x ∉ done) →
      AddJ S m P e_ (done ++ ms) (ms.foldl (addMarkDisplace newSet a e_) R)
  | [], done, R, hJ, _, _ => by simpa using hJ
  | x :: ms, done, R, hJ, hnd, hms => by
    obtain ⟨hx1, hnd'⟩ := List.nodup_cons.mp hnd
    have h1 := addMarkDisplace_inv2 S m P a e_ newSet done R x hP hJ (hms x (by simp))
    have := addMarkDisplace_fold2 S m P a e_ newSet hP ms (done ++ [x]) _ h1 hnd' (fun y hy hm => by
      rcases List.mem_append.mp hm with hm | hm
      · exact hms y (by simp [hy]) hm
      · simp only [List.mem_singleton] at hm
        subst hm
        exact hx1 hy)
    simpa using this

structure AddInv2 (S : Schema) (m : Mark) (P : List NV) (st : AddSt) : Prop where
  rto : ∀ r ∈ st.removed, ∃ w ∈ P, Proc S m w ∧ r.2.1 ≤ w.pos + w.node.size
  rpair : st.removed.Pairwise RSep
  ato : ∀ r ∈ st.added, ∃ w ∈ P, Proc S m w ∧ r.2 ≤ w.pos + w.node.size
  apair : st.added.Pairwise ASep

theorem AddInv2.weaken (S : Schema) (m : Mark) (P : List NV) (st : AddSt) (v : NV)
    (hI : AddInv2 S m P st) : AddInv2 S m (P ++ [v]) st := by
  constructor
  · intro r hr
    obtain ⟨w, hw, h⟩ := hI.rto r hr
    exact ⟨w, List.mem_append_left _ hw, h⟩
  · exact hI.rpair
  · intro r hr
    obtain ⟨w, hw, h⟩ := hI.ato r hr
    exact ⟨w, List.mem_append_left _ hw, h⟩
  · exact hI.apair

theorem addMarkVisit_inv2 (S : Schema) (f t : Nat) (m : Mark) (P : List NV) (st : AddSt) (v : NV)
    (hI : AddInv2 S m P st) (hord : ∀ w ∈ P, w.pos + w.node.ownLen ≤ v.pos)
    (hleaf : ∀ w ∈ P, S.nodeInline w.node = true → w.node.isLeaf = true)
    (hnd : v.node.marks.Nodup) :
    AddInv2 S m (P ++ [v]) (addMarkVisit S f t m st v) := by
  unfold addMarkVisit
  by_cases hin : S.nodeInline v.node = true
  · simp only [hin, Bool.not_true, Bool.false_eq_true, if_false]
    by_cases hc : (!m.isInSet v.node.marks && (S.nodeType v.pTy).allowsMarkType m.ty) = true
    · rw [if_pos hc]
      simp only [Bool.and_eq_true, Bool.not_eq_eq_eq_not, Bool.not_true] at hc
      have hproc : Proc S m v := ⟨hin, hc.1, hc.2⟩
      have hP : ∀ w ∈ P, Proc S m w → w.pos + w.node.size ≤ max v.pos f := by
        intro w hw hpw
        have := hord w hw
        rw [Node.ownLen_of_isLeaf w.node (hleaf w hw hpw.1)] at this
        omega
      have hJ0 : AddJ S m P (min (v.pos + v.node.size) t) [] st.removed :=
        ⟨fun r hr => .inl (hI.rto r hr), hI.rpair⟩
      have hJ := addMarkDisplace_fold2 S m P (max v.pos f) (min (v.pos + v.node.size) t)
        (m.addToSet S v.node.marks) hP v.node.marks [] st.removed hJ0 hnd (fun x _ => by simp)
      constructor
      · intro r hr
        rcases hJ.k1 r hr with ⟨w, hw, h⟩ | ⟨h1, _⟩
        · exact ⟨w, List.mem_append_left _ hw, h⟩
        · exact ⟨v, by simp, hproc, by rw [h1]; exact Nat.min_le_left _ _⟩
      · exact hJ.k2
      · intro r hr
        simp only at hr
        cases hA : st.added with
        | nil =>
          rw [hA] at hr
          simp only [addMarkExtend, List.mem_singleton] at hr
          subst hr
          exact ⟨v, by simp, hproc, Nat.min_le_left _ _⟩
        | cons r0 rest =>
          obtain ⟨a0, b0⟩ := r0
          rw [hA] at hr
          simp only [addMarkExtend] at hr
          split at hr
          · rcases List.mem_cons.mp hr with rfl | hr
            · exact ⟨v, by simp, hproc, Nat.min_le_left _ _⟩
            · obtain ⟨w, hw, h⟩ := hI.ato r (by rw [hA]; exact List.mem_cons_of_mem _ hr)
              exact ⟨w, List.mem_append_left _ hw, h⟩
          · rcases List.mem_cons.mp hr with rfl | hr
            · exact ⟨v, by simp, hproc, Nat.min_le_left _ _⟩
            · obtain ⟨w, hw, h⟩ := hI.ato r (by rw [hA]; exact hr)
              exact ⟨w, List.mem_append_left _ hw, h⟩
      · simp only
        have hall : ∀ r ∈ st.added, ASep (max v.pos f, min (v.pos + v.node.size) t) r := by
          intro r hr
          obtain ⟨w, hw, hpw, hle⟩ := hI.ato r hr
          have := hP w hw hpw
          simp only [ASep]; omega
        cases hA : st.added with
        | nil => simp [addMarkExtend]
        | cons r0 rest =>
          obtain ⟨a0, b0⟩ := r0
          have hold := hI.apair
          rw [hA] at hold hall
          simp only [addMarkExtend]
          split
          · rw [List.pairwise_cons] at hold ⊢
            exact ⟨fun r hr => hold.1 r hr, hold.2⟩
          · rw [List.pairwise_cons]
            exact ⟨hall, hold⟩
    · rw [if_neg hc]
      exact hI.weaken S m P st v
  · simp only [hin, Bool.not_false, if_true]
    exact hI.weaken S m P st v

theorem addMarkVisit_fold2 (S : Schema) (f t : Nat) (m : Mark) :
    ∀ (rest P : List NV) (st : AddSt), AddInv2 S m P st →
    (P ++ rest).Pairwise (fun v w => v.pos + v.node.ownLen ≤ w.pos) →
    (∀ w ∈ P ++ rest, S.nodeInline w.node = true → w.node.isLeaf = true) →
    (∀ w ∈ P ++ rest, w.node.marks.Nodup) →
    AddInv2 S m (P ++ rest) (rest.foldl (addMarkVisit S f t m) st)
  | [], P, st, hI, _, _, _ => by simpa using hI
  | v :: rest, P, st, hI, hpw, hleaf, hnd => by
    have hpw' : ((P ++ [v]) ++ rest).Pairwise (fun v w => v.pos + v.node.ownLen ≤ w.pos) := by
      simpa using hpw
    have hord : ∀ w ∈ P, w.pos + w.node.ownLen ≤ v.pos := by
      intro w hw
      exact (List.pairwise_append.mp hpw).2.2 w hw v (List.mem_cons_self ..)
    have h1 := addMarkVisit_inv2 S f t m P st v hI hord
      (fun w hw => hleaf w (List.mem_append_left _ hw)) (hnd v (by simp))
    have := addMarkVisit_fold2 S f t m rest (P ++ [v]) (addMarkVisit S f t m st v) h1 hpw'
      (by simpa using hleaf) (by simpa using hnd)
    simpa using this

/-! ### 2. tokens of the text and leaf nodes the walk visits -/

/-- the tokens of a visited text or leaf node carry its marks -/
theorem leaf_visit_tok (S : Schema) (doc : Node) (f t : Nat) (v : NV) (hv : v ∈ S.docVisits doc f t)
    (hleaf : v.node.isLeaf = true) (i : Nat) (h1 : v.pos ≤ i) (h2 : i < v.pos + v.node.size) :
    i < (ftoks doc.kids).length ∧ (tokD doc i).marks = v.node.marks ∧
      isInlineTok S (tokD doc i) = S.nodeInline v.node ∧ isAtomTok S (tokD doc i) = S.nodeInline v.node := by
  obtain ⟨hw, _⟩ := docVisits_window S doc f t v hv
  have hlen : (v.node.toks).length = v.node.size := Node.toks_length v.node
  have hget : (ftoks doc.kids)[i]? = v.node.toks[i - v.pos]? := by
    rw [← hw, List.getElem?_take_of_lt (by omega), List.getElem?_drop]
    congr 1; omega
  have hlt : i - v.pos < v.node.toks.length := by omega
  have hi : i < (ftoks doc.kids).length := by
    apply Nat.lt_of_not_le
    intro hc
    rw [List.getElem?_eq_none hc, List.getElem?_eq_getElem hlt] at hget
    cases hget
  refine ⟨hi, ?_⟩
  have hq : v.node.toks[i - v.pos]? = some (tokD doc i) := by
    rw [← hget]; unfold tokD
    rw [List.getD_eq_getElem?_getD, List.getElem?_eq_getElem hi]; rfl
  cases hn : v.node with
  | text s m =>
    rw [hn, Node.toks_text, List.getElem?_map] at hq
    cases hs : s[i - v.pos]? with
    | none => simp [hs] at hq
    | some c =>
      simp only [hs, Option.map_some, Option.some.injEq] at hq
      rw [← hq]
      exact ⟨rfl, rfl, rfl⟩
  | leaf ty a m =>
    have h0 : i - v.pos = 0 := by
      rw [hn] at h2; simp only [Node.size] at h2; omega
    rw [hn, h0] at hq
    simp only [Node.toks, List.getElem?_cons_zero, Option.some.injEq] at hq
    rw [← hq]
    exact ⟨rfl, rfl, rfl⟩
  | elem ty a m k => rw [hn] at hleaf; simp [Node.isLeaf] at hleaf

/-- two visited text / leaf nodes that contain the same token are the same visit -/
theorem leaf_visit_unique (S : Schema) (doc : Node) (f t : Nat) (v w : NV)
    (hv : v ∈ S.docVisits doc f t) (hw : w ∈ S.docVisits doc f t)
    (hlv : v.node.isLeaf = true) (hlw : w.node.isLeaf = true) (i : Nat)
    (h1 : v.pos ≤ i) (h2 : i < v.pos + v.node.size) (h3 : w.pos ≤ i) (h4 : i < w.pos + w.node.size) :
    w = v := by
  have hpw := (nodesBetweenP_order doc.kids (S.tyOf doc) f t 0 0).2
  have e1 := Node.ownLen_of_isLeaf v.node hlv
  have e2 := Node.ownLen_of_isLeaf w.node hlw
  rcases pairwise_trichotomy _ _ hpw w hw v hv with e | e | e
  · exact e
  · omega
  · omega

/-- mark-set algebra of an `AddMarkStep` planned by `add_mark`: on the set left after the displaced
    marks were removed, adding `m` and removing it again changes nothing -/
theorem rem_add_filter (S : Schema) (m : Mark) (s0 : Marks) (hm : m ∉ s0) :
    m.removeFromSet (m.addToSet S (s0.filter (fun x => x.isInSet (m.addToSet S s0)))) =
      s0.filter (fun x => x.isInSet (m.addToSet S s0)) := by
  rw [addToSet_filter S m s0 hm, addToSet_eq]
  split
  · rw [(removeFromSet_eq_self_iff m s0).mpr hm]
    exact (List.filter_eq_self.mpr (fun x hx => (isInSet_iff x s0).mpr hx)).symm
  · have hmk : m ∉ s0.filter (fun o => !S.excludes m.ty o.ty) := fun h => hm (List.mem_filter.mp h).1
    have h1 : m.removeFromSet (insertByRank m (s0.filter (fun o => !S.excludes m.ty o.ty))) =
        s0.filter (fun o => !S.excludes m.ty o.ty) := filter_ne_insertByRank m _ hmk
    rw [h1]
    apply List.filter_congr
    intro x hx
    have hne : x ≠ m := fun e => hm (e ▸ hx)
    cases he : S.excludes m.ty x.ty with
    | true =>
      simp only [Bool.not_true]
      symm
      rw [← Bool.not_eq_true, isInSet_iff, mem_insertByRank, List.mem_filter]
      simp [hne, he]
    | false =>
      simp only [Bool.not_false]
      symm
      rw [isInSet_iff, mem_insertByRank, List.mem_filter]
      exact .inr ⟨hx, by simp [he]⟩

/-! ### 3. the planned steps satisfy their guards -/

theorem applyAll_addMarks_tok (S : Schema) (m : Mark) (as : List (Nat × Nat)) (doc d : Node)
    (h : S.applyAll (as.map (fun r => Step.addMark r.1 r.2 m)) doc = .ok d) :
    (ftoks d.kids).length = (ftoks doc.kids).length ∧
    ∀ i, i < (ftoks doc.kids).length → adCovers as i = false → tokD d i = tokD doc i := by
  obtain ⟨_, len, p⟩ := applyAll_addMarks S m as doc d h
  refine ⟨len, fun i hi hc => ?_⟩
  unfold tokD
  rw [p i hi, if_neg (by rw [hc]; simp)]

/-- **`add_mark` emits only steps whose naive inverse is exact** (token form): the `k`-th planned
    step, applied to the document `d` the first `k` steps lead to, is either a `RemoveMarkStep(a, b, x)`
    for a displaced mark — then `removeMarkUndoable S d a b x` holds provided no inline node starting in
    `[a, b)` carries a second mark of `x`'s type — or an `AddMarkStep(a, b, m)`, and then
    `addMarkUndoable S d a b m` holds.  `doc` valid, no inline node with content. -/
theorem planAddMark_steps_guard (S : Schema) (doc : Node) (f t : Nat) (m : Mark)
    (hv : S.checkNode doc = true) (hflat : flatInline S doc = true)
    (k : Nat) (hk : k < (planAddMarkSteps S doc f t m).length) (d : Node)
    (hd : S.applyAll ((planAddMarkSteps S doc f t m).take k) doc = .ok d) :
    (∃ a b x, (planAddMarkSteps S doc f t m)[k] = .removeMark a b x ∧ f ≤ a ∧ b ≤ t ∧
      (sameTypeFree S d a b x.ty = true → removeMarkUndoable S d a b x = true)) ∨
    (∃ a b, (planAddMarkSteps S doc f t m)[k] = .addMark a b m ∧ f ≤ a ∧ b ≤ t ∧
      addMarkUndoable S d a b m = true) := by
  have hpw := (nodesBetweenP_order doc.kids (S.tyOf doc) f t 0 0).2
  have hfl := docVisits_flat S doc f t hflat
  unfold planAddMarkSteps AddSt.steps at hk hd ⊢
  generalize hst : (S.docVisits doc f t).foldl (addMarkVisit S f t m) {} = st at hk hd ⊢
  have hI : AddPlanInv S f t m (S.docVisits doc f t) st := by
    have := addMarkVisit_fold S f t m (S.docVisits doc f t) [] {}
      ⟨by simp, by simp, by simp, by simp⟩ (by simpa [Schema.docVisits] using hpw)
    rw [hst] at this
    simpa using this
  have hI2 : AddInv2 S m (S.docVisits doc f t) st := by
    have := addMarkVisit_fold2 S f t m (S.docVisits doc f t) [] {}
      ⟨by simp, List.Pairwise.nil, by simp, List.Pairwise.nil⟩ (by simpa [Schema.docVisits] using hpw)
      (by simpa using hfl) (by simpa using fun w hw => (docVisits_canon S doc f t hv w hw).nodup)
    rw [hst] at this
    simpa using this
  -- a processed visit containing token `i`: the token is that node's
  have htokOf : ∀ w ∈ S.docVisits doc f t, Proc S m w → ∀ i, InRange f t w i →
      i < (ftoks doc.kids).length ∧ (tokD doc i).marks = w.node.marks ∧
        isInlineTok S (tokD doc i) = true ∧ isAtomTok S (tokD doc i) = true := by
    intro w hw hp i hir
    obtain ⟨h1, h2⟩ := hir
    obtain ⟨c1, c2, c3, c4⟩ := leaf_visit_tok S doc f t w hw (hfl w hw hp.1) i (by omega) (by omega)
    exact ⟨c1, c2, by rw [c3]; exact hp.1, by rw [c4]; exact hp.1⟩
  have hlenR : (st.removed.reverse.map (fun r => Step.removeMark r.1 r.2.1 r.2.2)).length = st.removed.length := by simp
  by_cases hkR : k < st.removed.length
  · -- a `RemoveMarkStep` for a displaced mark
    left
    have hkr : k < st.removed.reverse.length := by simpa using hkR
    have hget : (st.removed.reverse.map (fun r => Step.removeMark r.1 r.2.1 r.2.2) ++
        st.added.reverse.map (fun r => Step.addMark r.1 r.2 m))[k] =
        Step.removeMark st.removed.reverse[k].1 st.removed.reverse[k].2.1 st.removed.reverse[k].2.2 := by
      rw [List.getElem_append_left (by simpa using hkR)]
      simp
    have htake : (st.removed.reverse.map (fun r => Step.removeMark r.1 r.2.1 r.2.2) ++
        st.added.reverse.map (fun r => Step.addMark r.1 r.2 m)).take k =
        (st.removed.reverse.take k).map (fun r => Step.removeMark r.1 r.2.1 r.2.2) := by
      rw [List.take_append, hlenR, show k - st.removed.length = 0 by omega]
      simp [List.map_take]
    rw [htake] at hd
    have hmem : st.removed.reverse[k] ∈ st.removed := List.mem_reverse.mp (List.getElem_mem hkr)
    obtain ⟨g1, g2, _, _, g5⟩ := hI.rgood _ hmem
    refine ⟨_, _, _, hget, g1, g2, fun hty => ?_⟩
    refine removeUndoable_after S doc d _ _ _ _ hv hd (fun i h1 h2 hi _ => ?_) (fun i h1 h2 => ?_) hty
    · obtain ⟨w, hw, hp, hdisp, hir⟩ := g5 i h1 h2
      obtain ⟨_, c2, _, c4⟩ := htokOf w hw hp i hir
      exact ⟨by rw [c2]; exact hdisp.1, c4⟩
    · rw [← Bool.not_eq_true, rmCovers_iff]
      rintro ⟨r, hr, hrx, c1, c2⟩
      obtain ⟨j, hj, rfl⟩ := List.getElem_of_mem hr
      simp only [List.length_take] at hj
      rw [List.getElem_take] at hrx c1 c2
      have hp := List.pairwise_reverse.mpr hI2.rpair
      have := (List.pairwise_iff_getElem.mp hp) j k (by omega) hkr (by omega) hrx.symm
      omega
  · -- an `AddMarkStep`
    right
    have hkA : k - st.removed.length < st.added.reverse.length := by
      simp only [List.length_append, List.length_map, List.length_reverse] at hk ⊢
      omega
    have hget : (st.removed.reverse.map (fun r => Step.removeMark r.1 r.2.1 r.2.2) ++
        st.added.reverse.map (fun r => Step.addMark r.1 r.2 m))[k] =
        Step.addMark st.added.reverse[k - st.removed.length].1 st.added.reverse[k - st.removed.length].2 m := by
      rw [List.getElem_append_right (by simp; omega)]
      simp
    have htake : (st.removed.reverse.map (fun r => Step.removeMark r.1 r.2.1 r.2.2) ++
        st.added.reverse.map (fun r => Step.addMark r.1 r.2 m)).take k =
        st.removed.reverse.map (fun r => Step.removeMark r.1 r.2.1 r.2.2) ++
        (st.added.reverse.take (k - st.removed.length)).map (fun r => Step.addMark r.1 r.2 m) := by
      rw [List.take_append, hlenR, List.take_of_length_le (by simp; omega), List.map_take]
    rw [htake] at hd
    obtain ⟨d1, hd1, hd2⟩ := applyAll_append S _ _ doc d hd
    obtain ⟨len1, tok1, _⟩ := applyAll_removeMarks_ctx S _ doc d1 hd1
    obtain ⟨len2, tok2⟩ := applyAll_addMarks_tok S m _ d1 d hd2
    have hmem : st.added.reverse[k - st.removed.length] ∈ st.added := List.mem_reverse.mp (List.getElem_mem hkA)
    obtain ⟨g1, g2, _, g5⟩ := hI.agood _ hmem
    refine ⟨_, _, hget, g1, g2, ?_⟩
    rw [addMarkUndoable_iff]
    intro i hi h1 h2
    rw [len2, len1] at hi
    obtain ⟨w, hw, hp, hir⟩ := g5 i h1 h2
    obtain ⟨_, c2, c3, c4⟩ := htokOf w hw hp i hir
    -- no earlier add range covers `i`
    have hnc : adCovers (st.added.reverse.take (k - st.removed.length)) i = false := by
      rw [← Bool.not_eq_true, adCovers_iff]
      rintro ⟨r, hr, q1, q2⟩
      obtain ⟨j, hj, rfl⟩ := List.getElem_of_mem hr
      simp only [List.length_take] at hj
      rw [List.getElem_take] at q1 q2
      have hpp := List.pairwise_reverse.mpr hI2.apair
      have := (List.pairwise_iff_getElem.mp hpp) j (k - st.removed.length) (by omega) hkA (by omega)
      simp only [ASep] at this
      omega
    rw [tok2 i (by rw [len1]; exact hi) hnc, tok1 i hi]
    have hne := isInlineTok_ne_cl S _ c3
    have hmn : m ∉ (tokD doc i).marks := by
      rw [c2]; intro hm
      have := hp.2.1
      rw [(isInSet_iff m _).mpr hm] at this
      cases this
    -- the marks left by the removals: exactly those the new set keeps
    have hrm : rmTok S (fun x => !rmCovers st.removed.reverse i x) (tokD doc i) =
        (tokD doc i).withMarks ((tokD doc i).marks.filter (fun x => x.isInSet (m.addToSet S (tokD doc i).marks))) := by
      unfold rmTok
      rw [if_pos c3]
      congr 1
      apply List.filter_congr
      intro x hx
      rw [rmCovers_reverse]
      cases hdx : x.isInSet (m.addToSet S (tokD doc i).marks) with
      | true =>
        cases hc : rmCovers st.removed i x with
        | false => rfl
        | true =>
          exfalso
          obtain ⟨r, hr', rfl, q1, q2⟩ := (rmCovers_iff _ _ _).mp hc
          obtain ⟨w', hw', pw', dw', iw'⟩ := (hI.rgood r hr').2.2.2.2 i q1 q2
          have := leaf_visit_unique S doc f t w w' hw hw' (hfl w hw hp.1) (hfl w' hw' pw'.1) i
            (by have := hir.1; omega) (by have := hir.2; omega) (by have := iw'.1; omega) (by have := iw'.2; omega)
          subst this
          have := dw'.2
          rw [← c2, hdx] at this
          cases this
      | false =>
        have hcov : CovR st.removed x i := hI.rcov w hw hp x ⟨by rw [← c2]; exact hx, by rw [← c2]; exact hdx⟩ i
          hir.1 (by rw [Node.ownLen_of_isLeaf w.node (hfl w hw hp.1)]; exact hir.2)
        rw [(rmCovers_iff _ _ _).mpr hcov]
        rfl
    rw [hrm]
    unfold addUndoTok
    rw [tokInline_eq, tokAtom_eq, tokMarks_eq, Tok.withMarks_marks _ _ hne,
      isInlineTok_shape S _ _ (Tok.withMarks_shape _ _), c3]
    simp only [Bool.not_true, Bool.false_or]
    split
    · rw [rem_add_filter S m _ hmn]
      simp
    · rw [Bool.not_eq_true', ← Bool.not_eq_true, isInSet_iff]
      intro hm
      exact hmn (List.mem_filter.mp hm).1

end PM
