/-
  Proofs/CommuteAroundAgain.lean — "the partner only touches tokens outside `[from, to]`": a replace-around
  step that applies to `d` applies again — as the same plain replace of `[from, to)` by the same filled
  slice — to any normal-form document `d'` whose tokens are `d`'s with a range strictly before `from`
  (`around_again_shifted`) or strictly after `to` (`around_again_same`) spliced.  One lemma per side serves
  replace, replace-around and markup partners (Props/C17.lean `commute_succeeds_around_*`).
-/
import Proofs.CommuteAroundSuccess
import Proofs.CommuteMarkup
import Proofs.MarkSuccess
namespace PM

/-- the partner spliced `[f1, t1)`, `t1 < from`: the replace-around step shifted by the size change applies
    whenever the plain replace of the shifted range by the filled slice does -/
theorem around_again_shifted (S : Schema) (d d' db dab : Node) (f t gf gt ins f1 t1 : Nat) (sl : Slice)
    (S1 : List Tok) (st : Bool) (gap inserted : Slice)
    (hn : fnorm d.kids = true) (hn' : fnorm d'.kids = true)
    (hgo : f ≤ gf ∧ gf ≤ gt ∧ gt ≤ t) (hsep : t1 < f) (h1 : f1 ≤ t1)
    (hl : t ≤ (ftoks d.kids).length)
    (hd' : ftoks d'.kids = splice (ftoks d.kids) f1 t1 S1)
    (hb : S.apply (.replaceAround f t gf gt sl ins st) d = .ok db)
    (hgap : d.slice gf gt = .ok gap) (ho1 : gap.openStart = 0) (ho2 : gap.openEnd = 0)
    (hinst : sl.insertAt S ins gap.content = .ok (some inserted))
    (hfr : S.fromReplace d' (f1 + S1.length + (f - t1)) (f1 + S1.length + (t - t1)) inserted = .ok dab) :
    S.apply (.replaceAround (f1 + S1.length + (f - t1)) (f1 + S1.length + (t - t1))
      (f1 + S1.length + (gf - t1)) (f1 + S1.length + (gt - t1)) sl ins st) d' = .ok dab := by
  have hl1 : t1 ≤ (ftoks d.kids).length := by omega
  have hgap' : sliceKids d.kids gf gt = .ok gap := hgap
  have hlend' : (ftoks d'.kids).length = f1 + S1.length + ((ftoks d.kids).length - t1) := by
    rw [hd']; exact splice_length _ _ _ _ h1 hl1
  have hst : st = true →
      contentBetween d' (f1 + S1.length + (f - t1)) (f1 + S1.length + (gf - t1)) = some false ∧
      contentBetween d' (f1 + S1.length + (gt - t1)) (f1 + S1.length + (t - t1)) = some false := by
    intro hstt
    subst hstt
    exact struct_checks_again d d' f t gf gt _ _ _ _ hn hn' hgo (by rw [← ftoks_length]; omega)
      (by rw [← ftoks_length, hlend']; omega) (by omega) (by omega) (by omega)
      (by rw [hd']; exact splice_window_after _ _ f1 t1 f _ h1 (by omega) hl1)
      (by rw [hd']; exact splice_window_after _ _ f1 t1 gt _ h1 (by omega) hl1)
      (apply_replaceAround_struct S d db f t gf gt sl ins hb)
  refine around_applies_of_parts S d' dab _ _ _ _ sl ins st gap inserted ?_ ho1 ho2 hinst hfr hst
  show sliceKids d'.kids _ _ = .ok gap
  have := slice_again d.kids d'.kids gf gt (f1 + S1.length + (gf - t1)) gap hn hn' hgo.2.1
    (by rw [← ftoks_length]; omega) (by rw [← ftoks_length, hlend']; omega) hgap' ho1 ho2
    (by rw [hd']; exact splice_window_after _ _ f1 t1 gf _ h1 (by omega) hl1)
    (fun hlt => by
      obtain ⟨al1, al2⟩ := sliceKids_aligned d.kids gf gt gap hlt hgap'
      refine ⟨aligned_after_splice d.kids d'.kids _ f1 t1 gf hn hn' hd' h1 hl1 (by omega) al1, ?_⟩
      have := aligned_after_splice d.kids d'.kids _ f1 t1 gt hn hn' hd' h1 hl1 (by omega) al2
      rwa [show f1 + S1.length + (gt - t1) = f1 + S1.length + (gf - t1) + (gt - gf) by omega]
        at this)
  rwa [show f1 + S1.length + (gf - t1) + (gt - gf) = f1 + S1.length + (gt - t1) by omega] at this

/-- the partner spliced `[f1, t1)`, `to < f1`: the same replace-around step applies whenever the plain
    replace of `[from, to)` by the filled slice does -/
theorem around_again_same (S : Schema) (d d' db dab : Node) (f t gf gt ins f1 t1 : Nat) (sl : Slice)
    (S1 : List Tok) (st : Bool) (gap inserted : Slice)
    (hn : fnorm d.kids = true) (hn' : fnorm d'.kids = true)
    (hgo : f ≤ gf ∧ gf ≤ gt ∧ gt ≤ t) (hsep : t < f1) (h1 : f1 ≤ t1)
    (hl1 : t1 ≤ (ftoks d.kids).length)
    (hd' : ftoks d'.kids = splice (ftoks d.kids) f1 t1 S1)
    (hb : S.apply (.replaceAround f t gf gt sl ins st) d = .ok db)
    (hgap : d.slice gf gt = .ok gap) (ho1 : gap.openStart = 0) (ho2 : gap.openEnd = 0)
    (hinst : sl.insertAt S ins gap.content = .ok (some inserted))
    (hfr : S.fromReplace d' f t inserted = .ok dab) :
    S.apply (.replaceAround f t gf gt sl ins st) d' = .ok dab := by
  have hgap' : sliceKids d.kids gf gt = .ok gap := hgap
  have hlend' : (ftoks d'.kids).length = f1 + S1.length + ((ftoks d.kids).length - t1) := by
    rw [hd']; exact splice_length _ _ _ _ h1 hl1
  have hst : st = true → contentBetween d' f gf = some false ∧ contentBetween d' gt t = some false := by
    intro hstt
    subst hstt
    exact struct_checks_again d d' f t gf gt f t gf gt hn hn' hgo (by rw [← ftoks_length]; omega)
      (by rw [← ftoks_length, hlend']; omega) (by omega) (by omega) (by omega)
      (by rw [hd']; exact splice_window_before _ _ f1 t1 f _ (by omega) (by omega))
      (by rw [hd']; exact splice_window_before _ _ f1 t1 gt _ (by omega) (by omega))
      (apply_replaceAround_struct S d db f t gf gt sl ins hb)
  refine around_applies_of_parts S d' dab _ _ _ _ sl ins st gap inserted ?_ ho1 ho2 hinst hfr hst
  show sliceKids d'.kids _ _ = .ok gap
  have := slice_again d.kids d'.kids gf gt gf gap hn hn' hgo.2.1
    (by rw [← ftoks_length]; omega) (by rw [← ftoks_length, hlend']; omega) hgap' ho1 ho2
    (by rw [hd']; exact splice_window_before _ _ f1 t1 gf _ (by omega) (by omega))
    (fun hlt => by
      obtain ⟨al1, al2⟩ := sliceKids_aligned d.kids gf gt gap hlt hgap'
      refine ⟨aligned_before_splice d.kids d'.kids _ f1 t1 gf hn hn' hd' (by omega) (by omega) al1, ?_⟩
      have := aligned_before_splice d.kids d'.kids _ f1 t1 gt hn hn' hd' (by omega) (by omega) al2
      rwa [show gt = gf + (gt - gf) by omega] at this)
  rwa [show gf + (gt - gf) = gt by omega] at this

/-- what a successful replace-around step is, in one bundle: the closed gap, the filled slice, the plain
    replace it performs, that slice's open-start depth, normal form and size -/
theorem around_as_replace (S : Schema) (d db : Node) (f t gf gt ins : Nat) (sl : Slice) (st : Bool)
    (hn : fnorm d.kids = true) (hsn : fnorm sl.content = true)
    (hs : AroundShape f t gf gt sl ins)
    (hb : S.apply (.replaceAround f t gf gt sl ins st) d = .ok db) :
    ∃ gap inserted, d.slice gf gt = .ok gap ∧ gap.openStart = 0 ∧ gap.openEnd = 0 ∧
      sl.insertAt S ins gap.content = .ok (some inserted) ∧
      S.apply (.replace f t inserted false) d = .ok db ∧
      inserted.openStart = sl.openStart ∧ fnorm inserted.content = true ∧
      inserted.size = sl.size + ((gt : Int) - gf) ∧ t ≤ (ftoks d.kids).length := by
  obtain ⟨gap, inserted, hgap, ho1, ho2, hinst, hfr1⟩ :=
    apply_replaceAround_parts S d db f t gf gt sl ins st hb
  obtain ⟨_, hl, hX, hY⟩ := apply_around_aroundL S d db f t gf gt sl ins st hs hb
  obtain ⟨hwf, hins, hgo⟩ := hs
  obtain ⟨hitk, hio1, _⟩ := insertAt_toks S sl inserted ins gap.content hwf hins hinst
  have hgap' : sliceKids d.kids gf gt = .ok gap := hgap
  have hgn := sliceKids_norm d.kids gf gt gap hn hgap'
  have hin := insertAt_norm S sl inserted ins gap.content hsn hgn.1 hinst
  have hb2 : S.apply (.replace f t inserted false) d = .ok db := by simpa [Schema.apply] using hfr1
  obtain ⟨_, _, _, hleni⟩ := apply_replace_splice S d db f t inserted false hb2
  have hgaplen : (ftoks gap.content).length = gt - gf := by
    have : gap = ⟨gap.content, 0, 0⟩ := by cases gap; simp at ho1 ho2; simp [ho1, ho2]
    rw [← Slice.toks_closed, ← this, sliceKids_toks d.kids gf gt gap hgo.2.1
      (by rw [← ftoks_length]; omega) hgap', List.length_take, List.length_drop]
    omega
  have hisz : inserted.size = sl.size + ((gt : Int) - gf) := by
    have h1 := congrArg List.length hitk
    obtain ⟨hl2, _⟩ := Slice.toks_length_of_wf_ex sl hwf
    simp only [List.length_append, List.length_take, List.length_drop, hgaplen] at h1
    omega
  exact ⟨gap, inserted, hgap, ho1, ho2, hinst, hb2, hio1, hin, hisz, hl⟩

/-! ### node-markup steps as replace steps -/

/-- `node_at` finds the non-text node whose first token sits at `pos` -/
theorem nodeAtKids_of_head (kids : List Node) (pos : Nat) (x : Tok) (hn : fnormKids kids = true)
    (h : (ftoks kids)[pos]? = some x) (hx1 : x ≠ Tok.cl) (hx2 : ∀ u m, x ≠ Tok.unit u m) :
    ∃ n, nodeAtKids kids pos = .ok (some n) ∧ n.headTok = x ∧ n.isText = false := by
  fun_induction nodeAtKids kids pos
  case case1 => simp at h
  case case2 => simp at h
  case case3 n ns =>
    refine ⟨n, rfl, ?_⟩
    simp only [fnormKids_cons, Bool.and_eq_true] at hn
    cases n with
    | text s m =>
      exfalso
      cases s with
      | nil => simp at hn
      | cons c cs => simp at h; exact hx2 c m h.symm
    | leaf t a m => simp at h; subst h; exact ⟨rfl, rfl⟩
    | elem t a m k => simp at h; subst h; exact ⟨rfl, rfl⟩
  case case4 n ns pos h0 h1 ih =>
    simp only [fnormKids_cons, Bool.and_eq_true] at hn
    apply ih hn.2
    rw [ftoks_cons, List.getElem?_append_right (by rw [Node.toks_length]; exact h1), Node.toks_length] at h
    exact h
  case case5 ns pos h0 ty ats mk k h1 ih =>
    simp only [fnormKids_cons, Bool.and_eq_true, Node.norm_elem] at hn
    simp only [Node.size_elem, Nat.not_le] at h1
    apply ih (fnormKids_of_fnorm hn.1)
    rw [ftoks_cons, Node.toks_elem] at h
    obtain ⟨p, rfl⟩ : ∃ p, pos = p + 1 := ⟨pos - 1, by omega⟩
    simp only [List.cons_append, List.getElem?_cons_succ, Nat.add_sub_cancel] at h ⊢
    have hlen := ftoks_length k
    by_cases hp : p < (ftoks k).length
    · rw [List.append_assoc, List.getElem?_append_left hp] at h; exact h
    · exfalso
      have : p = (ftoks k).length := by omega
      subst this
      rw [List.append_assoc, List.getElem?_append_right (Nat.le_refl _)] at h
      simp at h
      exact hx1 h.symm
  case case6 n ns pos h0 h1 hne =>
    exfalso
    simp only [fnormKids_cons, Bool.and_eq_true] at hn
    cases n with
    | text s m =>
      simp only [Node.size, Nat.not_le] at h1
      rw [ftoks_cons, List.getElem?_append_left (by rw [Node.toks_length]; simpa [Node.size] using h1)] at h
      simp only [Node.toks_text, List.getElem?_map] at h
      cases hc : s[pos]? with
      | none => simp [hc] at h
      | some c => simp [hc] at h; exact hx2 c m h.symm
    | leaf t a m => simp [Node.size] at h1; omega
    | elem t a m k => exact hne t a m k rfl

/-- the slice a node-markup step replaces the addressed token by -/
theorem nodeSlice_facts (S : Schema) (n u : Node) (attrs : Attrs) (marks : Marks)
    (hu : S.recreate n attrs marks = .ok u) :
    (Slice.mk [u] 0 (if n.isLeaf then 0 else 1)).size = 1 ∧ fnorm [u] = true := by
  unfold Schema.recreate at hu
  cases n with
  | text s m => simp at hu
  | leaf t a m =>
    simp only at hu
    cases hc : computeAttrs (S.nodeType t).attrs attrs with
    | error e => rw [hc] at hu; simp [Except.map] at hu
    | ok a' =>
      rw [hc] at hu; simp [Except.map] at hu; subst hu
      simp [Slice.size, Node.isLeaf, fsize, Node.size, fnorm, fnormKids, Node.norm, chainOk]
  | elem t a m k =>
    simp only at hu
    cases hc : computeAttrs (S.nodeType t).attrs attrs with
    | error e => rw [hc] at hu; simp [Except.map] at hu
    | ok a' =>
      rw [hc] at hu; simp [Except.map] at hu; subst hu
      simp [Slice.size, Node.isLeaf, fsize, Node.size, fnorm, fnormKids, Node.norm, chainOk]

/-- `type.create` reads the node's type only -/
theorem recreate_congr_head (S : Schema) (n n' : Node) (attrs : Attrs) (marks : Marks)
    (h : n'.headTok = n.headTok) (hnt : n.isText = false) (hnt' : n'.isText = false) :
    S.recreate n' attrs marks = S.recreate n attrs marks ∧ n'.attrs = n.attrs ∧ n'.marks = n.marks ∧
      n'.isLeaf = n.isLeaf := by
  cases n <;> cases n' <;> simp [Node.headTok, Node.isText] at h hnt hnt' <;>
    simp [Schema.recreate, Node.attrs, Node.marks, Node.isLeaf, h]

/-- a node-markup step is the replace of the addressed token by the re-created node -/
theorem nodeStep_apply_of (S : Schema) (doc n u : Node) (pos : Nat) (st : Step) (hst : NodeStepAt pos st)
    (hn : doc.nodeAt pos = .ok (some n))
    (hu : S.recreate n (stepAttrs st n.attrs) (stepMarks S st n.marks) = .ok u) :
    S.apply st doc = S.fromReplace doc pos (pos + 1) ⟨[u], 0, if n.isLeaf then 0 else 1⟩ := by
  rcases hst with ⟨m, rfl⟩ | ⟨m, rfl⟩ | ⟨nm, v, rfl⟩ <;>
    simp only [stepAttrs, stepMarks] at hu <;> simp [Schema.apply, hn, hu]


theorem stepAttrs_mapPos (N : Step) (g : Nat → Nat) (pos : Nat) (hN : NodeStepAt pos N) :
    stepAttrs (N.mapPos g) = stepAttrs N ∧ (∀ S, stepMarks S (N.mapPos g) = stepMarks S N) ∧
      NodeStepAt (g pos) (N.mapPos g) := by
  rcases hN with ⟨m, rfl⟩ | ⟨m, rfl⟩ | ⟨n, v, rfl⟩
  · exact ⟨rfl, fun _ => rfl, .inl ⟨m, rfl⟩⟩
  · exact ⟨rfl, fun _ => rfl, .inr (.inl ⟨m, rfl⟩)⟩
  · exact ⟨rfl, fun _ => rfl, .inr (.inr ⟨n, v, rfl⟩)⟩


/-! ### mark steps as replace steps -/

/-- a mark step that applies is the plain replace of its range by the re-marked slice -/
theorem markStep_as_replace (S : Schema) (d db : Node) (f2 t2 : Nat) (mk : Mark) (M : Step)
    (hM : M = .addMark f2 t2 mk ∨ M = .removeMark f2 t2 mk) (hn : fnorm d.kids = true)
    (hb : S.apply M d = .ok db) :
    ∃ old slM, d.slice f2 t2 = .ok old ∧ slM.openStart = old.openStart ∧ fnorm slM.content = true ∧
      S.apply (.replace f2 t2 slM false) d = .ok db := by
  rcases hM with rfl | rfl
  · have h' := hb
    unfold Schema.apply at h'
    simp only at h'
    split at h'
    · simp at h'
    · rename_i old hold
      split at h'
      · simp at h'
      · rename_i p hp
        refine ⟨old, ⟨fromArray (addMarkKids S mk p old.content), old.openStart, old.openEnd⟩, hold, rfl, ?_,
          by simpa [Schema.apply] using h'⟩
        have hon := (sliceKids_norm d.kids f2 t2 old hn hold).1
        simp only [addMarkKids_eq_map]
        exact fromArray_norm _ ((addMark_markMap S mk).norm_list _ p (fnormKids_of_fnorm hon))
  · have h' := hb
    unfold Schema.apply at h'
    simp only at h'
    split at h'
    · simp at h'
    · rename_i old hold
      refine ⟨old, ⟨fromArray (removeMarkKids S mk old.content), old.openStart, old.openEnd⟩, hold, rfl, ?_,
        by simpa [Schema.apply] using h'⟩
      have hon := (sliceKids_norm d.kids f2 t2 old hn hold).1
      simp only [removeMarkKids_eq_map]
      exact fromArray_norm _ ((removeMark_markMap S mk).norm_list _ 0 (fnormKids_of_fnorm hon))

/-- the facts of `MarkStepFacts` for either mark step -/
theorem markStep_facts (S : Schema) (d db : Node) (f2 t2 : Nat) (mk : Mark) (M : Step)
    (hM : M = .addMark f2 t2 mk ∨ M = .removeMark f2 t2 mk) (hb : S.apply M d = .ok db) :
    MarkStepFacts d.kids db.kids f2 t2 := by
  rcases hM with rfl | rfl
  · exact addMark_facts S d db f2 t2 mk hb
  · exact removeMark_facts S d db f2 t2 mk hb

/-- either mark step applies to a valid normal-form document at in-range pair-aligned positions -/
theorem markStep_applies (S : Schema) (hts : TextLoop S) (d : Node) (f2 t2 : Nat) (mk : Mark)
    (g : Nat → Nat) (M : Step) (hM : M = .addMark f2 t2 mk ∨ M = .removeMark f2 t2 mk)
    (hv : S.checkNode d = true) (hn : fnorm d.kids = true) (hel : ∃ ty a m K, d = .elem ty a m K)
    (hft : g f2 ≤ g t2) (ht : g t2 ≤ fsize d.kids)
    (haf : alignedAt d.kids (g f2) = true) (hat : alignedAt d.kids (g t2) = true) :
    ∃ d', S.apply (M.mapPos g) d = .ok d' := by
  obtain ⟨ty, a, m, K, rfl⟩ := hel
  rcases hM with rfl | rfl
  · exact addMark_applies S hts ty a m K _ _ mk hv hn hft ht haf hat
  · exact removeMark_applies S hts ty a m K _ _ mk hv hn hft ht haf hat

theorem markStep_span (f2 t2 : Nat) (mk : Mark) (M : Step)
    (hM : M = .addMark f2 t2 mk ∨ M = .removeMark f2 t2 mk) :
    M.posSpan = some (f2, t2) ∧ M.touch = some (f2, t2) := by
  rcases hM with rfl | rfl <;> exact ⟨rfl, rfl⟩

end PM
