/- Proofs/FitterText.lean — the text invariant of the Fitter model (PM/Fitter.lean):
   `text(placed) ++ text(unplaced)` is an in-order subsequence of the requested slice's text, so
   the fitting loop never invents, duplicates or reorders text.  Used by Props/C11.lean. -/
import PM.Fitter
import PM.Monitor
import Proofs.Toks
import Proofs.Respects
import Proofs.RangeOps
import Proofs.Fitter
namespace PM

/-- the text units of a fragment, in order (marks erased) -/
def ftext (l : List Node) : List Nat := textUnits (ftoks l)

/-- the text units of a node -/
def ntext (n : Node) : List Nat := textUnits n.toks

/-! ### basics -/

@[simp] theorem ftext_nil : ftext [] = [] := by simp [ftext, ftoks, textUnits]

theorem ftext_cons (n : Node) (ns : List Node) : ftext (n :: ns) = ntext n ++ ftext ns := by
  simp [ftext, ntext, ftoks, textUnits_append]

theorem ftext_append (a b : List Node) : ftext (a ++ b) = ftext a ++ ftext b := by
  simp [ftext, ftoks_append, textUnits_append]

theorem textUnits_cl : textUnits [Tok.cl] = [] := rfl

theorem ntext_elem (t : TypeId) (a : Attrs) (m : Marks) (k : List Node) :
    ntext (.elem t a m k) = ftext k := by
  simp [ntext, ftext, Node.toks, textUnits, textUnits_append]

theorem ntext_leaf (t : TypeId) (a : Attrs) (m : Marks) : ntext (.leaf t a m) = [] := by
  simp [ntext, Node.toks, textUnits]

theorem textUnits_map_unit (s : List Nat) (m : Marks) : textUnits (s.map (Tok.unit · m)) = s := by
  induction s with
  | nil => rfl
  | cons x xs ih => simp [textUnits, ih]

theorem ntext_text (s : List Nat) (m : Marks) : ntext (.text s m) = s := by
  simp [ntext, Node.toks, textUnits_map_unit]

theorem ntext_withMarks (n : Node) (m : Marks) : ntext (n.withMarks m) = ntext n := by
  cases n <;> simp [Node.withMarks, ntext_text, ntext_leaf, ntext_elem]

/-- replacing the children: an element's text is its children's text; text and leaf nodes are
    returned unchanged -/
theorem ntext_withKids (n : Node) (k : List Node) :
    ntext (n.withKids k) = match n with
      | .elem .. => ftext k
      | _ => ntext n := by
  cases n <;> simp [Node.withKids, ntext_elem]

theorem ftext_kids_sublist (n : Node) : (ftext n.kids).Sublist (ntext n) := by
  cases n with
  | text s m => simp [Node.kids]
  | leaf t a m => simp [Node.kids]
  | elem t a m k => simp [Node.kids, ntext_elem]

theorem ftext_fappend (a b : List Node) : ftext (fappend a b) = ftext a ++ ftext b := by
  simp [ftext, fappend_toks, textUnits_append]

theorem ftext_fromArray (l : List Node) : ftext (fromArray l) = ftext l := by
  simp [ftext, fromArray_toks]

theorem ftext_take_drop (l : List Node) (k : Nat) : ftext l = ftext (l.take k) ++ ftext (l.drop k) := by
  rw [← ftext_append, List.take_append_drop]

theorem textUnits_sublist {a b : List Tok} (h : a.Sublist b) : (textUnits a).Sublist (textUnits b) := by
  induction h with
  | slnil => exact List.Sublist.slnil
  | cons x _ ih =>
    cases x <;> simp only [textUnits] <;> first | exact ih | exact List.Sublist.cons _ ih
  | cons_cons x _ ih =>
    cases x <;> simp only [textUnits] <;> first | exact ih | exact List.Sublist.cons_cons _ ih

theorem ftext_take_sublist (l : List Node) (k : Nat) : (ftext (l.take k)).Sublist (ftext l) := by
  rw [ftext_take_drop l k]
  exact List.sublist_append_left _ _

/-- Boolean subsequence test of the monitor vs. `List.Sublist` -/
theorem isSubseq_of_sublist {α} [DecidableEq α] : ∀ {a b : List α}, a.Sublist b → isSubseq a b = true
  | [], _, _ => by cases ‹List α› <;> rfl
  | x :: xs, [], h => by cases h
  | x :: xs, y :: ys, h => by
    simp only [isSubseq]
    split
    · rename_i hxy
      subst hxy
      cases h with
      | cons _ h' => exact isSubseq_of_sublist ((List.sublist_cons_self x xs).trans h')
      | cons_cons _ h' => exact isSubseq_of_sublist h'
    · rename_i hxy
      cases h with
      | cons _ h' => exact isSubseq_of_sublist h'
      | cons_cons _ h' => exact absurd rfl hxy

/-! ### fillers carry no text -/

theorem ftext_nil_of_forall : ∀ (l : List Node), (∀ n ∈ l, ntext n = []) → ftext l = []
  | [], _ => ftext_nil
  | n :: ns, h => by
    rw [ftext_cons, h n List.mem_cons_self, ftext_nil_of_forall ns fun x hx => h x (List.mem_cons_of_mem _ hx)]
    rfl

theorem mapM_option_forall {α β : Type} (f : α → Option β) (P : β → Prop)
    (hf : ∀ a b, f a = some b → P b) :
    ∀ (l : List α) (r : List β), l.mapM f = some r → ∀ b ∈ r, P b
  | [], r, h, b, hb => by
    simp only [List.mapM_nil, pure, Option.some.injEq] at h
    subst h; simp at hb
  | a :: l, r, h, b, hb => by
    rw [List.mapM_cons] at h
    cases hfa : f a with
    | none => simp [hfa] at h
    | some x =>
      cases hl : l.mapM f with
      | none => simp [hfa, hl] at h
      | some xs =>
        simp only [hfa, hl, bind, Option.bind, pure, Option.some.injEq] at h
        subst h
        rcases List.mem_cons.mp hb with rfl | hm
        · exact hf a _ hfa
        · exact mapM_option_forall f P hf l xs hl b hm

theorem ntext_mkNode (S : Schema) (ty : TypeId) (a : Attrs) (m : Marks) (k : List Node)
    (hk : ftext k = []) : ntext (S.mkNodeO ty a m k) = [] := by
  unfold Schema.mkNodeO
  split
  · exact ntext_leaf _ _ _
  · rw [ntext_elem, hk]

theorem createAndFill_noText (S : Schema) : ∀ (fuel : Nat) (ty : TypeId) (n : Node),
    createAndFill S fuel ty = some n → ntext n = []
  | 0, _, _, h => by simp [createAndFill] at h
  | fuel + 1, ty, n, h => by
    unfold createAndFill at h
    split at h
    · simp at h
    · split at h
      · simp at h
      · split at h
        · simp at h
        · rename_i kids hk
          simp only [Option.some.injEq] at h
          subst h
          apply ntext_mkNode
          apply ftext_nil_of_forall
          exact mapM_option_forall _ _ (fun a b hab => createAndFill_noText S fuel a b hab) _ _ hk

theorem fillBeforeNodes_noText (S : Schema) (d : Dfa) (q : Nat) (after : List TypeId) (toEnd : Bool)
    (ns : List Node) (h : fillBeforeNodes S d q after toEnd = some (some ns)) : ftext ns = [] := by
  unfold fillBeforeNodes at h
  split at h
  · simp at h
  · split at h
    · simp at h
    · rename_i r hr
      simp only [Option.some.injEq] at h
      subst h
      apply ftext_nil_of_forall
      exact mapM_option_forall _ _ (fun a b hab => createAndFill_noText S _ a b hab) _ _ hr

theorem fillOpt_noText (S : Schema) (d : Dfa) (q : Nat) (after : List TypeId) (toEnd : Bool)
    (ns : List Node) (h : fillOpt S d q after toEnd = .ok (some ns)) : ftext ns = [] :=
  fillBeforeNodes_noText S d q after toEnd ns (liftRaise_ok h)

/-! ### the fragment helpers -/

theorem addToFragment_text : ∀ (d : Nat) (frag c r : List Node),
    addToFragment frag d c = .ok r → ftext r = ftext frag ++ ftext c
  | 0, frag, c, r, h => by
    have := pure_ok h
    subst this
    exact ftext_fappend _ _
  | d + 1, frag, c, r, h => by
    unfold addToFragment at h
    split at h
    · rename_i t a m kids hl
      obtain ⟨inner, hi, h⟩ := FM.bind_ok h
      have := pure_ok h
      subst this
      have ih := addToFragment_text d kids c inner hi
      have hfrag : frag = frag.dropLast ++ [Node.elem t a m kids] := by
        obtain ⟨ys, rfl⟩ := List.getLast?_eq_some_iff.mp hl
        simp
      conv => rhs; rw [hfrag]
      simp only [ftext_append, ftext_cons, ntext_elem, ftext_nil, List.append_nil, ih, List.append_assoc]
    · simp [throw, throwThe, MonadExceptOf.throw] at h

/-- dropping from the left spine removes a prefix of the text -/
theorem dropFromFragment_text : ∀ (d : Nat) (frag r inner : List Node) (count : Nat),
    dropFromFragment frag d count = .ok r → contentAt frag d = .ok inner →
    ftext frag = ftext (inner.take count) ++ ftext r
  | 0, frag, r, inner, count, h, hc => by
    have h1 := pure_ok h
    have h2 := pure_ok hc
    subst h1; subst h2
    exact ftext_take_drop _ _
  | d + 1, frag, r, inner, count, h, hc => by
    unfold dropFromFragment at h
    split at h
    · rename_i t a m kids rest
      obtain ⟨inner', hi, h⟩ := FM.bind_ok h
      have := pure_ok h
      subst this
      simp only [contentAt, Node.kids] at hc
      have ih := dropFromFragment_text d kids inner' inner count hi hc
      simp only [ftext_cons, ntext_elem, ih, List.append_assoc]
    · simp [throw, throwThe, MonadExceptOf.throw] at h

theorem dropFromFragment_sublist : ∀ (d : Nat) (frag r : List Node) (count : Nat),
    dropFromFragment frag d count = .ok r → (ftext r).Sublist (ftext frag)
  | 0, frag, r, count, h => by
    have h1 := pure_ok h
    subst h1
    rw [ftext_take_drop frag count]
    exact List.sublist_append_right _ _
  | d + 1, frag, r, count, h => by
    unfold dropFromFragment at h
    split at h
    · rename_i t a m kids rest
      obtain ⟨inner', hi, h⟩ := FM.bind_ok h
      have := pure_ok h
      subst this
      have ih := dropFromFragment_sublist d kids inner' count hi
      simp only [ftext_cons, ntext_elem]
      exact List.Sublist.append ih (List.Sublist.refl _)
    · simp [throw, throwThe, MonadExceptOf.throw] at h

theorem contentAt_sublist : ∀ (d : Nat) (frag inner : List Node),
    contentAt frag d = .ok inner → (ftext inner).Sublist (ftext frag)
  | 0, frag, inner, h => by
    have := pure_ok h
    subst this
    exact List.Sublist.refl _
  | d + 1, frag, inner, h => by
    unfold contentAt at h
    split at h
    · simp [throw, throwThe, MonadExceptOf.throw] at h
    · rename_i n rest
      have ih := contentAt_sublist d n.kids inner h
      rw [ftext_cons]
      exact (ih.trans (ftext_kids_sublist n)).trans (List.sublist_append_left _ _)

theorem contentAt_succ : ∀ (d : Nat) (frag : List Node) (p : Node) (rest : List Node),
    contentAt frag d = .ok (p :: rest) → contentAt frag (d + 1) = .ok p.kids
  | 0, frag, p, rest, h => by
    have := pure_ok h
    subst this
    simp [contentAt, pure, Except.pure]
  | d + 1, frag, p, rest, h => by
    unfold contentAt at h ⊢
    split at h
    · simp [throw, throwThe, MonadExceptOf.throw] at h
    · exact contentAt_succ d _ p rest h

/-! ### close_node_start, the take loop -/

theorem closeNodeStart_text (S : Schema) : ∀ (os : Nat) (node : Node) (oe : Int) (n' : Node),
    closeNodeStart S os node oe = .ok n' → ntext n' = ntext node
  | 0, node, oe, n', h => by
    have := pure_ok h
    subst this; rfl
  | os + 1, node, oe, n', h => by
    unfold closeNodeStart at h
    simp only at h
    obtain ⟨frag, hfrag, h⟩ := FM.bind_ok h
    obtain ⟨fillo, hfo, h⟩ := FM.bind_ok h
    obtain ⟨fill, hfill, h⟩ := FM.bind_ok h
    obtain ⟨tail, htail, h⟩ := FM.bind_ok h
    have := pure_ok h
    subst this
    have hf0 : ftext fill = [] := by
      have := liftRaise_ok hfill
      subst this
      exact fillOpt_noText S _ _ _ _ _ hfo
    have hfr : ftext frag = ftext node.kids := by
      split at hfrag
      · have := pure_ok hfrag
        subst this; rfl
      · split at hfrag
        · simp [throw, throwThe, MonadExceptOf.throw] at hfrag
        · rename_i c rest hk
          obtain ⟨c', hc', hfrag⟩ := FM.bind_ok hfrag
          have := pure_ok hfrag
          subst this
          rw [hk, ftext_cons, ftext_cons, closeNodeStart_text S os c _ c' hc']
    have ht : ftext tail = [] := by
      split at htail
      · obtain ⟨q, _, htail⟩ := FM.bind_ok htail
        obtain ⟨f2, hf2, htail⟩ := FM.bind_ok htail
        have := liftRaise_ok htail
        subst this
        exact fillOpt_noText S _ _ _ _ _ hf2
      · have := pure_ok htail
        subst this; rfl
    rw [ntext_withKids]
    cases node with
    | text s m => rfl
    | leaf t a m => rfl
    | elem t a m k =>
      simp only [ftext_fappend, hf0, ht, hfr, Node.kids, ntext_elem, List.nil_append, List.append_nil]

theorem takeLoop_text (S : Schema) (d : Dfa) (frontTy : TypeId) (openStart : Nat) (oec : Int) (total : Nat) :
    ∀ (rest : List Node) (taken q : Nat) (add : List Node) (r : Nat × Nat × List Node),
    takeLoop S d frontTy openStart oec total rest taken q add = .ok r →
    ∃ Y, ftext r.2.2 = ftext add ++ Y ∧ Y.Sublist (ftext (rest.take (r.1 - taken))) ∧ taken ≤ r.1
  | [], taken, q, add, r, h => by
    have := pure_ok h
    subst this
    exact ⟨[], by simp, by simp, Nat.le_refl _⟩
  | next :: rest, taken, q, add, r, h => by
    unfold takeLoop at h
    split at h
    · have := pure_ok h
      subst this
      exact ⟨[], by simp, by simp, Nat.le_refl _⟩
    · simp only at h
      split at h
      · obtain ⟨n, hn, h⟩ := FM.bind_ok h
        obtain ⟨Y, h1, h2, h3⟩ := takeLoop_text S d frontTy openStart oec total rest _ _ _ r h
        have hnt : ntext n = ntext next := by
          rw [closeNodeStart_text S _ _ _ n hn, ntext_withMarks]
        refine ⟨ntext next ++ Y, ?_, ?_, by omega⟩
        · rw [h1, ftext_append, ftext_cons, ftext_nil, hnt]; simp
        · rw [show r.1 - taken = (r.1 - (taken + 1)) + 1 by omega, List.take_succ_cons, ftext_cons]
          exact List.Sublist.append (List.Sublist.refl _) h2
      · obtain ⟨Y, h1, h2, h3⟩ := takeLoop_text S d frontTy openStart oec total rest _ _ _ r h
        refine ⟨Y, h1, ?_, by omega⟩
        rw [show r.1 - taken = (r.1 - (taken + 1)) + 1 by omega, List.take_succ_cons, ftext_cons]
        exact h2.trans (List.sublist_append_right _ _)

/-! ### frontier operations do not touch text -/

theorem closeFrontierNode_text (S : Schema) (fr : List FItem) (placed : List Node)
    (r : List FItem × List Node) (h : closeFrontierNode S fr placed = .ok r) :
    ftext r.2 = ftext placed := by
  unfold closeFrontierNode at h
  split at h
  · simp [throw, throwThe, MonadExceptOf.throw] at h
  · obtain ⟨q, _, h⟩ := FM.bind_ok h
    obtain ⟨add, hadd, h⟩ := FM.bind_ok h
    cases add with
    | none =>
      have := pure_ok h
      subst this; rfl
    | some a =>
      simp only at h
      split at h
      · have := pure_ok h
        subst this; rfl
      · obtain ⟨p, hp, h⟩ := FM.bind_ok h
        have := pure_ok h
        subst this
        rw [addToFragment_text _ _ _ _ hp, fillOpt_noText S _ _ _ _ _ hadd, List.append_nil]

theorem closeMany_text (S : Schema) : ∀ (n : Nat) (fr : List FItem) (placed : List Node)
    (r : List FItem × List Node), closeMany S n fr placed = .ok r → ftext r.2 = ftext placed
  | 0, fr, placed, r, h => by
    have := pure_ok h
    subst this; rfl
  | n + 1, fr, placed, r, h => by
    unfold closeMany at h
    obtain ⟨x, hx, h⟩ := FM.bind_ok h
    rw [closeMany_text S n _ _ r h, closeFrontierNode_text S fr placed x hx]

theorem openFrontierNode_text (S : Schema) (fr : List FItem) (placed : List Node) (ty : TypeId)
    (attrs : Option Attrs) (content : List Node) (hc : ftext content = [])
    (r : List FItem × List Node) (h : openFrontierNode S fr placed ty attrs content = .ok r) :
    ftext r.2 = ftext placed := by
  unfold openFrontierNode at h
  obtain ⟨top, _, h⟩ := FM.bind_ok h
  obtain ⟨q, _, h⟩ := FM.bind_ok h
  obtain ⟨node, hnode, h⟩ := FM.bind_ok h
  obtain ⟨p', hp', h⟩ := FM.bind_ok h
  have := pure_ok h
  subst this
  have hn : ntext node = [] := by
    unfold Schema.createNodeO at hnode
    split at hnode
    · simp [throw, throwThe, MonadExceptOf.throw] at hnode
    · split at hnode
      · have := pure_ok hnode
        subst this
        exact ntext_mkNode S _ _ _ _ hc
      · simp [throw, throwThe, MonadExceptOf.throw] at hnode
  rw [addToFragment_text _ _ _ _ hp', ftext_cons, hn, ftext_nil]
  simp

theorem openMany_text (S : Schema) : ∀ (ws : List TypeId) (fr : List FItem) (placed : List Node)
    (r : List FItem × List Node), openMany S ws fr placed = .ok r → ftext r.2 = ftext placed
  | [], fr, placed, r, h => by
    have := pure_ok h
    subst this; rfl
  | w :: ws, fr, placed, r, h => by
    unfold openMany at h
    obtain ⟨x, hx, h⟩ := FM.bind_ok h
    rw [openMany_text S ws _ _ r h, openFrontierNode_text S fr placed w none [] ftext_nil x hx]

/-! ### what `find_fittable` returns -/

/-- the fittable's `parent` is the first node at depth `slice_depth - 1` of the unplaced content
    (none at depth 0), and an injected filling carries no text -/
def FitOK (u : Slice) (fit : Fittable) : Prop :=
  ((fit.sliceDepth = 0 ∧ fit.parent = none) ∨
   (0 < fit.sliceDepth ∧ ∃ p rest, contentAt u.content (fit.sliceDepth - 1) = .ok (p :: rest) ∧
      fit.parent = some p)) ∧
  ∀ inj, fit.inject = some inj → ftext inj = []

theorem frontierHit_spec (S : Schema) (pass2 : Bool) (sd : Nat) (parent first : Option Node)
    (it : FItem) (fd : Nat) (f : Fittable) (h : frontierHit S pass2 sd parent first it fd = .ok (some f)) :
    f.sliceDepth = sd ∧ f.parent = parent ∧ ∀ inj, f.inject = some inj → ftext inj = [] := by
  unfold frontierHit at h
  simp only at h
  split at h
  · split at h
    · obtain ⟨q, _, h⟩ := FM.bind_ok h
      split at h
      · have := pure_ok h
        simp only [Option.some.injEq] at this
        subst this
        exact ⟨rfl, rfl, fun inj hi => by simp at hi⟩
      · obtain ⟨inj, hinj, h⟩ := FM.bind_ok h
        cases inj with
        | none => simp [pure, Except.pure] at h
        | some inj =>
          have := pure_ok h
          simp only [Option.some.injEq] at this
          subst this
          refine ⟨rfl, rfl, fun inj' hi => ?_⟩
          simp only [Option.some.injEq] at hi
          subst hi
          exact fillOpt_noText S _ _ _ _ _ hinj
    · split at h
      · split at h
        · have := pure_ok h
          simp only [Option.some.injEq] at this
          subst this
          exact ⟨rfl, rfl, fun inj hi => by simp at hi⟩
        · simp [pure, Except.pure] at h
      · simp [pure, Except.pure] at h
  · split at h
    · obtain ⟨q, _, h⟩ := FM.bind_ok h
      split at h
      · have := pure_ok h
        simp only [Option.some.injEq] at this
        subst this
        exact ⟨rfl, rfl, fun inj hi => by simp at hi⟩
      · simp [pure, Except.pure] at h
    · simp [pure, Except.pure] at h

theorem scanFrontier_spec (S : Schema) (pass2 : Bool) (sd : Nat) (parent first : Option Node)
    (fr : List FItem) : ∀ (n : Nat) (f : Fittable),
    scanFrontier S pass2 sd parent first fr n = .ok (some f) →
    f.sliceDepth = sd ∧ f.parent = parent ∧ ∀ inj, f.inject = some inj → ftext inj = []
  | 0, f, h => by simp [scanFrontier, pure, Except.pure] at h
  | fd + 1, f, h => by
    unfold scanFrontier at h
    obtain ⟨it, _, h⟩ := FM.bind_ok h
    obtain ⟨hit, hhit, h⟩ := FM.bind_ok h
    cases hit with
    | some g =>
      have := pure_ok h
      simp only [Option.some.injEq] at this
      subst this
      exact frontierHit_spec S pass2 sd parent first it fd g hhit
    | none =>
      simp only at h
      obtain ⟨brk, _, h⟩ := FM.bind_ok h
      cases brk with
      | true => simp [pure, Except.pure] at h
      | false => exact scanFrontier_spec S pass2 sd parent first fr fd f h

theorem scanSlice_spec (S : Schema) (pass2 : Bool) (u : Slice) (fr : List FItem) :
    ∀ (n : Nat) (f : Fittable), scanSlice S pass2 u fr n = .ok (some f) → FitOK u f
  | 0, f, h => by simp [scanSlice, pure, Except.pure] at h
  | sd + 1, f, h => by
    unfold scanSlice at h
    obtain ⟨lvl, hlvl, h⟩ := FM.bind_ok h
    obtain ⟨r, hr, h⟩ := FM.bind_ok h
    cases r with
    | none => exact scanSlice_spec S pass2 u fr sd f h
    | some g =>
      have := pure_ok h
      simp only [Option.some.injEq] at this
      subst this
      obtain ⟨h1, h2, h3⟩ := scanFrontier_spec S pass2 sd lvl.1 lvl.2.head? fr _ g hr
      refine ⟨?_, h3⟩
      unfold sliceLevel at hlvl
      split at hlvl
      · rename_i h0
        have := pure_ok hlvl
        subst this
        exact .inl ⟨by omega, h2⟩
      · rename_i h0
        obtain ⟨c, hc, hlvl⟩ := FM.bind_ok hlvl
        split at hlvl
        · simp [throw, throwThe, MonadExceptOf.throw] at hlvl
        · rename_i p rest
          have := pure_ok hlvl
          subst this
          exact .inr ⟨by omega, p, rest, by rw [h1]; exact hc, h2⟩

theorem findFittable_spec (S : Schema) (st : FitState) (f : Fittable)
    (h : findFittable S st = .ok (some f)) : FitOK st.unplaced f := by
  unfold findFittable at h
  simp only at h
  obtain ⟨sd, _, h⟩ := FM.bind_ok h
  obtain ⟨r, hr, h⟩ := FM.bind_ok h
  cases r with
  | some g =>
    have := pure_ok h
    simp only [Option.some.injEq] at this
    subst this
    exact scanSlice_spec S false _ _ _ g hr
  | none => exact scanSlice_spec S true _ _ _ f h

/-! ### one iteration of the fitting loop -/

/-- the text a fitter state still carries: what is placed, then what is still to be placed -/
def stext (st : FitState) : List Nat := ftext st.placed ++ ftext st.unplaced.content

theorem placeRest_text (slice : Slice) (sd taken : Nat) (toEnd : Bool) (oec : Int) (u' : Slice)
    (fragment : List Node)
    (hpar : (sd = 0 ∧ fragment = slice.content) ∨
      (0 < sd ∧ ∃ p rest, contentAt slice.content (sd - 1) = .ok (p :: rest) ∧ fragment = p.kids))
    (h : placeRest slice sd taken toEnd oec = .ok u') :
    (ftext (fragment.take taken) ++ ftext u'.content).Sublist (ftext slice.content) := by
  unfold placeRest at h
  split at h
  · -- not to the end: the taken children are dropped where they were
    obtain ⟨c, hc, h⟩ := FM.bind_ok h
    have := pure_ok h
    subst this
    have hca : contentAt slice.content sd = .ok fragment := by
      rcases hpar with ⟨rfl, rfl⟩ | ⟨hpos, p, rest, hp, rfl⟩
      · rfl
      · have := contentAt_succ (sd - 1) _ p rest hp
        rwa [show sd - 1 + 1 = sd by omega] at this
    rw [dropFromFragment_text sd _ _ _ taken hc hca]
    exact List.Sublist.refl _
  · split at h
    · rename_i hsd
      have := pure_ok h
      subst this
      have hsd' : sd = 0 := by simpa using hsd
      rcases hpar with ⟨_, rfl⟩ | ⟨hpos, _⟩
      · simp only [Slice.empty, ftext_nil, List.append_nil]
        exact ftext_take_sublist _ _
      · omega
    · rename_i hsd
      obtain ⟨c, hc, h⟩ := FM.bind_ok h
      have := pure_ok h
      subst this
      rcases hpar with ⟨h0, _⟩ | ⟨hpos, p, rest, hp, rfl⟩
      · simp [h0] at hsd
      · rw [dropFromFragment_text (sd - 1) _ _ _ 1 hc hp]
        simp only [List.take_succ_cons, List.take_zero, ftext_cons, ftext_nil, List.append_nil]
        exact List.Sublist.append ((ftext_take_sublist _ _).trans (ftext_kids_sublist p)) (List.Sublist.refl _)

theorem maybeClose_text (S : Schema) (b : Bool) (fr : List FItem) (placed : List Node)
    (r : List FItem × List Node)
    (h : (if b = true then closeFrontierNode S fr placed else pure (fr, placed)) = .ok r) :
    ftext r.2 = ftext placed := by
  cases b with
  | true => exact closeFrontierNode_text S fr placed r h
  | false =>
    have := pure_ok h
    subst this; rfl

theorem placeNodes_text (S : Schema) (st st' : FitState) (fit : Fittable) (hok : FitOK st.unplaced fit)
    (h : placeNodes S st fit = .ok st') : (stext st').Sublist (stext st) := by
  have hinj : ftext (fit.inject.getD []) = [] := by
    cases hi : fit.inject with
    | none => rfl
    | some inj => exact hok.2 inj hi
  -- the fragment the nodes are taken from, made explicit
  obtain ⟨fragment, hfrag, hpar⟩ : ∃ fragment : List Node,
      fit.fragment st.unplaced = fragment ∧
      ((fit.sliceDepth = 0 ∧ fragment = st.unplaced.content) ∨
       (0 < fit.sliceDepth ∧ ∃ p rest, contentAt st.unplaced.content (fit.sliceDepth - 1) = .ok (p :: rest) ∧
          fragment = p.kids)) := by
    rcases hok.1 with ⟨h0, hnone⟩ | ⟨hpos, p, rest, hp, hsome⟩
    · exact ⟨st.unplaced.content, by simp [Fittable.fragment, hnone], .inl ⟨h0, rfl⟩⟩
    · exact ⟨p.kids, by simp [Fittable.fragment, hsome], .inr ⟨hpos, p, rest, hp, rfl⟩⟩
  unfold placeNodes at h
  obtain ⟨c1, hc1, h⟩ := FM.bind_ok h
  obtain ⟨c2, hc2, h⟩ := FM.bind_ok h
  simp only at h
  obtain ⟨item, _, h⟩ := FM.bind_ok h
  obtain ⟨q0, _, h⟩ := FM.bind_ok h
  obtain ⟨q1, _, h⟩ := FM.bind_ok h
  obtain ⟨tk, htk, h⟩ := FM.bind_ok h
  obtain ⟨placed, hplaced, h⟩ := FM.bind_ok h
  obtain ⟨top, _, h⟩ := FM.bind_ok h
  obtain ⟨c3, hc3, h⟩ := FM.bind_ok h
  obtain ⟨fr, _, h⟩ := FM.bind_ok h
  obtain ⟨u', hu', h⟩ := FM.bind_ok h
  have := pure_ok h
  subst this
  obtain ⟨Y, hY1, hY2, _⟩ := takeLoop_text S _ _ _ _ _ _ _ _ _ tk htk
  have hp : ftext placed = ftext st.placed ++ Y := by
    rw [addToFragment_text _ _ _ _ hplaced, ftext_fromArray, hY1, hinj,
      openMany_text S _ _ _ c2 hc2, closeMany_text S _ _ _ c1 hc1]
    simp
  have hc3t : ftext c3.2 = ftext placed := maybeClose_text S _ _ _ c3 hc3
  have hrest := placeRest_text st.unplaced fit.sliceDepth tk.1 _ _ u' fragment hpar hu'
  simp only [stext, hc3t, hp, List.append_assoc]
  simp only [Nat.sub_zero, hfrag] at hY2
  exact List.Sublist.append (List.Sublist.refl _)
    ((List.Sublist.append hY2 (List.Sublist.refl _)).trans hrest)

theorem openMore_text (st st' : FitState) (h : openMore st = .ok (some st')) : stext st' = stext st := by
  unfold openMore at h
  simp only at h
  obtain ⟨inner, _, h⟩ := FM.bind_ok h
  split at h
  · simp [pure, Except.pure] at h
  · split at h
    · simp [pure, Except.pure] at h
    · have := pure_ok h
      simp only [Option.some.injEq] at this
      subst this; rfl

theorem dropNode_text (st st' : FitState) (h : dropNode st = .ok st') : (stext st').Sublist (stext st) := by
  unfold dropNode at h
  simp only at h
  obtain ⟨inner, _, h⟩ := FM.bind_ok h
  split at h
  · obtain ⟨c, hc, h⟩ := FM.bind_ok h
    have := pure_ok h
    subst this
    exact List.Sublist.append (List.Sublist.refl _) (dropFromFragment_sublist _ _ _ _ hc)
  · obtain ⟨c, hc, h⟩ := FM.bind_ok h
    have := pure_ok h
    subst this
    exact List.Sublist.append (List.Sublist.refl _) (dropFromFragment_sublist _ _ _ _ hc)

theorem fitStep_text (S : Schema) (st st' : FitState) (h : fitStep S st = .ok st') :
    (stext st').Sublist (stext st) := by
  unfold fitStep at h
  obtain ⟨f, hf, h⟩ := FM.bind_ok h
  cases f with
  | some f => exact placeNodes_text S st st' f (findFittable_spec S st f hf) h
  | none =>
    simp only at h
    obtain ⟨o, ho, h⟩ := FM.bind_ok h
    cases o with
    | some s2 =>
      have := pure_ok h
      subst this
      rw [openMore_text st s2 ho]
      exact List.Sublist.refl _
    | none => exact dropNode_text st st' h

/-- **the loop invariant of `fit`** (`fitter_slice_text_subsequence`): whatever the loop has placed
    followed by what it still has to place is an in-order subsequence of the same for the state it
    started from — no text is invented, duplicated or reordered -/
theorem fitLoop_text (S : Schema) : ∀ (fuel : Nat) (st st' : FitState),
    fitLoop S fuel st = .ok st' → (stext st').Sublist (stext st)
  | 0, st, st', h => by
    unfold fitLoop at h
    split at h
    · have := pure_ok h
      subst this
      exact List.Sublist.refl _
    · simp [throw, throwThe, MonadExceptOf.throw] at h
  | fuel + 1, st, st', h => by
    unfold fitLoop at h
    split at h
    · have := pure_ok h
      subst this
      exact List.Sublist.refl _
    · obtain ⟨s1, hs1, h⟩ := FM.bind_ok h
      exact (fitLoop_text S fuel s1 st' h).trans (fitStep_text S st s1 hs1)

/-! ### before and after the loop -/

theorem fitInit_text {doc : Node} {f : Nat} {rf : RPos} (S : Schema) (hf : doc.resolve f = some rf)
    (sl : Slice) (st0 : FitState) (h : fitInit S rf sl = .ok st0) : stext st0 = ftext sl.content := by
  unfold fitInit at h
  obtain ⟨fr, _, h⟩ := FM.bind_ok h
  have := pure_ok h
  subst this
  have key : ∀ l : List Nat, (∀ i ∈ l, i < rf.depth) →
      ftext (l.foldr (fun i acc => [(rf.node (i + 1)).withKids acc]) []) = [] := by
    intro l
    induction l with
    | nil => intro _; rfl
    | cons i l ih =>
      intro hl
      obtain ⟨t, a, m, k, hn⟩ := resolve_node_elem hf i (hl i List.mem_cons_self)
      simp only [List.foldr_cons, ftext_cons, ftext_nil, List.append_nil, hn, Node.withKids, ntext_elem]
      exact ih fun j hj => hl j (List.mem_cons_of_mem _ hj)
  simp only [stext]
  rw [key _ (fun i hi => List.mem_range.mp hi)]
  rfl

theorem contentAfterFitsAt_noText (S : Schema) (node : Node) (index : Nat) (ty : TypeId) (st : Option Nat)
    (f : List Node) (h : contentAfterFitsAt S node index ty st = .ok (some f)) : ftext f = [] := by
  unfold contentAfterFitsAt at h
  split at h
  · simp [pure, Except.pure] at h
  · obtain ⟨q, _, h⟩ := FM.bind_ok h
    obtain ⟨fit, hfit, h⟩ := FM.bind_ok h
    cases fit with
    | none => simp [pure, Except.pure] at h
    | some g =>
      simp only at h
      split at h
      · simp [pure, Except.pure] at h
      · have := pure_ok h
        simp only [Option.some.injEq] at this
        subst this
        exact fillOpt_noText S _ _ _ _ _ hfit

theorem contentAfterFits_noText (S : Schema) (rt : RPos) (depth : Nat) (ty : TypeId) (st : Option Nat)
    (open_ : Bool) (f : List Node) (h : contentAfterFits S rt depth ty st open_ = .ok (some f)) :
    ftext f = [] := by
  unfold contentAfterFits at h
  by_cases hd : rt.depth < depth
  · simp [hd, throw, throwThe, MonadExceptOf.throw] at h
  · rw [if_neg hd] at h
    exact contentAfterFitsAt_noText S _ _ _ _ f h

theorem findCloseLevelLoop_fit (S : Schema) (doc : Node) (rt : RPos) (fr : List FItem) :
    ∀ (n : Nat) (lv : CloseLevel), findCloseLevelLoop S doc rt fr n = .ok (some lv) → ftext lv.fit = []
  | 0, lv, h => by simp [findCloseLevelLoop, pure, Except.pure] at h
  | i + 1, lv, h => by
    unfold findCloseLevelLoop at h
    obtain ⟨it, _, h⟩ := FM.bind_ok h
    simp only at h
    obtain ⟨r, hr, h⟩ := FM.bind_ok h
    cases r with
    | none => exact findCloseLevelLoop_fit S doc rt fr i lv h
    | some fit =>
      simp only at h
      obtain ⟨b, _, h⟩ := FM.bind_ok h
      cases b with
      | false => exact findCloseLevelLoop_fit S doc rt fr i lv h
      | true =>
        simp only [if_true] at h
        obtain ⟨mv, _, h⟩ := FM.bind_ok h
        have := pure_ok h
        simp only [Option.some.injEq] at this
        subst this
        exact contentAfterFits_noText S rt i _ _ _ fit hr

theorem reopen_text (S : Schema) (mv : RPos) : ∀ (n d : Nat) (fr : List FItem) (placed : List Node)
    (r : List FItem × List Node), reopen S mv n d fr placed = .ok r → ftext r.2 = ftext placed
  | 0, d, fr, placed, r, h => by
    have := pure_ok h
    subst this; rfl
  | n + 1, d, fr, placed, r, h => by
    unfold reopen at h
    simp only at h
    obtain ⟨add, hadd, h⟩ := FM.bind_ok h
    obtain ⟨x, hx, h⟩ := FM.bind_ok h
    have hc : ftext (add.getD []) = [] := by
      cases add with
      | none => rfl
      | some a => exact fillOpt_noText S _ _ _ _ _ hadd
    rw [reopen_text S mv n _ _ _ r h, openFrontierNode_text S fr placed _ _ _ hc x hx]

theorem closeFit_text (S : Schema) (doc : Node) (rt : RPos) (fr : List FItem) (placed : List Node)
    (mv : RPos) (p : List Node) (h : closeFit S doc rt fr placed = .ok (some (mv, p))) :
    ftext p = ftext placed := by
  unfold closeFit at h
  obtain ⟨r, hr, h⟩ := FM.bind_ok h
  cases r with
  | none => simp [pure, Except.pure] at h
  | some lv =>
    simp only at h
    obtain ⟨c1, hc1, h⟩ := FM.bind_ok h
    obtain ⟨pl, hpl, h⟩ := FM.bind_ok h
    obtain ⟨c2, hc2, h⟩ := FM.bind_ok h
    have := pure_ok h
    simp only [Option.some.injEq, Prod.mk.injEq] at this
    rw [← this.2, reopen_text S _ _ _ _ _ c2 hc2]
    have hfit : ftext lv.fit = [] := findCloseLevelLoop_fit S doc rt fr _ lv hr
    have h1 := closeMany_text S _ _ _ c1 hc1
    split at hpl
    · rw [addToFragment_text _ _ _ _ hpl, hfit, List.append_nil, h1]
    · have := pure_ok hpl
      subst this
      exact h1

theorem normalizeOpen_text : ∀ (n : Nat) (c : List Node) (os oe : Nat),
    (ftext (normalizeOpen n c os oe).1).Sublist (ftext c)
  | 0, c, os, oe => List.Sublist.refl _
  | n + 1, c, os, oe => by
    unfold normalizeOpen
    split
    · rename_i only
      split
      · refine (normalizeOpen_text n only.kids (os - 1) (oe - 1)).trans ?_
        rw [ftext_cons, ftext_nil, List.append_nil]
        exact ftext_kids_sublist only
      · exact List.Sublist.refl _
    · exact List.Sublist.refl _

/-- the text of a slice's open token range is part of the text of its content … -/
theorem sliceToks'_text_sublist (sl : Slice) : (textUnits (sliceToks' sl)).Sublist (ftext sl.content) := by
  unfold sliceToks' ftext
  exact textUnits_sublist ((List.take_sublist _ _).trans (List.drop_sublist _ _))

/-! ### … and all of it when the slice is well-formed -/

theorem textUnits_drop_spineL : ∀ (os : Nat) (c : List Node), os ≤ spineL c →
    textUnits ((ftoks c).drop os) = ftext c
  | 0, c, _ => rfl
  | os + 1, c, h => by
    cases c with
    | nil => simp [spineL] at h
    | cons n rest =>
      cases n with
      | text s m => simp [spineL] at h
      | leaf t a m => simp [spineL] at h
      | elem t a m kids =>
        rw [spineL_elem_cons] at h
        have hle : os ≤ (ftoks kids).length := by
          have := spineL_le kids
          rw [ftoks_length]; omega
        have ih := textUnits_drop_spineL os kids (by omega)
        simp only [ftoks, Node.toks, List.cons_append, List.drop_succ_cons, List.append_assoc]
        rw [List.drop_append_of_le_length hle, textUnits_append, ih, ftext_cons, ntext_elem]
        simp [ftext, textUnits]

theorem take_all_toks (c : List Node) : (ftoks c).take (fsize c) = ftoks c :=
  List.take_of_length_le (by rw [ftoks_length]; exact Nat.le_refl _)

theorem textUnits_take_spineR : ∀ (c : List Node) (oe : Nat), oe ≤ spineR c →
    textUnits ((ftoks c).take (fsize c - oe)) = ftext c
  | [], oe, _ => by simp [ftoks, textUnits]
  | [n], oe, h => by
    rcases Nat.eq_zero_or_pos oe with h0 | hpos
    · subst h0
      rw [Nat.sub_zero, take_all_toks]; rfl
    · cases n with
      | text s m => simp [spineR] at h; omega
      | leaf t a m => simp [spineR] at h; omega
      | elem t a m kids =>
        obtain ⟨oe', rfl⟩ : ∃ k, oe = k + 1 := ⟨oe - 1, by omega⟩
        rw [spineR_elem_single] at h
        have ih := textUnits_take_spineR kids oe' (by omega)
        have hs := spineR_le kids
        have e : fsize [Node.elem t a m kids] - (oe' + 1) = (fsize kids - oe') + 1 := by
          simp [fsize]; omega
        rw [e]
        simp only [ftoks, Node.toks, List.append_nil, List.take_succ_cons]
        rw [List.take_append_of_le_length (by rw [ftoks_length]; omega)]
        rw [ftext_cons, ntext_elem, ftext_nil, List.append_nil]
        simpa [textUnits] using ih
  | x :: n :: ns, oe, h => by
    have hsp : spineR (x :: n :: ns) = spineR (n :: ns) := by
      conv => lhs; unfold spineR
      cases x <;> rfl
    rw [hsp] at h
    have ih := textUnits_take_spineR (n :: ns) oe h
    have hs := spineR_le (n :: ns)
    have e1 : fsize (x :: n :: ns) = x.size + fsize (n :: ns) := by rw [fsize]
    have e : fsize (x :: n :: ns) - oe = x.size + (fsize (n :: ns) - oe) := by omega
    rw [e]
    have : ftoks (x :: n :: ns) = x.toks ++ ftoks (n :: ns) := by rw [ftoks]
    rw [this, ← Node.toks_length x, List.take_length_add_append, textUnits_append, ih]
    conv => rhs; rw [ftext_cons]
    rfl

theorem sliceToks'_text_wf (sl : Slice) (hwf : sl.wf = true) : textUnits (sliceToks' sl) = ftext sl.content := by
  simp only [Slice.wf, Bool.and_eq_true, decide_eq_true_eq] at hwf
  have hsum := spine_sum_le sl.content
  have h1 := textUnits_drop_spineL sl.openStart sl.content hwf.1
  have h2 := textUnits_take_spineR sl.content sl.openEnd hwf.2
  -- the first `openStart` and the last `openEnd` tokens carry no text
  have hlen : (ftoks sl.content).length = fsize sl.content := ftoks_length _
  have hA : textUnits ((ftoks sl.content).take sl.openStart) = [] := by
    have := congrArg textUnits (List.take_append_drop sl.openStart (ftoks sl.content))
    rw [textUnits_append, h1] at this
    have hl := congrArg List.length this
    simp only [List.length_append, ftext] at hl
    exact List.eq_nil_of_length_eq_zero (by omega)
  have hB : textUnits ((ftoks sl.content).drop (fsize sl.content - sl.openEnd)) = [] := by
    have := congrArg textUnits (List.take_append_drop (fsize sl.content - sl.openEnd) (ftoks sl.content))
    rw [textUnits_append, h2] at this
    have hl := congrArg List.length this
    simp only [List.length_append, ftext] at hl
    exact List.eq_nil_of_length_eq_zero (by omega)
  have split3 : ftoks sl.content = (ftoks sl.content).take sl.openStart ++ sliceToks' sl ++
      (ftoks sl.content).drop (fsize sl.content - sl.openEnd) := by
    unfold sliceToks'
    have e : (ftoks sl.content).drop (fsize sl.content - sl.openEnd) =
        ((ftoks sl.content).drop sl.openStart).drop (fsize sl.content - sl.openStart - sl.openEnd) := by
      rw [List.drop_drop]; congr 1; omega
    rw [e, List.append_assoc, List.take_append_drop, List.take_append_drop]
  have := congrArg textUnits split3
  rw [textUnits_append, textUnits_append, hA, hB] at this
  simpa [ftext] using this.symm

/-! ### the emitted step -/

/-- the slice a replace or replace-around step carries -/
def Step.sliceOf : Step → Option Slice
  | .replace _ _ sl _ => some sl
  | .replaceAround _ _ _ _ sl _ _ => some sl
  | _ => none

theorem fitEmit_slice (rf rt : RPos) (mi : Option Nat) (ps : Int) (to_ : RPos) (placed : List Node)
    (st : Step) (h : fitEmit rf rt mi ps to_ placed = .ok (some st)) :
    ∃ sl', st.sliceOf = some sl' ∧ (ftext sl'.content).Sublist (ftext placed) := by
  unfold fitEmit at h
  simp only at h
  have hn := normalizeOpen_text (rf.depth + 1) placed rf.depth to_.depth
  cases mi with
  | none =>
    simp only at h
    split at h
    · have := pure_ok h
      simp only [Option.some.injEq] at this
      subst this
      exact ⟨_, rfl, hn⟩
    · simp [pure, Except.pure] at h
  | some p =>
    simp only at h
    split at h
    · simp [throw, throwThe, MonadExceptOf.throw] at h
    · have := pure_ok h
      simp only [Option.some.injEq] at this
      subst this
      exact ⟨_, rfl, hn⟩

/-- **the Fitter never invents text**: the text of the slice of the emitted step is an in-order
    subsequence of the text of the requested slice's content -/
theorem fitterFit_text {doc : Node} {f : Nat} {rf : RPos} (S : Schema) (hf : doc.resolve f = some rf)
    (rt : RPos) (sl : Slice) (fuel : Nat) (st : Step)
    (h : fitterFit S doc rf rt sl fuel = .ok (some st)) :
    ∃ sl', st.sliceOf = some sl' ∧ (ftext sl'.content).Sublist (ftext sl.content) := by
  unfold fitterFit at h
  obtain ⟨st0, h0, h⟩ := FM.bind_ok h
  obtain ⟨st1, h1, h⟩ := FM.bind_ok h
  obtain ⟨mi, _, h⟩ := FM.bind_ok h
  simp only at h
  obtain ⟨target, _, h⟩ := FM.bind_ok h
  obtain ⟨c, hc, h⟩ := FM.bind_ok h
  cases c with
  | none => simp [pure, Except.pure] at h
  | some c =>
    simp only at h
    obtain ⟨sl', hs, hsub⟩ := fitEmit_slice rf rt mi _ c.1 c.2 st h
    refine ⟨sl', hs, hsub.trans ?_⟩
    rw [closeFit_text S doc target st1.frontier st1.placed c.1 c.2 hc]
    have hloop := fitLoop_text S fuel st0 st1 h1
    rw [fitInit_text S hf sl st0 h0] at hloop
    exact (List.sublist_append_left _ _).trans hloop

end PM
