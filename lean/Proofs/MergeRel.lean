/-
  Proofs/MergeRel.lean — algebra of `RightRel` (Proofs/UndoRel.lean) used by the success proof of a
  merged replace step (C16): the relation is symmetric, transitive when `compatible_content` is
  transitive on the schema, and it moves along: what holds at `t' / t` holds `δ` positions further
  to the right on both sides.
-/
import Proofs.UndoForward
namespace PM

/-! ### `splitRight` a few positions further to the right -/

theorem splitOk_drop (s : List Nat) (t d : Nat) (hd : d ≠ 0) :
    splitOk (s.drop t) d = splitOk s (t + d) := by
  obtain ⟨d', rfl⟩ : ∃ d', d = d' + 1 := ⟨d - 1, by omega⟩
  rw [show t + (d' + 1) = (t + d') + 1 by omega]
  simp only [splitOk, List.getElem?_drop]
  rw [show t + (d' + 1) = t + d' + 1 by omega]

theorem splitRight_flat_shift : ∀ (L : List Node) (t : Nat) (r : List Node) (d : Nat),
    splitRight L t = some (.flat r) → splitRight L (t + d) = splitRight r d
  | [], 0, r, d, h => by simp at h; subst h; simp
  | [], _ + 1, _, _, h => by simp [splitRight] at h
  | n :: ns, t, r, d, h => by
    by_cases hd : d = 0
    · subst hd; simp [h]
    rw [splitRight_cons] at h
    split at h
    · rename_i ht; subst ht; simp at h; subst h; simp
    · rename_i ht
      split at h
      · rename_i hle
        rw [splitRight_skip n ns (t + d) (by omega) (by omega)]
        have := splitRight_flat_shift ns (t - n.size) r d h
        rw [← this]
        congr 1; omega
      · rename_i hlt
        cases n with
        | text s m =>
          simp only at h
          split at h
          · simp at h; subst h
            simp only [Node.size_text, Nat.not_le] at hlt
            by_cases hin : t + d < s.length
            · rw [splitRight_cons, if_neg (by omega), if_neg (by simp; omega),
                splitRight_cons, if_neg hd, if_neg (by simp; omega)]
              simp only [splitOk_drop s t d hd, List.drop_drop]
            · rw [splitRight_skip _ ns (t + d) (by omega) (by simp; omega),
                splitRight_skip _ ns d hd (by simp; omega)]
              congr 1; simp; omega
          · simp at h
        | leaf ty a m => simp at h
        | elem ty a m k => simp at h

theorem splitRight_deep_shift_in : ∀ (L : List Node) (t : Nat) (ty : TypeId) (a : Attrs) (m : Marks)
    (k : List Node) (i : Nat) (r : List Node) (d : Nat),
    splitRight L t = some (.deep (.elem ty a m k) i r) → i + d ≤ fsize k →
    splitRight L (t + d) = some (.deep (.elem ty a m k) (i + d) r)
  | [], 0, _, _, _, _, _, _, _, h, _ => by simp at h
  | [], _ + 1, _, _, _, _, _, _, _, h, _ => by simp [splitRight] at h
  | n :: ns, t, ty, a, m, k, i, r, d, h, hi => by
    rw [splitRight_cons] at h
    split at h
    · simp at h
    · rename_i ht
      split at h
      · rename_i hle
        rw [splitRight_skip n ns (t + d) (by omega) (by omega)]
        have := splitRight_deep_shift_in ns (t - n.size) ty a m k i r d h hi
        rw [← this]
        congr 1; omega
      · rename_i hlt
        cases n with
        | text s m' =>
          simp only at h
          split at h <;> simp at h
        | leaf ty' a' m' => simp at h
        | elem ty' a' m' k' =>
          simp at h
          obtain ⟨⟨rfl, rfl, rfl, rfl⟩, rfl, rfl⟩ := h
          simp only [Node.size_elem, Nat.not_le] at hlt
          rw [splitRight_elem _ _ _ _ _ (t + d) (by omega) (by omega)]
          congr 3; omega

theorem splitRight_deep_shift_out : ∀ (L : List Node) (t : Nat) (ty : TypeId) (a : Attrs) (m : Marks)
    (k : List Node) (i : Nat) (r : List Node) (d : Nat),
    splitRight L t = some (.deep (.elem ty a m k) i r) → fsize k < i + d →
    splitRight L (t + d) = splitRight r (i + d - fsize k - 1)
  | [], 0, _, _, _, _, _, _, _, h, _ => by simp at h
  | [], _ + 1, _, _, _, _, _, _, _, h, _ => by simp [splitRight] at h
  | n :: ns, t, ty, a, m, k, i, r, d, h, hi => by
    rw [splitRight_cons] at h
    split at h
    · simp at h
    · rename_i ht
      split at h
      · rename_i hle
        rw [splitRight_skip n ns (t + d) (by omega) (by omega)]
        have := splitRight_deep_shift_out ns (t - n.size) ty a m k i r d h hi
        rw [← this]
        congr 1; omega
      · rename_i hlt
        cases n with
        | text s m' =>
          simp only at h
          split at h <;> simp at h
        | leaf ty' a' m' => simp at h
        | elem ty' a' m' k' =>
          simp at h
          obtain ⟨⟨rfl, rfl, rfl, rfl⟩, rfl, rfl⟩ := h
          simp only [Node.size_elem, Nat.not_le] at hlt
          rw [splitRight_skip _ _ (t + d) (by omega) (by simp; omega)]
          congr 1; simp; omega

/-! ### symmetry, transitivity -/

theorem RightRel.symm {S : Schema} {L' : List Node} {t' : Nat} {L : List Node} {t : Nat}
    (h : RightRel S L' t' L t) : RightRel S L t L' t' := by
  induction h with
  | flat h1 h2 => exact .flat h2 h1
  | deep h1 h2 h3 _ ih => exact .deep h2 h1 (by rw [compat_symm]; exact h3) ih

theorem RightRel.trans {S : Schema} (htr : CompatTrans S) {A : List Node} {a : Nat} {B : List Node}
    {b : Nat} (h : RightRel S A a B b) : ∀ {C : List Node} {c : Nat}, RightRel S B b C c →
    RightRel S A a C c := by
  induction h with
  | flat h1 h2 =>
    intro C c h'
    cases h' with
    | flat g1 g2 =>
      rw [h2] at g1; simp at g1; subst g1
      exact .flat h1 g2
    | deep g1 g2 _ _ => rw [h2] at g1; simp at g1
  | deep h1 h2 h3 _ ih =>
    intro C c h'
    cases h' with
    | flat g1 g2 => rw [h2] at g1; simp at g1
    | deep g1 g2 g3 g4 =>
      rw [h2] at g1; simp at g1
      obtain ⟨⟨rfl, rfl, rfl, rfl⟩, rfl, rfl⟩ := g1
      exact .deep h1 g2 (htr _ _ _ h3 g3) (ih g4)

/-- equal `splitRight` results at an aligned position -/
theorem rightRel_of_split_eq (S : Schema) {L' L : List Node} {p' p : Nat}
    (h : splitRight L' p' = splitRight L p) (hle : p ≤ fsize L) (ha : alignedAt L p = true) :
    RightRel S L' p' L p :=
  (RightRel.refl S L p hle ha).congr_left h.symm

/-! ### moving along -/

theorem RightRel.shift {S : Schema} {L' : List Node} {t' : Nat} {L : List Node} {t : Nat}
    (h : RightRel S L' t' L t) : ∀ d : Nat, t + d ≤ fsize L → alignedAt L (t + d) = true →
    RightRel S L' (t' + d) L (t + d) := by
  induction h with
  | @flat L' t' L t r h1 h2 =>
    intro d hle ha
    refine rightRel_of_split_eq S ?_ hle ha
    rw [splitRight_flat_shift L' t' r d h1, splitRight_flat_shift L t r d h2]
  | @deep L' t' L t ty' a' m' k' i' ty a m k i r h1 h2 h3 hrel ih =>
    intro d hle ha
    have htk := hrel.toks
    have hlen := congrArg List.length htk
    simp only [List.length_drop, ftoks_length] at hlen
    have hi' := hrel.le.1
    have hi := hrel.le.2
    by_cases hin : i + d ≤ fsize k
    · have s1 := splitRight_deep_shift_in L' t' ty' a' m' k' i' r d h1 (by omega)
      have s2 := splitRight_deep_shift_in L t ty a m k i r d h2 hin
      have hak : alignedAt k (i + d) = true := by
        have := splitRight_aligned _ _ _ s2
        simp only at this
        rw [← this]; exact ha
      exact .deep s1 s2 h3 (ih d hin hak)
    · refine rightRel_of_split_eq S ?_ hle ha
      rw [splitRight_deep_shift_out L' t' ty' a' m' k' i' r d h1 (by omega),
        splitRight_deep_shift_out L t ty a m k i r d h2 (by omega)]
      congr 1; omega

end PM
