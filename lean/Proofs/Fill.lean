/- Proofs/Fill.lean — helper lemmas for Props/C15.lean -/
import PM.Fill
import Proofs.DfaRun
namespace PM

/-! ### automaton basics -/

theorem find?_fst_of_mem_nodup {α β : Type} [BEq α] [LawfulBEq α] :
    ∀ (l : List (α × β)) (t : α) (n : β), (l.map (·.1)).Nodup → (t, n) ∈ l →
      l.find? (·.1 == t) = some (t, n)
  | [], _, _, _, h => by simp at h
  | (a, b) :: l, t, n, hnd, h => by
    simp only [List.map_cons, List.nodup_cons] at hnd
    simp only [List.mem_cons, Prod.mk.injEq] at h
    rcases h with ⟨rfl, rfl⟩ | h
    · simp
    · have hne : a ≠ t := by
        intro e; subst e
        exact hnd.1 (List.mem_map.2 ⟨(a, n), h, rfl⟩)
      have : (a == t) = false := by simpa using hne
      simp only [List.find?_cons, this]
      exact find?_fst_of_mem_nodup l t n hnd.2 h

theorem Dfa.mem_of_matchType {d : Dfa} {q : Nat} {t : TypeId} {n : Nat}
    (h : d.matchType q t = some n) : (t, n) ∈ d.edgesOf q := by
  unfold Dfa.matchType at h
  rcases hf : (d.edgesOf q).find? (·.1 == t) with _ | ⟨a, b⟩
  · simp [hf] at h
  · simp only [hf, Option.map_some, Option.some.injEq] at h
    have hp := List.find?_some hf
    have hm := List.mem_of_find?_eq_some hf
    simp only [beq_iff_eq] at hp
    subst hp; subst h; exact hm

theorem Dfa.matchType_isSome_of_mem {d : Dfa} {q : Nat} {t : TypeId} {n : Nat}
    (h : (t, n) ∈ d.edgesOf q) : (d.matchType q t).isSome = true := by
  unfold Dfa.matchType
  simp only [Option.isSome_map, List.find?_isSome]
  exact ⟨(t, n), h, by simp⟩

theorem Dfa.matchType_of_mem_nodup {d : Dfa} {q : Nat} {t : TypeId} {n : Nat}
    (hnd : ((d.edgesOf q).map (·.1)).Nodup) (h : (t, n) ∈ d.edgesOf q) :
    d.matchType q t = some n := by
  unfold Dfa.matchType
  rw [find?_fst_of_mem_nodup _ t n hnd h]; rfl

/-- the search's stopping test at a state -/
def fillFinished (d : Dfa) (after : List TypeId) (toEnd : Bool) (q : Nat) : Bool :=
  match d.run q after with
  | some f => !toEnd || d.validEnd f
  | none => false

theorem isFill_eq (d : Dfa) (gen : TypeId → Bool) (q : Nat) (after : List TypeId) (toEnd : Bool)
    (fill : List TypeId) :
    isFill d gen q after toEnd fill =
      (fill.all gen && match d.run q fill with
        | some q' => fillFinished d after toEnd q'
        | none => false) := by
  unfold isFill fillFinished
  rw [Dfa.run_append]
  cases d.run q fill <;> simp <;> rfl

/-! ### soundness of `fillSearch` -/

theorem fillSearch_sound_aux (d : Dfa) (gen : TypeId → Bool) (after : List TypeId) (toEnd : Bool)
    (hdet : ∀ q, ((d.edgesOf q).map (·.1)).Nodup) :
    (∀ (fuel q : Nat) (types : List TypeId) (seen : List Nat),
      ∀ r seen', fillSearch d gen after toEnd fuel q types seen = (some r, seen') →
        ∃ ext q', r = types ++ ext ∧ ext.all gen = true ∧ d.run q ext = some q' ∧
          fillFinished d after toEnd q' = true) ∧
    (∀ (fuel : Nat) (edges : List (TypeId × Nat)) (types : List TypeId) (seen : List Nat),
      ∀ r seen', fillEdges d gen after toEnd fuel edges types seen = (some r, seen') →
        ∃ t nxt ext q', (t, nxt) ∈ edges ∧ gen t = true ∧ r = types ++ t :: ext ∧ ext.all gen = true ∧
          d.run nxt ext = some q' ∧ fillFinished d after toEnd q' = true) := by
  apply fillSearch.mutual_induct d gen after toEnd
  · intro q types seen r seen' h
    simp [fillSearch] at h
  · intro fuel q types seen finished hfin r seen' h
    rw [fillSearch.eq_2, if_pos hfin] at h
    simp only [Prod.mk.injEq, Option.some.injEq] at h
    exact ⟨[], q, by simp [h.1], by simp, by simp [Dfa.run], hfin⟩
  · intro fuel q types seen finished hfin ih r seen' h
    rw [fillSearch.eq_2, if_neg hfin] at h
    obtain ⟨t, nxt, ext, q', hm, hg, hr, hall, hrun, hf⟩ := ih r seen' h
    refine ⟨t :: ext, q', hr, by simp [hg, hall], ?_, hf⟩
    simp only [Dfa.run, Dfa.matchType_of_mem_nodup (hdet q) hm, hrun]
  · intro fuel types seen r seen' h
    simp [fillEdges] at h
  · intro fuel t nxt rest types seen hc r0 seen0 hs ih r seen' h
    rw [fillEdges.eq_2, if_pos hc, hs] at h
    simp only [Prod.mk.injEq, Option.some.injEq] at h
    obtain ⟨ext, q', hr, hall, hrun, hf⟩ := ih r0 seen0 hs
    simp only [Bool.and_eq_true] at hc
    refine ⟨t, nxt, ext, q', by simp, hc.1, ?_, hall, hrun, hf⟩
    rw [← h.1, hr]; simp
  · intro fuel t nxt rest types seen hc seen0 hs _ ih r seen' h
    rw [fillEdges.eq_2, if_pos hc, hs] at h
    obtain ⟨t', nxt', ext, q', hm, rest'⟩ := ih r seen' h
    exact ⟨t', nxt', ext, q', List.mem_cons_of_mem _ hm, rest'⟩
  · intro fuel t nxt rest types seen hc ih r seen' h
    rw [fillEdges.eq_2, if_neg hc] at h
    obtain ⟨t', nxt', ext, q', hm, rest'⟩ := ih r seen' h
    exact ⟨t', nxt', ext, q', List.mem_cons_of_mem _ hm, rest'⟩

theorem fillBefore_sound_aux (d : Dfa) (gen : TypeId → Bool) (q : Nat) (after : List TypeId) (toEnd : Bool)
    (hdet : ∀ q, ((d.edgesOf q).map (·.1)).Nodup)
    (fill : List TypeId) (h : fillBefore d gen q after toEnd = some fill) :
    isFill d gen q after toEnd fill = true := by
  unfold fillBefore at h
  rcases hs : fillSearch d gen after toEnd (d.size + 1) q [] [q] with ⟨r, seen'⟩
  rw [hs] at h
  simp only at h
  subst h
  obtain ⟨ext, q', hr, hall, hrun, hf⟩ := (fillSearch_sound_aux d gen after toEnd hdet).1 _ _ _ _ _ _ hs
  simp only [List.nil_append] at hr
  subst hr
  rw [isFill_eq, hall, hrun]
  simpa using hf

/-! ### completeness of `fillSearch` -/

/-- number of automaton states not yet marked -/
def unseen (n : Nat) (seen : List Nat) : Nat := (List.range n).countP (fun x => !seen.contains x)

theorem unseen_le (n : Nat) (seen : List Nat) : unseen n seen ≤ n := by
  unfold unseen
  exact Nat.le_trans List.countP_le_length (by simp)

theorem unseen_mono {n : Nat} {a b : List Nat} (h : ∀ x, x ∈ a → x ∈ b) : unseen n b ≤ unseen n a := by
  unfold unseen
  apply List.countP_mono_left
  intro x _ hx
  simp only [List.contains_eq_mem, Bool.not_eq_eq_eq_not, Bool.not_true, decide_eq_false_iff_not] at hx ⊢
  exact fun ha => hx (h x ha)

theorem countP_lt_of_mem {α : Type} {p q : α → Bool} (a : α) :
    ∀ (l : List α), a ∈ l → p a = false → q a = true → (∀ x, p x = true → q x = true) →
      l.countP p < l.countP q
  | [], h, _, _, _ => by simp at h
  | b :: l, h, hp, hq, hpq => by
    have hle : l.countP p ≤ l.countP q := List.countP_mono_left (fun x _ => hpq x)
    rcases List.mem_cons.1 h with rfl | h
    · simp only [List.countP_cons, hp, hq]; simp; omega
    · have ih := countP_lt_of_mem a l h hp hq hpq
      simp only [List.countP_cons]
      have := hpq b
      cases hb : p b <;> cases hb' : q b <;> simp_all <;> omega

theorem unseen_cons_lt {n x : Nat} {seen : List Nat} (hx : x < n) (hns : x ∉ seen) :
    unseen n (x :: seen) < unseen n seen := by
  unfold unseen
  apply countP_lt_of_mem x
  · simpa using hx
  · simp
  · simpa using hns
  · intro y hy
    simp only [List.contains_eq_mem, List.mem_cons, Bool.not_eq_eq_eq_not, Bool.not_true,
      decide_eq_false_iff_not, not_or] at hy ⊢
    exact hy.2

/-- `x` is not a stopping state and all its generatable successors lie in `S` -/
def FillClosed (d : Dfa) (gen : TypeId → Bool) (after : List TypeId) (toEnd : Bool) (x : Nat) (S : List Nat) : Prop :=
  fillFinished d after toEnd x = false ∧ ∀ t y, (t, y) ∈ d.edgesOf x → gen t = true → y ∈ S

theorem FillClosed.mono {d : Dfa} {gen : TypeId → Bool} {after : List TypeId} {toEnd : Bool} {x : Nat}
    {S S' : List Nat} (h : FillClosed d gen after toEnd x S) (hs : ∀ y, y ∈ S → y ∈ S') :
    FillClosed d gen after toEnd x S' :=
  ⟨h.1, fun t y hm hg => hs y (h.2 t y hm hg)⟩

theorem fillSearch_complete_aux (d : Dfa) (gen : TypeId → Bool) (after : List TypeId) (toEnd : Bool)
    (hd : ∀ q t q', (t, q') ∈ d.edgesOf q → q' < d.size) :
    (∀ (fuel q : Nat) (types : List TypeId) (seen : List Nat),
      unseen d.size seen < fuel →
      ∀ seen', fillSearch d gen after toEnd fuel q types seen = (none, seen') →
        (∀ x, x ∈ seen → x ∈ seen') ∧
        (∀ x, x ∈ seen' → (x ∉ seen ∨ x = q) → FillClosed d gen after toEnd x seen')) ∧
    (∀ (fuel : Nat) (edges : List (TypeId × Nat)) (types : List TypeId) (seen : List Nat),
      unseen d.size seen ≤ fuel → (∀ t y, (t, y) ∈ edges → y < d.size) →
      ∀ seen', fillEdges d gen after toEnd fuel edges types seen = (none, seen') →
        (∀ x, x ∈ seen → x ∈ seen') ∧
        (∀ x, x ∈ seen' → x ∉ seen → FillClosed d gen after toEnd x seen') ∧
        (∀ t y, (t, y) ∈ edges → gen t = true → y ∈ seen')) := by
  apply fillSearch.mutual_induct d gen after toEnd
  · intro q types seen hf
    omega
  · intro fuel q types seen finished hfin _ seen' h
    rw [fillSearch.eq_2, if_pos hfin] at h
    simp at h
  · intro fuel q types seen finished hfin ih hf seen' h
    rw [fillSearch.eq_2, if_neg hfin] at h
    obtain ⟨h1, h2, h3⟩ := ih (by omega) (fun t y hm => hd q t y hm) seen' h
    refine ⟨h1, ?_⟩
    intro x hx hc
    by_cases hxs : x ∈ seen
    · have hxq : x = q := by
        rcases hc with hc | hc
        · exact absurd hxs hc
        · exact hc
      subst hxq
      refine ⟨?_, h3⟩
      exact Bool.eq_false_iff.2 hfin
    · exact h2 x hx hxs
  · intro fuel types seen _ _ seen' h
    rw [fillEdges.eq_1] at h
    simp only [Prod.mk.injEq, true_and] at h
    subst h
    exact ⟨fun _ h => h, fun x hx hn => absurd hx hn, by simp⟩
  · intro fuel t nxt rest types seen hc r0 seen0 hs _ _ _ seen' h
    rw [fillEdges.eq_2, if_pos hc, hs] at h
    simp at h
  · intro fuel t nxt rest types seen hc seen0 hs ih1 ih2 hf hlt seen' h
    rw [fillEdges.eq_2, if_pos hc, hs] at h
    simp only [Bool.and_eq_true, Bool.not_eq_eq_eq_not, Bool.not_true, List.contains_eq_mem,
      decide_eq_false_iff_not] at hc
    have hnx : nxt < d.size := hlt t nxt (by simp)
    obtain ⟨a1, a2⟩ := ih1 (by have := unseen_cons_lt hnx hc.2; omega) seen0 hs
    have hsub0 : ∀ x, x ∈ seen → x ∈ seen0 := fun x hx => a1 x (List.mem_cons_of_mem _ hx)
    obtain ⟨b1, b2, b3⟩ := ih2 (by have := unseen_mono (n := d.size) hsub0; omega)
      (fun t' y hm => hlt t' y (List.mem_cons_of_mem _ hm)) seen' h
    refine ⟨fun x hx => b1 x (hsub0 x hx), ?_, ?_⟩
    · intro x hx hxs
      by_cases hx0 : x ∈ seen0
      · refine (a2 x hx0 ?_).mono b1
        by_cases hxn : x = nxt
        · exact Or.inr hxn
        · exact Or.inl (by simp [hxn, hxs])
      · exact b2 x hx hx0
    · intro t' y hm hg
      rcases List.mem_cons.1 hm with he | hm
      · simp only [Prod.mk.injEq] at he
        rw [he.2]
        exact b1 nxt (a1 nxt (by simp))
      · exact b3 t' y hm hg
  · intro fuel t nxt rest types seen hc ih hf hlt seen' h
    rw [fillEdges.eq_2, if_neg hc] at h
    obtain ⟨b1, b2, b3⟩ := ih hf (fun t' y hm => hlt t' y (List.mem_cons_of_mem _ hm)) seen' h
    refine ⟨b1, b2, ?_⟩
    intro t' y hm hg
    rcases List.mem_cons.1 hm with he | hm
    · simp only [Prod.mk.injEq] at he
      obtain ⟨rfl, rfl⟩ := he
      simp only [hg, Bool.true_and, Bool.not_eq_eq_eq_not, Bool.not_true, List.contains_eq_mem,
        decide_eq_false_iff_not, Decidable.not_not] at hc
      exact b1 y hc
    · exact b3 t' y hm hg

theorem run_mem_of_closed {d : Dfa} {gen : TypeId → Bool} {after : List TypeId} {toEnd : Bool} {S : List Nat}
    (hS : ∀ x, x ∈ S → FillClosed d gen after toEnd x S) :
    ∀ (fill : List TypeId) (x q' : Nat), x ∈ S → fill.all gen = true → d.run x fill = some q' → q' ∈ S
  | [], x, q', hx, _, hr => by
    simp only [Dfa.run, Option.some.injEq] at hr
    exact hr ▸ hx
  | t :: fill, x, q', hx, hg, hr => by
    simp only [List.all_cons, Bool.and_eq_true] at hg
    simp only [Dfa.run] at hr
    rcases hm : d.matchType x t with _ | y
    · simp [hm] at hr
    · rw [hm] at hr
      exact run_mem_of_closed hS fill y q' ((hS x hx).2 t y (Dfa.mem_of_matchType hm) hg.1) hg.2 hr

theorem fillBefore_complete_aux (d : Dfa) (hd : ∀ q t q', (t, q') ∈ d.edgesOf q → q' < d.size)
    (gen : TypeId → Bool) (q : Nat) (after : List TypeId) (toEnd : Bool)
    (h : fillBefore d gen q after toEnd = none) (fill : List TypeId) :
    isFill d gen q after toEnd fill = false := by
  unfold fillBefore at h
  rcases hs : fillSearch d gen after toEnd (d.size + 1) q [] [q] with ⟨r, seen'⟩
  rw [hs] at h
  simp only at h
  subst h
  obtain ⟨h1, h2⟩ := (fillSearch_complete_aux d gen after toEnd hd).1 _ _ _ _
    (by have := unseen_le d.size [q]; omega) _ hs
  have hS : ∀ x, x ∈ seen' → FillClosed d gen after toEnd x seen' := by
    intro x hx
    refine h2 x hx ?_
    by_cases hxq : x = q
    · exact Or.inr hxq
    · exact Or.inl (by simp [hxq])
  rw [isFill_eq]
  cases hall : fill.all gen
  · simp
  · rcases hrun : d.run q fill with _ | q'
    · simp
    · have := run_mem_of_closed hS fill q q' (h1 q (by simp)) hall hrun
      simpa using (hS q' this).1

/-! ### soundness of `wrapSearch` -/

theorem chainInner_snoc (S : Schema) (t tgt w : TypeId) (s : Nat)
    (hl : (S.dfa w).matchType 0 t = some s) (hv : (S.dfa w).validEnd s = true)
    (ht : ((S.dfa t).matchType 0 tgt).isSome = true) :
    ∀ pre : List TypeId, chainInner S t (pre ++ [w]) = true → chainInner S tgt (pre ++ [w, t]) = true
  | [], _ => by simp [chainInner, hl, hv, ht]
  | [a], h => by
    have ih := chainInner_snoc S t tgt w s hl hv ht [] (by
      simp only [List.cons_append, List.nil_append, chainInner, Bool.and_eq_true] at h
      simpa [chainInner] using h.2)
    simp only [List.cons_append, List.nil_append, chainInner, Bool.and_eq_true] at h ⊢
    exact ⟨h.1, by simpa [chainInner] using ih⟩
  | a :: b :: pre, h => by
    simp only [List.cons_append, chainInner, Bool.and_eq_true] at h ⊢
    exact ⟨h.1, chainInner_snoc S t tgt w s hl hv ht (b :: pre) h.2⟩

theorem isWrapChain_snoc (S : Schema) (d : Dfa) (q : Nat) (t tgt w : TypeId) (s : Nat) (chain : List TypeId)
    (hlast : chain.getLast? = some w)
    (hc : isWrapChain S d q t chain = true)
    (hl : (S.dfa w).matchType 0 t = some s) (hv : (S.dfa w).validEnd s = true)
    (hok : S.wrapOk t = true)
    (ht : ((S.dfa t).matchType 0 tgt).isSome = true) :
    isWrapChain S d q tgt (chain ++ [t]) = true := by
  obtain ⟨pre, rfl⟩ := List.getLast?_eq_some_iff.1 hlast
  have key := chainInner_snoc S t tgt w s hl hv ht pre
  rcases pre with _ | ⟨a, pre⟩
  · simp only [isWrapChain, List.nil_append, List.cons_append, List.all_cons, List.all_nil, Bool.and_true,
      Bool.and_eq_true] at hc ⊢
    simp only [List.nil_append] at key
    exact ⟨⟨hc.1, hok⟩, hc.2.1, key hc.2.2⟩
  · simp only [isWrapChain, List.cons_append, List.all_cons, List.all_append, List.all_nil, Bool.and_true,
      Bool.and_eq_true, List.append_assoc] at hc ⊢
    simp only [List.cons_append] at key
    exact ⟨⟨hc.1.1, hc.1.2.1, hc.1.2.2, trivial, hok⟩, hc.2.1, key hc.2.2⟩

/-- invariant of every queued item of `wrapSearch` -/
def WrapInv (S : Schema) (d : Dfa) (q : Nat) (a : Active) : Prop :=
  (a.root = true → a.chain = []) ∧
  (a.root = false → a.state = 0 ∧ a.chain.getLast? = some a.dfaOf) ∧
  ∀ tgt, ((a.dfa S d).matchType a.state tgt).isSome = true →
    isWrapChain S d q tgt a.chain = true

theorem foldl_inv {α β : Type} (P : β → Prop) (f : β → α → β) :
    ∀ (es : List α) (acc : β), (∀ acc e, e ∈ es → P acc → P (f acc e)) → P acc → P (es.foldl f acc)
  | [], acc, _, h => h
  | e :: es, acc, hf, h => by
    simp only [List.foldl_cons]
    exact foldl_inv P f es (f acc e) (fun acc e' he' => hf acc e' (List.mem_cons_of_mem _ he'))
      (hf acc e (by simp) h)

theorem wrapInv_extend (S : Schema) (d : Dfa) (q : Nat)
    (hdet : ∀ w, (((S.dfa w).edgesOf 0).map (·.1)).Nodup)
    (cur : Active) (hcur : WrapInv S d q cur) (t : TypeId) (s : Nat)
    (he : (t, s) ∈ (cur.dfa S d).edgesOf cur.state)
    (hok : S.wrapOk t = true)
    (hv : (cur.root || (cur.dfa S d).validEnd s) = true) :
    WrapInv S d q { dfaOf := t, state := 0, chain := cur.chain ++ [t], root := false } := by
  obtain ⟨h1, h2, h3⟩ := hcur
  have hct := h3 t (Dfa.matchType_isSome_of_mem he)
  refine ⟨by simp, fun _ => ⟨rfl, by simp⟩, ?_⟩
  intro tgt htgt
  simp only [Active.dfa, Bool.false_eq_true, if_false] at htgt
  cases hr : cur.root
  · obtain ⟨hs0, hlast⟩ := h2 hr
    simp only [Active.dfa, hr, Bool.false_eq_true, if_false, Bool.false_or, hs0] at he hv
    exact isWrapChain_snoc S d q t tgt cur.dfaOf s cur.chain hlast hct
      (Dfa.matchType_of_mem_nodup (hdet _) he) hv hok htgt
  · have hnil := h1 hr
    rw [hnil] at hct ⊢
    simp only [isWrapChain, List.all_nil, Bool.true_and] at hct
    simp [isWrapChain, chainInner, hok, hct, htgt]

theorem wrapExpand_inv (S : Schema) (d : Dfa) (q : Nat)
    (hdet : ∀ w, (((S.dfa w).edgesOf 0).map (·.1)).Nodup)
    (cur : Active) (hcur : WrapInv S d q cur) :
    ∀ (es : List (TypeId × Nat)) (seen : List TypeId),
      (∀ e, e ∈ es → e ∈ (cur.dfa S d).edgesOf cur.state) →
      ∀ a, a ∈ (wrapExpand S (cur.dfa S d) cur es seen).1 → WrapInv S d q a
  | [], _, _, a, ha => by simp [wrapExpand] at ha
  | (t, s) :: es, seen, hes, a, ha => by
    rw [wrapExpand] at ha
    have hes' : ∀ e, e ∈ es → e ∈ (cur.dfa S d).edgesOf cur.state :=
      fun e he => hes e (List.mem_cons_of_mem _ he)
    split at ha
    · rename_i hc
      simp only [Bool.and_eq_true] at hc
      rcases List.mem_cons.1 ha with ha | ha
      · subst ha
        exact wrapInv_extend S d q hdet cur hcur t s (hes (t, s) (by simp)) hc.1.1 hc.2
      · exact wrapExpand_inv S d q hdet cur hcur es _ hes' a ha
    · exact wrapExpand_inv S d q hdet cur hcur es _ hes' a ha

theorem wrapSearch_sound (S : Schema) (d : Dfa) (q : Nat) (target : TypeId)
    (hdet : ∀ w, (((S.dfa w).edgesOf 0).map (·.1)).Nodup) :
    ∀ (fuel : Nat) (queue : List Active) (seen : List TypeId) (chain : List TypeId),
      (∀ a, a ∈ queue → WrapInv S d q a) →
      wrapSearch S d target fuel queue seen = some chain → isWrapChain S d q target chain = true
  | 0, _, _, _, _, h => by simp [wrapSearch] at h
  | _ + 1, [], _, _, _, h => by simp [wrapSearch] at h
  | fuel + 1, cur :: queue, seen, chain, hq, h => by
    rw [wrapSearch.eq_3] at h
    by_cases hm : ((cur.dfa S d).matchType cur.state target).isSome = true
    · rw [if_pos hm] at h
      simp only [Option.some.injEq] at h
      subst h
      exact (hq cur (by simp)).2.2 target hm
    · rw [if_neg hm] at h
      refine wrapSearch_sound S d q target hdet fuel _ _ chain ?_ h
      intro a ha
      rcases List.mem_append.1 ha with ha | ha
      · exact hq a (List.mem_cons_of_mem _ ha)
      · exact wrapExpand_inv S d q hdet cur (hq cur (by simp)) _ _ (fun e he => he) a ha

theorem findWrapping_sound_aux (S : Schema) (d : Dfa) (q : Nat) (target : TypeId)
    (hdet : ∀ w, (((S.dfa w).edgesOf 0).map (·.1)).Nodup) (chain : List TypeId)
    (h : findWrapping S d q target = some chain) : isWrapChain S d q target chain = true := by
  unfold findWrapping at h
  refine wrapSearch_sound S d q target hdet _ _ _ chain ?_ h
  intro a ha
  simp only [List.mem_singleton] at ha
  subst ha
  refine ⟨fun _ => rfl, by simp, ?_⟩
  intro tgt htgt
  simpa [isWrapChain, Active.dfa] using htgt

end PM
