/- Proofs/Fill.lean — helper lemmas for Props/C15.lean -/
import PM.Fill
namespace PM
end PM
