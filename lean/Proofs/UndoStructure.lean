/-
  Proofs/UndoStructure.lean — the structure checks of the inverse of a replace-around step
  (hypothesis `hst` of `C04.replaceAround_undo` / `replaceAround_undo_structural`) hold when the
  step's slice carries only wrapper tokens beside the insertion point: before it close tokens followed
  by open tokens, after it likewise (`closesOpens`, Proofs/ContentBetween.lean) — the shapes `wrap`,
  `lift` and `set_node_markup` (to a non-leaf type) emit.  The complement is finding
  C04-structure-inverse.

  (Not imported by Props/C04.lean: Proofs/ContentBetween.lean depends on Proofs/Respects.lean, which
  cannot be imported together with Proofs/UndoRel.lean — both define `take_split`.)
-/
import Proofs.ContentBetween
import Proofs.StepToks
import Proofs.Undo
import Proofs.TypePlan
namespace PM

theorem window_mid {α} (A W R : List α) : ((A ++ W ++ R).drop A.length).take W.length = W := by
  rw [List.append_assoc, List.drop_left, List.take_left]

/-- **`hst` for wrapper-only slices**: after a successfully applied replace-around step whose slice has
    only close/open tokens before and after the insertion point, both `content_between` checks of the
    inverse step on the new document answer "no content" -/
theorem replaceAround_hst_of_wrappers (S : Schema) (doc doc' : Node) (f t gf gt : Nat) (sl : Slice)
    (ins : Nat) (b : Bool) (hn : fnorm doc.kids = true) (hsn : fnorm sl.content = true)
    (hwf : sl.wf = true) (hins : (ins : Int) ≤ sl.size) (hg : f ≤ gf ∧ gf ≤ gt ∧ gt ≤ t)
    (h1 : S.apply (.replaceAround f t gf gt sl ins b) doc = .ok doc')
    (hshape : closesOpens (sl.toks.take ins) = true ∧ closesOpens (sl.toks.drop ins) = true) :
    contentBetween doc' f (f + ins) = some false ∧
      contentBetween doc' (f + ins + (gt - gf)) (f + sl.size.toNat + (gt - gf)) = some false := by
  obtain ⟨htk, htl, _⟩ := apply_replaceAround_toks S doc doc' f t gf gt sl ins b hwf hins hg h1
  have hn' : fnorm doc'.kids = true := apply_norm S (.replaceAround f t gf gt sl ins b) doc doc' hsn hn h1
  obtain ⟨hTlen, hs0⟩ := Slice.toks_length_of_wf hwf
  have hlenL : (ftoks doc.kids).length = fsize doc.kids := ftoks_length _
  have hA : ((ftoks doc.kids).take f).length = f := by rw [List.length_take, hlenL]; omega
  have hT1 : (sl.toks.take ins).length = ins := by rw [List.length_take, hTlen]; omega
  have hG : (((ftoks doc.kids).drop gf).take (gt - gf)).length = gt - gf := by
    rw [List.length_take, List.length_drop, hlenL]; omega
  have hT2 : (sl.toks.drop ins).length = sl.size.toNat - ins := by rw [List.length_drop, hTlen]
  have hsz : fsize doc'.kids = f + ins + (gt - gf) + (sl.size.toNat - ins) + (fsize doc.kids - t) := by
    rw [← ftoks_length, htk]
    simp only [List.length_append, hA, hT1, hG, hT2, List.length_drop, hlenL]
  constructor
  · refine contentBetween_closesOpens doc' f (f + ins) hn' (by omega) (by omega) ?_
    have : ((ftoks doc'.kids).drop f).take (f + ins - f) = sl.toks.take ins := by
      rw [htk, show f + ins - f = (sl.toks.take ins).length by omega]
      have := window_mid ((ftoks doc.kids).take f) (sl.toks.take ins)
        (((ftoks doc.kids).drop gf).take (gt - gf) ++ sl.toks.drop ins ++ (ftoks doc.kids).drop t)
      rw [hA] at this
      simpa [List.append_assoc] using this
    rw [this]; exact hshape.1
  · refine contentBetween_closesOpens doc' _ _ hn' (by omega) (by omega) ?_
    have : ((ftoks doc'.kids).drop (f + ins + (gt - gf))).take
        (f + sl.size.toNat + (gt - gf) - (f + ins + (gt - gf))) = sl.toks.drop ins := by
      rw [htk, show f + sl.size.toNat + (gt - gf) - (f + ins + (gt - gf)) = (sl.toks.drop ins).length by omega]
      have := window_mid ((ftoks doc.kids).take f ++ sl.toks.take ins ++ ((ftoks doc.kids).drop gf).take (gt - gf))
        (sl.toks.drop ins) ((ftoks doc.kids).drop t)
      rw [show ((ftoks doc.kids).take f ++ sl.toks.take ins ++ ((ftoks doc.kids).drop gf).take (gt - gf)).length =
        f + ins + (gt - gf) by simp only [List.length_append, hA, hT1, hG]] at this
      exact this
    rw [this]; exact hshape.2

end PM
