/-
  Proofs/CommuteAroundMarkup.lean — a markup step (window map on tokens, Proofs/CommuteMarkup.lean)
  against a replace-around step (two splices, Proofs/CommuteAround.lean): the window before the step's
  range, inside its kept gap, after its range.
-/
import Proofs.CommuteAround
import Proofs.CommuteAroundDocs
namespace PM

/-! ### a window map against the two splices -/

/-- a stretch of tokens outside the window is not changed -/
theorem winMap_stretch (h : TypeId → Tok → Tok) (lo hi : Nat) (top : TypeId) (L : List Tok) (a b : Nat)
    (hout : b ≤ lo ∨ hi ≤ a) :
    ((winMap h lo hi top L).drop a).take (b - a) = (L.drop a).take (b - a) := by
  apply List.ext_getElem?
  intro i
  rw [List.getElem?_take, List.getElem?_take]
  split
  · rename_i hi'
    rw [List.getElem?_drop, List.getElem?_drop, winMap_getElem?, if_neg (by omega)]
  · rfl

theorem winMap_aroundL_before (h : TypeId → Tok → Tok) (lo hi : Nat) (top : TypeId) (L X Y : List Tok)
    (f gf gt t : Nat) (hhi : hi ≤ f) (hg : f ≤ gf ∧ gf ≤ gt ∧ gt ≤ t) (hl : t ≤ L.length) :
    winMap h lo hi top (aroundL L f gf gt t X Y) = aroundL (winMap h lo hi top L) f gf gt t X Y := by
  unfold aroundL splice
  rw [winMap_splice_before h lo hi top _ X f gf hhi hg.1
      (by have := splice_length L Y gt t hg.2.2 hl; unfold splice at this; rw [this]; omega),
    winMap_splice_before h lo hi top L Y gt t (by omega) hg.2.2 hl]

/-- the window lies inside the kept gap: it moves by the first range's size change; `hst`: the token
    function gives the same result with the enclosing type after the step as before -/
theorem winMap_aroundL_gap (h : TypeId → Tok → Tok) (lo hi : Nat) (top : TypeId) (L X Y : List Tok)
    (f gf gt t : Nat) (hlo : gf ≤ lo) (hhi : hi ≤ gt) (hg : f ≤ gf ∧ gf ≤ gt ∧ gt ≤ t) (hl : t ≤ L.length)
    (hst : ∀ i tok, lo ≤ i → i < hi → L[i]? = some tok →
      h ((ctxOf top (aroundL L f gf gt t X Y)).getD (f + X.length + (i - gf)) 0) tok =
        h ((ctxOf top L).getD i 0) tok) :
    winMap h (f + X.length + (lo - gf)) (f + X.length + (hi - gf)) top (aroundL L f gf gt t X Y) =
      aroundL (winMap h lo hi top L) f gf gt t X Y := by
  have hlen : (L.take gt ++ Y ++ L.drop t).length = gt + Y.length + (L.length - t) := by
    have := splice_length L Y gt t hg.2.2 hl; unfold splice at this; exact this
  have e1 := winMap_splice_after h lo hi top (L.take gt ++ Y ++ L.drop t) X f gf hlo hg.1
    (by rw [hlen]; omega)
    (fun i tok g1 g2 g3 => by
      have hi' : i < gt := by omega
      have hget : L[i]? = some tok := by
        rw [List.append_assoc, List.getElem?_append_left (by simp [List.length_take]; omega),
          List.getElem?_take_of_lt hi'] at g3
        exact g3
      have hc : (ctxOf top (L.take gt ++ Y ++ L.drop t)).getD i 0 = (ctxOf top L).getD i 0 := by
        have := ctxOf_prefix top (L.take gt) (Y ++ L.drop t) (L.drop gt) i (by simp [List.length_take]; omega)
        rwa [List.take_append_drop, ← List.append_assoc] at this
      rw [hc]
      exact hst i tok g1 g2 hget)
  unfold aroundL splice
  rw [e1, winMap_splice_before h lo hi top L Y gt t hhi hg.2.2 hl]

/-- the window lies after the step's range: it moves by both size changes -/
theorem winMap_aroundL_after (h : TypeId → Tok → Tok) (lo hi : Nat) (top : TypeId) (L X Y : List Tok)
    (f gf gt t : Nat) (hlo : t ≤ lo) (hg : f ≤ gf ∧ gf ≤ gt ∧ gt ≤ t) (hl : t ≤ L.length)
    (hst : ∀ i tok, lo ≤ i → i < hi → L[i]? = some tok →
      h ((ctxOf top (aroundL L f gf gt t X Y)).getD (f + X.length + (gt - gf) + Y.length + (i - t)) 0) tok =
        h ((ctxOf top L).getD i 0) tok) :
    winMap h (f + X.length + (gt - gf) + Y.length + (lo - t)) (f + X.length + (gt - gf) + Y.length + (hi - t))
        top (aroundL L f gf gt t X Y) =
      aroundL (winMap h lo hi top L) f gf gt t X Y := by
  have hB : (X ++ (L.drop gf).take (gt - gf) ++ Y).length = X.length + (gt - gf) + Y.length := by
    simp [List.length_take, List.length_drop]; omega
  rw [aroundL_as_splice L X Y f gf gt t hg hl,
    aroundL_as_splice _ X Y f gf gt t hg (by rw [winMap_length]; exact hl),
    winMap_stretch h lo hi top L gf gt (.inl (by omega))]
  rw [aroundL_as_splice L X Y f gf gt t hg hl] at hst
  have := winMap_splice_after h lo hi top L (X ++ (L.drop gf).take (gt - gf) ++ Y) f t hlo (by omega) hl
    (fun i tok g1 g2 g3 => by
      have := hst i tok g1 g2 g3
      unfold splice at this
      rw [hB]
      rwa [show f + (X.length + (gt - gf) + Y.length) + (i - t) =
        f + X.length + (gt - gf) + Y.length + (i - t) by omega])
  rw [hB] at this
  unfold splice
  rw [← this]
  congr 1 <;> omega

/-! ### rebasing a markup step over a replace-around step's map -/

theorem markup_map_around (st : Step) (lo hi : Nat) (hsp : st.posSpan = some (lo, hi))
    (hle : lo ≤ hi) (f t gf gt : Nat) (sl : Slice) (ins : Nat) (b : Bool)
    (hg : f ≤ gf ∧ gf ≤ gt ∧ gt ≤ t) :
    (hi < f → st.map (Step.replaceAround f t gf gt sl ins b).getMap = some st) ∧
    (gf < lo → hi < gt → st.map (Step.replaceAround f t gf gt sl ins b).getMap =
      some (st.mapPos (fun p => ((p : Int) + ((ins : Int) - ((gf : Int) - f))).toNat))) ∧
    (t < lo → st.map (Step.replaceAround f t gf gt sl ins b).getMap =
      some (st.mapPos (fun p => ((p : Int) + (((ins : Int) - ((gf : Int) - f)) +
        (sl.size - ins - ((t : Int) - gt)))).toNat))) := by
  refine ⟨fun h => ?_, fun h1 h2 => ?_, fun h => ?_⟩
  · have := markup_map_shift st lo hi hsp hle (Step.replaceAround f t gf gt sl ins b).getMap 0
      (fun p a hp => by
        rw [Int.add_zero]
        exact mapResult_two_before _ _ _ _ _ _ _ a (by rcases hp with rfl | rfl <;> omega))
    rw [this, Step.mapPos_id _ _ (fun p => by simp)]
  · exact markup_map_shift st lo hi hsp hle _ _
      (fun p a hp => mapResult_two_mid _ _ _ _ _ _ _ a
        (by rcases hp with rfl | rfl <;> omega) (by omega) (by rcases hp with rfl | rfl <;> omega))
  · exact markup_map_shift st lo hi hsp hle _ _
      (fun p a hp => by
        rw [← Int.add_assoc]
        exact mapResult_two_after _ _ _ _ _ _ _ a
          (by rcases hp with rfl | rfl <;> omega) (by omega)
          (by rcases hp with rfl | rfl <;> omega) (by omega))

theorem SameRoot.tyOf (S : Schema) {x y : Node} (h : SameRoot x y) : S.tyOf x = S.tyOf y := by
  obtain ⟨ty, a, m, k, k', rfl, rfl⟩ := h
  rfl

/-! ### the squares: replace-around step `A` vs. markup step `M` -/

/-- the markup step lies before the replace-around step's range -/
theorem commute_around_markup_before (S : Schema) (d da db dab dba : Node) (f t gf gt ins : Nat)
    (sl : Slice) (st : Bool) (M M' A' : Step) (plo phi : Nat) (hsp : M.posSpan = some (plo, phi))
    (hle : plo ≤ phi) (hs : AroundShape f t gf gt sl ins) (hsep : phi < f)
    (ha : S.apply (.replaceAround f t gf gt sl ins st) d = .ok da) (hb : S.apply M d = .ok db)
    (hM' : M.map (Step.replaceAround f t gf gt sl ins st).getMap = some M')
    (hA' : (Step.replaceAround f t gf gt sl ins st).map M.getMap = some A')
    (hab : S.apply M' da = .ok dab) (hba : S.apply A' db = .ok dba) :
    M' = M ∧ A' = .replaceAround f t gf gt sl ins st ∧ ftoks dab.kids = ftoks dba.kids := by
  obtain ⟨hi, hto, h1, h2, _⟩ := touch_of_posSpan M plo phi hsp
  obtain ⟨hda, hl, _, _⟩ := apply_around_aroundL S d da f t gf gt sl ins st hs ha
  have hty := (SameRoot.of_around S d da f t gf gt sl ins st ha).tyOf S
  have hg := hs.2.2
  rw [(markup_map_around M plo phi hsp hle f t gf gt sl ins st hg).1 hsep] at hM'
  have hmap : M.getMap = ⟨[], false⟩ := by cases M <;> simp [Step.posSpan] at hsp <;> rfl
  rw [hmap, replaceAround_map_empty f t gf gt sl ins st ⟨hg.1, hg.2.2⟩] at hA'
  simp only [Option.some.injEq] at hM' hA'
  subst hM' hA'
  refine ⟨rfl, rfl, ?_⟩
  obtain ⟨hdb, _, _, _⟩ := markup_step_winMap S d db M plo hi hto hb
  obtain ⟨hdab, _, _, _⟩ := markup_step_winMap S da dab M plo hi hto hab
  obtain ⟨hdba, _, _, _⟩ := apply_around_aroundL S db dba f t gf gt sl ins st hs hba
  rw [hdab, hdba, hdb, hda, ← hty]
  exact winMap_aroundL_before _ _ _ _ _ _ _ f gf gt t (by omega) hg hl

/-- the markup step lies inside the kept gap -/
theorem commute_around_markup_gap (S : Schema) (d da db dab dba : Node) (f t gf gt ins : Nat)
    (sl : Slice) (st : Bool) (M M' A' : Step) (plo phi : Nat) (hsp : M.posSpan = some (plo, phi))
    (hle : plo ≤ phi) (hs : AroundShape f t gf gt sl ins) (hlo : gf < plo) (hhi : phi < gt)
    (ha : S.apply (.replaceAround f t gf gt sl ins st) d = .ok da) (hb : S.apply M d = .ok db)
    (hM' : M.map (Step.replaceAround f t gf gt sl ins st).getMap = some M')
    (hA' : (Step.replaceAround f t gf gt sl ins st).map M.getMap = some A')
    (hab : S.apply M' da = .ok dab) (hba : S.apply A' db = .ok dba)
    (hi : Nat) (hto : M.touch = some (plo, hi))
    (hst : ∀ i tok, plo ≤ i → i < hi → (ftoks d.kids)[i]? = some tok →
      markupFn S M ((ctxOf (S.tyOf d) (ftoks da.kids)).getD (f + ins + (i - gf)) 0) tok =
        markupFn S M ((ctxOf (S.tyOf d) (ftoks d.kids)).getD i 0) tok) :
    M' = M.mapPos (fun p => ((p : Int) + ((ins : Int) - ((gf : Int) - f))).toNat) ∧
    A' = .replaceAround f t gf gt sl ins st ∧ ftoks dab.kids = ftoks dba.kids := by
  obtain ⟨hi', hto', h1, h2, _⟩ := touch_of_posSpan M plo phi hsp
  have ehi : hi' = hi := by rw [hto] at hto'; simp at hto'; exact hto'.symm
  subst ehi
  obtain ⟨hda, hl, hX, _⟩ := apply_around_aroundL S d da f t gf gt sl ins st hs ha
  have hty := (SameRoot.of_around S d da f t gf gt sl ins st ha).tyOf S
  have hg := hs.2.2
  rw [(markup_map_around M plo phi hsp hle f t gf gt sl ins st hg).2.1 hlo hhi] at hM'
  have hmap : M.getMap = ⟨[], false⟩ := by cases M <;> simp [Step.posSpan] at hsp <;> rfl
  rw [hmap, replaceAround_map_empty f t gf gt sl ins st ⟨hg.1, hg.2.2⟩] at hA'
  simp only [Option.some.injEq] at hM' hA'
  subst hM' hA'
  refine ⟨rfl, rfl, ?_⟩
  have hto2 := touch_mapPos_after M plo phi hi' hsp hto
    (fun p => ((p : Int) + ((ins : Int) - ((gf : Int) - f))).toNat) (f + (sl.toks.take ins).length) gf
    (fun p hp => by omega) (by omega) hle
  obtain ⟨hdb, _, _, _⟩ := markup_step_winMap S d db M plo hi' hto hb
  obtain ⟨hdab, _, _, _⟩ := markup_step_winMap S da dab _ _ _ hto2 hab
  obtain ⟨hdba, _, _, _⟩ := apply_around_aroundL S db dba f t gf gt sl ins st hs hba
  rw [hdab, hdba, hdb, markupFn_mapPos, ← hty]
  rw [hda] at hst ⊢
  exact winMap_aroundL_gap _ _ _ _ _ _ _ f gf gt t (by omega) (by omega) hg hl
    (fun i tok g1 g2 g3 => by rw [hX]; exact hst i tok g1 g2 g3)

/-- the markup step lies after the replace-around step's range -/
theorem commute_around_markup_after (S : Schema) (d da db dab dba : Node) (f t gf gt ins : Nat)
    (sl : Slice) (st : Bool) (M M' A' : Step) (plo phi : Nat) (hsp : M.posSpan = some (plo, phi))
    (hle : plo ≤ phi) (hs : AroundShape f t gf gt sl ins) (hsep : t < plo)
    (ha : S.apply (.replaceAround f t gf gt sl ins st) d = .ok da) (hb : S.apply M d = .ok db)
    (hM' : M.map (Step.replaceAround f t gf gt sl ins st).getMap = some M')
    (hA' : (Step.replaceAround f t gf gt sl ins st).map M.getMap = some A')
    (hab : S.apply M' da = .ok dab) (hba : S.apply A' db = .ok dba)
    (hi : Nat) (hto : M.touch = some (plo, hi))
    (hst : ∀ i tok, plo ≤ i → i < hi → (ftoks d.kids)[i]? = some tok →
      markupFn S M ((ctxOf (S.tyOf d) (ftoks da.kids)).getD
          (f + (gt - gf) + sl.toks.length + (i - t)) 0) tok =
        markupFn S M ((ctxOf (S.tyOf d) (ftoks d.kids)).getD i 0) tok) :
    M' = M.mapPos (fun p => ((p : Int) + (((ins : Int) - ((gf : Int) - f)) +
      (sl.size - ins - ((t : Int) - gt)))).toNat) ∧
    A' = .replaceAround f t gf gt sl ins st ∧ ftoks dab.kids = ftoks dba.kids := by
  obtain ⟨hda, hl, hX, hY⟩ := apply_around_aroundL S d da f t gf gt sl ins st hs ha
  have hty := (SameRoot.of_around S d da f t gf gt sl ins st ha).tyOf S
  have hg := hs.2.2
  have hlenS : (sl.toks.length : Int) = sl.size := (Slice.toks_length_of_wf_ex sl hs.1).1
  rw [(markup_map_around M plo phi hsp hle f t gf gt sl ins st hg).2.2 hsep] at hM'
  have hmap : M.getMap = ⟨[], false⟩ := by cases M <;> simp [Step.posSpan] at hsp <;> rfl
  rw [hmap, replaceAround_map_empty f t gf gt sl ins st ⟨hg.1, hg.2.2⟩] at hA'
  simp only [Option.some.injEq] at hM' hA'
  subst hM' hA'
  refine ⟨rfl, rfl, ?_⟩
  have hto2 := touch_mapPos_after M plo phi hi hsp hto
    (fun p => ((p : Int) + (((ins : Int) - ((gf : Int) - f)) + (sl.size - ins - ((t : Int) - gt)))).toNat)
    (f + (sl.toks.take ins).length + (gt - gf) + (sl.toks.drop ins).length) t
    (fun p hp => by omega) (by omega) hle
  obtain ⟨hdb, _, _, _⟩ := markup_step_winMap S d db M plo hi hto hb
  obtain ⟨hdab, _, _, _⟩ := markup_step_winMap S da dab _ _ _ hto2 hab
  obtain ⟨hdba, _, _, _⟩ := apply_around_aroundL S db dba f t gf gt sl ins st hs hba
  rw [hdab, hdba, hdb, markupFn_mapPos, ← hty]
  rw [hda] at hst ⊢
  exact winMap_aroundL_after _ _ _ _ _ _ _ f gf gt t (by omega) hg hl
    (fun i tok g1 g2 g3 => by
      have := hst i tok g1 g2 g3
      rwa [show f + (gt - gf) + sl.toks.length + (i - t) =
        f + (sl.toks.take ins).length + (gt - gf) + (sl.toks.drop ins).length + (i - t) by omega] at this)

end PM
