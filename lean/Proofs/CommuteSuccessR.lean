/-
  Proofs/CommuteSuccessR.lean — C17, *success* of the rebased steps when the *right* step happens entirely
  inside an element node `m` the left one does not touch: a replace in a child list whose range ends in
  front of the element child `m` does not look at `m` and what follows it — the untouched suffix is handed
  through (`replaceKids_suffix`).  Mirror image of `replaceKids_prefix` (Proofs/CommuteSuccess.lean).
-/
import Proofs.CommuteSuccess
namespace PM

/-! ### positions in front of a suffix -/

theorem depthAt_append_sfx : ∀ (P Sfx : List Node) (g : Nat), g ≤ fsize P →
    depthAt (P ++ Sfx) g = depthAt P g
  | [], Sfx, g, hg => by
    have : g = 0 := by simpa using hg
    subst this; simp
  | n :: P, Sfx, g, hg => by
    simp only [fsize_cons] at hg
    rw [List.cons_append, depthAt_cons, depthAt_cons]
    split
    · rfl
    · split
      · rename_i hle
        exact depthAt_append_sfx P Sfx _ (by omega)
      · rfl

/-- the untouched suffix appended to what `splitRight` leaves -/
def RSplit.app (Sfx : List Node) : RSplit → RSplit
  | .flat r => .flat (r ++ Sfx)
  | .deep c i r => .deep c i (r ++ Sfx)

theorem splitRight_append_sfx : ∀ (P Sfx : List Node) (h : Nat), h ≤ fsize P →
    splitRight (P ++ Sfx) h = (splitRight P h).map (RSplit.app Sfx)
  | [], Sfx, h, hh => by
    have : h = 0 := by simpa using hh
    subst this; simp [RSplit.app]
  | n :: P, Sfx, h, hh => by
    simp only [fsize_cons] at hh
    rw [List.cons_append, splitRight_cons, splitRight_cons]
    split
    · simp [RSplit.app]
    · split
      · rename_i hle
        exact splitRight_append_sfx P Sfx _ (by omega)
      · cases n with
        | text s m =>
          simp only
          split <;> simp [RSplit.app]
        | leaf t a m => simp
        | elem t a m k => simp [RSplit.app]

/-! ### the two-way join -/

theorem twoWay_drop_sfx (S : Schema) : ∀ (P Sfx : List Node) (g : Nat) (R : List Node) (t : Nat),
    g ≤ fsize P → twoWay S (P ++ Sfx) g R t = twoWay S P g R t
  | [], Sfx, g, R, t, hg => by
    have : g = 0 := by simpa using hg
    subst this
    cases Sfx with
    | nil => rfl
    | cons x xs =>
      simp only [List.nil_append]
      unfold twoWay; simp
  | n :: P, Sfx, g, R, t, hg => by
    simp only [fsize_cons] at hg
    rw [List.cons_append]
    unfold twoWay
    by_cases h0 : g = 0
    · simp [h0]
    · rw [if_neg h0, if_neg h0]
      by_cases hle : n.size ≤ g
      · rw [if_pos hle, if_pos hle, twoWay_drop_sfx S P Sfx (g - n.size) R t (by omega)]
      · rw [if_neg hle, if_neg hle]

theorem twoWay_app (S : Schema) (Sfx : List Node) : ∀ (L : List Node) (f : Nat) (R : List Node) (t : Nat)
    (R' : List Node) (t' : Nat), splitRight R' t' = (splitRight R t).map (RSplit.app Sfx) →
    twoWay S L f R' t' = (twoWay S L f R t).map (· ++ Sfx)
  | [], f, R, t, R', t', h => by
    unfold twoWay
    rw [h]
    cases hs : splitRight R t with
    | none => by_cases h0 : f = 0 <;> simp [Except.map, h0]
    | some rs =>
      cases rs with
      | flat r => by_cases h0 : f = 0 <;> simp [RSplit.app, Except.map, h0]
      | deep c i r => by_cases h0 : f = 0 <;> simp [RSplit.app, Except.map, h0]
  | n :: ns, f, R, t, R', t', h => by
    unfold twoWay
    by_cases h0 : f = 0
    · rw [if_pos h0, if_pos h0, h]
      cases hs : splitRight R t with
      | none => rfl
      | some rs =>
        cases rs with
        | flat r => simp [RSplit.app, Except.map]
        | deep c i r => simp [RSplit.app, Except.map]
    rw [if_neg h0, if_neg h0]
    by_cases hle : n.size ≤ f
    · rw [if_pos hle, if_pos hle, twoWay_app S Sfx ns (f - n.size) R t R' t' h]
      cases twoWay S ns (f - n.size) R t <;> simp [Except.map]
    rw [if_neg hle, if_neg hle]
    cases n with
    | text s m =>
      simp only
      split
      · rfl
      · rw [h]
        cases hs : splitRight R t with
        | none => rfl
        | some rs =>
          cases rs with
          | flat r => simp [RSplit.app, Except.map]
          | deep c i r => simp [RSplit.app, Except.map]
    | leaf ty a m => rfl
    | elem ty a m kids =>
      simp only
      rw [h]
      cases hs : splitRight R t with
      | none => rfl
      | some rs =>
        cases rs with
        | flat r => simp [RSplit.app, Except.map]
        | deep c i r =>
          cases c with
          | text s' m' => simp [RSplit.app, Except.map]
          | leaf ty' a' m' => simp [RSplit.app, Except.map]
          | elem ty' a' m' kids' =>
            simp only [RSplit.app, Option.map]
            split
            · cases twoWay S kids (f - 1) kids' i with
              | error e => rfl
              | ok innerRes =>
                simp only
                cases S.close ty a m (fromArray innerRes) <;> simp [Except.map]
            · rfl

/-! ### the three-way join -/

theorem threeWay_drop_sfx (S : Schema) : ∀ (P Sfx : List Node) (g e : Nat) (M : List Node) (a b : Nat)
    (R : List Node) (t : Nat), g ≤ fsize P →
    threeWay S (P ++ Sfx) g e M a b R t = threeWay S P g e M a b R t
  | [], Sfx, g, e, M, a, b, R, t, hg => by
    have : g = 0 := by simpa using hg
    subst this
    cases Sfx with
    | nil => rfl
    | cons x xs =>
      simp only [List.nil_append]
      unfold threeWay; simp
  | n :: P, Sfx, g, e, M, a, b, R, t, hg => by
    simp only [fsize_cons] at hg
    rw [List.cons_append]
    unfold threeWay
    by_cases h0 : g = 0
    · simp [h0]
    · rw [if_neg h0, if_neg h0]
      by_cases hle : n.size ≤ g
      · rw [if_pos hle, if_pos hle, threeWay_drop_sfx S P Sfx (g - n.size) e M a b R t (by omega)]
      · rw [if_neg hle, if_neg hle]

theorem rightJoin_app (S : Schema) (Sfx M : List Node) (b : Nat) (rs : RSplit) :
    rightJoin S M b (rs.app Sfx) = rightJoin S M b rs := by
  cases rs <;> rfl

theorem rest_app (Sfx : List Node) (rs : RSplit) : (rs.app Sfx).rest = rs.rest ++ Sfx := by
  cases rs <;> rfl

theorem rightJoinCheck_app (Sfx : List Node) (rs : RSplit) (b : Nat) :
    threeWay.rightJoinCheck (rs.app Sfx) b = threeWay.rightJoinCheck rs b := by
  cases rs <;> rfl

theorem flatTail_app (S : Schema) (Sfx M : List Node) (a b : Nat) (R : List Node) (t : Nat) (R' : List Node)
    (t' : Nat) (h : splitRight R' t' = (splitRight R t).map (RSplit.app Sfx)) :
    flatTail S M a b R' t' = (flatTail S M a b R t).map (· ++ Sfx) := by
  unfold flatTail
  by_cases ha : a ≠ 0
  · rw [if_pos ha, if_pos ha]; rfl
  · rw [if_neg ha, if_neg ha, h]
    cases hs : splitRight R t with
    | none => rfl
    | some rs =>
      simp only [Option.map, rightJoin_app, rest_app]
      cases rightJoin S M b rs <;> simp [Except.map]

theorem fall_app (S : Schema) (Sfx : List Node) (tyL : TypeId) (aL : Attrs) (mL : Marks) (kidsL : List Node)
    (f : Nat) (kidsS : List Node) (a : Nat) (M : List Node) (b : Nat) (rs : RSplit) :
    (match threeWay.rightJoinCheck (rs.app Sfx) b with
      | .error e => .error e
      | .ok () =>
        match twoWay S kidsL (f - 1) kidsS (a - 1) with
        | .ok lr =>
          match S.close tyL aL mL (fromArray lr) with
          | .ok cl =>
            match rightJoin S M b (rs.app Sfx) with
            | .ok rj => .ok (cl :: (middle M true (b != 0) ++ rj ++ (rs.app Sfx).rest))
            | .error e => .error e
          | .error e => .error e
        | .error e => .error e : Res (List Node)) =
    Except.map (fun x => x ++ Sfx)
      (match threeWay.rightJoinCheck rs b with
      | .error e => .error e
      | .ok () =>
        match twoWay S kidsL (f - 1) kidsS (a - 1) with
        | .ok lr =>
          match S.close tyL aL mL (fromArray lr) with
          | .ok cl =>
            match rightJoin S M b rs with
            | .ok rj => .ok (cl :: (middle M true (b != 0) ++ rj ++ rs.rest))
            | .error e => .error e
          | .error e => .error e
        | .error e => .error e) := by
  rw [rightJoinCheck_app, rightJoin_app, rest_app]
  cases threeWay.rightJoinCheck rs b with
  | error e => rfl
  | ok u =>
    simp only
    cases twoWay S kidsL (f - 1) kidsS (a - 1) with
    | error e => rfl
    | ok lr =>
      simp only
      cases S.close tyL aL mL (fromArray lr) with
      | error e => rfl
      | ok cl =>
        simp only
        cases rightJoin S M b rs with
        | error e => rfl
        | ok rj => simp [Except.map]

theorem threeWay_app (S : Schema) (Sfx : List Node) : ∀ (L : List Node) (f e : Nat) (M : List Node) (a b : Nat)
    (R : List Node) (t : Nat) (R' : List Node) (t' : Nat),
    splitRight R' t' = (splitRight R t).map (RSplit.app Sfx) →
    threeWay S L f e M a b R' t' = (threeWay S L f e M a b R t).map (· ++ Sfx)
  | [], f, e, M, a, b, R, t, R', t', h => by
    unfold threeWay
    rw [flatTail_app S Sfx M a b R t R' t' h]
    by_cases h0 : f = 0
    · by_cases he : e = 0 <;> simp [h0, he, Except.map]
    · simp [h0, Except.map]
  | n :: ns, f, e, M, a, b, R, t, R', t', h => by
    unfold threeWay
    rw [flatTail_app S Sfx M a b R t R' t' h]
    by_cases h0 : f = 0
    · by_cases he : e = 0 <;> simp [h0, he, Except.map]
    rw [if_neg h0, if_neg h0]
    by_cases hle : n.size ≤ f
    · rw [if_pos hle, if_pos hle, threeWay_app S Sfx ns (f - n.size) e M a b R t R' t' h]
      cases threeWay S ns (f - n.size) e M a b R t <;> simp [Except.map]
    rw [if_neg hle, if_neg hle]
    cases n with
    | text s m =>
      simp only
      split
      · rfl
      · split
        · rfl
        · cases flatTail S M a b R t <;> simp [Except.map]
    | leaf ty aa m => rfl
    | elem tyL aL mL kidsL =>
      simp only
      rw [h]
      cases hs : splitRight R t with
      | none => rfl
      | some rs =>
        simp only [Option.map]
        by_cases he : e ≠ 0
        · rw [if_pos he, if_pos he]
          cases rs with
          | flat r => rfl
          | deep c i r =>
            cases c with
            | text s' m' => rfl
            | leaf ty' a' m' => rfl
            | elem tyR aR mR kidsR =>
              simp only [RSplit.app]
              split
              · cases threeWay S kidsL (f - 1) (e - 1) M a b kidsR i with
                | error err => rfl
                | ok inner =>
                  simp only
                  cases S.close tyL aL mL (fromArray inner) <;> simp [Except.map]
              · rfl
        · rw [if_neg he, if_neg he]
          by_cases ha : a = 0
          · rw [if_pos ha, if_pos ha]; rfl
          rw [if_neg ha, if_neg ha]
          cases M with
          | nil => rfl
          | cons cS Mt =>
            simp only
            cases cS with
            | text s' m' => rfl
            | leaf ty' a' m' => rfl
            | elem tyS aS mS kidsS =>
              simp only
              split
              · rfl
              · cases rs with
                | flat r => exact fall_app S Sfx tyL aL mL kidsL f kidsS a (Node.elem tyS aS mS kidsS :: Mt) b (.flat r)
                | deep c i r =>
                  cases c with
                  | text s' m' => exact fall_app S Sfx tyL aL mL kidsL f kidsS a (Node.elem tyS aS mS kidsS :: Mt) b (.deep (.text s' m') i r)
                  | leaf ty' a' m' => exact fall_app S Sfx tyL aL mL kidsL f kidsS a (Node.elem tyS aS mS kidsS :: Mt) b (.deep (.leaf ty' a' m') i r)
                  | elem tyR aR mR kidsR =>
                    cases b with
                    | zero => exact fall_app S Sfx tyL aL mL kidsL f kidsS a (Node.elem tyS aS mS kidsS :: Mt) 0 (.deep (.elem tyR aR mR kidsR) i r)
                    | succ b' =>
                      cases Mt with
                      | cons y ys =>
                        exact fall_app S Sfx tyL aL mL kidsL f kidsS a (Node.elem tyS aS mS kidsS :: y :: ys) (b' + 1) (.deep (.elem tyR aR mR kidsR) i r)
                      | nil =>
                        -- the slice is a single node open on both sides: one level down
                        simp only [RSplit.app]
                        split
                        · rfl
                        · cases threeWay S kidsL (f - 1) 0 kidsS (a - 1) b' kidsR i with
                          | error err => rfl
                          | ok inner =>
                            simp only
                            cases S.close tyL aL mL (fromArray inner) <;> simp [Except.map]

/-! ### cuts -/

theorem fcutLoop_drop_sfx : ∀ (P Sfx : List Node) (f g : Nat), g ≤ fsize P →
    fcutLoop (P ++ Sfx) f g = fcutLoop P f g
  | [], Sfx, f, g, hg => by
    have : g = 0 := by simpa using hg
    subst this
    rw [fcutLoop_zero, fcutLoop_zero]
  | n :: P, Sfx, f, g, hg => by
    simp only [fsize_cons] at hg
    rw [List.cons_append]
    by_cases h0 : g = 0
    · subst h0; rw [fcutLoop_zero, fcutLoop_zero]
    · have ih := fcutLoop_drop_sfx P Sfx (f - n.size) (g - n.size)
      by_cases hle : n.size ≤ g
      · unfold fcutLoop
        simp only [ih (by omega)]
      · -- the cut ends inside `n`: the rest is not looked at
        have e1 : g - n.size = 0 := by omega
        unfold fcutLoop
        simp only [e1, fcutLoop_zero]

theorem fcutLoop_cons (n : Node) (ns : List Node) (f t : Nat) :
    fcutLoop (n :: ns) f t =
      if t = 0 then .ok []
      else if f < n.size then
        if 0 < f || t < n.size then
          match n with
          | .text s m =>
            match cutText s f (min s.length t) with
            | .ok s' =>
              match fcutLoop ns (f - n.size) (t - n.size) with
              | .ok rest => .ok (.text s' m :: rest)
              | .error e => .error e
            | .error e => .error e
          | .leaf ty a m =>
            match fcutLoop ns (f - n.size) (t - n.size) with
            | .ok rest => .ok (.leaf ty a m :: rest)
            | .error e => .error e
          | .elem ty a m kids =>
            match Node.cut (.elem ty a m kids) (f - 1) (min (fsize kids) (t - 1)) with
            | .ok c =>
              match fcutLoop ns (f - n.size) (t - n.size) with
              | .ok rest => .ok (c :: rest)
              | .error e => .error e
            | .error e => .error e
        else
          match fcutLoop ns (f - n.size) (t - n.size) with
          | .ok rest => .ok (n :: rest)
          | .error e => .error e
      else fcutLoop ns (f - n.size) (t - n.size) := by
  conv => lhs; unfold fcutLoop
  cases n <;> rfl

theorem fcutLoop_app_sfx : ∀ (P Sfx : List Node) (h : Nat), fnormKids P = true → fnormKids Sfx = true →
    h ≤ fsize P → fcutLoop (P ++ Sfx) h (fsize P + fsize Sfx) = (fcutLoop P h (fsize P)).map (· ++ Sfx)
  | [], Sfx, h, _, hS, hh => by
    have : h = 0 := by simpa using hh
    subst this
    simp only [List.nil_append, fsize_nil, Nat.zero_add, fcutLoop_zero]
    rw [fcutLoop_full Sfx hS]
    rfl
  | n :: P, Sfx, h, hP, hS, hh => by
    simp only [fnormKids_cons, Bool.and_eq_true] at hP
    have hpos := Node.size_pos_of_norm n hP.1
    simp only [fsize_cons] at hh ⊢
    rw [List.cons_append]
    have ih := fcutLoop_app_sfx P Sfx (h - n.size) hP.2 hS (by omega)
    have e1 : n.size + fsize P + fsize Sfx - n.size = fsize P + fsize Sfx := by omega
    have e2 : n.size + fsize P - n.size = fsize P := by omega
    rw [fcutLoop_cons, fcutLoop_cons, if_neg (show ¬ (n.size + fsize P + fsize Sfx = 0) by omega),
      if_neg (show ¬ (n.size + fsize P = 0) by omega), e1, e2, ih]
    by_cases hlt : h < n.size
    · rw [if_pos hlt, if_pos hlt]
      by_cases hh0 : 0 < h
      · rw [if_pos (show (decide (0 < h) || decide (n.size + fsize P + fsize Sfx < n.size)) = true by simp [hh0]),
          if_pos (show (decide (0 < h) || decide (n.size + fsize P < n.size)) = true by simp [hh0])]
        cases n with
        | text s m =>
          simp only [Node.size_text] at hlt ⊢
          rw [Nat.min_eq_left (by omega), Nat.min_eq_left (by omega)]
          cases cutText s h s.length with
          | error e => rfl
          | ok s' =>
            simp only
            cases fcutLoop P (h - s.length) (fsize P) <;> simp [Except.map]
        | leaf t a m =>
          simp only
          cases fcutLoop P (h - (Node.leaf t a m).size) (fsize P) <;> simp [Except.map]
        | elem t a m k =>
          simp only [Node.size_elem] at hlt ⊢
          rw [Nat.min_eq_left (by omega), Nat.min_eq_left (by omega)]
          cases Node.cut (Node.elem t a m k) (h - 1) (fsize k) with
          | error e => rfl
          | ok c =>
            simp only
            cases fcutLoop P (h - (2 + fsize k)) (fsize P) <;> simp [Except.map]
      · rw [if_neg (show ¬ ((decide (0 < h) || decide (n.size + fsize P + fsize Sfx < n.size)) = true) by
            simp; omega),
          if_neg (show ¬ ((decide (0 < h) || decide (n.size + fsize P < n.size)) = true) by simp; omega)]
        cases fcutLoop P (h - n.size) (fsize P) <;> simp [Except.map]
    · rw [if_neg hlt, if_neg hlt]

theorem fcut_left_sfx (P Sfx : List Node) (g : Nat) (hP : fnormKids P = true) (hS : 0 < fsize Sfx)
    (hg : g ≤ fsize P) : fcut (P ++ Sfx) 0 g = fcut P 0 g := by
  unfold fcut
  rw [if_neg (by simp [fsize_append]; omega)]
  by_cases hg0 : g ≤ 0
  · have : g = 0 := by omega
    subst this
    rw [if_pos (Nat.le_refl _)]
    by_cases hp0 : fsize P = 0
    · have : P = [] := by
        cases P with
        | nil => rfl
        | cons x xs =>
          simp only [fnormKids_cons, Bool.and_eq_true] at hP
          have := Node.size_pos_of_norm x hP.1
          simp at hp0; omega
      subst this; simp
    · rw [if_neg (by simp; omega), if_pos (Nat.le_refl _)]
  · rw [if_neg hg0, fcutLoop_drop_sfx P Sfx 0 g hg]
    by_cases hgf : g = fsize P
    · subst hgf
      rw [if_pos (by simp), fcutLoop_full P hP]
    · rw [if_neg (by simp [hgf]), if_neg hg0]

theorem fcut_right_sfx (P Sfx : List Node) (h : Nat) (hP : fnormKids P = true) (hS : fnormKids Sfx = true)
    (hS0 : 0 < fsize Sfx) (hh : h ≤ fsize P) :
    fcut (P ++ Sfx) h (fsize (P ++ Sfx)) = (fcut P h (fsize P)).map (· ++ Sfx) := by
  unfold fcut
  rw [fsize_append]
  by_cases h0 : h = 0
  · subst h0; simp [Except.map]
  · rw [if_neg (by simp [h0]), if_neg (by omega), if_neg (by simp [h0]), fcutLoop_app_sfx P Sfx h hP hS hh]
    by_cases hle : fsize P ≤ h
    · have : h = fsize P := by omega
      subst this
      rw [if_pos (Nat.le_refl _), fcutLoop_end]
    · rw [if_neg hle]

theorem addNode_elem' (t : List Node) (ty : TypeId) (a : Attrs) (m : Marks) (k : List Node) :
    addNode t (.elem ty a m k) = t ++ [.elem ty a m k] := by
  unfold addNode
  split
  · rename_i h; simp at h
  · rfl

theorem fappend_sfx (x r : List Node) (ty : TypeId) (a : Attrs) (m : Marks) (k R' : List Node) :
    fappend x (r ++ Node.elem ty a m k :: R') = fappend x r ++ Node.elem ty a m k :: R' := by
  cases r with
  | nil =>
    simp only [List.nil_append, fappend]
    by_cases hx : x.isEmpty = true
    · have : x = [] := by simpa using hx
      subst this; simp
    · simp [hx, addNode_elem']
  | cons r0 rs =>
    simp only [List.cons_append, fappend]
    by_cases hx : x.isEmpty = true
    · simp [hx]
    · simp [hx]

theorem fromArray_sfx (y : List Node) (ty : TypeId) (a : Attrs) (m : Marks) (k R' : List Node)
    (hR : fnorm R' = true) :
    fromArray (y ++ Node.elem ty a m k :: R') = fromArray y ++ Node.elem ty a m k :: R' := by
  rw [fromArray_mid_elem, fromArray_of_fnorm hR]

theorem atLevelContent_sfx (S : Schema) (sl : Slice) (P : List Node) (ty : TypeId) (a : Attrs) (m : Marks)
    (k R' : List Node) (hP : fnormKids P = true) (hk : fnorm k = true) (hR : fnorm R' = true) (g h e : Nat)
    (hg : g ≤ fsize P) (hh : h ≤ fsize P) :
    atLevelContent S sl (P ++ Node.elem ty a m k :: R') g h e
      = (atLevelContent S sl P g h e).map (· ++ Node.elem ty a m k :: R') := by
  have hS : fnormKids (Node.elem ty a m k :: R') = true := by
    simp [fnormKids_cons, Node.norm_elem, hk, fnormKids_of_fnorm hR]
  have hS0 : 0 < fsize (Node.elem ty a m k :: R') := by simp; omega
  have hsp := splitRight_append_sfx P (Node.elem ty a m k :: R') h hh
  unfold atLevelContent
  rw [depthAt_append_sfx P _ g hg, depthAt_append_sfx P _ h hh]
  by_cases h0 : fsize sl.content = 0
  · rw [if_pos h0, if_pos h0, twoWay_drop_sfx S P _ g _ _ hg, twoWay_app S _ P g P h _ _ hsp]
    cases twoWay S P g P h with
    | error err => rfl
    | ok x => simp [Except.map, fromArray_sfx _ _ _ _ _ _ hR]
  · rw [if_neg h0, if_neg h0]
    by_cases hc : (decide (sl.openStart = 0) && decide (sl.openEnd = 0) && decide (depthAt P g = 0)
        && decide (depthAt P h = 0)) = true
    · rw [if_pos hc, if_pos hc, fcut_left_sfx P _ g hP hS0 hg, fcut_right_sfx P _ h hP hS hS0 hh]
      cases fcut P 0 g with
      | error err => simp [Except.map]
      | ok l =>
        cases fcut P h (fsize P) with
        | error err => simp [Except.map]
        | ok r =>
          simp only [Except.map]
          rw [fappend_sfx]
    · rw [if_neg hc, if_neg hc, threeWay_drop_sfx S P _ g e _ _ _ _ _ hg,
        threeWay_app S _ P g e _ _ _ P h _ _ hsp]
      cases threeWay S P g e sl.content sl.openStart sl.openEnd P h with
      | error err => rfl
      | ok x => simp [Except.map, fromArray_sfx _ _ _ _ _ _ hR]

/-- **the level's replace with the content of the element child behind the range exchanged** -/
theorem atLevel_sfx_congr (S : Schema) (sl : Slice) (ty : TypeId) (P : List Node) (tyM : TypeId) (aM : Attrs)
    (mM : Marks) (kM kM' R' : List Node) (g h e : Nat) (Y : List Node) (hP : fnormKids P = true)
    (hk : fnorm kM = true) (hk' : fnorm kM' = true) (hR : fnorm R' = true) (hg : g ≤ fsize P)
    (hh : h ≤ fsize P)
    (hY : atLevel S sl ty (P ++ Node.elem tyM aM mM kM :: R') g h e = .ok Y) :
    ∃ X, Y = X ++ Node.elem tyM aM mM kM :: R' ∧
      atLevel S sl ty (P ++ Node.elem tyM aM mM kM' :: R') g h e = .ok (X ++ Node.elem tyM aM mM kM' :: R') := by
  rw [atLevel_eq, atLevelContent_sfx S sl P tyM aM mM kM R' hP hk hR g h e hg hh] at hY
  rw [atLevel_eq, atLevelContent_sfx S sl P tyM aM mM kM' R' hP hk' hR g h e hg hh]
  cases hc : atLevelContent S sl P g h e with
  | error err => rw [hc] at hY; simp [Except.map] at hY
  | ok X =>
    rw [hc] at hY
    simp only [Except.map] at hY ⊢
    split at hY
    · rename_i hv
      simp only [Except.ok.injEq] at hY
      refine ⟨X, hY.symm, ?_⟩
      have h1 := validContent_set S ty X R' (Node.elem tyM aM mM kM) (Node.elem tyM aM mM kM) rfl hv
      have h2 := validContent_set S ty X R' (Node.elem tyM aM mM kM) (Node.elem tyM aM mM kM') rfl hv
      rw [hv] at h1
      have h3 : S.validContent ty (X ++ Node.elem tyM aM mM kM' :: R') = true := by
        rw [h2]; simpa [Node.marks] using h1.symm
      rw [h3]
      simp
    · simp at hY

theorem set_append_lt {α} (l l' : List α) (i : Nat) (v : α) (hi : i < l.length) :
    (l ++ l').set i v = l.set i v ++ l' := by
  rw [List.set_append_left _ _ hi]

theorem outer_sfx_congr (S : Schema) (sl : Slice) (ty : TypeId) (P : List Node) (tyM : TypeId) (aM : Attrs)
    (mM : Marks) (kM kM' R' : List Node) (g0 h0 e : Nat) (hP : fnormKids P = true) (hk : fnorm kM = true)
    (hk' : fnorm kM' = true) (hR : fnorm R' = true) :
    ∀ (P2 P1 : List Node) (g h idx : Nat) (Y : List Node), P = P1 ++ P2 → g0 = fsize P1 + g →
      h0 = fsize P1 + h → idx = P1.length → g ≤ h → h ≤ fsize P2 →
      outer S sl ty (P ++ Node.elem tyM aM mM kM :: R') g0 h0 idx (P2 ++ Node.elem tyM aM mM kM :: R') g h e
        = .ok Y →
      ∃ X, Y = X ++ Node.elem tyM aM mM kM :: R' ∧
        outer S sl ty (P ++ Node.elem tyM aM mM kM' :: R') g0 h0 idx (P2 ++ Node.elem tyM aM mM kM' :: R') g h e
          = .ok (X ++ Node.elem tyM aM mM kM' :: R')
  | [], P1, g, h, idx, Y, hPP, hg0, hh0, hidx, hgh, hh, hY => by
    have hhz : h = 0 := by simpa using hh
    have hgz : g = 0 := by omega
    subst hhz; subst hgz
    simp only [List.nil_append] at hY ⊢
    unfold outer at hY ⊢
    rw [if_pos rfl] at hY ⊢
    have hsz : fsize P = fsize P1 := by rw [hPP]; simp
    exact atLevel_sfx_congr S sl ty P tyM aM mM kM kM' R' g0 h0 e Y hP hk hk' hR (by omega) (by omega) hY
  | n :: P2, P1, g, h, idx, Y, hPP, hg0, hh0, hidx, hgh, hh, hY => by
    have hsz : fsize P = fsize P1 + (n.size + fsize P2) := by rw [hPP, fsize_append]; simp
    simp only [fsize_cons] at hh
    have here : atLevel S sl ty (P ++ Node.elem tyM aM mM kM :: R') g0 h0 e = .ok Y →
        ∃ X, Y = X ++ Node.elem tyM aM mM kM :: R' ∧
          atLevel S sl ty (P ++ Node.elem tyM aM mM kM' :: R') g0 h0 e
            = .ok (X ++ Node.elem tyM aM mM kM' :: R') :=
      fun h' => atLevel_sfx_congr S sl ty P tyM aM mM kM kM' R' g0 h0 e Y hP hk hk' hR (by omega) (by omega) h'
    rw [List.cons_append] at hY ⊢
    unfold outer at hY ⊢
    by_cases hf : g = 0
    · rw [if_pos hf] at hY ⊢; exact here hY
    rw [if_neg hf] at hY ⊢
    by_cases hle : n.size ≤ g
    · rw [if_pos hle] at hY ⊢
      exact outer_sfx_congr S sl ty P tyM aM mM kM kM' R' g0 h0 e hP hk hk' hR P2 (P1 ++ [n]) (g - n.size)
        (h - n.size) (idx + 1) Y (by simp [hPP]) (by rw [fsize_append]; simp; omega)
        (by rw [fsize_append]; simp; omega) (by simp [hidx]) (by omega) (by omega) hY
    rw [if_neg hle] at hY ⊢
    cases n with
    | text s mm => exact here hY
    | leaf tt aa mm => exact here hY
    | elem tyC aC mC kidsC =>
      simp only at hY ⊢
      by_cases hcond : (e ≠ 0 && decide (h < (Node.elem tyC aC mC kidsC).size)) = true
      · rw [if_pos hcond] at hY ⊢
        cases hx : outer S sl tyC kidsC (g - 1) (h - 1) 0 kidsC (g - 1) (h - 1) (e - 1) with
        | error err => rw [hx] at hY; simp at hY
        | ok inner =>
          rw [hx] at hY
          simp only [Except.ok.injEq] at hY ⊢
          have hlt : idx < P.length := by rw [hPP, hidx]; simp
          refine ⟨P.set idx (Node.elem tyC aC mC inner), ?_, ?_⟩
          · rw [← hY, set_append_lt _ _ _ _ hlt]
          · rw [set_append_lt _ _ _ _ hlt]
      · rw [if_neg hcond] at hY ⊢; exact here hY

/-- **a replace does not look at the element child behind its range and what follows it**: with the
    content of that child exchanged (same markup, normal form) it succeeds alike -/
theorem replaceKids_suffix (S : Schema) (ty : TypeId) (P : List Node) (tyM : TypeId) (aM : Attrs) (mM : Marks)
    (kM kM' R' : List Node) (g h : Nat) (sl : Slice) (Y : List Node) (hP : fnormKids P = true)
    (hk : fnorm kM = true) (hk' : fnorm kM' = true) (hR : fnorm R' = true) (hh : h ≤ fsize P)
    (hY : replaceKids S ty (P ++ Node.elem tyM aM mM kM :: R') g h sl = .ok Y) :
    ∃ X, Y = X ++ Node.elem tyM aM mM kM :: R' ∧
      replaceKids S ty (P ++ Node.elem tyM aM mM kM' :: R') g h sl = .ok (X ++ Node.elem tyM aM mM kM' :: R') := by
  obtain ⟨hft, ht, hwf, ho⟩ := replaceKids_ok hY
  have hd := replaceKids_depths hY
  rw [depthAt_append_sfx P _ g (by omega), depthAt_append_sfx P _ h hh] at hd
  rw [depthAt_append_sfx P _ g (by omega)] at ho
  obtain ⟨X, hX, hX'⟩ := outer_sfx_congr S sl ty P tyM aM mM kM kM' R' g h _ hP hk hk' hR P [] g h 0 Y
    (by simp) (by simp) (by simp) (by simp) hft hh ho
  refine ⟨X, hX, ?_⟩
  unfold replaceKids
  rw [if_neg (by simp [inRange, fsize_append]; omega)]
  simp only [depthAt_append_sfx P _ g (show g ≤ fsize P by omega), depthAt_append_sfx P _ h hh]
  rw [if_neg (by omega), if_neg (by omega), if_neg (by simp [hwf])]
  exact hX'

/-! ### the right step inside a node the left step does not touch -/

/-- **both orders apply and give the same child list** when the right step happens inside the element
    child `m` of a level `L = P ++ m :: R` both steps reach and the left step lies in `P` -/
theorem commute_inside_right (S : Schema) (ty tyA : TypeId) (K : List Node) (b nd : Nat)
    (ctx : List Node → List Node) (P : List Node) (tyM : TypeId) (aM : Attrs) (mM : Marks)
    (kM R : List Node) (hL : Lvl ty K b nd tyA (P ++ Node.elem tyM aM mM kM :: R) ctx)
    (hnK : fnorm K = true) (g1 h1 g2 h2 : Nat) (hg1 : g1 ≤ h1) (hh1 : h1 ≤ fsize P) (hg2 : g2 ≤ h2)
    (hh2 : h2 ≤ fsize kM) (sl1 sl2 : Slice) (hsn1 : fnorm sl1.content = true)
    (hsn2 : fnorm sl2.content = true)
    (ha1 : sl1.openStart ≤ depthAt P g1) (ha2 : sl2.openStart ≤ depthAt kM g2) (Ka Kb : List Node)
    (hr1 : replaceKids S ty K (b + g1) (b + h1) sl1 = .ok Ka)
    (hr2 : replaceKids S ty K (b + (fsize P + 1) + g2) (b + (fsize P + 1) + h2) sl2 = .ok Kb) :
    ∃ X Kab, fsize X + (h1 - g1) = fsize P + sl1.toks.length ∧
      replaceKids S ty Ka (b + (fsize X + 1) + g2) (b + (fsize X + 1) + h2) sl2 = .ok Kab ∧
      replaceKids S ty Kb (b + g1) (b + h1) sl1 = .ok Kab := by
  have hnL := hL.fnorm_level hnK
  have hP : fnormKids P = true := fnormKids_of_fnorm (fnorm_append_left hnL)
  have hnR : fnorm R = true := by
    have := fnorm_append_right hnL
    exact (fnorm_cons this).2
  have hnk : fnorm kM = true := fnorm_child hnL
  have hszL : fsize (P ++ Node.elem tyM aM mM kM :: R) = fsize P + (2 + fsize kM + fsize R) := by
    rw [fsize_append]; simp
  -- the right step is the replace of `m`'s content
  have LM := hL.into hP
  rw [LM.replaceKids_eq sl2 g2 h2 hg2 hh2 ha2] at hr2
  cases hi2 : replaceKids S tyM kM g2 h2 sl2 with
  | error err => rw [hi2] at hr2; simp [Except.map] at hr2
  | ok kM' =>
    rw [hi2] at hr2
    simp only [Except.map, Except.ok.injEq] at hr2
    have hnk' : fnorm kM' = true := replaceKids_norm S tyM kM g2 h2 sl2 kM' hnk hsn2 hi2
    -- the left step is a replace of the level, in front of `m`
    rw [hL.replaceKids_eq sl1 g1 h1 hg1 (by omega)
      (by rw [depthAt_append_sfx P _ g1 (by omega)]; exact ha1)] at hr1
    cases hi1 : replaceKids S tyA (P ++ Node.elem tyM aM mM kM :: R) g1 h1 sl1 with
    | error err => rw [hi1] at hr1; simp [Except.map] at hr1
    | ok Y =>
      rw [hi1] at hr1
      simp only [Except.map, Except.ok.injEq] at hr1
      obtain ⟨X, hYX, hi1'⟩ := replaceKids_suffix S tyA P tyM aM mM kM kM' R g1 h1 sl1 Y hP hnk hnk' hnR hh1 hi1
      have hnY := replaceKids_norm S tyA _ g1 h1 sl1 Y hnL hsn1 hi1
      have hX : fnormKids X = true := by rw [hYX] at hnY; exact fnormKids_of_fnorm (fnorm_append_left hnY)
      have htk := replaceKids_toks S tyA _ g1 h1 sl1 Y hi1
      have hszX : fsize X + (h1 - g1) = fsize P + sl1.toks.length := by
        have := congrArg List.length htk
        rw [hYX] at this
        simp only [List.length_append, List.length_take, List.length_drop, ftoks_length, hszL] at this
        rw [fsize_append] at this
        simp only [fsize_cons, Node.size_elem] at this
        omega
      refine ⟨X, ctx (X ++ Node.elem tyM aM mM kM' :: R), hszX, ?_, ?_⟩
      · -- the rebased right step on the left step's result
        have L' := hL.replace (X ++ Node.elem tyM aM mM kM :: R)
        have LM' := L'.into hX
        rw [← hr1, hYX, LM'.replaceKids_eq sl2 g2 h2 hg2 hh2 ha2, hi2]
        rfl
      · -- the left step on the right step's result
        have L2 := hL.replace (P ++ Node.elem tyM aM mM kM' :: R)
        rw [← hr2, L2.replaceKids_eq sl1 g1 h1 hg1 (by rw [fsize_append]; simp; omega)
          (by rw [depthAt_append_sfx P _ g1 (by omega)]; exact ha1), hi1']
        rfl

/-! ### the guard `insideRight` yields the decomposition -/

theorem insideRight_cons (n : Node) (ns : List Node) (f1 t1 e1 f2 t2 e2 : Nat) :
    insideRight (n :: ns) f1 t1 e1 f2 t2 e2 =
      if f2 = 0 then false
      else if n.size ≤ f2 then insideRight ns (f1 - n.size) (t1 - n.size) e1 (f2 - n.size) (t2 - n.size) e2
      else match n with
        | .elem _ _ _ kids =>
          if e2 ≠ 0 && t2 < n.size then
            if t1 = 0 then true
            else e1 ≠ 0 && decide (0 < f1) &&
              insideRight kids (f1 - 1) (t1 - 1) (e1 - 1) (f2 - 1) (t2 - 1) (e2 - 1)
          else false
        | _ => false := by
  conv => lhs; unfold insideRight
  split
  · rfl
  · split
    · rfl
    · cases n <;> rfl

theorem insideRight_decomp : ∀ (rest : List Node) (ty : TypeId) (level pre : List Node)
    (F1 T1 e1 f2 t2 e2 : Nat), level = pre ++ rest → fnorm level = true → F1 ≤ T1 → T1 < fsize pre + f2 →
    f2 ≤ t2 → t2 ≤ fsize rest →
    insideRight rest (F1 - fsize pre) (T1 - fsize pre) e1 f2 t2 e2 = true →
    ∃ (b nd : Nat) (tyA : TypeId) (ctx : List Node → List Node) (P : List Node) (tyM : TypeId) (aM : Attrs)
      (mM : Marks) (kM R : List Node) (g1 h1 g2 h2 : Nat),
      Lvl ty level b nd tyA (P ++ Node.elem tyM aM mM kM :: R) ctx ∧
      F1 = b + g1 ∧ T1 = b + h1 ∧
      fsize pre + f2 = b + (fsize P + 1) + g2 ∧ fsize pre + t2 = b + (fsize P + 1) + h2 ∧
      g1 ≤ h1 ∧ h1 ≤ fsize P ∧ g2 ≤ h2 ∧ h2 ≤ fsize kM ∧ nd ≤ e1 ∧ nd + 1 ≤ e2
  | [], _, _, _, _, _, _, _, _, _, _, _, _, _, _, _, h => by simp [insideRight] at h
  | n :: ns, ty, level, pre, F1, T1, e1, f2, t2, e2, hl, hn, h11, hsep, h22, ht2, h => by
    simp only [fsize_cons] at ht2
    rw [insideRight_cons] at h
    by_cases hf : f2 = 0
    · rw [if_pos hf] at h; simp at h
    rw [if_neg hf] at h
    by_cases hle : n.size ≤ f2
    · rw [if_pos hle, Nat.sub_sub, Nat.sub_sub] at h
      have hsz : fsize (pre ++ [n]) = fsize pre + n.size := by rw [fsize_append]; simp
      rw [← hsz] at h
      obtain ⟨b, nd, tyA, ctx, P, tyM, aM, mM, kM, R, g1, h1, g2, h2, hL, q1, q2, q3, q4, rest⟩ :=
        insideRight_decomp ns ty level (pre ++ [n]) F1 T1 e1 (f2 - n.size) (t2 - n.size) e2
          (by simp [hl]) hn h11 (by omega) (by omega) (by omega) h
      exact ⟨b, nd, tyA, ctx, P, tyM, aM, mM, kM, R, g1, h1, g2, h2, hL, q1, q2, by omega, by omega, rest⟩
    rw [if_neg hle] at h
    cases n with
    | text s m => simp at h
    | leaf tt a m => simp at h
    | elem tyC aC mC kidsC =>
      simp only [Node.size_elem, Nat.not_le] at hle ht2
      simp only [Node.size_elem] at h
      have hpre : fnormKids pre = true := by rw [hl] at hn; exact fnormKids_append_left hn
      by_cases hc2 : (e2 ≠ 0 && decide (t2 < 2 + fsize kidsC)) = true
      · rw [if_pos hc2] at h
        simp only [Bool.and_eq_true, decide_eq_true_eq, ne_eq] at hc2
        by_cases ht1 : T1 - fsize pre = 0
        · -- found: the left step ends in front of this child
          subst hl
          exact ⟨0, 0, ty, id, pre, tyC, aC, mC, kidsC, ns, F1, T1, f2 - 1, t2 - 1, Lvl.here ty _, by omega,
            by omega, by omega, by omega, h11, by omega, by omega, by omega, by omega, by omega⟩
        · rw [if_neg ht1] at h
          simp only [Bool.and_eq_true, decide_eq_true_eq, ne_eq] at h
          subst hl
          obtain ⟨b, nd, tyA, ctx, P, tyM, aM, mM, kM, R, g1, h1, g2, h2, hL, q1, q2, q3, q4, r1, r2, r3, r4, r5, r6⟩ :=
            insideRight_decomp kidsC tyC kidsC [] (F1 - fsize pre - 1) (T1 - fsize pre - 1) (e1 - 1) (f2 - 1)
              (t2 - 1) (e2 - 1) (by simp) (fnorm_child hn) (by omega) (by simp; omega) (by omega) (by omega)
              (by simpa using h.2)
          simp only [fsize_nil, Nat.zero_add] at q3 q4
          refine ⟨fsize pre + 1 + b, nd + 1, tyA, _, P, tyM, aM, mM, kM, R, g1, h1, g2, h2,
            Lvl.down ty pre aC mC ns hpre hL, by omega, by omega, by omega, by omega, r1, r2, r3, r4,
            by omega, by omega⟩
      · rw [if_neg hc2] at h; simp at h

/-- **two replaces with separated ranges, the right one inside a node the left one does not touch
    (`insideRight`): both rebased orders apply and give the same child list** -/
theorem replaceKids_commute_right (S : Schema) (ty : TypeId) (K Ka Kb : List Node) (f1 t1 f2 t2 : Nat)
    (sl1 sl2 : Slice) (hnK : fnorm K = true) (hsn1 : fnorm sl1.content = true)
    (hsn2 : fnorm sl2.content = true) (hsep : t1 < f2)
    (hr1 : replaceKids S ty K f1 t1 sl1 = .ok Ka) (hr2 : replaceKids S ty K f2 t2 sl2 = .ok Kb)
    (hg : insideRight K f1 t1 (depthAt K f1 - sl1.openStart) f2 t2 (depthAt K f2 - sl2.openStart) = true) :
    ∃ Kab, replaceKids S ty Ka (f2 - (t1 - f1) + sl1.toks.length) (t2 - (t1 - f1) + sl1.toks.length) sl2
        = .ok Kab ∧ replaceKids S ty Kb f1 t1 sl1 = .ok Kab := by
  obtain ⟨h11, _, _⟩ := replaceKids_guards S ty K f1 t1 sl1 Ka hr1
  obtain ⟨h22, ht2, _⟩ := replaceKids_guards S ty K f2 t2 sl2 Kb hr2
  have hd1 := (replaceKids_depths hr1).1
  have hd2 := (replaceKids_depths hr2).1
  obtain ⟨b, nd, tyA, ctx, P, tyM, aM, mM, kM, R, g1, h1, g2, h2, hL, q1, q2, q3, q4, r1, r2, r3, r4, r5, r6⟩ :=
    insideRight_decomp K ty K [] f1 t1 _ f2 t2 _ (by simp) hnK h11 (by simpa using hsep) h22 ht2
      (by simpa using hg)
  simp only [fsize_nil, Nat.zero_add] at q3 q4
  have hnL := hL.fnorm_level hnK
  have hP : fnormKids P = true := fnormKids_of_fnorm (fnorm_append_left hnL)
  have LM := hL.into hP
  have dd2 := (LM.depth g2 (by omega)).1
  have dd1 := (hL.depth g1 (by rw [fsize_append]; omega)).1
  rw [depthAt_append_sfx P _ g1 (by omega)] at dd1
  rw [← q1] at dd1
  rw [← q3] at dd2
  subst q1; subst q2; subst q3; subst q4
  obtain ⟨X, Kab, hsz, c1, c2⟩ := commute_inside_right S ty tyA K b nd ctx P tyM aM mM kM R hL hnK g1 h1 g2 h2
    r1 r2 r3 r4 sl1 sl2 hsn1 hsn2 (by omega) (by omega) Ka Kb hr1 hr2
  refine ⟨Kab, ?_, c2⟩
  have e1 : b + (fsize P + 1) + g2 - (b + h1 - (b + g1)) + sl1.toks.length = b + (fsize X + 1) + g2 := by
    omega
  have e2 : b + (fsize P + 1) + h2 - (b + h1 - (b + g1)) + sl1.toks.length = b + (fsize X + 1) + h2 := by
    omega
  rw [e1, e2]
  exact c1

end PM
