/-
  Proofs/CompileDfa.lean — stage 3 of C06's compiler proof: the subset construction `dfa(nfa)`.
  For every NFA whose edge targets are nodes: the state the compiled automaton reaches on `w` is labelled
  with the set of (non-pass-through) NFA nodes reachable on `w`, it is a valid end iff that set contains the
  accepting node, and it has no state for `w` iff the set is empty.  The fuel of `explore` (one unit per
  nested call; every nested call registers a new key) is never exhausted.
-/
import PM.Compile
import Proofs.CompileNull
import Mathlib.Data.List.Sublists
namespace PM
set_option linter.unusedSimpArgs false

/-! ### `out` of `explore`: `addAll`, `addOut`, `stepOut` -/

theorem mem_addAll (set ns : List Nat) (m : Nat) : m ∈ addAll set ns ↔ m ∈ set ∨ m ∈ ns := by
  unfold addAll
  induction ns generalizing set with
  | nil => simp
  | cons n ns ih =>
    simp only [List.foldl_cons]
    rw [ih]
    by_cases h : set.contains n = true
    · rw [if_pos h]
      simp only [List.contains_eq_mem, decide_eq_true_eq] at h
      constructor
      · rintro (h1 | h1)
        · exact Or.inl h1
        · exact Or.inr (List.mem_cons_of_mem _ h1)
      · rintro (h1 | h1)
        · exact Or.inl h1
        · rcases List.mem_cons.1 h1 with rfl | h1
          · exact Or.inl h
          · exact Or.inr h1
    · rw [if_neg h]
      simp only [List.mem_append, List.mem_singleton, List.mem_cons]
      tauto

theorem nodup_addAll (set ns : List Nat) (h : set.Nodup) : (addAll set ns).Nodup := by
  unfold addAll
  induction ns generalizing set with
  | nil => simpa
  | cons n ns ih =>
    simp only [List.foldl_cons]
    apply ih
    by_cases hc : set.contains n = true
    · rw [if_pos hc]; exact h
    · rw [if_neg hc]
      simp only [List.contains_eq_mem, decide_eq_true_eq] at hc
      exact List.nodup_append.2 ⟨h, by simp, by
        intro a ha b hb
        simp only [List.mem_singleton] at hb
        subst hb
        exact fun hab => hc (hab ▸ ha)⟩

/-- what `out` holds: `OutRel out t m` — node `m` is in the set of term `t` -/
def OutRel (out : List (Nat × List Nat)) (t m : Nat) : Prop := ∃ set, (t, set) ∈ out ∧ m ∈ set

structure OutInv (out : List (Nat × List Nat)) : Prop where
  terms : (out.map (·.1)).Nodup
  ne : ∀ p, p ∈ out → p.2 ≠ []
  nodup : ∀ p, p ∈ out → p.2.Nodup

theorem addOut_spec (N : Nfa) (out : List (Nat × List Nat)) (e : NfaEdge) (h : OutInv out) :
    OutInv (addOut N out e) ∧
      ∀ t m, OutRel (addOut N out e) t m ↔ OutRel out t m ∨ (e.1 = some t ∧ m ∈ nullFrom N e.2) := by
  unfold addOut
  cases he : e.1 with
  | none => simp [h]
  | some t0 =>
    simp only
    by_cases hany : out.any (fun p => p.1 == t0) = true
    · rw [if_pos hany]
      constructor
      · refine ⟨?_, ?_, ?_⟩
        · have : (out.map (fun p => if p.1 == t0 then (p.1, addAll p.2 (nullFrom N e.2)) else p)).map (·.1)
              = out.map (·.1) := by
            rw [List.map_map]
            apply List.map_congr_left
            intro p _
            simp only [Function.comp]
            split <;> rfl
          rw [this]; exact h.terms
        · intro p hp
          obtain ⟨q, hq, rfl⟩ := List.mem_map.1 hp
          split
          · intro hnil
            have hne := h.ne q hq
            cases hq2 : q.2 with
            | nil => exact hne hq2
            | cons a l =>
              have : a ∈ addAll q.2 (nullFrom N e.2) := (mem_addAll _ _ _).2 (Or.inl (by rw [hq2]; simp))
              simp only at hnil
              rw [hnil] at this
              simp at this
          · exact h.ne q hq
        · intro p hp
          obtain ⟨q, hq, rfl⟩ := List.mem_map.1 hp
          split
          · exact nodup_addAll _ _ (h.nodup q hq)
          · exact h.nodup q hq
      · intro t m
        unfold OutRel
        constructor
        · rintro ⟨set, hmem, hm⟩
          obtain ⟨q, hq, hqe⟩ := List.mem_map.1 hmem
          by_cases hqt : (q.1 == t0) = true
          · rw [if_pos hqt] at hqe
            simp only [Prod.mk.injEq] at hqe
            obtain ⟨rfl, rfl⟩ := hqe
            rcases (mem_addAll _ _ _).1 hm with hm | hm
            · exact Or.inl ⟨q.2, hq, hm⟩
            · simp only [beq_iff_eq] at hqt
              exact Or.inr ⟨by rw [hqt], hm⟩
          · rw [if_neg hqt] at hqe
            subst hqe
            exact Or.inl ⟨_, hq, hm⟩
        · rintro (⟨set, hmem, hm⟩ | ⟨ht, hm⟩)
          · by_cases hqt : (t == t0) = true
            · exact ⟨addAll set (nullFrom N e.2), List.mem_map.2 ⟨(t, set), hmem, by simp [hqt]⟩,
                (mem_addAll _ _ _).2 (Or.inl hm)⟩
            · exact ⟨set, List.mem_map.2 ⟨(t, set), hmem, by simp [hqt]⟩, hm⟩
          · simp only [Option.some.injEq] at ht
            subst ht
            simp only [List.any_eq_true, beq_iff_eq] at hany
            obtain ⟨q, hq, hqt⟩ := hany
            refine ⟨addAll q.2 (nullFrom N e.2), List.mem_map.2 ⟨q, hq, by simp [hqt]⟩,
              (mem_addAll _ _ _).2 (Or.inr hm)⟩
    · rw [if_neg hany]
      have hnot : ∀ q, q ∈ out → q.1 ≠ t0 := by
        intro q hq heq
        apply hany
        simp only [List.any_eq_true, beq_iff_eq]
        exact ⟨q, hq, heq⟩
      by_cases hemp : (nullFrom N e.2).isEmpty = true
      · rw [if_pos hemp]
        refine ⟨h, ?_⟩
        intro t m
        constructor
        · exact Or.inl
        · rintro (h1 | ⟨_, hm⟩)
          · exact h1
          · simp only [List.isEmpty_iff] at hemp
            rw [hemp] at hm
            simp at hm
      · rw [if_neg hemp]
        simp only [List.isEmpty_iff] at hemp
        constructor
        · refine ⟨?_, ?_, ?_⟩
          · rw [List.map_append]
            refine List.nodup_append.2 ⟨h.terms, by simp, ?_⟩
            intro a ha b hb
            simp only [List.map_cons, List.map_nil, List.mem_singleton] at hb
            subst hb
            obtain ⟨q, hq, rfl⟩ := List.mem_map.1 ha
            exact hnot q hq
          · intro p hp
            rcases List.mem_append.1 hp with hp | hp
            · exact h.ne p hp
            · simp only [List.mem_singleton] at hp
              subst hp
              intro hnil
              apply hemp
              cases hns : nullFrom N e.2 with
              | nil => rfl
              | cons a l =>
                have : a ∈ addAll [] (nullFrom N e.2) := (mem_addAll _ _ _).2 (Or.inr (by rw [hns]; simp))
                simp only at hnil
                rw [hnil] at this
                simp at this
          · intro p hp
            rcases List.mem_append.1 hp with hp | hp
            · exact h.nodup p hp
            · simp only [List.mem_singleton] at hp
              subst hp
              exact nodup_addAll _ _ List.nodup_nil
        · intro t m
          unfold OutRel
          constructor
          · rintro ⟨set, hmem, hm⟩
            rcases List.mem_append.1 hmem with hmem | hmem
            · exact Or.inl ⟨set, hmem, hm⟩
            · simp only [List.mem_singleton, Prod.mk.injEq] at hmem
              obtain ⟨rfl, rfl⟩ := hmem
              rcases (mem_addAll _ _ _).1 hm with hm | hm
              · simp at hm
              · exact Or.inr ⟨rfl, hm⟩
          · rintro (⟨set, hmem, hm⟩ | ⟨ht, hm⟩)
            · exact ⟨set, List.mem_append_left _ hmem, hm⟩
            · simp only [Option.some.injEq] at ht
              subst ht
              exact ⟨_, List.mem_append_right _ (List.mem_singleton.2 rfl), (mem_addAll _ _ _).2 (Or.inr hm)⟩

theorem foldl_addOut_spec (N : Nfa) (es : List NfaEdge) : ∀ (out : List (Nat × List Nat)), OutInv out →
    OutInv (es.foldl (addOut N) out) ∧
      ∀ t m, OutRel (es.foldl (addOut N) out) t m ↔
        OutRel out t m ∨ ∃ e, e ∈ es ∧ e.1 = some t ∧ m ∈ nullFrom N e.2 := by
  induction es with
  | nil => intro out h; simp [h]
  | cons e es ih =>
    intro out h
    simp only [List.foldl_cons]
    obtain ⟨h1, h2⟩ := addOut_spec N out e h
    obtain ⟨h3, h4⟩ := ih _ h1
    refine ⟨h3, fun t m => ?_⟩
    rw [h4, h2]
    constructor
    · rintro ((h5 | h5) | ⟨e', he', h5⟩)
      · exact Or.inl h5
      · exact Or.inr ⟨e, List.mem_cons_self .., h5⟩
      · exact Or.inr ⟨e', List.mem_cons_of_mem _ he', h5⟩
    · rintro (h5 | ⟨e', he', h5⟩)
      · exact Or.inl (Or.inl h5)
      · rcases List.mem_cons.1 he' with rfl | he'
        · exact Or.inl (Or.inr h5)
        · exact Or.inr ⟨e', he', h5⟩

/-- the nodes reached from the set `S` by one `t`-edge followed by `null_from` -/
def SuccRel (N : Nfa) (S : List Nat) (t m : Nat) : Prop :=
  ∃ n, n ∈ S ∧ ∃ e, e ∈ N.getD n [] ∧ e.1 = some t ∧ m ∈ nullFrom N e.2

theorem stepOut_spec (N : Nfa) (S : List Nat) :
    OutInv (stepOut N S) ∧ ∀ t m, OutRel (stepOut N S) t m ↔ SuccRel N S t m := by
  unfold stepOut
  have key : ∀ (S : List Nat) (out : List (Nat × List Nat)), OutInv out →
      OutInv (S.foldl (fun out node => (N.getD node []).foldl (addOut N) out) out) ∧
      ∀ t m, OutRel (S.foldl (fun out node => (N.getD node []).foldl (addOut N) out) out) t m ↔
        OutRel out t m ∨ SuccRel N S t m := by
    intro S
    induction S with
    | nil => intro out h; simp [h, SuccRel]
    | cons n S ih =>
      intro out h
      simp only [List.foldl_cons]
      obtain ⟨h1, h2⟩ := foldl_addOut_spec N (N.getD n []) out h
      obtain ⟨h3, h4⟩ := ih _ h1
      refine ⟨h3, fun t m => ?_⟩
      rw [h4, h2]
      unfold SuccRel
      constructor
      · rintro ((h5 | ⟨e, he, h5⟩) | ⟨n', hn', h5⟩)
        · exact Or.inl h5
        · exact Or.inr ⟨n, List.mem_cons_self .., e, he, h5⟩
        · exact Or.inr ⟨n', List.mem_cons_of_mem _ hn', h5⟩
      · rintro (h5 | ⟨n', hn', e, he, h5⟩)
        · exact Or.inl (Or.inl h5)
        · rcases List.mem_cons.1 hn' with rfl | hn'
          · exact Or.inl (Or.inr ⟨e, he, h5⟩)
          · exact Or.inr ⟨n', hn', e, he, h5⟩
  obtain ⟨h1, h2⟩ := key S [] ⟨by simp, by simp, by simp⟩
  refine ⟨h1, fun t m => ?_⟩
  rw [h2]
  constructor
  · rintro (⟨set, hmem, _⟩ | h)
    · simp at hmem
    · exact h
  · exact Or.inr

/-! ### keys: `sortDesc`, canonical lists, the universe of keys -/

theorem mem_sortDesc (l : List Nat) (m : Nat) : m ∈ sortDesc l ↔ m ∈ l := by
  unfold sortDesc; exact List.mem_mergeSort

theorem sortDesc_nodup (l : List Nat) (h : l.Nodup) : (sortDesc l).Nodup := by
  unfold sortDesc
  exact (List.mergeSort_perm l _).nodup_iff.2 h

theorem sortDesc_pairwise (l : List Nat) : (sortDesc l).Pairwise (fun a b => b ≤ a) := by
  unfold sortDesc
  have := List.pairwise_mergeSort (le := fun a b : Nat => decide (b ≤ a))
    (by intro a b c h1 h2; simp only [decide_eq_true_eq] at *; omega)
    (by intro a b; simp only [Bool.or_eq_true, decide_eq_true_eq]; omega) l
  simpa using this

/-- strictly descending, all below `N` -/
def Canon (N : Nat) (l : List Nat) : Prop := l.Pairwise (fun a b => b < a) ∧ ∀ m, m ∈ l → m < N

theorem canon_sortDesc (N : Nat) (l : List Nat) (hnd : l.Nodup) (hlt : ∀ m, m ∈ l → m < N) :
    Canon N (sortDesc l) := by
  refine ⟨?_, fun m hm => hlt m ((mem_sortDesc l m).1 hm)⟩
  have h1 := sortDesc_pairwise l
  have h2 := sortDesc_nodup l hnd
  rw [List.Nodup] at h2
  have := h1.and h2
  exact this.imp (fun ⟨hle, hne⟩ => by omega)

theorem canon_sublist (N : Nat) : ∀ l, Canon N l → List.Sublist l (List.range N).reverse := by
  induction N with
  | zero =>
    intro l h
    cases l with
    | nil => exact List.Sublist.refl _
    | cons a l => exact absurd (h.2 a (List.mem_cons_self ..)) (by omega)
  | succ N ih =>
    intro l h
    rw [List.range_succ, List.reverse_append, List.reverse_singleton, List.singleton_append]
    cases l with
    | nil => exact List.nil_sublist _
    | cons a l =>
      obtain ⟨hp, hlt⟩ := h
      rw [List.pairwise_cons] at hp
      by_cases ha : a = N
      · subst ha
        refine List.Sublist.cons_cons _ (ih l ⟨hp.2, fun m hm => hp.1 m hm⟩)
      · have haN : a < N := by have := hlt a (List.mem_cons_self ..); omega
        refine List.Sublist.cons _ (ih (a :: l) ⟨List.pairwise_cons.2 hp, ?_⟩)
        intro m hm
        rcases List.mem_cons.1 hm with rfl | hm
        · exact haN
        · have := hp.1 m hm; omega

/-- all keys `explore` can ever register: the start key and the canonical lists -/
def keyUniverse (N : Nat) (S0 : List Nat) : List (List Nat) := S0 :: (List.range N).reverse.sublists

theorem length_keyUniverse (N : Nat) (S0 : List Nat) : (keyUniverse N S0).length = 2 ^ N + 1 := by
  simp [keyUniverse, List.length_sublists]

theorem canon_mem_universe (N : Nat) (S0 l : List Nat) (h : Canon N l) : l ∈ keyUniverse N S0 :=
  List.mem_cons_of_mem _ ((List.mem_sublists).2 (canon_sublist N l h))

/-- number of keys of the universe not yet registered -/
def remaining (U keys : List (List Nat)) : Nat := U.countP (fun k => !keys.contains k)

theorem remaining_mono (U : List (List Nat)) {keys keys' : List (List Nat)} (h : ∀ k, k ∈ keys → k ∈ keys') :
    remaining U keys' ≤ remaining U keys := by
  unfold remaining
  apply List.countP_mono_left
  intro k _ hk
  simp only [Bool.not_eq_true', List.contains_eq_mem, decide_eq_false_iff_not] at hk ⊢
  exact fun hmem => hk (h k hmem)

theorem remaining_cons_lt (U : List (List Nat)) {keys : List (List Nat)} {x : List Nat} (hx : x ∈ U)
    (hnot : x ∉ keys) : remaining U (x :: keys) + 1 ≤ remaining U keys := by
  induction U with
  | nil => simp at hx
  | cons u U ih =>
    unfold remaining at ih ⊢
    simp only [List.countP_cons]
    by_cases hux : u = x
    · subst hux
      have hm := remaining_mono U (keys := keys) (keys' := u :: keys) (fun k hk => List.mem_cons_of_mem _ hk)
      unfold remaining at hm
      have h1 : (!(u :: keys).contains u) = false := by simp
      have h2 : (!keys.contains u) = true := by simpa using hnot
      simp only [h1, h2, Bool.false_eq_true, ↓reduceIte]
      omega
    · have hxU : x ∈ U := by
        rcases List.mem_cons.1 hx with rfl | h
        · exact absurd rfl hux
        · exact h
      have := ih hxU
      have hc : (u :: ([] : List (List Nat))).length = 1 := rfl
      have heq : (!(x :: keys).contains u) = (!keys.contains u) := by
        simp only [List.contains_eq_mem, List.mem_cons]
        simp [hux]
      rw [heq]
      omega

/-! ### the invariant of `explore` -/

def DSt.keys (st : DSt) : List (List Nat) := st.labeled.map (·.1)

/-- the NFA node set a state was created for -/
def DSt.key (st : DSt) (i : Nat) : List Nat := (st.labeled[i]?.map (·.1)).getD []

structure DInv (N : Nfa) (st : DSt) : Prop where
  idx : st.labeled.map (·.2) = List.range st.states.size
  valid : ∀ i (s : DfaState), st.states[i]? = some s → s.validEnd = (st.key i).contains (N.size - 1)

theorem DInv.length {N : Nfa} {st : DSt} (h : DInv N st) : st.labeled.length = st.states.size := by
  have := congrArg List.length h.idx
  simpa using this

theorem DInv.snd {N : Nfa} {st : DSt} (h : DInv N st) {i : Nat} {p : List Nat × Nat}
    (hp : st.labeled[i]? = some p) : p.2 = i := by
  have h1 : (st.labeled.map (·.2))[i]? = some p.2 := by simp [hp]
  rw [h.idx] at h1
  have hi : i < st.states.size := by
    have := (List.getElem?_eq_some_iff.1 hp).1
    rw [h.length] at this; exact this
  rw [List.getElem?_range hi] at h1
  exact (Option.some.inj h1).symm

theorem lookupKey_some {N : Nfa} {st : DSt} (h : DInv N st) {key : List Nat} {j : Nat}
    (hl : lookupKey st.labeled key = some j) : j < st.states.size ∧ st.key j = key := by
  unfold lookupKey at hl
  rw [Option.map_eq_some_iff] at hl
  obtain ⟨p, hp, rfl⟩ := hl
  have hkey : p.1 = key := by simpa using List.find?_some hp
  obtain ⟨i, hi⟩ := List.getElem?_of_mem (List.mem_of_find?_eq_some hp)
  have hsnd := h.snd hi
  have hlt : i < st.states.size := by
    have := (List.getElem?_eq_some_iff.1 hi).1
    rw [h.length] at this; exact this
  rw [hsnd]
  refine ⟨hlt, ?_⟩
  unfold DSt.key
  rw [← hsnd] at hi ⊢
  simp [hi, hkey]

theorem lookupKey_none {st : DSt} {key : List Nat} (hl : lookupKey st.labeled key = none) : key ∉ st.keys := by
  unfold lookupKey at hl
  rw [Option.map_eq_none_iff, List.find?_eq_none] at hl
  intro hmem
  unfold DSt.keys at hmem
  obtain ⟨p, hp, rfl⟩ := List.mem_map.1 hmem
  exact hl p hp (by simp)

structure DExt (st st' : DSt) : Prop where
  pre : ∃ l, st'.labeled = st.labeled ++ l
  size : st.states.size ≤ st'.states.size
  same : ∀ i, i < st.states.size → st'.states[i]? = st.states[i]?

theorem DExt.refl (st : DSt) : DExt st st := ⟨⟨[], by simp⟩, Nat.le_refl _, fun _ _ => rfl⟩

theorem DExt.trans {a b c : DSt} (h1 : DExt a b) (h2 : DExt b c) : DExt a c := by
  obtain ⟨l1, e1⟩ := h1.pre
  obtain ⟨l2, e2⟩ := h2.pre
  exact ⟨⟨l1 ++ l2, by rw [e2, e1, List.append_assoc]⟩, Nat.le_trans h1.size h2.size,
    fun i hi => by rw [h2.same i (Nat.lt_of_lt_of_le hi h1.size), h1.same i hi]⟩

theorem DExt.key {N : Nfa} {st st' : DSt} (h : DExt st st') (hinv : DInv N st) {i : Nat}
    (hi : i < st.states.size) : st'.key i = st.key i := by
  obtain ⟨l, e⟩ := h.pre
  unfold DSt.key
  rw [e, List.getElem?_append_left (by rw [hinv.length]; exact hi)]

theorem DExt.keys {st st' : DSt} (h : DExt st st') : ∀ k, k ∈ st.keys → k ∈ st'.keys := by
  obtain ⟨l, e⟩ := h.pre
  intro k hk
  unfold DSt.keys at hk ⊢
  rw [e, List.map_append]
  exact List.mem_append_left _ hk

theorem matchType_congr {d d' : Dfa} {i : Nat} (h : d'[i]? = d[i]?) (t : Nat) :
    Dfa.matchType d' i t = Dfa.matchType d i t := by
  unfold Dfa.matchType Dfa.edgesOf
  rw [h]

/-- state `i` is finished: its edges lead to the states of the successor sets, and only those exist -/
def Good (N : Nfa) (st : DSt) (i : Nat) : Prop :=
  (∀ e, e ∈ Dfa.edgesOf st.states i → e.2 < st.states.size) ∧
  (∀ t, match Dfa.matchType st.states i t with
    | some j => j < st.states.size ∧ (∀ m, m ∈ st.key j ↔ SuccRel N (st.key i) t m) ∧ st.key j ≠ []
    | none => ∀ m, ¬ SuccRel N (st.key i) t m) ∧
  ((Dfa.edgesOf st.states i).map (·.1)).Nodup

theorem Good.ext {N : Nfa} {st st' : DSt} {i : Nat} (hg : Good N st i) (hinv : DInv N st) (h : DExt st st')
    (hi : i < st.states.size) : Good N st' i := by
  have hedges : Dfa.edgesOf st'.states i = Dfa.edgesOf st.states i := by
    unfold Dfa.edgesOf; rw [h.same i hi]
  refine ⟨fun e he => ?_, ?_, by rw [hedges]; exact hg.2.2⟩
  · have : Dfa.edgesOf st'.states i = Dfa.edgesOf st.states i := by
      unfold Dfa.edgesOf; rw [h.same i hi]
    rw [this] at he
    exact Nat.lt_of_lt_of_le (hg.1 e he) h.size
  intro t
  have := hg.2.1 t
  rw [matchType_congr (h.same i hi) t]
  cases hm : Dfa.matchType st.states i t with
  | none =>
    rw [hm] at this
    simp only at this ⊢
    rw [h.key hinv hi]; exact this
  | some j =>
    rw [hm] at this
    simp only at this ⊢
    obtain ⟨hj, hmem, hne⟩ := this
    rw [h.key hinv hi, h.key hinv hj]
    exact ⟨Nat.lt_of_lt_of_le hj h.size, hmem, hne⟩

/-- the body of the loop `for i in range(len(out))` of `explore` -/
def expStep (N : Nfa) (fuel : Nat) (acc : List (Nat × Nat) × DSt) (p : Nat × List Nat) : List (Nat × Nat) × DSt :=
  match lookupKey acc.2.labeled (sortDesc p.2) with
  | some j => (acc.1 ++ [(p.1, j)], acc.2)
  | none => (acc.1 ++ [(p.1, (exploreSt N fuel (sortDesc p.2) acc.2).1)], (exploreSt N fuel (sortDesc p.2) acc.2).2)

theorem exploreSt_succ (N : Nfa) (fuel : Nat) (S : List Nat) (st : DSt) :
    exploreSt N (fuel + 1) S st =
      (let r := (stepOut N S).foldl (expStep N fuel)
          ([], { labeled := st.labeled ++ [(S, st.states.size)],
                 states := st.states.push ⟨S.contains (N.size - 1), []⟩ })
       (st.states.size, { r.2 with states := r.2.states.modify st.states.size (fun s => { s with edges := r.1 }) })) := by
  rfl

structure ESpec (N : Nfa) (st : DSt) (S : List Nat) (r : Nat × DSt) : Prop where
  idx : r.1 = st.states.size
  inv : DInv N r.2
  ext : DExt st r.2
  lt : st.states.size < r.2.states.size
  key : r.2.key st.states.size = S
  good : ∀ i, st.states.size ≤ i → i < r.2.states.size → Good N r.2 i

structure LInv (N : Nfa) (U : List (List Nat)) (fuel idx : Nat) (st0 : DSt) (done : List (Nat × List Nat))
    (acc : List (Nat × Nat)) (cur : DSt) : Prop where
  inv : DInv N cur
  ext : DExt st0 cur
  rem : remaining U cur.keys ≤ fuel
  good : ∀ i, idx < i → i < cur.states.size → Good N cur i
  edges : List.Forall₂ (fun (p : Nat × List Nat) (q : Nat × Nat) =>
    q.1 = p.1 ∧ q.2 < cur.states.size ∧ cur.key q.2 = sortDesc p.2) done acc

theorem explore_loop (N : Nfa) (U : List (List Nat)) (hU : ∀ l, Canon N.size l → l ∈ U) (fuel idx : Nat) (st0 : DSt)
    (ih : ∀ S st, DInv N st → remaining U st.keys ≤ fuel → S ∈ U → S ∉ st.keys →
      ESpec N st S (exploreSt N fuel S st)) :
    ∀ (ps done : List (Nat × List Nat)) (acc : List (Nat × Nat)) (cur : DSt),
      (∀ p, p ∈ ps → p.2.Nodup ∧ ∀ m, m ∈ p.2 → m < N.size) →
      LInv N U fuel idx st0 done acc cur →
      LInv N U fuel idx st0 (done ++ ps) (ps.foldl (expStep N fuel) (acc, cur)).1
        (ps.foldl (expStep N fuel) (acc, cur)).2 := by
  intro ps
  induction ps with
  | nil => intro done acc cur _ h; simpa using h
  | cons p ps ihps =>
    intro done acc cur hps h
    simp only [List.foldl_cons]
    have hp := hps p (List.mem_cons_self ..)
    have hps' : ∀ q, q ∈ ps → q.2.Nodup ∧ ∀ m, m ∈ q.2 → m < N.size :=
      fun q hq => hps q (List.mem_cons_of_mem _ hq)
    have hdone : done ++ p :: ps = (done ++ [p]) ++ ps := by simp
    rw [hdone]
    unfold expStep
    cases hl : lookupKey cur.labeled (sortDesc p.2) with
    | some j =>
      simp only
      obtain ⟨hj, hkey⟩ := lookupKey_some h.inv hl
      refine ihps (done ++ [p]) (acc ++ [(p.1, j)]) cur hps' ⟨h.inv, h.ext, h.rem, h.good, ?_⟩
      exact List.rel_append h.edges (List.Forall₂.cons ⟨rfl, hj, hkey⟩ List.Forall₂.nil)
    | none =>
      simp only
      have hnot := lookupKey_none hl
      have hcanon : Canon N.size (sortDesc p.2) := canon_sortDesc N.size p.2 hp.1 hp.2
      have sp := ih (sortDesc p.2) cur h.inv h.rem (hU _ hcanon) hnot
      refine ihps (done ++ [p]) _ _ hps' ⟨sp.inv, h.ext.trans sp.ext, ?_, ?_, ?_⟩
      · exact Nat.le_trans (remaining_mono U sp.ext.keys) h.rem
      · intro i hi1 hi2
        by_cases hlt : i < cur.states.size
        · exact (h.good i hi1 hlt).ext h.inv sp.ext hlt
        · exact sp.good i (by omega) hi2
      · refine List.rel_append (h.edges.imp ?_) (List.Forall₂.cons ⟨rfl, ?_, ?_⟩ List.Forall₂.nil)
        · intro a b ⟨h1, h2, h3⟩
          exact ⟨h1, Nat.lt_of_lt_of_le h2 sp.ext.size, by rw [sp.ext.key h.inv h2]; exact h3⟩
        · rw [sp.idx]; exact sp.lt
        · rw [sp.idx]; exact sp.key

theorem epsReach_lt {N : Nfa} (hN : N.WF) {n m : Nat} (h : EpsReach N n m) (hn : n < N.size) : m < N.size := by
  induction h with
  | refl => exact hn
  | step hs _ ih => exact ih (hN _ _ hs)

theorem nullFrom_lt {N : Nfa} (hN : N.WF) {n m : Nat} (hn : n < N.size) (h : m ∈ nullFrom N n) : m < N.size :=
  epsReach_lt hN ((nullFrom_spec N hN n hn m).1 h).1 hn

theorem succRel_lt {N : Nfa} (hN : N.WF) {S : List Nat} {t m : Nat} (h : SuccRel N S t m) : m < N.size := by
  obtain ⟨n, _, e, he, _, hm⟩ := h
  exact nullFrom_lt hN (hN n e he) hm

theorem outInv_unique {out : List (Nat × List Nat)} (h : OutInv out) {t : Nat} {s s' : List Nat}
    (h1 : (t, s) ∈ out) (h2 : (t, s') ∈ out) : s = s' := by
  have := h.terms
  induction out with
  | nil => simp at h1
  | cons p out ih =>
    simp only [List.map_cons, List.nodup_cons, List.mem_map, not_exists, not_and] at this
    rcases List.mem_cons.1 h1 with h1 | h1 <;> rcases List.mem_cons.1 h2 with h2 | h2
    · rw [← h1] at h2; exact (Prod.mk.inj h2).2.symm
    · rw [← h1] at this; exact absurd rfl (this.1 (t, s') h2)
    · rw [← h2] at this; exact absurd rfl (this.1 (t, s) h1)
    · exact ih ⟨this.2, fun q hq => h.ne q (List.mem_cons_of_mem _ hq),
        fun q hq => h.nodup q (List.mem_cons_of_mem _ hq)⟩ h1 h2 this.2

theorem forall₂_find {out : List (Nat × List Nat)} {acc : List (Nat × Nat)} {R : Nat × List Nat → Nat × Nat → Prop}
    (h : List.Forall₂ (fun p q => q.1 = p.1 ∧ R p q) out acc) (t : Nat) :
    match acc.find? (fun q => q.1 == t) with
    | some q => ∃ p, p ∈ out ∧ p.1 = t ∧ q.1 = t ∧ R p q
    | none => ∀ p, p ∈ out → p.1 ≠ t := by
  induction h with
  | nil => simp
  | cons hpq _ ih =>
    rename_i p q out acc _
    simp only [List.find?_cons]
    by_cases hq : (q.1 == t) = true
    · rw [hq]
      simp only [beq_iff_eq] at hq
      exact ⟨p, List.mem_cons_self .., by rw [← hpq.1]; exact hq, hq, hpq.2⟩
    · have hq' : (q.1 == t) = false := by simpa using hq
      rw [hq']
      simp only
      simp only [beq_iff_eq] at hq
      cases hf : acc.find? (fun q => q.1 == t) with
      | some q' =>
        rw [hf] at ih
        obtain ⟨p', hp', h1⟩ := ih
        exact ⟨p', List.mem_cons_of_mem _ hp', h1⟩
      | none =>
        rw [hf] at ih
        intro p' hp'
        rcases List.mem_cons.1 hp' with rfl | hp'
        · rw [← hpq.1]; exact hq
        · exact ih p' hp'

theorem exploreSt_spec (N : Nfa) (hN : N.WF) (U : List (List Nat)) (hU : ∀ l, Canon N.size l → l ∈ U) :
    ∀ (fuel : Nat) (S : List Nat) (st : DSt), DInv N st → remaining U st.keys ≤ fuel → S ∈ U → S ∉ st.keys →
      ESpec N st S (exploreSt N fuel S st) := by
  intro fuel
  induction fuel with
  | zero =>
    intro S st _ hrem hS hnot
    have := remaining_cons_lt U hS hnot
    omega
  | succ fuel ih =>
    intro S st hinv hrem hS hnot
    rw [exploreSt_succ]
    obtain ⟨hout, hrel⟩ := stepOut_spec N S
    -- the state after registering `S`
    have hlen := hinv.length
    have hkey0 : ∀ i, i < st.states.size →
        (DSt.key ⟨st.labeled ++ [(S, st.states.size)], st.states.push ⟨S.contains (N.size - 1), []⟩⟩ i) = st.key i := by
      intro i hi
      unfold DSt.key
      simp only
      rw [List.getElem?_append_left (by omega)]
    have hkeyS : (DSt.key ⟨st.labeled ++ [(S, st.states.size)], st.states.push ⟨S.contains (N.size - 1), []⟩⟩
        st.states.size) = S := by
      unfold DSt.key
      simp only
      rw [List.getElem?_append_right (by omega)]
      simp [hlen]
    have hinv0 : DInv N ⟨st.labeled ++ [(S, st.states.size)], st.states.push ⟨S.contains (N.size - 1), []⟩⟩ := by
      refine ⟨?_, ?_⟩
      · simp only [List.map_append, List.map_cons, List.map_nil, Array.size_push, List.range_succ, hinv.idx]
      · intro i s hs
        simp only [Array.getElem?_push] at hs
        by_cases hi : i = st.states.size
        · subst hi
          rw [if_pos rfl] at hs
          cases hs
          rw [hkeyS]
        · rw [if_neg hi] at hs
          have hi' : i < st.states.size := (Array.getElem?_eq_some_iff.1 hs).1
          rw [hkey0 i hi']
          exact hinv.valid i s hs
    have hrem0 : remaining U (DSt.keys ⟨st.labeled ++ [(S, st.states.size)],
        st.states.push ⟨S.contains (N.size - 1), []⟩⟩) ≤ fuel := by
      have h1 := remaining_cons_lt U hS hnot
      have h2 : remaining U (DSt.keys ⟨st.labeled ++ [(S, st.states.size)],
          st.states.push ⟨S.contains (N.size - 1), []⟩⟩) ≤ remaining U (S :: st.keys) := by
        apply remaining_mono
        intro k hk
        unfold DSt.keys
        simp only [List.map_append, List.map_cons, List.map_nil, List.mem_append, List.mem_singleton]
        rcases List.mem_cons.1 hk with rfl | hk
        · exact Or.inr rfl
        · exact Or.inl hk
      omega
    have hps : ∀ p, p ∈ stepOut N S → p.2.Nodup ∧ ∀ m, m ∈ p.2 → m < N.size := by
      intro p hp
      refine ⟨hout.nodup p hp, fun m hm => ?_⟩
      exact succRel_lt hN ((hrel p.1 m).1 ⟨p.2, hp, hm⟩)
    have hloop := explore_loop N U hU fuel st.states.size _ ih (stepOut N S) [] [] _ hps
      ⟨hinv0, DExt.refl _, hrem0, fun i h1 h2 => by simp only [Array.size_push] at h2; omega, List.Forall₂.nil⟩
    simp only [List.nil_append] at hloop
    generalize (stepOut N S).foldl (expStep N fuel)
      ([], ⟨st.labeled ++ [(S, st.states.size)], st.states.push ⟨S.contains (N.size - 1), []⟩⟩) = r at hloop
    obtain ⟨acc, cur⟩ := r
    simp only at hloop ⊢
    have hsz : st.states.size < cur.states.size := by
      have := hloop.ext.size
      simp only [Array.size_push] at this
      omega
    have hkeycur : ∀ i, i < st.states.size + 1 → cur.key i =
        DSt.key ⟨st.labeled ++ [(S, st.states.size)], st.states.push ⟨S.contains (N.size - 1), []⟩⟩ i :=
      fun i hi => hloop.ext.key hinv0 (by simp only [Array.size_push]; exact hi)
    -- the final state: `cur` with the edges of `S`'s state filled in
    have hkeyfin : ∀ i, DSt.key ⟨cur.labeled, cur.states.modify st.states.size (fun s => { s with edges := acc })⟩ i
        = cur.key i := fun i => rfl
    have hinvF : DInv N ⟨cur.labeled, cur.states.modify st.states.size (fun s => { s with edges := acc })⟩ := by
      refine ⟨by simp only [Array.size_modify]; exact hloop.inv.idx, ?_⟩
      intro i s hs
      rw [hkeyfin]
      simp only [Array.getElem?_modify] at hs
      by_cases hi : st.states.size = i
      · rw [if_pos hi] at hs
        rw [Option.map_eq_some_iff] at hs
        obtain ⟨s0, hs0, rfl⟩ := hs
        exact hloop.inv.valid i s0 hs0
      · rw [if_neg hi] at hs
        exact hloop.inv.valid i s hs
    have hmt : ∀ i, i ≠ st.states.size → ∀ t,
        Dfa.matchType (cur.states.modify st.states.size (fun s => { s with edges := acc })) i t =
          Dfa.matchType cur.states i t := by
      intro i hi t
      apply matchType_congr
      rw [Array.getElem?_modify, if_neg (fun h => hi h.symm)]
    refine ⟨rfl, hinvF, ?_, by simp only [Array.size_modify]; exact hsz, ?_, ?_⟩
    · obtain ⟨l, hl⟩ := hloop.ext.pre
      refine ⟨⟨[(S, st.states.size)] ++ l, by simp only [hl, List.append_assoc]⟩,
        by simp only [Array.size_modify]; omega, ?_⟩
      intro i hi
      simp only
      rw [Array.getElem?_modify, if_neg (by omega), hloop.ext.same i (by simp only [Array.size_push]; omega),
        Array.getElem?_push, if_neg (by omega)]
    · rw [hkeyfin, hkeycur _ (by omega), hkeyS]
    · intro i hi1 hi2
      simp only [Array.size_modify] at hi2
      by_cases hi : i = st.states.size
      · -- the state of `S` itself
        subst hi
        have hedges : Dfa.edgesOf (cur.states.modify st.states.size (fun s => { s with edges := acc }))
            st.states.size = acc := by
          unfold Dfa.edgesOf
          rw [Array.getElem?_modify, if_pos rfl]
          have : cur.states[st.states.size]? ≠ none := by
            rw [ne_eq, Array.getElem?_eq_none_iff]; omega
          cases hc : cur.states[st.states.size]? with
          | none => exact absurd hc this
          | some s0 => simp
        have hlabels : ∀ (out : List (Nat × List Nat)) (acc : List (Nat × Nat)),
            List.Forall₂ (fun (p : Nat × List Nat) (q : Nat × Nat) =>
              q.1 = p.1 ∧ q.2 < cur.states.size ∧ cur.key q.2 = sortDesc p.2) out acc →
            acc.map (·.1) = out.map (·.1) := by
          intro out acc hf
          induction hf with
          | nil => rfl
          | cons hpq _ ih => simp only [List.map_cons, ih, hpq.1]
        refine ⟨fun e he => ?_, ?_, by rw [hedges, hlabels _ _ hloop.edges]; exact hout.terms⟩
        · rw [hedges] at he
          simp only [Array.size_modify]
          have hall : ∀ (out : List (Nat × List Nat)) (acc : List (Nat × Nat)),
              List.Forall₂ (fun (p : Nat × List Nat) (q : Nat × Nat) =>
                q.1 = p.1 ∧ q.2 < cur.states.size ∧ cur.key q.2 = sortDesc p.2) out acc →
              ∀ q, q ∈ acc → q.2 < cur.states.size := by
            intro out acc hf
            induction hf with
            | nil => intro q hq; simp at hq
            | cons hpq _ ih =>
              intro q hq
              rcases List.mem_cons.1 hq with rfl | hq
              · exact hpq.2.1
              · exact ih q hq
          exact hall _ _ hloop.edges e he
        intro t
        have hmtS : Dfa.matchType (cur.states.modify st.states.size (fun s => { s with edges := acc }))
            st.states.size t = (acc.find? (fun q => q.1 == t)).map (·.2) := by
          unfold Dfa.matchType Dfa.edgesOf
          rw [Array.getElem?_modify, if_pos rfl]
          have : cur.states[st.states.size]? ≠ none := by
            rw [ne_eq, Array.getElem?_eq_none_iff]; omega
          cases hc : cur.states[st.states.size]? with
          | none => exact absurd hc this
          | some s0 => simp
        rw [hmtS, hkeyfin, hkeycur _ (by omega), hkeyS]
        have hf := forall₂_find (R := fun p q => q.2 < cur.states.size ∧ cur.key q.2 = sortDesc p.2)
          hloop.edges t
        cases hfind : acc.find? (fun q => q.1 == t) with
        | none =>
          rw [hfind] at hf
          simp only [Option.map_none]
          intro m hm
          obtain ⟨set, hset, _⟩ := (hrel t m).2 hm
          exact hf (t, set) hset rfl
        | some q =>
          rw [hfind] at hf
          simp only [Option.map_some, Array.size_modify]
          obtain ⟨p, hp, hpt, _, hq2, hqk⟩ := hf
          refine ⟨hq2, ?_, ?_⟩
          · intro m
            rw [hkeyfin, hqk, mem_sortDesc, ← hrel]
            constructor
            · intro hm; exact ⟨p.2, by rw [← hpt]; exact hp, hm⟩
            · rintro ⟨set, hset, hm⟩
              have : set = p.2 := outInv_unique hout hset (by rw [← hpt]; exact hp)
              rw [← this]; exact hm
          · rw [hkeyfin, hqk]
            intro hnil
            have hne := hout.ne p hp
            cases hp2 : p.2 with
            | nil => exact hne hp2
            | cons a l =>
              have : a ∈ sortDesc p.2 := (mem_sortDesc _ _).2 (by rw [hp2]; simp)
              rw [hnil] at this
              simp at this
      · have hg := hloop.good i (by omega) hi2
        have hedges' : Dfa.edgesOf (cur.states.modify st.states.size (fun s => { s with edges := acc })) i =
            Dfa.edgesOf cur.states i := by
          unfold Dfa.edgesOf
          rw [Array.getElem?_modify, if_neg (fun h => hi h.symm)]
        refine ⟨fun e he => ?_, ?_, by rw [hedges']; exact hg.2.2⟩
        · have : Dfa.edgesOf (cur.states.modify st.states.size (fun s => { s with edges := acc })) i =
              Dfa.edgesOf cur.states i := by
            unfold Dfa.edgesOf
            rw [Array.getElem?_modify, if_neg (fun h => hi h.symm)]
          rw [this] at he
          simp only [Array.size_modify]
          exact hg.1 e he
        intro t
        have := hg.2.1 t
        rw [hmt i hi t]
        simp only [hkeyfin, Array.size_modify]
        exact this

/-! ### running the compiled automaton -/

/-- the set of NFA nodes after reading `w` from the set `S` (one letter edge, then `null_from`) -/
def RunSet (N : Nfa) : (Nat → Prop) → List Nat → Nat → Prop
  | S, [] => S
  | S, t :: w =>
    RunSet N (fun m => ∃ n, S n ∧ ∃ e, e ∈ N.getD n [] ∧ e.1 = some t ∧ m ∈ nullFrom N e.2) w

theorem RunSet.congr (N : Nfa) {S S' : Nat → Prop} (h : ∀ m, S m ↔ S' m) (w : List Nat) (m : Nat) :
    RunSet N S w m ↔ RunSet N S' w m := by
  induction w generalizing S S' with
  | nil => exact h m
  | cons t w ih =>
    unfold RunSet
    apply ih
    intro m'
    constructor
    · rintro ⟨n, hn, rest⟩; exact ⟨n, (h n).1 hn, rest⟩
    · rintro ⟨n, hn, rest⟩; exact ⟨n, (h n).2 hn, rest⟩

theorem RunSet.empty (N : Nfa) {S : Nat → Prop} (h : ∀ m, ¬ S m) (w : List Nat) (m : Nat) : ¬ RunSet N S w m := by
  induction w generalizing S with
  | nil => exact h m
  | cons t w ih =>
    unfold RunSet
    apply ih
    rintro m' ⟨n, hn, _⟩
    exact h n hn

theorem run_spec (N : Nfa) (st : DSt) (hall : ∀ i, i < st.states.size → Good N st i) (w : List Nat) :
    ∀ i, i < st.states.size → st.key i ≠ [] →
      match Dfa.run st.states i w with
      | some q => q < st.states.size ∧ st.key q ≠ [] ∧ ∀ m, m ∈ st.key q ↔ RunSet N (fun m => m ∈ st.key i) w m
      | none => ∀ m, ¬ RunSet N (fun m => m ∈ st.key i) w m := by
  induction w with
  | nil => intro i hi hne; exact ⟨hi, hne, fun m => Iff.rfl⟩
  | cons t w ih =>
    intro i hi hne
    unfold Dfa.run RunSet
    have hg := (hall i hi).2.1 t
    cases hm : Dfa.matchType st.states i t with
    | none =>
      rw [hm] at hg
      simp only at hg ⊢
      exact fun m => RunSet.empty N hg w m
    | some j =>
      rw [hm] at hg
      simp only at hg ⊢
      obtain ⟨hj, hmem, hjne⟩ := hg
      have := ih j hj hjne
      cases hr : Dfa.run st.states j w with
      | none =>
        rw [hr] at this
        simp only at this ⊢
        intro m hrun
        exact this m ((RunSet.congr N (fun m' => (hmem m').symm) w m).1 hrun)
      | some q =>
        rw [hr] at this
        simp only at this ⊢
        obtain ⟨hq, hqne, hqmem⟩ := this
        refine ⟨hq, hqne, fun m => ?_⟩
        rw [hqmem m]
        exact RunSet.congr N hmem w m

/-- what `dfa(nfa)` returns -/
theorem dfa_spec (N : Nfa) (hN : N.WF) :
    ∃ st : DSt, dfa N = st.states ∧ DInv N st ∧ 0 < st.states.size ∧ st.key 0 = nullFrom N 0 ∧
      ∀ i, i < st.states.size → Good N st i := by
  have hU : ∀ l, Canon N.size l → l ∈ keyUniverse N.size (nullFrom N 0) := fun l h => canon_mem_universe _ _ _ h
  have hinv0 : DInv N ⟨[], #[]⟩ := ⟨by simp, by intro i s hs; simp at hs⟩
  have hrem : remaining (keyUniverse N.size (nullFrom N 0)) (DSt.keys ⟨[], #[]⟩) ≤ exploreFuel N := by
    have := List.countP_le_length (p := fun k => !(DSt.keys ⟨[], #[]⟩).contains k)
      (l := keyUniverse N.size (nullFrom N 0))
    rw [length_keyUniverse] at this
    unfold remaining exploreFuel
    omega
  have sp := exploreSt_spec N hN _ hU (exploreFuel N) (nullFrom N 0) ⟨[], #[]⟩ hinv0 hrem
    (by simp [keyUniverse]) (by simp [DSt.keys])
  refine ⟨(exploreSt N (exploreFuel N) (nullFrom N 0) ⟨[], #[]⟩).2, rfl, sp.inv, ?_, ?_, ?_⟩
  · have := sp.lt; simp only [Array.size_empty] at this; exact this
  · have := sp.key; simpa using this
  · intro i hi; exact sp.good i (by simp) hi

theorem dfa_validEnd (N : Nfa) (st : DSt) (hinv : DInv N st) (q : Nat) (hq : q < st.states.size) :
    Dfa.validEnd st.states q = (st.key q).contains (N.size - 1) := by
  unfold Dfa.validEnd
  cases hs : st.states[q]? with
  | none => rw [Array.getElem?_eq_none_iff] at hs; omega
  | some s => exact hinv.valid q s hs

/-- the compiled automaton is well formed: it has a start state and its edges lead to states -/
theorem dfa_edges_lt (N : Nfa) (hN : N.WF) :
    0 < (dfa N).size ∧ ∀ q e, e ∈ (dfa N).edgesOf q → e.2 < (dfa N).size := by
  obtain ⟨st, hd, _, h0, _, hall⟩ := dfa_spec N hN
  rw [hd]
  refine ⟨h0, fun q e he => ?_⟩
  by_cases hq : q < st.states.size
  · exact (hall q hq).1 e he
  · unfold Dfa.edgesOf at he
    rw [Array.getElem?_eq_none_iff.2 (by omega)] at he
    simp at he

/-- the compiled automaton is deterministic: no state has two edges with the same label (`explore` keeps one
    entry of `out` per term) -/
theorem dfa_det (N : Nfa) (hN : N.WF) (q : Nat) : (((dfa N).edgesOf q).map (·.1)).Nodup := by
  obtain ⟨st, hd, _, _, _, hall⟩ := dfa_spec N hN
  rw [hd]
  by_cases hq : q < st.states.size
  · exact (hall q hq).2.2
  · unfold Dfa.edgesOf
    rw [Array.getElem?_eq_none_iff.2 (by omega)]
    simp

/-- every edge of the compiled automaton carries the term of some NFA edge -/
theorem dfa_label (N : Nfa) (hN : N.WF) (q : Nat) (e : TypeId × Nat) (he : e ∈ (dfa N).edgesOf q) :
    ∃ n ed, ed ∈ N.getD n [] ∧ ed.1 = some e.1 := by
  obtain ⟨st, hd, _, _, _, hall⟩ := dfa_spec N hN
  rw [hd] at he
  by_cases hq : q < st.states.size
  · have hg := (hall q hq).2.1 e.1
    have hsome : (Dfa.matchType st.states q e.1).isSome = true := by
      unfold Dfa.matchType
      rw [Option.isSome_map, List.find?_isSome]
      exact ⟨e, he, by simp⟩
    cases hm : Dfa.matchType st.states q e.1 with
    | none => rw [hm] at hsome; simp at hsome
    | some j =>
      rw [hm] at hg
      simp only at hg
      obtain ⟨_, hmem, hne⟩ := hg
      cases hk : st.key j with
      | nil => exact absurd hk hne
      | cons a l =>
        obtain ⟨n, _, ed, hed, hterm, _⟩ := (hmem a).1 (by rw [hk]; simp)
        exact ⟨n, ed, hed, hterm⟩
  · unfold Dfa.edgesOf at he
    rw [Array.getElem?_eq_none_iff.2 (by omega)] at he
    simp at he

/-- **stage 3**: the compiled automaton simulates the NFA: after `w` it is in a state exactly when some
    (non-pass-through) NFA node is reached on `w`, and that state is a valid end exactly when the accepting
    node (the last one) is reached -/
theorem dfa_simulates (N : Nfa) (hN : N.WF) (hstart : nullFrom N 0 ≠ []) (w : List Nat) :
    ((dfa N).accepts w = true ↔ RunSet N (fun m => m ∈ nullFrom N 0) w (N.size - 1)) ∧
    (((dfa N).run 0 w).isSome = true ↔ ∃ m, RunSet N (fun m => m ∈ nullFrom N 0) w m) := by
  obtain ⟨st, hd, hinv, h0, hk0, hall⟩ := dfa_spec N hN
  rw [hd]
  have := run_spec N st hall w 0 h0 (by rw [hk0]; exact hstart)
  unfold Dfa.accepts
  rw [hk0] at this
  cases hr : Dfa.run st.states 0 w with
  | none =>
    rw [hr] at this
    simp only at this
    constructor
    · constructor
      · intro h; simp at h
      · intro h; exact absurd h (this _)
    · constructor
      · intro h; simp at h
      · rintro ⟨m, hm⟩; exact absurd hm (this m)
  | some q =>
    rw [hr] at this
    simp only at this
    obtain ⟨hq, hqne, hmem⟩ := this
    constructor
    · simp only
      rw [dfa_validEnd N st hinv q hq, List.contains_eq_mem, decide_eq_true_eq]
      exact hmem _
    · simp only [Option.isSome_some, true_iff]
      cases hkq : st.key q with
      | nil => exact absurd hkq hqne
      | cons a l => exact ⟨a, (hmem a).1 (by rw [hkq]; simp)⟩

end PM
