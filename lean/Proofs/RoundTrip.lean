/-
  Proofs/RoundTrip.lean — the walk over the serializer's own output (mark-free part): every emitted element is
  read back by its rule, every text is left unchanged.
-/
import Proofs.RoundTripCore
import Proofs.DomWalk
namespace PM.RoundTrip
open PM PM.Dom PM.FromDom PM.DomWalk

/-- the state of the walk inside an element read back as a node: `base` = the contexts below, `cx` = the open
    context, `ext` = finished-but-unclosed contexts above it, `c` = the content of `cx` once they are closed -/
structure Inv (S : Schema) (w : WState) (base : List NodeCtx) (cx : NodeCtx) (ext : List NodeCtx) (c : List Node) : Prop where
  nodes : w.st.nodes = base ++ cx :: ext
  open_ : w.st.open_ = base.length
  settles : Settles S cx ext c
  /-- object identities: the contexts below are older than the open one, which is older than any to come -/
  below : ∀ x ∈ base, x.uid < cx.uid
  fresh : cx.uid < w.st.fresh

theorem Inv.top {S : Schema} {w : WState} {base : List NodeCtx} {cx : NodeCtx} {ext : List NodeCtx} {c : List Node}
    (h : Inv S w base cx ext c) : w.top = some cx := by
  unfold WState.top
  rw [h.nodes, h.open_]; exact getElem?_base base cx ext

theorem wsOptionsFor_openLeft (pre : Bool) (pw : WS) (base : Opts) : (wsOptionsFor pre pw base).openLeft = false := by
  unfold wsOptionsFor
  cases pw <;> simp
  split <;> rfl

theorem stylePre_nil (P : Parser) (w : WState) (top : NodeCtx) (h : w.top = some top) :
    stylePre P w [] = .ok (some (w, ⟨[], [], top.uid⟩)) := by
  unfold stylePre
  simp [h, readStyles, emitEach]

theorem stylePost_nil (P : Parser) (w : WState) (u : Nat) : stylePost P w ⟨[], [], u⟩ = .ok w := by
  simp [stylePost, emitEach]

theorem findIdx?_base {α : Type} (p : α → Bool) (pre : List α) (y : α) (rest : List α)
    (h1 : ∀ x ∈ pre, p x = false) (h2 : p y = true) : (pre ++ y :: rest).findIdx? p = some pre.length := by
  induction pre with
  | nil => simp [List.findIdx?_cons, h2]
  | cons a l ih =>
    have ha : p a = false := h1 a List.mem_cons_self
    have := ih (fun x hx => h1 x (List.mem_cons_of_mem _ hx))
    simp [List.findIdx?_cons, ha, this]

/-! ### `enter`, the close of an element, `insert_node` as events of the walk -/

def afterEnter (w : WState) (nodes : List NodeCtx) (open_ : Nat) (e : Event) : WState :=
  { w with st := { w.st with nodes := nodes, open_ := open_, fresh := w.st.fresh + 1 }, log := w.log ++ [e] }

def newCtx (P : Parser) (ty : TypeId) (attrs : Option Attrs) (pw : WS) (opts : Opts) (uid : Nat) : NodeCtx :=
  { NodeCtx.new (some ty) attrs [] [] true (wsOptionsFor (P.wsPre ty) pw opts) with uid := uid }

theorem emit_enter (P : Parser) (w : WState) (base : List NodeCtx) (cx : NodeCtx) (ext : List NodeCtx) (c : List Node)
    (t : TypeId) (q q' : Nat) (ty : TypeId) (attrs : Option Attrs) (pw : WS) (a : Attrs)
    (hi : Inv P.S w base cx ext c) (hp : Plain P.S cx t q) (hpe : cx.pending = [])
    (hm : (P.S.dfa t).matchType q ty = some q') (ha : computeAttrs (P.S.nodeType ty).attrs (attrs.getD []) = .ok a) :
    emit P w (.enter ty attrs pw) = .ok (afterEnter w ((base ++ [{ cx with content := c, mtch := some q' }]) ++
        [newCtx P ty attrs pw cx.opts w.st.fresh]) (base.length + 1) (.enter ty attrs pw), some true) := by
  unfold emit
  simp only [PState.step, enter_plain P.S P.wsPre w.st base cx ext c t q q' ty attrs pw a hi.nodes hi.open_ hp hpe hi.settles hm ha,
    Except.map]
  simp [afterEnter, newCtx]


/-! ### text: a whitespace-normal text is inserted unchanged -/

/-- the test `add_text_node` makes before it drops a leading white space -/
def dropsLead (top : NodeCtx) (prevBr : Bool) : Bool :=
  match top.content.getLast? with
  | none => true
  | some (.text s _) => prevBr || endsWithSpace s
  | some _ => prevBr

theorem textValue_normal (w : WState) (top : NodeCtx) (s : List Nat) (prev : Option (Node × String)) (prevBr : Bool)
    (hok : textOk top.opts prev s = true)
    (hdrop : top.opts.preserveWs = false → startsWithSpace s = true → w.st.open_ = w.st.nodes.length - 1 → dropsLead top prevBr = false) :
    textValue w top s prevBr = s := by
  unfold textOk at hok
  simp only [Bool.and_eq_true] at hok
  obtain ⟨_, hmode⟩ := hok
  unfold textValue
  cases hpw : top.opts.preserveWs with
  | true =>
    simp only [hpw, if_true] at hmode
    simp only [Bool.not_true, Bool.false_eq_true, if_false]
    cases hf : top.opts.full with
    | true => simp only [hf, if_true] at hmode; simpa using hmode
    | false => simp only [hf, Bool.false_eq_true, if_false] at hmode; simpa using hmode
  | false =>
    simp only [hpw, Bool.false_eq_true, if_false, Bool.and_eq_true] at hmode
    have hc : collapseWs s = s := by simpa using hmode.1
    simp only [Bool.not_false, if_true, hc]
    by_cases hsp : startsWithSpace s = true
    · by_cases hop : w.st.open_ = w.st.nodes.length - 1
      · have := hdrop hpw hsp hop
        unfold dropsLead at this
        unfold startsWithSpace at hsp
        simp only [hsp, hop, beq_self_eq_true, Bool.and_self, if_true]
        cases hl : top.content.getLast? with
        | none => rw [hl] at this; simp at this
        | some n =>
          rw [hl] at this
          cases n <;> simp only at this ⊢ <;> simp [this]
      · unfold startsWithSpace at hsp
        have : (w.st.open_ == w.st.nodes.length - 1) = false := by simpa using hop
        simp [hsp, this]
    · unfold startsWithSpace at hsp
      simp only [Bool.not_eq_true] at hsp
      simp [hsp]

theorem addTextNode_normal (P : Parser) (w : WState) (base : List NodeCtx) (cx : NodeCtx) (ext : List NodeCtx) (c : List Node)
    (t : TypeId) (q q' : Nat) (s : List Nat) (prev : Option (Node × String)) (ptag : Option String) (prevBr : Bool)
    (hi : Inv P.S w base cx ext c) (hp : Plain P.S cx t q) (hinl : (P.S.nodeType t).inlineContent = true)
    (hok : textOk cx.opts prev s = true)
    (hdrop : cx.opts.preserveWs = false → startsWithSpace s = true → ext = [] → dropsLead cx prevBr = false)
    (hm : (P.S.dfa t).matchType q P.S.textTy = some q') :
    ∃ w', addTextNode P w (some s) ptag prevBr = .ok w' ∧
      Inv P.S w' base { cx with content := c ++ [.text s []], mtch := some q' } [] (c ++ [.text s []]) ∧
      w'.st.fresh = w.st.fresh := by
  have hne : s.isEmpty = false := by
    unfold textOk at hok; simp only [Bool.and_eq_true] at hok; simpa using hok.1.2
  have hv : textValue w cx s prevBr = s := by
    apply textValue_normal w cx s prev prevBr hok
    intro h1 h2 h3
    apply hdrop h1 h2
    rw [hi.nodes, hi.open_] at h3
    simp at h3
    cases ext with
    | nil => rfl
    | cons x xs => simp at h3
  have hins := insertNode_plain P.S P.wsPre w.st base cx ext c t q q' (.text s []) hi.nodes hi.open_ hp hi.settles hm rfl
  refine ⟨{ w with st := { w.st with nodes := base ++ [{ cx with content := c ++ [.text s []], mtch := some q' }] },
                   log := w.log ++ [.insertNode (.text s [])] }, ?_, ?_, rfl⟩
  · unfold addTextNode
    simp only [hi.top, inlineContext, hp.ty, hinl, Bool.or_true, Bool.true_or, if_true, hv, hne, Bool.false_eq_true, if_false]
    unfold emit' emit
    simp only [PState.step, hins, Except.map]
    simp [hp.ty]
  · exact ⟨rfl, hi.open_, settles_nil _ _, hi.below, hi.fresh⟩

/-! ### the finish of a complete context, the start and the close of an element read back as a node -/


theorem stripTrailingSpace_id (s : List Nat) (h : endsWithSpace s = false) : stripTrailingSpace s = s := by
  unfold stripTrailingSpace
  unfold endsWithSpace at h
  rw [← List.head?_reverse] at h
  cases hr : s.reverse with
  | nil => simp at hr; simp [hr]
  | cons x r =>
    rw [hr] at h
    simp at h
    have : (x :: r).dropWhile isHtmlSpace = x :: r := by simp [List.dropWhile, h]
    rw [this, ← hr, List.reverse_reverse]

theorem stripLast_id (opts : Opts) (content : List Node) (h : lastOk opts content = true) (hp : opts.preserveWs = false) :
    stripLast content = content := by
  unfold lastOk at h
  simp only [hp, Bool.false_or] at h
  unfold stripLast
  cases hl : content.getLast? with
  | none => rfl
  | some n =>
    rw [hl] at h
    cases n with
    | text s m =>
      simp only at h ⊢
      have : endsWithSpace s = false := by simpa using h
      rw [stripTrailingSpace_id s this]
      simp
    | leaf => rfl
    | elem => rfl

/-- the finish of a context whose content is complete and normal gives the node back -/
theorem finishNode_plain (S : Schema) (cx : NodeCtx) (t : TypeId) (q : Nat) (a : Attrs)
    (hm : cx.mtch = some q) (hty : cx.ty = some t) (hv : (S.dfa t).validEnd q = true)
    (ha : computeAttrs (S.nodeType t).attrs (cx.attrs.getD []) = .ok a) (hmk : cx.marks = [])
    (hnl : (S.nodeType t).isLeaf = false) (hlast : lastOk cx.opts cx.content = true) (hnorm : fnorm cx.content = true) :
    cx.finishNode S false t = .ok (.elem t a [] cx.content) := by
  have hc : (if cx.opts.preserveWs then cx.content else stripLast cx.content) = cx.content := by
    cases hp : cx.opts.preserveWs with
    | true => rfl
    | false => simp [stripLast_id cx.opts cx.content hlast hp]
  unfold NodeCtx.finishNode NodeCtx.finishContent
  simp only [hc, fromArray_of_fnorm hnorm, hm, hty, fillNodes_validEnd S _ q hv, fappend, ha, mkNode, hnl, hmk]
  rfl



/-- the start of an element read back as a (non-leaf) node: `enter`, directly below the open context -/
theorem ruleOpen_node (P : Parser) (w : WState) (base : List NodeCtx) (cx : NodeCtx) (ext : List NodeCtx) (c : List Node)
    (t : TypeId) (q q' : Nat) (tc : TypeId) (ra : Option Attrs) (a : Attrs) (tag : String) (r : TagRule)
    (hi : Inv P.S w base cx ext c) (hp : Plain P.S cx t q) (hpe : cx.pending = []) (hr : r.node = some (some tc)) (hnl : (P.S.nodeType tc).isLeaf = false)
    (hm : (P.S.dfa t).matchType q tc = some q') (ha : computeAttrs (P.S.nodeType tc).attrs (ra.getD []) = .ok a) :
    ruleOpen P w tag r ra =
      .ok (afterEnter w ((base ++ [{ cx with content := c, mtch := some q' }]) ++ [newCtx P tc ra r.preserveWs cx.opts w.st.fresh])
             (base.length + 1) (.enter tc ra r.preserveWs), ⟨true, none, false, w.st.fresh⟩) := by
  have htop : (afterEnter w ((base ++ [{ cx with content := c, mtch := some q' }]) ++ [newCtx P tc ra r.preserveWs cx.opts w.st.fresh])
      (base.length + 1) (.enter tc ra r.preserveWs)).top = some (newCtx P tc ra r.preserveWs cx.opts w.st.fresh) := by
    unfold WState.top afterEnter
    have := getElem?_base (base ++ [{ cx with content := c, mtch := some q' }]) (newCtx P tc ra r.preserveWs cx.opts w.st.fresh) []
    simp only [List.length_append, List.length_singleton] at this
    exact this
  unfold ruleOpen ruleFirst
  simp only [hr, hnl, Bool.not_false, if_true, emit_enter P w base cx ext c t q q' tc ra r.preserveWs a hi hp hpe hm ha,
    Option.getD_some, htop]
  rfl

/-- … and the state it leaves satisfies the invariant of the walk one level deeper, with a fresh plain context -/
theorem afterEnter_inv (P : Parser) (w : WState) (base : List NodeCtx) (cx : NodeCtx) (ext : List NodeCtx) (c : List Node)
    (q' : Nat) (tc : TypeId) (ra : Option Attrs) (pw : WS) (e : Event) (hi : Inv P.S w base cx ext c) :
    Inv P.S (afterEnter w ((base ++ [{ cx with content := c, mtch := some q' }]) ++ [newCtx P tc ra pw cx.opts w.st.fresh])
      (base.length + 1) e) (base ++ [{ cx with content := c, mtch := some q' }]) (newCtx P tc ra pw cx.opts w.st.fresh) [] [] ∧
    Plain P.S (newCtx P tc ra pw cx.opts w.st.fresh) tc 0 ∧ (newCtx P tc ra pw cx.opts w.st.fresh).pending = [] := by
  refine ⟨⟨rfl, by simp [afterEnter], settles_nil _ _, ?_, by simp [afterEnter, newCtx]⟩, ?_⟩
  · intro x hx
    simp only [List.mem_append, List.mem_singleton] at hx
    rcases hx with hx | hx
    · exact Nat.lt_trans (hi.below x hx) hi.fresh
    · subst hx; exact hi.fresh
  · refine ⟨⟨rfl, ?_, rfl, ?_, rfl, rfl, ?_⟩, rfl⟩
    · simp [newCtx, NodeCtx.new, wsOptionsFor_openLeft]
    · intro m hm; simp [newCtx, NodeCtx.new] at hm
    · simp [newCtx, NodeCtx.new, wsOptionsFor_openLeft]



/-- the close of an element read back as a node: `sync(start_in)` finds the node's context (by identity) at the open
    depth and steps out of it; the context stays on the stack until the next `close_extra` -/
theorem ruleClose_sync (P : Parser) (w : WState) (pre : List NodeCtx) (N : NodeCtx) (ext : List NodeCtx)
    (hn : w.st.nodes = pre ++ N :: ext) (ho : w.st.open_ = pre.length) (hpre : ∀ x ∈ pre, (x.uid == N.uid) = false) :
    ∃ w', ruleClose P w ⟨true, none, false, N.uid⟩ = .ok w' ∧ w'.st.nodes = w.st.nodes ∧ w'.st.open_ = pre.length - 1 ∧
      w'.st.fresh = w.st.fresh := by
  have hidx : w.idxOf N.uid = some pre.length := by
    unfold WState.idxOf
    rw [hn]
    exact findIdx?_base _ pre N ext hpre (by simp)
  refine ⟨{ w with st := { w.st with open_ := pre.length - 1 },
                   log := w.log ++ [.sync (some pre.length), .setOpen (pre.length - 1)] }, ?_, rfl, rfl, rfl⟩
  unfold ruleClose
  simp only [if_true, emit, emit', PState.step, hidx, PState.sync, ho, Nat.le_refl, Option.getD_some]
  simp [List.append_assoc]


end PM.RoundTrip
