/- Proofs/FitValid.lean — payload validity (`openValid`, Proofs/ReplaceValid.lean) of the slice the Fitter
   emits, for **deletions** (the empty slice: no iteration of the loop, only `close`):
   * fillers are valid nodes without marks (`createAndFillO_valid`, `fillOpt_valid`);
   * during `close` the part of `placed` above the frontier's depth is a single chain of the document's
     nodes (`PureV`), below it hangs a fragment that is valid up to its open sides; `close_frontier_node`
     adds valid fillers inside the node it closes, the re-opened nodes carry valid fillers
     (`openValid_open`), and the final `while` keeps validity (`normalizeOpen_openValid`). -/
import Proofs.FitCoherent
import Proofs.ReplaceValid
import Proofs.PlacementValid
import Proofs.OpGuardSetBlock
namespace PM

/-! ### fillers are valid -/

theorem canonicalMarks_nil_fit (S : Schema) : canonicalMarks S [] = true := by
  simp [canonicalMarks]

theorem createAndFillO_valid (S : Schema) (hdet : DetS S) (hleaf : PM.FromDom.LeafOk S) :
    ∀ (fuel : Nat) (ty : TypeId) (n : Node), createAndFill S fuel ty = some n →
      S.checkNode n = true ∧ n.marks = [] ∧ (∀ s m, n ≠ .text s m)
  | 0, _, _, h => by simp [createAndFill] at h
  | fuel + 1, ty, n, h => by
    unfold createAndFill at h
    split at h
    · simp at h
    · rename_i attrs _
      split at h
      · simp at h
      · rename_i tys htys
        split at h
        · simp at h
        · rename_i kids hkids
          simp only [Option.some.injEq] at h
          subst h
          obtain ⟨_, q1, hrun, hfin⟩ := fillBeforeTypes_sound S (S.dfa ty) (hdet ty) 0 [] true tys htys
          have hacc : (S.dfa ty).accepts tys = true := by
            unfold Dfa.accepts
            rw [hrun]
            simpa [fillFinished, Dfa.run] using hfin
          have htypes := mapM_createAndFill_types S fuel tys kids hkids
          have hkv := mapM_option_forall (createAndFill S fuel)
            (fun b => S.checkNode b = true ∧ b.marks = [] ∧ (∀ s m, b ≠ .text s m))
            (fun a b hb => createAndFillO_valid S hdet hleaf fuel a b hb) tys kids hkids
          unfold Schema.mkNodeO
          split
          · rename_i hl
            refine ⟨?_, rfl, fun s m h => by cases h⟩
            rw [checkNode_leaf, canonicalMarks_nil_fit]
            simp only [Bool.true_and, Schema.validContent, List.all_nil, Bool.and_true]
            exact hleaf ty hl
          · refine ⟨?_, rfl, fun s m h => by cases h⟩
            rw [checkNode_elem, canonicalMarks_nil_fit]
            simp only [Bool.and_true, Bool.and_eq_true, Schema.validContent, htypes, hacc, true_and,
              List.all_eq_true]
            refine ⟨?_, (checkKids_iff S kids).2 (fun k hk => (hkv k hk).1)⟩
            intro k hk
            rw [(hkv k hk).2.1]
            rfl

/-- what `fill_before` hands back as nodes: valid, no marks, no text -/
theorem fillOpt_valid (S : Schema) (hdet : DetS S) (hleaf : PM.FromDom.LeafOk S) (d : Dfa) (q : Nat)
    (after : List TypeId) (toEnd : Bool) (ns : List Node) (h : fillOpt S d q after toEnd = .ok (some ns)) :
    S.checkKids ns = true := by
  have h' := liftRaise_ok h
  unfold fillBeforeNodes at h'
  split at h'
  · simp at h'
  · split at h'
    · simp at h'
    · rename_i tys _ _ r hr
      simp only [Option.some.injEq] at h'
      subst h'
      exact (checkKids_iff S r).2 (fun k hk =>
        (mapM_option_forall (createAndFill S (S.nodes.size + 1)) (fun b => S.checkNode b = true)
          (fun a b hb => (createAndFillO_valid S hdet hleaf _ a b hb).1) tys r hr k hk))

/-! ### a single chain of nodes with canonical marks down to a fragment -/

def PureV (S : Schema) : Nat → List Node → List Node → Prop
  | 0, c, G => c = G
  | d + 1, c, G => ∃ t a m k, c = [.elem t a m k] ∧ canonicalMarks S m = true ∧ PureV S d k G

/-- adding at a depth below the chain is adding inside the fragment the chain leads to -/
theorem addToFragment_pure (S : Schema) : ∀ (d j : Nat) (c G X r : List Node), PureV S d c G →
    addToFragment c (d + j) X = .ok r → ∃ G', addToFragment G j X = .ok G' ∧ PureV S d r G'
  | 0, j, c, G, X, r, hp, h => by
    cases hp
    exact ⟨r, by simpa using h, rfl⟩
  | d + 1, j, c, G, X, r, ⟨t, a, m, k, hc, hm, hk⟩, h => by
    subst hc
    rw [show d + 1 + j = (d + j) + 1 by omega] at h
    unfold addToFragment at h
    simp only [List.getLast?_singleton] at h
    obtain ⟨inner, hi, h⟩ := FM.bind_ok h
    have := pure_ok h
    subst this
    obtain ⟨G', hG, hp'⟩ := addToFragment_pure S d j k G X inner hk hi
    exact ⟨G', hG, t, a, m, inner, by simp, hm, hp'⟩

/-- validity of the whole from validity of the fragment the chain leads to -/
theorem PureV_openValid (S : Schema) : ∀ (d x y : Nat) (c G : List Node), PureV S d c G →
    openValid S x y G = true → openValid S (d + x) (d + y) c = true
  | 0, x, y, c, G, hp, h => by
    cases hp
    simpa using h
  | d + 1, x, y, c, G, ⟨t, a, m, k, hc, hm, hk⟩, h => by
    subst hc
    have ih := PureV_openValid S d x y k G hk h
    rw [show d + 1 + x = (d + x) + 1 by omega, show d + 1 + y = (d + y) + 1 by omega]
    simp only [openValid, hm, ih, Bool.and_self]

/-- closing the deepest level of the chain: the chain gets shorter, the fragment it leads to is the
    closed node alone -/
theorem PureV_unsnoc (S : Schema) : ∀ (d : Nat) (c G : List Node), PureV S (d + 1) c G →
    ∃ t a m, PureV S d c [.elem t a m G] ∧ canonicalMarks S m = true
  | 0, c, G, ⟨t, a, m, k, hc, hm, hk⟩ => by
    cases hk
    exact ⟨t, a, m, hc, hm⟩
  | d + 1, c, G, ⟨t, a, m, k, hc, hm, hk⟩ => by
    obtain ⟨t', a', m', hp, hm'⟩ := PureV_unsnoc S d k G hk
    exact ⟨t', a', m', ⟨t, a, m, k, hc, hm, hp⟩, hm'⟩

/-- appending valid nodes behind a fragment that is valid up to its open start -/
theorem leftOpenValid_fappend (S : Schema) (x : Nat) (G X : List Node) (h : leftOpenValid S x G = true)
    (hX : S.checkKids X = true) : leftOpenValid S x (fappend G X) = true := by
  cases x with
  | zero =>
    simp only [leftOpenValid] at h ⊢
    exact fappend_checkKids S G X h hX
  | succ x =>
    cases G with
    | nil => simp [leftOpenValid] at h
    | cons n rest =>
      cases n with
      | elem t a m k =>
        simp only [leftOpenValid, Bool.and_eq_true] at h
        obtain ⟨tl', e1, e2⟩ := fappend_cons_elem_fit t a m k rest X
        rw [e1, e2]
        simp only [leftOpenValid, Bool.and_eq_true]
        exact ⟨h.1, fappend_checkKids S rest X h.2 hX⟩
      | text s m => simp [leftOpenValid] at h
      | leaf t a m => simp [leftOpenValid] at h

/-- **`close_frontier_node` on the chain**: the node it closes (the deepest of the chain, `x` levels of
    the document's start spine still below it) receives valid fillers and becomes the fragment the
    shorter chain leads to — valid up to its open start -/
theorem closeFrontierNode_pureV (S : Schema) (hdet : DetS S) (hleaf : PM.FromDom.LeafOk S) (fr : List FItem)
    (placed : List Node) (b x : Nat) (G : List Node) (hlen : fr.length = b + 2)
    (hp : PureV S (b + 1) placed G) (hG : leftOpenValid S x G = true)
    (r : List FItem × List Node) (h : closeFrontierNode S fr placed = .ok r) :
    r.1.length = b + 1 ∧ ∃ G', PureV S b r.2 G' ∧ leftOpenValid S (x + 1) G' = true := by
  unfold closeFrontierNode at h
  split at h
  · simp [throw, throwThe, MonadExceptOf.throw] at h
  · obtain ⟨q, _, h⟩ := FM.bind_ok h
    obtain ⟨add, hadd, h⟩ := FM.bind_ok h
    have hfin : ∀ (p : List Node) (G2 : List Node), PureV S (b + 1) p G2 → leftOpenValid S x G2 = true →
        ∃ G', PureV S b p G' ∧ leftOpenValid S (x + 1) G' = true := by
      intro p G2 hp2 hG2
      obtain ⟨t, a, m, hp3, hm⟩ := PureV_unsnoc S b p G2 hp2
      exact ⟨_, hp3, by simp [leftOpenValid, hm, hG2]⟩
    have hl : fr.dropLast.length = b + 1 := by rw [List.length_dropLast, hlen]; rfl
    cases add with
    | none =>
      have := pure_ok h
      subst this
      exact ⟨hl, hfin placed G hp hG⟩
    | some a =>
      simp only at h
      split at h
      · have := pure_ok h
        subst this
        exact ⟨hl, hfin placed G hp hG⟩
      · obtain ⟨p, hp', h⟩ := FM.bind_ok h
        have := pure_ok h
        subst this
        rw [hl] at hp'
        obtain ⟨G', hG', hpp⟩ := addToFragment_pure S (b + 1) 0 placed G a p hp (by simpa using hp')
        have e : G' = fappend G a := (pure_ok hG').symm
        subst e
        exact ⟨hl, hfin p _ hpp (leftOpenValid_fappend S x G a hG (fillOpt_valid S hdet hleaf _ _ _ _ a hadd))⟩

/-- the final `while` of `fit` keeps payload validity -/
theorem normalizeOpen_openValid (S : Schema) : ∀ (n : Nat) (c : List Node) (os oe : Nat),
    openValid S os oe c = true →
    openValid S (normalizeOpen n c os oe).2.1 (normalizeOpen n c os oe).2.2 (normalizeOpen n c os oe).1 = true
  | 0, c, os, oe, h => h
  | n + 1, c, os, oe, h => by
    unfold normalizeOpen
    split
    · rename_i only
      split
      · rename_i hc
        simp only [bne_iff_ne, ne_eq, Bool.and_eq_true] at hc
        obtain ⟨os', rfl⟩ : ∃ os', os = os' + 1 := ⟨os - 1, by omega⟩
        obtain ⟨oe', rfl⟩ : ∃ oe', oe = oe' + 1 := ⟨oe - 1, by omega⟩
        cases only with
        | elem t a m k =>
          simp only [openValid, Bool.and_eq_true] at h
          exact normalizeOpen_openValid S n k os' oe' h.2
        | text s m => simp [openValid] at h
        | leaf t a m => simp [openValid] at h
      · exact h
    · exact h

/-! ### opening a node with valid content at the open end: `openValid a b → openValid a (b + 1)` -/

theorem rightOpenValid_snoc (S : Schema) (b : Nat) : ∀ (init : List Node) (t : TypeId) (a : Attrs) (m : Marks)
    (k : List Node), rightOpenValid S (b + 1) (init ++ [.elem t a m k]) =
      (S.checkKids init && (canonicalMarks S m && rightOpenValid S b k))
  | [], t, a, m, k => by simp [rightOpenValid]
  | [n], t, a, m, k => by
    simp only [List.cons_append, List.nil_append, rightOpenValid, checkKids_cons, checkKids_nil, Bool.and_true]
  | n :: y :: ys, t, a, m, k => by
    have ih := rightOpenValid_snoc S b (y :: ys) t a m k
    simp only [List.cons_append] at ih ⊢
    simp only [rightOpenValid, checkKids_cons, ih, Bool.and_assoc]

theorem fappend_singleton_elem (frag : List Node) (t : TypeId) (a : Attrs) (m : Marks) (k : List Node) :
    fappend frag [.elem t a m k] = frag ++ [.elem t a m k] := by
  unfold fappend
  simp only
  split
  · rename_i he
    have : frag = [] := by simpa using he
    subst this; rfl
  · rw [addNode_elem]; simp

theorem addToFragment_cons_cons (x y : Node) (ys c r : List Node) (d : Nat)
    (h : addToFragment (x :: y :: ys) (d + 1) c = .ok r) :
    ∃ r', addToFragment (y :: ys) (d + 1) c = .ok r' ∧ r = x :: r' := by
  unfold addToFragment at h ⊢
  rw [List.getLast?_cons_cons] at h
  split at h
  · rename_i t a m kids hl
    obtain ⟨inner, hi, h⟩ := FM.bind_ok h
    have := pure_ok h
    subst this
    refine ⟨(y :: ys).dropLast ++ [.elem t a m inner], ?_, by rw [List.dropLast_cons_cons]; rfl⟩
    simp only [hl, FM.bind_eq hi]
    rfl
  · simp [throw, throwThe, MonadExceptOf.throw] at h

theorem rightOpenValid_open (S : Schema) (ty : TypeId) (at_ : Attrs) (content : List Node)
    (hc : S.checkKids content = true) : ∀ (b : Nat) (frag r : List Node),
    addToFragment frag b [.elem ty at_ [] content] = .ok r → rightOpenValid S b frag = true →
    rightOpenValid S (b + 1) r = true
  | 0, frag, r, h, hv => by
    have := pure_ok h
    subst this
    rw [fappend_singleton_elem, rightOpenValid_snoc]
    simp only [rightOpenValid] at hv ⊢
    simp [hv, canonicalMarks_nil_fit, hc]
  | b + 1, frag, r, h, hv => by
    unfold addToFragment at h
    split at h
    · rename_i t a m kids hl
      obtain ⟨inner, hi, h⟩ := FM.bind_ok h
      have := pure_ok h
      subst this
      obtain ⟨init, rfl⟩ := List.getLast?_eq_some_iff.mp hl
      rw [rightOpenValid_snoc] at hv
      simp only [Bool.and_eq_true] at hv
      have ih := rightOpenValid_open S ty at_ content hc b kids inner hi hv.2.2
      simp only [List.dropLast_concat]
      rw [rightOpenValid_snoc]
      simp [hv.1, hv.2.1, ih]
    · simp [throw, throwThe, MonadExceptOf.throw] at h

/-- **re-opening a node at the open end** (`open_frontier_node` with valid filler content) keeps payload
    validity, one level deeper on the right -/
theorem openValid_open (S : Schema) (ty : TypeId) (at_ : Attrs) (content : List Node)
    (hc : S.checkKids content = true) : ∀ (b a : Nat) (frag r : List Node),
    addToFragment frag b [.elem ty at_ [] content] = .ok r → openValid S a b frag = true →
    openValid S a (b + 1) r = true
  | b, 0, frag, r, h, hv => by
    simp only [openValid] at hv ⊢
    exact rightOpenValid_open S ty at_ content hc b frag r h hv
  | 0, a + 1, frag, r, h, hv => by
    have := pure_ok h
    subst this
    rw [fappend_singleton_elem]
    simp only [openValid] at hv
    cases frag with
    | nil => simp [leftOpenValid] at hv
    | cons n rest =>
      cases n with
      | elem t a0 m k =>
        simp only [leftOpenValid, Bool.and_eq_true] at hv
        have hr : rightOpenValid S 1 (rest ++ [.elem ty at_ [] content]) = true := by
          rw [rightOpenValid_snoc]
          simp [hv.2, canonicalMarks_nil_fit, rightOpenValid, hc]
        cases rest with
        | nil =>
          simp only [List.nil_append] at hr
          simp only [List.cons_append, List.nil_append, openValid, hv.1.1, hv.1.2, hr, Bool.and_self]
        | cons y ys =>
          simp only [List.cons_append] at hr ⊢
          simp only [openValid, hv.1.1, hv.1.2, hr, Bool.and_self]
      | text s m => simp [leftOpenValid] at hv
      | leaf t a0 m => simp [leftOpenValid] at hv
  | b + 1, a + 1, frag, r, h, hv => by
    cases frag with
    | nil => simp [openValid] at hv
    | cons n rest =>
      cases n with
      | elem t a0 m k =>
        cases rest with
        | nil =>
          unfold addToFragment at h
          simp only [List.getLast?_singleton] at h
          obtain ⟨inner, hi, h⟩ := FM.bind_ok h
          have := pure_ok h
          subst this
          simp only [openValid, Bool.and_eq_true] at hv
          have ih := openValid_open S ty at_ content hc b a k inner hi hv.2
          simp [openValid, hv.1, ih]
        | cons y ys =>
          obtain ⟨r', hr', rfl⟩ := addToFragment_cons_cons _ y ys _ r b h
          simp only [openValid, Bool.and_eq_true] at hv
          have ih := rightOpenValid_open S ty at_ content hc (b + 1) (y :: ys) r' hr' hv.2
          cases r' with
          | nil => simp [rightOpenValid] at ih
          | cons n2 rest2 => simp [openValid, hv.1.1, hv.1.2, ih]
      | text s m => simp [openValid] at hv
      | leaf t a0 m => simp [openValid] at hv

/-! ### `close` for a deletion: closing, the filling of the close level, re-opening -/

theorem contentAfterFitsAt_valid (S : Schema) (hdet : DetS S) (hleaf : PM.FromDom.LeafOk S) (node : Node)
    (index : Nat) (ty : TypeId) (st : Option Nat) (f : List Node)
    (h : contentAfterFitsAt S node index ty st = .ok (some f)) : S.checkKids f = true := by
  unfold contentAfterFitsAt at h
  split at h
  · simp [pure, Except.pure] at h
  · obtain ⟨q, _, h⟩ := FM.bind_ok h
    obtain ⟨fit, hfit, h⟩ := FM.bind_ok h
    cases fit with
    | none => simp [pure, Except.pure] at h
    | some g =>
      simp only at h
      split at h
      · simp [pure, Except.pure] at h
      · have := pure_ok h
        simp only [Option.some.injEq] at this
        subst this
        exact fillOpt_valid S hdet hleaf _ _ _ _ _ hfit

theorem findCloseLevelLoop_fit_valid (S : Schema) (hdet : DetS S) (hleaf : PM.FromDom.LeafOk S) (doc : Node)
    (rt : RPos) (fr : List FItem) : ∀ (n : Nat) (lv : CloseLevel),
    findCloseLevelLoop S doc rt fr n = .ok (some lv) → S.checkKids lv.fit = true
  | 0, lv, h => by simp [findCloseLevelLoop, pure, Except.pure] at h
  | i + 1, lv, h => by
    unfold findCloseLevelLoop at h
    obtain ⟨it, _, h⟩ := FM.bind_ok h
    simp only at h
    obtain ⟨r, hr, h⟩ := FM.bind_ok h
    cases r with
    | none => exact findCloseLevelLoop_fit_valid S hdet hleaf doc rt fr i lv h
    | some fit =>
      simp only at h
      obtain ⟨b, _, h⟩ := FM.bind_ok h
      cases b with
      | false => exact findCloseLevelLoop_fit_valid S hdet hleaf doc rt fr i lv h
      | true =>
        simp only [if_true] at h
        obtain ⟨mv, _, h⟩ := FM.bind_ok h
        have := pure_ok h
        simp only [Option.some.injEq] at this
        subst this
        unfold contentAfterFits at hr
        by_cases hd : rt.depth < i
        · simp [hd, throw, throwThe, MonadExceptOf.throw] at hr
        · rw [if_neg hd] at hr
          exact contentAfterFitsAt_valid S hdet hleaf _ _ _ _ fit hr

/-- `n` times `close_frontier_node` on the chain -/
theorem closeMany_pureV (S : Schema) (hdet : DetS S) (hleaf : PM.FromDom.LeafOk S) : ∀ (n : Nat) (fr : List FItem)
    (placed : List Node) (b x : Nat) (G : List Node), fr.length = b + 1 → n ≤ b → PureV S b placed G →
    leftOpenValid S x G = true → ∀ (r : List FItem × List Node), closeMany S n fr placed = .ok r →
    r.1.length = b - n + 1 ∧ ∃ G', PureV S (b - n) r.2 G' ∧ leftOpenValid S (x + n) G' = true
  | 0, fr, placed, b, x, G, hl, _, hp, hG, r, h => by
    have := pure_ok h
    subst this
    exact ⟨by simpa using hl, G, by simpa using hp, by simpa using hG⟩
  | n + 1, fr, placed, b, x, G, hl, hn, hp, hG, r, h => by
    unfold closeMany at h
    obtain ⟨y, hy, h⟩ := FM.bind_ok h
    obtain ⟨b', rfl⟩ : ∃ b', b = b' + 1 := ⟨b - 1, by omega⟩
    obtain ⟨hl1, G1, hp1, hG1⟩ := closeFrontierNode_pureV S hdet hleaf fr placed b' x G (by omega) hp hG y hy
    obtain ⟨hl2, G2, hp2, hG2⟩ := closeMany_pureV S hdet hleaf n y.1 y.2 b' (x + 1) G1 hl1 (by omega) hp1 hG1 r h
    refine ⟨by omega, G2, ?_, ?_⟩
    · rw [show b' + 1 - (n + 1) = b' - n by omega]; exact hp2
    · rw [show x + (n + 1) = x + 1 + n by omega]; exact hG2

/-- the re-opening loop of `close`: every re-opened node carries valid fillers -/
theorem reopen_pureV (S : Schema) (hdet : DetS S) (hleaf : PM.FromDom.LeafOk S) {doc : Node} {p : Nat} {mv : RPos}
    (hmv : doc.resolve p = some mv) (hattrs : S.nodeAttrsOK doc = true) : ∀ (n d : Nat) (fr : List FItem)
    (placed : List Node) (bb j x : Nat) (G : List Node), fr.length = bb + j + 1 → PureV S bb placed G →
    openValid S x j G = true → 1 ≤ d → (∀ k, d ≤ k → k < d + n → k ≤ mv.depth) →
    ∀ (r : List FItem × List Node), reopen S mv n d fr placed = .ok r →
    ∃ G', PureV S bb r.2 G' ∧ openValid S x (j + n) G' = true
  | 0, d, fr, placed, bb, j, x, G, _, hp, hG, _, _, r, h => by
    have := pure_ok h
    subst this
    exact ⟨G, hp, by simpa using hG⟩
  | n + 1, d, fr, placed, bb, j, x, G, hl, hp, hG, hd, hrange, r, h => by
    have R := resolve_resolved hmv
    have hdle : d ≤ mv.depth := hrange d (Nat.le_refl _) (by omega)
    obtain ⟨t, a, m, ks, hn⟩ := resolve_node_isElem hmv d hd hdle
    have hok := R.node_attrsOK hattrs d hdle
    rw [hn] at hok
    obtain ⟨h1, h2, a', h3⟩ := nodeAttrsOK_elem hok
    unfold reopen at h
    simp only [hn, Schema.tyOf, Node.tyOr, Node.kids, Node.attrs] at h
    obtain ⟨add, hadd, h⟩ := FM.bind_ok h
    obtain ⟨y, hy, h⟩ := FM.bind_ok h
    have hcontent : S.checkKids (add.getD []) = true := by
      cases add with
      | none => simp
      | some ns => exact fillOpt_valid S hdet hleaf _ _ _ _ ns hadd
    -- the node that is opened
    unfold openFrontierNode at hy
    obtain ⟨top, _, hy⟩ := FM.bind_ok hy
    obtain ⟨q, _, hy⟩ := FM.bind_ok hy
    obtain ⟨node, hnode, hy⟩ := FM.bind_ok hy
    obtain ⟨p', hp', hy⟩ := FM.bind_ok hy
    have := pure_ok hy
    subst this
    have hnode' : node = .elem t a' [] (add.getD []) := by
      rw [createNodeO_ok S t a (add.getD []) h1 a' h3] at hnode
      simp only [Except.ok.injEq] at hnode
      rw [← hnode]
      unfold Schema.mkNodeO; simp [h2]
    subst hnode'
    rw [show fr.length - 1 = bb + j by omega] at hp'
    obtain ⟨G1, hG1, hp1⟩ := addToFragment_pure S bb j placed G _ p' hp hp'
    have hv1 := openValid_open S t a' (add.getD []) hcontent j x G G1 hG1 hG
    obtain ⟨G2, hp2, hv2⟩ := reopen_pureV S hdet hleaf hmv hattrs n (d + 1) _ p' bb (j + 1) x G1
      (by simp; omega) hp1 hv1 (by omega) (fun k h1 h2 => hrange k (by omega) (by omega)) r h
    exact ⟨G2, hp2, by rw [show j + (n + 1) = j + 1 + n by omega]; exact hv2⟩

/-- lowering the open end along the chain: fewer levels open on the right is still valid when the start
    spine covers them -/
theorem PureV_lower (S : Schema) : ∀ (d x b : Nat) (c G : List Node), PureV S d c G →
    leftOpenValid S x G = true → b ≤ d → openValid S (d + x) b c = true
  | 0, x, b, c, G, hp, hG, hb => by
    cases hp
    have : b = 0 := by omega
    subst this
    simpa [openValid_zero_right] using hG
  | d + 1, x, b, c, G, ⟨t, a, m, k, hc, hm, hk⟩, hG, hb => by
    subst hc
    rw [show d + 1 + x = (d + x) + 1 by omega]
    cases b with
    | zero =>
      have ih := PureV_lower S d x 0 k G hk hG (Nat.zero_le _)
      rw [openValid_zero_right] at ih
      simp [openValid, leftOpenValid, hm, ih]
    | succ b =>
      have ih := PureV_lower S d x b k G hk hG (by omega)
      simp [openValid, hm, ih]

/-- the chain `Fitter.__init__` builds, with the (canonical) marks of the document's nodes -/
theorem nestPlaced_pureV (S : Schema) (rf : RPos) : ∀ (l : List Nat),
    (∀ i ∈ l, ∃ t a m k, rf.node (i + 1) = .elem t a m k ∧ canonicalMarks S m = true) →
    PureV S l.length (nestPlaced rf l) []
  | [], _ => rfl
  | i :: l, h => by
    obtain ⟨t, a, m, k, hn, hm⟩ := h i (by simp)
    have ih := nestPlaced_pureV S rf l (fun j hj => h j (by simp [hj]))
    simp only [nestPlaced, List.foldr_cons, hn, Node.withKids, List.length_cons] at ih ⊢
    exact ⟨t, a, m, _, rfl, hm, ih⟩

/-- **`close` on the untouched chain** (what `Fitter.fit` does for a deletion): the final `placed` is a valid
    payload, open `depth(from)` levels at the start and `depth(close target)` levels at the end -/
theorem closeFit_valid (S : Schema) (hdet : DetS S) (hleaf : PM.FromDom.LeafOk S) {doc : Node} {t : Nat} {rt : RPos}
    (ht : doc.resolve t = some rt) (hattrs : S.nodeAttrsOK doc = true) (fr : List FItem) (placed : List Node)
    (D : Nat) (hl : fr.length = D + 1) (hp : PureV S D placed []) (mv : RPos) (p : List Node)
    (h : closeFit S doc rt fr placed = .ok (some (mv, p))) : openValid S D mv.depth p = true := by
  unfold closeFit at h
  obtain ⟨lvo, hlv, h⟩ := FM.bind_ok h
  cases lvo with
  | none => simp [pure, Except.pure] at h
  | some lv =>
    simp only at h
    have hdep : lv.depth < min (fr.length - 1) rt.depth + 1 := findCloseLevelLoop_depth S doc rt fr _ lv hlv
    have hld : lv.depth ≤ D := by omega
    obtain ⟨c1, hc1, h⟩ := FM.bind_ok h
    obtain ⟨hl1, G1, hp1, hG1⟩ := closeMany_pureV S hdet hleaf (fr.length - 1 - lv.depth) fr placed D 0 [] hl
      (by omega) hp (by simp [leftOpenValid]) c1 hc1
    rw [show D - (fr.length - 1 - lv.depth) = lv.depth by omega] at hl1 hp1
    rw [show 0 + (fr.length - 1 - lv.depth) = D - lv.depth by omega] at hG1
    obtain ⟨pl, hpl, h⟩ := FM.bind_ok h
    have hfit := findCloseLevelLoop_fit_valid S hdet hleaf doc rt fr _ lv hlv
    have hpl' : ∃ G2, PureV S lv.depth pl G2 ∧ leftOpenValid S (D - lv.depth) G2 = true := by
      split at hpl
      · obtain ⟨G2, hG2, hp2⟩ := addToFragment_pure S lv.depth 0 c1.2 G1 lv.fit pl hp1 (by simpa using hpl)
        have e : G2 = fappend G1 lv.fit := (pure_ok hG2).symm
        subst e
        exact ⟨_, hp2, leftOpenValid_fappend S _ G1 lv.fit hG1 hfit⟩
      · have := pure_ok hpl
        subst this
        exact ⟨G1, hp1, hG1⟩
    obtain ⟨G2, hp2, hG2⟩ := hpl'
    obtain ⟨c2, hc2, h⟩ := FM.bind_ok h
    have := pure_ok h
    simp only [Option.some.injEq, Prod.mk.injEq] at this
    obtain ⟨e1, e2⟩ := this
    subst e1; subst e2
    have hmv : ∃ pm, doc.resolve pm = some lv.move := by
      rcases findCloseLevelLoop_move S doc rt fr _ lv hlv with hm | ⟨i, a, _, _, _, hres⟩
      · exact ⟨t, by rw [hm]; exact ht⟩
      · exact ⟨a, hres⟩
    obtain ⟨pm, hpm⟩ := hmv
    obtain ⟨G3, hp3, hG3⟩ := reopen_pureV S hdet hleaf hpm hattrs (lv.move.depth - lv.depth) (lv.depth + 1) c1.1 pl
      lv.depth 0 (D - lv.depth) G2 (by omega) hp2 (by rw [openValid_zero_right]; exact hG2) (by omega)
      (fun k h1 h2 => by omega) c2 hc2
    by_cases hge : lv.depth ≤ lv.move.depth
    · have := PureV_openValid S lv.depth (D - lv.depth) (0 + (lv.move.depth - lv.depth)) c2.2 G3 hp3 hG3
      rw [show lv.depth + (D - lv.depth) = D by omega,
        show lv.depth + (0 + (lv.move.depth - lv.depth)) = lv.move.depth by omega] at this
      exact this
    · rw [show lv.move.depth - lv.depth = 0 by omega] at hG3
      simp only [Nat.add_zero] at hG3
      rw [openValid_zero_right] at hG3
      have := PureV_lower S lv.depth (D - lv.depth) lv.move.depth c2.2 G3 hp3 hG3 (by omega)
      rw [show lv.depth + (D - lv.depth) = D by omega] at this
      exact this

theorem fitInit_pureV (S : Schema) {doc : Node} {f : Nat} {rf : RPos} (hf : doc.resolve f = some rf)
    (hv : S.checkNode doc = true) (sl : Slice) (st0 : FitState) (h : fitInit S rf sl = .ok st0) :
    PureV S rf.depth st0.placed [] := by
  have R := resolve_resolved hf
  unfold fitInit at h
  obtain ⟨fr, _, h⟩ := FM.bind_ok h
  have := pure_ok h
  subst this
  have := nestPlaced_pureV S rf (List.range rf.depth) (by
    intro i hi
    simp only [List.mem_range] at hi
    obtain ⟨t, a, m, k, hn⟩ := resolve_node_isElem hf (i + 1) (by omega) (by omega)
    have hc := R.node_check hv (i + 1) (by omega)
    rw [hn, checkNode_elem] at hc
    simp only [Bool.and_eq_true] at hc
    exact ⟨t, a, m, k, hn, hc.1.2⟩)
  simpa [nestPlaced] using this

/-- the slice of the emitted step, from the final `placed` -/
theorem fitEmit_valid (S : Schema) (rf rt : RPos) (mi : Option Nat) (ps : Int) (to_ : RPos) (placed : List Node)
    (st : Step) (h : fitEmit rf rt mi ps to_ placed = .ok (some st))
    (hv : openValid S rf.depth to_.depth placed = true) :
    ∃ sl', st.sliceOf = some sl' ∧ openValid S sl'.openStart sl'.openEnd sl'.content = true := by
  unfold fitEmit at h
  simp only at h
  have hn := normalizeOpen_openValid S (rf.depth + 1) placed rf.depth to_.depth hv
  cases mi with
  | none =>
    simp only at h
    split at h
    · have := pure_ok h
      simp only [Option.some.injEq] at this
      subst this
      exact ⟨_, rfl, hn⟩
    · simp [pure, Except.pure] at h
  | some p =>
    simp only at h
    split at h
    · simp [throw, throwThe, MonadExceptOf.throw] at h
    · have := pure_ok h
      simp only [Option.some.injEq] at this
      subst this
      exact ⟨_, rfl, hn⟩

/-- **the payload of every step `replace_step` emits for a deletion is valid** -/
theorem replaceStep_empty_valid (S : Schema) (hdet : DetS S) (hleaf : PM.FromDom.LeafOk S) (doc : Node) (f t : Nat)
    (hv : S.checkNode doc = true) (hattrs : S.nodeAttrsOK doc = true) (st : Step)
    (h : replaceStep S doc f t Slice.empty = .ok (some st)) :
    ∃ sl', st.sliceOf = some sl' ∧ openValid S sl'.openStart sl'.openEnd sl'.content = true := by
  unfold replaceStep at h
  split at h
  · simp [pure, Except.pure] at h
  · split at h
    · rename_i rf rt hf ht
      split at h
      · simp [throw, throwThe, MonadExceptOf.throw] at h
      · have := pure_ok h
        simp only [Option.some.injEq] at this
        subst this
        exact ⟨Slice.empty, rfl, by simp [Slice.empty, openValid, rightOpenValid]⟩
      · obtain ⟨st0, h0, hu, _, hlen, _, _⟩ := fitInit_ok S hf hv Slice.empty
        have hp0 := fitInit_pureV S hf hv Slice.empty st0 h0
        unfold fitterFit at h
        rw [FM.bind_eq h0, FM.bind_eq (fitLoop_empty S _ st0 hu)] at h
        obtain ⟨mi, _, h⟩ := FM.bind_ok h
        simp only at h
        obtain ⟨target, htg, h⟩ := FM.bind_ok h
        obtain ⟨c, hc, h⟩ := FM.bind_ok h
        cases c with
        | none => simp [pure, Except.pure] at h
        | some c =>
          simp only at h
          have hpt : ∃ pt, doc.resolve pt = some target := by
            cases mi with
            | none =>
              have := pure_ok htg
              subst this
              exact ⟨t, ht⟩
            | some p => exact ⟨p, liftRaise_ok htg⟩
          obtain ⟨pt, hpt⟩ := hpt
          have hcv := closeFit_valid S hdet hleaf hpt hattrs st0.frontier st0.placed rf.depth hlen hp0 c.1 c.2 hc
          exact fitEmit_valid S rf rt mi _ c.1 c.2 st h hcv
    · simp [throw, throwThe, MonadExceptOf.throw] at h

/-! ### groundwork for placed slices -/

/-- **a node the Fitter opened is accepted when `close_frontier_node` closes it**: at a coherent level above
    the ghost level the match is the state after all children, and `fill_before(…, True)` leads from
    there to a valid end — the children followed by the fillers are accepted by the node's type -/
theorem levelOK_close_accepts (S : Schema) (hdet : DetS S) (hts : TextStableP S) (D g : Nat) (base : List FItem)
    (j : Nat) (it : FItem) (F a : List Node) (q : Nat) (hg : g < j) (hl : LevelOK S D g base j it F)
    (hq : it.st = some q) (hfill : fillOpt S (S.dfa it.ty) q [] true = .ok (some a)) :
    (S.dfa it.ty).accepts (S.types (fappend F a)) = true := by
  obtain ⟨⟨s, q0, h1, h2, h3⟩, _⟩ := hl
  unfold cohStart at h1
  rw [if_neg (by omega)] at h1
  simp only [Option.some.injEq] at h1
  subst h1
  unfold cohKids at h3
  rw [if_neg (by omega)] at h3
  rw [hq] at h2
  simp only [Option.some.injEq] at h2
  subst h2
  have htys := fillBeforeNodes_types S _ _ _ _ a (liftRaise_ok hfill)
  obtain ⟨_, q1, hrun, hfin⟩ := fillBeforeTypes_sound S (S.dfa it.ty) (hdet it.ty) q [] true _ htys
  have hend : (S.dfa it.ty).validEnd q1 = true := by simpa [fillFinished, Dfa.run] using hfin
  have : (S.dfa it.ty).run 0 (S.types (fappend F a)) = some q1 := by
    apply run_fappend_some hts
    rw [Dfa.run_append, h3]
    exact hrun
  unfold Dfa.accepts
  rw [this]
  exact hend

/-- the marks `place_nodes` leaves on a node are allowed by the frontier node's type … -/
theorem allowsMarks_allowedMarks (nt : NodeType) (ms : Marks) : nt.allowsMarks (nt.allowedMarks ms) = true := by
  simp only [NodeType.allowsMarks, NodeType.allowedMarks, List.all_eq_true, List.mem_filter]
  intro m hm
  exact hm.2

theorem canonicalMarks_allowedMarks (S : Schema) (nt : NodeType) (ms : Marks) (h : canonicalMarks S ms = true) :
    canonicalMarks S (nt.allowedMarks ms) = true := by
  rw [canonicalMarks_iff_canonP] at h ⊢
  exact h.sublist List.filter_sublist

/-- … and a valid node stays valid under that filtering -/
theorem checkNode_withMarks_allowed (S : Schema) (nt : NodeType) (n : Node) (h : S.checkNode n = true) :
    S.checkNode (n.withMarks (nt.allowedMarks n.marks)) = true := by
  cases n with
  | text s m =>
    simp only [checkNode_text, Node.withMarks, Node.marks] at h ⊢
    exact canonicalMarks_allowedMarks S nt m h
  | leaf t a m =>
    simp only [checkNode_leaf, Node.withMarks, Node.marks, Bool.and_eq_true] at h ⊢
    exact ⟨canonicalMarks_allowedMarks S nt m h.1, h.2⟩
  | elem t a m k =>
    simp only [checkNode_elem, Node.withMarks, Node.marks, Bool.and_eq_true] at h ⊢
    exact ⟨⟨h.1.1, canonicalMarks_allowedMarks S nt m h.1.2⟩, h.2⟩

end PM
