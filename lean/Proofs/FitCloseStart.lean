/- Proofs/FitCloseStart.lean — groundwork for the general `fit_emits_valid_payload`: **`close_node_start` returns a
   valid node** when it closes the node completely (`open_end ≤ 0`: every taken node but possibly the last).
   The node is open `x + 1` levels at its start; `leftLoose` says what is asked of its content: the children
   behind the start spine are valid, the children's marks are allowed by their parent at every level of the
   spine (true of a slice cut from a valid document; `openValid` alone does not ask it of spine nodes), spine
   nodes carry canonical marks.  `close_node_start` puts a filling in front (`fill_before(content)`), computes the
   match over the result itself and fills to a valid end — so the result is accepted by construction. -/
import Proofs.FitPayload
set_option linter.unusedVariables false
namespace PM

/-- the content `kids` of a node of type `t` that is open `x` levels at its start -/
def leftLoose (S : Schema) : Nat → TypeId → List Node → Prop
  | 0, t, kids => S.checkKids kids = true ∧ MarksOK S t kids
  | x + 1, t, kids =>
    match kids with
    | [] => False
    | c :: rest => MarksOK S t (c :: rest) ∧ S.checkKids rest = true ∧
        (match c with
         | .elem tc _ mc kc => canonicalMarks S mc = true ∧ leftLoose S x tc kc
         | _ => S.checkNode c = true)

theorem closeNodeStart_marks (S : Schema) : ∀ (os : Nat) (node : Node) (oe : Int) (r : Node),
    closeNodeStart S os node oe = .ok r → r.marks = node.marks
  | 0, node, oe, r, h => by
    have := pure_ok h
    subst this; rfl
  | os + 1, node, oe, r, h => by
    unfold closeNodeStart at h
    obtain ⟨frag, _, h⟩ := FM.bind_ok h
    obtain ⟨fill, _, h⟩ := FM.bind_ok h
    obtain ⟨fill', _, h⟩ := FM.bind_ok h
    obtain ⟨tail, _, h⟩ := FM.bind_ok h
    have := pure_ok h
    subst this
    cases node <;> rfl

/-- on a text / leaf node `close_node_start` answers the node itself -/
theorem closeNodeStart_nonelem (S : Schema) (os : Nat) (node : Node) (oe : Int) (r : Node)
    (hne : ∀ t a m k, node ≠ .elem t a m k) (h : closeNodeStart S os node oe = .ok r) : r = node := by
  cases os with
  | zero => exact (pure_ok h).symm
  | succ os =>
    unfold closeNodeStart at h
    obtain ⟨frag, _, h⟩ := FM.bind_ok h
    obtain ⟨fill, _, h⟩ := FM.bind_ok h
    obtain ⟨fill', _, h⟩ := FM.bind_ok h
    obtain ⟨tail, _, h⟩ := FM.bind_ok h
    have := pure_ok h
    subst this
    cases node with
    | elem t a m k => exact absurd rfl (hne t a m k)
    | text s m => rfl
    | leaf t a m => rfl

/-- **`close_node_start` closing completely returns a valid node** -/
theorem closeNodeStart_closed_valid (S : Schema) (hdet : DetS S) (hleaf : PM.FromDom.LeafOk S) (hts : TextStableP S) :
    ∀ (x : Nat) (t : TypeId) (a : Attrs) (m : Marks) (kids : List Node) (oe : Int) (r : Node), oe ≤ 0 →
    canonicalMarks S m = true → leftLoose S x t kids →
    closeNodeStart S (x + 1) (.elem t a m kids) oe = .ok r → S.checkNode r = true := by
  intro x
  induction x with
  | zero =>
    intro t a m kids oe r hoe hm hl h
    obtain ⟨hk, hmk⟩ := hl
    unfold closeNodeStart at h
    simp only [Node.kids, if_true, Schema.tyOf, Node.tyOr] at h
    obtain ⟨frag, hfrag, h⟩ := FM.bind_ok h
    have := pure_ok hfrag
    subst this
    obtain ⟨fill, hfill, h⟩ := FM.bind_ok h
    obtain ⟨fill', hfill', h⟩ := FM.bind_ok h
    have hf := liftRaise_ok hfill'
    rw [hf] at hfill
    obtain ⟨tail, htail, h⟩ := FM.bind_ok h
    have := pure_ok h
    subst this
    rw [if_pos hoe] at htail
    obtain ⟨q, hq, htail⟩ := FM.bind_ok htail
    have hq := liftRaise_ok hq
    obtain ⟨fill2, hfill2, htail⟩ := FM.bind_ok htail
    have ht2 := liftRaise_ok htail
    rw [ht2] at hfill2
    have hn1 := fillOpt_nodes S hdet hleaf _ _ _ _ fill' hfill
    have hn2 := fillOpt_nodes S hdet hleaf _ _ _ _ tail hfill2
    have hv1 : S.checkKids fill' = true := (checkKids_iff S _).2 (fun n hn => (hn1 n hn).1)
    have hv2 : S.checkKids tail = true := (checkKids_iff S _).2 (fun n hn => (hn2 n hn).1)
    have htys := fillBeforeNodes_types S _ _ _ _ tail (liftRaise_ok hfill2)
    obtain ⟨_, q1, hrun1, hfin⟩ := fillBeforeTypes_sound S (S.dfa t) (hdet t) q [] true _ htys
    have hend : (S.dfa t).validEnd q1 = true := by simpa [fillFinished, Dfa.run] using hfin
    simp only [Node.withKids]
    rw [checkNode_elem]
    simp only [Bool.and_eq_true]
    refine ⟨⟨?_, hm⟩, fappend_checkKids S _ _ (fappend_checkKids S _ _ hv1 hk) hv2⟩
    simp only [Schema.validContent, Bool.and_eq_true, List.all_eq_true]
    refine ⟨?_, MarksOK_fappend S t _ _ (MarksOK_fappend S t _ _ (MarksOK_of_nil S _ _ (fun n hn => (hn1 n hn).2)) hmk)
      (MarksOK_of_nil S _ _ (fun n hn => (hn2 n hn).2))⟩
    unfold Dfa.accepts
    rw [run_fappend_some hts t _ tail 0 q1 (by rw [Dfa.run_append, hq]; exact hrun1)]
    exact hend
  | succ x ih =>
    intro t a m kids oe r hoe hm hl h
    cases kids with
    | nil => exact absurd hl (by simp [leftLoose])
    | cons c rest =>
      obtain ⟨hmk, hrest, hc⟩ := hl
      unfold closeNodeStart at h
      simp only [Node.kids, Schema.tyOf, Node.tyOr, Nat.add_one_ne_zero, if_false] at h
      obtain ⟨frag, hfrag, h⟩ := FM.bind_ok h
      obtain ⟨c', hc', hfrag⟩ := FM.bind_ok hfrag
      have := pure_ok hfrag
      subst this
      -- the first child, closed completely
      have hoe' : (if ((c :: rest).length == 1) = true then oe - 1 else 0) ≤ (0 : Int) := by
        split <;> omega
      have hc'v : S.checkNode c' = true := by
        cases c with
        | elem tc ac mc kc =>
          simp only at hc
          exact ih tc ac mc kc _ c' hoe' hc.1 hc.2 hc'
        | text s mm =>
          have := closeNodeStart_nonelem S _ _ _ c' (by intro _ _ _ _ hh; cases hh) hc'
          rw [this]; exact hc
        | leaf tl al ml =>
          have := closeNodeStart_nonelem S _ _ _ c' (by intro _ _ _ _ hh; cases hh) hc'
          rw [this]; exact hc
      have hc'm : c'.marks = c.marks := closeNodeStart_marks S _ _ _ c' hc'
      have hk : S.checkKids (c' :: rest) = true := by simp [hc'v, hrest]
      have hmk' : MarksOK S t (c' :: rest) := by
        intro y hy
        rcases List.mem_cons.mp hy with rfl | hy
        · rw [hc'm]; exact hmk c (by simp)
        · exact hmk y (by simp [hy])
      obtain ⟨fill, hfill, h⟩ := FM.bind_ok h
      obtain ⟨fill', hfill', h⟩ := FM.bind_ok h
      have hf := liftRaise_ok hfill'
      rw [hf] at hfill
      obtain ⟨tail, htail, h⟩ := FM.bind_ok h
      have := pure_ok h
      subst this
      rw [if_pos hoe] at htail
      obtain ⟨q, hq, htail⟩ := FM.bind_ok htail
      have hq := liftRaise_ok hq
      obtain ⟨fill2, hfill2, htail⟩ := FM.bind_ok htail
      have ht2 := liftRaise_ok htail
      rw [ht2] at hfill2
      have hn1 := fillOpt_nodes S hdet hleaf _ _ _ _ fill' hfill
      have hn2 := fillOpt_nodes S hdet hleaf _ _ _ _ tail hfill2
      have hv1 : S.checkKids fill' = true := (checkKids_iff S _).2 (fun n hn => (hn1 n hn).1)
      have hv2 : S.checkKids tail = true := (checkKids_iff S _).2 (fun n hn => (hn2 n hn).1)
      have htys := fillBeforeNodes_types S _ _ _ _ tail (liftRaise_ok hfill2)
      obtain ⟨_, q1, hrun1, hfin⟩ := fillBeforeTypes_sound S (S.dfa t) (hdet t) q [] true _ htys
      have hend : (S.dfa t).validEnd q1 = true := by simpa [fillFinished, Dfa.run] using hfin
      simp only [Node.withKids]
      rw [checkNode_elem]
      simp only [Bool.and_eq_true]
      refine ⟨⟨?_, hm⟩, fappend_checkKids S _ _ (fappend_checkKids S _ _ hv1 hk) hv2⟩
      simp only [Schema.validContent, Bool.and_eq_true, List.all_eq_true]
      refine ⟨?_, MarksOK_fappend S t _ _ (MarksOK_fappend S t _ _ (MarksOK_of_nil S _ _ (fun n hn => (hn1 n hn).2)) hmk')
        (MarksOK_of_nil S _ _ (fun n hn => (hn2 n hn).2))⟩
      unfold Dfa.accepts
      rw [run_fappend_some hts t _ tail 0 q1 (by rw [Dfa.run_append, hq]; exact hrun1)]
      exact hend

end PM
