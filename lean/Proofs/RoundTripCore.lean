/-
  Proofs/RoundTripCore.lean — what the placement core does on the calls the walk makes when it reads back the
  serializer's own output: every node goes directly into the open context (no wrappers, no fillers).
-/
import PM.RoundTrip
import Proofs.Placement
import Proofs.MarkupSuccess
namespace PM.RoundTrip
open PM PM.Dom PM.FromDom PM.DomWalk

/-- a type the automaton accepts here needs no wrapper -/
theorem findWrapping_direct (S : Schema) (d : Dfa) (q : Nat) (ty : TypeId) (q' : Nat)
    (h : d.matchType q ty = some q') : PM.findWrapping S d q ty = some [] := by
  unfold PM.findWrapping
  rw [show S.nodes.size * S.nodes.size + S.nodes.size + 2 = (S.nodes.size * S.nodes.size + S.nodes.size + 1) + 1 from rfl]
  rw [wrapSearch]
  simp [Active.dfa, h]

/-- at a valid end nothing has to be filled in -/
theorem fillBefore_validEnd (d : Dfa) (gen : TypeId → Bool) (q : Nat) (h : d.validEnd q = true) :
    fillBefore d gen q [] true = some [] := by
  unfold fillBefore
  rw [fillSearch]
  simp [Dfa.run, h]

theorem fillNodes_validEnd (S : Schema) (d : Dfa) (q : Nat) (h : d.validEnd q = true) :
    fillNodes S d q [] true = .ok (some []) := by
  unfold fillNodes
  rw [fillBefore_validEnd d _ q h]
  rfl

/-- a context created by `enter` (or the root of `parse`) with nothing pending -/
structure Plain (S : Schema) (cx : NodeCtx) (t : TypeId) (q : Nat) : Prop where
  ty : cx.ty = some t
  mtch : cx.mtch = some q
  solid : cx.solid = true
  /-- pending marks, if any, are marks the context's type does not allow: `apply_pending` leaves them pending -/
  pending : ∀ m ∈ cx.pending, (S.nodeType t).allowsMarkType m.2.ty = false
  active : cx.active = []
  marks : cx.marks = []
  openLeft : cx.opts.openLeft = false

theorem findPlace_direct (S : Schema) (wsPre : TypeId → Bool) (st : PState) (cx : NodeCtx) (t : TypeId) (q q' : Nat)
    (ty : TypeId) (hn : st.nodes[st.open_]? = some cx) (hp : Plain S cx t q)
    (hm : (S.dfa t).matchType q ty = some q') : st.findPlace S wsPre ty = .ok (st, true) := by
  unfold PState.findPlace
  simp only [findPlaceLoop, hn, findWrapping_known S cx t q ty hp.ty hp.mtch,
    findWrapping_direct S (S.dfa t) q ty q' hm, set_getElem?_self _ _ _ hn, hp.solid, if_true]
  simp [enterRoute, Except.map]


/-! ### `close_extra` -/

theorem appendToLast_prefix (A M : List NodeCtx) (n : Node) (hM : M ≠ []) :
    appendToLast (A ++ M) n = A ++ appendToLast M n := by
  unfold appendToLast
  rw [List.getLast?_append]
  cases h : M.getLast? with
  | none => simp [List.getLast?_eq_none_iff] at h; exact absurd h hM
  | some cx => simp [List.dropLast_append_of_ne_nil hM, List.append_assoc]

theorem closeExtraLoop_prefix (S : Schema) (oe : Bool) (A : List NodeCtx) : ∀ (k : Nat) (L : List NodeCtx), k < L.length →
    closeExtraLoop S oe k (A ++ L) = (closeExtraLoop S oe k L).map (A ++ ·)
  | 0, L, _ => by simp [closeExtraLoop, Except.map]
  | k + 1, L, hk => by
    have hL : L ≠ [] := by intro h; subst h; simp at hk
    rw [closeExtraLoop.eq_2 S oe (A ++ L) k, closeExtraLoop.eq_2 S oe L k]
    rw [List.getLast?_append, List.dropLast_append_of_ne_nil hL]
    cases hl : L.getLast? with
    | none => simp [List.getLast?_eq_none_iff] at hl; exact absurd hl hL
    | some cx =>
      simp only [Option.some_or]
      cases cx.ty with
      | none => simp [Except.map]
      | some t =>
        simp only
        cases cx.finishNode S oe t with
        | error e => simp [Except.map]
        | ok n =>
          simp only
          have hd : L.dropLast ≠ [] := by
            intro h
            have : L.dropLast.length = 0 := by rw [h]; rfl
            simp at this; omega
          rw [appendToLast_prefix A _ n hd]
          have hlen : k < (appendToLast L.dropLast n).length := by
            unfold appendToLast
            cases h2 : L.dropLast.getLast? with
            | none => simp [List.getLast?_eq_none_iff] at h2; exact absurd h2 hd
            | some c => simp; have : L.dropLast.length ≥ 1 := List.length_pos_iff.2 hd; simp at this; omega
          exact closeExtraLoop_prefix S oe A k _ hlen

theorem closeExtraLoop_add (S : Schema) (oe : Bool) : ∀ (a b : Nat) (L : List NodeCtx),
    closeExtraLoop S oe (a + b) L = (match closeExtraLoop S oe a L with
      | .error e => .error e
      | .ok L' => closeExtraLoop S oe b L')
  | 0, b, L => by simp [closeExtraLoop]
  | a + 1, b, L => by
    rw [show a + 1 + b = (a + b) + 1 by omega]
    rw [closeExtraLoop.eq_2 S oe L (a + b), closeExtraLoop.eq_2 S oe L a]
    cases L.getLast? with
    | none => rfl
    | some cx =>
      simp only
      cases cx.ty with
      | none => rfl
      | some t =>
        simp only
        cases cx.finishNode S oe t with
        | error e => rfl
        | ok n => simp only; exact closeExtraLoop_add S oe a b _

/-- the contexts above `open` (`ext`, outermost first), finished innermost first into `cx`, leave `cx'` -/
def Settles (S : Schema) (cx : NodeCtx) (ext : List NodeCtx) (c : List Node) : Prop :=
  closeExtraLoop S false ext.length (cx :: ext) = .ok [{ cx with content := c }]

theorem settles_nil (S : Schema) (cx : NodeCtx) : Settles S cx [] cx.content := by
  simp [Settles, closeExtraLoop]

theorem settles_nil_inv (S : Schema) (cx : NodeCtx) (c : List Node) (h : Settles S cx [] c) : c = cx.content := by
  simp [Settles, closeExtraLoop] at h
  rw [h]

theorem closeExtraLoop_one (S : Schema) (cx N1 : NodeCtx) (t : TypeId) (n : Node)
    (ht : N1.ty = some t) (hf : N1.finishNode S false t = .ok n) :
    closeExtraLoop S false 1 [cx, N1] = .ok [{ cx with content := cx.content ++ [n] }] := by
  simp [closeExtraLoop, ht, hf, appendToLast]

theorem settles_cons (S : Schema) (cx N : NodeCtx) (ext : List NodeCtx) (cN : List Node) (t : TypeId) (n : Node)
    (h : Settles S N ext cN) (ht : N.ty = some t) (hf : ({ N with content := cN } : NodeCtx).finishNode S false t = .ok n) :
    Settles S cx (N :: ext) (cx.content ++ [n]) := by
  unfold Settles at h ⊢
  rw [show (N :: ext).length = ext.length + 1 from rfl, closeExtraLoop_add]
  have := closeExtraLoop_prefix S false [cx] ext.length (N :: ext) (by simp)
  simp only [List.singleton_append] at this
  rw [this, h]
  exact closeExtraLoop_one S cx _ t n ht hf

theorem closeExtra_settles (S : Schema) (st : PState) (base : List NodeCtx) (cx : NodeCtx) (c : List Node) (ext : List NodeCtx)
    (hn : st.nodes = base ++ cx :: ext) (ho : st.open_ = base.length) (h : Settles S cx ext c) :
    st.closeExtra S = .ok { st with nodes := base ++ [{ cx with content := c }] } := by
  unfold PState.closeExtra
  rw [hn, ho]
  have hl : (base ++ cx :: ext).length - 1 - base.length = ext.length := by simp
  rw [hl, closeExtraLoop_prefix S false base ext.length (cx :: ext) (by simp), h]
  rfl


/-! ### `insert_node`, `enter` -/

theorem getElem?_base {α : Type} (base : List α) (x : α) (ext : List α) : (base ++ x :: ext)[base.length]? = some x := by
  simp

theorem set_base {α : Type} (base : List α) (x y : α) : (base ++ [x]).set base.length y = base ++ [y] := by
  simp

theorem withMarks_self (n : Node) : n.withMarks n.marks = n := by
  cases n <;> rfl

theorem applyPending_nil (S : Schema) (cx : NodeCtx) (ty : TypeId) (h : cx.pending = []) : cx.applyPending S ty = cx := by
  unfold NodeCtx.applyPending
  rw [h]; rfl

theorem applyPending_fold_inert (S : Schema) (nextTy : TypeId) (t : TypeId) : ∀ (l : List TMark) (cx : NodeCtx),
    cx.ty = some t → (∀ m ∈ l, (S.nodeType t).allowsMarkType m.2.ty = false) →
    l.foldl (fun cx m =>
      let may := match cx.ty with
        | some t => (S.nodeType t).allowsMarkType m.2.ty
        | none => markMayApply S m.2.ty nextTy
      if may && !m.2.isInSet cx.active then
        { cx with active := m.2.addToSet S cx.active, pending := tRemoveFromSet m.2 cx.pending,
                  activeT := tAddToSet S m cx.activeT }
      else cx) cx = cx
  | [], _, _, _ => rfl
  | m :: l, cx, hty, h => by
    have hm := h m List.mem_cons_self
    simp only [List.foldl_cons, hty, hm, Bool.false_and, Bool.false_eq_true, if_false]
    exact applyPending_fold_inert S nextTy t l cx hty (fun x hx => h x (List.mem_cons_of_mem _ hx))

theorem applyPending_inert (S : Schema) (cx : NodeCtx) (ty : TypeId) (t : TypeId) (hty : cx.ty = some t)
    (h : ∀ m ∈ cx.pending, (S.nodeType t).allowsMarkType m.2.ty = false) : cx.applyPending S ty = cx := by
  unfold NodeCtx.applyPending
  exact applyPending_fold_inert S ty t cx.pending cx hty h

theorem Plain.withContent {cx : NodeCtx} {t : TypeId} {q : Nat} (hp : Plain S cx t q) (c : List Node) :
    Plain S { cx with content := c } t q := ⟨hp.ty, hp.mtch, hp.solid, hp.pending, hp.active, hp.marks, hp.openLeft⟩

/-- `insert_node` after `find_place` and `close_extra` -/
def placeTop (S : Schema) (st : PState) (node : Node) : Res (PState × Bool) :=
  match st.nodes[st.open_]? with
  | none => .error .internal
  | some top =>
    let top := top.applyPending S (S.tyOf node)
    let top := match top.mtch, top.ty with
      | some q, some t => { top with mtch := (S.dfa t).matchType q (S.tyOf node) }
      | _, _ => top
    let marks := node.marks.foldl (fun acc m =>
      if (match top.ty with
          | none => true
          | some t => (S.nodeType t).allowsMarkType m.ty) then m.addToSet S acc else acc) top.active
    .ok (st.setTop { top with content := top.content ++ [node.withMarks marks] }, true)

theorem placeTop_plain (S : Schema) (st : PState) (base : List NodeCtx) (cx : NodeCtx)
    (t : TypeId) (q q' : Nat) (node : Node)
    (hn : st.nodes = base ++ [cx]) (ho : st.open_ = base.length) (hp : Plain S cx t q)
    (hm : (S.dfa t).matchType q (S.tyOf node) = some q') (hmk : node.marks = []) :
    placeTop S st node =
      .ok ({ st with nodes := base ++ [{ cx with content := cx.content ++ [node], mtch := some q' }] }, true) := by
  have hx : st.nodes[st.open_]? = some cx := by rw [hn, ho]; exact getElem?_base base cx []
  unfold placeTop
  simp only [hx, applyPending_inert S cx _ t hp.ty hp.pending, hp.mtch, hp.ty, hm, hmk, List.foldl_nil, hp.active]
  have := withMarks_self node
  rw [hmk] at this
  simp only [PState.setTop, ho, hn, set_base, this]

/-- a mark-free node the automaton accepts goes straight into the open context -/
theorem insertNode_plain (S : Schema) (wsPre : TypeId → Bool) (st : PState) (base : List NodeCtx) (cx : NodeCtx)
    (ext : List NodeCtx) (c : List Node) (t : TypeId) (q q' : Nat) (node : Node)
    (hn : st.nodes = base ++ cx :: ext) (ho : st.open_ = base.length) (hp : Plain S cx t q) (hs : Settles S cx ext c)
    (hm : (S.dfa t).matchType q (S.tyOf node) = some q') (hmk : node.marks = []) :
    st.insertNode S wsPre node =
      .ok ({ st with nodes := base ++ [{ cx with content := c ++ [node], mtch := some q' }] }, true) := by
  have hx : st.nodes[st.open_]? = some cx := by rw [hn, ho]; exact getElem?_base base cx ext
  have h1 : st.insertNode S wsPre node = placeTop S { st with nodes := base ++ [{ cx with content := c }] } node := by
    unfold PState.insertNode
    simp only [hx, Option.map_some, Option.getD_some, hp.ty, Option.isNone_some, Bool.and_false, Bool.false_eq_true, if_false,
      findPlace_direct S wsPre st cx t q q' _ hx hp hm, closeExtra_settles S st base cx c ext hn ho hs]
    rfl
  rw [h1]
  exact placeTop_plain S { st with nodes := base ++ [{ cx with content := c }] } base { cx with content := c } t q q' node rfl ho
    (hp.withContent c) hm hmk

/-- `enter_inner` after `close_extra` -/
def pushTop (S : Schema) (wsPre : TypeId → Bool) (st : PState) (ty : TypeId) (attrs : Option Attrs) (solid : Bool) (pw : WS) :
    Res PState :=
  match st.nodes[st.open_]? with
  | none => .error .internal
  | some top =>
    let top := top.applyPending S ty
    let top := match top.mtch, top.ty with
      | some q, some t => { top with mtch := (S.dfa t).matchType q ty }
      | _, _ => top
    let opts := wsOptionsFor (wsPre ty) pw top.opts
    let opts := if top.opts.openLeft && top.content.isEmpty then { opts with openLeft := true } else opts
    let st := st.setTop top
    .ok { st with nodes := st.nodes ++ [{ NodeCtx.new (some ty) attrs top.active top.pending solid opts with uid := st.fresh }],
                  open_ := st.open_ + 1, fresh := st.fresh + 1 }

theorem pushTop_plain (S : Schema) (wsPre : TypeId → Bool) (st : PState) (base : List NodeCtx) (cx : NodeCtx)
    (t : TypeId) (q q' : Nat) (ty : TypeId) (attrs : Option Attrs) (pw : WS)
    (hn : st.nodes = base ++ [cx]) (ho : st.open_ = base.length) (hp : Plain S cx t q) (hpe : cx.pending = [])
    (hm : (S.dfa t).matchType q ty = some q') :
    pushTop S wsPre st ty attrs true pw =
      .ok { st with nodes := base ++ [{ cx with mtch := some q' },
                                      { NodeCtx.new (some ty) attrs [] [] true (wsOptionsFor (wsPre ty) pw cx.opts) with uid := st.fresh }],
                    open_ := base.length + 1, fresh := st.fresh + 1 } := by
  have hx : st.nodes[st.open_]? = some cx := by rw [hn, ho]; exact getElem?_base base cx []
  unfold pushTop
  simp only [hx, applyPending_nil S cx ty hpe]
  simp only [hp.mtch, hp.ty, hm, hp.active, hp.openLeft,
    Bool.false_and, Bool.false_eq_true, if_false, PState.setTop, hpe, ho, hn, set_base]
  simp

/-- `enter` of a type the automaton accepts opens it directly below the open context -/
theorem enter_plain (S : Schema) (wsPre : TypeId → Bool) (st : PState) (base : List NodeCtx) (cx : NodeCtx)
    (ext : List NodeCtx) (c : List Node) (t : TypeId) (q q' : Nat) (ty : TypeId) (attrs : Option Attrs) (pw : WS) (a : Attrs)
    (hn : st.nodes = base ++ cx :: ext) (ho : st.open_ = base.length) (hp : Plain S cx t q) (hpe : cx.pending = [])
    (hs : Settles S cx ext c)
    (hm : (S.dfa t).matchType q ty = some q') (ha : computeAttrs (S.nodeType ty).attrs (attrs.getD []) = .ok a) :
    st.enter S wsPre ty attrs pw =
      .ok ({ st with nodes := base ++ [{ cx with content := c, mtch := some q' },
                                       { NodeCtx.new (some ty) attrs [] [] true (wsOptionsFor (wsPre ty) pw cx.opts) with uid := st.fresh }],
                     open_ := base.length + 1, fresh := st.fresh + 1 }, true) := by
  have hx : st.nodes[st.open_]? = some cx := by rw [hn, ho]; exact getElem?_base base cx ext
  have h1 : st.enter S wsPre ty attrs pw =
      (pushTop S wsPre { st with nodes := base ++ [{ cx with content := c }] } ty attrs true pw).map (fun s => (s, true)) := by
    unfold PState.enter
    simp only [ha, findPlace_direct S wsPre st cx t q q' _ hx hp hm]
    unfold PState.enterInner
    simp only [closeExtra_settles S st base cx c ext hn ho hs]
    rfl
  rw [h1, pushTop_plain S wsPre { st with nodes := base ++ [{ cx with content := c }] } base { cx with content := c } t q q' ty
    attrs pw rfl ho (hp.withContent c) hpe hm]
  rfl

end PM.RoundTrip
