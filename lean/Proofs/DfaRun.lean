/- Proofs/DfaRun.lean — the basic equations of `Dfa.run` and `Schema.types`, in one place.
   (They used to be proved three times — Proofs/Fill.lean, Proofs/Valid.lean, Proofs/StepValid.lean —
   under the same name, which made those files impossible to import together.) -/
import PM.Content
namespace PM

theorem Dfa.run_nil (d : Dfa) (q : Nat) : d.run q [] = some q := rfl

theorem Dfa.run_cons (d : Dfa) (q : Nat) (t : TypeId) (ts : List TypeId) :
    d.run q (t :: ts) = (d.matchType q t).bind (fun q' => d.run q' ts) := by
  simp only [Dfa.run]
  cases d.matchType q t <;> rfl

/-- running over a concatenation = running over the parts, one after the other -/
theorem Dfa.run_append (d : Dfa) (q : Nat) (xs ys : List TypeId) :
    d.run q (xs ++ ys) = (d.run q xs).bind (fun q' => d.run q' ys) := by
  induction xs generalizing q with
  | nil => rfl
  | cons x xs ih =>
    simp only [List.cons_append, Dfa.run_cons]
    cases d.matchType q x with
    | none => rfl
    | some q' => simp [ih]

theorem Dfa.run_singleton (d : Dfa) (q : Nat) (t : TypeId) : d.run q [t] = d.matchType q t := by
  simp only [Dfa.run_cons]
  cases d.matchType q t <;> rfl

theorem Schema.types_append (S : Schema) (a b : List Node) :
    S.types (a ++ b) = S.types a ++ S.types b := by
  simp [Schema.types]

/-- the same under the root name several files use -/
theorem types_append (S : Schema) (a b : List Node) : S.types (a ++ b) = S.types a ++ S.types b :=
  S.types_append a b

end PM
