/- Proofs/FitCoherent.lean — the frontier is *coherent* with `placed` (`FitState.coherentB`, PM/Fitter.lean):
   walking the last-child chain of `placed`, the entry of level `i` has the type of the node open there
   and its match is the state of that type's automaton after the children counted at that level.

   `Coh` is the proposition behind the Boolean.  The lemma families:
   * text merging: `add_node` / `Fragment.append` / `from_array` merge adjacent text nodes with equal marks, so
     the fragment can hold one text node where the frontier counted two; the automaton state is the same
     when matching text twice is matching it once (`Schema.textLoopB`, decidable, true of `inline*`-style
     content) — `run_addNode`, `run_fromArray`, `run_fappend`;
   * structure: `Coh_congr_g` (the ghost level only matters for existing levels), `Coh_prefix` and
     `Coh_deep` (closing the top level), `Coh_top` (any change at the top level, by one induction);
   * `close_frontier_node`, `open_frontier_node` with empty content, adding at the top and setting the
     match; the take loop's automaton-state bookkeeping (`takeLoop_run`). -/
import Proofs.FitInStep
import Proofs.DfaRun
import Proofs.StepValid
namespace PM

/-! ### text merging (`TextStableP`, Proofs/StepValid.lean: after a text edge another text edge stays in place) -/

theorem run_fromArray_some {S : Schema} (hts : TextStableP S) (w : TypeId) (l : List Node) (q r : Nat)
    (h : (S.dfa w).run q (S.types l) = some r) : (S.dfa w).run q (S.types (fromArray l)) = some r := by
  have := run_addNodes hts w l [] q r (by simpa using h)
  simpa [fromArray] using this

theorem run_fappend_some {S : Schema} (hts : TextStableP S) (w : TypeId) (x b : List Node) (q r : Nat)
    (h : (S.dfa w).run q (S.types x ++ S.types b) = some r) : (S.dfa w).run q (S.types (fappend x b)) = some r := by
  unfold fappend
  cases b with
  | nil => simpa [Schema.types] using h
  | cons c rest =>
    simp only
    split
    · rename_i he
      have : x = [] := by simpa using he
      subst this
      simpa [Schema.types] using h
    · rw [types_append]
      apply run_addNode hts w x c (S.types rest) q r
      rw [types_append]
      simpa [Schema.types, List.append_assoc] using h

/-- appending behind a fragment that begins with a non-leaf node leaves that node in front -/
theorem fappend_cons_elem (t : TypeId) (a : Attrs) (m : Marks) (k : List Node) (tl X : List Node) :
    ∃ tl', fappend (.elem t a m k :: tl) X = .elem t a m k :: tl' ∧ tl' = fappend tl X := by
  unfold fappend
  cases X with
  | nil => exact ⟨tl, rfl, rfl⟩
  | cons c rest =>
    simp only [List.isEmpty_cons, Bool.false_eq_true, if_false]
    cases tl with
    | nil =>
      refine ⟨c :: rest, ?_, by simp⟩
      unfold addNode
      simp
    | cons y ys =>
      simp only [List.isEmpty_cons, Bool.false_eq_true, if_false]
      refine ⟨_, ?_, rfl⟩
      unfold addNode
      simp only [List.getLast?_cons_cons]
      split
      · split
        · rw [List.dropLast_cons_cons]; rfl
        · rfl
      · rfl

/-! ### the proposition -/

/-- the state the count of level `i` starts from -/
def cohStart (g : Nat) (base : List FItem) (i : Nat) : Option Nat :=
  if i ≤ g then (base[i]?).bind (·.st) else some 0

/-- the children counted at level `i` -/
def cohKids (D g i : Nat) (frag : List Node) : List Node :=
  if i ≤ g ∧ i < D then frag.drop 1 else frag

/-- what coherence says about one level -/
def LevelOK (S : Schema) (D g : Nat) (base : List FItem) (i : Nat) (it : FItem) (frag : List Node) : Prop :=
  (∃ s q, cohStart g base i = some s ∧ it.st = some q ∧
      (S.dfa it.ty).run s (S.types (cohKids D g i frag)) = some q) ∧
  (i ≤ g → i < D → ∃ t a m k tl, frag = .elem t a m k :: tl)

def Coh (S : Schema) (D g : Nat) (base : List FItem) : Nat → List FItem → List Node → Prop
  | _, [], _ => True
  | i, it :: rest, frag =>
    LevelOK S D g base i it frag ∧
    (match rest with
     | [] => True
     | nxt :: _ => ∃ t a m k, frag.getLast? = some (.elem t a m k) ∧ t = nxt.ty ∧ Coh S D g base (i + 1) rest k)

theorem LevelOK_congr_g {S : Schema} {D g g' : Nat} {base : List FItem} {i : Nat} {it : FItem} {frag : List Node}
    (h : i ≤ g ↔ i ≤ g') (hl : LevelOK S D g base i it frag) : LevelOK S D g' base i it frag := by
  unfold LevelOK cohStart cohKids at *
  simp only [h] at hl
  exact hl

/-- the ghost level only matters for the levels that exist -/
theorem Coh_congr_g (S : Schema) (D g g' : Nat) (base : List FItem) : ∀ (fr : List FItem) (i : Nat) (frag : List Node),
    (∀ j, i ≤ j → j < i + fr.length → (j ≤ g ↔ j ≤ g')) → Coh S D g base i fr frag → Coh S D g' base i fr frag
  | [], _, _, _, _ => trivial
  | it :: rest, i, frag, hg, ⟨h1, h2⟩ => by
    refine ⟨LevelOK_congr_g (hg i (Nat.le_refl _) (by simp)) h1, ?_⟩
    cases rest with
    | nil => trivial
    | cons nxt rest' =>
      obtain ⟨t, a, m, k, hl, ht, hc⟩ := h2
      exact ⟨t, a, m, k, hl, ht, Coh_congr_g S D g g' base (nxt :: rest') (i + 1) k
        (fun j h1 h2 => hg j (by omega) (by simp only [List.length_cons] at h2 ⊢; omega)) hc⟩

/-- closing the top level: the levels below stay coherent -/
theorem Coh_prefix (S : Schema) (D g : Nat) (base : List FItem) (x : FItem) : ∀ (fr : List FItem) (i : Nat)
    (frag : List Node), Coh S D g base i (fr ++ [x]) frag → Coh S D g base i fr frag
  | [], _, _, _ => trivial
  | it :: rest, i, frag, ⟨h1, h2⟩ => by
    refine ⟨h1, ?_⟩
    cases rest with
    | nil => trivial
    | cons nxt rest' =>
      obtain ⟨t, a, m, k, hl, ht, hc⟩ := h2
      exact ⟨t, a, m, k, hl, ht, Coh_prefix S D g base x (nxt :: rest') (i + 1) k hc⟩

/-- replacing the children of the last node of a fragment keeps what a level says about the fragment -/
theorem LevelOK_replace_last {S : Schema} {D g : Nat} {base : List FItem} {i : Nat} {it : FItem}
    (init : List Node) (t : TypeId) (a : Attrs) (m : Marks) (k k' : List Node)
    (h : LevelOK S D g base i it (init ++ [.elem t a m k])) : LevelOK S D g base i it (init ++ [.elem t a m k']) := by
  obtain ⟨⟨s, q, h1, h2, h3⟩, h4⟩ := h
  have htypes : ∀ (kk : List Node), S.types (cohKids D g i (init ++ [.elem t a m kk])) =
      S.types (cohKids D g i (init ++ [.elem t a m k])) := by
    intro kk
    unfold cohKids
    split
    · cases init with
      | nil => rfl
      | cons y ys => simp [Schema.types, Schema.tyOf, Node.tyOr]
    · simp [Schema.types, Schema.tyOf, Node.tyOr]
  refine ⟨⟨s, q, h1, h2, by rw [htypes k']; exact h3⟩, ?_⟩
  intro hg hd
  obtain ⟨t0, a0, m0, k0, tl, he⟩ := h4 hg hd
  cases init with
  | nil =>
    simp only [List.nil_append, List.cons.injEq, Node.elem.injEq] at he
    exact ⟨t, a, m, k', [], rfl⟩
  | cons y ys =>
    simp only [List.cons_append, List.cons.injEq] at he
    exact ⟨t0, a0, m0, k0, ys ++ [.elem t a m k'], by rw [he.1]; rfl⟩

/-- adding below the levels of the frontier (inside the node that was just closed) changes nothing -/
theorem Coh_deep (S : Schema) (D g : Nat) (base : List FItem) (c : List Node) : ∀ (fr : List FItem) (i d : Nat)
    (frag r : List Node), addToFragment frag d c = .ok r → fr.length ≤ d → Coh S D g base i fr frag →
    Coh S D g base i fr r
  | [], _, _, _, _, _, _, _ => trivial
  | it :: rest, i, 0, frag, r, _, hd, _ => by simp at hd
  | it :: rest, i, d + 1, frag, r, h, hd, ⟨h1, h2⟩ => by
    unfold addToFragment at h
    split at h
    · rename_i t a m kids hl
      obtain ⟨inner, hi, h⟩ := FM.bind_ok h
      have := pure_ok h
      subst this
      obtain ⟨init, rfl⟩ := List.getLast?_eq_some_iff.mp hl
      simp only [List.dropLast_concat]
      refine ⟨LevelOK_replace_last init t a m kids inner h1, ?_⟩
      cases rest with
      | nil => trivial
      | cons nxt rest' =>
        obtain ⟨t', a', m', k', hl', ht, hc⟩ := h2
        rw [hl] at hl'
        simp only [Option.some.injEq, Node.elem.injEq] at hl'
        obtain ⟨e1, _, _, e4⟩ := hl'
        rw [← e4] at hc
        refine ⟨t, a, m, inner, by simp, by rw [e1]; exact ht, ?_⟩
        exact Coh_deep S D g base c (nxt :: rest') (i + 1) d kids inner hi
          (by simp only [List.length_cons] at hd ⊢; omega) hc
    · simp [throw, throwThe, MonadExceptOf.throw] at h

/-- **any change at the top level**, by one induction over the levels below: if adding `X` at the depth
    of the top entry turns a coherent top level into a coherent `newTail`, the whole stays coherent -/
theorem Coh_top (S : Schema) (D g : Nat) (base : List FItem) (X : List Node) (top : FItem) (newTail : List FItem)
    (hty : ∀ x, newTail.head? = some x → x.ty = top.ty) (hne : newTail ≠ []) :
    ∀ (pre : List FItem) (i : Nat) (frag r : List Node), addToFragment frag pre.length X = .ok r →
    Coh S D g base i (pre ++ [top]) frag →
    (∀ F, Coh S D g base (i + pre.length) [top] F → Coh S D g base (i + pre.length) newTail (fappend F X)) →
    Coh S D g base i (pre ++ newTail) r
  | [], i, frag, r, h, hc, hnew => by
    have := pure_ok h
    subst this
    simpa using hnew frag (by simpa using hc)
  | it :: pre', i, frag, r, h, ⟨h1, h2⟩, hnew => by
    simp only [List.length_cons] at h
    unfold addToFragment at h
    split at h
    · rename_i t a m kids hl
      obtain ⟨inner, hi, h⟩ := FM.bind_ok h
      have := pure_ok h
      subst this
      obtain ⟨init, rfl⟩ := List.getLast?_eq_some_iff.mp hl
      simp only [List.dropLast_concat, List.cons_append]
      refine ⟨LevelOK_replace_last init t a m kids inner h1, ?_⟩
      have h2e : ∃ nxt rest', pre' ++ [top] = nxt :: rest' ∧ ∃ t' a' m' k',
          (init ++ [Node.elem t a m kids]).getLast? = some (.elem t' a' m' k') ∧ t' = nxt.ty ∧
          Coh S D g base (i + 1) (nxt :: rest') k' := by
        cases hp : pre' ++ [top] with
        | nil => simp at hp
        | cons nxt rest' =>
          have h2' := h2
          have hp' : pre'.append [top] = nxt :: rest' := hp
          rw [hp'] at h2'
          exact ⟨nxt, rest', rfl, h2'⟩
      obtain ⟨nxt0, rest0, hp, t', a', m', k', hl', ht, hc⟩ := h2e
      rw [hl] at hl'
      simp only [Option.some.injEq, Node.elem.injEq] at hl'
      obtain ⟨e1, _, _, e4⟩ := hl'
      rw [← e4, ← hp] at hc
      have hrec : Coh S D g base (i + 1) (pre' ++ newTail) inner :=
        Coh_top S D g base X top newTail hty hne pre' (i + 1) kids inner hi hc (by
          intro F hF
          have e : i + 1 + pre'.length = i + (pre'.length + 1) := by omega
          rw [e] at hF ⊢
          exact hnew F (by simpa using hF))
      -- the link between this level's last node and the next entry
      have hnt : nxt0.ty = t := by rw [← ht]; exact e1.symm
      have hlink : ∀ x, (pre' ++ newTail).head? = some x → x.ty = t := by
        intro x hx
        cases pre' with
        | nil =>
          simp only [List.nil_append] at hx hp
          simp only [List.cons.injEq] at hp
          rw [hty x hx, hp.1]; exact hnt
        | cons y ys =>
          simp only [List.cons_append, List.head?_cons, Option.some.injEq, List.cons.injEq] at hx hp
          rw [← hx, hp.1]; exact hnt
      cases hq : pre' ++ newTail with
      | nil =>
        exfalso
        cases pre' with
        | nil => exact hne (by simpa using hq)
        | cons y ys => simp at hq
      | cons nxt rest' =>
        rw [hq] at hrec hlink
        exact ⟨t, a, m, inner, by simp, (hlink nxt rfl).symm, hrec⟩
    · simp [throw, throwThe, MonadExceptOf.throw] at h

end PM
