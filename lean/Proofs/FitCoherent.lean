/- Proofs/FitCoherent.lean — the frontier is *coherent* with `placed` (`FitState.coherentB`, PM/Fitter.lean):
   walking the last-child chain of `placed`, the entry of level `i` has the type of the node open there
   and its match is the state of that type's automaton after the children counted at that level.

   `Coh` is the proposition behind the Boolean.  The lemma families:
   * text merging: `add_node` / `Fragment.append` / `from_array` merge adjacent text nodes with equal marks, so
     the fragment can hold one text node where the frontier counted two; the automaton state is the same
     when matching text twice is matching it once (`Schema.textLoopB`, decidable, true of `inline*`-style
     content) — `run_addNode`, `run_fromArray`, `run_fappend`;
   * structure: `Coh_congr_g` (the ghost level only matters for existing levels), `Coh_prefix` and
     `Coh_deep` (closing the top level), `Coh_top` (any change at the top level, by one induction);
   * `close_frontier_node`, `open_frontier_node` with empty content, adding at the top and setting the
     match; the take loop's automaton-state bookkeeping (`takeLoop_run`). -/
import Proofs.FitInStep
import Proofs.DfaRun
import Proofs.StepValid
namespace PM

/-! ### text merging (`TextStableP`, Proofs/StepValid.lean: after a text edge another text edge stays in place) -/

theorem run_fromArray_some {S : Schema} (hts : TextStableP S) (w : TypeId) (l : List Node) (q r : Nat)
    (h : (S.dfa w).run q (S.types l) = some r) : (S.dfa w).run q (S.types (fromArray l)) = some r := by
  have := run_addNodes hts w l [] q r (by simpa using h)
  simpa [fromArray] using this

theorem run_fappend_some {S : Schema} (hts : TextStableP S) (w : TypeId) (x b : List Node) (q r : Nat)
    (h : (S.dfa w).run q (S.types x ++ S.types b) = some r) : (S.dfa w).run q (S.types (fappend x b)) = some r := by
  unfold fappend
  cases b with
  | nil => simpa [Schema.types] using h
  | cons c rest =>
    simp only
    split
    · rename_i he
      have : x = [] := by simpa using he
      subst this
      simpa [Schema.types] using h
    · rw [types_append]
      apply run_addNode hts w x c (S.types rest) q r
      rw [types_append]
      simpa [Schema.types, List.append_assoc] using h

/-- appending behind a fragment that begins with a non-leaf node leaves that node in front -/
theorem fappend_cons_elem (t : TypeId) (a : Attrs) (m : Marks) (k : List Node) (tl X : List Node) :
    ∃ tl', fappend (.elem t a m k :: tl) X = .elem t a m k :: tl' ∧ tl' = fappend tl X := by
  unfold fappend
  cases X with
  | nil => exact ⟨tl, rfl, rfl⟩
  | cons c rest =>
    simp only [List.isEmpty_cons, Bool.false_eq_true, if_false]
    cases tl with
    | nil =>
      refine ⟨c :: rest, ?_, by simp⟩
      unfold addNode
      simp
    | cons y ys =>
      simp only [List.isEmpty_cons, Bool.false_eq_true, if_false]
      refine ⟨_, ?_, rfl⟩
      unfold addNode
      simp only [List.getLast?_cons_cons]
      split
      · split
        · rw [List.dropLast_cons_cons]; rfl
        · rfl
      · rfl

/-! ### the proposition -/

/-- the state the count of level `i` starts from -/
def cohStart (g : Nat) (base : List FItem) (i : Nat) : Option Nat :=
  if i ≤ g then (base[i]?).bind (·.st) else some 0

/-- the children counted at level `i` -/
def cohKids (D g i : Nat) (frag : List Node) : List Node :=
  if i ≤ g ∧ i < D then frag.drop 1 else frag

/-- what coherence says about one level -/
def LevelOK (S : Schema) (D g : Nat) (base : List FItem) (i : Nat) (it : FItem) (frag : List Node) : Prop :=
  (∃ s q, cohStart g base i = some s ∧ it.st = some q ∧
      (S.dfa it.ty).run s (S.types (cohKids D g i frag)) = some q) ∧
  (i ≤ g → i < D → ∃ t a m k tl, frag = .elem t a m k :: tl)

def Coh (S : Schema) (D g : Nat) (base : List FItem) : Nat → List FItem → List Node → Prop
  | _, [], _ => True
  | i, it :: rest, frag =>
    LevelOK S D g base i it frag ∧
    (match rest with
     | [] => True
     | nxt :: _ => ∃ t a m k, frag.getLast? = some (.elem t a m k) ∧ t = nxt.ty ∧ Coh S D g base (i + 1) rest k)

theorem LevelOK_congr_g {S : Schema} {D g g' : Nat} {base : List FItem} {i : Nat} {it : FItem} {frag : List Node}
    (h : i ≤ g ↔ i ≤ g') (hl : LevelOK S D g base i it frag) : LevelOK S D g' base i it frag := by
  unfold LevelOK cohStart cohKids at *
  simp only [h] at hl
  exact hl

/-- the ghost level only matters for the levels that exist -/
theorem Coh_congr_g (S : Schema) (D g g' : Nat) (base : List FItem) : ∀ (fr : List FItem) (i : Nat) (frag : List Node),
    (∀ j, i ≤ j → j < i + fr.length → (j ≤ g ↔ j ≤ g')) → Coh S D g base i fr frag → Coh S D g' base i fr frag
  | [], _, _, _, _ => trivial
  | it :: rest, i, frag, hg, ⟨h1, h2⟩ => by
    refine ⟨LevelOK_congr_g (hg i (Nat.le_refl _) (by simp)) h1, ?_⟩
    cases rest with
    | nil => trivial
    | cons nxt rest' =>
      obtain ⟨t, a, m, k, hl, ht, hc⟩ := h2
      exact ⟨t, a, m, k, hl, ht, Coh_congr_g S D g g' base (nxt :: rest') (i + 1) k
        (fun j h1 h2 => hg j (by omega) (by simp only [List.length_cons] at h2 ⊢; omega)) hc⟩

/-- closing the top level: the levels below stay coherent -/
theorem Coh_prefix (S : Schema) (D g : Nat) (base : List FItem) (x : FItem) : ∀ (fr : List FItem) (i : Nat)
    (frag : List Node), Coh S D g base i (fr ++ [x]) frag → Coh S D g base i fr frag
  | [], _, _, _ => trivial
  | it :: rest, i, frag, ⟨h1, h2⟩ => by
    refine ⟨h1, ?_⟩
    cases rest with
    | nil => trivial
    | cons nxt rest' =>
      obtain ⟨t, a, m, k, hl, ht, hc⟩ := h2
      exact ⟨t, a, m, k, hl, ht, Coh_prefix S D g base x (nxt :: rest') (i + 1) k hc⟩

/-- replacing the children of the last node of a fragment keeps what a level says about the fragment -/
theorem LevelOK_replace_last {S : Schema} {D g : Nat} {base : List FItem} {i : Nat} {it : FItem}
    (init : List Node) (t : TypeId) (a : Attrs) (m : Marks) (k k' : List Node)
    (h : LevelOK S D g base i it (init ++ [.elem t a m k])) : LevelOK S D g base i it (init ++ [.elem t a m k']) := by
  obtain ⟨⟨s, q, h1, h2, h3⟩, h4⟩ := h
  have htypes : ∀ (kk : List Node), S.types (cohKids D g i (init ++ [.elem t a m kk])) =
      S.types (cohKids D g i (init ++ [.elem t a m k])) := by
    intro kk
    unfold cohKids
    split
    · cases init with
      | nil => rfl
      | cons y ys => simp [Schema.types, Schema.tyOf, Node.tyOr]
    · simp [Schema.types, Schema.tyOf, Node.tyOr]
  refine ⟨⟨s, q, h1, h2, by rw [htypes k']; exact h3⟩, ?_⟩
  intro hg hd
  obtain ⟨t0, a0, m0, k0, tl, he⟩ := h4 hg hd
  cases init with
  | nil =>
    simp only [List.nil_append, List.cons.injEq, Node.elem.injEq] at he
    exact ⟨t, a, m, k', [], rfl⟩
  | cons y ys =>
    simp only [List.cons_append, List.cons.injEq] at he
    exact ⟨t0, a0, m0, k0, ys ++ [.elem t a m k'], by rw [he.1]; rfl⟩

/-- adding below the levels of the frontier (inside the node that was just closed) changes nothing -/
theorem Coh_deep (S : Schema) (D g : Nat) (base : List FItem) (c : List Node) : ∀ (fr : List FItem) (i d : Nat)
    (frag r : List Node), addToFragment frag d c = .ok r → fr.length ≤ d → Coh S D g base i fr frag →
    Coh S D g base i fr r
  | [], _, _, _, _, _, _, _ => trivial
  | it :: rest, i, 0, frag, r, _, hd, _ => by simp at hd
  | it :: rest, i, d + 1, frag, r, h, hd, ⟨h1, h2⟩ => by
    unfold addToFragment at h
    split at h
    · rename_i t a m kids hl
      obtain ⟨inner, hi, h⟩ := FM.bind_ok h
      have := pure_ok h
      subst this
      obtain ⟨init, rfl⟩ := List.getLast?_eq_some_iff.mp hl
      simp only [List.dropLast_concat]
      refine ⟨LevelOK_replace_last init t a m kids inner h1, ?_⟩
      cases rest with
      | nil => trivial
      | cons nxt rest' =>
        obtain ⟨t', a', m', k', hl', ht, hc⟩ := h2
        rw [hl] at hl'
        simp only [Option.some.injEq, Node.elem.injEq] at hl'
        obtain ⟨e1, _, _, e4⟩ := hl'
        rw [← e4] at hc
        refine ⟨t, a, m, inner, by simp, by rw [e1]; exact ht, ?_⟩
        exact Coh_deep S D g base c (nxt :: rest') (i + 1) d kids inner hi
          (by simp only [List.length_cons] at hd ⊢; omega) hc
    · simp [throw, throwThe, MonadExceptOf.throw] at h

/-- **any change at the top level**, by one induction over the levels below: if adding `X` at the depth
    of the top entry turns a coherent top level into a coherent `newTail`, the whole stays coherent -/
theorem Coh_top (S : Schema) (D g : Nat) (base : List FItem) (X : List Node) (top : FItem) (newTail : List FItem)
    (hty : ∀ x, newTail.head? = some x → x.ty = top.ty) (hne : newTail ≠ []) :
    ∀ (pre : List FItem) (i : Nat) (frag r : List Node), addToFragment frag pre.length X = .ok r →
    Coh S D g base i (pre ++ [top]) frag →
    (∀ F, Coh S D g base (i + pre.length) [top] F → Coh S D g base (i + pre.length) newTail (fappend F X)) →
    Coh S D g base i (pre ++ newTail) r
  | [], i, frag, r, h, hc, hnew => by
    have := pure_ok h
    subst this
    simpa using hnew frag (by simpa using hc)
  | it :: pre', i, frag, r, h, ⟨h1, h2⟩, hnew => by
    simp only [List.length_cons] at h
    unfold addToFragment at h
    split at h
    · rename_i t a m kids hl
      obtain ⟨inner, hi, h⟩ := FM.bind_ok h
      have := pure_ok h
      subst this
      obtain ⟨init, rfl⟩ := List.getLast?_eq_some_iff.mp hl
      simp only [List.dropLast_concat, List.cons_append]
      refine ⟨LevelOK_replace_last init t a m kids inner h1, ?_⟩
      have h2e : ∃ nxt rest', pre' ++ [top] = nxt :: rest' ∧ ∃ t' a' m' k',
          (init ++ [Node.elem t a m kids]).getLast? = some (.elem t' a' m' k') ∧ t' = nxt.ty ∧
          Coh S D g base (i + 1) (nxt :: rest') k' := by
        cases hp : pre' ++ [top] with
        | nil => simp at hp
        | cons nxt rest' =>
          have h2' := h2
          have hp' : pre'.append [top] = nxt :: rest' := hp
          rw [hp'] at h2'
          exact ⟨nxt, rest', rfl, h2'⟩
      obtain ⟨nxt0, rest0, hp, t', a', m', k', hl', ht, hc⟩ := h2e
      rw [hl] at hl'
      simp only [Option.some.injEq, Node.elem.injEq] at hl'
      obtain ⟨e1, _, _, e4⟩ := hl'
      rw [← e4, ← hp] at hc
      have hrec : Coh S D g base (i + 1) (pre' ++ newTail) inner :=
        Coh_top S D g base X top newTail hty hne pre' (i + 1) kids inner hi hc (by
          intro F hF
          have e : i + 1 + pre'.length = i + (pre'.length + 1) := by omega
          rw [e] at hF ⊢
          exact hnew F (by simpa using hF))
      -- the link between this level's last node and the next entry
      have hnt : nxt0.ty = t := by rw [← ht]; exact e1.symm
      have hlink : ∀ x, (pre' ++ newTail).head? = some x → x.ty = t := by
        intro x hx
        cases pre' with
        | nil =>
          simp only [List.nil_append] at hx hp
          simp only [List.cons.injEq] at hp
          rw [hty x hx, hp.1]; exact hnt
        | cons y ys =>
          simp only [List.cons_append, List.head?_cons, Option.some.injEq, List.cons.injEq] at hx hp
          rw [← hx, hp.1]; exact hnt
      cases hq : pre' ++ newTail with
      | nil =>
        exfalso
        cases pre' with
        | nil => exact hne (by simpa using hq)
        | cons y ys => simp at hq
      | cons nxt rest' =>
        rw [hq] at hrec hlink
        exact ⟨t, a, m, inner, by simp, (hlink nxt rfl).symm, hrec⟩
    · simp [throw, throwThe, MonadExceptOf.throw] at h

/-! ### the top level: adding nodes and setting the match; opening a node -/

/-- adding `from_array(Xraw)` at a coherent top level and setting the match to the state after `Xraw` -/
theorem Coh_base_add {S : Schema} (hts : TextStableP S) (D g : Nat) (base : List FItem) (j : Nat) (top : FItem)
    (q q' : Nat) (Xraw F : List Node) (hc : Coh S D g base j [top] F) (hq : top.st = some q)
    (hrun : (S.dfa top.ty).run q (S.types Xraw) = some q') :
    Coh S D g base j [⟨top.ty, some q'⟩] (fappend F (fromArray Xraw)) := by
  obtain ⟨⟨⟨s, q0, h1, h2, h3⟩, h4⟩, _⟩ := hc
  rw [hq] at h2
  simp only [Option.some.injEq] at h2
  subst h2
  refine ⟨⟨⟨s, q', h1, rfl, ?_⟩, ?_⟩, trivial⟩
  · simp only
    unfold cohKids at h3 ⊢
    by_cases hcnd : j ≤ g ∧ j < D
    · rw [if_pos hcnd] at h3 ⊢
      obtain ⟨t, a, m, k, tl, rfl⟩ := h4 hcnd.1 hcnd.2
      obtain ⟨tl', e1, e2⟩ := fappend_cons_elem t a m k tl (fromArray Xraw)
      rw [e1, e2]
      simp only [List.drop_succ_cons, List.drop_zero] at h3 ⊢
      apply run_fappend_some hts
      rw [Dfa.run_append, h3]
      exact run_fromArray_some hts _ _ _ _ hrun
    · rw [if_neg hcnd] at h3 ⊢
      apply run_fappend_some hts
      rw [Dfa.run_append, h3]
      exact run_fromArray_some hts _ _ _ _ hrun
  · intro hg hd
    obtain ⟨t, a, m, k, tl, rfl⟩ := h4 hg hd
    obtain ⟨tl', e1, _⟩ := fappend_cons_elem t a m k tl (fromArray Xraw)
    exact ⟨t, a, m, k, tl', e1⟩

theorem fromArray_singleton_elem (t : TypeId) (a : Attrs) (m : Marks) (k : List Node) :
    fromArray [.elem t a m k] = [.elem t a m k] := by
  simp [fromArray, addNodes, addNode_elem]

/-- opening a node without content above the ghost level -/
theorem Coh_base_open {S : Schema} (hts : TextStableP S) (D g : Nat) (base : List FItem) (j : Nat) (top : FItem)
    (q q' : Nat) (ty : TypeId) (a : Attrs) (F : List Node) (hc : Coh S D g base j [top] F) (hq : top.st = some q)
    (hm : (S.dfa top.ty).matchType q ty = some q') (hg : g < j + 1) :
    Coh S D g base j [⟨top.ty, some q'⟩, ⟨ty, some 0⟩] (fappend F [.elem ty a [] []]) := by
  have h1 := Coh_base_add hts D g base j top q q' [.elem ty a [] []] F hc hq (by
    simp only [Schema.types, List.map_cons, List.map_nil, Schema.tyOf, Node.tyOr]
    rw [Dfa.run_singleton]; exact hm)
  rw [fromArray_singleton_elem] at h1
  refine ⟨h1.1, ty, a, [], [], fappend_elem_last F ty a [] [], rfl, ⟨⟨⟨0, 0, ?_, rfl, ?_⟩, ?_⟩, trivial⟩⟩
  · unfold cohStart
    rw [if_neg (by omega)]
  · unfold cohKids
    rw [if_neg (by omega)]
    rfl
  · intro h0
    omega

/-! ### `close_frontier_node`, `open_frontier_node` on the whole state -/

theorem closeFrontierNode_coh (S : Schema) (D g : Nat) (base : List FItem) (fr : List FItem) (placed : List Node)
    (r : List FItem × List Node) (h : closeFrontierNode S fr placed = .ok r) (hc : Coh S D g base 0 fr placed) :
    r.1 = fr.dropLast ∧ Coh S D g base 0 r.1 r.2 := by
  unfold closeFrontierNode at h
  split at h
  · simp [throw, throwThe, MonadExceptOf.throw] at h
  · rename_i open_ hl
    obtain ⟨pre, rfl⟩ := List.getLast?_eq_some_iff.mp hl
    have hpre := Coh_prefix S D g base open_ pre 0 placed hc
    obtain ⟨q, _, h⟩ := FM.bind_ok h
    obtain ⟨add, _, h⟩ := FM.bind_ok h
    cases add with
    | none =>
      have := pure_ok h
      subst this
      exact ⟨rfl, by simpa using hpre⟩
    | some a =>
      simp only at h
      split at h
      · have := pure_ok h
        subst this
        exact ⟨rfl, by simpa using hpre⟩
      · obtain ⟨p, hp, h⟩ := FM.bind_ok h
        have := pure_ok h
        subst this
        refine ⟨rfl, ?_⟩
        simp only [List.dropLast_concat] at hp ⊢
        exact Coh_deep S D g base a pre 0 _ placed p hp (Nat.le_refl _) hpre

theorem closeMany_coh (S : Schema) (D g : Nat) (base : List FItem) : ∀ (n : Nat) (fr : List FItem)
    (placed : List Node) (r : List FItem × List Node), closeMany S n fr placed = .ok r →
    Coh S D g base 0 fr placed → Coh S D g base 0 r.1 r.2
  | 0, fr, placed, r, h, hc => by
    have := pure_ok h
    subst this; exact hc
  | n + 1, fr, placed, r, h, hc => by
    unfold closeMany at h
    obtain ⟨x, hx, h⟩ := FM.bind_ok h
    exact closeMany_coh S D g base n x.1 x.2 r h (closeFrontierNode_coh S D g base fr placed x hx hc).2

/-- `open_frontier_node(type)` (no attributes, no content) above the ghost level -/
theorem openFrontierNode_coh {S : Schema} (hts : TextStableP S) (D g : Nat) (base : List FItem) (pre : List FItem)
    (top : FItem) (placed : List Node) (ty : TypeId) (q q' : Nat) (hq : top.st = some q)
    (hm : (S.dfa top.ty).matchType q ty = some q') (hleaf : (S.nodeType ty).isLeaf = false)
    (hg : g < pre.length + 1) (r : List FItem × List Node)
    (h : openFrontierNode S (pre ++ [top]) placed ty none [] = .ok r)
    (hc : Coh S D g base 0 (pre ++ [top]) placed) :
    r.1 = pre ++ [⟨top.ty, some q'⟩, ⟨ty, some 0⟩] ∧ Coh S D g base 0 r.1 r.2 := by
  unfold openFrontierNode at h
  simp only [List.length_append, List.length_singleton, Nat.add_sub_cancel] at h
  obtain ⟨top0, hgi, h⟩ := FM.bind_ok h
  have ht0 : top0 = top := by
    have := getItem_ok hgi
    simpa using this.symm
  subst ht0
  obtain ⟨q0, hgs, h⟩ := FM.bind_ok h
  have hq0 : q0 = q := by
    have := getSt_ok hgs
    rw [hq] at this
    simpa using this.symm
  subst hq0
  obtain ⟨node, hnode, h⟩ := FM.bind_ok h
  obtain ⟨p, hp, h⟩ := FM.bind_ok h
  have := pure_ok h
  subst this
  have hn : ∃ a, node = .elem ty a [] [] := by
    unfold Schema.createNodeO at hnode
    split at hnode
    · simp [throw, throwThe, MonadExceptOf.throw] at hnode
    · split at hnode
      · rename_i aa _
        have := pure_ok hnode
        subst this
        refine ⟨aa, ?_⟩
        unfold Schema.mkNodeO
        simp only [hleaf, Bool.false_eq_true, if_false]
      · simp [throw, throwThe, MonadExceptOf.throw] at hnode
  obtain ⟨a, rfl⟩ := hn
  have hfr : (pre ++ [top0]).set pre.length ⟨top0.ty, (S.dfa top0.ty).matchType q0 ty⟩ ++ [⟨ty, some 0⟩] =
      pre ++ [⟨top0.ty, some q'⟩, ⟨ty, some 0⟩] := by
    rw [hm]
    simp
  refine ⟨hfr, ?_⟩
  simp only [hfr]
  exact Coh_top S D g base [.elem ty a [] []] top0 [⟨top0.ty, some q'⟩, ⟨ty, some 0⟩]
    (by intro x hx; simp at hx; rw [← hx]) (by simp) pre 0 placed p hp hc (by
      intro F hF
      exact Coh_base_open hts D g base (0 + pre.length) top0 q0 q' ty a F hF hq hm (by omega))

/-! ### opening a wrapper chain -/

theorem openMany_coh {S : Schema} (hts : TextStableP S) (D g : Nat) (base : List FItem) : ∀ (ws : List TypeId)
    (pre : List FItem) (top : FItem) (placed : List Node) (q : Nat), top.st = some q →
    ChainFrom S (S.dfa top.ty) q ws → g < pre.length + 1 → ∀ (r : List FItem × List Node),
    openMany S ws (pre ++ [top]) placed = .ok r → Coh S D g base 0 (pre ++ [top]) placed →
    Coh S D g base 0 r.1 r.2
  | [], pre, top, placed, q, _, _, _, r, h, hc => by
    have := pure_ok h
    subst this; exact hc
  | w :: ws, pre, top, placed, q, hq, ⟨hc1, hc2, hc3⟩, hg, r, h, hc => by
    unfold openMany at h
    obtain ⟨x, hx, h⟩ := FM.bind_ok h
    obtain ⟨q', hq'⟩ := Option.isSome_iff_exists.1 hc2
    have hleaf : (S.nodeType w).isLeaf = false := by
      simp only [Schema.wrappable, Bool.and_eq_true, Bool.not_eq_eq_eq_not, Bool.not_true] at hc1
      exact hc1.1
    obtain ⟨e1, e2⟩ := openFrontierNode_coh hts D g base pre top placed w q q' hq hq' hleaf hg x hx hc
    have e1' : x.1 = (pre ++ [⟨top.ty, some q'⟩]) ++ [⟨w, some 0⟩] := by rw [e1]; simp
    obtain ⟨x1, x2⟩ := x
    simp only at h e1' e2
    subst e1'
    exact openMany_coh hts D g base ws (pre ++ [⟨top.ty, some q'⟩]) ⟨w, some 0⟩ x2 0 rfl hc3
      (by simp; omega) r h e2

/-! ### the take loop's automaton-state bookkeeping -/

theorem tyOf_withKids (S : Schema) (n : Node) (k : List Node) : S.tyOf (n.withKids k) = S.tyOf n := by
  cases n <;> rfl

theorem tyOf_withMarks (S : Schema) (n : Node) (m : Marks) : S.tyOf (n.withMarks m) = S.tyOf n := by
  cases n <;> rfl

theorem closeNodeStart_tyOf (S : Schema) : ∀ (os : Nat) (node : Node) (oe : Int) (r : Node),
    closeNodeStart S os node oe = .ok r → S.tyOf r = S.tyOf node
  | 0, node, oe, r, h => by
    have := pure_ok h
    subst this; rfl
  | os + 1, node, oe, r, h => by
    unfold closeNodeStart at h
    obtain ⟨frag, _, h⟩ := FM.bind_ok h
    obtain ⟨fill, _, h⟩ := FM.bind_ok h
    obtain ⟨fill', _, h⟩ := FM.bind_ok h
    obtain ⟨tail, _, h⟩ := FM.bind_ok h
    have := pure_ok h
    subst this
    exact tyOf_withKids S node _

/-- the match the take loop returns is the state after the nodes it added (a skipped node does not
    advance it) -/
theorem takeLoop_run (S : Schema) (d : Dfa) (fty : TypeId) (os : Nat) (oec : Int) (total : Nat) :
    ∀ (rest : List Node) (taken q : Nat) (add : List Node) (tk : Nat × Nat × List Node),
    takeLoop S d fty os oec total rest taken q add = .ok tk →
    ∃ added, tk.2.2 = add ++ added ∧ d.run q (S.types added) = some tk.2.1
  | [], taken, q, add, tk, h => by
    have := pure_ok h
    subst this
    exact ⟨[], by simp, rfl⟩
  | next :: rest', taken, q, add, tk, h => by
    unfold takeLoop at h
    split at h
    · have := pure_ok h
      subst this
      exact ⟨[], by simp, rfl⟩
    · rename_i q' hm
      simp only at h
      split at h
      · obtain ⟨n, hn, h⟩ := FM.bind_ok h
        obtain ⟨added, e1, e2⟩ := takeLoop_run S d fty os oec total rest' _ q' _ tk h
        refine ⟨n :: added, by rw [e1]; simp, ?_⟩
        have hty : S.tyOf n = S.tyOf next := by
          rw [closeNodeStart_tyOf S _ _ _ n hn, tyOf_withMarks]
        simp only [Schema.types, List.map_cons, hty, Dfa.run, hm]
        exact e2
      · exact takeLoop_run S d fty os oec total rest' _ q _ tk h

end PM
