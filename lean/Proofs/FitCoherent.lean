/- Proofs/FitCoherent.lean — the frontier is *coherent* with `placed` (`FitState.coherentB`, PM/Fitter.lean):
   walking the last-child chain of `placed`, the entry of level `i` has the type of the node open there
   and its match is the state of that type's automaton after the children counted at that level.

   `Coh` is the proposition behind the Boolean.  The lemma families:
   * text merging: `add_node` / `Fragment.append` / `from_array` merge adjacent text nodes with equal marks, so
     the fragment can hold one text node where the frontier counted two; the automaton state is the same
     when matching text twice is matching it once (`Schema.textLoopB`, decidable, true of `inline*`-style
     content) — `run_addNode`, `run_fromArray`, `run_fappend`;
   * structure: `Coh_congr_g` (the ghost level only matters for existing levels), `Coh_prefix` and
     `Coh_deep` (closing the top level), `Coh_top` (any change at the top level, by one induction);
   * `close_frontier_node`, `open_frontier_node` with empty content, adding at the top and setting the
     match; the take loop's automaton-state bookkeeping (`takeLoop_run`). -/
import Proofs.FitInStep
import Proofs.DfaRun
import Proofs.StepValid
namespace PM

/-! ### text merging (`TextStableP`, Proofs/StepValid.lean: after a text edge another text edge stays in place) -/

theorem run_fromArray_some {S : Schema} (hts : TextStableP S) (w : TypeId) (l : List Node) (q r : Nat)
    (h : (S.dfa w).run q (S.types l) = some r) : (S.dfa w).run q (S.types (fromArray l)) = some r := by
  have := run_addNodes hts w l [] q r (by simpa using h)
  simpa [fromArray] using this

theorem run_fappend_some {S : Schema} (hts : TextStableP S) (w : TypeId) (x b : List Node) (q r : Nat)
    (h : (S.dfa w).run q (S.types x ++ S.types b) = some r) : (S.dfa w).run q (S.types (fappend x b)) = some r := by
  unfold fappend
  cases b with
  | nil => simpa [Schema.types] using h
  | cons c rest =>
    simp only
    split
    · rename_i he
      have : x = [] := by simpa using he
      subst this
      simpa [Schema.types] using h
    · rw [types_append]
      apply run_addNode hts w x c (S.types rest) q r
      rw [types_append]
      simpa [Schema.types, List.append_assoc] using h

/-- appending behind a fragment that begins with a non-leaf node leaves that node in front -/
theorem fappend_cons_elem_fit (t : TypeId) (a : Attrs) (m : Marks) (k : List Node) (tl X : List Node) :
    ∃ tl', fappend (.elem t a m k :: tl) X = .elem t a m k :: tl' ∧ tl' = fappend tl X := by
  unfold fappend
  cases X with
  | nil => exact ⟨tl, rfl, rfl⟩
  | cons c rest =>
    simp only [List.isEmpty_cons, Bool.false_eq_true, if_false]
    cases tl with
    | nil =>
      refine ⟨c :: rest, ?_, by simp⟩
      unfold addNode
      simp
    | cons y ys =>
      simp only [List.isEmpty_cons, Bool.false_eq_true, if_false]
      refine ⟨_, ?_, rfl⟩
      unfold addNode
      simp only [List.getLast?_cons_cons]
      split
      · split
        · rw [List.dropLast_cons_cons]; rfl
        · rfl
      · rfl

/-! ### the proposition -/

/-- the state the count of level `i` starts from -/
def cohStart (g : Nat) (base : List FItem) (i : Nat) : Option Nat :=
  if i ≤ g then (base[i]?).bind (·.st) else some 0

/-- the children counted at level `i` -/
def cohKids (D g i : Nat) (frag : List Node) : List Node :=
  if i ≤ g ∧ i < D then frag.drop 1 else frag

/-- what coherence says about one level -/
def LevelOK (S : Schema) (D g : Nat) (base : List FItem) (i : Nat) (it : FItem) (frag : List Node) : Prop :=
  (∃ s q, cohStart g base i = some s ∧ it.st = some q ∧
      (S.dfa it.ty).run s (S.types (cohKids D g i frag)) = some q) ∧
  (i ≤ g → i < D → ∃ t a m k tl, frag = .elem t a m k :: tl)

def Coh (S : Schema) (D g : Nat) (base : List FItem) : Nat → List FItem → List Node → Prop
  | _, [], _ => True
  | i, it :: rest, frag =>
    LevelOK S D g base i it frag ∧
    (match rest with
     | [] => True
     | nxt :: _ => ∃ t a m k, frag.getLast? = some (.elem t a m k) ∧ t = nxt.ty ∧ Coh S D g base (i + 1) rest k)

theorem LevelOK_congr_g {S : Schema} {D g g' : Nat} {base : List FItem} {i : Nat} {it : FItem} {frag : List Node}
    (h : i ≤ g ↔ i ≤ g') (hl : LevelOK S D g base i it frag) : LevelOK S D g' base i it frag := by
  unfold LevelOK cohStart cohKids at *
  simp only [h] at hl
  exact hl

/-- the ghost level only matters for the levels that exist -/
theorem Coh_congr_g (S : Schema) (D g g' : Nat) (base : List FItem) : ∀ (fr : List FItem) (i : Nat) (frag : List Node),
    (∀ j, i ≤ j → j < i + fr.length → (j ≤ g ↔ j ≤ g')) → Coh S D g base i fr frag → Coh S D g' base i fr frag
  | [], _, _, _, _ => trivial
  | it :: rest, i, frag, hg, ⟨h1, h2⟩ => by
    refine ⟨LevelOK_congr_g (hg i (Nat.le_refl _) (by simp)) h1, ?_⟩
    cases rest with
    | nil => trivial
    | cons nxt rest' =>
      obtain ⟨t, a, m, k, hl, ht, hc⟩ := h2
      exact ⟨t, a, m, k, hl, ht, Coh_congr_g S D g g' base (nxt :: rest') (i + 1) k
        (fun j h1 h2 => hg j (by omega) (by simp only [List.length_cons] at h2 ⊢; omega)) hc⟩

/-- closing the top level: the levels below stay coherent -/
theorem Coh_prefix (S : Schema) (D g : Nat) (base : List FItem) (x : FItem) : ∀ (fr : List FItem) (i : Nat)
    (frag : List Node), Coh S D g base i (fr ++ [x]) frag → Coh S D g base i fr frag
  | [], _, _, _ => trivial
  | it :: rest, i, frag, ⟨h1, h2⟩ => by
    refine ⟨h1, ?_⟩
    cases rest with
    | nil => trivial
    | cons nxt rest' =>
      obtain ⟨t, a, m, k, hl, ht, hc⟩ := h2
      exact ⟨t, a, m, k, hl, ht, Coh_prefix S D g base x (nxt :: rest') (i + 1) k hc⟩

/-- replacing the children of the last node of a fragment keeps what a level says about the fragment -/
theorem LevelOK_replace_last {S : Schema} {D g : Nat} {base : List FItem} {i : Nat} {it : FItem}
    (init : List Node) (t : TypeId) (a : Attrs) (m : Marks) (k k' : List Node)
    (h : LevelOK S D g base i it (init ++ [.elem t a m k])) : LevelOK S D g base i it (init ++ [.elem t a m k']) := by
  obtain ⟨⟨s, q, h1, h2, h3⟩, h4⟩ := h
  have htypes : ∀ (kk : List Node), S.types (cohKids D g i (init ++ [.elem t a m kk])) =
      S.types (cohKids D g i (init ++ [.elem t a m k])) := by
    intro kk
    unfold cohKids
    split
    · cases init with
      | nil => rfl
      | cons y ys => simp [Schema.types, Schema.tyOf, Node.tyOr]
    · simp [Schema.types, Schema.tyOf, Node.tyOr]
  refine ⟨⟨s, q, h1, h2, by rw [htypes k']; exact h3⟩, ?_⟩
  intro hg hd
  obtain ⟨t0, a0, m0, k0, tl, he⟩ := h4 hg hd
  cases init with
  | nil =>
    simp only [List.nil_append, List.cons.injEq, Node.elem.injEq] at he
    exact ⟨t, a, m, k', [], rfl⟩
  | cons y ys =>
    simp only [List.cons_append, List.cons.injEq] at he
    exact ⟨t0, a0, m0, k0, ys ++ [.elem t a m k'], by rw [he.1]; rfl⟩

/-- adding below the levels of the frontier (inside the node that was just closed) changes nothing -/
theorem Coh_deep (S : Schema) (D g : Nat) (base : List FItem) (c : List Node) : ∀ (fr : List FItem) (i d : Nat)
    (frag r : List Node), addToFragment frag d c = .ok r → fr.length ≤ d → Coh S D g base i fr frag →
    Coh S D g base i fr r
  | [], _, _, _, _, _, _, _ => trivial
  | it :: rest, i, 0, frag, r, _, hd, _ => by simp at hd
  | it :: rest, i, d + 1, frag, r, h, hd, ⟨h1, h2⟩ => by
    unfold addToFragment at h
    split at h
    · rename_i t a m kids hl
      obtain ⟨inner, hi, h⟩ := FM.bind_ok h
      have := pure_ok h
      subst this
      obtain ⟨init, rfl⟩ := List.getLast?_eq_some_iff.mp hl
      simp only [List.dropLast_concat]
      refine ⟨LevelOK_replace_last init t a m kids inner h1, ?_⟩
      cases rest with
      | nil => trivial
      | cons nxt rest' =>
        obtain ⟨t', a', m', k', hl', ht, hc⟩ := h2
        rw [hl] at hl'
        simp only [Option.some.injEq, Node.elem.injEq] at hl'
        obtain ⟨e1, _, _, e4⟩ := hl'
        rw [← e4] at hc
        refine ⟨t, a, m, inner, by simp, by rw [e1]; exact ht, ?_⟩
        exact Coh_deep S D g base c (nxt :: rest') (i + 1) d kids inner hi
          (by simp only [List.length_cons] at hd ⊢; omega) hc
    · simp [throw, throwThe, MonadExceptOf.throw] at h

/-- **any change at the top level**, by one induction over the levels below: if adding `X` at the depth
    of the top entry turns a coherent top level into a coherent `newTail`, the whole stays coherent -/
theorem Coh_top (S : Schema) (D g : Nat) (base : List FItem) (X : List Node) (top : FItem) (newTail : List FItem)
    (hty : ∀ x, newTail.head? = some x → x.ty = top.ty) (hne : newTail ≠ []) :
    ∀ (pre : List FItem) (i : Nat) (frag r : List Node), addToFragment frag pre.length X = .ok r →
    Coh S D g base i (pre ++ [top]) frag →
    (∀ F, Coh S D g base (i + pre.length) [top] F → Coh S D g base (i + pre.length) newTail (fappend F X)) →
    Coh S D g base i (pre ++ newTail) r
  | [], i, frag, r, h, hc, hnew => by
    have := pure_ok h
    subst this
    simpa using hnew frag (by simpa using hc)
  | it :: pre', i, frag, r, h, ⟨h1, h2⟩, hnew => by
    simp only [List.length_cons] at h
    unfold addToFragment at h
    split at h
    · rename_i t a m kids hl
      obtain ⟨inner, hi, h⟩ := FM.bind_ok h
      have := pure_ok h
      subst this
      obtain ⟨init, rfl⟩ := List.getLast?_eq_some_iff.mp hl
      simp only [List.dropLast_concat, List.cons_append]
      refine ⟨LevelOK_replace_last init t a m kids inner h1, ?_⟩
      have h2e : ∃ nxt rest', pre' ++ [top] = nxt :: rest' ∧ ∃ t' a' m' k',
          (init ++ [Node.elem t a m kids]).getLast? = some (.elem t' a' m' k') ∧ t' = nxt.ty ∧
          Coh S D g base (i + 1) (nxt :: rest') k' := by
        cases hp : pre' ++ [top] with
        | nil => simp at hp
        | cons nxt rest' =>
          have h2' := h2
          have hp' : pre'.append [top] = nxt :: rest' := hp
          rw [hp'] at h2'
          exact ⟨nxt, rest', rfl, h2'⟩
      obtain ⟨nxt0, rest0, hp, t', a', m', k', hl', ht, hc⟩ := h2e
      rw [hl] at hl'
      simp only [Option.some.injEq, Node.elem.injEq] at hl'
      obtain ⟨e1, _, _, e4⟩ := hl'
      rw [← e4, ← hp] at hc
      have hrec : Coh S D g base (i + 1) (pre' ++ newTail) inner :=
        Coh_top S D g base X top newTail hty hne pre' (i + 1) kids inner hi hc (by
          intro F hF
          have e : i + 1 + pre'.length = i + (pre'.length + 1) := by omega
          rw [e] at hF ⊢
          exact hnew F (by simpa using hF))
      -- the link between this level's last node and the next entry
      have hnt : nxt0.ty = t := by rw [← ht]; exact e1.symm
      have hlink : ∀ x, (pre' ++ newTail).head? = some x → x.ty = t := by
        intro x hx
        cases pre' with
        | nil =>
          simp only [List.nil_append] at hx hp
          simp only [List.cons.injEq] at hp
          rw [hty x hx, hp.1]; exact hnt
        | cons y ys =>
          simp only [List.cons_append, List.head?_cons, Option.some.injEq, List.cons.injEq] at hx hp
          rw [← hx, hp.1]; exact hnt
      cases hq : pre' ++ newTail with
      | nil =>
        exfalso
        cases pre' with
        | nil => exact hne (by simpa using hq)
        | cons y ys => simp at hq
      | cons nxt rest' =>
        rw [hq] at hrec hlink
        exact ⟨t, a, m, inner, by simp, (hlink nxt rfl).symm, hrec⟩
    · simp [throw, throwThe, MonadExceptOf.throw] at h

/-! ### the top level: adding nodes and setting the match; opening a node -/

/-- adding `from_array(Xraw)` at a coherent top level and setting the match to the state after `Xraw` -/
theorem Coh_base_add {S : Schema} (hts : TextStableP S) (D g : Nat) (base : List FItem) (j : Nat) (top : FItem)
    (q q' : Nat) (Xraw F : List Node) (hc : Coh S D g base j [top] F) (hq : top.st = some q)
    (hrun : (S.dfa top.ty).run q (S.types Xraw) = some q') :
    Coh S D g base j [⟨top.ty, some q'⟩] (fappend F (fromArray Xraw)) := by
  obtain ⟨⟨⟨s, q0, h1, h2, h3⟩, h4⟩, _⟩ := hc
  rw [hq] at h2
  simp only [Option.some.injEq] at h2
  subst h2
  refine ⟨⟨⟨s, q', h1, rfl, ?_⟩, ?_⟩, trivial⟩
  · simp only
    unfold cohKids at h3 ⊢
    by_cases hcnd : j ≤ g ∧ j < D
    · rw [if_pos hcnd] at h3 ⊢
      obtain ⟨t, a, m, k, tl, rfl⟩ := h4 hcnd.1 hcnd.2
      obtain ⟨tl', e1, e2⟩ := fappend_cons_elem_fit t a m k tl (fromArray Xraw)
      rw [e1, e2]
      simp only [List.drop_succ_cons, List.drop_zero] at h3 ⊢
      apply run_fappend_some hts
      rw [Dfa.run_append, h3]
      exact run_fromArray_some hts _ _ _ _ hrun
    · rw [if_neg hcnd] at h3 ⊢
      apply run_fappend_some hts
      rw [Dfa.run_append, h3]
      exact run_fromArray_some hts _ _ _ _ hrun
  · intro hg hd
    obtain ⟨t, a, m, k, tl, rfl⟩ := h4 hg hd
    obtain ⟨tl', e1, _⟩ := fappend_cons_elem_fit t a m k tl (fromArray Xraw)
    exact ⟨t, a, m, k, tl', e1⟩

theorem fromArray_singleton_elem (t : TypeId) (a : Attrs) (m : Marks) (k : List Node) :
    fromArray [.elem t a m k] = [.elem t a m k] := by
  simp [fromArray, addNodes, addNode_elem]

/-- opening a node without content above the ghost level -/
theorem Coh_base_open {S : Schema} (hts : TextStableP S) (D g : Nat) (base : List FItem) (j : Nat) (top : FItem)
    (q q' : Nat) (ty : TypeId) (a : Attrs) (F : List Node) (hc : Coh S D g base j [top] F) (hq : top.st = some q)
    (hm : (S.dfa top.ty).matchType q ty = some q') (hg : g < j + 1) :
    Coh S D g base j [⟨top.ty, some q'⟩, ⟨ty, some 0⟩] (fappend F [.elem ty a [] []]) := by
  have h1 := Coh_base_add hts D g base j top q q' [.elem ty a [] []] F hc hq (by
    simp only [Schema.types, List.map_cons, List.map_nil, Schema.tyOf, Node.tyOr]
    rw [Dfa.run_singleton]; exact hm)
  rw [fromArray_singleton_elem] at h1
  refine ⟨h1.1, ty, a, [], [], fappend_elem_last F ty a [] [], rfl, ⟨⟨⟨0, 0, ?_, rfl, ?_⟩, ?_⟩, trivial⟩⟩
  · unfold cohStart
    rw [if_neg (by omega)]
  · unfold cohKids
    rw [if_neg (by omega)]
    rfl
  · intro h0
    omega

/-! ### `close_frontier_node`, `open_frontier_node` on the whole state -/

theorem closeFrontierNode_coh (S : Schema) (D g : Nat) (base : List FItem) (fr : List FItem) (placed : List Node)
    (r : List FItem × List Node) (h : closeFrontierNode S fr placed = .ok r) (hc : Coh S D g base 0 fr placed) :
    r.1 = fr.dropLast ∧ Coh S D g base 0 r.1 r.2 := by
  unfold closeFrontierNode at h
  split at h
  · simp [throw, throwThe, MonadExceptOf.throw] at h
  · rename_i open_ hl
    obtain ⟨pre, rfl⟩ := List.getLast?_eq_some_iff.mp hl
    have hpre := Coh_prefix S D g base open_ pre 0 placed hc
    obtain ⟨q, _, h⟩ := FM.bind_ok h
    obtain ⟨add, _, h⟩ := FM.bind_ok h
    cases add with
    | none =>
      have := pure_ok h
      subst this
      exact ⟨rfl, by simpa using hpre⟩
    | some a =>
      simp only at h
      split at h
      · have := pure_ok h
        subst this
        exact ⟨rfl, by simpa using hpre⟩
      · obtain ⟨p, hp, h⟩ := FM.bind_ok h
        have := pure_ok h
        subst this
        refine ⟨rfl, ?_⟩
        simp only [List.dropLast_concat] at hp ⊢
        exact Coh_deep S D g base a pre 0 _ placed p hp (Nat.le_refl _) hpre

theorem closeMany_coh (S : Schema) (D g : Nat) (base : List FItem) : ∀ (n : Nat) (fr : List FItem)
    (placed : List Node) (r : List FItem × List Node), closeMany S n fr placed = .ok r →
    Coh S D g base 0 fr placed → Coh S D g base 0 r.1 r.2
  | 0, fr, placed, r, h, hc => by
    have := pure_ok h
    subst this; exact hc
  | n + 1, fr, placed, r, h, hc => by
    unfold closeMany at h
    obtain ⟨x, hx, h⟩ := FM.bind_ok h
    exact closeMany_coh S D g base n x.1 x.2 r h (closeFrontierNode_coh S D g base fr placed x hx hc).2

/-- `open_frontier_node(type)` (no attributes, no content) above the ghost level -/
theorem openFrontierNode_coh {S : Schema} (hts : TextStableP S) (D g : Nat) (base : List FItem) (pre : List FItem)
    (top : FItem) (placed : List Node) (ty : TypeId) (q q' : Nat) (hq : top.st = some q)
    (hm : (S.dfa top.ty).matchType q ty = some q') (hleaf : (S.nodeType ty).isLeaf = false)
    (hg : g < pre.length + 1) (r : List FItem × List Node)
    (h : openFrontierNode S (pre ++ [top]) placed ty none [] = .ok r)
    (hc : Coh S D g base 0 (pre ++ [top]) placed) :
    r.1 = pre ++ [⟨top.ty, some q'⟩, ⟨ty, some 0⟩] ∧ Coh S D g base 0 r.1 r.2 := by
  unfold openFrontierNode at h
  simp only [List.length_append, List.length_singleton, Nat.add_sub_cancel] at h
  obtain ⟨top0, hgi, h⟩ := FM.bind_ok h
  have ht0 : top0 = top := by
    have := getItem_ok hgi
    simpa using this.symm
  subst ht0
  obtain ⟨q0, hgs, h⟩ := FM.bind_ok h
  have hq0 : q0 = q := by
    have := getSt_ok hgs
    rw [hq] at this
    simpa using this.symm
  subst hq0
  obtain ⟨node, hnode, h⟩ := FM.bind_ok h
  obtain ⟨p, hp, h⟩ := FM.bind_ok h
  have := pure_ok h
  subst this
  have hn : ∃ a, node = .elem ty a [] [] := by
    unfold Schema.createNodeO at hnode
    split at hnode
    · simp [throw, throwThe, MonadExceptOf.throw] at hnode
    · split at hnode
      · rename_i aa _
        have := pure_ok hnode
        subst this
        refine ⟨aa, ?_⟩
        unfold Schema.mkNodeO
        simp only [hleaf, Bool.false_eq_true, if_false]
      · simp [throw, throwThe, MonadExceptOf.throw] at hnode
  obtain ⟨a, rfl⟩ := hn
  have hfr : (pre ++ [top0]).set pre.length ⟨top0.ty, (S.dfa top0.ty).matchType q0 ty⟩ ++ [⟨ty, some 0⟩] =
      pre ++ [⟨top0.ty, some q'⟩, ⟨ty, some 0⟩] := by
    rw [hm]
    simp
  refine ⟨hfr, ?_⟩
  simp only [hfr]
  exact Coh_top S D g base [.elem ty a [] []] top0 [⟨top0.ty, some q'⟩, ⟨ty, some 0⟩]
    (by intro x hx; simp at hx; rw [← hx]) (by simp) pre 0 placed p hp hc (by
      intro F hF
      exact Coh_base_open hts D g base (0 + pre.length) top0 q0 q' ty a F hF hq hm (by omega))

/-! ### opening a wrapper chain -/

theorem openMany_coh {S : Schema} (hts : TextStableP S) (D g : Nat) (base : List FItem) : ∀ (ws : List TypeId)
    (pre : List FItem) (top : FItem) (placed : List Node) (q : Nat), top.st = some q →
    ChainFrom S (S.dfa top.ty) q ws → g < pre.length + 1 → ∀ (r : List FItem × List Node),
    openMany S ws (pre ++ [top]) placed = .ok r → Coh S D g base 0 (pre ++ [top]) placed →
    Coh S D g base 0 r.1 r.2
  | [], pre, top, placed, q, _, _, _, r, h, hc => by
    have := pure_ok h
    subst this; exact hc
  | w :: ws, pre, top, placed, q, hq, ⟨hc1, hc2, hc3⟩, hg, r, h, hc => by
    unfold openMany at h
    obtain ⟨x, hx, h⟩ := FM.bind_ok h
    obtain ⟨q', hq'⟩ := Option.isSome_iff_exists.1 hc2
    have hleaf : (S.nodeType w).isLeaf = false := by
      simp only [Schema.wrappable, Bool.and_eq_true, Bool.not_eq_eq_eq_not, Bool.not_true] at hc1
      exact hc1.1
    obtain ⟨e1, e2⟩ := openFrontierNode_coh hts D g base pre top placed w q q' hq hq' hleaf hg x hx hc
    have e1' : x.1 = (pre ++ [⟨top.ty, some q'⟩]) ++ [⟨w, some 0⟩] := by rw [e1]; simp
    obtain ⟨x1, x2⟩ := x
    simp only at h e1' e2
    subst e1'
    exact openMany_coh hts D g base ws (pre ++ [⟨top.ty, some q'⟩]) ⟨w, some 0⟩ x2 0 rfl hc3
      (by simp; omega) r h e2

/-! ### the take loop's automaton-state bookkeeping -/

theorem tyOf_withKids (S : Schema) (n : Node) (k : List Node) : S.tyOf (n.withKids k) = S.tyOf n := by
  cases n <;> rfl

theorem tyOf_withMarks (S : Schema) (n : Node) (m : Marks) : S.tyOf (n.withMarks m) = S.tyOf n := by
  cases n <;> rfl

theorem closeNodeStart_tyOf (S : Schema) : ∀ (os : Nat) (node : Node) (oe : Int) (r : Node),
    closeNodeStart S os node oe = .ok r → S.tyOf r = S.tyOf node
  | 0, node, oe, r, h => by
    have := pure_ok h
    subst this; rfl
  | os + 1, node, oe, r, h => by
    unfold closeNodeStart at h
    obtain ⟨frag, _, h⟩ := FM.bind_ok h
    obtain ⟨fill, _, h⟩ := FM.bind_ok h
    obtain ⟨fill', _, h⟩ := FM.bind_ok h
    obtain ⟨tail, _, h⟩ := FM.bind_ok h
    have := pure_ok h
    subst this
    exact tyOf_withKids S node _

/-- the match the take loop returns is the state after the nodes it added (a skipped node does not
    advance it) -/
theorem takeLoop_run (S : Schema) (d : Dfa) (fty : TypeId) (os : Nat) (oec : Int) (total : Nat) :
    ∀ (rest : List Node) (taken q : Nat) (add : List Node) (tk : Nat × Nat × List Node),
    takeLoop S d fty os oec total rest taken q add = .ok tk →
    ∃ added, tk.2.2 = add ++ added ∧ d.run q (S.types added) = some tk.2.1
  | [], taken, q, add, tk, h => by
    have := pure_ok h
    subst this
    exact ⟨[], by simp, rfl⟩
  | next :: rest', taken, q, add, tk, h => by
    unfold takeLoop at h
    split at h
    · have := pure_ok h
      subst this
      exact ⟨[], by simp, rfl⟩
    · rename_i q' hm
      simp only at h
      split at h
      · obtain ⟨n, hn, h⟩ := FM.bind_ok h
        obtain ⟨added, e1, e2⟩ := takeLoop_run S d fty os oec total rest' _ q' _ tk h
        refine ⟨n :: added, by rw [e1]; simp, ?_⟩
        have hty : S.tyOf n = S.tyOf next := by
          rw [closeNodeStart_tyOf S _ _ _ n hn, tyOf_withMarks]
        simp only [Schema.types, List.map_cons, hty, Dfa.run, hm]
        exact e2
      · exact takeLoop_run S d fty os oec total rest' _ q _ tk h

/-! ### groundwork for the missing case (`open_end_count > 0`) -/

/-- `fill_before(after)` (not to the end) answers the empty filling when `after` matches as it is:
    `close_node_start` puts nothing in front of the children of a node whose children are a matchable
    beginning of its content — the node `place_nodes` pushes the open end of -/
theorem fillBeforeTypes_nil_of_run (S : Schema) (d : Dfa) (q : Nat) (after : List TypeId) (r : Nat)
    (h : d.run q after = some r) : fillBeforeTypes S d q after false = some [] := by
  unfold fillBeforeTypes
  simp [fillSearchO, h]

theorem fillOpt_nil_of_run (S : Schema) (d : Dfa) (q : Nat) (after : List TypeId) (r : Nat)
    (h : d.run q after = some r) : fillOpt S d q after false = .ok (some []) := by
  unfold fillOpt fillBeforeNodes
  rw [fillBeforeTypes_nil_of_run S d q after r h]
  rfl

/-! ### the pushed open end is coherent with the `close_node_start` image of the last node -/

theorem withMarks_self (n : Node) : n.withMarks n.marks = n := by
  cases n <;> rfl

theorem types_cons_congr (S : Schema) (c c' : Node) (rest : List Node) (h : S.tyOf c' = S.tyOf c) :
    S.types (c' :: rest) = S.types (c :: rest) := by
  simp [Schema.types, h]

theorem fappend_nil_left (b : List Node) : fappend [] b = b := by
  unfold fappend
  cases b <;> simp

/-- **walking the last-child chain**: the entries `place_nodes` pushes for the open end of the last
    placed node (read off the *slice's* node `ln`) are coherent with the children of its
    `close_node_start` image `r` — `content_match_at(child_count)` succeeding means `fill_before`
    added nothing in front (`fillOpt_nil_of_run`), and types are kept along the chain -/
theorem pushOpenEnd_coh (S : Schema) (D g : Nat) (base : List FItem) : ∀ (n : Nat) (cur : List Node)
    (fr0 fr' : List FItem) (ln : Node) (os' : Nat) (mk : Marks) (r : Node) (j : Nat),
    pushOpenEnd S (n + 1) cur fr0 = .ok fr' → cur.getLast? = some ln → rspineOK (n + 1) [ln] →
    closeNodeStart S os' (ln.withMarks mk) ((n + 1 : Nat) : Int) = .ok r → g < j →
    ∃ pushed t a m kk, fr' = fr0 ++ pushed ∧ r = .elem t a m kk ∧ (∃ e rest, pushed = e :: rest ∧ e.ty = t) ∧
      Coh S D g base j pushed kk
  | n, cur, fr0, fr', ln, os', mk, r, j, hpush, hl, ⟨t, a, m0, kids, h1, h2⟩, himg, hg => by
    simp only [List.getLast?_singleton, Option.some.injEq] at h1
    subst h1
    -- the entry pushed for `ln`
    unfold pushOpenEnd at hpush
    rw [hl] at hpush
    simp only at hpush
    obtain ⟨q, hq, hpush⟩ := FM.bind_ok hpush
    have hq := liftRaise_ok hq
    simp only [Schema.contentMatchAt, Node.kids, List.take_length, Schema.tyOf, Node.tyOr] at hq hpush
    -- the image: its children are the node's children with the first one possibly closed, no fill in front
    have himg' : ∃ kk, r = .elem t a mk kk ∧ S.types kk = S.types kids ∧
        (∀ (ln2 : Node), kids.getLast? = some ln2 → ∀ n', n = n' + 1 →
          ∃ os2 r2, kk.getLast? = some r2 ∧
            closeNodeStart S os2 (ln2.withMarks ln2.marks) ((n' + 1 : Nat) : Int) = .ok r2) := by
      cases os' with
      | zero =>
        have := pure_ok himg
        subst this
        refine ⟨kids, rfl, rfl, ?_⟩
        intro ln2 hl2 n' _
        exact ⟨0, ln2, hl2, by rw [withMarks_self]; rfl⟩
      | succ os =>
        simp only [Node.withMarks] at himg
        unfold closeNodeStart at himg
        simp only [Node.kids, Schema.tyOf, Node.tyOr] at himg
        obtain ⟨frag, hfrag, himg⟩ := FM.bind_ok himg
        obtain ⟨fill, hfill, himg⟩ := FM.bind_ok himg
        obtain ⟨fill', hfill', himg⟩ := FM.bind_ok himg
        obtain ⟨tail, htail, himg⟩ := FM.bind_ok himg
        have := pure_ok himg
        subst this
        have htl : tail = [] := by
          rw [if_neg (by omega)] at htail
          exact (pure_ok htail).symm
        subst htl
        -- the fragment after the start was closed: same types, last node = image of the last node
        have hf : S.types frag = S.types kids ∧
            (∀ (ln2 : Node), kids.getLast? = some ln2 → ∀ n', n = n' + 1 →
              ∃ os2 r2, frag.getLast? = some r2 ∧
                closeNodeStart S os2 (ln2.withMarks ln2.marks) ((n' + 1 : Nat) : Int) = .ok r2) := by
          by_cases hos : os = 0
          · rw [if_pos hos] at hfrag
            have := pure_ok hfrag
            subst this
            refine ⟨rfl, ?_⟩
            intro ln2 hl2 n' _
            exact ⟨0, ln2, hl2, by rw [withMarks_self]; rfl⟩
          · rw [if_neg hos] at hfrag
            cases kids with
            | nil => simp [throw, throwThe, MonadExceptOf.throw] at hfrag
            | cons c rest =>
              simp only at hfrag
              obtain ⟨c', hc', hfrag⟩ := FM.bind_ok hfrag
              have := pure_ok hfrag
              subst this
              refine ⟨types_cons_congr S c c' rest (closeNodeStart_tyOf S os c _ c' hc'), ?_⟩
              intro ln2 hl2 n' hn'
              cases rest with
              | nil =>
                simp only [List.getLast?_singleton, Option.some.injEq] at hl2
                subst hl2
                simp only [List.length_singleton, beq_self_eq_true, if_true] at hc'
                subst hn'
                have e : ((n' + 1 + 1 : Nat) : Int) - 1 = ((n' + 1 : Nat) : Int) := by omega
                rw [e] at hc'
                exact ⟨os, c', rfl, by rw [withMarks_self]; exact hc'⟩
              | cons y ys =>
                rw [List.getLast?_cons_cons] at hl2
                exact ⟨0, ln2, by rw [List.getLast?_cons_cons]; exact hl2, by rw [withMarks_self]; rfl⟩
        -- nothing is filled in front: the children match as they are
        have hfill0 : fill' = [] := by
          rw [hf.1] at hfill
          rw [fillOpt_nil_of_run S _ 0 _ q hq] at hfill
          simp only [Except.ok.injEq] at hfill
          subst hfill
          exact (pure_ok hfill').symm
        subst hfill0
        refine ⟨frag, ?_, hf.1, hf.2⟩
        simp only [Node.withKids, fappend_nil_left]
        have e : ∀ x : List Node, fappend x [] = x := fun x => rfl
        rw [e]
    obtain ⟨kk, hr, hty, hnext⟩ := himg'
    have hlevel : LevelOK S D g base j ⟨t, some q⟩ kk := by
      refine ⟨⟨0, q, ?_, rfl, ?_⟩, fun h0 => by omega⟩
      · unfold cohStart; rw [if_neg (by omega)]
      · unfold cohKids; rw [if_neg (by omega), hty]; exact hq
    cases n with
    | zero =>
      have := pure_ok hpush
      subst this
      exact ⟨[⟨t, some q⟩], t, a, mk, kk, rfl, hr, ⟨_, _, rfl, rfl⟩, hlevel, trivial⟩
    | succ n' =>
      obtain ⟨t2, a2, m2, k2, hl2, hs2⟩ := h2
      obtain ⟨os2, r2, hkl, himg2⟩ := hnext _ hl2 n' rfl
      obtain ⟨pushed', t3, a3, m3, kk3, e1, e2, ⟨e0, rest0, e3, e4⟩, e5⟩ :=
        pushOpenEnd_coh S D g base n' kids _ fr' (.elem t2 a2 m2 k2) os2 m2 r2 (j + 1) hpush hl2
          ⟨t2, a2, m2, k2, rfl, hs2⟩ himg2 (by omega)
      refine ⟨⟨t, some q⟩ :: pushed', t, a, mk, kk, by rw [e1]; simp, hr, ⟨_, _, rfl, rfl⟩, hlevel, ?_⟩
      rw [e3]
      simp only
      rw [e2] at hkl
      exact ⟨t3, a3, m3, kk3, hkl, e4.symm, by rw [← e3]; exact e5⟩

/-- what the take loop added last, when `place_nodes` pushes `k + 1` levels: the `close_node_start` image of
    the last node of the fragment, whose last-child chain has `k + 1` levels (the facts behind
    `placeTaken_spine`, Proofs/FitInStep.lean) -/
theorem placeTaken_last (S : Schema) (d : Dfa) (fty : TypeId) (u : Slice) (sd : Nat) (frag : List Node)
    (hcon : contentAt u.content sd = .ok frag) (hne : frag ≠ [])
    (hU1 : u.openEnd ≤ spineR u.content) (hU2 : u.openStart ≤ spineL u.content)
    (hsz : (u.size == 0) = false) (k : Nat)
    (hk : ((fsize frag : Int) + sd) - ((fsize u.content : Int) - u.openEnd) = ((k + 1 : Nat) : Int))
    (q1 : Nat) (add0 : List Node) (tk : Nat × Nat × List Node)
    (htk : takeLoop S d fty (u.openStart - sd) ((k + 1 : Nat) : Int) frag.length frag 0 q1 add0 = .ok tk)
    (htoEnd : tk.1 = frag.length) :
    rspineOK (k + 1) frag ∧ ∃ pre r ln os', frag.getLast? = some ln ∧ tk.2.2 = pre ++ [r] ∧
      closeNodeStart S os' (ln.withMarks ((S.nodeType fty).allowedMarks ln.marks)) ((k + 1 : Nat) : Int) = .ok r := by
  obtain ⟨hpure, hsd⟩ := pure_of_size sd u.content frag u.openEnd hcon hne hU1 (by omega)
  have e1 := pureTo_spineR sd _ _ hpure
  have e2 := pureTo_fsize sd _ _ hpure
  have e3 := pureTo_spineL sd _ _ hpure
  have hkoe : k + 1 + sd = u.openEnd := by omega
  have hsp : rspineOK (k + 1) frag := spineR_rspineOK _ _ (by omega)
  refine ⟨hsp, ?_⟩
  rcases takeLoop_last S d fty _ _ _ frag 0 q1 add0 tk htk htoEnd (by simp) hne with
    ⟨_, ⟨n, hn, hnk⟩, hos, _⟩ | ⟨pre, r, ln, os', hl, hadd, hc⟩
  · exfalso
    subst hn
    obtain ⟨t, a, m, kids, h1, _⟩ := hsp
    simp only [List.getLast?_singleton, Option.some.injEq] at h1
    subst h1
    simp only [Node.kids] at hnk
    obtain ⟨z1, z2⟩ := fsize_zero_spine kids hnk
    rw [spineR_singleton_elem, z1] at e1
    simp only [spineL, z2] at e3
    simp only [fsize, Node.size_elem, hnk] at e2
    simp only [Slice.size, beq_eq_false_iff_ne, ne_eq] at hsz
    apply hsz
    omega
  · exact ⟨pre, r, ln, os', hl, hadd, hc⟩

/-! ### `place_nodes` keeps coherence -/

theorem pushOpenEnd_len (S : Schema) : ∀ (n : Nat) (cur : List Node) (fr fr' : List FItem),
    pushOpenEnd S n cur fr = .ok fr' → fr'.length = fr.length + n
  | 0, cur, fr, fr', h => by
    have := pure_ok h
    subst this; rfl
  | n + 1, cur, fr, fr', h => by
    unfold pushOpenEnd at h
    split at h
    · simp [throw, throwThe, MonadExceptOf.throw] at h
    · rename_i node _
      obtain ⟨q, _, h⟩ := FM.bind_ok h
      have := pushOpenEnd_len S n node.kids _ fr' h
      simp at this
      omega

theorem take_succ_of_getElem? {α : Type} (l : List α) (n : Nat) (x : α) (h : l[n]? = some x) :
    l.take (n + 1) = l.take n ++ [x] := by
  rw [List.take_add_one, h]; rfl

theorem set_self_of_getElem? {α : Type} : ∀ (l : List α) (n : Nat) (x : α), l[n]? = some x → l.set n x = l
  | [], _, _, h => by simp at h
  | a :: l, 0, x, h => by simp at h; simp [h]
  | a :: l, n + 1, x, h => by
    simp only [List.getElem?_cons_succ] at h
    simp [set_self_of_getElem? l n x h]

theorem set_append_last {α : Type} (pre : List α) (x y : α) : (pre ++ [x]).set pre.length y = pre ++ [y] := by
  induction pre with
  | nil => rfl
  | cons a l ih => simp [ih]

/-- **`place_nodes` keeps the frontier coherent with `placed`** (the unplaced slice well-formed and not of
    size 0, as for `placeNodes_inStep`) -/
theorem placeNodes_coh {S : Schema} (hts : TextStableP S) (hdet : DetS S) (hf : FillersOK S) (hw : WrapOK S)
    (hlab : LabelsOK S) (D g : Nat) (base : List FItem) (st : FitState) (inv : InStep st)
    (hcoh : Coh S D g base 0 st.frontier st.placed)
    (hU1 : st.unplaced.openEnd ≤ spineR st.unplaced.content)
    (hU2 : st.unplaced.openStart ≤ spineL st.unplaced.content) (hsz : (st.unplaced.size == 0) = false)
    (f : Fittable) (hfit : findFittable S st = .ok (some f)) (st' : FitState)
    (h : placeNodes S st f = .ok st') :
    ∃ g', g' ≤ g ∧ Coh S D g' base 0 st'.frontier st'.placed := by
  obtain ⟨lvl, it, hsd, hlvl, hpar, hit, kind, _⟩ := findFittable_kind S st f hfit
  have hfragment := fragment_eq_lvl hlvl hpar
  have hfdlt : f.frontierDepth < st.frontier.length := by
    rcases Nat.lt_or_ge f.frontierDepth st.frontier.length with h1 | h1
    · exact h1
    · rw [List.getElem?_eq_none h1] at hit; simp at hit
  obtain ⟨c1, hc1, hc1f, hc1s⟩ := closeMany_ok S hdet hf (st.frontier.length - 1 - f.frontierDepth)
    st.frontier st.placed inv.frok (by omega) inv.sp
  let pre := st.frontier.take f.frontierDepth
  have hprelen : pre.length = f.frontierDepth := by
    simp only [pre, List.length_take]; omega
  have hc1f' : c1.1 = pre ++ [it] := by
    rw [hc1f, show st.frontier.length - (st.frontier.length - 1 - f.frontierDepth) = f.frontierDepth + 1 by omega]
    exact take_succ_of_getElem? _ _ _ hit
  have hc1len : c1.1.length = f.frontierDepth + 1 := by rw [hc1f']; simp [hprelen]
  have hc1ok : FrOK c1.1 := by rw [hc1f]; exact inv.frok.take _
  have hc1last : c1.1.getLast? = some it := by rw [hc1f']; simp
  obtain ⟨q, hq⟩ := inv.frok it (List.mem_of_getElem? hit)
  -- coherence after closing, with the ghost level cut down to the fittable's depth
  have hcoh1 : Coh S D (min g f.frontierDepth) base 0 c1.1 c1.2 := by
    refine Coh_congr_g S D g _ base c1.1 0 c1.2 ?_ (closeMany_coh S D g base _ _ _ c1 hc1 hcoh)
    intro j _ hj
    rw [hc1len] at hj
    omega
  have hchain : ChainFrom S (S.dfa it.ty) q (f.wrap.getD []) := by
    cases kind with
    | direct _ _ _ _ _ _ hwn => rw [hwn]; trivial
    | inject _ _ _ _ _ _ _ hwn => rw [hwn]; trivial
    | empty _ _ _ _ hwn => rw [hwn]; trivial
    | wrap fst q' w hfst hq' hfw _ hwn =>
      rw [hwn]
      rw [hq] at hq'
      simp only [Option.some.injEq] at hq'
      subst hq'
      exact findWrappingTypes_chain S _ _ _ w hfw
  obtain ⟨c2, hc2, hc2ok, hc2len, hc2s, _, hc2pre, hc2top⟩ :=
    openMany_ok S hw (f.wrap.getD []) c1.1 c1.2 it q hc1last hq hchain hc1ok hc1s
  rw [hc1len] at hc2len hc2top
  simp only [Nat.add_sub_cancel] at hc2top
  have hcoh2 : Coh S D (min g f.frontierDepth) base 0 c2.1 c2.2 := by
    have h2 := hc2
    rw [hc1f'] at h2
    refine openMany_coh hts D _ base (f.wrap.getD []) pre it c1.2 q hq hchain (by rw [hprelen]; omega) c2 h2 ?_
    rw [← hc1f']; exact hcoh1
  have hitem : ∃ item q0, c2.1[f.frontierDepth]? = some item ∧ item.st = some q0 ∧ item.ty = it.ty ∧
      (f.wrap.getD [] = [] → item = it ∧ q0 = q) ∧
      (∀ w0 rest, f.wrap.getD [] = w0 :: rest → (S.dfa it.ty).matchType q w0 = some q0) := by
    cases hws : f.wrap.getD [] with
    | nil =>
      rw [hws] at hc2
      have := pure_ok hc2
      subst this
      have : c1.1[f.frontierDepth]? = some it := by rw [hc1f']; simp [← hprelen]
      exact ⟨it, q, this, hq, rfl, fun _ => ⟨rfl, rfl⟩, fun _ _ h => by simp at h⟩
    | cons w0 rest =>
      have htop := hc2top w0 rest hws
      rw [hws] at hchain
      obtain ⟨q', hq'⟩ := Option.isSome_iff_exists.1 hchain.2.1
      refine ⟨_, q', htop, by simp [hq'], rfl, fun h => by simp at h, ?_⟩
      intro w0' rest' h
      simp only [List.cons.injEq] at h
      rw [← h.1]; exact hq'
  obtain ⟨item0, q00, hitem0, hitq0, hitty0, hq0nil, hq0cons⟩ := hitem
  unfold placeNodes at h
  rw [FM.bind_eq hc1, FM.bind_eq hc2] at h
  simp only [hfragment] at h
  obtain ⟨item, hgi, h⟩ := FM.bind_ok h
  have hie : item = item0 := by
    have := getItem_ok hgi
    rw [hitem0] at this
    simpa using this.symm
  subst hie
  obtain ⟨q0, hgs, h⟩ := FM.bind_ok h
  have hq0e : q0 = q00 := by
    have := getSt_ok hgs
    rw [hitq0] at this
    simpa using this.symm
  subst hq0e
  obtain ⟨q1, hq1, h⟩ := FM.bind_ok h
  have hq1 := liftRaise_ok hq1
  obtain ⟨tk, htk, h⟩ := FM.bind_ok h
  obtain ⟨p, hp, h⟩ := FM.bind_ok h
  obtain ⟨top, _, h⟩ := FM.bind_ok h
  obtain ⟨c3, hc3, h⟩ := FM.bind_ok h
  obtain ⟨fr4, hpush, h⟩ := FM.bind_ok h
  obtain ⟨u', _, h⟩ := FM.bind_ok h
  have := pure_ok h
  subst this
  simp only
  have hset_len : (c2.1.set f.frontierDepth ⟨item.ty, some tk.2.1⟩).length = c2.1.length := List.length_set
  have hset_ok : FrOK (c2.1.set f.frontierDepth ⟨item.ty, some tk.2.1⟩) := FrOK_set hc2ok _ _ ⟨_, rfl⟩
  cases hws : f.wrap.getD [] with
  | cons w0 rest =>
    rw [hws] at hc2len
    -- wrappers were opened: nothing is taken, the frontier entry keeps its match
    have hnothing : tk = (0, q1, []) ∧ lvl.2 ≠ [] ∧ q1 = q0 := by
      cases kind with
      | direct _ _ _ _ _ _ hwn => rw [hwn] at hws; simp at hws
      | inject _ _ _ _ _ _ _ hwn => rw [hwn] at hws; simp at hws
      | empty _ _ _ _ hwn => rw [hwn] at hws; simp at hws
      | wrap fst q' w hfst hq' hfw hinj hwn =>
        rw [hwn] at hws
        simp only [Option.getD_some] at hws
        subst hws
        rw [hq] at hq'
        simp only [Option.some.injEq] at hq'
        subst hq'
        obtain ⟨rest', hl2⟩ : ∃ rest', lvl.2 = fst :: rest' := by
          cases hl : lvl.2 with
          | nil => rw [hl] at hfst; simp at hfst
          | cons a l => rw [hl] at hfst; simp at hfst; subst hfst; exact ⟨l, rfl⟩
        have hm0 := hq0cons w0 rest (by rw [hwn]; rfl)
        have hnm : (S.dfa it.ty).matchType q0 (S.tyOf fst) = none := by
          by_cases hx : S.tyOf fst < S.nodes.size
          · exact hw.2 it.ty q (S.tyOf fst) w0 rest q0 hx hfw hm0
          · cases hmm : (S.dfa it.ty).matchType q0 (S.tyOf fst) with
            | none => rfl
            | some y => exact absurd (hlab it.ty q0 _ (Dfa.mem_of_matchType hmm)) hx
        have hq1' : q1 = q0 := by
          rw [hinj] at hq1
          simpa [Schema.types, Dfa.run] using hq1.symm
        rw [hl2, hinj, hq1', hitty0, takeLoop_nomatch S _ _ _ _ _ fst rest' 0 q0 _ hnm] at htk
        have := pure_ok htk
        rw [hl2, ← this, hq1']
        exact ⟨rfl, by simp, rfl⟩
    obtain ⟨htk0, hlne, hq10⟩ := hnothing
    subst htk0
    subst hq10
    have hsp' : rspineOK f.frontierDepth c2.2 := rspineOK_le _ _ _ (by rw [hc2len]; simp only [List.length_cons]; omega) hc2s
    have hpe : p = c2.2 := by
      have := addToFragment_nil _ _ hsp'
      simp only [fromArray, addNodes, List.foldl_nil] at hp
      rw [this] at hp
      simpa using hp.symm
    subst hpe
    have hsetid : c2.1.set f.frontierDepth ⟨item.ty, some q1⟩ = c2.1 := by
      have : (⟨item.ty, some q1⟩ : FItem) = item := by
        cases item with
        | mk ty st => simp only at hitq0; rw [hitq0]
      rw [this]
      exact set_self_of_getElem? _ _ _ hitem0
    rw [hsetid] at hc3
    have hte : ((0 : Nat) == lvl.2.length) = false := by
      cases hl : lvl.2 with
      | nil => exact absurd hl hlne
      | cons a l => rfl
    simp only [hte, Bool.false_and, Bool.false_eq_true, if_false] at hc3 hpush
    have := pure_ok hc3
    subst this
    have e0 : (-1 : Int).toNat = 0 := rfl
    rw [e0] at hpush
    have := pure_ok hpush
    subst this
    exact ⟨_, Nat.min_le_left _ _, hcoh2⟩
  | nil =>
    rw [hws] at hc2len
    simp only [List.length_nil, Nat.add_zero] at hc2len
    obtain ⟨hie, hqe⟩ := hq0nil hws
    subst hie
    subst hqe
    have hc2e : c2 = c1 := by
      rw [hws] at hc2
      exact (pure_ok hc2).symm
    subst hc2e
    -- what was added and the match after it
    obtain ⟨added, ha1, ha2⟩ := takeLoop_run S _ _ _ _ _ _ _ _ _ tk htk
    have hrun : (S.dfa item.ty).run q0 (S.types tk.2.2) = some tk.2.1 := by
      rw [ha1, types_append, Dfa.run_append, hq1]
      exact ha2
    have hfr3 : c2.1.set f.frontierDepth ⟨item.ty, some tk.2.1⟩ = pre ++ [⟨item.ty, some tk.2.1⟩] := by
      rw [hc1f', ← hprelen]
      exact set_append_last pre item _
    have hcoh3 : Coh S D (min g f.frontierDepth) base 0 (pre ++ [⟨item.ty, some tk.2.1⟩]) p := by
      have hp' := hp
      rw [← hprelen] at hp'
      refine Coh_top S D _ base (fromArray tk.2.2) item [⟨item.ty, some tk.2.1⟩]
        (by intro x hx; simp at hx; rw [← hx]) (by simp) pre 0 c2.2 p hp' (by rw [← hc1f']; exact hcoh1) ?_
      intro F hF
      exact Coh_base_add hts D _ base _ item q0 tk.2.1 tk.2.2 F hF hitq0 hrun
    rw [hfr3] at hc3
    cases hk : ((if (tk.1 == lvl.2.length) = true then
        ((fsize lvl.2 : Int) + f.sliceDepth) - ((fsize st.unplaced.content : Int) - st.unplaced.openEnd)
        else -1) : Int).toNat with
    | zero =>
      rw [hk] at hpush
      have := pure_ok hpush
      subst this
      rcases ite_ok_cases hc3 with ⟨_, hc3'⟩ | ⟨_, hc3'⟩
      · obtain ⟨_, e2⟩ := closeFrontierNode_coh S D _ base _ p c3 hc3' hcoh3
        exact ⟨_, Nat.min_le_left _ _, e2⟩
      · have := pure_ok hc3'
        subst this
        exact ⟨_, Nat.min_le_left _ _, hcoh3⟩
    | succ k =>
      have hte : (tk.1 == lvl.2.length) = true := by
        cases hb : (tk.1 == lvl.2.length) with
        | true => rfl
        | false => rw [hb] at hk; simp at hk
      rw [hte] at hk
      simp only [if_true] at hk
      have hoec : ((fsize lvl.2 : Int) + f.sliceDepth) - ((fsize st.unplaced.content : Int) - st.unplaced.openEnd)
          = ((k + 1 : Nat) : Int) := by omega
      simp only [hte, if_true, hoec] at hc3 hpush htk
      have hnn : ¬ (((k + 1 : Nat) : Int) < 0) := by omega
      simp only [hnn, decide_false, Bool.false_and, Bool.and_false, Bool.false_eq_true, if_false] at hc3
      have := pure_ok hc3
      subst this
      simp only [Int.toNat_natCast] at hpush
      rw [hfr3] at hset_ok
      obtain ⟨_, _, hne4⟩ := pushOpenEnd_spec S (k + 1) lvl.2 _ fr4 hpush hset_ok
      obtain ⟨hsp, pre', r, ln, os', hl, hadd, hcl⟩ := placeTaken_last S (S.dfa item.ty) item.ty st.unplaced
        f.sliceDepth lvl.2 (sliceLevel_contentAt hlvl) (hne4 (by omega)) hU1 hU2 hsz k hoec q1 (f.inject.getD []) tk htk
        (by simpa using hte)
      obtain ⟨pushed, t, a, m, kk, e1, e2, ⟨e0, rest0, e3, e4⟩, e5⟩ :=
        pushOpenEnd_coh S D (min g f.frontierDepth) base k lvl.2 _ fr4 ln os' _ r (0 + pre.length + 1) hpush hl
          (rspineOK_singleton_of_last hl hsp) hcl (by rw [hprelen]; omega)
      subst e2
      have hp' := hp
      rw [← hprelen] at hp'
      have hfin : Coh S D (min g f.frontierDepth) base 0 (pre ++ (⟨item.ty, some tk.2.1⟩ :: pushed)) p := by
        refine Coh_top S D _ base (fromArray tk.2.2) item (⟨item.ty, some tk.2.1⟩ :: pushed)
          (by intro x hx; simp at hx; rw [← hx]) (by simp) pre 0 c2.2 p hp' (by rw [← hc1f']; exact hcoh1) ?_
        intro F hF
        have hb := Coh_base_add hts D _ base _ item q0 tk.2.1 tk.2.2 F hF hitq0 hrun
        refine ⟨hb.1, ?_⟩
        rw [e3]
        simp only
        refine ⟨t, a, m, kk, ?_, e4.symm, by rw [← e3]; exact e5⟩
        rw [hadd]
        exact fappend_getLast_elem F _ t a m kk (fromArray_append_elem pre' t a m kk)
      refine ⟨min g f.frontierDepth, Nat.min_le_left _ _, ?_⟩
      rw [e1]
      simpa using hfin

/-! ### the state `Fitter.__init__` builds is coherent; every iteration that pushes no open end keeps it -/

theorem mapM_FM_getElem {α β : Type} (f : α → FM β) : ∀ (l : List α) (r : List β), l.mapM f = .ok r →
    r.length = l.length ∧ ∀ (j : Nat) (a : α), l[j]? = some a → ∃ b, f a = .ok b ∧ r[j]? = some b
  | [], r, h => by
    simp only [List.mapM_nil] at h
    have := pure_ok h
    subst this
    exact ⟨rfl, fun j a hj => by simp at hj⟩
  | x :: l, r, h => by
    simp only [List.mapM_cons] at h
    obtain ⟨b, hb, h⟩ := FM.bind_ok h
    obtain ⟨bs, hbs, h⟩ := FM.bind_ok h
    have := pure_ok h
    subst this
    obtain ⟨ih1, ih2⟩ := mapM_FM_getElem f l bs hbs
    refine ⟨by simp [ih1], ?_⟩
    intro j a hj
    cases j with
    | zero =>
      simp only [List.getElem?_cons_zero, Option.some.injEq] at hj
      subst hj
      exact ⟨b, hb, rfl⟩
    | succ j =>
      simp only [List.getElem?_cons_succ] at hj ⊢
      exact ih2 j a hj

theorem fitInit_coh (S : Schema) {doc : Node} {f : Nat} {rf : RPos} (hf : doc.resolve f = some rf) (sl : Slice)
    (st0 : FitState) (h : fitInit S rf sl = .ok st0) :
    Coh S rf.depth rf.depth st0.frontier 0 st0.frontier st0.placed := by
  unfold fitInit at h
  obtain ⟨fr, hfr, h⟩ := FM.bind_ok h
  have := pure_ok h
  subst this
  simp only
  obtain ⟨hlen, hget⟩ := mapM_FM_getElem _ _ fr hfr
  simp only [List.length_range] at hlen
  -- the entries of the frontier
  have hent : ∀ j, j ≤ rf.depth → ∃ q, fr[j]? = some ⟨S.tyOf (rf.node j), some q⟩ := by
    intro j hj
    obtain ⟨b, hb, hb2⟩ := hget j j (by rw [List.getElem?_range (by omega)])
    obtain ⟨q, _, hb⟩ := FM.bind_ok hb
    have := pure_ok hb
    subst this
    exact ⟨q, hb2⟩
  -- the levels, from the deepest up
  have key : ∀ (n i : Nat), i + n = rf.depth →
      Coh S rf.depth rf.depth fr i (fr.drop i)
        ((List.range' i n).foldr (fun i acc => [(rf.node (i + 1)).withKids acc]) []) := by
    intro n
    induction n with
    | zero =>
      intro i hi
      simp only [Nat.add_zero] at hi
      subst hi
      obtain ⟨q, hq⟩ := hent rf.depth (Nat.le_refl _)
      have hd : fr.drop rf.depth = [⟨S.tyOf (rf.node rf.depth), some q⟩] := by
        apply List.ext_getElem?
        intro k
        rw [List.getElem?_drop]
        cases k with
        | zero => simpa using hq
        | succ k =>
          rw [List.getElem?_eq_none (by omega)]
          simp
      rw [hd]
      refine ⟨⟨⟨q, q, ?_, rfl, ?_⟩, fun _ h => by omega⟩, trivial⟩
      · unfold cohStart
        rw [if_pos (Nat.le_refl _), hq]; rfl
      · unfold cohKids
        rw [if_neg (by omega)]
        rfl
    | succ n ih =>
      intro i hi
      obtain ⟨q, hq⟩ := hent i (by omega)
      obtain ⟨q1, hq1⟩ := hent (i + 1) (by omega)
      have hd : fr.drop i = ⟨S.tyOf (rf.node i), some q⟩ :: fr.drop (i + 1) := by
        rw [List.drop_eq_getElem?_toList_append, hq]; rfl
      have hd1 : fr.drop (i + 1) = ⟨S.tyOf (rf.node (i + 1)), some q1⟩ :: fr.drop (i + 2) := by
        rw [List.drop_eq_getElem?_toList_append, hq1]; rfl
      obtain ⟨t, a, m, k, hn⟩ := resolve_node_isElem hf (i + 1) (by omega) (by omega)
      have ih' := ih (i + 1) (by omega)
      rw [hd, List.range'_succ, List.foldr_cons, hn]
      simp only [Node.withKids]
      refine ⟨⟨⟨q, q, ?_, rfl, ?_⟩, fun _ _ => ⟨t, a, m, _, [], rfl⟩⟩, ?_⟩
      · unfold cohStart
        rw [if_pos (by omega), hq]; rfl
      · unfold cohKids
        rw [if_pos ⟨by omega, by omega⟩]
        rfl
      · rw [hd1]
        refine ⟨t, a, m, _, rfl, ?_, ?_⟩
        · simp [hn, Schema.tyOf, Node.tyOr]
        · rw [← hd1]; exact ih'
  have := key rf.depth 0 (by omega)
  simpa [List.range_eq_range'] using this

/-- the proposition implies the Boolean the driver evaluates -/
theorem Coh_toB (S : Schema) (D g : Nat) (base : List FItem) : ∀ (fr : List FItem) (i : Nat) (frag : List Node),
    Coh S D g base i fr frag → frontierCoherentAux S D g base i fr frag = true
  | [], _, _, _ => rfl
  | it :: rest, i, frag, ⟨⟨⟨s, q, h1, h2, h3⟩, _⟩, h5⟩ => by
    unfold frontierCoherentAux
    unfold cohStart at h1
    unfold cohKids at h3
    simp only [h1, Bool.and_eq_true, beq_iff_eq]
    refine ⟨⟨?_, by rw [h2]; rfl⟩, ?_⟩
    · rw [h2, ← h3]
      congr 2
      by_cases hc : i ≤ g ∧ i < D
      · simp [hc.1, hc.2]
      · rw [if_neg hc]
        have : (decide (i ≤ g) && decide (i < D)) = false := by
          simp only [Bool.and_eq_false_iff, decide_eq_false_iff_not]
          by_cases h1 : i ≤ g
          · exact .inr (fun h2 => hc ⟨h1, h2⟩)
          · exact .inl h1
        rw [if_neg (by simpa using hc)]
    · cases rest with
      | nil => rfl
      | cons nxt rest' =>
        obtain ⟨t, a, m, k, hl, ht, hc⟩ := h5
        simp only [hl, Bool.and_eq_true, beq_iff_eq]
        exact ⟨by simp [Schema.tyOf, Node.tyOr, ht], Coh_toB S D g base (nxt :: rest') (i + 1) k hc⟩

/-- one iteration of the loop keeps coherence -/
theorem fitStep_coh {S : Schema} (hts : TextStableP S) (hdet : DetS S) (hf : FillersOK S) (hw : WrapOK S)
    (hlab : LabelsOK S) (D g : Nat) (base : List FItem) (st : FitState) (inv : InStep st)
    (hcoh : Coh S D g base 0 st.frontier st.placed) (hwf : st.unplaced.wf = true)
    (hsz : (st.unplaced.size == 0) = false) (st' : FitState) (h : fitStep S st = .ok st') :
    ∃ g', g' ≤ g ∧ Coh S D g' base 0 st'.frontier st'.placed := by
  simp only [Slice.wf, Bool.and_eq_true, decide_eq_true_eq] at hwf
  unfold fitStep at h
  obtain ⟨f, hfit, h⟩ := FM.bind_ok h
  cases f with
  | some f => exact placeNodes_coh hts hdet hf hw hlab D g base st inv hcoh hwf.2 hwf.1 hsz f hfit st' h
  | none =>
    simp only at h
    obtain ⟨o, ho, h⟩ := FM.bind_ok h
    cases o with
    | some st1 =>
      have := pure_ok h
      subst this
      unfold openMore at ho
      obtain ⟨inner, _, ho⟩ := FM.bind_ok ho
      split at ho
      · simp [pure, Except.pure] at ho
      · split at ho
        · simp [pure, Except.pure] at ho
        · have := pure_ok ho
          simp only [Option.some.injEq] at this
          subst this
          exact ⟨g, Nat.le_refl _, hcoh⟩
    | none =>
      simp only at h
      unfold dropNode at h
      obtain ⟨inner, _, h⟩ := FM.bind_ok h
      split at h
      · obtain ⟨c, _, h⟩ := FM.bind_ok h
        have := pure_ok h
        subst this
        exact ⟨g, Nat.le_refl _, hcoh⟩
      · obtain ⟨c, _, h⟩ := FM.bind_ok h
        have := pure_ok h
        subst this
        exact ⟨g, Nat.le_refl _, hcoh⟩

/-- the loop keeps `placed` and the frontier in step and coherent while the unplaced slice stays well-formed -/
theorem fitLoop_coh {S : Schema} (hts : TextStableP S) (hdet : DetS S) (hf : FillersOK S) (hw : WrapOK S)
    (hlab : LabelsOK S) (D : Nat) (base : List FItem) : ∀ (fuel : Nat) (g : Nat) (st st' : FitState),
    fitLoop S fuel st = .ok st' → InStep st → Coh S D g base 0 st.frontier st.placed →
    fitLoopAll S (fun s => s.unplaced.wf) fuel st = some true →
    InStep st' ∧ ∃ g', g' ≤ g ∧ Coh S D g' base 0 st'.frontier st'.placed
  | 0, g, st, st', h, inv, hc, _ => by
    unfold fitLoop at h
    split at h
    · have := pure_ok h
      subst this; exact ⟨inv, g, Nat.le_refl _, hc⟩
    · simp [throw, throwThe, MonadExceptOf.throw] at h
  | fuel + 1, g, st, st', h, inv, hc, hall => by
    unfold fitLoop at h
    split at h
    · have := pure_ok h
      subst this; exact ⟨inv, g, Nat.le_refl _, hc⟩
    · rename_i hsz
      obtain ⟨st1, h1, h⟩ := FM.bind_ok h
      unfold fitLoopAll at hall
      rw [if_neg hsz] at hall
      simp only [h1] at hall
      cases hr : fitLoopAll S (fun s => s.unplaced.wf) fuel st1 with
      | none => rw [hr] at hall; simp at hall
      | some b =>
        rw [hr] at hall
        simp only [Option.map_some, Option.some.injEq, Bool.and_eq_true] at hall
        obtain ⟨hb, hwf⟩ := hall
        subst hb
        have hsz' : (st.unplaced.size == 0) = false := by simpa using hsz
        have inv1 := fitStep_inStep S hdet hf hw hlab st inv hwf hsz' st1 h1
        obtain ⟨g1, hg1, hc1⟩ := fitStep_coh hts hdet hf hw hlab D g base st inv hc hwf hsz' st1 h1
        obtain ⟨i2, g2, hg2, hc2⟩ := fitLoop_coh hts hdet hf hw hlab D base fuel g1 st1 st' h inv1 hc1 hr
        exact ⟨i2, g2, by omega, hc2⟩

end PM
