/-
  Proofs/BuildOrder.lean — which refusal `buildSchema` (the model of `Schema(spec)`) gives when several apply:
  the order of the checks of `Schema.__init__` / `ContentMatch.parse` as a theorem (`buildSchema_error_iff`).
  The content cache is not observable (`buildNodes_steps`).
-/
import Proofs.DeadEndSpec
namespace PM.SchemaBuild
open PM PM.SchemaCompile PM.ParseC PM.SpecParse
set_option linter.unusedSimpArgs false

/-- one round of the node loop of `Schema.__init__`, the content cache aside: a node name that is also a mark
    name, then `ContentMatch.parse` of the content expression, then the `marks` expression -/
def nodeStep (spec : Spec) (ns : NodeSpec) : Except BuildErr NodeType :=
  if spec.marks.any (fun m => m.name == ns.name) then .error (.table .nameClash)
  else
    match contentMatch spec ns.content with
    | .error e => .error e
    | .ok d =>
      match compileNode spec [d] 0 ns with
      | .error e => .error (.table e)
      | .ok nt => .ok nt

/-- the cache is not observable: the node loop is `nodeStep` on every node type in declaration order, stopping at
    the first refusal -/
theorem buildNodes_steps (spec : Spec) : ∀ (rest : List NodeSpec) (cache : Cache) (i : Nat), CacheOk spec cache →
    buildNodes spec rest cache = seqIdx (fun _ ns => nodeStep spec ns) i rest
  | [], _, _, _ => rfl
  | ns :: rest, cache, i, hc => by
    rw [buildNodes, seqIdx, nodeStep]
    by_cases hclash : spec.marks.any (fun m => m.name == ns.name) = true
    · simp only [hclash, if_true]
    · simp only [hclash, Bool.false_eq_true, if_false]
      cases hm : cachedMatch spec cache ns.content with
      | error e =>
        rw [cachedMatch_error hm]
      | ok p =>
        obtain ⟨d, cache'⟩ := p
        obtain ⟨hd, hc'⟩ := cachedMatch_ok hm hc
        rw [hd]
        simp only
        cases hn : compileNode spec [d] 0 ns with
        | error e => rfl
        | ok nt =>
          simp only
          rw [buildNodes_steps spec rest cache' (i + 1) hc']
          cases seqIdx (fun _ ns => nodeStep spec ns) (i + 1) rest <;> rfl

/-- a loop that raises stops at the first element that raises -/
theorem seqIdx_error_iff {α β ε} {f : Nat → α → Except ε β} :
    ∀ (l : List α) (i : Nat) (e : ε), seqIdx f i l = .error e ↔
      ∃ k, ∃ hk : k < l.length, f (i + k) l[k] = .error e ∧
        ∀ j (hj : j < k), ∃ y, f (i + j) (l[j]'(Nat.lt_trans hj hk)) = .ok y
  | [], i, e => by simp [seqIdx]
  | x :: xs, i, e => by
    have ih := seqIdx_error_iff (f := f) xs (i + 1) e
    simp only [seqIdx]
    cases hx : f i x with
    | error e' =>
      simp only [Except.error.injEq]
      constructor
      · rintro rfl
        exact ⟨0, by simp, by simpa using hx, fun j hj => by omega⟩
      · rintro ⟨k, hk, hf, hall⟩
        cases k with
        | zero =>
          simp only [Nat.add_zero, List.getElem_cons_zero] at hf
          rw [hx] at hf
          cases hf
          rfl
        | succ k =>
          obtain ⟨y, hy⟩ := hall 0 (by omega)
          simp only [Nat.add_zero, List.getElem_cons_zero] at hy
          rw [hx] at hy
          cases hy
    | ok y =>
      simp only
      cases hr : seqIdx f (i + 1) xs with
      | error e' =>
        simp only [Except.error.injEq]
        rw [hr] at ih
        simp only [Except.error.injEq] at ih
        rw [ih]
        constructor
        · rintro ⟨k, hk, hf, hall⟩
          refine ⟨k + 1, by simpa using hk, by simpa [Nat.add_assoc, Nat.add_comm 1 k] using hf, ?_⟩
          intro j hj
          cases j with
          | zero => exact ⟨y, by simpa using hx⟩
          | succ j =>
            obtain ⟨z, hz⟩ := hall j (by omega)
            exact ⟨z, by simpa [Nat.add_assoc, Nat.add_comm 1 j] using hz⟩
        · rintro ⟨k, hk, hf, hall⟩
          cases k with
          | zero =>
            simp only [Nat.add_zero, List.getElem_cons_zero] at hf
            rw [hx] at hf
            cases hf
          | succ k =>
            refine ⟨k, by simpa using hk, by simpa [Nat.add_assoc, Nat.add_comm 1 k] using hf, ?_⟩
            intro j hj
            obtain ⟨z, hz⟩ := hall (j + 1) (by omega)
            exact ⟨z, by simpa [Nat.add_assoc, Nat.add_comm 1 j] using hz⟩
      | ok ys =>
        simp only [reduceCtorEq, false_iff]
        rintro ⟨k, hk, hf, hall⟩
        rw [hr] at ih
        simp only [reduceCtorEq, false_iff] at ih
        cases k with
        | zero =>
          simp only [Nat.add_zero, List.getElem_cons_zero] at hf
          rw [hx] at hf
          cases hf
        | succ k =>
          apply ih
          refine ⟨k, by simpa using hk, by simpa [Nat.add_assoc, Nat.add_comm 1 k] using hf, ?_⟩
          intro j hj
          obtain ⟨z, hz⟩ := hall (j + 1) (by omega)
          exact ⟨z, by simpa [Nat.add_assoc, Nat.add_comm 1 j] using hz⟩

/-- the checks before the node loop pass: there is a top node type, a `text` type, and `text` has no attributes -/
def HeadOk (spec : Spec) : Prop :=
  (∃ top, spec.nodes.findIdx? (fun n => n.name == spec.topName) = some top) ∧
  ∃ textTy, spec.nodes.findIdx? (fun n => n.name == "text") = some textTy ∧
    (spec.nodes[textTy]?.map (fun n => n.attrs.isEmpty)).getD true = true

/-- the three checks as a Bool -/
def headOk (spec : Spec) : Bool :=
  (spec.nodes.findIdx? (fun n => n.name == spec.topName)).isSome &&
  match spec.nodes.findIdx? (fun n => n.name == "text") with
  | none => false
  | some textTy => (spec.nodes[textTy]?.map (fun n => n.attrs.isEmpty)).getD true

theorem headOk_iff (spec : Spec) : headOk spec = true ↔ HeadOk spec := by
  unfold headOk HeadOk
  cases spec.nodes.findIdx? (fun n => n.name == spec.topName) with
  | none => simp
  | some top =>
    cases spec.nodes.findIdx? (fun n => n.name == "text") with
    | none => simp
    | some textTy => simp

instance (spec : Spec) : Decidable (HeadOk spec) := decidable_of_iff _ (headOk_iff spec)

/-- the first refusal of the node loop: node type `i` is refused with `err`, every one before it passes -/
def FirstNodeErr (spec : Spec) (err : BuildErr) : Prop :=
  ∃ i, ∃ hi : i < spec.nodes.length, nodeStep spec spec.nodes[i] = .error err ∧
    ∀ j (hj : j < i), ∃ nt, nodeStep spec (spec.nodes[j]'(Nat.lt_trans hj hi)) = .ok nt

/-- **the order of the refusals of `Schema(spec)`**: no top node type; no `text` type; attributes on `text`; the
    first node type (in declaration order) that does not pass its round of the node loop, with the refusal of that
    round; the first mark type whose `excludes` names an unknown mark -/
theorem buildSchema_error_iff (spec : Spec) (err : BuildErr) :
    buildSchema spec = .error err ↔
      (spec.nodes.findIdx? (fun n => n.name == spec.topName) = none ∧ err = .table .missingTop) ∨
      ((∃ top, spec.nodes.findIdx? (fun n => n.name == spec.topName) = some top) ∧
        spec.nodes.findIdx? (fun n => n.name == "text") = none ∧ err = .table .missingText) ∨
      ((∃ top, spec.nodes.findIdx? (fun n => n.name == spec.topName) = some top) ∧
        (∃ textTy, spec.nodes.findIdx? (fun n => n.name == "text") = some textTy ∧
          (spec.nodes[textTy]?.map (fun n => n.attrs.isEmpty)).getD true = false) ∧ err = .table .textAttrs) ∨
      (HeadOk spec ∧ FirstNodeErr spec err) ∨
      (HeadOk spec ∧ (∀ i (hi : i < spec.nodes.length), ∃ nt, nodeStep spec spec.nodes[i] = .ok nt) ∧
        ∃ e, seqIdx (compileMark spec) 0 spec.marks = .error e ∧ err = .table e) := by
  unfold buildSchema HeadOk FirstNodeErr
  cases htop : spec.nodes.findIdx? (fun n => n.name == spec.topName) with
  | none =>
    simp only [Except.error.injEq, true_and, reduceCtorEq, exists_false, false_and, or_false]
    exact eq_comm
  | some top =>
    simp only [reduceCtorEq, false_and, Option.some.injEq, exists_eq', true_and, false_or]
    cases htext : spec.nodes.findIdx? (fun n => n.name == "text") with
    | none =>
      simp only [Except.error.injEq, true_and, reduceCtorEq, exists_false, false_and, or_false]
      exact eq_comm
    | some textTy =>
      simp only [reduceCtorEq, false_and, Option.some.injEq, exists_eq_left', false_or]
      by_cases hattrs : (spec.nodes[textTy]?.map (fun n => n.attrs.isEmpty)).getD true = false
      · simp only [hattrs, if_true, Except.error.injEq, true_and, Bool.false_eq_true, false_and, or_false]
        exact eq_comm
      · have hattrs' : (spec.nodes[textTy]?.map (fun n => n.attrs.isEmpty)).getD true = true := by simpa using hattrs
        simp only [hattrs', Bool.true_eq_false, if_false, false_and, true_and, false_or]
        rw [buildNodes_steps spec spec.nodes [] 0 (fun p hp => by simp at hp)]
        cases hn : seqIdx (fun _ ns => nodeStep spec ns) 0 spec.nodes with
        | error e =>
          simp only [Except.error.injEq]
          have h1 := fun e' => (seqIdx_error_iff (f := fun _ ns => nodeStep spec ns) spec.nodes 0 e')
          have hno : ¬ ∀ i (hi : i < spec.nodes.length), ∃ nt, nodeStep spec spec.nodes[i] = .ok nt := by
            intro hall
            obtain ⟨k, hk, hf, _⟩ := (h1 e).1 hn
            obtain ⟨nt, hnt⟩ := hall k hk
            rw [hnt] at hf
            cases hf
          constructor
          · rintro rfl
            exact Or.inl ((h1 e).1 hn)
          · rintro (h | ⟨hall, _⟩)
            · have := (h1 err).2 h
              rw [hn] at this
              simpa using this
            · exact absurd hall hno
        | ok nodes =>
          simp only
          have hall : ∀ i (hi : i < spec.nodes.length), ∃ nt, nodeStep spec spec.nodes[i] = .ok nt := by
            have := (seqIdx_ok_iff (f := fun _ ns => nodeStep spec ns) spec.nodes 0).1 ⟨nodes, hn⟩
            exact fun i hi => this i hi
          have hno : ∀ e, ¬ ∃ i, ∃ hi : i < spec.nodes.length, nodeStep spec spec.nodes[i] = .error e ∧
              ∀ j (hj : j < i), ∃ nt, nodeStep spec (spec.nodes[j]'(Nat.lt_trans hj hi)) = .ok nt := by
            rintro e ⟨i, hi, hf, _⟩
            obtain ⟨nt, hnt⟩ := hall i hi
            rw [hnt] at hf
            cases hf
          cases hm : seqIdx (compileMark spec) 0 spec.marks with
          | error e =>
            simp only [Except.error.injEq]
            constructor
            · rintro rfl
              exact Or.inr ⟨hall, e, rfl, rfl⟩
            · rintro (h | ⟨_, e', h1, h2⟩)
              · exact absurd h (hno err)
              · cases h1
                exact h2.symm
          | ok marks =>
            simp only [reduceCtorEq, false_iff, not_or]
            refine ⟨hno err, ?_⟩
            rintro ⟨_, e', h1, _⟩
            cases h1

/-- **the order of the refusals within one round of the node loop**: the node name is a mark name; the parser
    refuses the content expression (with its reason: syntax, unknown name, inline/block mixing …); the expression
    has a dead end; the `marks` expression names an unknown mark -/
theorem nodeStep_error_iff (spec : Spec) (ns : NodeSpec) (err : BuildErr) :
    nodeStep spec ns = .error err ↔
      ((∃ m ∈ spec.marks, m.name = ns.name) ∧ err = .table .nameClash) ∨
      ((∀ m ∈ spec.marks, m.name ≠ ns.name) ∧
        ((∃ ce, parseC (nameTable spec) ns.content = .error ce ∧ err = .content ce) ∨
         (∃ oe, parseC (nameTable spec) ns.content = .ok oe ∧
            ((DeadEndSpec (contentRE oe) (specGen spec) ∧ err = .deadEnd) ∨
             (¬ DeadEndSpec (contentRE oe) (specGen spec) ∧
               (∃ e, ns.marks = some e ∧ e ≠ "_" ∧ e ≠ "" ∧ ¬ ExprKnown spec.marks e) ∧
               err = .table .unknownMark))))) := by
  unfold nodeStep
  by_cases hclash : spec.marks.any (fun m => m.name == ns.name) = true
  · have hex : ∃ m ∈ spec.marks, m.name = ns.name := by
      simpa only [List.any_eq_true, beq_iff_eq] using hclash
    simp only [hclash, if_true, Except.error.injEq]
    constructor
    · rintro rfl
      exact Or.inl ⟨hex, rfl⟩
    · rintro (⟨_, h⟩ | ⟨hno, _⟩)
      · exact h.symm
      · obtain ⟨m, hm, e⟩ := hex
        exact absurd e (hno m hm)
  · have hno : ∀ m ∈ spec.marks, m.name ≠ ns.name := by
      intro m hm e
      apply hclash
      simp only [List.any_eq_true, beq_iff_eq]
      exact ⟨m, hm, e⟩
    have hnex : ¬ ∃ m ∈ spec.marks, m.name = ns.name := by
      rintro ⟨m, hm, e⟩
      exact hno m hm e
    simp only [hclash, Bool.false_eq_true, if_false, hnex, false_and, false_or]
    cases hc : contentMatch spec ns.content with
    | error e =>
      simp only [Except.error.injEq]
      have h1 := contentMatch_error_iff spec ns.content
      constructor
      · rintro rfl
        refine ⟨hno, ?_⟩
        rcases (h1 e).1 hc with ⟨ce, h2, h3⟩ | ⟨oe, h2, h3, h4⟩
        · exact Or.inl ⟨ce, h2, h3⟩
        · exact Or.inr ⟨oe, h2, Or.inl ⟨h3, h4⟩⟩
      · rintro ⟨_, ⟨ce, h2, h3⟩ | ⟨oe, h2, ⟨h3, h4⟩ | ⟨h3, _, _⟩⟩⟩
        · have := (h1 err).2 (Or.inl ⟨ce, h2, h3⟩)
          rw [hc] at this
          simpa using this
        · have := (h1 err).2 (Or.inr ⟨oe, h2, h3, h4⟩)
          rw [hc] at this
          simpa using this
        · exfalso
          rcases (h1 e).1 hc with ⟨ce, h5, _⟩ | ⟨oe', h5, h6, _⟩
          · rw [h5] at h2; cases h2
          · rw [h5] at h2; cases h2; exact h3 h6
    | ok d =>
      obtain ⟨oe, hp, _⟩ := contentMatch_lang hc
      have hnd : ¬ DeadEndSpec (contentRE oe) (specGen spec) := by
        intro hd
        have := (contentMatch_deadEnd_iff spec ns.content).2 ⟨oe, hp, hd⟩
        rw [hc] at this
        cases this
      simp only [hp, reduceCtorEq, false_and, exists_false, Except.ok.injEq, exists_eq_left', false_or, hnd,
        not_false_eq_true, true_and]
      cases hn : compileNode spec [d] 0 ns with
      | ok nt =>
        simp only [reduceCtorEq, false_iff, not_and]
        intro _ hbad
        exfalso
        obtain ⟨e, h1, h2, h3, h4⟩ := hbad
        exact h4 (((compileNode_ok_iff spec [d] 0 ns).1 ⟨nt, hn⟩).2 e h1 h2 h3)
      | error e =>
        simp only [Except.error.injEq]
        rcases compileNode_error hn with ⟨_, m, hm, hme⟩ | ⟨rfl, hbad⟩
        · exact absurd hme (hno m hm)
        · exact ⟨fun h => ⟨hno, hbad, h.symm⟩, fun h => h.2.2.symm⟩

/-- a round of the node loop passes exactly when none of its four refusals applies -/
theorem nodeStep_ok_iff (spec : Spec) (ns : NodeSpec) :
    (∃ nt, nodeStep spec ns = .ok nt) ↔
      (∀ m ∈ spec.marks, m.name ≠ ns.name) ∧
      (∃ oe, parseC (nameTable spec) ns.content = .ok oe ∧ ¬ DeadEndSpec (contentRE oe) (specGen spec)) ∧
      (∀ e, ns.marks = some e → e ≠ "_" → e ≠ "" → ExprKnown spec.marks e) := by
  constructor
  · rintro ⟨nt, h⟩
    have hno : ∀ err, nodeStep spec ns ≠ .error err := fun err he => by rw [h] at he; cases he
    have hclash : ∀ m ∈ spec.marks, m.name ≠ ns.name := by
      intro m hm e
      exact hno _ ((nodeStep_error_iff spec ns _).2 (Or.inl ⟨⟨m, hm, e⟩, rfl⟩))
    refine ⟨hclash, ?_, ?_⟩
    · cases hp : parseC (nameTable spec) ns.content with
      | error ce => exact absurd ((nodeStep_error_iff spec ns _).2 (Or.inr ⟨hclash, Or.inl ⟨ce, hp, rfl⟩⟩)) (hno _)
      | ok oe =>
        refine ⟨oe, rfl, fun hd => ?_⟩
        exact hno _ ((nodeStep_error_iff spec ns _).2 (Or.inr ⟨hclash, Or.inr ⟨oe, hp, Or.inl ⟨hd, rfl⟩⟩⟩))
    · intro e h1 h2 h3
      by_contra hk
      cases hp : parseC (nameTable spec) ns.content with
      | error ce => exact absurd ((nodeStep_error_iff spec ns _).2 (Or.inr ⟨hclash, Or.inl ⟨ce, hp, rfl⟩⟩)) (hno _)
      | ok oe =>
        by_cases hd : DeadEndSpec (contentRE oe) (specGen spec)
        · exact hno _ ((nodeStep_error_iff spec ns _).2 (Or.inr ⟨hclash, Or.inr ⟨oe, hp, Or.inl ⟨hd, rfl⟩⟩⟩))
        · exact hno _ ((nodeStep_error_iff spec ns _).2
            (Or.inr ⟨hclash, Or.inr ⟨oe, hp, Or.inr ⟨hd, ⟨e, h1, h2, h3, hk⟩, rfl⟩⟩⟩))
  · rintro ⟨hclash, ⟨oe, hp, hnd⟩, hmarks⟩
    cases hs : nodeStep spec ns with
    | ok nt => exact ⟨nt, rfl⟩
    | error err =>
      exfalso
      rcases (nodeStep_error_iff spec ns err).1 hs with ⟨⟨m, hm, e⟩, _⟩ | ⟨_, ⟨ce, h1, _⟩ | ⟨oe', h1, h2⟩⟩
      · exact hclash m hm e
      · rw [hp] at h1; cases h1
      · rw [hp] at h1
        cases h1
        rcases h2 with ⟨hd, _⟩ | ⟨_, ⟨e, h1, h2, h3, h4⟩, _⟩
        · exact hnd hd
        · exact h4 (hmarks e h1 h2 h3)

/-- **acceptance, exactly**: `Schema(spec)` builds iff the checks before the loop pass, every node type passes its
    round (no name clash, the parser accepts the content expression, the expression has no dead end, the `marks`
    expression names known marks), and every `excludes` names known marks -/
theorem buildSchema_ok_iff (spec : Spec) :
    (∃ S, buildSchema spec = .ok S) ↔
      HeadOk spec ∧
      (∀ n ∈ spec.nodes, (∀ m ∈ spec.marks, m.name ≠ n.name) ∧
        (∃ oe, parseC (nameTable spec) n.content = .ok oe ∧ ¬ DeadEndSpec (contentRE oe) (specGen spec)) ∧
        (∀ e, n.marks = some e → e ≠ "_" → e ≠ "" → ExprKnown spec.marks e)) ∧
      (∀ m ∈ spec.marks, ∀ e, m.excludes = some e → e ≠ "" → ExprKnown spec.marks e) := by
  cases hb : buildSchema spec with
  | error err =>
    simp only [reduceCtorEq, exists_false, false_iff]
    rintro ⟨hhead, hnodes, hmarks⟩
    obtain ⟨⟨top, htop⟩, textTy, htext, hattrs⟩ := hhead
    rcases (buildSchema_error_iff spec err).1 hb with ⟨h, _⟩ | ⟨_, h, _⟩ | ⟨_, ⟨t, h1, h2⟩, _⟩ | ⟨_, i, hi, he, _⟩ |
      ⟨_, _, e, he, _⟩
    · rw [htop] at h; cases h
    · rw [htext] at h; cases h
    · rw [htext] at h1
      cases h1
      rw [hattrs] at h2
      cases h2
    · obtain ⟨nt, hnt⟩ := (nodeStep_ok_iff spec _).2 (hnodes _ (List.getElem_mem hi))
      rw [hnt] at he
      cases he
    · obtain ⟨k, hk, hke⟩ := seqIdx_error _ _ _ he
      obtain ⟨mt, hmt⟩ := (compileMark_ok_iff spec (0 + k) spec.marks[k]).2 (hmarks _ (List.getElem_mem hk))
      rw [hmt] at hke
      cases hke
  | ok S =>
    simp only [Except.ok.injEq, exists_eq', true_iff]
    unfold buildSchema at hb
    split at hb
    · cases hb
    · rename_i top htop
      split at hb
      · cases hb
      · rename_i textTy htext
        split at hb
        · cases hb
        · rename_i hattrs
          split at hb
          · cases hb
          · rename_i nodes hnodes
            split at hb
            · cases hb
            · rename_i marks hmarks
              rw [buildNodes_steps spec spec.nodes [] 0 (fun p hp => by simp at hp)] at hnodes
              refine ⟨⟨⟨top, htop⟩, textTy, htext, by simpa using hattrs⟩, ?_, ?_⟩
              · intro n hn
                obtain ⟨i, hi, rfl⟩ := List.getElem_of_mem hn
                have := (seqIdx_ok_iff (f := fun _ ns => nodeStep spec ns) spec.nodes 0).1 ⟨nodes, hnodes⟩ i hi
                exact (nodeStep_ok_iff spec _).1 this
              · intro m hm
                obtain ⟨i, hi, rfl⟩ := List.getElem_of_mem hm
                have := (seqIdx_ok_iff (f := compileMark spec) spec.marks 0).1 ⟨marks, hmarks⟩ i hi
                exact (compileMark_ok_iff spec _ _).1 this

end PM.SchemaBuild
