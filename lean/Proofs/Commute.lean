/- Proofs/Commute.lean — helper lemmas for Props/C17.lean -/
import PM.Step
import Proofs.StepToks
namespace PM

/-! ### one-range maps away from the range -/

theorem mapResult_one_before (s o n p a : Int) (h : p < s) :
    (StepMap.mk [(s, o, n)] false).mapResult p a = { pos := p } := by
  simp [StepMap.mapResult, mapAux, h]

theorem mapResult_one_after (s o n p a : Int) (h : s + o < p) (ho : 0 ≤ o) :
    (StepMap.mk [(s, o, n)] false).mapResult p a = { pos := p + (n - o) } := by
  have h1 : ¬ (p < s) := by omega
  have h2 : ¬ (p ≤ s + o) := by omega
  simp [StepMap.mapResult, mapAux, h1, h2, Range.oldSize, Range.newSize]

theorem deleted_zero (p : Int) : (MapResult.mk p 0 none).deleted = false := by
  simp [MapResult.deleted]

theorem deletedAfter_zero (p : Int) : (MapResult.mk p 0 none).deletedAfter = false := by
  simp [MapResult.deletedAfter]

/-! ### list splices -/

theorem splice_after {α} (l A B : List α) (f1 t1 f2 t2 n : Nat)
    (h1 : f1 ≤ t1) (hsep : t1 ≤ f2) (h2 : f2 ≤ t2) (hl : t2 ≤ l.length) (hn : A.length = n) :
    (l.take f1 ++ A ++ l.drop t1).take (f1 + n + (f2 - t1)) ++ B ++
        (l.take f1 ++ A ++ l.drop t1).drop (f1 + n + (t2 - t1)) =
      l.take f1 ++ A ++ (l.drop t1).take (f2 - t1) ++ B ++ l.drop t2 := by
  subst hn
  have hlen : (l.take f1 ++ A).length = f1 + A.length := by
    simp [List.length_take]; omega
  have e1 : (l.take f1 ++ A ++ l.drop t1).take (f1 + A.length + (f2 - t1)) =
      l.take f1 ++ A ++ (l.drop t1).take (f2 - t1) := by
    rw [← hlen, List.take_length_add_append]
  have e2 : (l.take f1 ++ A ++ l.drop t1).drop (f1 + A.length + (t2 - t1)) = l.drop t2 := by
    rw [← hlen, List.drop_length_add_append, List.drop_drop]
    congr 1; omega
  rw [e1, e2]

theorem splice_before {α} (l A B : List α) (f1 t1 f2 t2 : Nat)
    (h1 : f1 ≤ t1) (hsep : t1 ≤ f2) (h2 : f2 ≤ t2) (hl : t2 ≤ l.length) :
    (l.take f2 ++ B ++ l.drop t2).take f1 ++ A ++ (l.take f2 ++ B ++ l.drop t2).drop t1 =
      l.take f1 ++ A ++ (l.drop t1).take (f2 - t1) ++ B ++ l.drop t2 := by
  have hlen : (l.take f2).length = f2 := by simp [List.length_take]; omega
  have e1 : (l.take f2 ++ B ++ l.drop t2).take f1 = l.take f1 := by
    rw [List.append_assoc, List.take_append_of_le_length (by omega), List.take_take]
    congr 1; omega
  have e2 : (l.take f2 ++ B ++ l.drop t2).drop t1 = (l.drop t1).take (f2 - t1) ++ B ++ l.drop t2 := by
    rw [List.append_assoc, List.drop_append_of_le_length (by omega), List.drop_take, List.append_assoc]
  rw [e1, e2]
  simp [List.append_assoc]

/-! ### slices -/

theorem Slice.toks_length_of_wf_ex (sl : Slice) (hwf : sl.wf = true) :
    (sl.toks.length : Int) = sl.size ∧ 0 ≤ sl.size := by
  have := wf_opens_le hwf
  simp only [Slice.toks, List.length_take, List.length_drop, ftoks_length, Slice.size]
  omega

theorem apply_replace_fromReplace (S : Schema) (doc doc' : Node) (f t : Nat) (sl : Slice) (st : Bool)
    (h : S.apply (.replace f t sl st) doc = .ok doc') : S.fromReplace doc f t sl = .ok doc' := by
  unfold Schema.apply at h
  simp only at h
  split at h
  · split at h
    · simp at h
    · simp at h
    · exact h
  · exact h

theorem apply_replace_elem (S : Schema) (doc doc' : Node) (f t : Nat) (sl : Slice) (st : Bool)
    (h : S.apply (.replace f t sl st) doc = .ok doc') :
    ∃ ty a m k k', doc = .elem ty a m k ∧ doc' = .elem ty a m k' := by
  have key := apply_replace_fromReplace S doc doc' f t sl st h
  unfold Schema.fromReplace Schema.replace at key
  cases doc with
  | text s m => simp at key
  | leaf ty a m => simp at key
  | elem ty a m kids =>
    simp only at key
    cases hr : replaceKids S ty kids f t sl with
    | error e => rw [hr] at key; simp [Except.map] at key
    | ok k' =>
      rw [hr] at key; simp [Except.map] at key; subst key
      exact ⟨ty, a, m, kids, _, rfl, rfl⟩

end PM
