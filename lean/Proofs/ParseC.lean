/-
  Proofs/ParseC.lean — the content-expression parser of `PM/Compile.lean` (`pChoice`/`pSeq`/`pSub`/`pAtom`,
  `parseToks`, `parseC`): what an accepted token list looks like.

  * `parseToks_ok`: the AST is well formed (`Expr.wf`), names node types of the table only, all of one
    inline-ness; the tokens have as many `(` as `)` and `{` as `}`; every word among them that does not start
    with a digit is a node type or a group with members, and all of them resolve to types of one inline-ness.
  * `parseToks_ne_fuel`: the recursion guard of the model is never the reason of a refusal.
-/
import PM.Compile
import Proofs.CompileLabels
namespace PM.ParseC
open PM
set_option linter.unusedSimpArgs false

/-! ### what the parser guarantees about a token -/

/-- a word is a number candidate, or resolves (non-empty) to types of the stream's inline-ness -/
def TokGood (table : List NameInfo) (inl : Option Bool) (t : String) : Prop :=
  isWordTok t = true → startsWithDigit t = true ∨
    (resolveIds table t ≠ [] ∧ ∀ i, i ∈ resolveIds table t → inl = some (table[i]!).isInline)

structure GoodSeg (table : List NameInfo) (inl : Option Bool) (c : List String) : Prop where
  paren : c.count "(" = c.count ")"
  brace : c.count "{" = c.count "}"
  toks : ∀ t, t ∈ c → TokGood table inl t

/-- the parser went from `st` to `st'`: it consumed a good segment, and `stream.inline` only went from unset to set -/
structure Step (table : List NameInfo) (st st' : PState) : Prop where
  seg : ∃ c, st.toks = c ++ st'.toks ∧ GoodSeg table st'.inline c
  mono : ∀ b, st.inline = some b → st'.inline = some b

/-- the AST is well formed, names types of the table, all of the stream's inline-ness -/
def ExprOk (table : List NameInfo) (inl : Option Bool) (e : Expr) : Prop :=
  e.wf = true ∧ ∀ t, t ∈ e.names → t < table.length ∧ inl = some (table[t]!).isInline

theorem TokGood.lift {table : List NameInfo} {inl inl' : Option Bool} {t : String}
    (hm : ∀ b, inl = some b → inl' = some b) (h : TokGood table inl t) : TokGood table inl' t := by
  intro hw
  rcases h hw with h | ⟨h1, h2⟩
  · exact Or.inl h
  · exact Or.inr ⟨h1, fun i hi => hm _ (h2 i hi)⟩

theorem GoodSeg.lift {table : List NameInfo} {inl inl' : Option Bool} {c : List String}
    (hm : ∀ b, inl = some b → inl' = some b) (h : GoodSeg table inl c) : GoodSeg table inl' c :=
  ⟨h.paren, h.brace, fun t ht => (h.toks t ht).lift hm⟩

theorem ExprOk.lift {table : List NameInfo} {inl inl' : Option Bool} {e : Expr}
    (hm : ∀ b, inl = some b → inl' = some b) (h : ExprOk table inl e) : ExprOk table inl' e :=
  ⟨h.1, fun t ht => ⟨(h.2 t ht).1, hm _ (h.2 t ht).2⟩⟩

theorem GoodSeg.nil (table : List NameInfo) (inl : Option Bool) : GoodSeg table inl [] :=
  ⟨rfl, rfl, fun t ht => by simp at ht⟩

theorem GoodSeg.append {table : List NameInfo} {inl : Option Bool} {c d : List String}
    (h1 : GoodSeg table inl c) (h2 : GoodSeg table inl d) : GoodSeg table inl (c ++ d) := by
  refine ⟨by rw [List.count_append, List.count_append, h1.paren, h2.paren],
    by rw [List.count_append, List.count_append, h1.brace, h2.brace], fun t ht => ?_⟩
  rcases List.mem_append.1 ht with ht | ht
  · exact h1.toks t ht
  · exact h2.toks t ht

/-- one punctuation token other than a bracket -/
theorem GoodSeg.punct (table : List NameInfo) (inl : Option Bool) (p : String) (hw : isWordTok p = false)
    (h1 : p ≠ "(") (h2 : p ≠ ")") (h3 : p ≠ "{") (h4 : p ≠ "}") : GoodSeg table inl [p] := by
  refine ⟨?_, ?_, fun t ht => ?_⟩
  · rw [List.count_singleton, List.count_singleton]; simp [h1, h2]
  · rw [List.count_singleton, List.count_singleton]; simp [h3, h4]
  · simp only [List.mem_singleton] at ht
    subst ht
    intro h; rw [hw] at h; cases h

theorem GoodSeg.parens {table : List NameInfo} {inl : Option Bool} {c : List String} (h : GoodSeg table inl c) :
    GoodSeg table inl ("(" :: c ++ [")"]) := by
  refine ⟨?_, ?_, fun t ht => ?_⟩
  · have e1 : ("(" : String) ≠ ")" := by decide
    simp only [List.count_cons, List.count_append, List.count_nil, beq_self_eq_true, if_true]
    have : ((")" : String) == "(") = false := by decide
    have : (("(" : String) == ")") = false := by decide
    simp [*, h.paren]
  · have : ((")" : String) == "{") = false := by decide
    have : (("(" : String) == "{") = false := by decide
    have : ((")" : String) == "}") = false := by decide
    have : (("(" : String) == "}") = false := by decide
    simp only [List.count_cons, List.count_append, List.count_nil]
    simp [*, h.brace]
  · simp only [List.mem_cons, List.mem_append, List.mem_singleton, List.not_mem_nil, or_false] at ht
    rcases ht with (rfl | ht) | rfl
    · intro h; exact absurd h (by decide)
    · exact h.toks t ht
    · intro h; exact absurd h (by decide)

theorem Step.refl (table : List NameInfo) (st : PState) : Step table st st :=
  ⟨⟨[], rfl, GoodSeg.nil _ _⟩, fun _ h => h⟩

theorem Step.trans {table : List NameInfo} {a b c : PState} (h1 : Step table a b) (h2 : Step table b c) :
    Step table a c := by
  obtain ⟨c1, e1, g1⟩ := h1.seg
  obtain ⟨c2, e2, g2⟩ := h2.seg
  refine ⟨⟨c1 ++ c2, by rw [e1, e2, List.append_assoc], (g1.lift h2.mono).append g2⟩, fun x hx => h2.mono x (h1.mono x hx)⟩

/-- eating one punctuation token that is not a bracket -/
theorem Step.eat (table : List NameInfo) (st : PState) (p : String) (r : List String) (hst : st.toks = p :: r)
    (hw : isWordTok p = false) (h1 : p ≠ "(") (h2 : p ≠ ")") (h3 : p ≠ "{") (h4 : p ≠ "}") :
    Step table st { st with toks := r } :=
  ⟨⟨[p], by simp [hst], GoodSeg.punct table _ p hw h1 h2 h3 h4⟩, fun _ h => h⟩

/-! ### numbers and ranges -/

theorem pNum_ok {st st' : PState} {n : Nat} (h : pNum st = .ok (n, st')) :
    ∃ t, st.toks = t :: st'.toks ∧ startsWithDigit t = true ∧ st'.inline = st.inline := by
  unfold pNum at h
  split at h
  · cases h
  · rename_i t r hst
    split at h
    · cases h
    · rename_i hd
      split at h
      · cases h
      · simp only [Except.ok.injEq, Prod.mk.injEq] at h
        obtain ⟨_, rfl⟩ := h
        exact ⟨t, hst, by simpa using hd, rfl⟩

/-- the tokens between `{` and `}`: number candidates and commas -/
def NumSeg (c : List String) : Prop := ∀ t, t ∈ c → startsWithDigit t = true ∨ t = ","

theorem NumSeg.good (table : List NameInfo) (inl : Option Bool) {c : List String} (h : NumSeg c) :
    GoodSeg table inl c ∧ c.count "{" = 0 ∧ c.count "}" = 0 := by
  have hne : ∀ p : String, startsWithDigit p = false → p ≠ "," → c.count p = 0 := by
    intro p hp hp'
    rw [List.count_eq_zero]
    intro hmem
    rcases h p hmem with h | h
    · rw [hp] at h; cases h
    · exact hp' h
  have a1 := hne "(" (by decide) (by decide)
  have a2 := hne ")" (by decide) (by decide)
  have a3 := hne "{" (by decide) (by decide)
  have a4 := hne "}" (by decide) (by decide)
  refine ⟨⟨by rw [a1, a2], by rw [a3, a4], fun t ht => ?_⟩, a3, a4⟩
  intro hw
  rcases h t ht with h | rfl
  · exact Or.inl h
  · exact absurd hw (by decide)

theorem pRange_ok {st st' : PState} {r : Nat × Option Nat} (h : pRange st = .ok (r, st')) :
    st'.inline = st.inline ∧ ∃ c, st.toks = c ++ "}" :: st'.toks ∧ NumSeg c := by
  unfold pRange at h
  split at h
  · cases h
  · rename_i mn st1 h1
    obtain ⟨t1, e1, d1, i1⟩ := pNum_ok h1
    simp only at h
    split at h
    · cases h
    · rename_i mx st2 h2
      -- the closing brace
      have hclose : st'.inline = st2.inline ∧ st2.toks = "}" :: st'.toks := by
        split at h
        · rename_i t r hst
          split at h
          · rename_i ht
            simp only [beq_iff_eq] at ht
            simp only [Except.ok.injEq, Prod.mk.injEq] at h
            obtain ⟨_, rfl⟩ := h
            exact ⟨rfl, by rw [hst, ht]⟩
          · cases h
        · cases h
      -- the optional `, max`
      have hmid : st2.inline = st1.inline ∧ ∃ c, st1.toks = c ++ st2.toks ∧ NumSeg c := by
        split at h2
        · rename_i t r hst
          split at h2
          · rename_i ht
            simp only [beq_iff_eq] at ht
            split at h2
            · simp only [Except.ok.injEq, Prod.mk.injEq] at h2
              obtain ⟨_, rfl⟩ := h2
              refine ⟨rfl, [","], by simp [hst, ht], ?_⟩
              intro x hx; simp at hx; exact Or.inr hx
            · split at h2
              · cases h2
              · rename_i m st3 h3
                simp only [Except.ok.injEq, Prod.mk.injEq] at h2
                obtain ⟨_, rfl⟩ := h2
                obtain ⟨t3, e3, d3, i3⟩ := pNum_ok h3
                simp only at e3 i3
                refine ⟨i3, [",", t3], by simp [hst, ht, e3], ?_⟩
                intro x hx
                simp at hx
                rcases hx with rfl | rfl
                · exact Or.inr rfl
                · exact Or.inl d3
          · simp only [Except.ok.injEq, Prod.mk.injEq] at h2
            obtain ⟨_, rfl⟩ := h2
            exact ⟨rfl, [], rfl, fun x hx => by simp at hx⟩
        · simp only [Except.ok.injEq, Prod.mk.injEq] at h2
          obtain ⟨_, rfl⟩ := h2
          exact ⟨rfl, [], rfl, fun x hx => by simp at hx⟩
      obtain ⟨hi2, c, hc, hn⟩ := hmid
      refine ⟨by rw [hclose.1, hi2, i1], t1 :: c, by rw [e1, hc, hclose.2]; simp, ?_⟩
      intro x hx
      rcases List.mem_cons.1 hx with rfl | hx
      · exact Or.inl d1
      · exact hn x hx

theorem Step.range {table : List NameInfo} {st st' : PState} {r : List String} {x : Nat × Option Nat}
    (hst : st.toks = "{" :: r) (h : pRange { st with toks := r } = .ok (x, st')) : Step table st st' := by
  obtain ⟨hi, c, hc, hn⟩ := pRange_ok h
  simp only at hi hc
  obtain ⟨hg, b1, b2⟩ := hn.good table st'.inline
  refine ⟨⟨"{" :: c ++ ["}"], by rw [hst, hc]; simp, ?_, ?_, ?_⟩, fun b hb => by rw [hi]; exact hb⟩
  · have : (("}" : String) == "(") = false := by decide
    have : (("{" : String) == "(") = false := by decide
    have : (("}" : String) == ")") = false := by decide
    have : (("{" : String) == ")") = false := by decide
    simp only [List.count_cons, List.count_append, List.count_nil]
    simp [*, hg.paren]
  · have : (("}" : String) == "{") = false := by decide
    have : (("{" : String) == "}") = false := by decide
    simp only [List.count_cons, List.count_append, List.count_nil]
    simp [*, b1, b2]
  · intro t ht
    simp only [List.mem_cons, List.mem_append, List.mem_singleton, List.not_mem_nil, or_false] at ht
    rcases ht with (rfl | ht) | rfl
    · intro h; exact absurd h (by decide)
    · exact hg.toks t ht
    · intro h; exact absurd h (by decide)

/-! ### suffixes -/

theorem pSuffix_ok (table : List NameInfo) : ∀ (n : Nat) (e : Expr) (st : PState) (e' : Expr) (st' : PState),
    pSuffix n e st = .ok (e', st') →
      Step table st st' ∧ st'.inline = st.inline ∧ e'.wf = e.wf ∧ e'.names = e.names := by
  intro n
  induction n with
  | zero => intro e st e' st' h; simp [pSuffix] at h
  | succ n ih =>
    intro e st e' st' h
    unfold pSuffix at h
    split at h
    · simp only [Except.ok.injEq, Prod.mk.injEq] at h
      obtain ⟨rfl, rfl⟩ := h
      exact ⟨Step.refl _ _, rfl, rfl, rfl⟩
    · rename_i t r hst
      split at h
      · rename_i ht
        simp only [beq_iff_eq] at ht
        subst ht
        obtain ⟨a, b, c, d⟩ := ih _ _ _ _ h
        exact ⟨(Step.eat table st "+" r hst (by decide) (by decide) (by decide) (by decide) (by decide)).trans a,
          b, by rw [c]; simp [Expr.wf], by rw [d]; simp [Expr.names]⟩
      · split at h
        · rename_i ht
          simp only [beq_iff_eq] at ht
          subst ht
          obtain ⟨a, b, c, d⟩ := ih _ _ _ _ h
          exact ⟨(Step.eat table st "*" r hst (by decide) (by decide) (by decide) (by decide) (by decide)).trans a,
            b, by rw [c]; simp [Expr.wf], by rw [d]; simp [Expr.names]⟩
        · split at h
          · rename_i ht
            simp only [beq_iff_eq] at ht
            subst ht
            obtain ⟨a, b, c, d⟩ := ih _ _ _ _ h
            exact ⟨(Step.eat table st "?" r hst (by decide) (by decide) (by decide) (by decide) (by decide)).trans a,
              b, by rw [c]; simp [Expr.wf], by rw [d]; simp [Expr.names]⟩
          · split at h
            · rename_i ht
              simp only [beq_iff_eq] at ht
              subst ht
              split at h
              · cases h
              · rename_i mn mx st1 hr
                obtain ⟨a, b, c, d⟩ := ih _ _ _ _ h
                have hs : Step table st st1 := Step.range hst hr
                have hi : st1.inline = st.inline := (pRange_ok hr).1
                exact ⟨hs.trans a, by rw [b, hi], by rw [c]; simp [Expr.wf], by rw [d]; simp [Expr.names]⟩
            · simp only [Except.ok.injEq, Prod.mk.injEq] at h
              obtain ⟨rfl, rfl⟩ := h
              exact ⟨Step.refl _ _, rfl, rfl, rfl⟩

/-! ### names -/

theorem mem_resolveIds_lt {table : List NameInfo} {name : String} {i : Nat} (h : i ∈ resolveIds table name) :
    i < table.length := by
  unfold resolveIds at h
  split at h
  · rename_i j hj
    simp only [List.mem_singleton] at h
    subst h
    exact (List.findIdx?_eq_some_iff_getElem.1 hj).1
  · exact List.mem_range.1 (List.mem_filter.1 h).1

theorem checkInline_ok (table : List NameInfo) : ∀ (ids : List Nat) (inl inl' : Option Bool),
    checkInline table ids inl = .ok inl' →
      (∀ b, inl = some b → inl' = some b) ∧ ∀ i, i ∈ ids → inl' = some (table[i]!).isInline := by
  intro ids
  induction ids with
  | nil =>
    intro inl inl' h
    simp only [checkInline, Except.ok.injEq] at h
    subst h
    exact ⟨fun _ h => h, fun i hi => by simp at hi⟩
  | cons i is ih =>
    intro inl inl' h
    cases inl with
    | none =>
      simp only [checkInline] at h
      obtain ⟨h1, h2⟩ := ih _ _ h
      refine ⟨fun b hb => (by cases hb), fun j hj => ?_⟩
      rcases List.mem_cons.1 hj with rfl | hj
      · exact h1 _ rfl
      · exact h2 j hj
    | some b =>
      simp only [checkInline] at h
      split at h
      · cases h
      · rename_i hb
        simp only [bne_iff_ne, ne_eq, not_not] at hb
        obtain ⟨h1, h2⟩ := ih _ _ h
        refine ⟨h1, fun j hj => ?_⟩
        rcases List.mem_cons.1 hj with rfl | hj
        · rw [← hb]; exact h1 _ rfl
        · exact h2 j hj

theorem namesL_map_name (ids : List Nat) : Expr.namesL (ids.map .name) = ids := by
  induction ids with
  | nil => rfl
  | cons i is ih => simp [Expr.namesL, Expr.names, ih]

theorem wfs_map_name (ids : List Nat) : Expr.wfs (ids.map .name) = true := by
  induction ids with
  | nil => rfl
  | cons i is ih => simp [Expr.wfs, Expr.wf, ih]

theorem namesExpr_names (ids : List Nat) : (namesExpr ids).names = ids := by
  match ids with
  | [] => rfl
  | [i] => rfl
  | i :: j :: r => simp only [namesExpr, Expr.names]; exact namesL_map_name _

theorem namesExpr_wf (ids : List Nat) (h : ids ≠ []) : (namesExpr ids).wf = true := by
  match ids, h with
  | [i], _ => rfl
  | i :: j :: r, _ =>
    simp only [namesExpr, Expr.wf, List.map_cons, List.isEmpty_cons, Bool.not_false, Bool.true_and]
    exact wfs_map_name (i :: j :: r)

theorem pName_ok {table : List NameInfo} {t : String} {r : List String} {st st' : PState} {e : Expr}
    (hst : st.toks = t :: r) (hw : isWordTok t = true) (h : pName table t r st = .ok (e, st')) :
    ExprOk table st'.inline e ∧ Step table st st' := by
  unfold pName at h
  simp only at h
  split at h
  · cases h
  · rename_i hne
    split at h
    · cases h
    · rename_i inl hc
      simp only [Except.ok.injEq, Prod.mk.injEq] at h
      obtain ⟨rfl, rfl⟩ := h
      obtain ⟨hm, hall⟩ := checkInline_ok table _ _ _ hc
      have hne' : resolveIds table t ≠ [] := by simpa using hne
      have a : t ≠ "(" := by rintro rfl; exact absurd hw (by decide)
      have b : t ≠ ")" := by rintro rfl; exact absurd hw (by decide)
      have c : t ≠ "{" := by rintro rfl; exact absurd hw (by decide)
      have d : t ≠ "}" := by rintro rfl; exact absurd hw (by decide)
      refine ⟨⟨namesExpr_wf _ hne', fun i hi => ?_⟩, ⟨[t], by simp [hst], ?_, ?_, ?_⟩, hm⟩
      · rw [namesExpr_names] at hi
        exact ⟨mem_resolveIds_lt hi, hall i hi⟩
      · rw [List.count_singleton, List.count_singleton]; simp [a, b]
      · rw [List.count_singleton, List.count_singleton]; simp [c, d]
      · intro x hx
        simp only [List.mem_singleton] at hx
        subst hx
        intro _
        exact Or.inr ⟨hne', hall⟩

/-! ### the recursive descent -/

theorem wfs_iff (l : List Expr) : Expr.wfs l = true ↔ ∀ a, a ∈ l → a.wf = true := by
  induction l with
  | nil => simp [Expr.wfs]
  | cons a l ih => simp [Expr.wfs, ih]

theorem mem_namesL (l : List Expr) (t : Nat) : t ∈ Expr.namesL l ↔ ∃ a, a ∈ l ∧ t ∈ a.names := by
  induction l with
  | nil => simp [Expr.namesL]
  | cons a l ih => simp [Expr.namesL, ih]

theorem mkChoice_ok {table : List NameInfo} {inl : Option Bool} {l : List Expr} (hne : l ≠ [])
    (h : ∀ a, a ∈ l → ExprOk table inl a) : ExprOk table inl (mkChoice l) := by
  match l, hne with
  | [e], _ => exact h e (by simp)
  | e :: e' :: r, _ =>
    simp only [mkChoice]
    refine ⟨?_, fun t ht => ?_⟩
    · simp only [Expr.wf, List.isEmpty_cons, Bool.not_false, Bool.true_and]
      exact (wfs_iff _).2 (fun a ha => (h a ha).1)
    · simp only [Expr.names] at ht
      obtain ⟨a, ha, hta⟩ := (mem_namesL _ _).1 ht
      exact (h a ha).2 t hta

theorem mkSeq_ok {table : List NameInfo} {inl : Option Bool} {l : List Expr} (hne : l ≠ [])
    (h : ∀ a, a ∈ l → ExprOk table inl a) : ExprOk table inl (mkSeq l) := by
  match l, hne with
  | [e], _ => exact h e (by simp)
  | e :: e' :: r, _ =>
    simp only [mkSeq]
    refine ⟨?_, fun t ht => ?_⟩
    · simp only [Expr.wf, List.isEmpty_cons, Bool.not_false, Bool.true_and]
      exact (wfs_iff _).2 (fun a ha => (h a ha).1)
    · simp only [Expr.names] at ht
      obtain ⟨a, ha, hta⟩ := (mem_namesL _ _).1 ht
      exact (h a ha).2 t hta

theorem acc_ok {table : List NameInfo} {st st' : PState} {acc : List Expr} {e : Expr}
    (hs : Step table st st') (hacc : ∀ a, a ∈ acc → ExprOk table st.inline a) (he : ExprOk table st'.inline e) :
    ∀ a, a ∈ acc ++ [e] → ExprOk table st'.inline a := by
  intro a ha
  rcases List.mem_append.1 ha with ha | ha
  · exact (hacc a ha).lift hs.mono
  · simp only [List.mem_singleton] at ha
    subst ha
    exact he

def ParseInv (table : List NameInfo) (n : Nat) : Prop :=
  (∀ acc st e st', pChoice table n acc st = .ok (e, st') → (∀ a, a ∈ acc → ExprOk table st.inline a) →
      ExprOk table st'.inline e ∧ Step table st st') ∧
  (∀ acc st e st', pSeq table n acc st = .ok (e, st') → (∀ a, a ∈ acc → ExprOk table st.inline a) →
      ExprOk table st'.inline e ∧ Step table st st') ∧
  (∀ st e st', pSub table n st = .ok (e, st') → ExprOk table st'.inline e ∧ Step table st st') ∧
  (∀ st e st', pAtom table n st = .ok (e, st') → ExprOk table st'.inline e ∧ Step table st st')

theorem parse_inv (table : List NameInfo) : ∀ n, ParseInv table n := by
  intro n
  induction n with
  | zero =>
    refine ⟨?_, ?_, ?_, ?_⟩
    · intro acc st e st' h; simp [pChoice] at h
    · intro acc st e st' h; simp [pSeq] at h
    · intro st e st' h; simp [pSub] at h
    · intro st e st' h; simp [pAtom] at h
  | succ n ih =>
    obtain ⟨ihC, ihQ, ihS, ihA⟩ := ih
    refine ⟨?_, ?_, ?_, ?_⟩
    · -- parse_expr
      intro acc st e st' h hacc
      rw [pChoice] at h
      split at h
      · cases h
      · rename_i e1 st1 h1
        obtain ⟨ok1, s1⟩ := ihQ [] st e1 st1 h1 (fun a ha => by simp at ha)
        have hall := acc_ok s1 hacc ok1
        split at h
        · rename_i t r hst
          split at h
          · rename_i ht
            simp only [beq_iff_eq] at ht
            subst ht
            have s2 : Step table st1 { st1 with toks := r } :=
              Step.eat table st1 "|" r hst (by decide) (by decide) (by decide) (by decide) (by decide)
            obtain ⟨ok3, s3⟩ := ihC _ _ _ _ h hall
            exact ⟨ok3, (s1.trans s2).trans s3⟩
          · simp only [Except.ok.injEq, Prod.mk.injEq] at h
            obtain ⟨rfl, rfl⟩ := h
            exact ⟨mkChoice_ok (by simp) hall, s1⟩
        · simp only [Except.ok.injEq, Prod.mk.injEq] at h
          obtain ⟨rfl, rfl⟩ := h
          exact ⟨mkChoice_ok (by simp) hall, s1⟩
    · -- parse_expr_seq
      intro acc st e st' h hacc
      rw [pSeq] at h
      split at h
      · cases h
      · rename_i e1 st1 h1
        obtain ⟨ok1, s1⟩ := ihS st e1 st1 h1
        have hall := acc_ok s1 hacc ok1
        split at h
        · split at h
          · simp only [Except.ok.injEq, Prod.mk.injEq] at h
            obtain ⟨rfl, rfl⟩ := h
            exact ⟨mkSeq_ok (by simp) hall, s1⟩
          · obtain ⟨ok3, s3⟩ := ihQ _ _ _ _ h hall
            exact ⟨ok3, s1.trans s3⟩
        · simp only [Except.ok.injEq, Prod.mk.injEq] at h
          obtain ⟨rfl, rfl⟩ := h
          exact ⟨mkSeq_ok (by simp) hall, s1⟩
    · -- parse_expr_subscript
      intro st e st' h
      rw [pSub] at h
      split at h
      · cases h
      · rename_i e1 st1 h1
        obtain ⟨ok1, s1⟩ := ihA st e1 st1 h1
        obtain ⟨s2, hi, hwf, hnm⟩ := pSuffix_ok table _ _ _ _ _ h
        refine ⟨⟨by rw [hwf]; exact ok1.1, fun t ht => ?_⟩, s1.trans s2⟩
        rw [hnm] at ht
        rw [hi]
        exact ok1.2 t ht
    · -- parse_expr_atom
      intro st e st' h
      rw [pAtom] at h
      split at h
      · cases h
      · rename_i t r hst
        split at h
        · rename_i ht
          simp only [beq_iff_eq] at ht
          subst ht
          split at h
          · cases h
          · rename_i e1 st1 h1
            obtain ⟨ok1, s1⟩ := ihC [] _ e1 st1 h1 (fun a ha => by simp at ha)
            split at h
            · rename_i t' r' hst1
              split at h
              · rename_i ht'
                simp only [beq_iff_eq] at ht'
                subst ht'
                simp only [Except.ok.injEq, Prod.mk.injEq] at h
                obtain ⟨rfl, rfl⟩ := h
                refine ⟨ok1, ?_, fun b hb => s1.mono b hb⟩
                obtain ⟨c, hc, hg⟩ := s1.seg
                simp only at hc
                exact ⟨"(" :: c ++ [")"], by rw [hst, hc, hst1]; simp, hg.parens⟩
              · cases h
            · cases h
        · split at h
          · rename_i hw
            exact pName_ok hst hw h
          · cases h

/-! ### the top level -/

/-- **what an accepted token list looks like** -/
theorem parseToks_ok {table : List NameInfo} {toks : List String} {e : Expr} (h : parseToks table toks = .ok e) :
    ∃ inl, ExprOk table inl e ∧ GoodSeg table inl toks := by
  unfold parseToks at h
  split at h
  · cases h
  · rename_i r st hp
    split at h
    · rename_i hemp
      simp only [Except.ok.injEq] at h
      subst h
      obtain ⟨ok, s⟩ := (parse_inv table _).1 [] _ _ _ hp (fun a ha => by simp at ha)
      obtain ⟨c, hc, hg⟩ := s.seg
      simp only [List.isEmpty_iff] at hemp
      rw [hemp, List.append_nil] at hc
      simp only at hc
      exact ⟨st.inline, ok, by rw [hc]; exact hg⟩
    · cases h

/-! ### the recursion guard is never exhausted -/

theorem Step.length_le {table : List NameInfo} {st st' : PState} (h : Step table st st') :
    st'.toks.length ≤ st.toks.length := by
  obtain ⟨c, hc, _⟩ := h.seg
  rw [hc, List.length_append]; omega

def LenInv (table : List NameInfo) (n : Nat) : Prop :=
  (∀ acc st e st', pChoice table n acc st = .ok (e, st') → st'.toks.length < st.toks.length) ∧
  (∀ acc st e st', pSeq table n acc st = .ok (e, st') → st'.toks.length < st.toks.length) ∧
  (∀ st e st', pSub table n st = .ok (e, st') → st'.toks.length < st.toks.length) ∧
  (∀ st e st', pAtom table n st = .ok (e, st') → st'.toks.length < st.toks.length)

theorem pName_len {table : List NameInfo} {t : String} {r : List String} {st st' : PState} {e : Expr}
    (h : pName table t r st = .ok (e, st')) : st'.toks = r := by
  unfold pName at h
  simp only at h
  split at h
  · cases h
  · split at h
    · cases h
    · simp only [Except.ok.injEq, Prod.mk.injEq] at h
      obtain ⟨_, rfl⟩ := h
      rfl

theorem len_inv (table : List NameInfo) : ∀ n, LenInv table n := by
  intro n
  induction n with
  | zero =>
    refine ⟨?_, ?_, ?_, ?_⟩
    · intro acc st e st' h; simp [pChoice] at h
    · intro acc st e st' h; simp [pSeq] at h
    · intro st e st' h; simp [pSub] at h
    · intro st e st' h; simp [pAtom] at h
  | succ n ih =>
    obtain ⟨ihC, ihQ, ihS, ihA⟩ := ih
    refine ⟨?_, ?_, ?_, ?_⟩
    · intro acc st e st' h
      rw [pChoice] at h
      split at h
      · cases h
      · rename_i e1 st1 h1
        have l1 := ihQ _ _ _ _ h1
        split at h
        · rename_i t r hst
          split at h
          · have l2 := ihC _ _ _ _ h
            simp only at l2
            rw [hst] at l1
            simp only [List.length_cons] at l1
            omega
          · simp only [Except.ok.injEq, Prod.mk.injEq] at h
            obtain ⟨_, rfl⟩ := h
            exact l1
        · simp only [Except.ok.injEq, Prod.mk.injEq] at h
          obtain ⟨_, rfl⟩ := h
          exact l1
    · intro acc st e st' h
      rw [pSeq] at h
      split at h
      · cases h
      · rename_i e1 st1 h1
        have l1 := ihS _ _ _ h1
        split at h
        · split at h
          · simp only [Except.ok.injEq, Prod.mk.injEq] at h
            obtain ⟨_, rfl⟩ := h
            exact l1
          · have l2 := ihQ _ _ _ _ h
            omega
        · simp only [Except.ok.injEq, Prod.mk.injEq] at h
          obtain ⟨_, rfl⟩ := h
          exact l1
    · intro st e st' h
      rw [pSub] at h
      split at h
      · cases h
      · rename_i e1 st1 h1
        have l1 := ihA _ _ _ h1
        have l2 := (pSuffix_ok table _ _ _ _ _ h).1.length_le
        omega
    · intro st e st' h
      rw [pAtom] at h
      split at h
      · cases h
      · rename_i t r hst
        split at h
        · split at h
          · cases h
          · rename_i e1 st1 h1
            have l1 := ihC _ _ _ _ h1
            simp only at l1
            split at h
            · rename_i t' r' hst1
              split at h
              · simp only [Except.ok.injEq, Prod.mk.injEq] at h
                obtain ⟨_, rfl⟩ := h
                simp only
                rw [hst1] at l1
                rw [hst]
                simp only [List.length_cons] at l1 ⊢
                omega
              · cases h
            · cases h
        · split at h
          · rw [pName_len h, hst]; simp
          · cases h

theorem pNum_ne_fuel (st : PState) : pNum st ≠ .error .fuel := by
  unfold pNum
  split
  · simp
  · split
    · simp
    · split <;> simp

theorem pRange_ne_fuel (st : PState) : pRange st ≠ .error .fuel := by
  unfold pRange
  split
  · rename_i e h
    intro h'
    simp only [Except.error.injEq] at h'
    subst h'
    exact pNum_ne_fuel _ h
  · simp only
    split
    · rename_i e h2
      intro h'
      simp only [Except.error.injEq] at h'
      subst h'
      split at h2
      · split at h2
        · split at h2
          · cases h2
          · split at h2
            · rename_i h3
              simp only [Except.error.injEq] at h2
              subst h2
              exact pNum_ne_fuel _ h3
            · cases h2
        · cases h2
      · cases h2
    · split
      · split <;> simp
      · simp

theorem pSuffix_ne_fuel : ∀ (n : Nat) (e : Expr) (st : PState), st.toks.length + 1 ≤ n →
    pSuffix n e st ≠ .error .fuel := by
  intro n
  induction n with
  | zero => intro e st h; omega
  | succ n ih =>
    intro e st hn
    unfold pSuffix
    split
    · simp
    · rename_i t r hst
      rw [hst] at hn
      simp only [List.length_cons] at hn
      split
      · exact ih _ _ (by simp only; omega)
      · split
        · exact ih _ _ (by simp only; omega)
        · split
          · exact ih _ _ (by simp only; omega)
          · split
            · split
              · rename_i err hr
                intro h'
                simp only [Except.error.injEq] at h'
                subst h'
                exact pRange_ne_fuel _ hr
              · rename_i mn mx st1 hr
                obtain ⟨_, c, hc, _⟩ := pRange_ok hr
                simp only at hc
                apply ih
                rw [hc, List.length_append] at hn
                simp only [List.length_cons] at hn
                omega
            · simp

def FuelInv (table : List NameInfo) (n : Nat) : Prop :=
  (∀ acc st, 4 * st.toks.length + 4 ≤ n → pChoice table n acc st ≠ .error .fuel) ∧
  (∀ acc st, 4 * st.toks.length + 3 ≤ n → pSeq table n acc st ≠ .error .fuel) ∧
  (∀ st, 4 * st.toks.length + 2 ≤ n → pSub table n st ≠ .error .fuel) ∧
  (∀ st, 4 * st.toks.length + 1 ≤ n → pAtom table n st ≠ .error .fuel)

theorem pName_ne_fuel (table : List NameInfo) (t : String) (r : List String) (st : PState) :
    pName table t r st ≠ .error .fuel := by
  unfold pName
  simp only
  split
  · simp
  · split
    · rename_i e hc
      intro h'
      simp only [Except.error.injEq] at h'
      subst h'
      -- `checkInline` only raises the mixing error
      have : ∀ (ids : List Nat) (inl : Option Bool), checkInline table ids inl ≠ .error .fuel := by
        intro ids
        induction ids with
        | nil => intro inl; simp [checkInline]
        | cons i is ih =>
          intro inl
          cases inl with
          | none => simp only [checkInline]; exact ih _
          | some b =>
            simp only [checkInline]
            split
            · simp
            · exact ih _
      exact this _ _ hc
    · simp

theorem fuel_inv (table : List NameInfo) : ∀ n, FuelInv table n := by
  intro n
  induction n with
  | zero =>
    refine ⟨?_, ?_, ?_, ?_⟩ <;> intros <;> omega
  | succ n ih =>
    obtain ⟨ihC, ihQ, ihS, ihA⟩ := ih
    obtain ⟨lC, lQ, lS, lA⟩ := len_inv table n
    refine ⟨?_, ?_, ?_, ?_⟩
    · intro acc st hn
      rw [pChoice]
      split
      · rename_i e h1
        intro h'
        simp only [Except.error.injEq] at h'
        subst h'
        exact ihQ _ _ (by omega) h1
      · rename_i e1 st1 h1
        have l1 := lQ _ _ _ _ h1
        split
        · rename_i t r hst
          split
          · apply ihC
            simp only
            rw [hst] at l1
            simp only [List.length_cons] at l1
            omega
          · simp
        · simp
    · intro acc st hn
      rw [pSeq]
      split
      · rename_i e h1
        intro h'
        simp only [Except.error.injEq] at h'
        subst h'
        exact ihS _ (by omega) h1
      · rename_i e1 st1 h1
        have l1 := lS _ _ _ h1
        split
        · split
          · simp
          · exact ihQ _ _ (by omega)
        · simp
    · intro st hn
      rw [pSub]
      split
      · rename_i e h1
        intro h'
        simp only [Except.error.injEq] at h'
        subst h'
        exact ihA _ (by omega) h1
      · rename_i e1 st1 h1
        have l1 := lA _ _ _ h1
        exact pSuffix_ne_fuel _ _ _ (by omega)
    · intro st hn
      rw [pAtom]
      split
      · simp
      · rename_i t r hst
        rw [hst] at hn
        simp only [List.length_cons] at hn
        split
        · split
          · rename_i e h1
            intro h'
            simp only [Except.error.injEq] at h'
            subst h'
            exact ihC _ _ (by simp only; omega) h1
          · split
            · split <;> simp
            · simp
        · split
          · exact pName_ne_fuel _ _ _ _
          · simp

/-- **the recursion guard of the model never decides**: `parseFuel` is enough for every token list -/
theorem parseToks_ne_fuel (table : List NameInfo) (toks : List String) : parseToks table toks ≠ .error .fuel := by
  unfold parseToks
  split
  · rename_i e h
    intro h'
    simp only [Except.error.injEq] at h'
    subst h'
    exact (fuel_inv table _).1 [] _ (by simp [parseFuel]) h
  · split <;> simp

theorem parseC_ne_fuel (table : List NameInfo) (s : String) : parseC table s ≠ .error .fuel := by
  unfold parseC
  simp only
  split
  · simp
  · split
    · rename_i e h
      intro h'
      simp only [Except.error.injEq] at h'
      subst h'
      exact parseToks_ne_fuel _ _ h
    · simp

end PM.ParseC
