/-
  Proofs/FlatInsertCore.lean — inversion / introduction lemmas for `flatInsert` (PM/Replace.lean), the flat case of
  `insert_into` after the repair of C01-insert-inside-text: the content is built first, then `valid_content` of the
  *built* content is asked of the receiving node when that node is complete in the slice.
-/
import PM.Replace
namespace PM

/-- a successful flat insertion: both cuts succeeded, the result is the built content, and the receiving node (when
    there is one) accepts the built content -/
theorem flatInsert_ok_iff {S : Schema} {ins : List Node} {parent : Option TypeId} {level : List Node}
    {d idx : Nat} {c : List Node} :
    flatInsert S ins parent level d idx = .ok (some c) ↔
      ∃ l r, fcut level 0 d = .ok l ∧ fcut level d (fsize level) = .ok r ∧ c = fappend (fappend l ins) r ∧
        ∀ p, parent = some p → S.validContent p c = true := by
  unfold flatInsert
  constructor
  · intro h
    split at h
    · rename_i l r hl hr
      cases parent with
      | none =>
        simp only [Except.ok.injEq, Option.some.injEq] at h
        exact ⟨l, r, hl, hr, h.symm, by intro p hp; cases hp⟩
      | some p =>
        simp only at h
        split at h
        · rename_i hv
          simp only [Except.ok.injEq, Option.some.injEq] at h
          subst h
          exact ⟨l, r, hl, hr, rfl, by intro p' hp; cases hp; exact hv⟩
        · simp at h
    · simp at h
    · simp at h
  · rintro ⟨l, r, hl, hr, rfl, hv⟩
    simp only [hl, hr]
    cases parent with
    | none => rfl
    | some p => simp only [hv p rfl, if_true]

/-- the cuts and the built content of a successful flat insertion -/
theorem flatInsert_ok_cuts {S : Schema} {ins : List Node} {parent : Option TypeId} {level : List Node}
    {d idx : Nat} {c : List Node} (h : flatInsert S ins parent level d idx = .ok (some c)) :
    ∃ l r, fcut level 0 d = .ok l ∧ fcut level d (fsize level) = .ok r ∧ c = fappend (fappend l ins) r := by
  obtain ⟨l, r, h1, h2, h3, _⟩ := flatInsert_ok_iff.1 h
  exact ⟨l, r, h1, h2, h3⟩

/-- the receiving node accepts what a successful flat insertion returns -/
theorem flatInsert_ok_valid {S : Schema} {ins : List Node} {p : TypeId} {level : List Node}
    {d idx : Nat} {c : List Node} (h : flatInsert S ins (some p) level d idx = .ok (some c)) :
    S.validContent p c = true := by
  obtain ⟨_, _, _, _, _, hv⟩ := flatInsert_ok_iff.1 h
  exact hv p rfl

/-- introduction: the cuts succeed and the receiving node accepts the built content -/
theorem flatInsert_of_cuts {S : Schema} {ins : List Node} {parent : Option TypeId} {level : List Node}
    {d idx : Nat} {l r : List Node} (hl : fcut level 0 d = .ok l) (hr : fcut level d (fsize level) = .ok r)
    (hv : ∀ p, parent = some p → S.validContent p (fappend (fappend l ins) r) = true) :
    flatInsert S ins parent level d idx = .ok (some (fappend (fappend l ins) r)) :=
  flatInsert_ok_iff.2 ⟨l, r, hl, hr, rfl, hv⟩

/-- the child index is not consulted -/
theorem flatInsert_idx (S : Schema) (ins : List Node) (parent : Option TypeId) (level : List Node)
    (d idx idx' : Nat) : flatInsert S ins parent level d idx = flatInsert S ins parent level d idx' := rfl

/-- an error of a flat insertion is an error of one of the two cuts -/
theorem flatInsert_error {S : Schema} {ins : List Node} {parent : Option TypeId} {level : List Node}
    {d idx : Nat} {e : Err} (h : flatInsert S ins parent level d idx = .error e) :
    fcut level 0 d = .error e ∨ fcut level d (fsize level) = .error e := by
  unfold flatInsert at h
  split at h
  · cases parent with
    | none => simp at h
    | some p => simp only at h; split at h <;> simp at h
  · rename_i e' he
    simp only [Except.error.injEq] at h
    subst h
    exact .inl he
  · rename_i e' he _
    simp only [Except.error.injEq] at h
    subst h
    exact .inr he

/-- without a receiving node to ask, the flat insertion is the built content -/
theorem flatInsert_none (S : Schema) (ins level : List Node) (d idx : Nat) :
    flatInsert S ins none level d idx =
      match fcut level 0 d, fcut level d (fsize level) with
      | .ok l, .ok r => .ok (some (fappend (fappend l ins) r))
      | .error e, _ => .error e
      | _, .error e => .error e := by
  unfold flatInsert
  split <;> simp_all

/-! ### `Slice.insertAt`: the bound `pos ≤ size` comes first -/

/-- the body of `Slice.insertAt` behind its bound test -/
def Slice.insertAtIn (S : Schema) (sl : Slice) (pos : Nat) (frag : List Node) : Res (Option Slice) :=
  match insertInto S frag none sl.content (pos + sl.openStart) 0 sl.content (pos + sl.openStart)
      sl.openStart sl.openEnd with
  | .ok (some c) => .ok (some ⟨c, sl.openStart, sl.openEnd⟩)
  | .ok none => .ok none
  | .error e => .error e

theorem insertAt_of_le {S : Schema} {sl : Slice} {pos : Nat} {frag : List Node} (h : (pos : Int) ≤ sl.size) :
    sl.insertAt S pos frag = sl.insertAtIn S pos frag := by
  unfold Slice.insertAt Slice.insertAtIn
  rw [if_neg (by omega)]
  split <;> simp_all

theorem insertAt_of_gt {S : Schema} {sl : Slice} {pos : Nat} {frag : List Node} (h : sl.size < (pos : Int)) :
    sl.insertAt S pos frag = .ok none := by
  unfold Slice.insertAt
  rw [if_pos h]

/-- a successful `insert_at` was inside the slice and went through `insert_into` -/
theorem insertAt_ok {S : Schema} {sl x : Slice} {pos : Nat} {frag : List Node}
    (h : sl.insertAt S pos frag = .ok (some x)) :
    (pos : Int) ≤ sl.size ∧ ∃ c, insertInto S frag none sl.content (pos + sl.openStart) 0 sl.content
      (pos + sl.openStart) sl.openStart sl.openEnd = .ok (some c) ∧ x = ⟨c, sl.openStart, sl.openEnd⟩ := by
  unfold Slice.insertAt at h
  split at h
  · simp at h
  · rename_i hle
    refine ⟨by omega, ?_⟩
    split at h
    · rename_i c hc
      simp only [Except.ok.injEq, Option.some.injEq] at h
      exact ⟨c, hc, h.symm⟩
    · simp at h
    · simp at h

theorem insertAt_error {S : Schema} {sl : Slice} {pos : Nat} {frag : List Node} {e : Err}
    (h : sl.insertAt S pos frag = .error e) :
    insertInto S frag none sl.content (pos + sl.openStart) 0 sl.content (pos + sl.openStart)
      sl.openStart sl.openEnd = .error e := by
  unfold Slice.insertAt at h
  split at h
  · simp at h
  · split at h
    · simp at h
    · simp at h
    · rename_i e' he
      simp only [Except.error.injEq] at h
      subst h
      exact he

end PM
