/- Proofs/GapTailPath.lean — a successful `removeRange` whose end sits at the end of `level` or on a close token
   of `level` has a `TailPath`. -/
import Proofs.GapTailDef
namespace PM
open PM

/-- a flat position inside `level` never carries a close token -/
theorem flatAt_tok : ∀ (level : List Node) (T : Nat), fnormKids level = true → flatAt level T = true →
    T < fsize level → (ftoks level)[T]? ≠ some Tok.cl
  | [], T, _, _, hlt => by simp at hlt
  | n :: ns, T, hn, hf, hlt => by
    simp only [fnormKids_cons, Bool.and_eq_true] at hn
    have hpos := Node.size_pos_of_norm n hn.1
    unfold flatAt at hf
    rw [ftoks_cons]
    split at hf
    · rename_i h0; subst h0
      rw [List.getElem?_append_left (by rw [Node.toks_length]; exact hpos)]
      cases n with
      | text s m =>
        cases s with
        | nil => simp at hpos
        | cons c cs => simp
      | leaf ty a m => simp
      | elem ty a m k => simp
    · split at hf
      · rename_i h0 hle
        rw [List.getElem?_append_right (by rw [Node.toks_length]; exact hle), Node.toks_length]
        exact flatAt_tok ns (T - n.size) hn.2 hf (by simp at hlt; omega)
      · rename_i h0 hlt'
        cases n with
        | text s m =>
          simp only [Node.size_text] at hlt'
          rw [List.getElem?_append_left (by simp; omega)]
          simp only [Node.toks_text, List.getElem?_map]
          rw [List.getElem?_eq_getElem (by omega)]
          simp
        | leaf ty a m => simp [Node.isText] at hf
        | elem ty a m k => simp [Node.isText] at hf

theorem removeFlat_flatAt {level : List Node} {F T : Nat} {c : List Node}
    (h : removeRange.removeFlat level F T = .ok c) : flatAt level T = true := by
  unfold removeRange.removeFlat at h
  split at h
  · simp at h
  · split at h
    · simp at h
    · rename_i h2; simpa using h2

theorem end_of_flat {level : List Node} {T : Nat} (hn : fnormKids level = true)
    (hf : flatAt level T = true) (h : T = fsize level ∨ (ftoks level)[T]? = some Tok.cl) :
    T = fsize level := by
  rcases h with h | h
  · exact h
  · by_cases hlt : T < fsize level
    · exact absurd h (flatAt_tok level T hn hf hlt)
    · rw [List.getElem?_eq_none (by rw [ftoks_length]; omega)] at h
      simp at h

theorem tok_elem (pre : List Node) (ty : TypeId) (a : Attrs) (m : Marks) (k ns : List Node) (T' : Nat)
    (h : T' < fsize k) :
    (ftoks (pre ++ .elem ty a m k :: ns))[fsize pre + 1 + T']? = (ftoks k)[T']? := by
  rw [ftoks_append, List.getElem?_append_right (by rw [ftoks_length]; omega), ftoks_length,
    show fsize pre + 1 + T' - fsize pre = T' + 1 by omega, ftoks_cons, Node.toks_elem]
  simp only [List.cons_append, List.getElem?_cons_succ, List.append_assoc]
  rw [List.getElem?_append_left (by rw [ftoks_length]; exact h)]

theorem tailPath_scan : ∀ (rest pre : List Node) (f t : Nat) (level' : List Node),
    fnormKids (pre ++ rest) = true → f ≤ t →
    removeRange (pre ++ rest) (fsize pre + f) (fsize pre + t) pre.length rest f t = .ok level' →
    (fsize pre + t = fsize (pre ++ rest) ∨ (ftoks (pre ++ rest))[fsize pre + t]? = some Tok.cl) →
    TailPath (pre ++ rest) (fsize pre + f) (fsize pre + t)
  | [], pre, f, t, level', hn, hft, h, hT => by
    unfold removeRange at h
    split at h
    · rename_i h0; subst h0
      have hT' := end_of_flat hn (removeFlat_flatAt h) hT
      exact .hereB (l := pre) (r := []) rfl rfl hT'
    · simp at h
  | n :: ns, pre, f, t, level', hn, hft, h, hT => by
    have hn' := hn
    rw [fnormKids_append] at hn'
    simp only [fnormKids_cons, Bool.and_eq_true] at hn'
    unfold removeRange at h
    split at h
    · rename_i h0; subst h0
      have hT' := end_of_flat hn (removeFlat_flatAt h) hT
      exact .hereB (l := pre) (r := n :: ns) rfl rfl hT'
    · rename_i h0
      split at h
      · rename_i hle
        have e : pre ++ [n] ++ ns = pre ++ n :: ns := by simp
        have e1 : fsize (pre ++ [n]) + (f - n.size) = fsize pre + f := by
          rw [fsize_append]; simp only [fsize_cons, fsize_nil, Nat.add_zero]; omega
        have e2 : fsize (pre ++ [n]) + (t - n.size) = fsize pre + t := by
          rw [fsize_append]; simp only [fsize_cons, fsize_nil, Nat.add_zero]; omega
        have := tailPath_scan ns (pre ++ [n]) (f - n.size) (t - n.size) level' (by rw [e]; exact hn)
          (by omega) (by rw [e, e1, e2]; simpa using h) (by rw [e, e2]; exact hT)
        rwa [e, e1, e2] at this
      · rename_i hlt
        cases n with
        | text s m =>
          simp only [Node.size_text] at hlt
          simp only at h
          have hT' := end_of_flat hn (removeFlat_flatAt h) hT
          refine .hereT (l := pre) (r := ns) (s1 := s.take f) (s2 := s.drop f) (m := m) ?_ ?_ ?_ ?_ hT'
          · rw [List.take_append_drop]
          · intro hc
            have := congrArg List.length hc
            rw [List.length_take, List.length_nil] at this; omega
          · intro hc
            have := congrArg List.length hc
            rw [List.length_drop, List.length_nil] at this; omega
          · rw [List.length_take]; omega
        | leaf ty a m => simp at hlt; omega
        | elem ty a m k =>
          simp only [Node.size_elem] at hlt h
          split at h
          · rename_i htl
            cases hin : removeRange k (f - 1) (t - 1) 0 k (f - 1) (t - 1) with
            | error e => rw [hin] at h; simp at h
            | ok inner =>
              have hk : fnormKids k = true := by
                have := hn'.2.1
                simp only [Node.norm_elem] at this
                exact fnormKids_of_fnorm this
              have hlev : fsize (pre ++ Node.elem ty a m k :: ns) = fsize pre + (2 + fsize k) + fsize ns := by
                rw [fsize_append]; simp; omega
              have hTk : (t - 1 = fsize k ∨ (ftoks k)[t - 1]? = some Tok.cl) := by
                by_cases hc : t - 1 = fsize k
                · exact .inl hc
                · right
                  rcases hT with hT | hT
                  · omega
                  · rw [← tok_elem pre ty a m k ns (t - 1) (by omega),
                      show fsize pre + 1 + (t - 1) = fsize pre + t by omega]
                    exact hT
              have := tailPath_scan k [] (f - 1) (t - 1) inner (by simpa using hk) (by omega)
                (by simpa using hin) (by simpa using hTk)
              simp only [List.nil_append, fsize_nil, Nat.zero_add] at this
              exact .down (F' := f - 1) (T' := t - 1) rfl (by omega) (by omega) this
          · simp at h

theorem tailPath_of_remove : ∀ (level : List Node) (F T : Nat) (level' : List Node),
    fnormKids level = true → F ≤ T →
    removeRange level F T 0 level F T = .ok level' →
    (T = fsize level ∨ (ftoks level)[T]? = some Tok.cl) →
    TailPath level F T := by
  intro level F T level' hn hft h hT
  have := tailPath_scan level [] F T level' (by simpa using hn) hft (by simpa using h) (by simpa using hT)
  simpa using this

end PM
