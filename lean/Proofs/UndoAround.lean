/-
  Proofs/UndoAround.lean — helper lemmas for the success half of undoing a replace-around step (C04):
  the gap, found again in the new document, is a closed slice with the same content; putting it back
  into the old slice from which it was removed gives the old slice.
-/
import Proofs.StepToks
import Proofs.Undo
import Proofs.UndoForward
import Proofs.FlatInsertCore
namespace PM

/-- a range whose tokens never dip below their starting level and end on it is cut as a closed slice -/
theorem sliceKids_closed (K : List Node) (p q : Nat) (s : Slice) (hpq : p < q) (hq : q ≤ fsize K)
    (h : sliceKids K p q = .ok s)
    (hb : ∀ k, p ≤ k → k ≤ q → balance ((ftoks K).take p) ≤ balance ((ftoks K).take k))
    (hb0 : balance ((ftoks K).take q) = balance ((ftoks K).take p)) :
    s.openStart = 0 ∧ s.openEnd = 0 := by
  have hspec := sliceKids_spec K p q s hpq hq h
  obtain ⟨sh, h1, h2, h3, k0, hk1, hk2, hk3⟩ := hspec.opens
  have d1 := depthAt_balance K p (by omega)
  have d2 := depthAt_balance K q hq
  have := h3 p (Nat.le_refl _) (by omega)
  have := hb k0 hk1 hk2
  omega

/-- tokens of a slice's content: the trimmed opens, the slice's tokens, the trimmed closes -/
theorem slice_content_toks (sl : Slice) (hwf : sl.wf = true) :
    ftoks sl.content = (ftoks sl.content).take sl.openStart ++ sl.toks ++
      (ftoks sl.content).drop (fsize sl.content - sl.openEnd) := by
  have hw := wf_opens_le hwf
  simp only [Slice.toks]
  have e : fsize sl.content - sl.openEnd
      = sl.openStart + (fsize sl.content - sl.openStart - sl.openEnd) := by omega
  rw [e, List.append_assoc, ← List.drop_drop, List.take_append_drop, List.take_append_drop]

/-- removing a window from a slice and inserting the same tokens back gives the slice -/
theorem reinsert_gap_eq (S : Schema) (old rem x : Slice) (d g : Nat) (G : List Node)
    (hwf : old.wf = true) (hno : fnorm old.content = true) (hnG : fnorm G = true)
    (hdg : ((d + g : Nat) : Int) ≤ old.size)
    (hrm : old.removeBetween d (d + g) = .ok rem)
    (hG : ftoks G = (old.toks.drop d).take g)
    (hx : rem.insertAt S d G = .ok (some x)) : x = old := by
  have hnr := removeBetween_norm old rem d (d + g) hno hrm
  have hnx := insertAt_norm S rem x d G hnr hnG hx
  have hw := wf_opens_le hwf
  simp only [Slice.size] at hdg
  unfold Slice.removeBetween at hrm
  simp only at hrm
  split at hrm
  · simp at hrm
  · split at hrm
    · rename_i c1 hc1
      simp at hrm; subst hrm
      obtain ⟨htk1, _⟩ := removeRange_toks old.content old.content _ _ 0 _ _ [] c1 rfl rfl (by simp)
        (by simp) (by omega) hc1
      rw [insertAt_of_le (insertAt_ok hx).1] at hx
      unfold Slice.insertAtIn at hx
      simp only at hx
      split at hx
      · rename_i c2 hc2
        simp at hx; subst hx
        obtain ⟨htk2, _⟩ := insertInto_toks S G none c1 _ _ _ c2 hc2
        have hlen : ((ftoks old.content).take (d + old.openStart)).length = d + old.openStart := by
          simp [ftoks_length]; omega
        have hwin : ftoks G = ((ftoks old.content).drop (d + old.openStart)).take g := by
          rw [hG]
          simp only [Slice.toks]
          rw [List.drop_take, List.drop_drop, List.take_take, Nat.add_comm old.openStart d]
          congr 1
          omega
        have : ftoks c2 = ftoks old.content := by
          rw [htk2, htk1, take_app_ge _ _ _ (by omega), drop_app_ge _ _ _ (by omega), hlen,
            Nat.sub_self, List.take_zero, List.drop_zero, List.append_nil, hwin]
          have e : d + g + old.openStart = d + old.openStart + g := by omega
          rw [e]
          have := splice_mid (ftoks old.content) (d + old.openStart) (d + old.openStart + g)
            (by omega) (by rw [ftoks_length]; omega)
          rwa [Nat.add_sub_cancel_left] at this
        have hc : c2 = old.content := ftoks_inj _ _ hnx hno this
        cases old
        simp only at hc ⊢
        rw [hc]
      · simp at hx
      · simp at hx
    · simp at hrm

end PM
