/- Proofs/MkNode.lean — the node constructor `Schema.mkNode` of PM/CreateFill.lean (used by Props/C07.lean and
   Proofs/CreateFill.lean; kept apart so that C07 does not depend on the filling proofs) -/
import PM.CreateFill
namespace PM

/-! ### the node constructor -/

theorem mkNode_isText (S : Schema) (t : TypeId) (a : Attrs) (m : Marks) (k : List Node) :
    (S.mkNode t a m k).isText = false := by
  unfold Schema.mkNode; split <;> rfl

theorem mkNode_tyOf (S : Schema) (t : TypeId) (a : Attrs) (m : Marks) (k : List Node) :
    S.tyOf (S.mkNode t a m k) = t := by
  unfold Schema.mkNode Schema.tyOf; split <;> rfl

theorem mkNode_marks (S : Schema) (t : TypeId) (a : Attrs) (m : Marks) (k : List Node) :
    (S.mkNode t a m k).marks = m := by
  unfold Schema.mkNode; split <;> rfl

theorem mkNode_attrs (S : Schema) (t : TypeId) (a : Attrs) (m : Marks) (k : List Node) :
    (S.mkNode t a m k).attrs = a := by
  unfold Schema.mkNode; split <;> rfl

theorem mkNode_kids (S : Schema) (t : TypeId) (a : Attrs) (m : Marks) (k : List Node) :
    (S.mkNode t a m k).kids = k := by
  unfold Schema.mkNode
  split
  · rename_i h
    simp only [Bool.and_eq_true, List.isEmpty_iff] at h
    simp [Node.kids, h.2]
  · rfl

theorem mkNode_check (S : Schema) (t : TypeId) (a : Attrs) (m : Marks) (k : List Node) :
    S.checkNode (S.mkNode t a m k) = (S.validContent t k && canonicalMarks S m && S.checkKids k) := by
  unfold Schema.mkNode
  split
  · rename_i h
    simp only [Bool.and_eq_true, List.isEmpty_iff] at h
    rw [h.2]
    simp [Schema.checkNode, Schema.checkKids, Bool.and_comm]
  · simp [Schema.checkNode]

end PM
