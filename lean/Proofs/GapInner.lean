/-
  Proofs/GapInner.lean — a step inside an element node of the kept gap of a replace-around step (C17,
  `commute_succeeds_around_gap`): nested levels found from token windows (`lvl_of_window`), a closed node list cut
  again where its tokens stand (`slice_window`), the right-hand side behind an exchanged level (`rightRel_after_lvl`),
  the guard's decomposition (`insideGap_decomp`), `Slice.insertAt` with the content of an inner node exchanged.
-/
import Proofs.CommuteAroundAgain
import Proofs.TypePlan
import Proofs.MergeRel
import Proofs.CommuteSuccess
namespace PM
open PM

/-- **a closed list of nodes is cut again where its tokens stand** (generalises `slice_again`) -/
theorem slice_window (K' G : List Node) (p' : Nat) (hn' : fnorm K' = true) (hG : fnorm G = true)
    (hq' : p' + fsize G ≤ fsize K')
    (hwin : ((ftoks K').drop p').take (fsize G) = ftoks G)
    (hal : 0 < fsize G → alignedAt K' p' = true ∧ alignedAt K' (p' + fsize G) = true) :
    sliceKids K' p' (p' + fsize G) = .ok ⟨G, 0, 0⟩ := by
  by_cases h0 : fsize G = 0
  · have : G = [] := fsize_zero_of_fnormKids G (fnormKids_of_fnorm hG) h0
    subst this
    simp [sliceKids, Slice.empty]
  · obtain ⟨hal1, hal2⟩ := hal (by omega)
    obtain ⟨gap2, hgap2⟩ := sliceKids_total K' p' (p' + fsize G) (by omega) hq' hal1 hal2 hn'
    have hg2n := sliceKids_norm K' _ _ gap2 hn' hgap2
    have hsplit : ∀ k, p' ≤ k → k ≤ p' + fsize G →
        (ftoks K').take k = (ftoks K').take p' ++ (ftoks G).take (k - p') := by
      intro k hk1 hk2
      have e : k = p' + (k - p') := by omega
      rw [← hwin, List.take_take, Nat.min_eq_left (by omega)]
      conv => lhs; rw [e]
      exact List.take_add
    have hg2closed : gap2.openStart = 0 ∧ gap2.openEnd = 0 := by
      refine sliceKids_closed K' _ _ gap2 (by omega) hq' hgap2 ?_ ?_
      · intro k hk1 hk2
        rw [hsplit k hk1 hk2]
        simp only [balance_append]
        have := balance_prefix_nonneg G (k - p')
        omega
      · rw [hsplit (p' + fsize G) (by omega) (Nat.le_refl _)]
        simp only [balance_append]
        have hlen : (ftoks G).length ≤ p' + fsize G - p' := by
          rw [ftoks_length]; omega
        rw [List.take_of_length_le hlen, balance_ftoks]
        omega
    have eG2 : gap2.content = G := by
      apply ftoks_inj _ _ hg2n.1 hG
      have : gap2 = ⟨gap2.content, 0, 0⟩ := by
        cases gap2; simp at hg2closed; simp [hg2closed.1, hg2closed.2]
      rw [← Slice.toks_closed, ← this,
        sliceKids_toks K' _ _ gap2 (by omega) hq' hgap2,
        show p' + fsize G - p' = fsize G by omega]
      exact hwin
    rw [hgap2]
    cases gap2
    simp at hg2closed eG2
    simp [hg2closed.1, hg2closed.2, eG2]

/-- a level put back into its context keeps normal form -/
theorem Lvl.ctx_norm {ty tyP : TypeId} {K L : List Node} {b nd : Nat} {ctx : List Node → List Node}
    (h : Lvl ty K b nd tyP L ctx) (hn : fnorm K = true) (X : List Node) (hX : fnorm X = true) :
    fnorm (ctx X) = true := by
  induction h with
  | here => exact hX
  | @down tyC tyP kidsC L b nd ctx ty pre aC mC ns hp hl ih =>
    have hk : fnorm kidsC = true := by
      have := fnormKids_of_fnorm hn
      rw [fnormKids_append] at this
      simp only [fnormKids_cons, Bool.and_eq_true, Node.norm_elem] at this
      exact this.2.1
    exact set_elem_norm pre tyC aC mC kidsC (ctx X) ns hn (ih hk)

/-- a nested level seen from a longer list: more siblings in front -/
theorem Lvl.cons_pre {ty tyP : TypeId} {K L : List Node} {b nd : Nat} {ctx : List Node → List Node}
    (h : Lvl ty K b (nd + 1) tyP L ctx) (pre : List Node) (hp : fnormKids pre = true) :
    Lvl ty (pre ++ K) (fsize pre + b) (nd + 1) tyP L (fun X => pre ++ ctx X) := by
  cases h with
  | @down tyC tyP kidsC L b0 nd0 ctx0 ty pre0 aC mC ns hp0 hl =>
    have := Lvl.down ty (pre ++ pre0) aC mC ns (by rw [fnormKids_append, hp, hp0]; rfl) hl
    simp only [List.append_assoc, fsize_append] at this
    rw [show fsize pre + (fsize pre0 + 1 + b0) = fsize pre + fsize pre0 + 1 + b0 by omega]
    exact this

theorem lvl_of_nodeAt (K : List Node) (p : Nat) (ty0 t : TypeId) (a : Attrs) (m : Marks) (k : List Node)
    (hn : fnormKids K = true) (h : nodeAtKids K p = .ok (some (.elem t a m k))) :
    ∃ nd ctx, Lvl ty0 K (p + 1) (nd + 1) t k ctx := by
  fun_induction nodeAtKids K p generalizing ty0
  case case1 => simp at h
  case case2 => simp at h
  case case3 n ns =>
    simp only [Except.ok.injEq, Option.some.injEq] at h
    subst h
    exact ⟨0, _, Lvl.down ty0 [] a m ns rfl (Lvl.here t k)⟩
  case case4 n ns pos h0 h1 ih =>
    simp only [fnormKids_cons, Bool.and_eq_true] at hn
    obtain ⟨nd, ctx, hl⟩ := ih ty0 hn.2 h
    have := hl.cons_pre [n] (by simp [hn.1])
    have e : fsize [n] + (pos - n.size + 1) = pos + 1 := by simp; omega
    rw [e] at this
    exact ⟨nd, _, this⟩
  case case5 ns pos h0 tyC ats mk kC h1 ih =>
    simp only [fnormKids_cons, Bool.and_eq_true, Node.norm_elem] at hn
    obtain ⟨nd, ctx, hl⟩ := ih tyC (fnormKids_of_fnorm hn.1) h
    have := Lvl.down ty0 [] ats mk ns rfl hl
    have e : fsize ([] : List Node) + 1 + (pos - 1 + 1) = pos + 1 := by simp; omega
    rw [e] at this
    exact ⟨nd + 1, _, this⟩
  case case6 n ns pos h0 h1 hne =>
    simp only [Except.ok.injEq, Option.some.injEq] at h
    exact absurd h (by intro hh; exact hne t a m k hh)

/-- **the element node whose tokens stand at `p` is a nested level** -/
theorem lvl_of_window (K : List Node) (p : Nat) (ty0 t : TypeId) (a : Attrs) (m : Marks) (k : List Node)
    (R : List Tok) (hn : fnorm K = true) (hk : fnorm k = true)
    (hw : (ftoks K).drop p = Tok.op t a m :: (ftoks k ++ Tok.cl :: R)) :
    ∃ nd ctx, Lvl ty0 K (p + 1) (nd + 1) t k ctx := by
  have hget : (ftoks K)[p]? = some (Tok.op t a m) := by
    have : ((ftoks K).drop p)[0]? = some (Tok.op t a m) := by rw [hw]; rfl
    simpa using this
  obtain ⟨n, hnat, _, _⟩ := nodeAtKids_of_head K p _ (fnormKids_of_fnorm hn) hget (by simp) (by simp)
  have := nodeAt_elem_of_window (.elem ty0 [] [] K) n p t a m k R hn hk hnat hw
  subst this
  exact lvl_of_nodeAt K p ty0 t a m k (fnormKids_of_fnorm hn) hnat

theorem Lvl.ctx_size {ty tyP : TypeId} {K L : List Node} {b nd : Nat} {ctx : List Node → List Node}
    (h : Lvl ty K b nd tyP L ctx) (X : List Node) : fsize (ctx X) + fsize L = fsize K + fsize X := by
  obtain ⟨A, D, _, hX⟩ := h.toks
  have h1 := congrArg List.length (hX X)
  have h2 := congrArg List.length (hX L)
  rw [h.ctx_self] at h2
  simp only [List.length_append, ftoks_length] at h1 h2
  omega

/-- **behind a nested level nothing changes when the level is exchanged**: the right-hand sides of `ctx X` and
    `K = ctx L` at a position behind the node whose content `L` is, are related -/
theorem rightRel_after_lvl (S : Schema) {ty tyP : TypeId} {K L : List Node} {b nd : Nat}
    {ctx : List Node → List Node} (h : Lvl ty K b nd tyP L ctx) (hpos : 0 < nd) (hn : fnorm K = true)
    (X : List Node) :
    ∀ q, b + fsize L + 1 ≤ q → q ≤ fsize K → alignedAt K q = true →
      RightRel S (ctx X) (q - fsize L + fsize X) K q := by
  induction h with
  | here => omega
  | @down tyC tyP kidsC L b0 nd0 ctx0 ty pre aC mC ns hp hl ih =>
    intro q hq1 hq2 ha
    have hr := hl.range
    have hsz := hl.ctx_size X
    have hk : fnorm kidsC = true := by
      have := fnormKids_of_fnorm hn
      rw [fnormKids_append] at this
      simp only [fnormKids_cons, Bool.and_eq_true, Node.norm_elem] at this
      exact this.2.1
    rw [fsize_append, fsize_cons, Node.size_elem] at hq2
    by_cases hin : q < fsize pre + (2 + fsize kidsC)
    · -- inside this ancestor
      have hnd0 : 0 < nd0 := by
        rcases Nat.eq_zero_or_pos nd0 with h0 | h0
        · subst h0
          obtain ⟨e1, e2⟩ := hl.zero
          subst e1 e2
          omega
        · exact h0
      obtain ⟨i, rfl⟩ : ∃ i, q = fsize pre + (1 + i) := ⟨q - fsize pre - 1, by omega⟩
      have hai : alignedAt kidsC i = true := by
        rw [alignedAt_append_pre, alignedAt_cons, if_neg (by omega), if_neg (by simp; omega)] at ha
        simpa using ha
      have hrel := ih hnd0 hk i (by omega) (by omega) hai
      have e' : fsize pre + (1 + i) - fsize L + fsize X = fsize pre + (1 + (i - fsize L + fsize X)) := by omega
      rw [e']
      refine RightRel.deep (ty' := tyC) (a' := aC) (m' := mC) (k' := ctx0 X) (i' := i - fsize L + fsize X)
        (ty := tyC) (a := aC) (m := mC) (k := kidsC) (i := i) (r := ns) ?_ ?_ (compatibleContent_self S tyC) hrel
      · rw [splitRight_append_pre _ _ _ hp, splitRight_cons, if_neg (by omega), if_neg (by simp; omega)]
        simp
      · rw [splitRight_append_pre _ _ _ hp, splitRight_cons, if_neg (by omega), if_neg (by simp; omega)]
        simp
    · -- behind it
      obtain ⟨r, rfl⟩ : ∃ r, q = fsize pre + ((2 + fsize kidsC) + r) := ⟨q - fsize pre - (2 + fsize kidsC), by omega⟩
      have e' : fsize pre + ((2 + fsize kidsC) + r) - fsize L + fsize X
          = fsize pre + ((2 + fsize (ctx0 X)) + r) := by omega
      rw [e']
      refine rightRel_of_split_eq S ?_ (by rw [fsize_append, fsize_cons, Node.size_elem]; omega) ha
      rw [splitRight_append_pre _ _ _ hp, splitRight_append_pre _ _ _ hp,
        splitRight_skip _ _ _ (by omega) (by simp), splitRight_skip _ _ _ (by omega) (by simp)]
      simp
end PM
