/-
  Proofs/GapInner.lean — a step inside an element node of the kept gap of a replace-around step (C17,
  `commute_succeeds_around_gap`): nested levels found from token windows (`lvl_of_window`), a closed node list cut
  again where its tokens stand (`sliceKids_window`), the right-hand side behind an exchanged level (`rightRel_after_lvl`),
  the guard's decomposition (`insideGap_decomp`), `Slice.insertAt` with the content of an inner node exchanged.
-/
import Proofs.CommuteAroundAgain
import Proofs.TypePlan
import Proofs.MergeRel
import Proofs.CommuteSuccess
import Proofs.ShallowKeys
namespace PM
open PM

/-- **a closed list of nodes is cut again where its tokens stand** (generalises `slice_again`) -/
theorem sliceKids_window (K' G : List Node) (p' : Nat) (hn' : fnorm K' = true) (hG : fnorm G = true)
    (hq' : p' + fsize G ≤ fsize K')
    (hwin : ((ftoks K').drop p').take (fsize G) = ftoks G)
    (hal : 0 < fsize G → alignedAt K' p' = true ∧ alignedAt K' (p' + fsize G) = true) :
    sliceKids K' p' (p' + fsize G) = .ok ⟨G, 0, 0⟩ := by
  by_cases h0 : fsize G = 0
  · have : G = [] := fsize_zero_of_fnormKids G (fnormKids_of_fnorm hG) h0
    subst this
    simp [sliceKids, Slice.empty]
  · obtain ⟨hal1, hal2⟩ := hal (by omega)
    obtain ⟨gap2, hgap2⟩ := sliceKids_total K' p' (p' + fsize G) (by omega) hq' hal1 hal2 hn'
    have hg2n := sliceKids_norm K' _ _ gap2 hn' hgap2
    have hsplit : ∀ k, p' ≤ k → k ≤ p' + fsize G →
        (ftoks K').take k = (ftoks K').take p' ++ (ftoks G).take (k - p') := by
      intro k hk1 hk2
      have e : k = p' + (k - p') := by omega
      rw [← hwin, List.take_take, Nat.min_eq_left (by omega)]
      conv => lhs; rw [e]
      exact List.take_add
    have hg2closed : gap2.openStart = 0 ∧ gap2.openEnd = 0 := by
      refine sliceKids_closed K' _ _ gap2 (by omega) hq' hgap2 ?_ ?_
      · intro k hk1 hk2
        rw [hsplit k hk1 hk2]
        simp only [balance_append]
        have := balance_prefix_nonneg G (k - p')
        omega
      · rw [hsplit (p' + fsize G) (by omega) (Nat.le_refl _)]
        simp only [balance_append]
        have hlen : (ftoks G).length ≤ p' + fsize G - p' := by
          rw [ftoks_length]; omega
        rw [List.take_of_length_le hlen, balance_ftoks]
        omega
    have eG2 : gap2.content = G := by
      apply ftoks_inj _ _ hg2n.1 hG
      have : gap2 = ⟨gap2.content, 0, 0⟩ := by
        cases gap2; simp at hg2closed; simp [hg2closed.1, hg2closed.2]
      rw [← Slice.toks_closed, ← this,
        sliceKids_toks K' _ _ gap2 (by omega) hq' hgap2,
        show p' + fsize G - p' = fsize G by omega]
      exact hwin
    rw [hgap2]
    cases gap2
    simp at hg2closed eG2
    simp [hg2closed.1, hg2closed.2, eG2]

/-- a level put back into its context keeps normal form -/
theorem Lvl.ctx_norm {ty tyP : TypeId} {K L : List Node} {b nd : Nat} {ctx : List Node → List Node}
    (h : Lvl ty K b nd tyP L ctx) (hn : fnorm K = true) (X : List Node) (hX : fnorm X = true) :
    fnorm (ctx X) = true := by
  induction h with
  | here => exact hX
  | @down tyC tyP kidsC L b nd ctx ty pre aC mC ns hp hl ih =>
    have hk : fnorm kidsC = true := by
      have := fnormKids_of_fnorm hn
      rw [fnormKids_append] at this
      simp only [fnormKids_cons, Bool.and_eq_true, Node.norm_elem] at this
      exact this.2.1
    exact set_elem_norm pre tyC aC mC kidsC (ctx X) ns hn (ih hk)

/-- a nested level seen from a longer list: more siblings in front -/
theorem Lvl.cons_pre {ty tyP : TypeId} {K L : List Node} {b nd : Nat} {ctx : List Node → List Node}
    (h : Lvl ty K b (nd + 1) tyP L ctx) (pre : List Node) (hp : fnormKids pre = true) :
    Lvl ty (pre ++ K) (fsize pre + b) (nd + 1) tyP L (fun X => pre ++ ctx X) := by
  cases h with
  | @down tyC tyP kidsC L b0 nd0 ctx0 ty pre0 aC mC ns hp0 hl =>
    have := Lvl.down ty (pre ++ pre0) aC mC ns (by rw [fnormKids_append, hp, hp0]; rfl) hl
    simp only [List.append_assoc, fsize_append] at this
    rw [show fsize pre + (fsize pre0 + 1 + b0) = fsize pre + fsize pre0 + 1 + b0 by omega]
    exact this

theorem lvl_of_nodeAt (K : List Node) (p : Nat) (ty0 t : TypeId) (a : Attrs) (m : Marks) (k : List Node)
    (hn : fnormKids K = true) (h : nodeAtKids K p = .ok (some (.elem t a m k))) :
    ∃ nd ctx, Lvl ty0 K (p + 1) (nd + 1) t k ctx := by
  fun_induction nodeAtKids K p generalizing ty0
  case case1 => simp at h
  case case2 => simp at h
  case case3 n ns =>
    simp only [Except.ok.injEq, Option.some.injEq] at h
    subst h
    exact ⟨0, _, Lvl.down ty0 [] a m ns rfl (Lvl.here t k)⟩
  case case4 n ns pos h0 h1 ih =>
    simp only [fnormKids_cons, Bool.and_eq_true] at hn
    obtain ⟨nd, ctx, hl⟩ := ih ty0 hn.2 h
    have := hl.cons_pre [n] (by simp [hn.1])
    have e : fsize [n] + (pos - n.size + 1) = pos + 1 := by simp; omega
    rw [e] at this
    exact ⟨nd, _, this⟩
  case case5 ns pos h0 tyC ats mk kC h1 ih =>
    simp only [fnormKids_cons, Bool.and_eq_true, Node.norm_elem] at hn
    obtain ⟨nd, ctx, hl⟩ := ih tyC (fnormKids_of_fnorm hn.1) h
    have := Lvl.down ty0 [] ats mk ns rfl hl
    have e : fsize ([] : List Node) + 1 + (pos - 1 + 1) = pos + 1 := by simp; omega
    rw [e] at this
    exact ⟨nd + 1, _, this⟩
  case case6 n ns pos h0 h1 hne =>
    simp only [Except.ok.injEq, Option.some.injEq] at h
    exact absurd h (by intro hh; exact hne t a m k hh)

/-- **the element node whose tokens stand at `p` is a nested level** -/
theorem lvl_of_window (K : List Node) (p : Nat) (ty0 t : TypeId) (a : Attrs) (m : Marks) (k : List Node)
    (R : List Tok) (hn : fnorm K = true) (hk : fnorm k = true)
    (hw : (ftoks K).drop p = Tok.op t a m :: (ftoks k ++ Tok.cl :: R)) :
    ∃ nd ctx, Lvl ty0 K (p + 1) (nd + 1) t k ctx := by
  have hget : (ftoks K)[p]? = some (Tok.op t a m) := by
    have : ((ftoks K).drop p)[0]? = some (Tok.op t a m) := by rw [hw]; rfl
    simpa using this
  obtain ⟨n, hnat, _, _⟩ := nodeAtKids_of_head K p _ (fnormKids_of_fnorm hn) hget (by simp) (by simp)
  have := nodeAt_elem_of_window (.elem ty0 [] [] K) n p t a m k R hn hk hnat hw
  subst this
  exact lvl_of_nodeAt K p ty0 t a m k (fnormKids_of_fnorm hn) hnat

theorem Lvl.ctx_size {ty tyP : TypeId} {K L : List Node} {b nd : Nat} {ctx : List Node → List Node}
    (h : Lvl ty K b nd tyP L ctx) (X : List Node) : fsize (ctx X) + fsize L = fsize K + fsize X := by
  obtain ⟨A, D, _, hX⟩ := h.toks
  have h1 := congrArg List.length (hX X)
  have h2 := congrArg List.length (hX L)
  rw [h.ctx_self] at h2
  simp only [List.length_append, ftoks_length] at h1 h2
  omega

/-- **behind a nested level nothing changes when the level is exchanged**: the right-hand sides of `ctx X` and
    `K = ctx L` at a position behind the node whose content `L` is, are related -/
theorem rightRel_after_lvl (S : Schema) {ty tyP : TypeId} {K L : List Node} {b nd : Nat}
    {ctx : List Node → List Node} (h : Lvl ty K b nd tyP L ctx) (hpos : 0 < nd) (hn : fnorm K = true)
    (X : List Node) :
    ∀ q, b + fsize L + 1 ≤ q → q ≤ fsize K → alignedAt K q = true →
      RightRel S (ctx X) (q - fsize L + fsize X) K q := by
  induction h with
  | here => omega
  | @down tyC tyP kidsC L b0 nd0 ctx0 ty pre aC mC ns hp hl ih =>
    intro q hq1 hq2 ha
    have hr := hl.range
    have hsz := hl.ctx_size X
    have hk : fnorm kidsC = true := by
      have := fnormKids_of_fnorm hn
      rw [fnormKids_append] at this
      simp only [fnormKids_cons, Bool.and_eq_true, Node.norm_elem] at this
      exact this.2.1
    rw [fsize_append, fsize_cons, Node.size_elem] at hq2
    by_cases hin : q < fsize pre + (2 + fsize kidsC)
    · -- inside this ancestor
      have hnd0 : 0 < nd0 := by
        rcases Nat.eq_zero_or_pos nd0 with h0 | h0
        · subst h0
          obtain ⟨e1, e2⟩ := hl.zero
          subst e1 e2
          omega
        · exact h0
      obtain ⟨i, rfl⟩ : ∃ i, q = fsize pre + (1 + i) := ⟨q - fsize pre - 1, by omega⟩
      have hai : alignedAt kidsC i = true := by
        rw [alignedAt_append_pre, alignedAt_cons, if_neg (by omega), if_neg (by simp; omega)] at ha
        simpa using ha
      have hrel := ih hnd0 hk i (by omega) (by omega) hai
      have e' : fsize pre + (1 + i) - fsize L + fsize X = fsize pre + (1 + (i - fsize L + fsize X)) := by omega
      rw [e']
      refine RightRel.deep (ty' := tyC) (a' := aC) (m' := mC) (k' := ctx0 X) (i' := i - fsize L + fsize X)
        (ty := tyC) (a := aC) (m := mC) (k := kidsC) (i := i) (r := ns) ?_ ?_ (compatibleContent_self S tyC) hrel
      · rw [splitRight_append_pre _ _ _ hp, splitRight_cons, if_neg (by omega), if_neg (by simp; omega)]
        simp
      · rw [splitRight_append_pre _ _ _ hp, splitRight_cons, if_neg (by omega), if_neg (by simp; omega)]
        simp
    · -- behind it
      obtain ⟨r, rfl⟩ : ∃ r, q = fsize pre + ((2 + fsize kidsC) + r) := ⟨q - fsize pre - (2 + fsize kidsC), by omega⟩
      have e' : fsize pre + ((2 + fsize kidsC) + r) - fsize L + fsize X
          = fsize pre + ((2 + fsize (ctx0 X)) + r) := by omega
      rw [e']
      refine rightRel_of_split_eq S ?_ (by rw [fsize_append, fsize_cons, Node.size_elem]; omega) ha
      rw [splitRight_append_pre _ _ _ hp, splitRight_append_pre _ _ _ hp,
        splitRight_skip _ _ _ (by omega) (by simp), splitRight_skip _ _ _ (by omega) (by simp)]
      simp

/-! ### the guard's decomposition; `insertAt` with an inner node's content exchanged -/

theorem insideGap_cons (n : Node) (ns : List Node) (gf gt f1 t1 e1 : Nat) :
    insideGap (n :: ns) gf gt f1 t1 e1 =
      if f1 = 0 then false
      else if n.size ≤ f1 then insideGap ns (gf - n.size) (gt - n.size) (f1 - n.size) (t1 - n.size) e1
      else match n with
        | .elem _ _ _ kids =>
          if e1 ≠ 0 && t1 < n.size then
            if gf = 0 && n.size ≤ gt then true
            else insideGap kids (gf - 1) (gt - 1) (f1 - 1) (t1 - 1) (e1 - 1)
          else false
        | _ => false := by
  conv => lhs; unfold insideGap
  split
  · rfl
  · split
    · rfl
    · cases n <;> rfl

/-- **what the guard says**: the step's range lies in the content `kN` of an element child `n` of a nested level, the
    step descends at least to `kN`, and `n` lies inside the window -/
theorem insideGap_decomp : ∀ (rest : List Node) (ty : TypeId) (level pre : List Node)
    (gf gt f1 t1 e1 : Nat), level = pre ++ rest → fnorm level = true → f1 ≤ t1 → t1 < gt →
    insideGap rest gf gt f1 t1 e1 = true →
    ∃ (b nd : Nat) (tyA : TypeId) (ctx : List Node → List Node) (P : List Node) (tyN : TypeId) (aN : Attrs)
      (mN : Marks) (kN R : List Node) (g1 h1 : Nat),
      Lvl ty level b nd tyA (P ++ Node.elem tyN aN mN kN :: R) ctx ∧
      fsize pre + f1 = b + (fsize P + 1) + g1 ∧ fsize pre + t1 = b + (fsize P + 1) + h1 ∧
      g1 ≤ h1 ∧ h1 ≤ fsize kN ∧ nd + 1 ≤ e1 ∧
      fsize pre + gf ≤ b + fsize P ∧ b + fsize P + (2 + fsize kN) ≤ fsize pre + gt
  | [], _, _, _, _, _, _, _, _, _, _, _, _, h => by simp [insideGap] at h
  | n :: ns, ty, level, pre, gf, gt, f1, t1, e1, hl, hn, h11, htg, h => by
    rw [insideGap_cons] at h
    by_cases hf : f1 = 0
    · rw [if_pos hf] at h; simp at h
    rw [if_neg hf] at h
    by_cases hle : n.size ≤ f1
    · rw [if_pos hle] at h
      obtain ⟨b, nd, tyA, ctx, P, tyN, aN, mN, kN, R, g1, h1, hL, q1, q2, r1, r2, r3, r4, r5⟩ :=
        insideGap_decomp ns ty level (pre ++ [n]) (gf - n.size) (gt - n.size) (f1 - n.size) (t1 - n.size) e1
          (by simp [hl]) hn (by omega) (by omega) h
      refine ⟨b, nd, tyA, ctx, P, tyN, aN, mN, kN, R, g1, h1, hL, ?_, ?_, r1, r2, r3, ?_, ?_⟩
      · rw [← q1, fsize_append]; simp; omega
      · rw [← q2, fsize_append]; simp; omega
      · rw [fsize_append] at r4; simp at r4; omega
      · rw [fsize_append] at r5; simp at r5; omega
    rw [if_neg hle] at h
    cases n with
    | text s m => simp at h
    | leaf tt a m => simp at h
    | elem tyC aC mC kidsC =>
      simp only [Node.size_elem, Nat.not_le] at hle
      simp only [Node.size_elem] at h
      have hpre : fnormKids pre = true := by rw [hl] at hn; exact fnormKids_append_left hn
      by_cases hc1 : (e1 ≠ 0 && decide (t1 < 2 + fsize kidsC)) = true
      · rw [if_pos hc1] at h
        simp only [Bool.and_eq_true, decide_eq_true_eq, ne_eq] at hc1
        by_cases hr : (decide (gf = 0) && decide (2 + fsize kidsC ≤ gt)) = true
        · simp only [Bool.and_eq_true, decide_eq_true_eq] at hr
          subst hl
          exact ⟨0, 0, ty, id, pre, tyC, aC, mC, kidsC, ns, f1 - 1, t1 - 1, Lvl.here ty _, by omega, by omega,
            by omega, by omega, by omega, by omega, by omega⟩
        · rw [if_neg hr] at h
          subst hl
          obtain ⟨b, nd, tyA, ctx, P, tyN, aN, mN, kN, R, g1, h1, hL, q1, q2, r1, r2, r3, r4, r5⟩ :=
            insideGap_decomp kidsC tyC kidsC [] (gf - 1) (gt - 1) (f1 - 1) (t1 - 1) (e1 - 1)
              (by simp) (fnorm_child hn) (by omega) (by omega) h
          simp only [fsize_nil, Nat.zero_add] at q1 q2 r4 r5
          exact ⟨fsize pre + 1 + b, nd + 1, tyA, _, P, tyN, aN, mN, kN, R, g1, h1,
            Lvl.down ty pre aC mC ns hpre hL, by omega, by omega, r1, r2, by omega, by omega, by omega⟩
      · rw [if_neg hc1] at h; simp at h

/-! ### `Slice.insertAt` reads the inserted fragment's top-level types, marks and text-ness only
  (`Schema.skeys`, Proofs/ShallowKeys.lean: `insert_into` validates the content it built, in which adjacent text nodes
  with equal marks are joined) -/

theorem canReplace_ins_congr (S : Schema) (p : TypeId) (level : List Node) (i j : Nat) (ins ins' : List Node)
    (hty : S.types ins = S.types ins') (hmk : ins.map Node.marks = ins'.map Node.marks) :
    S.canReplace p level i j ins 0 ins.length = S.canReplace p level i j ins' 0 ins'.length := by
  have hlen : ins.length = ins'.length := by
    have := congrArg List.length hty
    simpa [Schema.types] using this
  have hall : ins.all (fun k => (S.nodeType p).allowsMarks k.marks) =
      ins'.all (fun k => (S.nodeType p).allowsMarks k.marks) := by
    have e : ∀ l : List Node, l.all (fun k => (S.nodeType p).allowsMarks k.marks) =
        (l.map Node.marks).all (fun m => (S.nodeType p).allowsMarks m) := by
      intro l; induction l with
      | nil => rfl
      | cons x xs ih => simp [List.all_cons, ih]
    rw [e ins, e ins', hmk]
  unfold Schema.canReplace
  simp only [List.take_length, List.drop_zero, hty, hall]

theorem insertInto_success_congr (S : Schema) (ins ins' : List Node) (hk : S.skeys ins = S.skeys ins') :
    ∀ (rest : List Node) (parent : Option TypeId) (level : List Node) (d0 idx d oa ob : Nat) (c : List Node),
      insertInto S ins parent level d0 idx rest d oa ob = .ok (some c) →
      ∃ c', insertInto S ins' parent level d0 idx rest d oa ob = .ok (some c')
  | [], parent, level, d0, idx, d, oa, ob, c, h => by
    unfold insertInto at h ⊢
    split at h
    · rename_i hd
      rw [if_pos hd]
      exact flatInsert_success_congr S ins ins' hk _ _ _ _ c h
    · simp at h
  | n :: ns, parent, level, d0, idx, d, oa, ob, c, h => by
    unfold insertInto at h ⊢
    split at h
    · rename_i hd
      rw [if_pos hd]
      exact flatInsert_success_congr S ins ins' hk _ _ _ _ c h
    · rename_i hd
      rw [if_neg hd]
      split at h
      · rename_i hle
        rw [if_pos hle]
        exact insertInto_success_congr S ins ins' hk ns parent level d0 (idx + 1) (d - n.size) oa ob c h
      · rename_i hle
        rw [if_neg hle]
        split at h
        · rename_i ty a m kids
          simp only at h ⊢
          split at h
          · rename_i inner hin
            obtain ⟨c', hc'⟩ := insertInto_success_congr S ins ins' hk kids _ kids (d - 1) 0 (d - 1) _ _ inner hin
            rw [hc']
            exact ⟨_, rfl⟩
          · simp at h
          · simp at h
        · exact flatInsert_success_congr S ins ins' hk _ _ _ _ c h

theorem insertAt_success_congr (S : Schema) (sl I : Slice) (pos : Nat) (ins ins' : List Node)
    (hk : S.skeys ins = S.skeys ins')
    (h : sl.insertAt S pos ins = .ok (some I)) : ∃ I', sl.insertAt S pos ins' = .ok (some I') := by
  obtain ⟨hle, c, hc, _⟩ := insertAt_ok h
  obtain ⟨c', hc'⟩ := insertInto_success_congr S ins ins' hk _ _ _ _ _ _ _ _ c hc
  rw [insertAt_of_le hle]
  unfold Slice.insertAtIn
  rw [hc']
  exact ⟨_, rfl⟩

/-- the top-level types and marks of a list do not depend on what a nested level holds -/
theorem Lvl.ctx_labels {ty tyP : TypeId} {K L : List Node} {b nd : Nat} {ctx : List Node → List Node}
    (h : Lvl ty K b (nd + 1) tyP L ctx) (S : Schema) (X Y : List Node) :
    S.types (ctx X) = S.types (ctx Y) ∧ (ctx X).map Node.marks = (ctx Y).map Node.marks := by
  cases h with
  | down ty pre aC mC ns hp hl =>
    simp [Schema.types, Schema.tyOf, Node.tyOr, Node.marks]

/-- … nor do the keys `insert_into` reads (type, marks, text-ness) -/
theorem Lvl.ctx_skeys {ty tyP : TypeId} {K L : List Node} {b nd : Nat} {ctx : List Node → List Node}
    (h : Lvl ty K b (nd + 1) tyP L ctx) (S : Schema) (X Y : List Node) :
    S.skeys (ctx X) = S.skeys (ctx Y) := by
  cases h with
  | down ty pre aC mC ns hp hl =>
    simp [Schema.skeys, Schema.skey, Schema.tyOf, Node.tyOr, Node.marks, Node.isText]


/-! ### token windows, the guard unfolded, the gap of the other document -/

theorem gap_window {α} (A0 W B0 : List α) (gf gt : Nat) (h1 : gf ≤ A0.length)
    (h2 : A0.length + W.length ≤ gt) :
    ((A0 ++ W ++ B0).drop gf).take (gt - gf) = A0.drop gf ++ W ++ B0.take (gt - A0.length - W.length) := by
  rw [List.append_assoc, List.drop_append_of_le_length h1, ← List.append_assoc,
    List.take_append, List.take_of_length_le (by simp; omega)]
  congr 2
  simp; omega

theorem take_pre {α} (A0 W B0 : List α) (f : Nat) (h : f ≤ A0.length) :
    (A0 ++ W ++ B0).take f = A0.take f := by
  rw [List.append_assoc, List.take_append_of_le_length h]

theorem drop_post {α} (A0 W B0 : List α) (t : Nat) (h : A0.length + W.length ≤ t) :
    (A0 ++ W ++ B0).drop t = B0.drop (t - A0.length - W.length) := by
  rw [List.drop_append, List.drop_of_length_le (by simp; omega)]
  simp; congr 1; omega

/-- the tokens of a level's context around the node `elem tyN aN mN X` -/
theorem Lvl.toks_node {ty tyA : TypeId} {K : List Node} {b nd : Nat} {ctx : List Node → List Node}
    {P R : List Node} {tyN : TypeId} {aN : Attrs} {mN : Marks} {kN : List Node}
    (h : Lvl ty K b nd tyA (P ++ .elem tyN aN mN kN :: R) ctx) :
    ∃ A0 B0 : List Tok, A0.length = b + fsize P ∧
      ∀ X, ftoks (ctx (P ++ .elem tyN aN mN X :: R)) = A0 ++ (Tok.op tyN aN mN :: (ftoks X ++ [Tok.cl])) ++ B0 := by
  obtain ⟨A, D, hA, hX⟩ := h.toks
  refine ⟨A ++ ftoks P, ftoks R ++ D, by simp [hA, ftoks_length], fun X => ?_⟩
  rw [hX]
  simp [ftoks_append]
/-- the tokens of a level's context, given the tokens of the list around the node whose content the level is -/
theorem Lvl.toks_window {ty tyP : TypeId} {K L : List Node} {p nd : Nat} {ctx : List Node → List Node}
    (h : Lvl ty K (p + 1) nd tyP L ctx) (pre post : List Tok) (x y : Tok) (hp : pre.length = p)
    (hK : ftoks K = pre ++ (x :: (ftoks L ++ (y :: post)))) (X : List Node) :
    ftoks (ctx X) = pre ++ (x :: (ftoks X ++ (y :: post))) := by
  obtain ⟨Ab, Db, hAb, htokb⟩ := h.toks
  have hK2 : ftoks K = Ab ++ ftoks L ++ Db := by rw [← htokb L, h.ctx_self]
  have e : Ab ++ (ftoks L ++ Db) = (pre ++ [x]) ++ (ftoks L ++ (y :: post)) := by
    rw [← List.append_assoc Ab, ← hK2, hK]; simp [List.append_assoc]
  obtain ⟨e1, e2⟩ := List.append_inj e (by simp [hAb, hp])
  rw [htokb X, e1, List.append_cancel_left e2]
  simp [List.append_assoc]


/-- **the guard, unfolded for the proof**: the step is the replace `replaceKids S tyN kN g1 h1 s1 = .ok kN'` inside the
    content `kN` of an element node that starts at token `sN` of `K`, inside the window; `ctxi` puts a changed
    content back -/
theorem gap_setup (S : Schema) (ty : TypeId) (K Ka : List Node) (gf gt f1 t1 : Nat) (s1 : Slice)
    (hn : fnorm K = true) (h' : t1 < gt)
    (hrR : replaceKids S ty K f1 t1 s1 = .ok Ka)
    (hg : insideGap K gf gt f1 t1 (depthAt K f1 - s1.openStart) = true) :
    ∃ (sN nd : Nat) (tyN : TypeId) (aN : Attrs) (mN : Marks) (kN kN' : List Node) (g1 h1 : Nat)
      (ctxi : List Node → List Node) (A0 B0 : List Tok),
      Lvl ty K (sN + 1) (nd + 1) tyN kN ctxi ∧ replaceKids S tyN kN g1 h1 s1 = .ok kN' ∧ Ka = ctxi kN' ∧
      f1 = sN + 1 + g1 ∧ t1 = sN + 1 + h1 ∧ g1 ≤ h1 ∧ h1 ≤ fsize kN ∧ gf ≤ sN ∧ sN + (2 + fsize kN) ≤ gt ∧
      A0.length = sN ∧
      (∀ X, ftoks (ctxi X) = A0 ++ (Tok.op tyN aN mN :: (ftoks X ++ [Tok.cl])) ++ B0) ∧
      s1.openStart ≤ depthAt kN g1 ∧ fnorm kN = true := by
  obtain ⟨hft1, ht1K, hwf1⟩ := replaceKids_guards S ty K f1 t1 s1 Ka hrR
  obtain ⟨b, nd, tyA, ctx, P, tyN, aN, mN, kN, Rr, g1, h1, hL, q1, q2, r1, r2, r3, r4, r5⟩ :=
    insideGap_decomp K ty K [] gf gt f1 t1 _ (by simp) hn hft1 h' hg
  simp only [fsize_nil, Nat.zero_add] at q1 q2 r4 r5
  have hLvn := hL.norm hn
  have hP : fnormKids P = true := fnormKids_append_left hLvn
  have hkN : fnorm kN = true := by
    have := fnormKids_of_fnorm hLvn
    rw [fnormKids_append] at this
    simp only [fnormKids_cons, Bool.and_eq_true, Node.norm_elem] at this
    exact this.2.1
  have hLi := hL.into hP
  have hdep := (hLi.depth g1 (by omega)).1
  have hso : s1.openStart ≤ depthAt kN g1 := by
    rw [q1] at r3; omega
  have hEq := hLi.replaceKids_eq (S := S) s1 g1 h1 r1 r2 hso
  rw [← q1, ← q2, hrR] at hEq
  cases hk : replaceKids S tyN kN g1 h1 s1 with
  | error e => rw [hk] at hEq; simp [Except.map] at hEq
  | ok kN' =>
    rw [hk] at hEq
    simp only [Except.map, Except.ok.injEq] at hEq
    obtain ⟨A0, B0, hA0, htokX⟩ := Lvl.toks_node hL
    refine ⟨b + fsize P, nd, tyN, aN, mN, kN, kN', g1, h1, _, A0, B0, ?_, hk, hEq, by omega, by omega, r1, r2,
      r4, r5, hA0, htokX, hso, hkN⟩
    rw [Nat.add_assoc]; exact hLi

/-- a list whose tokens show the node `x :: ftoks kN ++ cl :: post` behind `pre` has the nested level `kN` there, and
    the tokens of its context are what one expects -/
theorem lvl_window_toks (K : List Node) (ty tyN : TypeId) (aN : Attrs) (mN : Marks) (kN : List Node)
    (pre post : List Tok) (hn : fnorm K = true) (hkN : fnorm kN = true)
    (hK : ftoks K = pre ++ (Tok.op tyN aN mN :: (ftoks kN ++ (Tok.cl :: post)))) :
    ∃ nd ctx, Lvl ty K (pre.length + 1) (nd + 1) tyN kN ctx ∧
      ∀ X, ftoks (ctx X) = pre ++ (Tok.op tyN aN mN :: (ftoks X ++ (Tok.cl :: post))) := by
  obtain ⟨nd, ctx, hL⟩ := lvl_of_window K pre.length ty tyN aN mN kN post hn hkN
    (by rw [hK, List.drop_left'] ; rfl)
  exact ⟨nd, ctx, hL, Lvl.toks_window hL pre post _ _ rfl hK⟩

/-- **the gap of `da`**: a closed list `G'` whose tokens stand in `Ka` at `gf`, between pair-aligned positions -/
theorem gap_slice_inner (K Ka : List Node) (gap : Slice) (G' : List Node) (A0 B0 W' : List Tok)
    (gf gt f1 t1 r : Nat) (S1 : List Tok)
    (hn : fnorm K = true) (hna : fnorm Ka = true) (hG'n : fnorm G' = true)
    (hgap : sliceKids K gf gt = .ok gap)
    (hLKa : ftoks Ka = A0 ++ W' ++ B0)
    (hGT : ftoks G' = A0.drop gf ++ W' ++ B0.take r) (hr : r ≤ B0.length) (hgf : gf ≤ A0.length)
    (hda : ftoks Ka = splice (ftoks K) f1 t1 S1) (hft1 : f1 ≤ t1) (ht1 : t1 ≤ fsize K) (h : gf < f1)
    (h' : t1 < gt) (hgt' : gf + fsize G' = f1 + S1.length + (gt - t1)) :
    sliceKids Ka gf (f1 + S1.length + (gt - t1)) = .ok ⟨G', 0, 0⟩ := by
  have hsz : fsize G' = (A0.length - gf) + W'.length + r := by
    have := congrArg List.length hGT
    simp only [List.length_append, List.length_drop, List.length_take, ftoks_length] at this
    omega
  have hKalen : fsize Ka = A0.length + W'.length + B0.length := by
    have := congrArg List.length hLKa
    simp only [List.length_append, ftoks_length] at this
    omega
  rw [← hgt']
  refine sliceKids_window Ka G' gf hna hG'n (by omega) ?_ (fun _ => ⟨?_, ?_⟩)
  · rw [hGT, hLKa, show fsize G' = gf + fsize G' - gf by omega,
      gap_window A0 W' B0 gf _ hgf (by omega)]
    congr 2; omega
  · obtain ⟨al1, _⟩ := sliceKids_aligned K gf gt gap (by omega) hgap
    exact aligned_before_splice K Ka _ f1 t1 gf hn hna hda (by rw [ftoks_length]; omega) h al1
  · obtain ⟨_, al2⟩ := sliceKids_aligned K gf gt gap (by omega) hgap
    rw [hgt']
    exact aligned_after_splice K Ka _ f1 t1 gt hn hna hda hft1 (by rw [ftoks_length]; exact ht1) h' al2


/-! ### arithmetic of the shifted positions (kept apart: `omega` is slow in large contexts) -/

theorem arith_shift (t t1 f1 len : Nat) (sz : Int) (h : (len : Int) = sz) (h1 : f1 ≤ t1) (h2 : t1 < t) :
    ((t : Int) + (sz - ((t1 : Int) - f1))).toNat = f1 + len + (t - t1) := by omega

theorem arith_in (p ins gf f sN g pl : Nat) (hp : p = sN + 1 + g) (hpl : pl = f + ins + (sN - gf))
    (h1 : gf ≤ sN) (h2 : f ≤ gf) :
    ((p : Int) + ((ins : Int) - ((gf : Int) - f))).toNat = pl + 1 + g := by omega


theorem arith_T2 (f1 t1 t sN g1 h1 k k' len : Nat) (q1 : f1 = sN + 1 + g1) (q2 : t1 = sN + 1 + h1)
    (hsz : k' = g1 + len + (k - h1)) (r1 : g1 ≤ h1) (r2 : h1 ≤ k) (ht : sN + (2 + k) ≤ t) :
    f1 + len + (t - t1) = t - k + k' := by omega

theorem arith_e2 (a gt t t1 : Nat) (h1 : t1 < gt) (h2 : gt ≤ t) : a + (t - t1) = a + (gt - t1) + (t - gt) := by
  omega

theorem arith_G (gf sN k k' gt f1 t1 g1 h1 len G : Nat) (q1 : f1 = sN + 1 + g1) (q2 : t1 = sN + 1 + h1)
    (hsz : k' = g1 + len + (k - h1)) (r1 : g1 ≤ h1) (r2 : h1 ≤ k) (r4 : gf ≤ sN) (r5 : sN + (2 + k) ≤ gt)
    (hG : G = (sN - gf) + (2 + k') + (gt - sN - (2 + k))) : gf + G = f1 + len + (gt - t1) := by omega


theorem arith_e (f a k k' x : Nat) (h : x + k = a + k') (hk : k ≤ a) : f + a - k + k' = f + x + 0 := by omega



/-! ### mark steps inside the gap -/

/-- the marked slice of a mark step on a valid document is a valid payload -/
theorem markStep_as_replace_valid (S : Schema) (hts : TextStableP S) (d db : Node) (f2 t2 : Nat) (mk : Mark) (M : Step)
    (hM : M = .addMark f2 t2 mk ∨ M = .removeMark f2 t2 mk) (hn : fnorm d.kids = true)
    (hv : S.checkNode d = true) (hb : S.apply M d = .ok db) :
    ∃ old slM, d.slice f2 t2 = .ok old ∧ slM.openStart = old.openStart ∧ fnorm slM.content = true ∧
      openValid S slM.openStart slM.openEnd slM.content = true ∧
      S.apply (.replace f2 t2 slM false) d = .ok db := by
  rcases hM with rfl | rfl
  · have h' := hb
    unfold Schema.apply at h'
    simp only at h'
    split at h'
    · simp at h'
    · rename_i old hold
      split at h'
      · simp at h'
      · rename_i p hp
        refine ⟨old, ⟨fromArray (addMarkKids S mk p old.content), old.openStart, old.openEnd⟩, hold, rfl, ?_,
          addMark_payload S hts mk p _ _ _ (slice_openValid S d f2 t2 old hv hold),
          by simpa [Schema.apply] using h'⟩
        have hon := (sliceKids_norm d.kids f2 t2 old hn hold).1
        simp only [addMarkKids_eq_map]
        exact fromArray_norm _ ((addMark_markMap S mk).norm_list _ p (fnormKids_of_fnorm hon))
  · have h' := hb
    unfold Schema.apply at h'
    simp only at h'
    split at h'
    · simp at h'
    · rename_i old hold
      refine ⟨old, ⟨fromArray (removeMarkKids S mk old.content), old.openStart, old.openEnd⟩, hold, rfl, ?_,
        removeMark_payload S hts mk _ _ _ (slice_openValid S d f2 t2 old hv hold),
        by simpa [Schema.apply] using h'⟩
      have hon := (sliceKids_norm d.kids f2 t2 old hn hold).1
      simp only [removeMarkKids_eq_map]
      exact fromArray_norm _ ((removeMark_markMap S mk).norm_list _ 0 (fnormKids_of_fnorm hon))

/-- the kept gap inside the token list of a replace-around step's result -/
theorem aroundL_getElem?_gap {α} (L X Y : List α) (f gf gt t j : Nat) (hg : f ≤ gf ∧ gf ≤ gt ∧ gt ≤ t)
    (hl : t ≤ L.length) (hj : j < gt - gf) :
    (aroundL L f gf gt t X Y)[f + X.length + j]? = L[gf + j]? := by
  rw [← aroundL_eq L X Y f gf gt t hg hl]
  have h1 : (L.take f ++ X).length = f + X.length := by simp; omega
  rw [List.append_assoc, List.append_assoc,
    List.getElem?_append_right (by omega), h1, show f + X.length + j - (f + X.length) = j by omega,
    List.getElem?_append_left (by simp; omega), List.getElem?_take_of_lt hj, List.getElem?_drop]


/-! ### a replace-around step whose whole range moved unchanged -/

/-- a window of the kept gap inside the token list of a replace-around step's result -/
theorem aroundL_window_gap {α} (L X Y : List α) (f gf gt t j n : Nat) (hg : f ≤ gf ∧ gf ≤ gt ∧ gt ≤ t)
    (hl : t ≤ L.length) (hj : j + n ≤ gt - gf) :
    ((aroundL L f gf gt t X Y).drop (f + X.length + j)).take n = (L.drop (gf + j)).take n := by
  apply List.ext_getElem?
  intro i
  by_cases hi : i < n
  · rw [List.getElem?_take_of_lt hi, List.getElem?_take_of_lt hi, List.getElem?_drop, List.getElem?_drop,
      show f + X.length + j + i = f + X.length + (j + i) by omega,
      aroundL_getElem?_gap L X Y f gf gt t (j + i) hg hl (by omega)]
    congr 1; omega
  · rw [List.getElem?_eq_none (by simp; omega), List.getElem?_eq_none (by simp; omega)]

/-- **the replace-around step applies again wherever its whole range `[from, to)` shows the same tokens** between
    pair-aligned gap ends (generalises `around_again_shifted` / `around_again_same`) -/
theorem around_again_window (S : Schema) (d d' db dab : Node) (f t gf gt ins p : Nat) (sl : Slice)
    (st : Bool) (gap inserted : Slice)
    (hn : fnorm d.kids = true) (hn' : fnorm d'.kids = true)
    (hgo : f ≤ gf ∧ gf ≤ gt ∧ gt ≤ t) (hl : t ≤ (ftoks d.kids).length)
    (hl' : p + (t - f) ≤ (ftoks d'.kids).length)
    (hwin : ((ftoks d'.kids).drop p).take (t - f) = ((ftoks d.kids).drop f).take (t - f))
    (hal : gf < gt → alignedAt d'.kids (p + (gf - f)) = true ∧ alignedAt d'.kids (p + (gt - f)) = true)
    (hb : S.apply (.replaceAround f t gf gt sl ins st) d = .ok db)
    (hgap : d.slice gf gt = .ok gap) (ho1 : gap.openStart = 0) (ho2 : gap.openEnd = 0)
    (hinst : sl.insertAt S ins gap.content = .ok (some inserted))
    (hfr : S.fromReplace d' p (p + (t - f)) inserted = .ok dab) :
    S.apply (.replaceAround p (p + (t - f)) (p + (gf - f)) (p + (gt - f)) sl ins st) d' = .ok dab := by
  have hgap' : sliceKids d.kids gf gt = .ok gap := hgap
  -- sub-windows
  have hsub : ∀ a n, a + n ≤ t - f →
      ((ftoks d'.kids).drop (p + a)).take n = ((ftoks d.kids).drop (f + a)).take n := by
    intro a n han
    have := congrArg (fun l => (l.drop a).take n) hwin
    simp only [List.drop_take, List.take_take, List.drop_drop] at this
    first
      | exact this
      | (rw [Nat.min_eq_left (by omega), Nat.min_eq_left (by omega)] at this; exact this)
      | (rw [Nat.min_eq_left (by omega)] at this; exact this)
  have hst : st = true →
      contentBetween d' p (p + (gf - f)) = some false ∧
      contentBetween d' (p + (gt - f)) (p + (t - f)) = some false := by
    intro hstt
    subst hstt
    exact struct_checks_again d d' f t gf gt _ _ _ _ hn hn' hgo (by rw [← ftoks_length]; omega)
      (by rw [← ftoks_length]; omega) rfl (by omega) (by omega)
      (by have := hsub 0 (gf - f) (by omega); simpa using this)
      (by have := hsub (gt - f) (t - gt) (by omega)
          rwa [show f + (gt - f) = gt by omega] at this)
      (apply_replaceAround_struct S d db f t gf gt sl ins hb)
  refine around_applies_of_parts S d' dab _ _ _ _ sl ins st gap inserted ?_ ho1 ho2 hinst hfr hst
  show sliceKids d'.kids _ _ = .ok gap
  have := slice_again d.kids d'.kids gf gt (p + (gf - f)) gap hn hn' hgo.2.1
    (by rw [← ftoks_length]; omega) (by rw [← ftoks_length]; omega) hgap' ho1 ho2
    (by have := hsub (gf - f) (gt - gf) (by omega)
        rwa [show f + (gf - f) = gf by omega] at this)
    (fun hlt => by
      obtain ⟨a1, a2⟩ := hal hlt
      exact ⟨a1, by rwa [show p + (gf - f) + (gt - gf) = p + (gt - f) by omega]⟩)
  rwa [show p + (gf - f) + (gt - gf) = p + (gt - f) by omega] at this


/-! ### node-markup steps: the right-hand side behind / around the re-marked node -/

/-- **behind the re-marked node nothing changed** -/
theorem rightRel_remarkAt_before (S : Schema) {u : Node} : ∀ (kids : List Node) (pos : Nat) (n : Node),
    nodeAtKids kids pos = .ok (some n) → Remarked n u → fnormKids kids = true →
    ∀ q, pos < q → q ≤ fsize kids → alignedAt kids q = true →
      RightRel S (remarkAt kids pos u) q kids q
  | [], pos, n, hat, _, _ => by
    unfold nodeAtKids at hat
    split at hat <;> simp at hat
  | x :: xs, pos, n, hat, hre, hn => by
    intro q hq1 hq2 ha
    simp only [fnormKids_cons, Bool.and_eq_true] at hn
    unfold remarkAt
    rw [mapNodeAt_cons]
    by_cases hfz : pos = 0
    · subst hfz
      have hx : n = x := by
        unfold nodeAtKids at hat; simp at hat; exact hat.symm
      subst hx
      rw [if_pos rfl]
      have hsz := hre.withKids_size
      by_cases hle : n.size ≤ q
      · refine rightRel_of_split_eq S ?_ hq2 ha
        rw [splitRight_skip _ _ _ (by omega) (by rw [hsz]; exact hle), splitRight_skip _ _ _ (by omega) hle, hsz]
      · rcases hre with ⟨t, a, m, k, a', m', rfl, rfl⟩ | ⟨t, a, m, a', m', rfl, rfl⟩
        · simp only [Node.size_elem, Nat.not_le] at hle
          simp only [Node.withKids, Node.kids]
          rw [alignedAt_cons, if_neg (by omega), if_neg (by simp; omega)] at ha
          simp only [fsize_cons, Node.size_elem] at hq2
          refine RightRel.deep (ty' := t) (a' := a') (m' := m') (k' := k) (i' := q - 1) (ty := t) (a := a) (m := m)
            (k := k) (i := q - 1) (r := xs) ?_ ?_ (compatibleContent_self S t)
            (RightRel.refl S k (q - 1) (by omega) ha)
          · rw [splitRight_cons, if_neg (by omega), if_neg (by simp; omega)]
          · rw [splitRight_cons, if_neg (by omega), if_neg (by simp; omega)]
        · simp [Node.size] at hle; omega
    rw [if_neg hfz]
    by_cases hle : x.size ≤ pos
    · have hat' : nodeAtKids xs (pos - x.size) = .ok (some n) := by
        unfold nodeAtKids at hat; rw [if_neg hfz, if_pos hle] at hat; exact hat
      rw [if_pos hle]
      simp only [fsize_cons] at hq2
      have hax : alignedAt xs (q - x.size) = true := by
        rw [alignedAt_cons, if_neg (by omega), if_pos (by omega)] at ha; exact ha
      have ih := rightRel_remarkAt_before S xs (pos - x.size) n hat' hre hn.2 (q - x.size) (by omega) (by omega) hax
      have := ih.append_pre [x] (by simp [hn.1])
      unfold remarkAt at this
      simp only [List.singleton_append, fsize_cons, fsize_nil, Nat.add_zero] at this
      rwa [show x.size + (q - x.size) = q by omega] at this
    · rw [if_neg hle]
      cases x with
      | text s m =>
        have hx : n = .text s m := by
          unfold nodeAtKids at hat; rw [if_neg hfz, if_neg hle] at hat; simp at hat; exact hat.symm
        subst hx
        rcases hre with ⟨t, a, m, k, a', m', h, _⟩ | ⟨t, a, m, a', m', h, _⟩ <;> cases h
      | leaf t a m => simp [Node.size] at hle; omega
      | elem tyC aC mC kidsC =>
        simp only [Node.size_elem, Nat.not_le] at hle
        simp only [Node.norm_elem] at hn
        have hat' : nodeAtKids kidsC (pos - 1) = .ok (some n) := by
          unfold nodeAtKids at hat; rw [if_neg hfz, if_neg (by simp; omega)] at hat; exact hat
        obtain ⟨hsz, _⟩ := mapNodeAt_spec kidsC (pos - 1) n hat' hre
        unfold remarkAt at hsz
        simp only [fsize_cons, Node.size_elem] at hq2
        by_cases hin : q < 2 + fsize kidsC
        · rw [alignedAt_cons, if_neg (by omega), if_neg (by simp; omega)] at ha
          have ih := rightRel_remarkAt_before S kidsC (pos - 1) n hat' hre (fnormKids_of_fnorm hn.1) (q - 1)
            (by omega) (by omega) ha
          unfold remarkAt at ih
          refine RightRel.deep (ty' := tyC) (a' := aC) (m' := mC) (k' := mapNodeAt (fun x => u.withKids x.kids) kidsC (pos - 1))
            (i' := q - 1) (ty := tyC) (a := aC) (m := mC) (k := kidsC) (i := q - 1) (r := xs) ?_ ?_
            (compatibleContent_self S tyC) ih
          · rw [splitRight_cons, if_neg (by omega), if_neg (by simp; omega)]
          · rw [splitRight_cons, if_neg (by omega), if_neg (by simp; omega)]
        · refine rightRel_of_split_eq S ?_ (by simp; omega) ha
          rw [splitRight_skip _ _ _ (by omega) (by simp; omega), splitRight_skip _ _ _ (by omega) (by simp; omega)]
          simp [hsz]


/-- what re-marking the node `off` tokens behind the split position does to the right-hand split -/
def RSplit.remark (u : Node) (off : Nat) : RSplit → RSplit
  | .flat r => .flat (remarkAt r off u)
  | .deep (.elem ty a m k) i r =>
    if off + i < fsize k then .deep (.elem ty a m (remarkAt k (off + i) u)) i r
    else .deep (.elem ty a m k) i (remarkAt r (off + i - fsize k - 1) u)
  | .deep c i r => .deep c i r

/-- where the re-marked node is found in the pieces of a right-hand split -/
def RSplit.nodeAt (off : Nat) : RSplit → Res (Option Node)
  | .flat r => nodeAtKids r off
  | .deep (.elem _ _ _ k) i r =>
    if off + i < fsize k then nodeAtKids k (off + i) else nodeAtKids r (off + i - fsize k - 1)
  | .deep _ _ _ => .ok none

theorem splitRight_remarkAt {u : Node} : ∀ (L : List Node) (t p : Nat) (n : Node) (rs : RSplit),
    fnormKids L = true → t ≤ p → nodeAtKids L p = .ok (some n) → Remarked n u →
    splitRight L t = some rs →
    splitRight (remarkAt L p u) t = some (rs.remark u (p - t)) ∧ rs.nodeAt (p - t) = .ok (some n)
  | [], t, p, n, rs, _, _, hat, _, _ => by
    unfold nodeAtKids at hat
    split at hat <;> simp at hat
  | x :: xs, t, p, n, rs, hn, htp, hat, hre, hs => by
    simp only [fnormKids_cons, Bool.and_eq_true] at hn
    have hxpos := Node.size_pos_of_norm x hn.1
    rw [splitRight_cons] at hs
    by_cases ht0 : t = 0
    · subst ht0
      rw [if_pos rfl] at hs
      simp only [Option.some.injEq] at hs
      subst hs
      simp only [Nat.sub_zero, RSplit.remark, RSplit.nodeAt]
      refine ⟨?_, hat⟩
      cases hh : remarkAt (x :: xs) p u with
      | nil =>
        unfold remarkAt at hh; rw [mapNodeAt_cons] at hh
        split at hh
        · simp at hh
        · split at hh
          · simp at hh
          · split at hh <;> simp at hh
      | cons y ys => rw [splitRight_cons, if_pos rfl]
    rw [if_neg ht0] at hs
    have hp0 : p ≠ 0 := by omega
    by_cases hle : x.size ≤ t
    · rw [if_pos hle] at hs
      have hat' : nodeAtKids xs (p - x.size) = .ok (some n) := by
        unfold nodeAtKids at hat; rw [if_neg hp0, if_pos (by omega)] at hat; exact hat
      obtain ⟨ih1, ih2⟩ := splitRight_remarkAt xs (t - x.size) (p - x.size) n rs hn.2 (by omega) hat' hre hs
      rw [show p - x.size - (t - x.size) = p - t by omega] at ih1 ih2
      refine ⟨?_, ih2⟩
      unfold remarkAt at ih1 ⊢
      rw [mapNodeAt_cons, if_neg hp0, if_pos (by omega), splitRight_skip _ _ _ ht0 hle]
      exact ih1
    · rw [if_neg hle] at hs
      cases x with
      | text s m =>
        simp only at hs
        split at hs
        · rename_i hok
          simp only [Option.some.injEq] at hs
          subst hs
          simp only [Node.size, Nat.not_le] at hle hxpos
          have hps : s.length ≤ p := by
            apply Decidable.byContradiction
            intro hlt
            have : n = .text s m := by
              unfold nodeAtKids at hat; rw [if_neg hp0, if_neg (by simp [Node.size]; omega)] at hat
              simp at hat; exact hat.symm
            subst this
            rcases hre with ⟨_, _, _, _, _, _, h, _⟩ | ⟨_, _, _, _, _, h, _⟩ <;> cases h
          have hat' : nodeAtKids xs (p - s.length) = .ok (some n) := by
            unfold nodeAtKids at hat; rw [if_neg hp0, if_pos (by simp [Node.size]; omega)] at hat
            simpa [Node.size] using hat
          simp only [RSplit.remark, RSplit.nodeAt]
          have hds : (Node.text (s.drop t) m).size = s.length - t := by simp [Node.size]
          constructor
          · unfold remarkAt
            rw [mapNodeAt_cons, if_neg hp0, if_pos (by simp [Node.size]; omega), splitRight_cons, if_neg ht0,
              if_neg (by simp [Node.size]; omega)]
            simp only [hok, if_true, Option.some.injEq, RSplit.flat.injEq]
            rw [mapNodeAt_cons, if_neg (by omega), if_pos (by rw [hds]; omega), hds]
            simp only [Node.size]
            congr 2; omega
          · unfold nodeAtKids
            rw [if_neg (by omega), if_pos (by rw [hds]; omega), hds]
            rw [show p - t - (s.length - t) = p - s.length by omega]; exact hat'
        · simp at hs
      | leaf ty a m => simp at hs
      | elem ty a m k =>
        simp only [Option.some.injEq] at hs
        subst hs
        simp only [Node.size_elem, Nat.not_le] at hle
        simp only [Node.norm_elem] at hn
        simp only [RSplit.remark, RSplit.nodeAt]
        rw [show p - t + (t - 1) = p - 1 by omega]
        by_cases hin : p - 1 < fsize k
        · rw [if_pos hin, if_pos hin]
          have hat' : nodeAtKids k (p - 1) = .ok (some n) := by
            unfold nodeAtKids at hat; rw [if_neg hp0, if_neg (by simp; omega)] at hat; exact hat
          obtain ⟨hsz, _⟩ := mapNodeAt_spec k (p - 1) n hat' hre
          refine ⟨?_, hat'⟩
          unfold remarkAt at hsz ⊢
          rw [mapNodeAt_cons, if_neg hp0, if_neg (by simp; omega), splitRight_cons, if_neg ht0,
            if_neg (by simp [hsz]; omega)]
        · rw [if_neg hin, if_neg hin]
          have hps : 2 + fsize k ≤ p := by
            apply Decidable.byContradiction
            intro hlt
            have hpe : p - 1 = fsize k := by omega
            have hat' : nodeAtKids k (fsize k) = .ok (some n) := by
              unfold nodeAtKids at hat; rw [if_neg hp0, if_neg (by simp; omega), hpe] at hat; exact hat
            have := nodeAtKids_lt hat' hre.size_ne
            omega
          have hat' : nodeAtKids xs (p - (2 + fsize k)) = .ok (some n) := by
            unfold nodeAtKids at hat; rw [if_neg hp0, if_pos (by simp; omega)] at hat
            simpa using hat
          rw [show p - 1 - fsize k - 1 = p - (2 + fsize k) by omega]
          refine ⟨?_, hat'⟩
          unfold remarkAt
          rw [mapNodeAt_cons, if_neg hp0, if_pos (by simp; omega), splitRight_cons, if_neg ht0,
            if_neg (by simp; omega)]
          simp

/-- **a right-hand relation survives re-marking the corresponding node on both sides** (the node lies to the right
    of both positions, at the same distance) -/
theorem rightRel_remark (S : Schema) {u : Node} {L' : List Node} {t' : Nat} {L : List Node} {t : Nat}
    (h : RightRel S L' t' L t) : ∀ (p p' : Nat) (n n' : Node),
    fnorm L = true → fnorm L' = true → t ≤ p → t' ≤ p' → p' - t' = p - t →
    nodeAtKids L p = .ok (some n) → nodeAtKids L' p' = .ok (some n') → Remarked n u → Remarked n' u →
    RightRel S (remarkAt L' p' u) t' (remarkAt L p u) t := by
  induction h with
  | @flat L' t' L t r h1 h2 =>
    intro p p' n n' hn hn' htp htp' hoff hat hat' hre hre'
    obtain ⟨e1, _⟩ := splitRight_remarkAt L' t' p' n' _ (fnormKids_of_fnorm hn') htp' hat' hre' h1
    obtain ⟨e2, _⟩ := splitRight_remarkAt L t p n _ (fnormKids_of_fnorm hn) htp hat hre h2
    rw [hoff] at e1
    exact .flat e1 e2
  | @deep L' t' L t ty' a' m' k' i' ty a m k i r h1 h2 h3 hrel ih =>
    intro p p' n n' hn hn' htp htp' hoff hat hat' hre hre'
    obtain ⟨e1, g1⟩ := splitRight_remarkAt L' t' p' n' _ (fnormKids_of_fnorm hn') htp' hat' hre' h1
    obtain ⟨e2, g2⟩ := splitRight_remarkAt L t p n _ (fnormKids_of_fnorm hn) htp hat hre h2
    rw [hoff] at e1 g1
    obtain ⟨_, hcn'⟩ := splitRight_deep_fnorm L' t' _ i' r hn' h1
    obtain ⟨_, hcn⟩ := splitRight_deep_fnorm L t _ i r hn h2
    simp only [Node.norm_elem] at hcn hcn'
    have hle := hrel.le
    have hsz : fsize k' - i' = fsize k - i := by
      have := congrArg List.length hrel.toks
      simpa [ftoks_length] using this
    simp only [RSplit.remark, RSplit.nodeAt] at e1 e2 g1 g2
    by_cases hin : p - t + i < fsize k
    · have hin' : p - t + i' < fsize k' := by omega
      rw [if_pos hin] at e2 g2
      rw [if_pos hin'] at e1 g1
      exact .deep e1 e2 h3 (ih (p - t + i) (p - t + i') n n' hcn hcn' (by omega) (by omega) (by omega) g2 g1 hre hre')
    · have hin' : ¬ p - t + i' < fsize k' := by omega
      rw [if_neg hin] at e2
      rw [if_neg hin'] at e1
      rw [show p - t + i' - fsize k' - 1 = p - t + i - fsize k - 1 by omega] at e1
      exact .deep e1 e2 h3 hrel

end PM
