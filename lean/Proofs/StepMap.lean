/- Proofs/StepMap.lean — helper lemmas for Props/C03.lean (maps of steps vs. their token semantics) -/
import PM.Step
import PM.Transform
import Proofs.StepToks
namespace PM
end PM
