/- Proofs/StepMap.lean — helper lemmas for Props/C03.lean (maps of steps vs. their token semantics) -/
import PM.Step
import PM.Transform
import Proofs.StepToks
namespace PM

/-! ### slices -/

/-- a well-formed slice has exactly `size` tokens -/
theorem Slice.toks_length_int (sl : Slice) (hwf : sl.wf = true) : (sl.toks.length : Int) = sl.size := by
  simp only [Slice.wf, Bool.and_eq_true, decide_eq_true_eq] at hwf
  have hs := spine_sum_le sl.content
  simp only [Slice.toks, List.length_take, List.length_drop, ftoks_length, Slice.size]
  omega

/-! ### what a successful replace step gives (no black box needed) -/

theorem apply_replace_facts (S : Schema) (doc doc' : Node) (f t : Nat) (sl : Slice) (st : Bool)
    (h : S.apply (.replace f t sl st) doc = .ok doc') :
    ftoks doc'.kids = (ftoks doc.kids).take f ++ sl.toks ++ (ftoks doc.kids).drop t ∧
    f ≤ t ∧ t ≤ fsize doc.kids ∧ sl.wf = true := by
  have hr : S.replace doc f t sl = .ok doc' := by
    simp only [Schema.apply, Schema.fromReplace] at h
    split at h
    · split at h
      · simp at h
      · simp at h
      · exact h
    · exact h
  unfold Schema.replace at hr
  cases doc with
  | text s m => simp at hr
  | leaf ty a m => simp at hr
  | elem ty a m kids =>
    simp only at hr
    cases hk : replaceKids S ty kids f t sl with
    | error e => rw [hk] at hr; simp [Except.map] at hr
    | ok kids' =>
      rw [hk] at hr
      simp only [Except.map, Except.ok.injEq] at hr
      subst hr
      have h1 := replaceKids_toks S ty kids f t sl kids' hk
      have h2 := replaceKids_guards S ty kids f t sl kids' hk
      exact ⟨by simpa [Node.kids] using h1, h2.1, by simpa [Node.kids] using h2.2.1, h2.2.2⟩

/-! ### reading a spliced list -/

theorem splice_get_lt {α} (l m r : List α) (f i : Nat) (hi : i < f) (hf : f ≤ l.length) :
    (l.take f ++ m ++ r)[i]? = l[i]? := by
  rw [List.append_assoc, List.getElem?_append_left (by simp; omega)]
  simp [hi]

theorem splice_get_ge {α} (l m : List α) (f t i : Nat) (hf : f ≤ l.length) (ht : t ≤ i) :
    (l.take f ++ m ++ l.drop t)[f + m.length + (i - t)]? = l[i]? := by
  rw [List.getElem?_append_right (by simp; omega)]
  simp only [List.length_append, List.length_take, List.getElem?_drop]
  congr 1
  omega

/-- the five-part splice of a replace-around step -/
theorem around_get_lt {α} (l s : List α) (f gf gt t ins i : Nat) (hf : f ≤ l.length) (hi : i < f) :
    (l.take f ++ s.take ins ++ ((l.drop gf).take (gt - gf)) ++ s.drop ins ++ l.drop t)[i]? = l[i]? := by
  rw [List.append_assoc, List.append_assoc, List.append_assoc,
    List.getElem?_append_left (by simp; omega)]
  simp [hi]

theorem around_get_mid {α} (l s : List α) (f gf gt t ins i : Nat) (hf : f ≤ l.length)
    (hins : ins ≤ s.length) (hgt : gt ≤ l.length) (h1 : gf ≤ i) (h2 : i < gt) :
    (l.take f ++ s.take ins ++ ((l.drop gf).take (gt - gf)) ++ s.drop ins ++ l.drop t)[f + ins + (i - gf)]?
      = l[i]? := by
  rw [List.getElem?_append_left (by simp; omega), List.getElem?_append_left (by simp; omega),
    List.getElem?_append_right (by simp; omega)]
  simp only [List.length_append, List.length_take, List.getElem?_take, List.getElem?_drop]
  rw [if_pos (by omega)]
  congr 1
  omega

theorem around_get_ge {α} (l s : List α) (f gf gt t ins i : Nat) (hf : f ≤ l.length)
    (hins : ins ≤ s.length) (hg : gf ≤ gt) (hgt : gt ≤ l.length) (h1 : t ≤ i) :
    (l.take f ++ s.take ins ++ ((l.drop gf).take (gt - gf)) ++ s.drop ins ++ l.drop t)[f + s.length + (gt - gf) + (i - t)]?
      = l[i]? := by
  rw [List.getElem?_append_right (by simp; omega)]
  simp only [List.length_append, List.length_take, List.length_drop, List.getElem?_drop]
  congr 1
  omega
/-! ### the maps of the replace steps in closed form -/

theorem mapAux_nil_pos (pos a diff : Int) (idx : Nat) : (mapAux false pos a [] diff idx).pos = pos + diff := by
  simp [mapAux]

theorem mapAux_cons_lt (pos a : Int) (r : Range) (rest : List Range) (diff : Int) (idx : Nat)
    (h : pos < r.1) : (mapAux false pos a (r :: rest) diff idx).pos = pos + diff := by
  simp only [mapAux, Bool.false_eq_true, if_false, Int.sub_zero]
  rw [if_pos (by omega)]

theorem mapAux_cons_gt (pos a : Int) (r : Range) (rest : List Range) (diff : Int) (idx : Nat)
    (h : r.1 + r.2.1 < pos) (h0 : 0 ≤ r.2.1) :
    mapAux false pos a (r :: rest) diff idx = mapAux false pos a rest (diff + r.2.2 - r.2.1) (idx + 1) := by
  simp only [mapAux, Range.oldSize, Range.newSize, Bool.false_eq_true, if_false, Int.sub_zero]
  rw [if_neg (by omega), if_neg (by omega)]

/-- at the end of a range, association side `1` maps to the end of the inserted content (also for an
    empty old range) -/
theorem mapAux_cons_end (pos : Int) (r : Range) (rest : List Range) (diff : Int) (idx : Nat)
    (h : pos = r.1 + r.2.1) (h0 : 0 ≤ r.2.1) :
    (mapAux false pos 1 (r :: rest) diff idx).pos = r.1 + diff + r.2.2 := by
  simp only [mapAux, Range.oldSize, Range.newSize, Bool.false_eq_true, if_false, Int.sub_zero]
  rw [if_neg (by omega), if_pos (by omega)]
  simp only
  by_cases hz : r.2.1 = 0
  · simp [hz]
  · rw [if_neg hz, if_neg (by omega)]

theorem map_one_lt (f o n i a : Int) (h : i < f) : (StepMap.mk [(f, o, n)] false).map i a = i := by
  simp only [StepMap.map, StepMap.mapResult]
  rw [mapAux_cons_lt _ _ _ _ _ _ h]; omega

theorem map_one_ge (f o n i : Int) (ho : 0 ≤ o) (h : f + o ≤ i) :
    (StepMap.mk [(f, o, n)] false).map i 1 = i + (n - o) := by
  simp only [StepMap.map, StepMap.mapResult]
  by_cases he : i = f + o
  · rw [mapAux_cons_end _ _ _ _ _ he ho]; simp only; omega
  · rw [mapAux_cons_gt _ _ _ _ _ _ (by simp only; omega) ho, mapAux_nil_pos]; simp only; omega

theorem map_two_lt (f o n g o' n' i a : Int) (h : i < f) :
    (StepMap.mk [(f, o, n), (g, o', n')] false).map i a = i := by
  simp only [StepMap.map, StepMap.mapResult]
  rw [mapAux_cons_lt _ _ _ _ _ _ h]; omega

/-- between the two ranges (the preserved gap) -/
theorem map_two_mid (f o n g o' n' i : Int) (ho : 0 ≤ o) (h : f + o ≤ i) (hg : i < g) :
    (StepMap.mk [(f, o, n), (g, o', n')] false).map i 1 = i + (n - o) := by
  simp only [StepMap.map, StepMap.mapResult]
  by_cases he : i = f + o
  · rw [mapAux_cons_end _ _ _ _ _ he ho]; simp only; omega
  · rw [mapAux_cons_gt _ _ _ _ _ _ (by simp only; omega) ho, mapAux_cons_lt _ _ _ _ _ _ hg]
    simp only; omega

/-- after both ranges; `f + o < i` excludes the one degenerate case (empty gap ending the step) -/
theorem map_two_ge (f o n g o' n' i : Int) (ho : 0 ≤ o) (ho' : 0 ≤ o') (h : f + o < i) (hg : g + o' ≤ i) :
    (StepMap.mk [(f, o, n), (g, o', n')] false).map i 1 = i + (n - o) + (n' - o') := by
  simp only [StepMap.map, StepMap.mapResult]
  rw [mapAux_cons_gt _ _ _ _ _ _ (by simp only; omega) ho]
  by_cases he : i = g + o'
  · rw [mapAux_cons_end _ _ _ _ _ he ho']; simp only; omega
  · rw [mapAux_cons_gt _ _ _ _ _ _ (by simp only; omega) ho', mapAux_nil_pos]; simp only; omega

/-- exactly at the end of the first range -/
theorem map_two_end (f o n g o' n' i : Int) (ho : 0 ≤ o) (h : i = f + o) :
    (StepMap.mk [(f, o, n), (g, o', n')] false).map i 1 = f + n := by
  simp only [StepMap.map, StepMap.mapResult]
  rw [mapAux_cons_end _ _ _ _ _ h ho]; simp only; omega

theorem map_empty (p a : Int) : (StepMap.mk [] false).map p a = p := by
  simp [StepMap.map, StepMap.mapResult, mapAux]

/-! ### one changed token -/

/-- the take/drop/shape description of a one-token change cannot hide a dropped final close token:
    both token lists are balanced -/
theorem one_changed_length (l l' : List Tok) (pos : Nat) (hp : pos < l.length)
    (hb : balance l = 0) (hb' : balance l' = 0)
    (ht : l'.take pos = l.take pos) (hd : l'.drop (pos + 1) = l.drop (pos + 1))
    (hs : (l'.getD pos Tok.cl).shape = (l.getD pos Tok.cl).shape) :
    l'.length = l.length := by
  have h1 := congrArg List.length ht
  have h2 := congrArg List.length hd
  simp only [List.length_take, List.length_drop] at h1 h2
  by_cases hlt : pos < l'.length
  · omega
  · exfalso
    have hl' : l' = l.take pos := by rw [← ht, List.take_of_length_le (by omega)]
    have hdl : l.drop (pos + 1) = [] := by rw [← hd]; exact List.drop_eq_nil_of_le (by omega)
    have e1 : l = l.take pos ++ l[pos] :: l.drop (pos + 1) := by simp
    have hcl : l[pos] = Tok.cl := by
      have : (l[pos]).shape = Shape.cl := by
        simpa [List.getD, List.getElem?_eq_getElem hp, List.getElem?_eq_none (show l'.length ≤ pos by omega),
          Tok.shape] using hs.symm
      cases hx : l[pos] <;> simp [hx, Tok.shape] at this ⊢
    rw [hdl, hcl, ← hl'] at e1
    rw [e1] at hb
    simp [Tok.delta, hb'] at hb

theorem shape_of_one_changed (l l' : List Tok) (pos : Nat) (hp : pos < l.length)
    (hlen : l'.length = l.length)
    (ht : l'.take pos = l.take pos) (hd : l'.drop (pos + 1) = l.drop (pos + 1))
    (hs : (l'.getD pos Tok.cl).shape = (l.getD pos Tok.cl).shape) :
    l'.map Tok.shape = l.map Tok.shape := by
  have e1 : l = l.take pos ++ l[pos] :: l.drop (pos + 1) := by simp
  have e2 : l' = l'.take pos ++ l'[pos]'(by omega) :: l'.drop (pos + 1) := by simp
  have hs' : (l'[pos]'(by omega)).shape = (l[pos]).shape := by
    simpa [List.getD, List.getElem?_eq_getElem hp, List.getElem?_eq_getElem (show pos < l'.length by omega)] using hs
  have m1 : l.map Tok.shape
      = (l.take pos).map Tok.shape ++ (l[pos]).shape :: (l.drop (pos + 1)).map Tok.shape := by
    conv => lhs; rw [e1]
    simp only [List.map_append, List.map_cons]
  have m2 : l'.map Tok.shape
      = (l'.take pos).map Tok.shape ++ (l'[pos]'(by omega)).shape :: (l'.drop (pos + 1)).map Tok.shape := by
    conv => lhs; rw [e2]
    simp only [List.map_append, List.map_cons]
  rw [m1, m2, ht, hd, hs']

/-! ### transform bookkeeping -/

theorem Tr.maybeStep_maps (S : Schema) (tr : Tr) (st : Step)
    (h : tr.maps = tr.steps.map Step.getMap) :
    (tr.maybeStep S st).maps = (tr.maybeStep S st).steps.map Step.getMap := by
  unfold Tr.maybeStep
  split
  · simp [Tr.addStep, h]
  · exact h

theorem Tr.run_maps (S : Schema) (sts : List Step) : ∀ tr : Tr,
    tr.maps = tr.steps.map Step.getMap → (tr.run S sts).maps = (tr.run S sts).steps.map Step.getMap := by
  induction sts with
  | nil => intro tr h; simpa [Tr.run] using h
  | cons st sts ih =>
    intro tr h
    have := ih (tr.maybeStep S st) (Tr.maybeStep_maps S tr st h)
    simpa [Tr.run] using this

end PM
