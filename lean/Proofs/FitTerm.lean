/- Proofs/FitTerm.lean — every iteration of the Fitter's loop `while self.unplaced.size` decreases the
   measure `fitMeasure` (PM/Fitter.lean) as long as the unplaced content is not empty
   (`fitStep_progress`): `place_nodes` removes a node of the unplaced content or — a wrapper hit of
   pass 2 that places nothing — makes the top of the frontier accept the first node of a deeper
   slice level than before (`cpot`); `open_more` raises `open_start` below the height of the content;
   `drop_node` removes a node. -/
import Proofs.FitScan
import Proofs.FitRaises
import Proofs.FitMeasure
namespace PM

/-- the content automata are deterministic (what `dfa()` in content.py builds; decidable:
    `PM.FromDom.detB`, Proofs/Placement.lean `det_of_detB`) -/
def DetS (S : Schema) : Prop := ∀ w q, (((S.dfa w).edgesOf q).map (·.1)).Nodup

/-! ### the frontier after closing and opening nodes -/

theorem closeFrontierNode_frontier (S : Schema) (fr : List FItem) (placed : List Node)
    (r : List FItem × List Node) (h : closeFrontierNode S fr placed = .ok r) :
    fr ≠ [] ∧ r.1 = fr.dropLast := by
  unfold closeFrontierNode at h
  split at h
  · simp [throw, throwThe, MonadExceptOf.throw] at h
  · rename_i open_ hl
    have hne : fr ≠ [] := by
      intro h0; rw [h0] at hl; simp at hl
    obtain ⟨q, _, h⟩ := FM.bind_ok h
    obtain ⟨add, _, h⟩ := FM.bind_ok h
    cases add with
    | none =>
      have := pure_ok h
      subst this; exact ⟨hne, rfl⟩
    | some a =>
      simp only at h
      split at h
      · have := pure_ok h
        subst this; exact ⟨hne, rfl⟩
      · obtain ⟨p, _, h⟩ := FM.bind_ok h
        have := pure_ok h
        subst this; exact ⟨hne, rfl⟩

theorem closeMany_frontier (S : Schema) : ∀ (n : Nat) (fr : List FItem) (placed : List Node)
    (r : List FItem × List Node), closeMany S n fr placed = .ok r →
    n ≤ fr.length ∧ r.1 = fr.take (fr.length - n)
  | 0, fr, placed, r, h => by
    have := pure_ok h
    subst this
    simp
  | n + 1, fr, placed, r, h => by
    unfold closeMany at h
    obtain ⟨x, hx, h⟩ := FM.bind_ok h
    obtain ⟨hne, hx1⟩ := closeFrontierNode_frontier S fr placed x hx
    obtain ⟨h1, h2⟩ := closeMany_frontier S n x.1 x.2 r h
    have hlen : 1 ≤ fr.length := by
      cases fr with
      | nil => exact absurd rfl hne
      | cons a l => simp
    rw [hx1, List.length_dropLast] at h1 h2
    refine ⟨by omega, ?_⟩
    rw [h2, List.dropLast_eq_take, List.take_take]
    congr 1
    omega

theorem openFrontierNode_frontier (S : Schema) (fr : List FItem) (placed : List Node) (ty : TypeId)
    (attrs : Option Attrs) (content : List Node) (r : List FItem × List Node)
    (h : openFrontierNode S fr placed ty attrs content = .ok r) :
    ∃ top', r.1 = fr.set (fr.length - 1) top' ++ [⟨ty, some 0⟩] := by
  unfold openFrontierNode at h
  obtain ⟨top, _, h⟩ := FM.bind_ok h
  obtain ⟨q, _, h⟩ := FM.bind_ok h
  obtain ⟨node, _, h⟩ := FM.bind_ok h
  obtain ⟨p', _, h⟩ := FM.bind_ok h
  have := pure_ok h
  subst this
  exact ⟨_, rfl⟩

theorem openMany_frontier (S : Schema) : ∀ (ws : List TypeId) (fr : List FItem) (placed : List Node)
    (r : List FItem × List Node), openMany S ws fr placed = .ok r →
    r.1.length = fr.length + ws.length ∧ (ws = [] → r = (fr, placed)) ∧
      ∀ t c, ws = c ++ [t] → r.1.getLast? = some ⟨t, some 0⟩
  | [], fr, placed, r, h => by
    have := pure_ok h
    subst this
    exact ⟨by simp, fun _ => rfl, fun t c hc => by simp at hc⟩
  | w :: ws, fr, placed, r, h => by
    unfold openMany at h
    obtain ⟨x, hx, h⟩ := FM.bind_ok h
    obtain ⟨top', hx1⟩ := openFrontierNode_frontier S fr placed w none [] x hx
    obtain ⟨h1, h2, h3⟩ := openMany_frontier S ws x.1 x.2 r h
    have hxl : x.1.length = fr.length + 1 := by rw [hx1]; simp
    refine ⟨by rw [h1, hxl]; simp; omega, fun h0 => by simp at h0, ?_⟩
    intro t c hc
    cases c with
    | nil =>
      simp only [List.nil_append, List.cons.injEq] at hc
      obtain ⟨rfl, rfl⟩ := hc
      rw [h2 rfl]
      simp only
      rw [hx1]
      simp
    | cons c0 c' =>
      simp only [List.cons_append, List.cons.injEq] at hc
      exact h3 t c' hc.2

theorem getLast?_set_lt {α : Type} (l : List α) (i : Nat) (a : α) (h : i + 1 < l.length) :
    (l.set i a).getLast? = l.getLast? := by
  rw [List.getLast?_eq_getElem?, List.getLast?_eq_getElem?, List.length_set,
    List.getElem?_set_ne (by omega)]

/-! ### the take loop -/

theorem takeLoop_pos (S : Schema) (d : Dfa) (frontTy : TypeId) (openStart : Nat) (oec : Int) (total : Nat)
    (next : Node) (rest : List Node) (taken q : Nat) (add : List Node) (r : Nat × Nat × List Node)
    (hm : (d.matchType q (S.tyOf next)).isSome = true)
    (h : takeLoop S d frontTy openStart oec total (next :: rest) taken q add = .ok r) : taken + 1 ≤ r.1 := by
  unfold takeLoop at h
  split at h
  · rename_i hn
    rw [hn] at hm
    simp at hm
  · simp only at h
    split at h
    · obtain ⟨n, _, h⟩ := FM.bind_ok h
      obtain ⟨_, _, _, h3⟩ := takeLoop_text S d frontTy openStart oec total rest _ _ _ r h
      exact h3
    · obtain ⟨_, _, _, h3⟩ := takeLoop_text S d frontTy openStart oec total rest _ _ _ r h
      exact h3

/-! ### `place_nodes`, taken apart -/

/-- `open_end_count` before the take loop -/
def Fittable.oec0 (fit : Fittable) (u : Slice) : Int :=
  ((fsize (fit.fragment u) : Int) + fit.sliceDepth) - ((fsize u.content : Int) - u.openEnd)

theorem placeNodes_decomp (S : Schema) (st st' : FitState) (fit : Fittable)
    (h : placeNodes S st fit = .ok st') :
    ∃ c1 c2 item q0 q1 tk,
      closeMany S (st.frontier.length - 1 - fit.frontierDepth) st.frontier st.placed = .ok c1 ∧
      openMany S (fit.wrap.getD []) c1.1 c1.2 = .ok c2 ∧
      c2.1[fit.frontierDepth]? = some item ∧ item.st = some q0 ∧
      (S.dfa item.ty).run q0 (S.types (fit.inject.getD [])) = some q1 ∧
      takeLoop S (S.dfa item.ty) item.ty (st.unplaced.openStart - fit.sliceDepth) (fit.oec0 st.unplaced)
        (fit.fragment st.unplaced).length (fit.fragment st.unplaced) 0 q1 (fit.inject.getD []) = .ok tk ∧
      placeRest st.unplaced fit.sliceDepth tk.1 (tk.1 == (fit.fragment st.unplaced).length)
        (if tk.1 == (fit.fragment st.unplaced).length then fit.oec0 st.unplaced else -1) = .ok st'.unplaced ∧
      ((tk.1 == (fit.fragment st.unplaced).length) = false →
        st'.frontier = c2.1.set fit.frontierDepth ⟨item.ty, some tk.2.1⟩) := by
  unfold placeNodes at h
  obtain ⟨c1, hc1, h⟩ := FM.bind_ok h
  obtain ⟨c2, hc2, h⟩ := FM.bind_ok h
  simp only at h
  obtain ⟨item, hitem, h⟩ := FM.bind_ok h
  obtain ⟨q0, hq0, h⟩ := FM.bind_ok h
  obtain ⟨q1, hq1, h⟩ := FM.bind_ok h
  obtain ⟨tk, htk, h⟩ := FM.bind_ok h
  obtain ⟨placed, hplaced, h⟩ := FM.bind_ok h
  obtain ⟨top, _, h⟩ := FM.bind_ok h
  obtain ⟨c3, hc3, h⟩ := FM.bind_ok h
  obtain ⟨fr, hfr, h⟩ := FM.bind_ok h
  obtain ⟨u', hu', h⟩ := FM.bind_ok h
  have := pure_ok h
  subst this
  refine ⟨c1, c2, item, q0, q1, tk, hc1, hc2, getItem_ok hitem, getSt_ok hq0, liftRaise_ok hq1, htk, hu', ?_⟩
  intro hte
  simp only
  have hte' : (tk.1 == (fit.fragment st.unplaced).length) = false := hte
  simp only [hte', Bool.false_and, Bool.false_eq_true, if_false] at hc3 hfr
  have h3 := pure_ok hc3
  subst h3
  simp only [show ((-1 : Int).toNat) = 0 from rfl, pushOpenEnd] at hfr
  exact (pure_ok hfr).symm

/-- the fragment the nodes are taken from is the slice level the fittable was found at -/
theorem fragment_eq_level {u : Slice} {fit : Fittable} {lvl : Option Node × List Node}
    (hl : sliceLevel u fit.sliceDepth = .ok lvl) (hp : fit.parent = lvl.1) : fit.fragment u = lvl.2 := by
  unfold Fittable.fragment
  rcases sliceLevel_ok hl with ⟨_, rfl⟩ | ⟨_, p, rest, _, rfl⟩
  · rw [hp]
  · rw [hp]

/-- `place_nodes` shrinks the unplaced content whenever it takes a node or reaches the end of the
    fragment -/
theorem placeRest_decr (u : Slice) (sd taken : Nat) (toEnd : Bool) (oec : Int) (u' : Slice)
    (fragment : List Node) (hne : u.content ≠ [])
    (hpar : (sd = 0 ∧ fragment = u.content) ∨
      (0 < sd ∧ ∃ p rest, contentAt u.content (sd - 1) = .ok (p :: rest) ∧ fragment = p.kids))
    (hprog : toEnd = true ∨ (1 ≤ taken ∧ fragment ≠ []))
    (h : placeRest u sd taken toEnd oec = .ok u') :
    fcount u'.content < fcount u.content ∧ u'.openBound ≤ u.openBound := by
  unfold placeRest at h
  split at h
  · rename_i hte
    have hte' : toEnd = false := by simpa using hte
    obtain ⟨c, hc, h⟩ := FM.bind_ok h
    have := pure_ok h
    subst this
    rcases hprog with hp | ⟨h1, h2⟩
    · rw [hp] at hte'; simp at hte'
    · have hca : contentAt u.content sd = .ok fragment := by
        rcases hpar with ⟨rfl, rfl⟩ | ⟨hpos, p, rest, hp, rfl⟩
        · rfl
        · have := contentAt_succ (sd - 1) _ p rest hp
          rwa [show sd - 1 + 1 = sd by omega] at this
      have hcount := dropFromFragment_count sd _ _ _ taken hc hca
      have hpos := fcount_take_pos fragment taken h2 h1
      have hh := dropFromFragment_height sd _ _ taken hc
      refine ⟨by simp only; omega, ?_⟩
      unfold Slice.openBound
      simp only
      omega
  · split at h
    · have := pure_ok h
      subst this
      refine ⟨?_, ?_⟩
      · have := fcount_pos_of_ne_nil _ hne
        simp only [Slice.empty, fcount_nil]
        omega
      · unfold Slice.openBound
        simp only [Slice.empty, fheight_nil]
        omega
    · rename_i hsd
      obtain ⟨c, hc, h⟩ := FM.bind_ok h
      have := pure_ok h
      subst this
      rcases hpar with ⟨h0, _⟩ | ⟨hpos, p, rest, hp, _⟩
      · simp [h0] at hsd
      · have hcount := dropFromFragment_count (sd - 1) _ _ _ 1 hc hp
        have hpos1 := fcount_take_pos (p :: rest) 1 (by simp) (Nat.le_refl _)
        have hh := dropFromFragment_height (sd - 1) _ _ 1 hc
        have hht := contentAt_height (sd - 1) _ _ hp
        refine ⟨by simp only; omega, ?_⟩
        unfold Slice.openBound
        simp only
        omega

/-! ### wrapper rounds that place nothing -/

/-- how many slice levels, from `n - 1` downwards, the top of the frontier does not accept -/
def cpotAux (S : Schema) (st : FitState) : Nat → Nat
  | 0 => 0
  | n + 1 => if topMatches S st n then 0 else 1 + cpotAux S st n

/-- the third component of the measure: the number of slice levels from `open_start` downwards
    whose first node the top of the frontier does not accept -/
def cpot (S : Schema) (st : FitState) : Nat := cpotAux S st (st.unplaced.openStart + 1)

theorem cpotAux_le (S : Schema) (st : FitState) : ∀ n, cpotAux S st n ≤ n
  | 0 => Nat.le_refl _
  | n + 1 => by
    unfold cpotAux
    split
    · omega
    · have := cpotAux_le S st n; omega

theorem cpot_le (S : Schema) (st : FitState) : cpot S st ≤ st.unplaced.openStart + 1 := cpotAux_le S st _

theorem cpotAux_le_of_true (S : Schema) (st : FitState) (k : Nat) (hk : topMatches S st k = true) :
    ∀ n, k < n → cpotAux S st n ≤ n - 1 - k
  | 0, h => by omega
  | n + 1, h => by
    unfold cpotAux
    split
    · omega
    · rename_i hn
      have hne : k ≠ n := by
        intro e; subst e; exact hn hk
      have := cpotAux_le_of_true S st k hk n (by omega)
      omega

theorem cpotAux_ge_of_false (S : Schema) (st : FitState) (k : Nat) :
    ∀ n, k ≤ n → (∀ j, k ≤ j → j < n → topMatches S st j = false) → n - k ≤ cpotAux S st n
  | 0, _, _ => by omega
  | n + 1, hkn, h => by
    rcases Nat.lt_or_ge n k with hlt | hge
    · omega
    · unfold cpotAux
      rw [h n hge (by omega)]
      simp only [Bool.false_eq_true, if_false]
      have := cpotAux_ge_of_false S st k n hge (fun j h1 h2 => h j h1 (by omega))
      omega

/-! ### one iteration -/

/-- **`place_nodes` makes progress**: it removes a node of the unplaced content (and the bound on
    `open_start` does not grow), or it leaves the unplaced slice as it is and lowers `cpot` -/
theorem placeNodes_progress (S : Schema) (hdet : DetS S) (st st' : FitState) (f : Fittable)
    (hne : st.unplaced.content ≠ []) (hf : findFittable S st = .ok (some f))
    (h : placeNodes S st f = .ok st') :
    (fcount st'.unplaced.content < fcount st.unplaced.content ∧
      st'.unplaced.openBound ≤ st.unplaced.openBound) ∨
    (st'.unplaced = st.unplaced ∧ cpot S st' < cpot S st) := by
  obtain ⟨lvl, it, hsd, hlvl, hpar, hit, kind, hcp⟩ := findFittable_kind S st f hf
  obtain ⟨c1, c2, item, q0, q1, tk, hc1, hc2, hitem, hq0, hq1, htk, hrest, hfr⟩ := placeNodes_decomp S st st' f h
  have hfrag := fragment_eq_level hlvl hpar
  rw [hfrag] at htk hrest hfr
  -- the frontier after closing down to the fittable's depth
  have hfdlt : f.frontierDepth < st.frontier.length := by
    rcases Nat.lt_or_ge f.frontierDepth st.frontier.length with h1 | h1
    · exact h1
    · rw [List.getElem?_eq_none h1] at hit; simp at hit
  obtain ⟨_, hc1f⟩ := closeMany_frontier S _ _ _ c1 hc1
  have hc1f' : c1.1 = st.frontier.take (f.frontierDepth + 1) := by
    rw [hc1f]; congr 1; omega
  have hc1it : c1.1[f.frontierDepth]? = some it := by
    rw [hc1f', List.getElem?_take_of_lt (by omega)]; exact hit
  have hc1len : c1.1.length = f.frontierDepth + 1 := by
    rw [hc1f', List.length_take]; omega
  -- the shape `placeRest_decr` wants
  have hparR : (f.sliceDepth = 0 ∧ lvl.2 = st.unplaced.content) ∨
      (0 < f.sliceDepth ∧ ∃ p rest, contentAt st.unplaced.content (f.sliceDepth - 1) = .ok (p :: rest) ∧
        lvl.2 = p.kids) := by
    rcases sliceLevel_ok hlvl with ⟨h0, rfl⟩ | ⟨hpos, p, rest, hp, rfl⟩
    · exact .inl ⟨h0, rfl⟩
    · exact .inr ⟨hpos, p, rest, hp, rfl⟩
  -- a first node that matches at the item the take loop starts from is taken
  have hdirect : ∀ (fst : Node), lvl.2.head? = some fst → f.wrap.getD [] = [] → it.st = some q0 ∨ True →
      item = it → ((S.dfa it.ty).matchType q1 (S.tyOf fst)).isSome = true →
      fcount st'.unplaced.content < fcount st.unplaced.content ∧
        st'.unplaced.openBound ≤ st.unplaced.openBound := by
    intro fst hfst _ _ hitem_eq hm
    subst hitem_eq
    obtain ⟨rest', hl2⟩ : ∃ rest', lvl.2 = fst :: rest' := by
      cases hl : lvl.2 with
      | nil => rw [hl] at hfst; simp at hfst
      | cons a l => rw [hl] at hfst; simp at hfst; subst hfst; exact ⟨l, rfl⟩
    rw [hl2] at htk
    have hpos := takeLoop_pos S _ _ _ _ _ fst rest' 0 q1 _ tk hm htk
    exact placeRest_decr st.unplaced f.sliceDepth tk.1 _ _ st'.unplaced lvl.2 hne hparR
      (.inr ⟨by omega, by rw [hl2]; simp⟩) hrest
  cases kind with
  | direct fst q hfst hq hm hinj hw =>
    left
    rw [hw] at hc2
    obtain ⟨_, hc2e, _⟩ := openMany_frontier S _ _ _ c2 hc2
    have hc2e := hc2e rfl
    subst hc2e
    rw [hc1it] at hitem
    simp only [Option.some.injEq] at hitem
    subst hitem
    rw [hq] at hq0
    simp only [Option.some.injEq] at hq0
    subst hq0
    rw [hinj] at hq1
    simp only [Option.getD_none, Schema.types, List.map_nil, Dfa.run, Option.some.injEq] at hq1
    subst hq1
    exact hdirect fst hfst (by rw [hw]; rfl) (.inr trivial) rfl hm
  | inject fst q inj hfst hq hfill hinj hw =>
    left
    rw [hw] at hc2
    obtain ⟨_, hc2e, _⟩ := openMany_frontier S _ _ _ c2 hc2
    have hc2e := hc2e rfl
    subst hc2e
    rw [hc1it] at hitem
    simp only [Option.some.injEq] at hitem
    subst hitem
    rw [hq] at hq0
    simp only [Option.some.injEq] at hq0
    subst hq0
    rw [hinj] at hq1
    simp only [Option.getD_some] at hq1
    have htys := fillBeforeNodes_types S _ _ _ _ inj (liftRaise_ok hfill)
    obtain ⟨q1', hr, hm⟩ := fillBeforeTypes_one S _ (hdet it.ty) q (S.tyOf fst) _ htys
    rw [hq1] at hr
    simp only [Option.some.injEq] at hr
    subst hr
    exact hdirect fst hfst (by rw [hw]; rfl) (.inr trivial) rfl hm
  | empty p hfst hp hinj hw =>
    left
    have hl2 : lvl.2 = [] := by
      cases hl : lvl.2 with
      | nil => rfl
      | cons a l => rw [hl] at hfst; simp at hfst
    rw [hl2] at htk hrest
    unfold takeLoop at htk
    have := pure_ok htk
    subst this
    refine placeRest_decr st.unplaced f.sliceDepth 0 _ _ st'.unplaced lvl.2 hne hparR (.inl ?_) hrest
    simp
  | wrap fst q w hfst hq hfw hinj hw =>
    obtain ⟨rest', hl2⟩ : ∃ rest', lvl.2 = fst :: rest' := by
      cases hl : lvl.2 with
      | nil => rw [hl] at hfst; simp at hfst
      | cons a l => rw [hl] at hfst; simp at hfst; subst hfst; exact ⟨l, rfl⟩
    rcases findWrappingTypes_spec S _ q _ w hfw with ⟨hw0, hm⟩ | ⟨t, c, hwc, hm⟩
    · -- no wrapper needed: as in pass 1
      left
      subst hw0
      rw [hw] at hc2
      obtain ⟨_, hc2e, _⟩ := openMany_frontier S _ _ _ c2 hc2
      have hc2e := hc2e rfl
      subst hc2e
      rw [hc1it] at hitem
      simp only [Option.some.injEq] at hitem
      subst hitem
      rw [hq] at hq0
      simp only [Option.some.injEq] at hq0
      subst hq0
      rw [hinj] at hq1
      simp only [Option.getD_none, Schema.types, List.map_nil, Dfa.run, Option.some.injEq] at hq1
      subst hq1
      exact hdirect fst hfst (by rw [hw]; rfl) (.inr trivial) rfl hm
    · -- wrappers were opened
      have hwne : w ≠ [] := by rw [hwc]; simp
      rcases Nat.eq_zero_or_pos tk.1 with h0 | hpos
      · right
        have hte : (tk.1 == lvl.2.length) = false := by
          rw [h0, hl2]; simp
        rw [hte] at hrest
        simp only [Bool.false_eq_true, if_false] at hrest
        have hu : st'.unplaced = st.unplaced := by
          unfold placeRest at hrest
          simp only [Bool.not_false, if_true] at hrest
          obtain ⟨cc, hcc, hrest⟩ := FM.bind_ok hrest
          have := pure_ok hrest
          rw [h0] at hcc
          rw [← this, dropFromFragment_zero _ _ _ hcc]
        refine ⟨hu, ?_⟩
        -- the new top of the frontier is the innermost wrapper, which accepts the first node
        rw [hw] at hc2
        simp only [Option.getD_some] at hc2
        obtain ⟨hc2len, _, hc2last⟩ := openMany_frontier S _ _ _ c2 hc2
        have hlast := hc2last t c hwc
        have hwlen : 1 ≤ w.length := by rw [hwc]; simp
        have hfr' := hfr hte
        have htop' : st'.frontier.getLast? = some ⟨t, some 0⟩ := by
          rw [hfr', getLast?_set_lt _ _ _ (by rw [hc2len, hc1len]; omega)]
          exact hlast
        have hmatch : topMatches S st' f.sliceDepth = true := by
          unfold topMatches
          rw [htop', hu]
          simp only [hlvl, hfst]
          exact hm
        have h1 := cpotAux_le_of_true S st' f.sliceDepth hmatch (st'.unplaced.openStart + 1)
          (by rw [hu]; omega)
        have h2 := cpotAux_ge_of_false S st f.sliceDepth (st.unplaced.openStart + 1) (by omega)
          (fun j hj1 hj2 => hcp w hw hwne j hj1 (by omega))
        unfold cpot
        rw [hu] at h1 ⊢
        omega
      · left
        exact placeRest_decr st.unplaced f.sliceDepth tk.1 _ _ st'.unplaced lvl.2 hne hparR
          (.inr ⟨hpos, by rw [hl2]; simp⟩) hrest

theorem openMore_progress (S : Schema) (st st' : FitState) (h : openMore st = .ok (some st')) :
    fitMeasure st'.unplaced (cpot S st') < fitMeasure st.unplaced (cpot S st) := by
  unfold openMore at h
  simp only at h
  obtain ⟨inner, hinner, h⟩ := FM.bind_ok h
  split at h
  · simp [pure, Except.pure] at h
  · rename_i first rest
    split at h
    · simp [pure, Except.pure] at h
    · have := pure_ok h
      simp only [Option.some.injEq] at this
      subst this
      have hh := contentAt_height _ _ _ hinner
      rw [fheight_cons] at hh
      have := first.height_pos
      exact fitMeasure_lt_of_open st.unplaced _ _ _ rfl rfl (by omega) (cpot_le S _)

theorem dropNode_progress (S : Schema) (st st' : FitState) (hne : st.unplaced.content ≠ [])
    (h : dropNode st = .ok st') :
    fitMeasure st'.unplaced (cpot S st') < fitMeasure st.unplaced (cpot S st) := by
  unfold dropNode at h
  simp only at h
  obtain ⟨inner, hinner, h⟩ := FM.bind_ok h
  split at h
  · rename_i hc
    simp only [Bool.and_eq_true, decide_eq_true_eq] at hc
    obtain ⟨c, hc', h⟩ := FM.bind_ok h
    have := pure_ok h
    subst this
    obtain ⟨k, hk⟩ : ∃ k, st.unplaced.openStart = k + 1 := ⟨st.unplaced.openStart - 1, by omega⟩
    rw [hk] at hinner
    obtain ⟨p, rest, hp, _⟩ := contentAt_pred k _ _ hinner
    rw [hk, Nat.add_sub_cancel] at hc'
    have hcount := dropFromFragment_count k _ _ _ 1 hc' hp
    have hpos := fcount_take_pos (p :: rest) 1 (by simp) (Nat.le_refl _)
    have hh := dropFromFragment_height k _ _ 1 hc'
    refine fitMeasure_lt_of_count _ _ _ _ (by simp only; omega) ?_ (cpot_le S _)
    unfold Slice.openBound
    simp only
    omega
  · rename_i hc
    obtain ⟨c, hc', h⟩ := FM.bind_ok h
    have := pure_ok h
    subst this
    have hin : inner ≠ [] := by
      intro h0
      subst h0
      simp only [List.length_nil, Nat.zero_le, decide_true, Bool.true_and, decide_eq_true_eq,
        Nat.not_lt, Nat.le_zero_eq] at hc
      rw [hc] at hinner
      have := pure_ok hinner
      exact hne this
    have hcount := dropFromFragment_count _ _ _ _ 1 hc' hinner
    have hpos := fcount_take_pos inner 1 hin (Nat.le_refl _)
    have hh := dropFromFragment_height _ _ _ 1 hc'
    refine fitMeasure_lt_of_count _ _ _ _ (by simp only; omega) ?_ (cpot_le S _)
    unfold Slice.openBound
    simp only
    omega

/-- **every iteration of the `fit` loop decreases the measure**, as long as there is unplaced
    content -/
theorem fitStep_progress (S : Schema) (hdet : DetS S) (st st' : FitState)
    (hne : st.unplaced.content ≠ []) (h : fitStep S st = .ok st') :
    fitMeasure st'.unplaced (cpot S st') < fitMeasure st.unplaced (cpot S st) := by
  unfold fitStep at h
  obtain ⟨f, hf, h⟩ := FM.bind_ok h
  cases f with
  | some f =>
    rcases placeNodes_progress S hdet st st' f hne hf h with ⟨h1, h2⟩ | ⟨h1, h2⟩
    · exact fitMeasure_lt_of_count _ _ _ _ h1 h2 (cpot_le S _)
    · rw [h1]
      exact fitMeasure_lt_of_c _ _ _ h2
  | none =>
    simp only at h
    obtain ⟨o, ho, h⟩ := FM.bind_ok h
    cases o with
    | some s2 =>
      have := pure_ok h
      subst this
      exact openMore_progress S st s2 ho
    | none => exact dropNode_progress S st st' hne h

end PM
