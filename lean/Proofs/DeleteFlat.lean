/-
  Proofs/DeleteFlat.lean — "the step `replace_step` emits for a deletion that fits trivially applies" (property C11,
  first sentence, flat case): both ends of the range have the same parent and that parent's
  `can_replace(index(from), index(to))` approved.  Either end may lie strictly inside a text child.

  * `FlatAt`, `headCut`, `tailCut`: a position at depth 0 of a child list (`k` units into the text child behind `A`),
    the half text child in front of it and the list behind it;
  * `canReplace_delete_valid`, `flat_delete_valid`: what `can_replace(i, j)` (empty replacement) establishes about
    the joined child list, text halves included (`TextStable`: an extra text child where one is accepted);
  * `level_delete_applies`: `ReplaceStep(b + fP, b + tP, Slice.empty)` at a nested level applies;
  * `same_start_depth`, `resolved_flatAt`: the resolved positions as `FlatAt`;
  * `trivial_delete_applies`: the statement for resolved positions.
-/
import Proofs.InsertSuccess
import Proofs.InsertAtValid
namespace PM
open PM.FromDom (TextStable StEq)

/-- a position `p` at depth 0 of a child list `L`: behind the children `A`, `k` units into the text child that follows
    (`k = 0`: at the child boundary) -/
structure FlatAt (L : List Node) (p : Nat) (A Lr : List Node) (k : Nat) : Prop where
  split : L = A ++ Lr
  pos : p = fsize A + k
  inText : k = 0 ∨ ∃ s m r, Lr = .text s m :: r ∧ k < s.length ∧ splitOk s k = true

/-- the part of the text child in front of the position (nothing at a boundary) -/
def headCut (Lr : List Node) (k : Nat) : List Node :=
  if k = 0 then [] else
    match Lr with
    | .text s m :: _ => [.text (s.take k) m]
    | _ => []

/-- the children behind the position, the first one cut when the position is inside it -/
def tailCut (Lr : List Node) (k : Nat) : List Node :=
  if k = 0 then Lr else
    match Lr with
    | .text s m :: r => .text (s.drop k) m :: r
    | _ => Lr

namespace FlatAt
variable {L A Lr : List Node} {p k : Nat}

theorem depth (h : FlatAt L p A Lr k) : depthAt L p = 0 := by
  rw [h.split, h.pos, depthAt_append_pre]
  rcases h.inText with h0 | ⟨s, m, r, e, hk, _⟩
  · subst h0; simp
  · subst e
    by_cases hk0 : k = 0
    · subst hk0; simp
    · rw [depthAt_cons, if_neg hk0, if_neg (by simp only [Node.size_text]; omega)]

theorem aligned (h : FlatAt L p A Lr k) : alignedAt L p = true := by
  rw [h.split, h.pos, alignedAt_append_pre]
  rcases h.inText with h0 | ⟨s, m, r, e, hk, hsp⟩
  · subst h0; simp
  · subst e
    by_cases hk0 : k = 0
    · subst hk0; simp
    · rw [alignedAt_cons, if_neg hk0, if_neg (by simp only [Node.size_text]; omega)]
      exact hsp

theorem le (h : FlatAt L p A Lr k) : p ≤ fsize L := by
  rw [h.split, h.pos, fsize_append]
  rcases h.inText with h0 | ⟨s, m, r, e, hk, _⟩
  · omega
  · subst e; rw [fsize_cons, Node.size_text]; omega

theorem take (h : FlatAt L p A Lr k) : (ftoks L).take p = ftoks (A ++ headCut Lr k) := by
  have hlen : (ftoks A).length = fsize A := ftoks_length A
  rw [h.split, h.pos, ftoks_append, ftoks_append, ← hlen, List.take_length_add_append]
  congr 1
  rcases h.inText with h0 | ⟨s, m, r, e, hk, _⟩
  · subst h0; simp [headCut]
  · subst e
    by_cases hk0 : k = 0
    · subst hk0; simp [headCut]
    · have hk' : k ≤ (s.map (Tok.unit · m)).length := by simp; omega
      have e0 : ftoks (Node.text s m :: r) = s.map (Tok.unit · m) ++ ftoks r := by simp [ftoks, Node.toks]
      rw [e0, List.take_append_of_le_length hk', ← List.map_take]
      simp [headCut, hk0, ftoks, Node.toks]

theorem drop (h : FlatAt L p A Lr k) : (ftoks L).drop p = ftoks (tailCut Lr k) := by
  have hlen : (ftoks A).length = fsize A := ftoks_length A
  rw [h.split, h.pos, ftoks_append, ← hlen, List.drop_length_add_append]
  rcases h.inText with h0 | ⟨s, m, r, e, hk, _⟩
  · subst h0; simp [tailCut]
  · subst e
    by_cases hk0 : k = 0
    · subst hk0; simp [tailCut]
    · have hk' : k ≤ (s.map (Tok.unit · m)).length := by simp; omega
      have e0 : ftoks (Node.text s m :: r) = s.map (Tok.unit · m) ++ ftoks r := by simp [ftoks, Node.toks]
      rw [e0, List.drop_append_of_le_length hk', ← List.map_drop]
      simp [tailCut, hk0, Node.toks]

theorem head_norm (h : FlatAt L p A Lr k) : fnormKids (headCut Lr k) = true := by
  rcases h.inText with h0 | ⟨s, m, r, e, hk, _⟩
  · subst h0; simp [headCut]
  · subst e
    by_cases hk0 : k = 0
    · subst hk0; simp [headCut]
    · simp only [headCut, hk0, if_false, fnormKids_cons, Node.norm_text, fnormKids, Bool.and_true,
        Bool.not_eq_true', List.isEmpty_eq_false_iff]
      intro hh; have := congrArg List.length hh; rw [List.length_take, List.length_nil] at this; omega

theorem tail_norm (h : FlatAt L p A Lr k) (hn : fnormKids L = true) : fnormKids (tailCut Lr k) = true := by
  rw [h.split, fnormKids_append, Bool.and_eq_true] at hn
  rcases h.inText with h0 | ⟨s, m, r, e, hk, _⟩
  · subst h0; simpa [tailCut] using hn.2
  · subst e
    by_cases hk0 : k = 0
    · subst hk0; simpa [tailCut] using hn.2
    · have h2 := hn.2
      simp only [fnormKids_cons, Bool.and_eq_true] at h2
      simp only [tailCut, hk0, if_false, fnormKids_cons, Node.norm_text, Bool.and_eq_true,
        Bool.not_eq_true', List.isEmpty_eq_false_iff]
      refine ⟨?_, h2.2⟩
      intro hh; have := congrArg List.length hh; rw [List.length_drop, List.length_nil] at this; omega

end FlatAt

/-- validity only looks at types and marks: the cut first child stands for the whole one -/
theorem validContent_tailCut (S : Schema) (tyP : TypeId) (X Lr : List Node) (k : Nat) :
    S.validContent tyP (X ++ tailCut Lr k) = S.validContent tyP (X ++ Lr) := by
  unfold tailCut
  split
  · rfl
  · split
    · simp only [Schema.validContent, Schema.types, List.map_append, List.map_cons, List.all_append,
        List.all_cons, Schema.tyOf, Node.tyOr, Node.marks]
    · rfl

/-- `can_replace(i, j)` with an empty replacement on a valid child list: the children before `i` followed by those
    from `j` on are valid content -/
theorem canReplace_delete_valid (S : Schema) (tyP : TypeId) (L A Lr B Lr' : List Node)
    (hA : L = A ++ Lr) (hB : L = B ++ Lr') (hvL : S.validContent tyP L = true)
    (hcr : S.canReplace tyP L A.length B.length [] 0 0 = some true) :
    S.validContent tyP (A ++ Lr') = true := by
  have hall := allowsMarks_of_valid S _ _ hvL
  unfold Schema.canReplace Schema.contentMatchAt at hcr
  have e1 : L.take A.length = A := by rw [hA]; simp
  have e2 : L.drop B.length = Lr' := by rw [hB]; simp
  have e3 : (([] : List Node).take 0).drop 0 = [] := rfl
  rw [e1, e2] at hcr
  simp only [e3] at hcr
  split at hcr
  · simp at hcr
  · rename_i q hq
    split at hcr
    · simp at hcr
    · rename_i q1 hq1
      have hq1' : q1 = q := by simpa [Schema.types, Dfa.run] using hq1.symm
      subst hq1'
      split at hcr
      · simp at hcr
      · rename_i q2 hq2
        simp only [Option.some.injEq, Bool.and_eq_true] at hcr
        have hacc : (S.dfa tyP).accepts (S.types (A ++ Lr')) = true := by
          unfold Dfa.accepts
          rw [types_append, Dfa.run_append, hq]
          simp only [Option.bind_some, hq2]
          exact hcr.1
        simp only [Schema.validContent, hacc, Bool.true_and, List.all_eq_true]
        intro c hc
        simp only [List.mem_append] at hc
        rcases hc with h | h
        · exact hall c (by rw [hA]; simp [h])
        · exact hall c (by rw [hB]; simp [h])

/-- … and with the two text halves at the ends of the range left in -/
theorem flat_delete_valid (S : Schema) (hst : TextStable S) (tyP : TypeId) (L A Lr B Lr' : List Node) (k k' : Nat)
    (hA : L = A ++ Lr) (hB : L = B ++ Lr') (hvL : S.validContent tyP L = true)
    (hcr : S.canReplace tyP L A.length B.length [] 0 0 = some true) :
    S.validContent tyP (A ++ headCut Lr k ++ tailCut Lr' k') = true := by
  rw [validContent_tailCut]
  have h2 := canReplace_delete_valid S tyP L A Lr B Lr' hA hB hvL hcr
  unfold headCut
  split
  · simpa using h2
  · split
    · rename_i s m r
      have := validContent_text_front S hst tyP A r Lr' s (s.take k) m (by rw [← hA]; exact hvL) h2
      simpa using this
    · simpa using h2

/-- **a deletion between two positions at depth 0 of a nested node's children**: if the joined child list is valid
    the step `ReplaceStep(b + fP, b + tP, Slice.empty)` applies -/
theorem level_delete_applies (S : Schema) (hts : TextStableP S) (ty0 : TypeId) (a0 : Attrs) (m0 : Marks) (K : List Node)
    (hv : S.checkNode (.elem ty0 a0 m0 K) = true) (hn : fnorm K = true)
    {b nd : Nat} {tyP : TypeId} {ctx : List Node → List Node} {L A Lr B Lr' : List Node} {fP tP k k' : Nat}
    (hl : Lvl ty0 K b nd tyP L ctx) (hF : FlatAt L fP A Lr k) (hT : FlatAt L tP B Lr' k') (hft : fP ≤ tP)
    (hval : S.validContent tyP (A ++ headCut Lr k ++ tailCut Lr' k') = true) :
    ∃ doc', S.apply (.replace (b + fP) (b + tP) Slice.empty false) (.elem ty0 a0 m0 K) = .ok doc' := by
  have hvK : S.validContent ty0 K = true ∧ S.checkKids K = true := by
    simp only [checkNode_elem, Bool.and_eq_true] at hv
    exact ⟨hv.1.1, hv.2⟩
  obtain ⟨hvL, _, hnL⟩ := hl.valid hvK.1 hvK.2 hn
  have hrep := replaceKids_flat (S := S) hl [] fP tP hft hT.le hF.depth hT.depth
  obtain ⟨Y, hnY, htY, hY⟩ := atLevel_flat_spec S [] rfl tyP L fP tP hft hT.le hF.depth hT.depth hF.aligned hT.aligned hnL
  have hnk := fnormKids_of_fnorm hnL
  have hnA : fnormKids A = true := by
    have := hnk
    rw [hF.split, fnormKids_append, Bool.and_eq_true] at this
    exact this.1
  have hnp : fnormKids (A ++ headCut Lr k ++ tailCut Lr' k') = true := by
    simp only [fnormKids_append, Bool.and_eq_true]
    exact ⟨⟨hnA, hF.head_norm⟩, hT.tail_norm hnk⟩
  have hYe : Y = fromArray (A ++ headCut Lr k ++ tailCut Lr' k') := by
    apply ftoks_inj _ _ hnY (fromArray_norm _ hnp)
    rw [htY, fromArray_toks, hF.take, hT.drop]
    simp [ftoks_append, ftoks]
  have hvalY : S.validContent tyP Y = true := by
    rw [hYe]; exact validContent_fromArray hts _ _ hval
  refine ⟨.elem ty0 a0 m0 (ctx Y), ?_⟩
  simp only [Schema.apply, Bool.false_eq_true, if_false, Schema.fromReplace, Schema.replace, Slice.empty, hrep, hY,
    hvalY, if_true, Except.map]

/-! ### resolved positions -/

/-- the innermost nodes of two resolved positions start at the same place: they have the same depth -/
theorem same_start_depth {doc : Node} {pf pt : Nat} {f t : RPos} (Rf : Resolved doc pf f) (Rt : Resolved doc pt t)
    (h : f.start f.depth = t.start t.depth) (hle : f.depth ≤ t.depth) : f.depth = t.depth := by
  rcases Nat.eq_or_lt_of_le hle with h' | hne
  · exact h'
  exfalso
  have n1 := Rt.nestW f.depth t.depth hle (Nat.le_refl _)
  have pt' := Rt.pos_in t.depth (Nat.le_refl _)
  have hfe : f.start f.depth ≤ f.end_ f.depth := by unfold RPos.end_; omega
  obtain ⟨_, hs, _, _⟩ := same_ancestors Rf Rt f.depth (f.start f.depth) (Nat.le_refl _) hle (Nat.le_refl _) hfe
    (by omega) (by omega) f.depth (Nat.le_refl _)
  omega

/-- a resolved position as a position at depth 0 of its parent's children -/
theorem resolved_flatAt {ty0 : TypeId} {a0 : Attrs} {m0 : Marks} {K : List Node} {pos : Nat} {r : RPos}
    (hf : (Node.elem ty0 a0 m0 K).resolve pos = some r) (hp : r.pairOk = true) :
    FlatAt r.parent.kids (pos - r.start r.depth) (r.parent.kids.take (r.index r.depth))
      (r.parent.kids.drop (r.index r.depth)) r.textOffset ∧
    r.start r.depth ≤ pos ∧ r.index r.depth ≤ r.parent.kids.length := by
  have R := resolve_resolved hf
  have E := R.entry r.depth (Nat.le_refl _)
  have hpe : (r.entry r.depth).pos = r.start r.depth + fsize (r.parent.kids.take (r.index r.depth)) := E.pos_eq
  have hple := E.pos_le
  have hto : r.textOffset = pos - (r.entry r.depth).pos := by unfold RPos.textOffset; rw [R.pos_eq]
  refine ⟨⟨(List.take_append_drop _ _).symm, by omega, ?_⟩, by omega, E.idx_le⟩
  by_cases ho : r.textOffset = 0
  · exact .inl ho
  · obtain ⟨s, m, hs, hlt⟩ := R.in_text ho
    obtain ⟨hi, hget⟩ := List.getElem?_eq_some_iff.mp hs
    have hsp : splitOk s r.textOffset = true := by
      simp only [RPos.pairOk, hs, Bool.or_eq_true, decide_eq_true_eq] at hp
      exact hp.resolve_left ho
    refine .inr ⟨s, m, r.parent.kids.drop (r.index r.depth + 1), ?_, hlt, hsp⟩
    rw [List.drop_eq_getElem_cons hi, hget]

/-- **a deletion that fits trivially applies**: `from` and `to` have the same parent, which approved
    `can_replace(index(from), index(to))`; either end may lie inside a text child (not inside a surrogate pair) -/
theorem trivial_delete_applies (S : Schema) (hst : TextStable S) (ty0 : TypeId) (a0 : Attrs) (m0 : Marks)
    (K : List Node) (f t : Nat) (rf rt : RPos)
    (hf : (Node.elem ty0 a0 m0 K).resolve f = some rf) (ht : (Node.elem ty0 a0 m0 K).resolve t = some rt)
    (hv : S.checkNode (.elem ty0 a0 m0 K) = true) (hn : fnorm K = true) (hft : f ≤ t)
    (hpf : rf.pairOk = true) (hpt : rt.pairOk = true)
    (htr : fitsTriviallyR S rf rt Slice.empty = some true) :
    ∃ doc', S.apply (.replace f t Slice.empty false) (.elem ty0 a0 m0 K) = .ok doc' := by
  have Rf := resolve_resolved hf
  have Rt := resolve_resolved ht
  unfold fitsTriviallyR at htr
  split at htr
  · rename_i hc
    simp only [Bool.and_eq_true, beq_iff_eq] at hc
    have hsame0 := hc.2
    have hd : rt.depth = rf.depth := by
      rcases Nat.le_total rf.depth rt.depth with h | h
      · exact (same_start_depth Rf Rt hsame0 h).symm
      · exact same_start_depth Rt Rf hsame0.symm h
    have hsame : rf.start rf.depth = rt.start rf.depth := by
      have := hsame0; rw [hd] at this; exact this
    obtain ⟨hnode, _, _, _⟩ := same_ancestors Rf Rt rf.depth (rf.start rf.depth) (Nat.le_refl _) (by omega)
      (Nat.le_refl _) (by unfold RPos.end_; omega) (by omega) (by unfold RPos.end_; omega) rf.depth (Nat.le_refl _)
    have hpar : rt.parent = rf.parent := by
      unfold RPos.parent; rw [hd]; exact hnode.symm
    obtain ⟨tyP, aP, mP, ctx, eP, hl⟩ := Resolved.lvl hf hn rf.depth (Nat.le_refl _)
    have hty : S.tyOf rf.parent = tyP := by
      show S.tyOf (rf.node rf.depth) = tyP
      rw [eP]; rfl
    obtain ⟨hF, hsf, hif⟩ := resolved_flatAt hf hpf
    obtain ⟨hT, hst', hit⟩ := resolved_flatAt ht hpt
    rw [hpar, ← hsame0] at hT
    rw [hpar] at hit
    rw [← hsame0] at hst'
    have hvK : S.validContent ty0 K = true ∧ S.checkKids K = true := by
      simp only [checkNode_elem, Bool.and_eq_true] at hv
      exact ⟨hv.1.1, hv.2⟩
    obtain ⟨hvL, _, _⟩ := hl.valid hvK.1 hvK.2 hn
    unfold Schema.nodeCanReplace at htr
    split at htr
    · simp at htr
    · rw [hty] at htr
      have hAl : (rf.parent.kids.take (rf.index rf.depth)).length = rf.index rf.depth := by
        rw [List.length_take]; omega
      have hBl : (rf.parent.kids.take (rt.index rt.depth)).length = rt.index rt.depth := by
        rw [List.length_take]; omega
      have hval := flat_delete_valid S hst tyP rf.parent.kids _ _ _ _ rf.textOffset rt.textOffset hF.split hT.split hvL
        (by rw [hAl, hBl]; exact htr)
      obtain ⟨doc', h⟩ := level_delete_applies S (textStable_P hst) ty0 a0 m0 K hv hn hl hF hT (by omega) hval
      have e1 : rf.start rf.depth + (f - rf.start rf.depth) = f := by omega
      have e2 : rf.start rf.depth + (t - rf.start rf.depth) = t := by omega
      rw [e1, e2] at h
      exact ⟨doc', h⟩
  · simp at htr

end PM

namespace PM

/-- **the reduction for the general case** (`replaceKids_undoG` as a statement about `Step.apply`): a replace step
    applies to the document `K'` as soon as a valid document `K` in normal form exists whose cut `[f, t)` is the step's
    slice, which has the same content as `K'` in front of `f` (`LeftRel`) and whose content behind `t` is that of `K'`
    behind `t'`, with `compatible_content` ancestors (`RightRel`) -/
theorem replace_applies_of_result (S : Schema) (ty0 : TypeId) (a0 : Attrs) (m0 : Marks) (K K' : List Node)
    (f t t' : Nat) (sl : Slice)
    (hvc : S.validContent ty0 K = true) (hv : S.checkKids K = true) (hn : fnorm K = true)
    (hn' : fnorm K' = true) (hft : f ≤ t) (ht : t ≤ fsize K) (hft' : f ≤ t')
    (hs : sliceKids K f t = .ok sl) (hL : LeftRel K' K f) (hR : RightRel S K' t' K t) :
    ∃ doc', S.apply (.replace f t' sl false) (.elem ty0 a0 m0 K') = .ok doc' := by
  obtain ⟨X, hX⟩ := replaceKids_undoG S ty0 K K' f t t' sl hvc hv hn hn' hft ht hft' hs hL hR
  exact ⟨.elem ty0 a0 m0 X, by
    simp only [Schema.apply, Bool.false_eq_true, if_false, Schema.fromReplace, Schema.replace, hX, Except.map]⟩

end PM
