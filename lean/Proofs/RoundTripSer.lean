/-
  Proofs/RoundTripSer.lean — the serializer's output for a mark-free document, converted to the abstract DOM of the
  walk, is the canonical DOM of the document; with Proofs/RoundTripDoc.lean: the round trip of mark-free documents.
-/
import Proofs.RoundTripDoc
import Proofs.Dom
namespace PM.RoundTrip
open PM PM.Dom PM.FromDom PM.DomWalk

def htmlOf (S : Schema) (D : ToDom) (univ : List Mark) (k : Node) : Html := serNode (annotate S D univ k)

theorem annotate_marks_nil (S : Schema) (D : ToDom) (univ : List Mark) (k : Node) (h : noMarks k = true) :
    ∃ spec akids, annotate S D univ k = .mk [] spec akids := by
  cases k with
  | text s m =>
    have : m = [] := by simpa [noMarks] using h
    subst this; exact ⟨_, _, by rw [annotate]; rfl⟩
  | leaf t a m =>
    have : m = [] := by simpa [noMarks] using h
    subst this; exact ⟨_, _, by rw [annotate]; rfl⟩
  | elem t a m kids =>
    simp only [noMarks, Bool.and_eq_true] at h
    have : m = [] := by simpa using h.1
    subst this; exact ⟨_, _, by rw [annotate]; rfl⟩

/-- without marks `serialize_fragment` emits the nodes one after the other -/
theorem serFrag_nomarks (S : Schema) (D : ToDom) (univ : List Mark) : ∀ (kids : List Node) (cur : List Html),
    noMarksList kids = true → serFrag (annotateList S D univ kids) [] cur = cur ++ kids.map (htmlOf S D univ)
  | [], cur, _ => by simp [annotateList, serFrag, closeFrames]
  | k :: ks, cur, h => by
    simp only [noMarksList, Bool.and_eq_true] at h
    obtain ⟨spec, akids, ha⟩ := annotate_marks_nil S D univ k h.1
    rw [annotateList, ha, serFrag.eq_2]
    rw [serFrag.keepCount.eq_3 _ _ (by simp) (by simp)]
    simp only [List.length_nil, Nat.sub_self, closeFrames, List.foldl_nil]
    rw [serFrag_nomarks S D univ ks _ h.2]
    simp [htmlOf, ha]


theorem unitsOk_text (s : List Nat) (h : unitsOk s = true) : unitsOfChars (unescape (escape (charsOfUnits s))) = s := by
  rw [unescape_escape']
  simpa [unitsOk] using h

theorem consText_elem (u : List Nat) (hu : u.isEmpty = false) (rest : List DNode)
    (h : ∀ v r, rest ≠ .text (some v) :: r) : consText u rest = .text (some u) :: rest := by
  unfold consText
  split
  · rename_i v r; exact absurd rfl (h v r)
  · simp [hu]

theorem domOf_not_text (R : RParser) (D : ToDom) (k : Node) (hk : k.isText = false) (v : List Nat) : domOf R D k ≠ .text (some v) := by
  cases k with
  | text s m => simp [Node.isText] at hk
  | leaf t a m => rw [domOf]; split <;> simp [elemDom]
  | elem t a m kids => rw [domOf]; split <;> simp [elemDom]

/-- the attributes `render_spec` puts on the element -/
def rAttrs (sattrs : List (List Char × Option (List Char))) : List (List Char × List Char) :=
  sattrs.filterMap (fun (k, v) => v.map (fun x => (k, x)))

mutual
theorem ser_dom_node (R : RParser) (D : ToDom) (univ : List Mark) : ∀ (k : Node) (opts : Opts) (pt : TypeId),
    k.isText = false → noMarks k = true → nodeOk R D opts pt k = true → k.norm = true →
    ∃ name attrs hk, htmlOf R.P.S D univ k = .el name attrs hk ∧ toDom R.sel (.el name attrs hk) = domOf R D k
  | .text s m, _, _, ht, _, _, _ => by simp [Node.isText] at ht
  | .leaf t a m, opts, pt, _, hnm, hok, _ => by
    have hm0 : m = [] := by simpa [noMarks] using hnm
    subst hm0
    rw [nodeOk] at hok
    simp only [Bool.and_eq_true] at hok
    cases hl : leafRule R D t a with
    | none => rw [hl] at hok; simp at hok
    | some tag =>
      obtain ⟨name, sattrs, pw, hd, _, _⟩ := leafRule_cases R D t a tag hl
      refine ⟨name, rAttrs sattrs, [], ?_, ?_⟩
      · simp only [htmlOf, annotate, hd, serNode, renderSpec, renderSpecs, rAttrs]
      · simp only [toDom, toDomList, domOf, hd, elemDom, renderedAttrs, ite_self, rAttrs]
  | .elem t a m kids, opts, pt, _, hnm, hok, hnorm => by
    simp only [noMarks, Bool.and_eq_true] at hnm
    have hm0 : m = [] := by simpa using hnm.1
    subst hm0
    rw [nodeOk] at hok
    simp only [Bool.and_eq_true, Bool.not_eq_true'] at hok
    obtain ⟨_, hrest⟩ := hok
    rw [Node.norm] at hnorm
    simp only [Bool.and_eq_true] at hnorm
    cases her : elemRule R D t a with
    | none => rw [her] at hrest; cases hrest
    | some p =>
      obtain ⟨tag, pw⟩ := p
      rw [her] at hrest
      simp only [Bool.and_eq_true] at hrest
      obtain ⟨⟨⟨⟨⟨hko, _⟩, _⟩, _⟩, _⟩, _⟩ := hrest
      have hfill : serFrag (annotateList R.P.S D univ kids) [] [] = kids.map (htmlOf R.P.S D univ) := by
        rw [serFrag_nomarks R.P.S D univ kids [] hnm.2]; rfl
      have ih := ser_dom_list R D univ kids _ t none hnm.2 hko hnorm.1 hnorm.2
      rcases elemRule_cases R D t a tag pw her with ⟨name, sattrs, hd, hsc, _, _⟩ |
          ⟨name, sattrs, name2, sattrs2, hd, hsc, _, htr, _, _⟩
      · refine ⟨name, rAttrs sattrs, kids.map (htmlOf R.P.S D univ), ?_, ?_⟩
        · simp only [htmlOf, annotate, hd, serNode, renderSpec, hfill, rAttrs]
        · simp only [toDom, hsc, Bool.false_eq_true, if_false, ih, domOf, hd, elemDom, renderedAttrs, rAttrs]
      · obtain ⟨_, hsc2, _, _, _⟩ := transparent_cases R t name2 sattrs2 htr
        refine ⟨name, rAttrs sattrs, [.el name2 (rAttrs sattrs2) (kids.map (htmlOf R.P.S D univ))], ?_, ?_⟩
        · simp only [htmlOf, annotate, hd, serNode, renderSpec, renderSpecs, hfill, rAttrs]
        · simp only [toDom, toDomList, hsc, hsc2, Bool.false_eq_true, if_false, ih, domOf, hd, elemDom, renderedAttrs, rAttrs]
theorem ser_dom_list (R : RParser) (D : ToDom) (univ : List Mark) : ∀ (kids : List Node) (opts : Opts) (pt : TypeId)
    (prev : Option (Node × String)),
    noMarksList kids = true → kidsOk R D opts pt prev kids = true → fnormKids kids = true → chainOk kids = true →
    toDomList R.sel (kids.map (htmlOf R.P.S D univ)) = domOfList R D kids
  | [], _, _, _, _, _, _, _ => by simp [toDomList, domOfList]
  | k :: ks, opts, pt, prev, hnm, hok, hfn, hch => by
    unfold kidsOk at hok
    simp only [Bool.and_eq_true] at hok
    obtain ⟨⟨htx, hnk⟩, hoks⟩ := hok
    simp only [noMarksList, Bool.and_eq_true] at hnm
    rw [fnormKids] at hfn
    simp only [Bool.and_eq_true] at hfn
    have hch2 : chainOk ks = true := by
      cases ks with
      | nil => rfl
      | cons k2 ks2 => rw [chainOk] at hch; simp only [Bool.and_eq_true] at hch; exact hch.2
    have ih := ser_dom_list R D univ ks opts pt _ hnm.2 hoks hfn.2 hch2
    cases k with
    | text s m =>
      have hm0 : m = [] := by simpa [noMarks] using hnm.1
      subst hm0
      simp only at htx
      unfold textOk at htx
      simp only [Bool.and_eq_true, Bool.not_eq_true'] at htx
      have hhtml : htmlOf R.P.S D univ (.text s []) = .text (escape (charsOfUnits s)) := by
        simp only [htmlOf, annotate, serNode, renderSpec]
      rw [List.map_cons, hhtml, toDomList, ih, unitsOk_text s htx.1.1, domOfList, domOf]
      apply consText_elem s htx.1.2
      intro v r he
      cases ks with
      | nil => simp [domOfList] at he
      | cons k2 ks2 =>
        rw [domOfList] at he
        simp only [List.cons.injEq] at he
        have hk2 : k2.isText = false := by
          rw [chainOk] at hch
          simp only [Bool.and_eq_true] at hch
          cases k2 with
          | text s2 m2 =>
            have hm2 : m2 = [] := by
              simp only [noMarksList, Bool.and_eq_true] at hnm
              simpa [noMarks] using hnm.2.1
            subst hm2
            simp [adjOk] at hch
          | leaf => rfl
          | elem => rfl
        exact domOf_not_text R D k2 hk2 v he.1
    | leaf t a m =>
      obtain ⟨name, attrs, hk, hh, hd⟩ := ser_dom_node R D univ (.leaf t a m) opts pt rfl hnm.1 hnk hfn.1
      rw [List.map_cons, hh, toDomList, ih, hd, domOfList]
    | elem t a m kids =>
      obtain ⟨name, attrs, hk, hh, hd⟩ := ser_dom_node R D univ (.elem t a m kids) opts pt rfl hnm.1 hnk hfn.1
      rw [List.map_cons, hh, toDomList, ih, hd, domOfList]
end

/-- **export then import is the identity on mark-free documents** -/
theorem roundtrip_markfree_core (R : RParser) (D : ToDom) (doc : Node) (h : rtOk R D doc = true) (hnm : noMarks doc = true) :
    roundTrip R D doc = .ok doc := by
  have h0 := h
  unfold rtOk at h
  simp only [Bool.and_eq_true] at h
  obtain ⟨⟨_, hnorm⟩, hdoc⟩ := h
  cases doc with
  | text s m => cases hdoc
  | leaf t a m => cases hdoc
  | elem t a ms kids =>
    simp only [Bool.and_eq_true] at hdoc
    obtain ⟨⟨⟨_, hko⟩, _⟩, _⟩ := hdoc
    simp only [noMarks, Bool.and_eq_true] at hnm
    rw [Node.norm] at hnorm
    simp only [Bool.and_eq_true] at hnorm
    unfold roundTrip serializeDoc
    simp only [Node.kids]
    rw [serFrag_nomarks R.P.S D _ kids [] hnm.2, List.nil_append,
      ser_dom_list R D _ kids {} t none hnm.2 hko hnorm.1 hnorm.2]
    exact parse_canonical R D (.elem t a ms kids) h0 (by simp [noMarks, hnm.1, hnm.2]) _

end PM.RoundTrip
