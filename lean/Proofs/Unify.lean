/-
  Proofs/Unify.lean — glue between the copies of one library function that different work packages
  modelled independently.  Each copy is tied to the real code on its own; the equations here make a
  theorem proved about one copy a theorem about the code path that goes through another.

  | Python function                      | copies related here                                                        |
  |--------------------------------------|-----------------------------------------------------------------------------|
  | `ContentMatch.fill_before`           | `fillBefore` (PM/Fill) = `fillBeforeTypes` (PM/FillOrder; now *defined* by it) |
  | `ContentMatch.find_wrapping`         | `findWrapping` (PM/Fill) = `findWrappingTypes` (PM/FillOrder) on schemas whose edge labels are node types |
  | `Node(type, attrs, content, marks)`  | `Schema.mkNode` (PM/CreateFill), `Schema.mkNodeO` (PM/FillOrder), `FromDom.mkNode` |
  | `NodeType.create(attrs, None, marks)`| `Schema.createNode` (PM/TypePlan), `Schema.createNodeO` (PM/Fitter), `Schema.recreate` (PM/Step) |
  | `NodeType.create_and_fill()`         | `Schema.createAndFill … [] [] []` (PM/CreateFill), `createAndFill` (PM/FillOrder), `Schema.createAndFill0` (PM/TypePlan), `FromDom.createAndFill` |
  | `fits_trivially`                     | `fitsTriviallyR`/`fitsTriviallyO` (PM/RangeOps), `fitsTrivially` (PM/TypePlan) |
  | `can_change_type`                    | `canChangeType` (PM/Structure2), `canChangeTypeR` (PM/TypePlan)             |
  | `node.is_textblock`                  | `Schema.isTextblock` (PM/Structure2), `Schema.isTextblockN` (PM/TypePlan), `Schema.isTextblockO` (PM/Fitter) |

  | `pos_.node_after` / `node_before`    | `RPos.nodeAfter`/`nodeBefore` (PM/Resolve) = `.join` of `RPos.nodeAfterR`/`nodeBeforeR` (PM/Structure2) |
  | `pos_.after(d)`                      | `RPos.after` (PM/Resolve), `RPos.afterT` (PM/StructEdit)                    |
  | `str.isspace`                        | `FromDom.isPySpace` = `SchemaCompile.isPySpace`                             |

  (the text-stability conditions are in Proofs/UnifyText.lean, which needs the heavier imports).
  `insert_point`: PM/ReplaceRange.lean calls `insertPointR` of PM/Structure2.lean — one copy only.
  Already related elsewhere: `nodesBetweenP` ~ `nodesBetween` (Proofs/MarkPlan.lean), `sliceToks'` =
  `Slice.toks` (Proofs/Respects.lean).
-/
import PM.Fill
import PM.FillOrder
import PM.CreateFill
import PM.TypePlan
import PM.Fitter
import PM.FromDom
import PM.RangeOps
import PM.Structure2
import PM.StructEdit
import PM.SchemaCompile
import Proofs.DfaRun
import Proofs.FillOrder
import Proofs.Fill
import Proofs.Wrap
import Proofs.CreateFill
namespace PM

/-! ## `fill_before` -/

-- `fillBeforeTypes_eq` (the filler search of the Fitter / planners **is** the search of C15) is proved in
-- Proofs/FillOrder.lean, by induction over the fuel.

/-- every type the filler search returns passed the `gen` test (no determinism needed for this half
    of `isFill`) -/
theorem fillSearch_all_gen (d : Dfa) (gen : TypeId → Bool) (after : List TypeId) (toEnd : Bool) :
    (∀ (fuel q : Nat) (types : List TypeId) (seen : List Nat),
      ∀ r seen', fillSearch d gen after toEnd fuel q types seen = (some r, seen') →
        (∀ x ∈ types, gen x = true) → ∀ x ∈ r, gen x = true) ∧
    (∀ (fuel : Nat) (edges : List (TypeId × Nat)) (types : List TypeId) (seen : List Nat),
      ∀ r seen', fillEdges d gen after toEnd fuel edges types seen = (some r, seen') →
        (∀ x ∈ types, gen x = true) → ∀ x ∈ r, gen x = true) := by
  apply fillSearch.mutual_induct d gen after toEnd
  · intro q types seen r seen' h
    simp [fillSearch] at h
  · intro fuel q types seen finished hfin r seen' h
    rw [fillSearch.eq_2, if_pos hfin] at h
    simp only [Prod.mk.injEq, Option.some.injEq] at h
    intro ht
    rw [← h.1]; exact ht
  · intro fuel q types seen finished hfin ih r seen' h
    rw [fillSearch.eq_2, if_neg hfin] at h
    exact ih r seen' h
  · intro fuel types seen r seen' h
    simp [fillEdges] at h
  · intro fuel t nxt rest types seen hc r0 seen0 hs ih r seen' h
    rw [fillEdges.eq_2, if_pos hc, hs] at h
    simp only [Prod.mk.injEq, Option.some.injEq] at h
    intro ht
    simp only [Bool.and_eq_true] at hc
    rw [← h.1]
    refine ih r0 seen0 hs ?_
    intro x hx
    rcases List.mem_append.1 hx with hx | hx
    · exact ht x hx
    · simp only [List.mem_singleton] at hx
      rw [hx]; exact hc.1
  · intro fuel t nxt rest types seen hc seen0 hs _ ih r seen' h
    rw [fillEdges.eq_2, if_pos hc, hs] at h
    exact ih r seen' h
  · intro fuel t nxt rest types seen hc ih r seen' h
    rw [fillEdges.eq_2, if_neg hc] at h
    exact ih r seen' h

theorem fillBefore_all_gen (d : Dfa) (gen : TypeId → Bool) (q : Nat) (after : List TypeId) (toEnd : Bool)
    (fill : List TypeId) (h : fillBefore d gen q after toEnd = some fill) : ∀ x ∈ fill, gen x = true := by
  unfold fillBefore at h
  rcases hs : fillSearch d gen after toEnd (d.size + 1) q [] [q] with ⟨r, seen'⟩
  rw [hs] at h
  simp only at h
  subst h
  exact (fillSearch_all_gen d gen after toEnd).1 _ _ _ _ _ _ hs (by simp)

/-! ## `find_wrapping`

  `wrapSearchO` (PM/FillOrder) and `wrapSearch` (PM/Fill) are the same breadth-first search over two
  item types (`WrapItem` has `ty : Option TypeId`, `Active` has `dfaOf` + `root`); `findWrappingTypes`
  gives it `#types + 2` iterations, `findWrapping` gives `#types² + #types + 2`.  Both are more than
  the search ever uses when every edge label is a node type of the schema. -/

/-- the `Active` item a `WrapItem` stands for -/
-- `WrapItem.toActive` is defined in Proofs/FillOrder.lean

theorem WrapItem.toActive_dfa (S : Schema) (root : Dfa) (w : WrapItem) :
    w.toActive.dfa S root = (match w.ty with | none => root | some t => S.dfa t) := by
  unfold WrapItem.toActive Active.dfa
  cases w.ty <;> simp

theorem wrapEdges_eq (S : Schema) (d : Dfa) (cur : WrapItem) :
    ∀ (es : List (TypeId × Nat)) (seen : List TypeId),
      (wrapEdges S d cur es seen).1.map WrapItem.toActive = (wrapExpand S d cur.toActive es seen).1 ∧
      (wrapEdges S d cur es seen).2 = (wrapExpand S d cur.toActive es seen).2
  | [], seen => by simp [wrapEdges, wrapExpand]
  | (t, nxt) :: rest, seen => by
    rw [wrapEdges, wrapExpand]
    have hroot : cur.toActive.root = cur.ty.isNone := rfl
    have hchain : cur.toActive.chain = cur.chain := rfl
    simp only [hroot, hchain]
    split
    · obtain ⟨i1, i2⟩ := wrapEdges_eq S d cur rest (t :: seen)
      simp only [List.map_cons, i1, i2]
      exact ⟨by simp [WrapItem.toActive], trivial⟩
    · exact wrapEdges_eq S d cur rest seen

/-- the two breadth-first searches run in lock step -/
theorem wrapSearchO_eq (S : Schema) (root : Dfa) (target : TypeId) :
    ∀ (fuel : Nat) (queue : List WrapItem) (seen : List TypeId),
      wrapSearchO S root target fuel queue seen =
        wrapSearch S root target fuel (queue.map WrapItem.toActive) seen
  | 0, _, _ => by simp [wrapSearchO, wrapSearch]
  | _ + 1, [], _ => by simp [wrapSearchO, wrapSearch]
  | fuel + 1, cur :: queue, seen => by
    rw [wrapSearchO, List.map_cons, wrapSearch.eq_3]
    have hstate : cur.toActive.state = cur.state := rfl
    have hchain : cur.toActive.chain = cur.chain := rfl
    have key : ∀ D : Dfa, cur.toActive.dfa S root = D →
        (if (D.matchType cur.state target).isSome = true then some cur.chain
         else wrapSearchO S root target fuel (queue ++ (wrapEdges S D cur (D.edgesOf cur.state) seen).1)
           (wrapEdges S D cur (D.edgesOf cur.state) seen).2) =
        (if ((cur.toActive.dfa S root).matchType cur.toActive.state target).isSome = true
         then some cur.toActive.chain
         else wrapSearch S root target fuel
           (List.map WrapItem.toActive queue ++
             (wrapExpand S (cur.toActive.dfa S root) cur.toActive
               ((cur.toActive.dfa S root).edgesOf cur.toActive.state) seen).1)
           (wrapExpand S (cur.toActive.dfa S root) cur.toActive
               ((cur.toActive.dfa S root).edgesOf cur.toActive.state) seen).2) := by
      intro D hD
      rw [hD, hstate, hchain]
      by_cases hm : (D.matchType cur.state target).isSome = true
      · rw [if_pos hm, if_pos hm]
      · rw [if_neg hm, if_neg hm]
        obtain ⟨e1, e2⟩ := wrapEdges_eq S D cur (D.edgesOf cur.state) seen
        rw [wrapSearchO_eq S root target fuel, List.map_append, e1, e2]
    exact key _ (WrapItem.toActive_dfa S root cur)

/-- every queued item looks at edges labelled with types below `n` -/
def QBound (S : Schema) (d : Dfa) (n : Nat) (queue : List Active) : Prop :=
  ∀ a ∈ queue, ∀ e ∈ (a.dfa S d).edgesOf a.state, e.1 < n

/-- **the fuel of the wrapper search is only a guard**: any two amounts that cover the unseen types and
    the queue give the same answer -/
theorem wrapSearch_fuel_irrel (S : Schema) (d : Dfa) (target : TypeId) (n : Nat)
    (hstart : ∀ w, ∀ e ∈ (S.dfa w).edgesOf 0, e.1 < n) :
    ∀ (fuel fuel' : Nat) (queue : List Active) (seen : List TypeId),
      QBound S d n queue → unseen n seen + queue.length ≤ fuel → unseen n seen + queue.length ≤ fuel' →
      wrapSearch S d target fuel queue seen = wrapSearch S d target fuel' queue seen
  | 0, fuel', queue, seen, _, hf, _ => by
    have hq : queue = [] := by
      rcases queue with _ | ⟨a, l⟩
      · rfl
      · simp at hf
    subst hq
    cases fuel' <;> simp [wrapSearch]
  | fuel + 1, 0, queue, seen, _, _, hf' => by
    have hq : queue = [] := by
      rcases queue with _ | ⟨a, l⟩
      · rfl
      · simp at hf'
    subst hq
    simp [wrapSearch]
  | fuel + 1, fuel' + 1, [], seen, _, _, _ => by simp [wrapSearch]
  | fuel + 1, fuel' + 1, cur :: rest, seen, hb, hf, hf' => by
    rw [wrapSearch.eq_3, wrapSearch.eq_3]
    split
    · rfl
    · have hcur : ∀ e ∈ (cur.dfa S d).edgesOf cur.state, e.1 < n := hb cur (by simp)
      have hu := wrapExpand_unseen S (cur.dfa S d) cur n ((cur.dfa S d).edgesOf cur.state) seen hcur
      obtain ⟨_, e2, _, _⟩ := wrapExpand_spec S (cur.dfa S d) cur ((cur.dfa S d).edgesOf cur.state) seen
      refine wrapSearch_fuel_irrel S d target n hstart fuel fuel' _ _ ?_ ?_ ?_
      · intro a ha
        rcases List.mem_append.1 ha with ha | ha
        · exact hb a (List.mem_cons_of_mem _ ha)
        · obtain ⟨a1, a2, _, _⟩ := e2 a ha
          have : a.dfa S d = S.dfa a.dfaOf := by simp [Active.dfa, a1]
          rw [this, a2]
          exact hstart a.dfaOf
      · simp only [List.length_cons, List.length_append] at hf ⊢
        omega
      · simp only [List.length_cons, List.length_append] at hf' ⊢
        omega

/-- **`find_wrapping` of the Fitter = `find_wrapping` of C15**, when the edge labels the search can
    meet (at the asked position and at the start of every node type's automaton) are node types of the
    schema — `C15.WrapWF`, which every compiled schema satisfies.  (Without it the two amounts of fuel
    can tell them apart: out-of-range labels count as wrappable types, so more than `#types + 1` items
    may be queued; neither copy describes the code there, which has no such schemas.) -/
theorem findWrappingTypes_eq (S : Schema) (d : Dfa) (q : Nat)
    (hroot : ∀ e ∈ d.edgesOf q, e.1 < S.nodes.size)
    (hstart : ∀ w, ∀ e ∈ (S.dfa w).edgesOf 0, e.1 < S.nodes.size) (target : TypeId) :
    findWrappingTypes S d q target = findWrapping S d q target := by
  unfold findWrappingTypes findWrapping
  rw [wrapSearchO_eq]
  have hle := unseen_le S.nodes.size []
  refine wrapSearch_fuel_irrel S d target S.nodes.size hstart _ _ _ _ ?_ ?_ ?_
  · intro a ha
    simp only [List.map_cons, List.map_nil, List.mem_singleton] at ha
    subst ha
    exact hroot
  · simp only [List.map_cons, List.map_nil, List.length_cons, List.length_nil]; omega
  · simp only [List.map_cons, List.map_nil, List.length_cons, List.length_nil]
    have : 0 ≤ S.nodes.size * S.nodes.size := Nat.zero_le _
    omega

/-! ## `Node(type, attrs, content, marks)` and `NodeType.create`

  The model's `Node` records leaf-ness in the constructor, so building a node from a type id has to
  choose one.  `Schema.mkNodeO` / `FromDom.mkNode` choose by the type alone, `Schema.mkNode` also looks
  at the content.  They differ only for a leaf type given non-empty content — an object the real code
  can build (`NodeType.create` does not check) but the model's `Node` cannot hold either way; the
  callers only reach it on a schema where a leaf type's automaton is not the empty one, which
  `Schema.__init__` never produces (`is_leaf` *is* `content_match == ContentMatch.empty`). -/

theorem FromDom.mkNode_eq (S : Schema) (t : TypeId) (a : Attrs) (m : Marks) (k : List Node) :
    FromDom.mkNode S t a m k = S.mkNodeO t a m k := rfl

theorem mkNodeO_eq_mkNode (S : Schema) (t : TypeId) (a : Attrs) (m : Marks) (k : List Node)
    (h : (S.nodeType t).isLeaf = true → k = []) : S.mkNodeO t a m k = S.mkNode t a m k := by
  unfold Schema.mkNodeO Schema.mkNode
  cases hl : (S.nodeType t).isLeaf
  · simp
  · simp [h hl]

/-- the two really differ exactly there -/
theorem mkNodeO_ne_mkNode (S : Schema) (t : TypeId) (a : Attrs) (m : Marks) (c : Node) (k : List Node)
    (h : (S.nodeType t).isLeaf = true) : S.mkNodeO t a m (c :: k) ≠ S.mkNode t a m (c :: k) := by
  simp [Schema.mkNodeO, Schema.mkNode, h]

/-- `NodeType.create(attrs, None, marks)` of the planners, through `Schema.mkNode` -/
theorem createNode_eq_mkNode (S : Schema) (ty : TypeId) (attrs : Attrs) (marks : Marks) :
    S.createNode ty attrs marks =
      if (S.nodeType ty).isText then .error .valueError
      else (computeAttrs (S.nodeType ty).attrs attrs).map (fun a => S.mkNode ty a (setFrom marks) []) := by
  unfold Schema.createNode Schema.mkNode
  simp

/-- outcome of the Fitter's monad for a planner outcome: every exception is `.raises` -/
def resToFM {α : Type} : Res α → FM α
  | .ok a => .ok a
  | .error _ => .error .raises

/-- `type.create(attrs)` of the Fitter (no content) = `NodeType.create(attrs, None, [])` of the planners -/
theorem createNodeO_eq_createNode (S : Schema) (ty : TypeId) (attrs : Option Attrs) :
    S.createNodeO ty attrs [] = resToFM (S.createNode ty (attrs.getD []) []) := by
  have hs : setFrom [] = [] := by simp [setFrom]
  unfold Schema.createNodeO Schema.createNode Schema.mkNodeO
  cases hT : (S.nodeType ty).isText
  · cases hc : computeAttrs (S.nodeType ty).attrs (attrs.getD []) <;>
      simp [hT, hc, hs, resToFM, Except.map, pure, Except.pure, throw, throwThe, MonadExceptOf.throw]
  · simp [hT, resToFM, throw, throwThe, MonadExceptOf.throw]

/-- the constructor of a node agrees with what the schema says about its type -/
def ShapeOk (S : Schema) (n : Node) : Prop :=
  (S.nodeType (S.tyOf n)).isText = n.isText ∧
  (n.isText = false → (S.nodeType (S.tyOf n)).isLeaf = n.isLeaf)

instance (S : Schema) (n : Node) : Decidable (ShapeOk S n) := by unfold ShapeOk; exact inferInstance

/-- `node.type.create(attrs, None, marks)` of the node-markup steps = `NodeType.create` of the planners
    on the node's type, for a node whose constructor agrees with the schema (a leaf type on an element
    node, or a non-text node of the text type, is where they part: `recreate` keeps the constructor) -/
theorem recreate_eq_createNode (S : Schema) (n : Node) (hn : ShapeOk S n) (attrs : Attrs) (marks : Marks) :
    S.recreate n attrs marks = S.createNode (S.tyOf n) attrs marks := by
  obtain ⟨h1, h2⟩ := hn
  unfold Schema.recreate Schema.createNode
  cases n with
  | text s m =>
    simp only [Node.isText] at h1
    simp [h1]
  | leaf t a m =>
    simp only [Node.isText, Schema.tyOf, Node.tyOr, Node.isLeaf] at h1 h2
    simp [Schema.tyOf, Node.tyOr, h1, h2 trivial]
  | elem t a m k =>
    simp only [Node.isText, Schema.tyOf, Node.tyOr, Node.isLeaf] at h1 h2
    simp [Schema.tyOf, Node.tyOr, h1, h2 trivial]

/-! ## `fits_trivially`, `can_change_type`, `is_textblock` -/

/-- outcome of a planner for an outcome of the position-level models (`none` = the code raises; the
    only exception these raise is the `ValueError` of `content_match_at` / `resolve`) -/
def optToRes {α : Type} : Option α → Res α
  | some a => .ok a
  | none => .error .valueError

theorem fitsTrivially_eq (S : Schema) (rf rt : RPos) (sl : Slice) :
    fitsTrivially S rf rt sl = optToRes (fitsTriviallyR S rf rt sl) := by
  unfold fitsTrivially fitsTriviallyR
  split
  · cases S.nodeCanReplace rf.parent (rf.index rf.depth) (rt.index rt.depth) sl.content <;> rfl
  · rfl

/-- `fits_trivially(doc.resolve(f), doc.resolve(t), slice)` both ways -/
theorem fitsTriviallyO_eq (S : Schema) (doc : Node) (f t : Nat) (sl : Slice) (rf rt : RPos)
    (hf : doc.resolve f = some rf) (ht : doc.resolve t = some rt) :
    optToRes (fitsTriviallyO S doc f t sl) = fitsTrivially S rf rt sl := by
  unfold fitsTriviallyO
  rw [hf, ht, fitsTrivially_eq]

theorem canChangeTypeR_eq (S : Schema) (doc : Node) (pos : Nat) (ty : TypeId) :
    canChangeTypeR S doc pos ty = optToRes (canChangeType S doc pos ty) := by
  unfold canChangeTypeR canChangeType
  cases doc.resolve pos with
  | none => rfl
  | some r =>
    simp only
    cases S.nodeCanReplaceWith r.parent (r.index r.depth) (r.index r.depth + 1) ty <;> rfl

theorem isTextblockO_eq (S : Schema) (n : Node) : S.isTextblockO (S.tyOf n) = S.isTextblock n := rfl

/-- the planners' `is_textblock` answers `False` for a text node outright, `Schema.isTextblock` asks the
    text type — which is inline in every schema (`is_block = not (inline or name == "text")`) -/
theorem isTextblockN_eq (S : Schema) (n : Node)
    (h : n.isText = true → (S.nodeType S.textTy).isInline = true) :
    S.isTextblockN n = S.isTextblock n := by
  cases n with
  | text s m =>
    have := h rfl
    simp [Schema.isTextblockN, Schema.isTextblock, Schema.tyOf, Node.tyOr, this]
  | leaf t a m => rfl
  | elem t a m k => rfl

/-! ## `NodeType.create_and_fill()` (no arguments)

  Four models: the general `Schema.createAndFill fuel t attrs content marks : Built` of PM/CreateFill.lean
  (all outcomes explicit), and three argument-less ones that only say "a node or not":
  `createAndFill` (PM/FillOrder, for the Fitter), `Schema.createAndFill0` (PM/TypePlan, for
  `clear_incompatible`), `FromDom.createAndFill` (PM/FromDom, for the parser; it keeps the exception). -/

/-- planners' copy = Fitter's copy, for every fuel and type -/
theorem createAndFill0_eq (S : Schema) : ∀ (fuel : Nat) (t : TypeId),
    S.createAndFill0 fuel t = createAndFill S fuel t
  | 0, _ => rfl
  | fuel + 1, t => by
    have ih : S.createAndFill0 fuel = createAndFill S fuel := funext (createAndFill0_eq S fuel)
    rw [Schema.createAndFill0, createAndFill, ih]
    simp only [fillBeforeTypes_eq, Schema.mkNodeO]
    rfl

theorem mapM_option_forall' {α β : Type} (f : α → Option β) (P : β → Prop)
    (hf : ∀ a b, f a = some b → P b) :
    ∀ (l : List α) (r : List β), l.mapM f = some r → ∀ b ∈ r, P b
  | [], r, h, b, hb => by
    simp only [List.mapM_nil, pure, Option.some.injEq] at h
    subst h; simp at hb
  | a :: l, r, h, b, hb => by
    rw [List.mapM_cons] at h
    cases hfa : f a with
    | none => simp [hfa] at h
    | some x =>
      cases hl : l.mapM f with
      | none => simp [hfa, hl] at h
      | some xs =>
        simp only [hfa, hl, bind, Option.bind, pure, Option.some.injEq] at h
        subst h
        rcases List.mem_cons.mp hb with rfl | hm
        · exact hf a _ hfa
        · exact mapM_option_forall' f P hf l xs hl b hm

theorem mapM_option_pairs {α β : Type} (f : α → Option β) :
    ∀ (l : List α) (r : List β), l.mapM f = some r →
      r.length = l.length ∧ ∀ p, p ∈ l.zip r → f p.1 = some p.2
  | [], r, h => by
    simp only [List.mapM_nil, pure, Option.some.injEq] at h
    subst h; simp
  | a :: l, r, h => by
    rw [List.mapM_cons] at h
    cases hfa : f a with
    | none => simp [hfa] at h
    | some x =>
      cases hl : l.mapM f with
      | none => simp [hfa, hl] at h
      | some xs =>
        simp only [hfa, hl, bind, Option.bind, pure, Option.some.injEq] at h
        subst h
        obtain ⟨i1, i2⟩ := mapM_option_pairs f l xs hl
        refine ⟨by simp [i1], ?_⟩
        intro p hp
        simp only [List.zip_cons_cons, List.mem_cons] at hp
        rcases hp with rfl | hp
        · exact hfa
        · exact i2 p hp

theorem mapRes_toOption {α β : Type} (f : α → Res β) : ∀ (l : List α),
    (FromDom.mapRes f l).toOption = l.mapM (fun a => (f a).toOption)
  | [] => rfl
  | a :: l => by
    rw [FromDom.mapRes, List.mapM_cons, ← mapRes_toOption f l]
    cases hf : f a with
    | error e => rfl
    | ok b => cases hl : FromDom.mapRes f l <;> rfl

/-- parser's copy, forgetting which exception = Fitter's copy -/
theorem FromDom.createAndFill_toOption (S : Schema) : ∀ (fuel : Nat) (t : TypeId),
    (FromDom.createAndFill S fuel t).toOption = PM.createAndFill S fuel t
  | 0, _ => rfl
  | fuel + 1, t => by
    have ih : (fun a => (FromDom.createAndFill S fuel a).toOption) = PM.createAndFill S fuel :=
      funext (FromDom.createAndFill_toOption S fuel)
    rw [FromDom.createAndFill, PM.createAndFill]
    cases hc : computeAttrs (S.nodeType t).attrs [] with
    | error e => rfl
    | ok attrs =>
      simp only [fillBeforeTypes_eq]
      cases hf : fillBefore (S.dfa t) S.generatable 0 [] true with
      | none => rfl
      | some tys =>
        simp only
        rw [← ih, ← mapRes_toOption (FromDom.createAndFill S fuel) tys]
        cases hr : FromDom.mapRes (FromDom.createAndFill S fuel) tys <;> rfl

/-- the parser's `fill_before` nodes, forgetting which exception = the Fitter's -/
theorem FromDom.fillNodes_toOption (S : Schema) (d : Dfa) (q : Nat) (after : List TypeId) (toEnd : Bool) :
    (FromDom.fillNodes S d q after toEnd).toOption = fillBeforeNodes S d q after toEnd := by
  unfold FromDom.fillNodes fillBeforeNodes
  simp only [fillBeforeTypes_eq]
  cases hf : fillBefore d S.generatable q after toEnd with
  | none => rfl
  | some tys =>
    simp only
    have ih : (fun a => (FromDom.createAndFill S (S.nodes.size + 1) a).toOption) =
        PM.createAndFill S (S.nodes.size + 1) := funext (FromDom.createAndFill_toOption S _)
    rw [← ih, ← mapRes_toOption (FromDom.createAndFill S (S.nodes.size + 1)) tys]
    cases hr : FromDom.mapRes (FromDom.createAndFill S (S.nodes.size + 1)) tys <;> rfl

/-- "a node or not" of an explicit outcome -/
def Built.toOption : Built → Option Node
  | .node n => some n
  | _ => none

theorem Built.toOption_eq_some {b : Built} {n : Node} : b.toOption = some n ↔ b = .node n := by
  cases b <;> simp [Built.toOption]

/-- the comprehension `[tp.create_and_fill() for tp in types]` against `mapM` of the option-valued copy -/
theorem fillNodesWith_mapM (mk : TypeId → Built) (f : TypeId → Option Node) : ∀ (tys : List TypeId),
    (∀ tp ∈ tys, f tp = (mk tp).toOption) →
    match tys.mapM f with
    | some kids => fillNodesWith mk tys = .ok (kids.map some)
    | none => ∀ opts, fillNodesWith mk tys = .ok opts → opts.mapM id = none
  | [], _ => by simp [fillNodesWith]
  | tp :: rest, h => by
    have ih := fillNodesWith_mapM mk f rest (fun x hx => h x (List.mem_cons_of_mem _ hx))
    have htp := h tp (by simp)
    rw [List.mapM_cons, fillNodesWith]
    cases hmk : mk tp with
    | node n =>
      rw [hmk] at htp
      simp only [htp, Built.toOption]
      cases hr : rest.mapM f with
      | some kids =>
        rw [hr] at ih
        simp [ih, Except.map]
      | none =>
        rw [hr] at ih
        simp only [bind, Option.bind]
        intro opts ho
        rcases hn : fillNodesWith mk rest with e | opts'
        · simp [hn, Except.map] at ho
        · simp only [hn, Except.map, Except.ok.injEq] at ho
          subst ho
          simp [ih opts' hn]
    | nothing =>
      rw [hmk] at htp
      simp only [htp, Built.toOption, bind, Option.bind]
      intro opts ho
      rcases hn : fillNodesWith mk rest with e | opts'
      · simp [hn, Except.map] at ho
      · simp only [hn, Except.map, Except.ok.injEq] at ho
        subst ho
        simp
    | raises e => rw [hmk] at htp; simp [htp, Built.toOption, bind, Option.bind]
    | textType => rw [hmk] at htp; simp [htp, Built.toOption, bind, Option.bind]
    | outOfFuel => rw [hmk] at htp; simp [htp, Built.toOption, bind, Option.bind]

theorem createAndFill_notText (S : Schema) (fuel : Nat) (t : TypeId) (n : Node)
    (h : createAndFill S fuel t = some n) : n.isText = false := by
  cases fuel with
  | zero => simp [createAndFill] at h
  | succ fuel =>
    rw [createAndFill] at h
    split at h
    · simp at h
    · split at h
      · simp at h
      · split at h
        · simp at h
        · simp only [Option.some.injEq] at h
          subst h
          unfold Schema.mkNodeO
          split <;> rfl

theorem fillBefore_nil_of_validEnd (d : Dfa) (gen : TypeId → Bool) (q : Nat)
    (h : d.validEnd q = true) : fillBefore d gen q [] true = some [] := by
  simp [fillBefore, fillSearch, Dfa.run, h]

/-- **the argument-less copies = the general model called without arguments**, outcome by outcome
    (a node exactly when the general model builds that node; `None`, an exception and running out of
    fuel are all "no node").  `hleaf`: a leaf type's automaton accepts the empty content (its start
    state is `ContentMatch.empty`, a valid end) — so that a leaf type gets no fillers; `ht`: the call
    is not on the text type (there the general model says `textType`: the real object is not a value
    of the model's `Node`; fillers are never the text type, `fillBefore_all_gen`). -/
theorem createAndFill_eq_toOption (S : Schema)
    (hleaf : ∀ t, (S.nodeType t).isLeaf = true → (S.dfa t).validEnd 0 = true) :
    ∀ (fuel : Nat) (t : TypeId), (S.nodeType t).isText = false →
      createAndFill S fuel t = (S.createAndFill fuel t [] [] []).toOption
  | 0, _, _ => rfl
  | fuel + 1, t, ht => by
    rw [createAndFill, Schema.createAndFill]
    cases hc : computeAttrs (S.nodeType t).attrs [] with
    | error e => rfl
    | ok a =>
      have hfront : S.fillFront (fun tp => S.createAndFill fuel tp [] [] []) t [] = .ok [] := by
        simp [Schema.fillFront, fsize]
      have hrun : (S.dfa t).run 0 (S.types []) = some 0 := rfl
      simp only [List.all_nil, Bool.not_true, Bool.false_eq_true, if_false, hfront, hrun, fillBeforeTypes_eq]
      unfold Schema.fillFragment
      cases hf : fillBefore (S.dfa t) S.generatable 0 [] true with
      | none => rfl
      | some tys =>
        simp only
        have hgen := fillBefore_all_gen _ _ _ _ _ _ hf
        have hall : ∀ tp ∈ tys, createAndFill S fuel tp = (S.createAndFill fuel tp [] [] []).toOption := by
          intro tp htp
          refine createAndFill_eq_toOption S hleaf fuel tp ?_
          have := hgen tp htp
          simp only [Schema.generatable, Bool.not_eq_eq_eq_not, Bool.not_true, Bool.or_eq_false_iff] at this
          exact this.1
        have key := fillNodesWith_mapM (fun tp => S.createAndFill fuel tp [] [] []) (createAndFill S fuel) tys hall
        cases hm : tys.mapM (createAndFill S fuel) with
        | none =>
          rw [hm] at key
          simp only
          rcases hn : fillNodesWith (fun tp => S.createAndFill fuel tp [] [] []) tys with b | opts
          · have := (fillNodesWith_error_ne _ tys b hn).2
            simp only
            cases b <;> simp_all [Built.toOption]
          · simp [fragOfOpts, key opts hn, Built.toOption]
        | some kids =>
          rw [hm] at key
          have hkids : ∀ k ∈ kids, k.isText = false :=
            mapM_option_forall' _ _ (fun tp k hk => createAndFill_notText S fuel tp k hk) tys kids hm
          have hfa : fromArray kids = kids := fromArray_not_text kids hkids
          have happ : fappendSz [] kids = kids := by
            unfold fappendSz
            by_cases hz : fsize kids = 0
            · have : kids = [] := (fsize_eq_zero_iff (fun c hc => by
                have := size_pos_of_not_text c (hkids c hc); omega)).1 hz
              simp [this]
            · simp [hz, fsize]
          have hmk : S.mkNode t a (setFrom []) kids = S.mkNodeO t a [] kids := by
            have hs : setFrom [] = [] := by simp [setFrom]
            rw [hs]
            refine (mkNodeO_eq_mkNode S t a [] kids ?_).symm
            intro hl
            have := fillBefore_nil_of_validEnd (S.dfa t) S.generatable 0 (hleaf t hl)
            rw [hf] at this
            simp only [Option.some.injEq] at this
            subst this
            simpa using hm.symm
          simp only [key, fragOfOpts, mapM_id_map_some, hfa, ht, Bool.false_eq_true, if_false, happ, hmk,
            Built.toOption]

/-! ## smaller copies -/

/-- `str.isspace` is written out twice (parser, schema compiler): the same character table -/
theorem isPySpace_eq : FromDom.isPySpace = SchemaCompile.isPySpace := rfl

/-- `to.after(d)` of `lift` (PM/StructEdit.lean, total on the depths `lift` asks for) is `RPos.after`
    (PM/Resolve.lean) there -/
theorem RPos.after_eq_afterT (r : RPos) (d : Nat) (h1 : 1 ≤ d) (h2 : d ≤ r.depth + 1) :
    r.after d = some (r.afterT d) := by
  unfold RPos.after RPos.afterT
  have h0 : ¬ d = 0 := by omega
  by_cases hd : d = r.depth + 1
  · simp [hd]
  · have : d ≤ r.depth := by omega
    simp [h0, hd, this]

/-- inside a text child, strictly (what `resolve` guarantees whenever `text_offset ≠ 0`) -/
def RPos.InText (r : RPos) : Prop :=
  r.textOffset ≠ 0 → ∃ s m, r.parent.kids[r.index r.depth]? = some (.text s m) ∧ r.textOffset < s.length

private theorem splitOk_zero' (s : List Nat) : splitOk s 0 = true := by simp [splitOk]

private theorem splitOk_len (s : List Nat) : splitOk s s.length = true := by
  unfold splitOk
  cases h : s.length with
  | zero => rfl
  | succ k =>
    have : s[k + 1]? = none := by simp [h]
    simp [this]

/-- `pos_.node_after` twice: `RPos.nodeAfterR` (PM/Structure2.lean) tells "raises" (`none`) from "no node"
    (`some none`); `RPos.nodeAfter` (PM/Resolve.lean) answers `none` for both -/
theorem RPos.nodeAfter_eq_join (r : RPos) (h : r.InText) : r.nodeAfter = r.nodeAfterR.join := by
  unfold RPos.nodeAfter RPos.nodeAfterR
  cases hc : r.parent.kids[r.index r.depth]? with
  | none => rfl
  | some c =>
    by_cases h0 : r.textOffset = 0
    · simp [h0]
    · obtain ⟨s, m, hs, hlt⟩ := h h0
      rw [hc] at hs
      simp only [Option.some.injEq] at hs
      subst hs
      simp only [h0, if_false, Node.cut, cutText, splitOk_len, Bool.not_true, Bool.or_false]
      have hne : ¬ (r.textOffset = 0 ∧ s.length = s.length) := fun h => h0 h.1
      by_cases hsp : splitOk s r.textOffset = true
      · have hr : ¬ s.length ≤ r.textOffset := by omega
        simp [hsp, hr, Except.map]
      · simp [hsp, Except.map]

/-- `pos_.node_before` likewise -/
theorem RPos.nodeBefore_eq_join (r : RPos) (h : r.InText) : r.nodeBefore = r.nodeBeforeR.join := by
  unfold RPos.nodeBefore RPos.nodeBeforeR
  by_cases h0 : r.textOffset = 0
  · simp only [h0, ne_eq, not_true_eq_false, if_false]
    by_cases hi : r.index r.depth = 0
    · simp [hi]
    · simp only [hi, if_false]
      cases r.parent.kids[r.index r.depth - 1]? <;> rfl
  · obtain ⟨s, m, hs, hlt⟩ := h h0
    simp only [ne_eq, h0, not_false_eq_true, if_true, hs, Node.cut, cutText, splitOk_zero']
    by_cases hsp : splitOk s r.textOffset = true
    · have hr : ¬ (r.textOffset = 0 ∨ s = []) := by
        intro h
        rcases h with h | h
        · exact h0 h
        · simp [h] at hlt
      have hne : ¬ r.textOffset = s.length := by omega
      simp [hsp, hr, hne, Except.map]
    · have hne : ¬ r.textOffset = s.length := by omega
      simp [hsp, hne, Except.map]

end PM
