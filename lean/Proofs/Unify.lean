/-
  Proofs/Unify.lean — glue between the copies of one library function that different work packages
  modelled independently.  Each copy is tied to the real code on its own; the equations here make a
  theorem proved about one copy a theorem about the code path that goes through another.

  | Python function                      | copies related here                                                        |
  |--------------------------------------|-----------------------------------------------------------------------------|
  | `ContentMatch.fill_before`           | `fillBefore` (PM/Fill) = `fillBeforeTypes` (PM/FillOrder; now *defined* by it) |
  | `ContentMatch.find_wrapping`         | `findWrapping` (PM/Fill) = `findWrappingTypes` (PM/FillOrder) on schemas whose edge labels are node types |
  | `Node(type, attrs, content, marks)`  | `Schema.mkNode` (PM/CreateFill), `Schema.mkNodeO` (PM/FillOrder), `FromDom.mkNode` |
  | `NodeType.create(attrs, None, marks)`| `Schema.createNode` (PM/TypePlan), `Schema.createNodeO` (PM/Fitter), `Schema.recreate` (PM/Step) |
  | `NodeType.create_and_fill()`         | `Schema.createAndFill … [] [] []` (PM/CreateFill), `createAndFill` (PM/FillOrder), `Schema.createAndFill0` (PM/TypePlan), `FromDom.createAndFill` |
  | `fits_trivially`                     | `fitsTriviallyR`/`fitsTriviallyO` (PM/RangeOps), `fitsTrivially` (PM/TypePlan) |
  | `can_change_type`                    | `canChangeType` (PM/Structure2), `canChangeTypeR` (PM/TypePlan)             |
  | `node.is_textblock`                  | `Schema.isTextblock` (PM/Structure2), `Schema.isTextblockN` (PM/TypePlan), `Schema.isTextblockO` (PM/Fitter) |
  | text-stability of a schema           | `FromDom.TextStable` ⟹ `TextLoop` ⟹ `TextStableP` (= `C01.TextStable`), none reversible |

  `insert_point`: PM/ReplaceRange.lean calls `insertPointR` of PM/Structure2.lean — one copy only.
-/
import PM.Fill
import PM.FillOrder
import PM.CreateFill
import PM.TypePlan
import PM.Fitter
import PM.FromDom
import PM.RangeOps
import PM.Structure2
import Proofs.DfaRun
import Proofs.Fill
import Proofs.Wrap
import Proofs.CreateFill
namespace PM

/-! ## `fill_before` -/

/-- the filler search of the Fitter / planners **is** the search of C15 (by definition since the
    duplicate `fillSearchO` was removed from PM/FillOrder.lean) -/
theorem fillBeforeTypes_eq (S : Schema) (d : Dfa) (q : Nat) (after : List TypeId) (toEnd : Bool) :
    fillBeforeTypes S d q after toEnd = fillBefore d S.generatable q after toEnd := rfl

/-- every type the filler search returns passed the `gen` test (no determinism needed for this half
    of `isFill`) -/
theorem fillSearch_all_gen (d : Dfa) (gen : TypeId → Bool) (after : List TypeId) (toEnd : Bool) :
    (∀ (fuel q : Nat) (types : List TypeId) (seen : List Nat),
      ∀ r seen', fillSearch d gen after toEnd fuel q types seen = (some r, seen') →
        (∀ x ∈ types, gen x = true) → ∀ x ∈ r, gen x = true) ∧
    (∀ (fuel : Nat) (edges : List (TypeId × Nat)) (types : List TypeId) (seen : List Nat),
      ∀ r seen', fillEdges d gen after toEnd fuel edges types seen = (some r, seen') →
        (∀ x ∈ types, gen x = true) → ∀ x ∈ r, gen x = true) := by
  apply fillSearch.mutual_induct d gen after toEnd
  · intro q types seen r seen' h
    simp [fillSearch] at h
  · intro fuel q types seen finished hfin r seen' h
    rw [fillSearch.eq_2, if_pos hfin] at h
    simp only [Prod.mk.injEq, Option.some.injEq] at h
    intro ht
    rw [← h.1]; exact ht
  · intro fuel q types seen finished hfin ih r seen' h
    rw [fillSearch.eq_2, if_neg hfin] at h
    exact ih r seen' h
  · intro fuel types seen r seen' h
    simp [fillEdges] at h
  · intro fuel t nxt rest types seen hc r0 seen0 hs ih r seen' h
    rw [fillEdges.eq_2, if_pos hc, hs] at h
    simp only [Prod.mk.injEq, Option.some.injEq] at h
    intro ht
    simp only [Bool.and_eq_true] at hc
    rw [← h.1]
    refine ih r0 seen0 hs ?_
    intro x hx
    rcases List.mem_append.1 hx with hx | hx
    · exact ht x hx
    · simp only [List.mem_singleton] at hx
      rw [hx]; exact hc.1
  · intro fuel t nxt rest types seen hc seen0 hs _ ih r seen' h
    rw [fillEdges.eq_2, if_pos hc, hs] at h
    exact ih r seen' h
  · intro fuel t nxt rest types seen hc ih r seen' h
    rw [fillEdges.eq_2, if_neg hc] at h
    exact ih r seen' h

theorem fillBefore_all_gen (d : Dfa) (gen : TypeId → Bool) (q : Nat) (after : List TypeId) (toEnd : Bool)
    (fill : List TypeId) (h : fillBefore d gen q after toEnd = some fill) : ∀ x ∈ fill, gen x = true := by
  unfold fillBefore at h
  rcases hs : fillSearch d gen after toEnd (d.size + 1) q [] [q] with ⟨r, seen'⟩
  rw [hs] at h
  simp only at h
  subst h
  exact (fillSearch_all_gen d gen after toEnd).1 _ _ _ _ _ _ hs (by simp)

/-! ## `find_wrapping`

  `wrapSearchO` (PM/FillOrder) and `wrapSearch` (PM/Fill) are the same breadth-first search over two
  item types (`WrapItem` has `ty : Option TypeId`, `Active` has `dfaOf` + `root`); `findWrappingTypes`
  gives it `#types + 2` iterations, `findWrapping` gives `#types² + #types + 2`.  Both are more than
  the search ever uses when every edge label is a node type of the schema. -/

/-- the `Active` item a `WrapItem` stands for -/
def WrapItem.toActive (w : WrapItem) : Active :=
  { dfaOf := w.ty.getD 0, state := w.state, chain := w.chain, root := w.ty.isNone }

theorem WrapItem.toActive_dfa (S : Schema) (root : Dfa) (w : WrapItem) :
    w.toActive.dfa S root = (match w.ty with | none => root | some t => S.dfa t) := by
  unfold WrapItem.toActive Active.dfa
  cases w.ty <;> simp

theorem wrapEdges_eq (S : Schema) (d : Dfa) (cur : WrapItem) :
    ∀ (es : List (TypeId × Nat)) (seen : List TypeId),
      (wrapEdges S d cur es seen).1.map WrapItem.toActive = (wrapExpand S d cur.toActive es seen).1 ∧
      (wrapEdges S d cur es seen).2 = (wrapExpand S d cur.toActive es seen).2
  | [], seen => by simp [wrapEdges, wrapExpand]
  | (t, nxt) :: rest, seen => by
    rw [wrapEdges, wrapExpand]
    have hroot : cur.toActive.root = cur.ty.isNone := rfl
    have hchain : cur.toActive.chain = cur.chain := rfl
    simp only [hroot, hchain]
    split
    · obtain ⟨i1, i2⟩ := wrapEdges_eq S d cur rest (t :: seen)
      simp only [List.map_cons, i1, i2]
      exact ⟨by simp [WrapItem.toActive], trivial⟩
    · exact wrapEdges_eq S d cur rest seen

/-- the two breadth-first searches run in lock step -/
theorem wrapSearchO_eq (S : Schema) (root : Dfa) (target : TypeId) :
    ∀ (fuel : Nat) (queue : List WrapItem) (seen : List TypeId),
      wrapSearchO S root target fuel queue seen =
        wrapSearch S root target fuel (queue.map WrapItem.toActive) seen
  | 0, _, _ => by simp [wrapSearchO, wrapSearch]
  | _ + 1, [], _ => by simp [wrapSearchO, wrapSearch]
  | fuel + 1, cur :: queue, seen => by
    rw [wrapSearchO, List.map_cons, wrapSearch.eq_3]
    have hstate : cur.toActive.state = cur.state := rfl
    have hchain : cur.toActive.chain = cur.chain := rfl
    have key : ∀ D : Dfa, cur.toActive.dfa S root = D →
        (if (D.matchType cur.state target).isSome = true then some cur.chain
         else wrapSearchO S root target fuel (queue ++ (wrapEdges S D cur (D.edgesOf cur.state) seen).1)
           (wrapEdges S D cur (D.edgesOf cur.state) seen).2) =
        (if ((cur.toActive.dfa S root).matchType cur.toActive.state target).isSome = true
         then some cur.toActive.chain
         else wrapSearch S root target fuel
           (List.map WrapItem.toActive queue ++
             (wrapExpand S (cur.toActive.dfa S root) cur.toActive
               ((cur.toActive.dfa S root).edgesOf cur.toActive.state) seen).1)
           (wrapExpand S (cur.toActive.dfa S root) cur.toActive
               ((cur.toActive.dfa S root).edgesOf cur.toActive.state) seen).2) := by
      intro D hD
      rw [hD, hstate, hchain]
      by_cases hm : (D.matchType cur.state target).isSome = true
      · rw [if_pos hm, if_pos hm]
      · rw [if_neg hm, if_neg hm]
        obtain ⟨e1, e2⟩ := wrapEdges_eq S D cur (D.edgesOf cur.state) seen
        rw [wrapSearchO_eq S root target fuel, List.map_append, e1, e2]
    exact key _ (WrapItem.toActive_dfa S root cur)

/-- every queued item looks at edges labelled with types below `n` -/
def QBound (S : Schema) (d : Dfa) (n : Nat) (queue : List Active) : Prop :=
  ∀ a ∈ queue, ∀ e ∈ (a.dfa S d).edgesOf a.state, e.1 < n

/-- **the fuel of the wrapper search is only a guard**: any two amounts that cover the unseen types and
    the queue give the same answer -/
theorem wrapSearch_fuel_irrel (S : Schema) (d : Dfa) (target : TypeId) (n : Nat)
    (hstart : ∀ w, ∀ e ∈ (S.dfa w).edgesOf 0, e.1 < n) :
    ∀ (fuel fuel' : Nat) (queue : List Active) (seen : List TypeId),
      QBound S d n queue → unseen n seen + queue.length ≤ fuel → unseen n seen + queue.length ≤ fuel' →
      wrapSearch S d target fuel queue seen = wrapSearch S d target fuel' queue seen
  | 0, fuel', queue, seen, _, hf, _ => by
    have hq : queue = [] := by
      rcases queue with _ | ⟨a, l⟩
      · rfl
      · simp at hf
    subst hq
    cases fuel' <;> simp [wrapSearch]
  | fuel + 1, 0, queue, seen, _, _, hf' => by
    have hq : queue = [] := by
      rcases queue with _ | ⟨a, l⟩
      · rfl
      · simp at hf'
    subst hq
    simp [wrapSearch]
  | fuel + 1, fuel' + 1, [], seen, _, _, _ => by simp [wrapSearch]
  | fuel + 1, fuel' + 1, cur :: rest, seen, hb, hf, hf' => by
    rw [wrapSearch.eq_3, wrapSearch.eq_3]
    split
    · rfl
    · have hcur : ∀ e ∈ (cur.dfa S d).edgesOf cur.state, e.1 < n := hb cur (by simp)
      have hu := wrapExpand_unseen S (cur.dfa S d) cur n ((cur.dfa S d).edgesOf cur.state) seen hcur
      obtain ⟨_, e2, _, _⟩ := wrapExpand_spec S (cur.dfa S d) cur ((cur.dfa S d).edgesOf cur.state) seen
      refine wrapSearch_fuel_irrel S d target n hstart fuel fuel' _ _ ?_ ?_ ?_
      · intro a ha
        rcases List.mem_append.1 ha with ha | ha
        · exact hb a (List.mem_cons_of_mem _ ha)
        · obtain ⟨a1, a2, _, _⟩ := e2 a ha
          have : a.dfa S d = S.dfa a.dfaOf := by simp [Active.dfa, a1]
          rw [this, a2]
          exact hstart a.dfaOf
      · simp only [List.length_cons, List.length_append] at hf ⊢
        omega
      · simp only [List.length_cons, List.length_append] at hf' ⊢
        omega

/-- **`find_wrapping` of the Fitter = `find_wrapping` of C15**, when the edge labels the search can
    meet (at the asked position and at the start of every node type's automaton) are node types of the
    schema — `C15.WrapWF`, which every compiled schema satisfies.  (Without it the two amounts of fuel
    can tell them apart: out-of-range labels count as wrappable types, so more than `#types + 1` items
    may be queued; neither copy describes the code there, which has no such schemas.) -/
theorem findWrappingTypes_eq (S : Schema) (d : Dfa) (q : Nat)
    (hroot : ∀ e ∈ d.edgesOf q, e.1 < S.nodes.size)
    (hstart : ∀ w, ∀ e ∈ (S.dfa w).edgesOf 0, e.1 < S.nodes.size) (target : TypeId) :
    findWrappingTypes S d q target = findWrapping S d q target := by
  unfold findWrappingTypes findWrapping
  rw [wrapSearchO_eq]
  have hle := unseen_le S.nodes.size []
  refine wrapSearch_fuel_irrel S d target S.nodes.size hstart _ _ _ _ ?_ ?_ ?_
  · intro a ha
    simp only [List.map_cons, List.map_nil, List.mem_singleton] at ha
    subst ha
    exact hroot
  · simp only [List.map_cons, List.map_nil, List.length_cons, List.length_nil]; omega
  · simp only [List.map_cons, List.map_nil, List.length_cons, List.length_nil]
    have : 0 ≤ S.nodes.size * S.nodes.size := Nat.zero_le _
    omega

/-! ## `Node(type, attrs, content, marks)` and `NodeType.create`

  The model's `Node` records leaf-ness in the constructor, so building a node from a type id has to
  choose one.  `Schema.mkNodeO` / `FromDom.mkNode` choose by the type alone, `Schema.mkNode` also looks
  at the content.  They differ only for a leaf type given non-empty content — an object the real code
  can build (`NodeType.create` does not check) but the model's `Node` cannot hold either way; the
  callers only reach it on a schema where a leaf type's automaton is not the empty one, which
  `Schema.__init__` never produces (`is_leaf` *is* `content_match == ContentMatch.empty`). -/

theorem FromDom.mkNode_eq (S : Schema) (t : TypeId) (a : Attrs) (m : Marks) (k : List Node) :
    FromDom.mkNode S t a m k = S.mkNodeO t a m k := rfl

theorem mkNodeO_eq_mkNode (S : Schema) (t : TypeId) (a : Attrs) (m : Marks) (k : List Node)
    (h : (S.nodeType t).isLeaf = true → k = []) : S.mkNodeO t a m k = S.mkNode t a m k := by
  unfold Schema.mkNodeO Schema.mkNode
  cases hl : (S.nodeType t).isLeaf
  · simp
  · simp [h hl]

/-- the two really differ exactly there -/
theorem mkNodeO_ne_mkNode (S : Schema) (t : TypeId) (a : Attrs) (m : Marks) (c : Node) (k : List Node)
    (h : (S.nodeType t).isLeaf = true) : S.mkNodeO t a m (c :: k) ≠ S.mkNode t a m (c :: k) := by
  simp [Schema.mkNodeO, Schema.mkNode, h]

/-- `NodeType.create(attrs, None, marks)` of the planners, through `Schema.mkNode` -/
theorem createNode_eq_mkNode (S : Schema) (ty : TypeId) (attrs : Attrs) (marks : Marks) :
    S.createNode ty attrs marks =
      if (S.nodeType ty).isText then .error .valueError
      else (computeAttrs (S.nodeType ty).attrs attrs).map (fun a => S.mkNode ty a (setFrom marks) []) := by
  unfold Schema.createNode Schema.mkNode
  simp

/-- outcome of the Fitter's monad for a planner outcome: every exception is `.raises` -/
def resToFM {α : Type} : Res α → FM α
  | .ok a => .ok a
  | .error _ => .error .raises

/-- `type.create(attrs)` of the Fitter (no content) = `NodeType.create(attrs, None, [])` of the planners -/
theorem createNodeO_eq_createNode (S : Schema) (ty : TypeId) (attrs : Option Attrs) :
    S.createNodeO ty attrs [] = resToFM (S.createNode ty (attrs.getD []) []) := by
  have hs : setFrom [] = [] := by simp [setFrom]
  unfold Schema.createNodeO Schema.createNode Schema.mkNodeO
  cases hT : (S.nodeType ty).isText
  · cases hc : computeAttrs (S.nodeType ty).attrs (attrs.getD []) <;>
      simp [hT, hc, hs, resToFM, Except.map, pure, Except.pure, throw, throwThe, MonadExceptOf.throw]
  · simp [hT, resToFM, throw, throwThe, MonadExceptOf.throw]

/-- the constructor of a node agrees with what the schema says about its type -/
def ShapeOk (S : Schema) (n : Node) : Prop :=
  (S.nodeType (S.tyOf n)).isText = n.isText ∧
  (n.isText = false → (S.nodeType (S.tyOf n)).isLeaf = n.isLeaf)

instance (S : Schema) (n : Node) : Decidable (ShapeOk S n) := by unfold ShapeOk; exact inferInstance

/-- `node.type.create(attrs, None, marks)` of the node-markup steps = `NodeType.create` of the planners
    on the node's type, for a node whose constructor agrees with the schema (a leaf type on an element
    node, or a non-text node of the text type, is where they part: `recreate` keeps the constructor) -/
theorem recreate_eq_createNode (S : Schema) (n : Node) (hn : ShapeOk S n) (attrs : Attrs) (marks : Marks) :
    S.recreate n attrs marks = S.createNode (S.tyOf n) attrs marks := by
  obtain ⟨h1, h2⟩ := hn
  unfold Schema.recreate Schema.createNode
  cases n with
  | text s m =>
    simp only [Node.isText] at h1
    simp [h1]
  | leaf t a m =>
    simp only [Node.isText, Schema.tyOf, Node.tyOr, Node.isLeaf] at h1 h2
    simp [Schema.tyOf, Node.tyOr, h1, h2 trivial]
  | elem t a m k =>
    simp only [Node.isText, Schema.tyOf, Node.tyOr, Node.isLeaf] at h1 h2
    simp [Schema.tyOf, Node.tyOr, h1, h2 trivial]

/-! ## `fits_trivially`, `can_change_type`, `is_textblock` -/

/-- outcome of a planner for an outcome of the position-level models (`none` = the code raises; the
    only exception these raise is the `ValueError` of `content_match_at` / `resolve`) -/
def optToRes {α : Type} : Option α → Res α
  | some a => .ok a
  | none => .error .valueError

theorem fitsTrivially_eq (S : Schema) (rf rt : RPos) (sl : Slice) :
    fitsTrivially S rf rt sl = optToRes (fitsTriviallyR S rf rt sl) := by
  unfold fitsTrivially fitsTriviallyR
  split
  · cases S.nodeCanReplace rf.parent (rf.index rf.depth) (rt.index rt.depth) sl.content <;> rfl
  · rfl

/-- `fits_trivially(doc.resolve(f), doc.resolve(t), slice)` both ways -/
theorem fitsTriviallyO_eq (S : Schema) (doc : Node) (f t : Nat) (sl : Slice) (rf rt : RPos)
    (hf : doc.resolve f = some rf) (ht : doc.resolve t = some rt) :
    optToRes (fitsTriviallyO S doc f t sl) = fitsTrivially S rf rt sl := by
  unfold fitsTriviallyO
  rw [hf, ht, fitsTrivially_eq]

theorem canChangeTypeR_eq (S : Schema) (doc : Node) (pos : Nat) (ty : TypeId) :
    canChangeTypeR S doc pos ty = optToRes (canChangeType S doc pos ty) := by
  unfold canChangeTypeR canChangeType
  cases doc.resolve pos with
  | none => rfl
  | some r =>
    simp only
    cases S.nodeCanReplaceWith r.parent (r.index r.depth) (r.index r.depth + 1) ty <;> rfl

theorem isTextblockO_eq (S : Schema) (n : Node) : S.isTextblockO (S.tyOf n) = S.isTextblock n := rfl

/-- the planners' `is_textblock` answers `False` for a text node outright, `Schema.isTextblock` asks the
    text type — which is inline in every schema (`is_block = not (inline or name == "text")`) -/
theorem isTextblockN_eq (S : Schema) (n : Node)
    (h : n.isText = true → (S.nodeType S.textTy).isInline = true) :
    S.isTextblockN n = S.isTextblock n := by
  cases n with
  | text s m =>
    have := h rfl
    simp [Schema.isTextblockN, Schema.isTextblock, Schema.tyOf, Node.tyOr, this]
  | leaf t a m => rfl
  | elem t a m k => rfl

end PM
