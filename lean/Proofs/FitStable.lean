/- Proofs/FitStable.lean — the static guard `Slice.stableOk` (PM/FitRaiseGuard.lean) keeps the unplaced slice of the
   Fitter well-formed over the whole run: the take loop of `place_nodes` never stops short of the end of a fragment
   once it has taken a node (so `open_start` never goes stale), `open_more` never raises `open_end` past a leaf, and
   `drop_node` / `place_nodes` lower the open depths together with what they drop. -/
import Proofs.FitRaiseFree
set_option linter.unusedVariables false
namespace PM

/-! ### `followsB` as a proposition -/

def Follows (S : Schema) (a b : TypeId) : Prop :=
  ∀ w q q1, (S.dfa w).matchType q a = some q1 → ((S.dfa w).matchType q1 b).isSome = true

theorem follows_of_B (S : Schema) (a b : TypeId) (h : S.followsB a b = true) : Follows S a b := by
  intro w q q1 hm
  by_cases hw : w < S.nodes.size
  · by_cases hq : q < (S.dfa w).size
    · simp only [Schema.followsB, List.all_eq_true, List.mem_range] at h
      have := h w hw q hq
      rw [hm] at this
      exact this
    · have : (S.dfa w).edgesOf q = [] := by
        simp only [Dfa.edgesOf]
        rw [Array.getElem?_eq_none (by omega)]
      rw [matchType_no_edges this] at hm
      cases hm
  · rw [matchType_no_edges (dfa_out_of_range S w hw q)] at hm
    cases hm

/-! ### what `stableKids` says of one fragment -/

theorem stableKids_cons2 (S : Schema) (a b : Node) (rest : List Node) (h : S.stableKids (a :: b :: rest) = true) :
    Follows S (S.tyOf a) (S.tyOf b) ∧ (a.isLeaf = true ∨ b.isLeaf = false) ∧ S.stableNode a = true ∧
      S.stableKids (b :: rest) = true := by
  rw [Schema.stableKids] at h
  simp only [Bool.and_eq_true, Bool.or_eq_true, Bool.not_eq_true'] at h
  exact ⟨follows_of_B S _ _ h.1.1.1, h.1.1.2, h.1.2, h.2⟩

theorem stableKids_head (S : Schema) (a : Node) (rest : List Node) (h : S.stableKids (a :: rest) = true) :
    S.stableNode a = true := by
  cases rest with
  | nil => simpa [Schema.stableKids] using h
  | cons b r => exact (stableKids_cons2 S a b r h).2.2.1

theorem stableKids_tail (S : Schema) (a : Node) (rest : List Node) (h : S.stableKids (a :: rest) = true) :
    S.stableKids rest = true := by
  cases rest with
  | nil => simp [Schema.stableKids]
  | cons b r => exact (stableKids_cons2 S a b r h).2.2.2

theorem stableKids_drop (S : Schema) : ∀ (n : Nat) (l : List Node), S.stableKids l = true → S.stableKids (l.drop n) = true
  | 0, l, h => by simpa using h
  | n + 1, [], h => by simpa using h
  | n + 1, a :: rest, h => by simpa using stableKids_drop S n rest (stableKids_tail S a rest h)

theorem stableKids_elem_kids (S : Schema) (t : TypeId) (a : Attrs) (m : Marks) (k rest : List Node)
    (h : S.stableKids (.elem t a m k :: rest) = true) : S.stableKids k = true := by
  have := stableKids_head S _ _ h
  simpa [Schema.stableNode] using this

theorem stableKids_contentAt (S : Schema) : ∀ (d : Nat) (c F : List Node), contentAt c d = .ok F →
    S.stableKids c = true → S.stableKids F = true
  | 0, c, F, h, hc => by
    have := pure_ok h
    subst this
    exact hc
  | d + 1, c, F, h, hc => by
    unfold contentAt at h
    split at h
    · simp [throw, throwThe, MonadExceptOf.throw] at h
    · rename_i n rest
      cases n with
      | elem t a m k => exact stableKids_contentAt S d k F h (stableKids_elem_kids S t a m k rest hc)
      | text s m =>
        simp only [Node.kids] at h
        cases d with
        | zero => rw [← pure_ok h]; simp [Schema.stableKids]
        | succ d' => simp [contentAt, throw, throwThe, MonadExceptOf.throw] at h
      | leaf t a m =>
        simp only [Node.kids] at h
        cases d with
        | zero => rw [← pure_ok h]; simp [Schema.stableKids]
        | succ d' => simp [contentAt, throw, throwThe, MonadExceptOf.throw] at h

/-- a stable node has a positive size -/
theorem stableNode_size (S : Schema) (n : Node) (h : S.stableNode n = true) : 0 < n.size := by
  cases n with
  | text s m =>
    cases s with
    | nil => simp [Schema.stableNode] at h
    | cons c s => simp [Node.size]
  | leaf t a m => simp [Node.size]
  | elem t a m k => simp; omega

theorem stableKids_fsize_zero (S : Schema) (l : List Node) (h : S.stableKids l = true) (hz : fsize l = 0) : l = [] := by
  cases l with
  | nil => rfl
  | cons a rest =>
    have := stableNode_size S a (stableKids_head S a rest h)
    simp only [fsize] at hz
    omega

/-- behind a non-leaf node of a stable fragment there are non-leaf nodes only: its last-child chain starts -/
theorem stableKids_spineR (S : Schema) : ∀ (rest : List Node) (a : Node), S.stableKids (a :: rest) = true →
    a.isLeaf = false → 1 ≤ spineR (a :: rest)
  | [], a, _, ha => by
    cases a with
    | elem t at' m k => simp
    | text s m => simp [Node.isLeaf] at ha
    | leaf t at' m => simp [Node.isLeaf] at ha
  | b :: rest, a, h, ha => by
    obtain ⟨_, hl, _, ht⟩ := stableKids_cons2 S a b rest h
    have hb : b.isLeaf = false := by
      rcases hl with h1 | h1
      · rw [ha] at h1; cases h1
      · exact h1
    rw [spineR_cons_cons]
    exact stableKids_spineR S rest b ht hb

/-- … and the first-child chain of whatever follows it -/
theorem stableKids_next_elem (S : Schema) (a b : Node) (rest : List Node) (h : S.stableKids (a :: b :: rest) = true)
    (ha : a.isLeaf = false) : 1 ≤ spineL (b :: rest) := by
  obtain ⟨_, hl, _, _⟩ := stableKids_cons2 S a b rest h
  have hb : b.isLeaf = false := by
    rcases hl with h1 | h1
    · rw [ha] at h1; cases h1
    · exact h1
  cases b with
  | elem t at' m k => simp
  | text s m => simp [Node.isLeaf] at hb
  | leaf t at' m => simp [Node.isLeaf] at hb

/-! ### the take loop takes all or nothing (but for one skipped empty start-open node) -/

/-- every node of the list fits right behind its predecessor, the first one behind a node of type `p` -/
def FChain (S : Schema) : TypeId → List Node → Prop
  | _, [] => True
  | p, b :: rest => Follows S p (S.tyOf b) ∧ FChain S (S.tyOf b) rest

theorem stableKids_FChain (S : Schema) : ∀ (rest : List Node) (a : Node), S.stableKids (a :: rest) = true →
    FChain S (S.tyOf a) rest
  | [], _, _ => trivial
  | b :: rest, a, h => by
    obtain ⟨hf, _, _, ht⟩ := stableKids_cons2 S a b rest h
    exact ⟨hf, stableKids_FChain S rest b ht⟩

/-- once a node has been taken, the take loop takes all of its siblings -/
theorem takeLoop_rest_all (S : Schema) (w fty : TypeId) (os : Nat) (oec : Int) (total : Nat) :
    ∀ (rest : List Node) (taken q : Nat) (add : List Node) (p : TypeId) (qprev : Nat) (tk : Nat × Nat × List Node),
      FChain S p rest → (S.dfa w).matchType qprev p = some q → 1 ≤ taken →
      takeLoop S (S.dfa w) fty os oec total rest taken q add = .ok tk → tk.1 = taken + rest.length
  | [], taken, q, add, p, qprev, tk, _, _, _, h => by
    unfold takeLoop at h
    rw [← pure_ok h]
    simp
  | b :: rest, taken, q, add, p, qprev, tk, ⟨hf, hc⟩, hm, ht, h => by
    obtain ⟨q', hq'⟩ := Option.isSome_iff_exists.1 (hf w qprev q hm)
    unfold takeLoop at h
    rw [hq'] at h
    simp only at h
    have hcond : (decide (taken + 1 > 1) || os == 0 || fsize b.kids != 0) = true := by
      simp only [Bool.or_eq_true, decide_eq_true_eq]
      exact .inl (.inl (by omega))
    rw [if_pos hcond] at h
    obtain ⟨n, _, h⟩ := FM.bind_ok h
    have := takeLoop_rest_all S w fty os oec total rest (taken + 1) q' _ (S.tyOf b) q tk hc hq' (by omega) h
    simp only [List.length_cons]
    omega

/-- **the take loop over a stable fragment**: it takes nothing, or everything, or exactly the first node — an empty
    start-open node it skipped, in front of a sibling that does not match in its place -/
theorem takeLoop_taken (S : Schema) (w fty : TypeId) (os : Nat) (oec : Int) (F : List Node)
    (hst : S.stableKids F = true) (q : Nat) (add : List Node) (tk : Nat × Nat × List Node)
    (h : takeLoop S (S.dfa w) fty os oec F.length F 0 q add = .ok tk) :
    tk.1 = 0 ∨ tk.1 = F.length ∨
      (tk.1 = 1 ∧ os ≠ 0 ∧ ∃ a b rest, F = a :: b :: rest ∧ fsize a.kids = 0) := by
  cases F with
  | nil =>
    unfold takeLoop at h
    rw [← pure_ok h]
    exact .inl rfl
  | cons a rest =>
    unfold takeLoop at h
    split at h
    · rw [← pure_ok h]
      exact .inl rfl
    · rename_i q' hm
      simp only at h
      have hc := stableKids_FChain S rest a hst
      split at h
      · obtain ⟨n, _, h⟩ := FM.bind_ok h
        have := takeLoop_rest_all S w fty os oec _ rest 1 q' _ (S.tyOf a) q tk hc hm (Nat.le_refl _) h
        right; left
        simp only [List.length_cons]
        omega
      · rename_i hcond
        simp only [Nat.zero_add, Bool.or_eq_true, decide_eq_true_eq, beq_iff_eq, bne_iff_ne, ne_eq, not_or,
          Decidable.not_not] at hcond
        obtain ⟨⟨_, hos⟩, hka⟩ := hcond
        cases rest with
        | nil =>
          unfold takeLoop at h
          rw [← pure_ok h]
          right; left; rfl
        | cons b rest' =>
          unfold takeLoop at h
          split at h
          · rw [← pure_ok h]
            exact .inr (.inr ⟨rfl, hos, a, b, rest', rfl, hka⟩)
          · rename_i q'' hm2
            simp only at h
            have hcond2 : (decide (0 + 1 + 1 > 1) || os == 0 || fsize b.kids != 0) = true := by simp
            rw [if_pos hcond2] at h
            obtain ⟨n, _, h⟩ := FM.bind_ok h
            have := takeLoop_rest_all S w fty os oec _ rest' (0 + 1 + 1) q'' _ (S.tyOf b) q tk hc.2 hm2 (by omega) h
            right; left
            simp only [List.length_cons]
            omega

/-! ### spines under `drop_from_fragment` -/

theorem dropFromFragment_spineL : ∀ (d : Nat) (c c' : List Node) (count : Nat), dropFromFragment c d count = .ok c' →
    d ≤ spineL c → d ≤ spineL c'
  | 0, _, _, _, _, _ => Nat.zero_le _
  | d + 1, c, c', count, h, hs => by
    unfold dropFromFragment at h
    split at h
    · rename_i t a m kids rest
      obtain ⟨inner, hi, h⟩ := FM.bind_ok h
      rw [← pure_ok h]
      simp only [spineL_elem_cons] at hs ⊢
      have := dropFromFragment_spineL d kids inner count hi (by omega)
      omega
    · simp [throw, throwThe, MonadExceptOf.throw] at h

/-- the fragment at the level something was dropped from -/
theorem dropFromFragment_contentAt : ∀ (d : Nat) (c c' F : List Node) (count : Nat),
    dropFromFragment c d count = .ok c' → contentAt c d = .ok F → contentAt c' d = .ok (F.drop count)
  | 0, c, c', F, count, h, hc => by
    rw [← pure_ok h, ← pure_ok hc]
    rfl
  | d + 1, c, c', F, count, h, hc => by
    unfold dropFromFragment at h
    split at h
    · rename_i t a m kids rest
      obtain ⟨inner, hi, h⟩ := FM.bind_ok h
      rw [← pure_ok h]
      unfold contentAt at hc ⊢
      simp only [Node.kids] at hc ⊢
      exact dropFromFragment_contentAt d kids inner F count hi hc
    · simp [throw, throwThe, MonadExceptOf.throw] at h

theorem spineR_congr_last (l l' : List Node) (h : l.getLast? = l'.getLast?) : spineR l = spineR l' := by
  cases hl : l.getLast? with
  | none =>
    have e1 : l = [] := by simpa using hl
    have e2 : l' = [] := by rw [hl] at h; simpa using h.symm
    rw [e1, e2]
  | some x =>
    have e1 := getLast?_decomp hl
    have e2 := getLast?_decomp (h ▸ hl : l'.getLast? = some x)
    rw [e1, e2, spineR_concat, spineR_concat]

/-- the levels `0 … d-1` of the first-child chain have one node each -/
def isChain (d : Nat) (c : List Node) : Prop := ∃ G, pureTo d c G

theorem isChain_succ_single (d : Nat) (t : TypeId) (a : Attrs) (m : Marks) (k : List Node)
    (h : isChain d k) : isChain (d + 1) [.elem t a m k] := by
  obtain ⟨G, hG⟩ := h
  exact ⟨G, t, a, m, k, rfl, hG⟩

/-- **dropping from the front of a level keeps the last-child chain** unless the level is dropped completely at
    the end of a single chain -/
theorem drop_keeps_spineR : ∀ (d : Nat) (c c' F : List Node) (count : Nat), dropFromFragment c d count = .ok c' →
    contentAt c d = .ok F → (count < F.length ∨ ¬ isChain d c) → spineR c ≤ spineR c'
  | 0, c, c', F, count, h, hc, hcond => by
    have e1 := pure_ok h
    have e2 := pure_ok hc
    subst e1; subst e2
    rcases hcond with hlt | hn
    · apply Nat.le_of_eq
      apply spineR_congr_last
      rw [List.getLast?_drop, if_neg (by omega)]
    · exact absurd ⟨c, rfl⟩ hn
  | d + 1, c, c', F, count, h, hc, hcond => by
    unfold dropFromFragment at h
    split at h
    · rename_i t a m kids rest
      obtain ⟨inner, hi, h⟩ := FM.bind_ok h
      rw [← pure_ok h]
      unfold contentAt at hc
      simp only [Node.kids] at hc
      cases rest with
      | nil =>
        simp only [spineR_elem_single]
        have := drop_keeps_spineR d kids inner F count hi hc (by
          rcases hcond with hlt | hn
          · exact .inl hlt
          · exact .inr (fun hk => hn (isChain_succ_single d t a m kids hk)))
        omega
      | cons y ys =>
        rw [spineR_cons_cons, spineR_cons_cons]
        exact Nat.le_refl _
    · simp [throw, throwThe, MonadExceptOf.throw] at h

/-- dropping the innermost node of a single chain leaves the chain above it, ending in an empty fragment -/
theorem drop_chain : ∀ (d : Nat) (c G c' : List Node), pureTo (d + 1) c G → dropFromFragment c d 1 = .ok c' →
    pureTo d c' []
  | 0, c, G, c', ⟨t, a, m, k, hc, _⟩, h => by
    subst hc
    rw [← pure_ok h]
    rfl
  | d + 1, c, G, c', ⟨t, a, m, k, hc, hk⟩, h => by
    subst hc
    unfold dropFromFragment at h
    obtain ⟨inner, hi, h⟩ := FM.bind_ok h
    rw [← pure_ok h]
    exact ⟨t, a, m, inner, rfl, drop_chain d k G inner hk hi⟩

theorem pureTo_contentAt : ∀ (d : Nat) (c G : List Node), pureTo d c G → contentAt c d = .ok G
  | 0, c, G, h => by cases h; rfl
  | d + 1, c, G, ⟨t, a, m, k, hc, hk⟩ => by
    subst hc
    unfold contentAt
    simp only [Node.kids]
    exact pureTo_contentAt d k G hk

theorem pureTo_snoc : ∀ (d : Nat) (c : List Node) (t : TypeId) (a : Attrs) (m : Marks) (k : List Node),
    pureTo d c [.elem t a m k] → pureTo (d + 1) c k
  | 0, c, t, a, m, k, h => by
    cases h
    exact ⟨t, a, m, k, rfl, rfl⟩
  | d + 1, c, t, a, m, k, ⟨t', a', m', k', hc, hk⟩ => ⟨t', a', m', k', hc, pureTo_snoc d k' t a m k hk⟩

/-- the fragment one level up: its first node holds the fragment -/
theorem contentAt_pred_elem : ∀ (d : Nat) (c F : List Node), contentAt c (d + 1) = .ok F → d + 1 ≤ spineL c →
    ∃ t a m rest, contentAt c d = .ok (.elem t a m F :: rest)
  | 0, c, F, h, hs => by
    cases c with
    | nil => simp [spineL] at hs
    | cons n rest =>
      cases n with
      | elem t a m k =>
        unfold contentAt at h
        simp only [Node.kids] at h
        have : contentAt k 0 = .ok k := rfl
        rw [this] at h
        simp only [Except.ok.injEq] at h
        subst h
        exact ⟨t, a, m, rest, rfl⟩
      | text s m => simp [spineL] at hs
      | leaf t a m => simp [spineL] at hs
  | d + 1, c, F, h, hs => by
    cases c with
    | nil => simp [spineL] at hs
    | cons n rest =>
      cases n with
      | elem t a m k =>
        simp only [spineL_elem_cons] at hs
        unfold contentAt at h ⊢
        simp only [Node.kids] at h ⊢
        exact contentAt_pred_elem d k F h (by omega)
      | text s m => simp [spineL] at hs
      | leaf t a m => simp [spineL] at hs

/-- sizes along the first-child chain (no hypothesis on the fragment reached) -/
theorem contentAt_fsize' : ∀ (d : Nat) (c G : List Node), contentAt c d = .ok G → d ≤ spineL c →
    fsize G + 2 * d ≤ fsize c
  | 0, c, G, h, _ => by
    rw [← pure_ok h]
    simp
  | d + 1, c, G, h, hs => by
    cases c with
    | nil => simp [spineL] at hs
    | cons n rest =>
      cases n with
      | elem t a m k =>
        simp only [spineL_elem_cons] at hs
        unfold contentAt at h
        simp only [Node.kids] at h
        have := contentAt_fsize' d k G h (by omega)
        simp only [fsize, Node.size_elem]
        omega
      | text s m => simp [spineL] at hs
      | leaf t a m => simp [spineL] at hs

/-- `pure_of_size` (Proofs/FitInStep.lean) for a fragment that may be empty, within the first-child chain -/
theorem pure_of_size' : ∀ (d : Nat) (c G : List Node) (oe : Nat), contentAt c d = .ok G → d ≤ spineL c →
    oe ≤ spineR c → fsize c ≤ fsize G + d + oe → pureTo d c G ∧ d ≤ oe
  | 0, c, G, oe, h, _, _, _ => by
    have := pure_ok h
    subst this
    exact ⟨rfl, Nat.zero_le _⟩
  | d + 1, c, G, oe, h, hs, hoe, hsz => by
    cases c with
    | nil => simp [spineL] at hs
    | cons n rest =>
      cases n with
      | text s m => simp [spineL] at hs
      | leaf t a m => simp [spineL] at hs
      | elem t a m k =>
        simp only [spineL_elem_cons] at hs
        unfold contentAt at h
        simp only [Node.kids] at h
        have hk := contentAt_fsize' d k G h (by omega)
        cases rest with
        | nil =>
          rw [spineR_singleton_elem] at hoe
          simp only [fsize, Node.size_elem, Nat.add_zero] at hsz
          have hoe1 : 1 ≤ oe := by omega
          obtain ⟨ih1, ih2⟩ := pure_of_size' d k G (oe - 1) h (by omega) (by omega) (by omega)
          exact ⟨⟨t, a, m, k, rfl, ih1⟩, by omega⟩
        | cons y ys =>
          exfalso
          rw [spineR_cons_cons] at hoe
          have h2 := two_spineR_le_fsize (y :: ys)
          simp only [fsize, Node.size_elem] at hsz h2
          omega

/-- the "at end" test of `drop_node` (`content.size - open_start <= open_start + inner.size`) on a stable slice: the
    levels above the open level have one node each -/
theorem chain_of_size2 (S : Schema) : ∀ (d : Nat) (c G : List Node), contentAt c d = .ok G → d ≤ spineL c →
    S.stableKids c = true → fsize c ≤ fsize G + 2 * d → pureTo d c G
  | 0, c, G, h, _, _, _ => by
    have := pure_ok h
    subst this
    rfl
  | d + 1, c, G, h, hs, hst, hsz => by
    cases c with
    | nil => simp [spineL] at hs
    | cons n rest =>
      cases n with
      | text s m => simp [spineL] at hs
      | leaf t a m => simp [spineL] at hs
      | elem t a m k =>
        simp only [spineL_elem_cons] at hs
        unfold contentAt at h
        simp only [Node.kids] at h
        have hk := contentAt_fsize' d k G h (by omega)
        simp only [fsize, Node.size_elem] at hsz
        have hr : rest = [] := stableKids_fsize_zero S rest (stableKids_tail S _ _ hst) (by omega)
        subst hr
        simp only [fsize, Nat.add_zero] at hsz
        exact ⟨t, a, m, k, rfl, chain_of_size2 S d k G h (by omega) (stableKids_elem_kids S t a m k [] hst) (by omega)⟩

theorem spineL_contentAt (d : Nat) (c F : List Node) (h : contentAt c d = .ok F) (hs : d ≤ spineL c) :
    spineL c = d + spineL F := by
  obtain ⟨F', hF', e⟩ := contentAt_total d c hs
  rw [h] at hF'
  simp only [Except.ok.injEq] at hF'
  subst hF'
  exact e

/-- dropping the first node of the level above a fragment (`drop_node`, `place_nodes` at the end of a fragment) -/
theorem drop_parent_spineR (d : Nat) (c c' inner : List Node) (oe : Nat) (hcon : contentAt c (d + 1) = .ok inner)
    (hs : d + 1 ≤ spineL c) (hoe : oe ≤ spineR c) (h : dropFromFragment c d 1 = .ok c') :
    (isChain (d + 1) c → spineR c' = d) ∧ (¬ isChain (d + 1) c → oe ≤ spineR c') := by
  constructor
  · intro ⟨G, hG⟩
    have := pureTo_spineR d c' [] (drop_chain d c G c' hG h)
    simpa [spineR] using this
  · intro hn
    obtain ⟨t, a, m, rest, hF'⟩ := contentAt_pred_elem d c inner hcon hs
    have := drop_keeps_spineR d c c' _ 1 h hF' (by
      cases rest with
      | cons y ys => left; simp
      | nil =>
        right
        intro ⟨G, hG⟩
        have e := pureTo_contentAt d c G hG
        rw [hF'] at e
        simp only [Except.ok.injEq] at e
        subst e
        exact hn ⟨inner, pureTo_snoc d c t a m inner hG⟩)
    omega

/-! ### every iteration keeps the unplaced slice well-formed -/

theorem openMore_wf (S : Schema) (st st1 : FitState) (hwf : st.unplaced.wf = true)
    (hst : S.stableKids st.unplaced.content = true) (h : openMore st = .ok (some st1)) : st1.unplaced.wf = true := by
  simp only [Slice.wf, Bool.and_eq_true, decide_eq_true_eq] at hwf ⊢
  unfold openMore at h
  obtain ⟨inner, hin, h⟩ := FM.bind_ok h
  split at h
  · simp [pure, Except.pure] at h
  · rename_i first rest
    split at h
    · simp [pure, Except.pure] at h
    · rename_i hleaf
      have hleaf : first.isLeaf = false := by simpa using hleaf
      have := pure_ok h
      simp only [Option.some.injEq] at this
      subst this
      simp only
      have hL := spineL_contentAt _ _ _ hin hwf.1
      have hst' := stableKids_contentAt S _ _ _ hin hst
      have h1 : 1 ≤ spineL (first :: rest) := by
        cases first with
        | elem t a m k => simp
        | text s m => simp [Node.isLeaf] at hleaf
        | leaf t a m => simp [Node.isLeaf] at hleaf
      refine ⟨by omega, ?_⟩
      split
      · rename_i hat
        simp only [decide_eq_true_eq] at hat
        obtain ⟨hp, hle⟩ := pure_of_size' _ _ _ _ hin hwf.1 hwf.2 hat
        have e1 := pureTo_spineR _ _ _ hp
        have := stableKids_spineR S rest first hst' hleaf
        omega
      · simp only [Nat.max_zero]  
        exact hwf.2

theorem openMore_none_inner (st : FitState) (h : openMore st = .ok none) :
    ∃ inner, contentAt st.unplaced.content st.unplaced.openStart = .ok inner ∧
      (inner = [] ∨ ∃ first rest, inner = first :: rest ∧ first.isLeaf = true) := by
  unfold openMore at h
  obtain ⟨inner, hin, h⟩ := FM.bind_ok h
  refine ⟨inner, hin, ?_⟩
  split at h
  · exact .inl rfl
  · rename_i first rest
    split at h
    · rename_i hl
      exact .inr ⟨first, rest, rfl, hl⟩
    · simp [pure, Except.pure] at h

theorem dropNode_wf (S : Schema) (st st' : FitState) (hwf : st.unplaced.wf = true)
    (hst : S.stableKids st.unplaced.content = true) (hnone : openMore st = .ok none) (h : dropNode st = .ok st') :
    st'.unplaced.wf = true := by
  simp only [Slice.wf, Bool.and_eq_true, decide_eq_true_eq] at hwf ⊢
  obtain ⟨inner0, hin0, hcase⟩ := openMore_none_inner st hnone
  unfold dropNode at h
  obtain ⟨inner, hin, h⟩ := FM.bind_ok h
  rw [hin0] at hin
  simp only [Except.ok.injEq] at hin
  subst hin
  split at h
  · rename_i hcnd
    simp only [Bool.and_eq_true, decide_eq_true_eq] at hcnd
    obtain ⟨c, hc, h⟩ := FM.bind_ok h
    rw [← pure_ok h]
    simp only
    obtain ⟨d, hd⟩ : ∃ d, st.unplaced.openStart = d + 1 := ⟨st.unplaced.openStart - 1, by omega⟩
    rw [hd] at hin0 hc hwf ⊢
    simp only [Nat.add_sub_cancel] at hc ⊢
    obtain ⟨hchain, hnochain⟩ := drop_parent_spineR d _ c inner0 st.unplaced.openEnd hin0 hwf.1 hwf.2 hc
    refine ⟨dropFromFragment_spineL d _ c 1 hc (by omega), ?_⟩
    split
    · rename_i hat
      simp only [decide_eq_true_eq] at hat
      have hp := chain_of_size2 S (d + 1) _ inner0 hin0 hwf.1 hst (by omega)
      rw [hchain ⟨inner0, hp⟩]
      exact Nat.le_refl _
    · rename_i hat
      simp only [decide_eq_true_eq] at hat
      apply hnochain
      intro ⟨G, hG⟩
      have e := pureTo_contentAt (d + 1) _ G hG
      rw [hin0] at e
      simp only [Except.ok.injEq] at e
      subst e
      have := pureTo_fsize _ _ _ hG
      omega
  · rename_i hcnd
    obtain ⟨c, hc, h⟩ := FM.bind_ok h
    rw [← pure_ok h]
    simp only
    refine ⟨dropFromFragment_spineL _ _ c 1 hc hwf.1, ?_⟩
    by_cases hlen : 1 < inner0.length
    · have := drop_keeps_spineR _ _ c inner0 1 hc hin0 (.inl hlen)
      omega
    · -- `open_start = 0`: the only node left is a leaf (or nothing is left), so the end is closed
      simp only [Bool.and_eq_true, decide_eq_true_eq, not_and, Nat.not_lt] at hcnd
      have hos : st.unplaced.openStart = 0 := by
        have := hcnd (by omega)
        omega
      rw [hos] at hin0
      have e := pure_ok hin0
      have : spineR st.unplaced.content = 0 := by
        rw [e]
        rcases hcase with h0 | ⟨first, rest, h1, hl⟩
        · rw [h0]; simp [spineR]
        · subst h1
          have : rest = [] := by
            cases rest with
            | nil => rfl
            | cons y ys => simp at hlen
          subst this
          cases first with
          | elem t a m k => simp [Node.isLeaf] at hl
          | text s m => simp [spineR]
          | leaf t a m => simp [spineR]
      omega

theorem wf_empty : Slice.empty.wf = true := by decide

/-- the new unplaced slice of `place_nodes` is well-formed when the take loop took nothing, everything, or skipped
    an empty start-open first node and stopped -/
theorem placeRest_wf (S : Schema) (u : Slice) (hwf : u.wf = true) (hst : S.stableKids u.content = true)
    (sd : Nat) (hsd : sd ≤ u.openStart) (F : List Node) (hcon : contentAt u.content sd = .ok F) (taken : Nat)
    (htk : taken = 0 ∨ taken = F.length ∨
      (taken = 1 ∧ u.openStart - sd ≠ 0 ∧ ∃ a b rest, F = a :: b :: rest ∧ fsize a.kids = 0))
    (u' : Slice)
    (h : placeRest u sd taken (taken == F.length)
      (if (taken == F.length) = true then ((fsize F : Int) + sd) - ((fsize u.content : Int) - u.openEnd) else -1) = .ok u') :
    u'.wf = true := by
  have hwf0 := hwf
  simp only [Slice.wf, Bool.and_eq_true, decide_eq_true_eq] at hwf
  unfold placeRest at h
  cases hte : (taken == F.length) with
  | false =>
    simp only [hte, Bool.not_false, if_true] at h
    obtain ⟨c, hc, h⟩ := FM.bind_ok h
    rw [← pure_ok h]
    have hne : taken ≠ F.length := by simpa using hte
    rcases htk with h0 | h0 | ⟨h1, hos, a, b, rest, hF, hka⟩
    · subst h0
      have := dropFromFragment_zero sd _ c hc
      subst this
      exact hwf0
    · exact absurd h0 hne
    · subst h1
      subst hF
      simp only [Slice.wf, Bool.and_eq_true, decide_eq_true_eq]
      have hL := spineL_contentAt _ _ _ hcon (by omega)
      have hstF := stableKids_contentAt S _ _ _ hcon hst
      -- the skipped node is a non-leaf node without content
      have ha : a.isLeaf = false := by
        cases a with
        | elem t at' m k => rfl
        | text s m => simp [spineL] at hL; omega
        | leaf t at' m => simp [spineL] at hL; omega
      have hLa : spineL (a :: b :: rest) = 1 := by
        cases a with
        | elem t at' m k =>
          simp only [Node.kids] at hka
          simp only [spineL_elem_cons, (fsize_zero_spine k hka).2]
        | text s m => simp [Node.isLeaf] at ha
        | leaf t at' m => simp [Node.isLeaf] at ha
      have hc' := dropFromFragment_contentAt sd _ c _ 1 hc hcon
      have hL' := spineL_contentAt _ _ _ hc' (dropFromFragment_spineL sd _ c 1 hc (by omega))
      have hb := stableKids_next_elem S a b rest hstF ha
      simp only [List.drop_succ_cons, List.drop_zero] at hL'
      have hR := drop_keeps_spineR sd _ c _ 1 hc hcon (.inl (by simp))
      exact ⟨by omega, by omega⟩
  | true =>
    simp only [hte, Bool.not_true, Bool.false_eq_true, if_false, if_true] at h
    split at h
    · rw [← pure_ok h]
      exact wf_empty
    · rename_i hsd0
      obtain ⟨d, hd⟩ : ∃ d, sd = d + 1 := by
        rcases Nat.eq_zero_or_pos sd with h0 | h0
        · subst h0; simp at hsd0
        · exact ⟨sd - 1, by omega⟩
      subst hd
      simp only [Nat.add_sub_cancel] at h
      obtain ⟨c, hc, h⟩ := FM.bind_ok h
      rw [← pure_ok h]
      simp only [Slice.wf, Bool.and_eq_true, decide_eq_true_eq]
      obtain ⟨hchain, hnochain⟩ := drop_parent_spineR d _ c F u.openEnd hcon (by omega) hwf.2 hc
      refine ⟨dropFromFragment_spineL d _ c 1 hc (by omega), ?_⟩
      split
      · rename_i hneg
        by_cases hch : isChain (d + 1) u.content
        · rw [hchain hch]
          obtain ⟨G, hG⟩ := hch
          have e := pureTo_contentAt (d + 1) _ G hG
          rw [hcon] at e
          simp only [Except.ok.injEq] at e
          subst e
          have := pureTo_fsize _ _ _ hG
          omega
        · exact hnochain hch
      · rename_i hneg
        obtain ⟨hp, _⟩ := pure_of_size' (d + 1) _ F u.openEnd hcon (by omega) hwf.2 (by omega)
        rw [hchain ⟨F, hp⟩]
        exact Nat.le_refl _

/-- the unplaced slice `place_nodes` leaves, with the run of the take loop that decides it -/
theorem placeNodes_unplaced_take (S : Schema) (st : FitState) (f : Fittable) (st' : FitState)
    (h : placeNodes S st f = .ok st') :
    ∃ (w fty : TypeId) (q : Nat) (add : List Node) (tk : Nat × Nat × List Node),
      takeLoop S (S.dfa w) fty (st.unplaced.openStart - f.sliceDepth)
        (((fsize (f.fragment st.unplaced) : Int) + f.sliceDepth) - ((fsize st.unplaced.content : Int) - st.unplaced.openEnd))
        (f.fragment st.unplaced).length (f.fragment st.unplaced) 0 q add = .ok tk ∧
      placeRest st.unplaced f.sliceDepth tk.1 (tk.1 == (f.fragment st.unplaced).length)
        (if (tk.1 == (f.fragment st.unplaced).length) = true then
          ((fsize (f.fragment st.unplaced) : Int) + f.sliceDepth) -
            ((fsize st.unplaced.content : Int) - st.unplaced.openEnd) else -1) = .ok st'.unplaced := by
  unfold placeNodes at h
  obtain ⟨c1, _, h⟩ := FM.bind_ok h
  obtain ⟨c2, _, h⟩ := FM.bind_ok h
  simp only at h
  obtain ⟨item, _, h⟩ := FM.bind_ok h
  obtain ⟨q0, _, h⟩ := FM.bind_ok h
  obtain ⟨q1, _, h⟩ := FM.bind_ok h
  obtain ⟨tk, htk, h⟩ := FM.bind_ok h
  obtain ⟨p, _, h⟩ := FM.bind_ok h
  obtain ⟨top, _, h⟩ := FM.bind_ok h
  obtain ⟨c3, _, h⟩ := FM.bind_ok h
  obtain ⟨fr4, _, h⟩ := FM.bind_ok h
  obtain ⟨u', hu', h⟩ := FM.bind_ok h
  have := pure_ok h
  subst this
  exact ⟨item.ty, item.ty, q1, _, tk, htk, hu'⟩

theorem stable_dropStable (S : Schema) : DropStable (fun c => S.stableKids c = true) := by
  refine ⟨by simp [Schema.stableKids], ?_⟩
  intro d
  induction d with
  | zero =>
    intro c c' count h hc
    rw [← pure_ok h]
    exact stableKids_drop S count c hc
  | succ d ih =>
    intro c c' count h hc
    unfold dropFromFragment at h
    split at h
    · rename_i t a m kids rest
      obtain ⟨inner, hi, h⟩ := FM.bind_ok h
      rw [← pure_ok h]
      have hk := ih kids inner count hi (stableKids_elem_kids S t a m kids rest hc)
      cases rest with
      | nil => simpa [Schema.stableKids, Schema.stableNode] using hk
      | cons b r =>
        simp only [Schema.stableKids, Schema.stableNode, Bool.and_eq_true] at hc ⊢
        exact ⟨⟨hc.1.1, hk⟩, hc.2⟩
    · simp [throw, throwThe, MonadExceptOf.throw] at h

/-- **one iteration of the loop keeps a stable unplaced slice well-formed** -/
theorem fitStep_wf (S : Schema) (st st' : FitState) (hwf : st.unplaced.wf = true)
    (hst : S.stableKids st.unplaced.content = true) (h : fitStep S st = .ok st') : st'.unplaced.wf = true := by
  unfold fitStep at h
  obtain ⟨f, hfit, h⟩ := FM.bind_ok h
  cases f with
  | some f =>
    simp only at h
    obtain ⟨lvl, it, hsd, hlvl, hpar, _, _, _⟩ := findFittable_kind S st f hfit
    have hfragment := fragment_eq_lvl hlvl hpar
    have hcon := sliceLevel_contentAt hlvl
    obtain ⟨w, fty, q, add, tk, htk, hrest⟩ := placeNodes_unplaced_take S st f st' h
    rw [hfragment] at htk hrest
    have hstF := stableKids_contentAt S _ _ _ hcon hst
    exact placeRest_wf S st.unplaced hwf hst f.sliceDepth hsd lvl.2 hcon tk.1
      (takeLoop_taken S w fty _ _ lvl.2 hstF q add tk htk) _ hrest
  | none =>
    simp only at h
    obtain ⟨o, ho, h⟩ := FM.bind_ok h
    cases o with
    | some st1 =>
      have := pure_ok h
      subst this
      exact openMore_wf S st _ hwf hst ho
    | none => exact dropNode_wf S st st' hwf hst ho h

/-- **the static guard implies the run hypothesis**: a well-formed slice whose content is stable stays well-formed for
    as long as the loop of `fit` runs -/
theorem wfWhile_of_stable (S : Schema) : ∀ (fuel : Nat) (st : FitState), st.unplaced.wf = true →
    S.stableKids st.unplaced.content = true → wfWhile S fuel st = true
  | 0, st, hwf, _ => by unfold wfWhile; exact hwf
  | fuel + 1, st, hwf, hst => by
    unfold wfWhile
    rw [hwf, Bool.true_and]
    split
    · rfl
    · cases hs : fitStep S st with
      | error e => rfl
      | ok st1 =>
        exact wfWhile_of_stable S fuel st1 (fitStep_wf S st st1 hwf hst hs)
          (fitStep_content (stable_dropStable S) S st st1 hs hst)

theorem unplacedWfWhile_of_stable (S : Schema) (doc : Node) (f t : Nat) (sl : Slice) (hwf : sl.wf = true)
    (hst : sl.stableOk S = true) : unplacedWfWhile S doc f t sl = true := by
  unfold unplacedWfWhile
  split
  · rfl
  · split
    · rename_i rf rt _ _
      split
      · split
        · rename_i st0 h0
          have hu := fitInit_unplaced S rf sl st0 h0
          exact wfWhile_of_stable S _ st0 (by rw [hu]; exact hwf) (by rw [hu]; exact hst)
        · rfl
      · rfl
    · rfl

/-- a stable well-formed slice satisfies the termination guard -/
theorem termGuard_of_stable (S : Schema) (sl : Slice) (hwf : sl.wf = true) (hst : sl.stableOk S = true) :
    sl.termGuard = true := by
  simp only [Slice.wf, Bool.and_eq_true, decide_eq_true_eq] at hwf
  unfold Slice.stableOk at hst
  unfold Slice.termGuard
  -- either the content ends in a non-leaf node, or all of it is leaves
  have key : ∀ (l : List Node), S.stableKids l = true → endsInElem l = true ∨ (l.all Node.isLeaf = true) := by
    intro l
    induction l with
    | nil => intro _; right; rfl
    | cons a rest ih =>
      intro h
      cases rest with
      | nil =>
        cases a with
        | elem t at' m k => left; rfl
        | text s m => right; rfl
        | leaf t at' m => right; rfl
      | cons b r =>
        obtain ⟨_, hl, _, ht⟩ := stableKids_cons2 S a b r h
        rcases ih ht with h1 | h1
        · left; simpa [endsInElem] using h1
        · right
          simp only [List.all_cons, Bool.and_eq_true] at h1 ⊢
          refine ⟨?_, h1⟩
          rcases hl with h2 | h2
          · exact h2
          · rw [h1.1] at h2; cases h2
  rcases key sl.content hst with h1 | h1
  · rw [h1]; rfl
  · rw [h1]
    have hL : spineL sl.content = 0 := by
      cases hc : sl.content with
      | nil => simp [spineL]
      | cons a rest =>
        rw [hc] at h1
        simp only [List.all_cons, Bool.and_eq_true] at h1
        cases a with
        | elem t at' m k => simp [Node.isLeaf] at h1
        | text s m => simp [spineL]
        | leaf t at' m => simp [spineL]
    have hR : spineR sl.content = 0 := by
      have h2 := two_spineR_le_fsize sl.content
      -- all leaves: the last node is a leaf
      cases hl : sl.content.getLast? with
      | none =>
        have : sl.content = [] := by simpa using hl
        rw [this]; simp [spineR]
      | some x =>
        have hx : x ∈ sl.content := List.mem_of_getLast? hl
        have hxl : x.isLeaf = true := List.all_eq_true.1 h1 x hx
        rw [spineR_congr_last sl.content [x] (by simpa using hl)]
        cases x with
        | elem t at' m k => simp [Node.isLeaf] at hxl
        | text s m => simp [spineR]
        | leaf t at' m => simp [spineR]
    have e1 : sl.openStart = 0 := by omega
    have e2 : sl.openEnd = 0 := by omega
    simp [e1, e2]

/-! ### the run hypothesis `unplacedWfRun` of the emitted-step theorems follows -/

/-- a run of the loop that returns with the unplaced slice well-formed all along satisfies `fitLoopAll … wf` -/
theorem fitLoopAll_of_wfWhile (S : Schema) : ∀ (fuel : Nat) (st st' : FitState), fitLoop S fuel st = .ok st' →
    wfWhile S fuel st = true → fitLoopAll S (fun s => s.unplaced.wf) fuel st = some true
  | 0, st, st', h, hw => by
    unfold fitLoop at h
    unfold wfWhile at hw
    unfold fitLoopAll
    split at h
    · rename_i hsz
      rw [if_pos hsz, hw]
    · simp [throw, throwThe, MonadExceptOf.throw] at h
  | fuel + 1, st, st', h, hw => by
    unfold fitLoop at h
    unfold wfWhile at hw
    unfold fitLoopAll
    rw [Bool.and_eq_true] at hw
    split at h
    · rename_i hsz
      rw [if_pos hsz, hw.1]
    · rename_i hsz
      rw [if_neg hsz]
      obtain ⟨st1, h1, h⟩ := FM.bind_ok h
      have hw2 := hw.2
      rw [if_neg hsz, h1] at hw2
      simp only at hw2
      rw [h1]
      simp only
      rw [fitLoopAll_of_wfWhile S fuel st1 st' h hw2, hw.1]
      rfl

/-- when `replace_step` returns and the unplaced slice stayed well-formed while the Fitter ran, the run hypothesis
    `unplacedWfRun` of `fit_emits_wf` / `fit_emits_valid_payload` holds -/
theorem unplacedWfRun_of_while (S : Schema) (doc : Node) (f t : Nat) (sl : Slice) (r : Option Step)
    (hr : replaceStep S doc f t sl = .ok r) (hw : unplacedWfWhile S doc f t sl = true) :
    unplacedWfRun S doc f t sl = true := by
  unfold unplacedWfRun
  unfold unplacedWfWhile at hw
  unfold replaceStep at hr
  split
  · rfl
  · rename_i hcond
    rw [if_neg hcond] at hw hr
    split
    · rename_i rf rt hf ht
      simp only [hf, ht] at hw hr
      split
      · rename_i htriv
        simp only [htriv] at hw hr
        split
        · rename_i st0 h0
          rw [h0] at hw
          simp only at hw
          unfold fitterFit at hr
          rw [FM.bind_eq h0] at hr
          obtain ⟨st1, h1, _⟩ := FM.bind_ok hr
          rw [fitLoopAll_of_wfWhile S _ st0 st1 h1 hw]
          rfl
        · rfl
      · rfl
    · rfl

end PM
