/-
  Proofs/CommuteAroundDocs.lean — the squares of Props/C17.lean with a replace-around step on one or both
  sides, on token sequences: both orders reach the same normal form (nested splices in the coordinates
  of the base document).
-/
import Proofs.CommuteAround
import PM.CommuteGuard
namespace PM

/-- the shape every replace-around step built by the library has (`lift`, `wrap`, `set_node_markup`,
    `set_block_type`): ranges in order, well-formed slice, insertion point inside the slice.  Decidable;
    invariant under shifting the four positions. -/
def AroundShape (f t gf gt : Nat) (sl : Slice) (ins : Nat) : Prop :=
  sl.wf = true ∧ (ins : Int) ≤ sl.size ∧ f ≤ gf ∧ gf ≤ gt ∧ gt ≤ t

instance (f t gf gt : Nat) (sl : Slice) (ins : Nat) : Decidable (AroundShape f t gf gt sl ins) := by
  unfold AroundShape; infer_instance

/-- the executable form (PM/CommuteGuard.lean, tied to the real step objects) -/
theorem aroundShape_iff (f t gf gt : Nat) (sl : Slice) (ins : Nat) :
    aroundShape f t gf gt sl ins = true ↔ AroundShape f t gf gt sl ins := by
  simp [aroundShape, AroundShape, and_assoc]

theorem apply_replace_splice (S : Schema) (doc doc' : Node) (f t : Nat) (sl : Slice) (st : Bool)
    (h : S.apply (.replace f t sl st) doc = .ok doc') :
    ftoks doc'.kids = splice (ftoks doc.kids) f t sl.toks ∧ f ≤ t ∧ t ≤ (ftoks doc.kids).length ∧
    (sl.toks.length : Int) = sl.size := by
  have k := apply_replace_fromReplace S doc doc' f t sl st h
  obtain ⟨h1, h2, h3, hwf, _⟩ := fromReplace_toks S doc doc' f t sl k
  exact ⟨h1, h2, by rw [ftoks_length]; exact h3, (Slice.toks_length_of_wf_ex sl hwf).1⟩

theorem apply_around_aroundL (S : Schema) (doc doc' : Node) (f t gf gt : Nat) (sl : Slice) (ins : Nat)
    (st : Bool) (hs : AroundShape f t gf gt sl ins)
    (h : S.apply (.replaceAround f t gf gt sl ins st) doc = .ok doc') :
    ftoks doc'.kids = aroundL (ftoks doc.kids) f gf gt t (sl.toks.take ins) (sl.toks.drop ins) ∧
    t ≤ (ftoks doc.kids).length ∧ (sl.toks.take ins).length = ins ∧
    ((sl.toks.drop ins).length : Int) = sl.size - ins := by
  obtain ⟨hwf, hins, hg⟩ := hs
  obtain ⟨h1, h2, _⟩ := apply_replaceAround_toks S doc doc' f t gf gt sl ins st hwf hins hg h
  have hl : t ≤ (ftoks doc.kids).length := by rw [ftoks_length]; exact h2
  obtain ⟨hlen, _⟩ := Slice.toks_length_of_wf_ex sl hwf
  refine ⟨?_, hl, ?_, ?_⟩
  · rw [h1]; exact aroundL_eq _ _ _ f gf gt t hg hl
  · rw [List.length_take]; omega
  · rw [List.length_drop]; omega

/-- a successful replace-around step works on an element root and keeps its markup -/
theorem apply_around_root (S : Schema) (doc doc' : Node) (f t gf gt : Nat) (sl : Slice) (ins : Nat)
    (st : Bool) (h : S.apply (.replaceAround f t gf gt sl ins st) doc = .ok doc') :
    ∃ ty a m k k', doc = .elem ty a m k ∧ doc' = .elem ty a m k' := by
  unfold Schema.apply at h
  simp only at h
  split at h
  · simp at h
  · split at h
    · simp at h
    · split at h
      · simp at h
      · split at h
        · simp at h
        · simp at h
        · exact fromReplace_root S _ _ _ _ _ h

/-! ### replace step vs. replace-around step -/

/-- the replace step lies before the replace-around step -/
theorem commute_replace_around_before (S : Schema) (d da db dab dba : Node) (f t gf gt ins f1 t1 : Nat)
    (sl s1 : Slice) (st b1 : Bool) (A' R' : Step)
    (hs : AroundShape f t gf gt sl ins) (hsep : t1 < f)
    (ha : S.apply (.replace f1 t1 s1 b1) d = .ok da)
    (hb : S.apply (.replaceAround f t gf gt sl ins st) d = .ok db)
    (hA' : (Step.replaceAround f t gf gt sl ins st).map (Step.replace f1 t1 s1 b1).getMap = some A')
    (hR' : (Step.replace f1 t1 s1 b1).map (Step.replaceAround f t gf gt sl ins st).getMap = some R')
    (hab : S.apply A' da = .ok dab) (hba : S.apply R' db = .ok dba) :
    ftoks dab.kids = splice (aroundL (ftoks d.kids) f gf gt t (sl.toks.take ins) (sl.toks.drop ins))
      f1 t1 s1.toks ∧ ftoks dba.kids = ftoks dab.kids := by
  obtain ⟨hda, h1, hl1, hlen1⟩ := apply_replace_splice S d da f1 t1 s1 b1 ha
  obtain ⟨hdb, hl, hX, hY⟩ := apply_around_aroundL S d db f t gf gt sl ins st hs hb
  obtain ⟨hwf, hins, hg⟩ := hs
  rw [around_map_replace_before f t gf gt ins f1 t1 sl s1 st b1 hg h1 hsep] at hA'
  rw [replace_map_around_after f t gf gt ins f1 t1 sl s1 st b1 h1 hsep] at hR'
  simp only [Option.some.injEq] at hA' hR'
  subst hA' hR'
  have n : ∀ p : Nat, t1 < p →
      ((p : Int) + (s1.size - ((t1 : Int) - f1))).toNat = f1 + s1.toks.length + (p - t1) := by
    intro p hp; omega
  rw [n f (by omega), n t (by omega), n gf (by omega), n gt (by omega)] at hab
  obtain ⟨hdab, _, _, _⟩ := apply_around_aroundL S da dab _ _ _ _ sl ins st
    ⟨hwf, hins, by omega, by omega, by omega⟩ hab
  obtain ⟨hdba, _, _, _⟩ := apply_replace_splice S db dba f1 t1 s1 false hba
  have eab : ftoks dab.kids = splice (aroundL (ftoks d.kids) f gf gt t (sl.toks.take ins)
      (sl.toks.drop ins)) f1 t1 s1.toks := by
    rw [hdab, hda]
    exact around_splice_before _ _ _ _ f1 t1 f gf gt t h1 (by omega) hg hl
  exact ⟨eab, by rw [eab, hdba, hdb]⟩

/-- the replace step lies after the replace-around step -/
theorem commute_replace_around_after (S : Schema) (d da db dab dba : Node) (f t gf gt ins f1 t1 : Nat)
    (sl s1 : Slice) (st b1 : Bool) (A' R' : Step)
    (hs : AroundShape f t gf gt sl ins) (hsep : t < f1)
    (ha : S.apply (.replace f1 t1 s1 b1) d = .ok da)
    (hb : S.apply (.replaceAround f t gf gt sl ins st) d = .ok db)
    (hA' : (Step.replaceAround f t gf gt sl ins st).map (Step.replace f1 t1 s1 b1).getMap = some A')
    (hR' : (Step.replace f1 t1 s1 b1).map (Step.replaceAround f t gf gt sl ins st).getMap = some R')
    (hab : S.apply A' da = .ok dab) (hba : S.apply R' db = .ok dba) :
    ftoks dab.kids = aroundL (splice (ftoks d.kids) f1 t1 s1.toks) f gf gt t (sl.toks.take ins)
      (sl.toks.drop ins) ∧ ftoks dba.kids = ftoks dab.kids := by
  obtain ⟨hda, h1, hl1, hlen1⟩ := apply_replace_splice S d da f1 t1 s1 b1 ha
  obtain ⟨hdb, hl, hX, hY⟩ := apply_around_aroundL S d db f t gf gt sl ins st hs hb
  have hs' := hs
  obtain ⟨hwf, hins, hg⟩ := hs
  rw [around_map_replace_after f t gf gt ins f1 t1 sl s1 st b1 hg hsep] at hA'
  rw [replace_map_around_before f t gf gt ins f1 t1 sl s1 st b1 hg h1 hsep] at hR'
  simp only [Option.some.injEq] at hA' hR'
  subst hA' hR'
  have n : ∀ p : Nat, t < p →
      ((p : Int) + ((ins : Int) - ((gf : Int) - f)) + (sl.size - ins - ((t : Int) - gt))).toNat =
        f + (sl.toks.take ins).length + (gt + (sl.toks.drop ins).length + (p - t) - gf) := by
    intro p hp; omega
  rw [n f1 (by omega), n t1 (by omega)] at hba
  obtain ⟨hdab, _, _, _⟩ := apply_around_aroundL S da dab f t gf gt sl ins st hs' hab
  obtain ⟨hdba, _, _, _⟩ := apply_replace_splice S db dba _ _ s1 false hba
  have eab : ftoks dab.kids = aroundL (splice (ftoks d.kids) f1 t1 s1.toks) f gf gt t (sl.toks.take ins)
      (sl.toks.drop ins) := by rw [hdab, hda]
  refine ⟨eab, ?_⟩
  rw [eab, hdba, hdb]
  exact around_splice_after _ _ _ _ f1 t1 f gf gt t h1 (by omega) hg hl1

/-- the replace step lies inside the kept gap of the replace-around step -/
theorem commute_replace_around_gap (S : Schema) (d da db dab dba : Node) (f t gf gt ins f1 t1 : Nat)
    (sl s1 : Slice) (st b1 : Bool) (A' R' : Step)
    (hs : AroundShape f t gf gt sl ins) (hlo : gf < f1) (hhi : t1 < gt)
    (ha : S.apply (.replace f1 t1 s1 b1) d = .ok da)
    (hb : S.apply (.replaceAround f t gf gt sl ins st) d = .ok db)
    (hA' : (Step.replaceAround f t gf gt sl ins st).map (Step.replace f1 t1 s1 b1).getMap = some A')
    (hR' : (Step.replace f1 t1 s1 b1).map (Step.replaceAround f t gf gt sl ins st).getMap = some R')
    (hab : S.apply A' da = .ok dab) (hba : S.apply R' db = .ok dba) :
    ftoks dab.kids = aroundL (splice (ftoks d.kids) f1 t1 s1.toks) f gf
      (f1 + s1.toks.length + (gt - t1)) (f1 + s1.toks.length + (t - t1)) (sl.toks.take ins)
      (sl.toks.drop ins) ∧ ftoks dba.kids = ftoks dab.kids := by
  obtain ⟨hda, h1, hl1, hlen1⟩ := apply_replace_splice S d da f1 t1 s1 b1 ha
  obtain ⟨hdb, hl, hX, hY⟩ := apply_around_aroundL S d db f t gf gt sl ins st hs hb
  obtain ⟨hwf, hins, hg⟩ := hs
  rw [around_map_replace_gap f t gf gt ins f1 t1 sl s1 st b1 hg h1 hlo hhi] at hA'
  rw [replace_map_around_gap f t gf gt ins f1 t1 sl s1 st b1 hg h1 hlo hhi] at hR'
  simp only [Option.some.injEq] at hA' hR'
  subst hA' hR'
  have n : ∀ p : Nat, t1 < p →
      ((p : Int) + (s1.size - ((t1 : Int) - f1))).toNat = f1 + s1.toks.length + (p - t1) := by
    intro p hp; omega
  have n' : ∀ p : Nat, gf < p →
      ((p : Int) + ((ins : Int) - ((gf : Int) - f))).toNat = f + (sl.toks.take ins).length + (p - gf) := by
    intro p hp; omega
  rw [n t (by omega), n gt (by omega)] at hab
  rw [n' f1 (by omega), n' t1 (by omega)] at hba
  obtain ⟨hdab, _, _, _⟩ := apply_around_aroundL S da dab _ _ _ _ sl ins st
    ⟨hwf, hins, by omega, by omega, by omega⟩ hab
  obtain ⟨hdba, _, _, _⟩ := apply_replace_splice S db dba _ _ s1 false hba
  have eab : ftoks dab.kids = aroundL (splice (ftoks d.kids) f1 t1 s1.toks) f gf
      (f1 + s1.toks.length + (gt - t1)) (f1 + s1.toks.length + (t - t1)) (sl.toks.take ins)
      (sl.toks.drop ins) := by rw [hdab, hda]
  refine ⟨eab, ?_⟩
  rw [eab, hdba, hdb]
  exact around_splice_gap _ _ _ _ f1 t1 f gf gt t h1 (by omega) (by omega) hg hl

/-! ### two replace-around steps -/

/-- the second replace-around step lies after the first one -/
theorem commute_around_around_after (S : Schema) (d da db dab dba : Node)
    (f t gf gt ins f' t' gf' gt' ins' : Nat) (sl sl' : Slice) (st st' : Bool) (A' B' : Step)
    (hs : AroundShape f t gf gt sl ins) (hs' : AroundShape f' t' gf' gt' sl' ins') (hsep : t < f')
    (ha : S.apply (.replaceAround f t gf gt sl ins st) d = .ok da)
    (hb : S.apply (.replaceAround f' t' gf' gt' sl' ins' st') d = .ok db)
    (hB' : (Step.replaceAround f' t' gf' gt' sl' ins' st').map
      (Step.replaceAround f t gf gt sl ins st).getMap = some B')
    (hA' : (Step.replaceAround f t gf gt sl ins st).map
      (Step.replaceAround f' t' gf' gt' sl' ins' st').getMap = some A')
    (hab : S.apply B' da = .ok dab) (hba : S.apply A' db = .ok dba) :
    ftoks dba.kids = aroundL (aroundL (ftoks d.kids) f' gf' gt' t' (sl'.toks.take ins') (sl'.toks.drop ins'))
      f gf gt t (sl.toks.take ins) (sl.toks.drop ins) ∧ ftoks dab.kids = ftoks dba.kids := by
  obtain ⟨hda, hl, hX, hY⟩ := apply_around_aroundL S d da f t gf gt sl ins st hs ha
  obtain ⟨hdb, hl', hX', hY'⟩ := apply_around_aroundL S d db f' t' gf' gt' sl' ins' st' hs' hb
  have hsA := hs
  obtain ⟨hwf, hins, hg⟩ := hs
  obtain ⟨hwf', hins', hg'⟩ := hs'
  have rB := around_map_around_after f t gf gt ins f' t' gf' gt' ins' sl sl' st st' hg hg' hsep
  have rA := around_map_around_before f t gf gt ins f' t' gf' gt' ins' sl sl' st st' hg hsep
  simp only at rB
  rw [rB] at hB'; rw [rA] at hA'
  simp only [Option.some.injEq] at hA' hB'
  subst hA' hB'
  have n : ∀ p : Nat, t < p →
      ((p : Int) + (((ins : Int) - ((gf : Int) - f)) + (sl.size - ins - ((t : Int) - gt)))).toNat =
        f + (sl.toks.take ins).length + (gt + (sl.toks.drop ins).length + (p - t) - gf) := by
    intro p hp; omega
  rw [n f' (by omega), n t' (by omega), n gf' (by omega), n gt' (by omega)] at hab
  obtain ⟨hdab, _, _, _⟩ := apply_around_aroundL S da dab _ _ _ _ sl' ins' st'
    ⟨hwf', hins', by omega, by omega, by omega⟩ hab
  obtain ⟨hdba, _, _, _⟩ := apply_around_aroundL S db dba f t gf gt sl ins st hsA hba
  have eba : ftoks dba.kids = aroundL (aroundL (ftoks d.kids) f' gf' gt' t' (sl'.toks.take ins')
      (sl'.toks.drop ins')) f gf gt t (sl.toks.take ins) (sl.toks.drop ins) := by rw [hdba, hdb]
  refine ⟨eba, ?_⟩
  rw [eba, hdab, hda]
  exact around_around_after _ _ _ _ _ f gf gt t f' gf' gt' t' hg (by omega) hg' hl'

/-- the second replace-around step lies inside the kept gap of the first one -/
theorem commute_around_around_gap (S : Schema) (d da db dab dba : Node)
    (f t gf gt ins f' t' gf' gt' ins' : Nat) (sl sl' : Slice) (st st' : Bool) (A' B' : Step)
    (hs : AroundShape f t gf gt sl ins) (hs' : AroundShape f' t' gf' gt' sl' ins')
    (hlo : gf < f') (hhi : t' < gt)
    (ha : S.apply (.replaceAround f t gf gt sl ins st) d = .ok da)
    (hb : S.apply (.replaceAround f' t' gf' gt' sl' ins' st') d = .ok db)
    (hB' : (Step.replaceAround f' t' gf' gt' sl' ins' st').map
      (Step.replaceAround f t gf gt sl ins st).getMap = some B')
    (hA' : (Step.replaceAround f t gf gt sl ins st).map
      (Step.replaceAround f' t' gf' gt' sl' ins' st').getMap = some A')
    (hab : S.apply B' da = .ok dab) (hba : S.apply A' db = .ok dba) :
    ftoks dba.kids = aroundL (aroundL (ftoks d.kids) f' gf' gt' t' (sl'.toks.take ins') (sl'.toks.drop ins'))
      f gf (f' + (sl'.toks.take ins').length + (gt' + (sl'.toks.drop ins').length + (gt - t') - gf'))
      (f' + (sl'.toks.take ins').length + (gt' + (sl'.toks.drop ins').length + (t - t') - gf'))
      (sl.toks.take ins) (sl.toks.drop ins) ∧ ftoks dab.kids = ftoks dba.kids := by
  obtain ⟨hda, hl, hX, hY⟩ := apply_around_aroundL S d da f t gf gt sl ins st hs ha
  obtain ⟨hdb, hl', hX', hY'⟩ := apply_around_aroundL S d db f' t' gf' gt' sl' ins' st' hs' hb
  obtain ⟨hwf, hins, hg⟩ := hs
  obtain ⟨hwf', hins', hg'⟩ := hs'
  have rB := around_map_around_gap f t gf gt ins f' t' gf' gt' ins' sl sl' st st' hg hg' hlo hhi
  have rA := around_map_around_outer f t gf gt ins f' t' gf' gt' ins' sl sl' st st' hg hg' hlo hhi
  simp only at rB rA
  rw [rB] at hB'; rw [rA] at hA'
  simp only [Option.some.injEq] at hA' hB'
  subst hA' hB'
  have n : ∀ p : Nat, gf < p →
      ((p : Int) + ((ins : Int) - ((gf : Int) - f))).toNat = f + (sl.toks.take ins).length + (p - gf) := by
    intro p hp; omega
  have n' : ∀ p : Nat, t' < p →
      ((p : Int) + (((ins' : Int) - ((gf' : Int) - f')) + (sl'.size - ins' - ((t' : Int) - gt')))).toNat =
        f' + (sl'.toks.take ins').length + (gt' + (sl'.toks.drop ins').length + (p - t') - gf') := by
    intro p hp; omega
  rw [n f' (by omega), n t' (by omega), n gf' (by omega), n gt' (by omega)] at hab
  rw [n' t (by omega), n' gt (by omega)] at hba
  obtain ⟨hdab, _, _, _⟩ := apply_around_aroundL S da dab _ _ _ _ sl' ins' st'
    ⟨hwf', hins', by omega, by omega, by omega⟩ hab
  obtain ⟨hdba, _, _, _⟩ := apply_around_aroundL S db dba _ _ _ _ sl ins st
    ⟨hwf, hins, by omega, by omega, by omega⟩ hba
  refine ⟨by rw [hdba, hdb], ?_⟩
  rw [hdba, hdb, hdab, hda]
  exact around_around_gap _ _ _ _ _ f gf gt t f' gf' gt' t' hg (by omega) (by omega) hg' hl

/-! ### from tokens back to documents -/

/-- two element nodes with the same type, attributes and marks -/
def SameRoot (x y : Node) : Prop := ∃ ty a m k k', x = .elem ty a m k ∧ y = .elem ty a m k'

theorem SameRoot.symm {x y : Node} (h : SameRoot x y) : SameRoot y x := by
  obtain ⟨ty, a, m, k, k', rfl, rfl⟩ := h
  exact ⟨ty, a, m, k', k, rfl, rfl⟩

theorem SameRoot.trans {x y z : Node} (h : SameRoot x y) (h' : SameRoot y z) : SameRoot x z := by
  obtain ⟨ty, a, m, k, k', rfl, rfl⟩ := h
  obtain ⟨ty2, a2, m2, k2, k2', e, rfl⟩ := h'
  cases e
  exact ⟨_, _, _, _, _, rfl, rfl⟩

theorem SameRoot.eq_of_toks {x y : Node} (h : SameRoot x y) (ht : ftoks x.kids = ftoks y.kids)
    (hn1 : fnorm x.kids = true) (hn2 : fnorm y.kids = true) : x = y := by
  obtain ⟨ty, a, m, k, k', rfl, rfl⟩ := h
  simp only [Node.kids] at ht hn1 hn2
  rw [ftoks_inj _ _ hn1 hn2 ht]

theorem SameRoot.of_replace (S : Schema) (doc doc' : Node) (f t : Nat) (sl : Slice) (st : Bool)
    (h : S.apply (.replace f t sl st) doc = .ok doc') : SameRoot doc doc' :=
  apply_replace_elem S doc doc' f t sl st h

theorem SameRoot.of_around (S : Schema) (doc doc' : Node) (f t gf gt : Nat) (sl : Slice) (ins : Nat)
    (st : Bool) (h : S.apply (.replaceAround f t gf gt sl ins st) doc = .ok doc') : SameRoot doc doc' :=
  apply_around_root S doc doc' f t gf gt sl ins st h

theorem SameRoot.of_markup (S : Schema) (doc doc' : Node) (st : Step) (plo phi : Nat)
    (hsp : st.posSpan = some (plo, phi)) (h : S.apply st doc = .ok doc') : SameRoot doc doc' :=
  apply_markup_root S doc doc' st plo phi hsp h

/-- the four corners of a square have the same root -/
theorem SameRoot.square {d da db dab dba : Node} (h1 : SameRoot d da) (h2 : SameRoot da dab)
    (h3 : SameRoot d db) (h4 : SameRoot db dba) : SameRoot dab dba :=
  (h2.symm.trans h1.symm).trans (h3.trans h4)

end PM
