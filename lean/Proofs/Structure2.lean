/- Proofs/Structure2.lean — helper lemmas for the helper theorems of Props/C12.lean
   (models: PM/Structure.lean, PM/Structure2.lean): returned positions lie in the document, and on
   a valid document no `content_match_at` / path access of the helpers can raise. -/
import PM.Structure2
import Proofs.Structure
import Proofs.StructEdit
namespace PM

/-! ### positions returned by `before` / `after` lie in the document -/

namespace Resolved
variable {doc : Node} {pos : Nat} {r : RPos}

theorem before_le_size (R : Resolved doc pos r) (d s : Nat) (h : r.before (d + 1) = some s) :
    s ≤ fsize doc.kids := Nat.le_trans (R.before_le d s h) R.le

theorem after_le_size (R : Resolved doc pos r) (d e : Nat) (h : r.after (d + 1) = some e) :
    e ≤ fsize doc.kids := by
  by_cases hd : d = r.depth
  · subst hd
    simp [RPos.after] at h
    rw [← h, R.pos_eq]; exact R.le
  · by_cases hle : d + 1 ≤ r.depth
    · rw [R.after_eq (d + 1) (by omega) hle] at h
      simp only [Option.some.injEq] at h
      have hn := (R.nestW 0 (d + 1) (by omega) hle).2
      have e0 : r.end_ 0 = fsize doc.kids := by
        rw [end_eq, R.node_zero]; simp [RPos.start]
      omega
    · simp [RPos.after, hd, hle] at h

theorem before_isSome (R : Resolved doc pos r) (d : Nat) (hd : d ≤ r.depth) : ∃ s, r.before (d + 1) = some s := by
  by_cases h : d = r.depth
  · exact ⟨r.pos, by simp [RPos.before, h]⟩
  · exact ⟨_, R.before_eq (d + 1) (by omega) (by omega)⟩

theorem after_isSome (R : Resolved doc pos r) (d : Nat) (hd : d ≤ r.depth) : ∃ s, r.after (d + 1) = some s := by
  by_cases h : d = r.depth
  · exact ⟨r.pos, by simp [RPos.after, h]⟩
  · exact ⟨_, R.after_eq (d + 1) (by omega) (by omega)⟩

end Resolved

/-! ### in-range results of the loops -/

theorem joinPointLoop_le (S : Schema) {doc : Node} {pos : Nat} {r : RPos} (R : Resolved doc pos r) (dir : Int) :
    ∀ (d q p : Nat), q ≤ fsize doc.kids → joinPointLoop S r dir d q = some (some p) → p ≤ fsize doc.kids
  | 0, q, p, hq, h => by
    unfold joinPointLoop at h
    split at h
    · simp at h
    · simp only [Option.some.injEq] at h; omega
    · simp at h
  | d + 1, q, p, hq, h => by
    unfold joinPointLoop at h
    split at h
    · simp at h
    · simp only [Option.some.injEq] at h; omega
    · split at h
      · simp at h
      · rename_i p' hp'
        refine joinPointLoop_le S R dir d p' p ?_ h
        split at hp'
        · exact R.before_le_size d p' hp'
        · exact R.after_le_size d p' hp'

theorem insertLoopStart_le (S : Schema) {doc : Node} {pos : Nat} {r : RPos} (R : Resolved doc pos r) (ty : TypeId) :
    ∀ (n p : Nat), insertLoopStart S r ty n = some (some (some p)) → p ≤ fsize doc.kids
  | 0, p, h => by simp [insertLoopStart] at h
  | d + 1, p, h => by
    unfold insertLoopStart at h
    simp only at h
    split at h
    · simp at h
    · split at h
      · simp at h
      · rename_i p' hp'
        simp only [Option.some.injEq] at h
        subst h
        exact R.before_le_size d _ hp'
    · split at h
      · simp at h
      · exact insertLoopStart_le S R ty d p h

theorem insertLoopEnd_le (S : Schema) {doc : Node} {pos : Nat} {r : RPos} (R : Resolved doc pos r) (ty : TypeId) :
    ∀ (n p : Nat), insertLoopEnd S r ty n = some (some (some p)) → p ≤ fsize doc.kids
  | 0, p, h => by simp [insertLoopEnd] at h
  | d + 1, p, h => by
    unfold insertLoopEnd at h
    simp only at h
    split at h
    · simp at h
    · split at h
      · simp at h
      · rename_i p' hp'
        simp only [Option.some.injEq] at h
        subst h
        exact R.after_le_size d _ hp'
    · split at h
      · simp at h
      · exact insertLoopEnd_le S R ty d p h

theorem dropLoop_le (S : Schema) {doc : Node} {pos : Nat} {r : RPos} (R : Resolved doc pos r)
    (content : List Node) (pass2 : Bool) :
    ∀ (n p : Nat), dropLoop S r content pass2 n = some (some p) → p ≤ fsize doc.kids
  | 0, p, h => by simp [dropLoop] at h
  | d + 1, p, h => by
    unfold dropLoop at h
    split at h
    · simp at h
    · split at h
      · simp only [Option.some.injEq] at h
        rw [← h, R.pos_eq]; exact R.le
      · split at h
        · simp at h
        · rename_i p' hp'
          simp only [Option.some.injEq] at h
          subst h
          split at hp'
          · exact R.before_le_size d _ hp'
          · exact R.after_le_size d _ hp'
    · exact dropLoop_le S R content pass2 d p h

/-! ### on a valid document nothing the helpers ask of a path node can raise -/

theorem checkNode_child (S : Schema) (n c : Node) (h : S.checkNode n = true) (hc : c ∈ n.kids) :
    S.checkNode c = true := by
  cases n with
  | text => simp [Node.kids] at hc
  | leaf => simp [Node.kids] at hc
  | elem t a m kids =>
    simp only [Schema.checkNode, Bool.and_eq_true] at h
    have hk := h.2
    simp only [Node.kids] at hc
    clear h
    induction kids with
    | nil => simp at hc
    | cons x xs ih =>
      simp only [Schema.checkKids, Bool.and_eq_true] at hk
      rcases List.mem_cons.mp hc with rfl | hc
      · exact hk.1
      · exact ih hc hk.2

/-- every node on the path of a resolved position of a valid document is valid -/
theorem path_valid (S : Schema) {doc : Node} {pos : Nat} {r : RPos} (R : Resolved doc pos r)
    (hv : S.checkNode doc = true) : ∀ k, k ≤ r.depth → S.checkNode (r.node k) = true
  | 0, _ => by rw [R.node_zero]; exact hv
  | k + 1, hk => by
    have ih := path_valid S R hv k (by omega)
    have hc := (R.chain k (by omega)).1
    exact checkNode_child S _ _ ih (List.mem_of_getElem? hc)

theorem run_take_isSome (d : Dfa) (ts : List TypeId) (i : Nat) (h : (d.run 0 ts).isSome = true) :
    (d.run 0 (ts.take i)).isSome = true := by
  have : ∀ (xs ys : List TypeId) (q : Nat), (d.run q (xs ++ ys)).isSome = true → (d.run q xs).isSome = true := by
    intro xs
    induction xs with
    | nil => intro ys q _; rfl
    | cons x xs ih =>
      intro ys q hq
      simp only [List.cons_append, Dfa.run] at hq ⊢
      cases hm : d.matchType q x with
      | none => simp [hm] at hq
      | some q' =>
        simp only [hm] at hq ⊢
        exact ih ys q' hq
  apply this (ts.take i) (ts.drop i) 0
  rw [List.take_append_drop]; exact h

/-- `content_match_at` does not raise on a valid node -/
theorem contentMatchAt_isSome (S : Schema) (n : Node) (hv : S.checkNode n = true) (i : Nat) :
    ∃ q, S.contentMatchAt (S.tyOf n) n.kids i = some q := by
  have hrun : ((S.dfa (S.tyOf n)).run 0 (S.types n.kids)).isSome = true := by
    cases n with
    | text => rfl
    | leaf => rfl
    | elem t a m kids =>
      simp only [Schema.checkNode, Schema.validContent, Bool.and_eq_true] at hv
      have hacc := hv.1.1.1
      simp only [Dfa.accepts] at hacc
      simp only [Schema.tyOf, Node.tyOr, Node.kids]
      cases hx : (S.dfa t).run 0 (S.types kids) with
      | none => simp [hx] at hacc
      | some _ => rfl
  have := run_take_isSome _ _ i hrun
  unfold Schema.contentMatchAt
  have e : S.types (n.kids.take i) = (S.types n.kids).take i := by simp [Schema.types, List.map_take]
  rw [e]
  exact Option.isSome_iff_exists.mp this

theorem nodeCanReplace_isSome (S : Schema) (n : Node) (hv : S.checkNode n = true) (from_ to : Nat)
    (repl : List Node) (hf : from_ ≤ n.kids.length) : ∃ b, S.nodeCanReplace n from_ to repl = some b := by
  obtain ⟨q, hq⟩ := contentMatchAt_isSome S n hv from_
  unfold Schema.nodeCanReplace Schema.canReplace
  simp only [show ¬ n.kids.length < from_ by omega, if_false, hq]
  split
  · exact ⟨_, rfl⟩
  · split
    · exact ⟨_, rfl⟩
    · exact ⟨_, rfl⟩

theorem nodeCanReplaceWith_isSome (S : Schema) (n : Node) (hv : S.checkNode n = true) (from_ to : Nat)
    (ty : TypeId) (hf : from_ ≤ n.kids.length) : ∃ b, S.nodeCanReplaceWith n from_ to ty = some b := by
  obtain ⟨q, hq⟩ := contentMatchAt_isSome S n hv from_
  unfold Schema.nodeCanReplaceWith Schema.canReplaceWith
  simp only [show ¬ n.kids.length < from_ by omega, if_false, hq, List.isEmpty_nil, Bool.not_true,
    Bool.false_and, Bool.false_eq_true]
  split
  · exact ⟨_, rfl⟩
  · split
    · exact ⟨_, rfl⟩
    · exact ⟨_, rfl⟩

/-! ### child-index bounds along a resolved path -/

namespace Resolved
variable {doc : Node} {pos : Nat} {r : RPos}

theorem index_le (R : Resolved doc pos r) (k : Nat) (hk : k ≤ r.depth) : r.index k ≤ (r.node k).kids.length :=
  (R.entry k hk).idx_le

theorem index_lt (R : Resolved doc pos r) (k : Nat) (hk : k < r.depth) : r.index k < (r.node k).kids.length := by
  have hc := (R.chain k hk).1
  rcases Nat.lt_or_ge (r.index k) (r.node k).kids.length with h | hge
  · exact h
  · rw [List.getElem?_eq_none hge] at hc
    simp at hc

theorem indexAfter_le (R : Resolved doc pos r) (k : Nat) (hk : k ≤ r.depth) :
    r.indexAfter k ≤ (r.node k).kids.length := by
  unfold RPos.indexAfter
  by_cases hkd : k = r.depth
  · subst hkd
    by_cases ho : r.textOffset = 0
    · simp only [ho, decide_true, Bool.and_self, if_true, Nat.add_zero]
      exact R.index_le _ hk
    · simp only [ho, decide_false, Bool.and_false, Bool.false_eq_true, if_false]
      rcases R.last with hl | ⟨s, m, hs, _⟩
      · exfalso; apply ho; unfold RPos.textOffset; rw [R.pos_eq, hl]; omega
      · have hs' : (r.node r.depth).kids[r.index r.depth]? = some (Node.text s m) := hs
        rcases Nat.lt_or_ge (r.index r.depth) (r.node r.depth).kids.length with h | hge
        · omega
        · rw [List.getElem?_eq_none hge] at hs'
          simp at hs'
  · have := R.index_lt k (by omega)
    simp only [hkd, decide_false, Bool.false_and, Bool.false_eq_true, if_false]
    omega

end Resolved

/-! ### node_before / node_after at a pair-aligned position -/

/-- the position does not fall between the two halves of a surrogate pair of the text child it is in
    (the guard `PairAligned`: Python cannot cut a `str` there) -/
def RPos.pairOk (r : RPos) : Bool :=
  r.textOffset = 0 ||
    match r.parent.kids[r.index r.depth]? with
    | some (.text s _) => splitOk s r.textOffset
    | _ => true

/-- inside a text child: the child and the offset -/
theorem Resolved.in_text {doc : Node} {pos : Nat} {r : RPos} (R : Resolved doc pos r) (ho : r.textOffset ≠ 0) :
    ∃ s m, r.parent.kids[r.index r.depth]? = some (.text s m) ∧ r.textOffset < s.length := by
  rcases R.last with hl | ⟨s, m, hs, hlt⟩
  · exfalso; apply ho; unfold RPos.textOffset; rw [R.pos_eq, hl]; omega
  · refine ⟨s, m, hs, ?_⟩
    unfold RPos.textOffset; rw [R.pos_eq]; exact hlt

theorem nodeBeforeR_ok {doc : Node} {pos : Nat} {r : RPos} (R : Resolved doc pos r) (hp : r.pairOk = true) :
    ∃ v, r.nodeBeforeR = some v ∧ ∀ x, v = some x → x.isLeaf = true ∨ x ∈ r.parent.kids := by
  unfold RPos.nodeBeforeR
  by_cases ho : r.textOffset = 0
  · simp only [ho, ne_eq, not_true_eq_false, if_false]
    by_cases hi : r.index r.depth = 0
    · exact ⟨none, by simp [hi], by simp⟩
    · simp only [hi, if_false]
      have hle := R.index_le r.depth (Nat.le_refl _)
      have hlt : r.index r.depth - 1 < r.parent.kids.length := by
        have : r.parent = r.node r.depth := rfl
        rw [this]; omega
      rw [List.getElem?_eq_getElem hlt]
      exact ⟨_, rfl, fun x hx => by
        simp only [Option.some.injEq] at hx; subst hx; exact .inr (List.getElem_mem _)⟩
  · obtain ⟨s, m, hs, hlt⟩ := R.in_text ho
    have hsp : splitOk s r.textOffset = true := by
      simpa [RPos.pairOk, ho, hs] using hp
    simp only [ne_eq, ho, not_false_eq_true, if_true, hs]
    have hcut : cutText s 0 r.textOffset = .ok ((s.take r.textOffset).drop 0) := by
      unfold cutText
      have h1 : ¬ (r.textOffset = s.length) := by omega
      have h2 : splitOk s 0 = true := rfl
      have h3 : ((s.take r.textOffset).drop 0).isEmpty = false := by
        cases s with
        | nil => simp at hlt
        | cons a as =>
          obtain ⟨k, hk⟩ : ∃ k, r.textOffset = k + 1 := ⟨r.textOffset - 1, by omega⟩
          simp [hk]
      have hne : s ≠ [] := by intro e; subst e; simp at hlt
      simp [h1, h2, hsp, ho, hne]
    simp only [Node.cut, hcut, Except.map]
    exact ⟨_, rfl, fun x hx => by
      simp only [Option.some.injEq] at hx; subst hx; exact .inl rfl⟩

theorem nodeAfterR_ok {doc : Node} {pos : Nat} {r : RPos} (R : Resolved doc pos r) (hp : r.pairOk = true) :
    ∃ v, r.nodeAfterR = some v := by
  unfold RPos.nodeAfterR
  cases hc : r.parent.kids[r.index r.depth]? with
  | none => exact ⟨none, rfl⟩
  | some c =>
    by_cases ho : r.textOffset = 0
    · exact ⟨some c, by simp [ho]⟩
    · obtain ⟨s, m, hs, hlt⟩ := R.in_text ho
      rw [hs] at hc
      simp only [Option.some.injEq] at hc
      subst hc
      have hsp : splitOk s r.textOffset = true := by
        simpa [RPos.pairOk, ho, hs] using hp
      have hcut : cutText s r.textOffset s.length = .ok ((s.take s.length).drop r.textOffset) := by
        unfold cutText
        have h3 : ((s.take s.length).drop r.textOffset).isEmpty = false := by
          simp only [List.take_length, List.isEmpty_eq_false_iff, ne_eq, List.drop_eq_nil_iff, Nat.not_le]
          exact hlt
        simp [ho, hsp, splitOk_length, hlt]
      simp only [ho, if_false, Node.cut, hcut, Except.map]
      exact ⟨_, rfl⟩

/-! ### joinable / can_join / join_point do not raise -/

theorem joinable_isSome (S : Schema) (a b : Option Node)
    (ha : ∀ x, a = some x → x.isLeaf = true ∨ S.checkNode x = true) : ∃ v, S.joinable a b = some v := by
  unfold Schema.joinable
  cases a with
  | none => exact ⟨_, rfl⟩
  | some x =>
    cases b with
    | none => exact ⟨_, rfl⟩
    | some y =>
      simp only
      by_cases hl : x.isLeaf = true
      · exact ⟨false, by simp [hl]⟩
      · have hv : S.checkNode x = true := by
          rcases ha x rfl with h | h
          · exact absurd h hl
          · exact h
        simp only [hl, Bool.false_eq_true, if_false]
        unfold Schema.canAppend
        split
        · obtain ⟨q, hq⟩ := contentMatchAt_isSome S x hv x.kids.length
          unfold Schema.canReplace
          simp only [hq]
          split
          · exact ⟨_, rfl⟩
          · split
            · exact ⟨_, rfl⟩
            · exact ⟨_, rfl⟩
        · exact ⟨_, rfl⟩

theorem canJoinR_isSome (S : Schema) {doc : Node} {pos : Nat} {r : RPos} (R : Resolved doc pos r)
    (hv : S.checkNode doc = true) (hp : r.pairOk = true) : ∃ v, canJoinR S r = some v := by
  obtain ⟨a, ha, hav⟩ := nodeBeforeR_ok R hp
  obtain ⟨b, hb⟩ := nodeAfterR_ok R hp
  have hpv := path_valid S R hv r.depth (Nat.le_refl _)
  obtain ⟨j, hj⟩ := joinable_isSome S a b (fun x hx => by
    rcases hav x hx with h | h
    · exact .inl h
    · exact .inr (checkNode_child S _ _ hpv h))
  unfold canJoinR
  simp only [ha, hb, hj]
  cases j with
  | false => exact ⟨_, rfl⟩
  | true =>
    obtain ⟨c, hc⟩ := nodeCanReplace_isSome S r.parent hpv (r.index r.depth) (r.index r.depth + 1) []
      (R.index_le r.depth (Nat.le_refl _))
    simp only [hc]
    exact ⟨_, rfl⟩

theorem joinTest_isSome (S : Schema) (node : Node) (hpv : S.checkNode node = true) (before after : Option Node)
    (index : Nat) (hb : ∀ x, before = some x → x.isLeaf = true ∨ S.checkNode x = true)
    (hi : index ≤ node.kids.length) : ∃ v, joinTest S node before after index = some v := by
  unfold joinTest
  cases before with
  | none => exact ⟨_, rfl⟩
  | some b =>
    simp only
    split
    · exact ⟨_, rfl⟩
    · obtain ⟨j, hj⟩ := joinable_isSome S (some b) after hb
      simp only [hj]
      cases j with
      | false => exact ⟨_, rfl⟩
      | true => exact nodeCanReplace_isSome S node hpv index (index + 1) [] hi

theorem joinPointHit_isSome (S : Schema) {doc : Node} {pos : Nat} {r : RPos} (R : Resolved doc pos r)
    (hv : S.checkNode doc = true) (hp : r.pairOk = true) (dir : Int) (d : Nat) (hd : d ≤ r.depth) :
    ∃ v, joinPointHit S r dir d = some v := by
  have hpv := path_valid S R hv d hd
  unfold joinPointHit joinSides
  by_cases hdd : d = r.depth
  · subst hdd
    obtain ⟨a, ha, hav⟩ := nodeBeforeR_ok R hp
    obtain ⟨b, hb⟩ := nodeAfterR_ok R hp
    simp only [if_true, ha, hb]
    exact joinTest_isSome S _ hpv a b _ (fun x hx => by
      rcases hav x hx with h | h
      · exact .inl h
      · exact .inr (checkNode_child S _ _ hpv h)) (R.index_le _ hd)
  · simp only [hdd, if_false]
    have hlt := R.index_lt d (by omega)
    have hnext := path_valid S R hv (d + 1) (by omega)
    by_cases hdir : dir > 0
    · simp only [hdir, if_true]
      exact joinTest_isSome S _ hpv _ _ _
        (fun x hx => by simp only [Option.some.injEq] at hx; subst hx; exact .inr hnext) (by omega)
    · simp only [hdir, if_false]
      refine joinTest_isSome S _ hpv _ _ _ (fun x hx => ?_) (by omega)
      split at hx
      · simp at hx
      · exact .inr (checkNode_child S _ _ hpv (List.mem_of_getElem? hx))

theorem joinPointLoop_isSome (S : Schema) {doc : Node} {pos : Nat} {r : RPos} (R : Resolved doc pos r)
    (hv : S.checkNode doc = true) (hp : r.pairOk = true) (dir : Int) :
    ∀ (d q : Nat), d ≤ r.depth → ∃ v, joinPointLoop S r dir d q = some v
  | 0, q, hd => by
    obtain ⟨b, hb⟩ := joinPointHit_isSome S R hv hp dir 0 hd
    unfold joinPointLoop
    simp only [hb]
    cases b <;> exact ⟨_, rfl⟩
  | d + 1, q, hd => by
    obtain ⟨b, hb⟩ := joinPointHit_isSome S R hv hp dir (d + 1) hd
    unfold joinPointLoop
    simp only [hb]
    cases b with
    | true => exact ⟨_, rfl⟩
    | false =>
      simp only
      obtain ⟨s1, h1⟩ := R.before_isSome d (by omega)
      obtain ⟨s2, h2⟩ := R.after_isSome d (by omega)
      by_cases hdir : dir < 0
      · simp only [hdir, if_true, h1]; exact joinPointLoop_isSome S R hv hp dir d s1 (by omega)
      · simp only [hdir, if_false, h2]; exact joinPointLoop_isSome S R hv hp dir d s2 (by omega)

/-! ### insert_point / drop_point do not raise -/

theorem insertLoopStart_isSome (S : Schema) {doc : Node} {pos : Nat} {r : RPos} (R : Resolved doc pos r)
    (hv : S.checkNode doc = true) (ty : TypeId) : ∀ n, n ≤ r.depth → ∃ v, insertLoopStart S r ty n = some v
  | 0, _ => ⟨_, rfl⟩
  | d + 1, hd => by
    obtain ⟨b, hb⟩ := nodeCanReplaceWith_isSome S (r.node d) (path_valid S R hv d (by omega)) (r.index d)
      (r.index d) ty (R.index_le d (by omega))
    unfold insertLoopStart
    simp only [hb]
    cases b with
    | true =>
      obtain ⟨s1, h1⟩ := R.before_isSome d (by omega)
      simp only [h1]; exact ⟨_, rfl⟩
    | false =>
      simp only
      split
      · exact ⟨_, rfl⟩
      · exact insertLoopStart_isSome S R hv ty d (by omega)

theorem insertLoopEnd_isSome (S : Schema) {doc : Node} {pos : Nat} {r : RPos} (R : Resolved doc pos r)
    (hv : S.checkNode doc = true) (ty : TypeId) : ∀ n, n ≤ r.depth → ∃ v, insertLoopEnd S r ty n = some v
  | 0, _ => ⟨_, rfl⟩
  | d + 1, hd => by
    obtain ⟨b, hb⟩ := nodeCanReplaceWith_isSome S (r.node d) (path_valid S R hv d (by omega)) (r.indexAfter d)
      (r.indexAfter d) ty (R.indexAfter_le d (by omega))
    unfold insertLoopEnd
    simp only [hb]
    cases b with
    | true =>
      obtain ⟨s1, h1⟩ := R.after_isSome d (by omega)
      simp only [h1]; exact ⟨_, rfl⟩
    | false =>
      simp only
      split
      · exact ⟨_, rfl⟩
      · exact insertLoopEnd_isSome S R hv ty d (by omega)

theorem insertPointR_isSome (S : Schema) {doc : Node} {pos : Nat} {r : RPos} (R : Resolved doc pos r)
    (hv : S.checkNode doc = true) (ty : TypeId) : ∃ v, insertPointR S r ty = some v := by
  obtain ⟨b, hb⟩ := nodeCanReplaceWith_isSome S r.parent (path_valid S R hv r.depth (Nat.le_refl _))
    (r.index r.depth) (r.index r.depth) ty (R.index_le r.depth (Nat.le_refl _))
  unfold insertPointR
  simp only [hb]
  cases b with
  | true => exact ⟨_, rfl⟩
  | false =>
    simp only
    obtain ⟨v1, h1⟩ := insertLoopStart_isSome S R hv ty r.depth (Nat.le_refl _)
    obtain ⟨v2, h2⟩ := insertLoopEnd_isSome S R hv ty r.depth (Nat.le_refl _)
    have fin : ∃ v, (if r.parentOffset = fsize r.parent.kids then
        match insertLoopEnd S r ty r.depth with
        | none => none
        | some (some res) => some res
        | some none => some none
      else (some none : Option (Option Nat))) = some v := by
      split
      · rw [h2]; rcases v2 with _ | res <;> exact ⟨_, rfl⟩
      · exact ⟨_, rfl⟩
    by_cases h0 : r.parentOffset = 0
    · rw [if_pos h0, h1]
      rcases v1 with _ | res
      · exact fin
      · exact ⟨_, rfl⟩
    · rw [if_neg h0]
      exact fin

theorem dropContent_isSome : ∀ (n : Nat) (c : List Node), n ≤ spineL c → ∃ c', dropContent n c = some c'
  | 0, c, _ => ⟨c, rfl⟩
  | n + 1, c, h => by
    cases c with
    | nil => simp [spineL] at h
    | cons x rest =>
      cases x with
      | elem t a m kids =>
        simp only [spineL] at h
        simp only [dropContent, Node.kids]
        exact dropContent_isSome n kids (by omega)
      | text => simp [spineL] at h
      | leaf => simp [spineL] at h

theorem dropFits_isSome (S : Schema) {doc : Node} {pos : Nat} {r : RPos} (R : Resolved doc pos r)
    (hv : S.checkNode doc = true) (content : List Node) (pass2 : Bool) (hne : pass2 = true → content ≠ [])
    (d : Nat) (hd : d ≤ r.depth) : ∃ v, dropFits S r content pass2 d = some v := by
  have hpv := path_valid S R hv d hd
  have hi : r.index d + (if dropBias r d > 0 then 1 else 0) ≤ (r.node d).kids.length := by
    split
    · rename_i hb
      have hne' : d ≠ r.depth := by
        intro e; simp [dropBias, e] at hb
      have := R.index_lt d (by omega); omega
    · have := R.index_le d hd; omega
  unfold dropFits
  simp only
  generalize r.index d + (if dropBias r d > 0 then 1 else 0) = ip at hi ⊢
  cases pass2 with
  | false =>
    simp only [Bool.not_false, if_true]
    exact nodeCanReplace_isSome S _ hpv ip ip content hi
  | true =>
    simp only [Bool.not_true, Bool.false_eq_true, if_false]
    cases content with
    | nil => exact absurd rfl (hne rfl)
    | cons first rest =>
      simp only
      rw [if_neg (by omega)]
      obtain ⟨q, hq⟩ := contentMatchAt_isSome S (r.node d) hpv ip
      simp only [hq]
      split
      · exact nodeCanReplaceWith_isSome S _ hpv ip ip _ hi
      · exact ⟨_, rfl⟩

theorem dropLoop_isSome (S : Schema) {doc : Node} {pos : Nat} {r : RPos} (R : Resolved doc pos r)
    (hv : S.checkNode doc = true) (content : List Node) (pass2 : Bool) (hne : pass2 = true → content ≠ []) :
    ∀ n, n ≤ r.depth + 1 → ∃ v, dropLoop S r content pass2 n = some v
  | 0, _ => ⟨_, rfl⟩
  | d + 1, hd => by
    obtain ⟨b, hb⟩ := dropFits_isSome S R hv content pass2 hne d (by omega)
    unfold dropLoop
    simp only [hb]
    cases b with
    | false => exact dropLoop_isSome S R hv content pass2 hne d (by omega)
    | true =>
      simp only
      obtain ⟨s1, h1⟩ := R.before_isSome d (by omega)
      obtain ⟨s2, h2⟩ := R.after_isSome d (by omega)
      by_cases h0 : dropBias r d = 0
      · rw [if_pos h0]; exact ⟨_, rfl⟩
      · rw [if_neg h0]
        by_cases hneg : dropBias r d < 0
        · rw [if_pos hneg, h1]; exact ⟨_, rfl⟩
        · rw [if_neg hneg, h2]; exact ⟨_, rfl⟩

theorem dropPointR_isSome (S : Schema) {doc : Node} {pos : Nat} {r : RPos} (R : Resolved doc pos r)
    (hv : S.checkNode doc = true) (sl : Slice) (hopen : sl.openStart ≤ spineL sl.content) :
    ∃ v, dropPointR S r sl = some v := by
  unfold dropPointR
  by_cases hz : fsize sl.content = 0
  · rw [if_pos hz]; exact ⟨_, rfl⟩
  · rw [if_neg hz]
    obtain ⟨c, hc⟩ := dropContent_isSome sl.openStart sl.content hopen
    simp only [hc]
    obtain ⟨v1, h1⟩ := dropLoop_isSome S R hv c false (by simp) (r.depth + 1) (Nat.le_refl _)
    rw [h1]
    rcases v1 with _ | p
    · simp only
      split
      · rename_i hcond
        simp only [Bool.and_eq_true, decide_eq_true_eq] at hcond
        have hcs : c = sl.content := by
          rw [hcond.1] at hc
          simpa [dropContent] using hc.symm
        have hne : c ≠ [] := by
          intro e; rw [hcs] at e; rw [e] at hz; exact hz rfl
        exact dropLoop_isSome S R hv c true (fun _ => hne) (r.depth + 1) (Nat.le_refl _)
      · exact ⟨_, rfl⟩
    · exact ⟨_, rfl⟩

/-! ### lift_target, can_split, can_change_type, find_wrapping do not raise -/

theorem canCut_isSome (S : Schema) (n : Node) (hv : S.checkNode n = true) (start end_ : Nat)
    (hs : start ≤ n.kids.length) : ∃ v, S.canCut n start end_ = some v := by
  unfold Schema.canCut
  simp only
  obtain ⟨b1, h1⟩ := nodeCanReplace_isSome S n hv start n.kids.length [] hs
  obtain ⟨b2, h2⟩ := nodeCanReplace_isSome S n hv 0 end_ [] (Nat.zero_le _)
  have fin : ∃ v, (if end_ = n.kids.length then some true else S.nodeCanReplace n 0 end_ []) = some v := by
    split
    · exact ⟨_, rfl⟩
    · exact ⟨_, h2⟩
  by_cases h0 : start = 0
  · rw [if_pos h0]; exact fin
  · rw [if_neg h0, h1]
    cases b1 with
    | false => exact ⟨_, rfl⟩
    | true => exact fin

theorem liftLoop_isSome (S : Schema) {doc : Node} {pos : Nat} {f : RPos} (R : Resolved doc pos f)
    (hv : S.checkNode doc = true) (t : RPos) (rd : Nat) (content : List Node) :
    ∀ n, n ≤ f.depth → ∃ v, liftLoop S f t rd content n = some v := by
  have hit : ∀ n, n ≤ f.depth → ∃ v, liftHit S f t rd content n = some v := by
    intro n hn
    unfold liftHit
    split
    · exact nodeCanReplace_isSome S _ (path_valid S R hv n hn) _ _ _ (R.index_le n hn)
    · exact ⟨_, rfl⟩
  intro n
  induction n with
  | zero =>
    intro hn
    obtain ⟨b, hb⟩ := hit 0 hn
    unfold liftLoop
    simp only [hb]
    cases b <;> exact ⟨_, rfl⟩
  | succ d ih =>
    intro hn
    obtain ⟨b, hb⟩ := hit (d + 1) hn
    unfold liftLoop
    simp only [hb]
    cases b with
    | true => exact ⟨_, rfl⟩
    | false =>
      simp only
      split
      · exact ⟨_, rfl⟩
      · obtain ⟨c, hc⟩ := canCut_isSome S _ (path_valid S R hv (d + 1) hn) (f.index (d + 1)) (t.indexAfter (d + 1))
          (R.index_le (d + 1) hn)
        simp only [hc]
        cases c with
        | false => exact ⟨_, rfl⟩
        | true => exact ih (by omega)

theorem splitLoop_isSome (S : Schema) {doc : Node} {pos : Nat} {r : RPos} (R : Resolved doc pos r)
    (hv : S.checkNode doc = true) (base : Nat) :
    ∀ n, base + n + 1 ≤ r.depth → ∃ v, splitLoop S r base n = some v
  | 0, h => by
    unfold splitLoop
    rw [if_neg (by omega)]
    exact nodeCanReplaceWith_isSome S _ (path_valid S R hv base (by omega)) _ _ _ (R.indexAfter_le base (by omega))
  | n + 1, h => by
    unfold splitLoop
    simp only
    split
    · exact ⟨_, rfl⟩
    · have hlt := R.index_lt (base + n + 1) (by omega)
      obtain ⟨b, hb⟩ := nodeCanReplace_isSome S _ (path_valid S R hv (base + n + 1) (by omega))
        (r.index (base + n + 1) + 1) (r.node (base + n + 1)).kids.length [] (by omega)
      simp only [hb]
      cases b with
      | false => exact ⟨_, rfl⟩
      | true =>
        simp only
        split
        · exact ⟨_, rfl⟩
        · exact splitLoop_isSome S R hv base n (by omega)

theorem canSplitR_isSome (S : Schema) {doc : Node} {pos : Nat} {r : RPos} (R : Resolved doc pos r)
    (hv : S.checkNode doc = true) (depth : Nat) (hd : 1 ≤ depth) : ∃ v, canSplitR S r depth = some v := by
  unfold canSplitR
  by_cases hlt : r.depth < depth
  · rw [if_pos hlt]; exact ⟨_, rfl⟩
  · rw [if_neg hlt]
    simp only
    split
    · exact ⟨_, rfl⟩
    · obtain ⟨b, hb⟩ := nodeCanReplace_isSome S r.parent (path_valid S R hv r.depth (Nat.le_refl _))
        (r.index r.depth) r.parent.kids.length [] (R.index_le r.depth (Nat.le_refl _))
      simp only [hb]
      cases b with
      | false => exact ⟨_, rfl⟩
      | true =>
        simp only
        split
        · exact ⟨_, rfl⟩
        · exact splitLoop_isSome S R hv (r.depth - depth) (depth - 1) (by omega)

theorem insideLoop_isSome (S : Schema) (d : Dfa) : ∀ (kids : List Node) (n q : Nat), n ≤ kids.length →
    ∃ v, insideLoop S d kids n q = some v
  | kids, 0, q, _ => ⟨some q, by cases kids <;> simp [insideLoop]⟩
  | [], n + 1, q, h => by simp at h
  | c :: rest, n + 1, q, h => by
    simp only [insideLoop]
    split
    · exact ⟨_, rfl⟩
    · exact insideLoop_isSome S d rest n _ (by simpa using h)

theorem findWrappingR_isSome (S : Schema) {doc : Node} {a : Nat} {f t : RPos} (Rf : Resolved doc a f)
    (hv : S.checkNode doc = true) (depth : Nat) (ty : TypeId) (hdf : depth ≤ f.depth) (hdt : depth ≤ t.depth)
    (hstart : f.index depth < (f.node depth).kids.length)
    (hend : t.indexAfter depth ≤ (f.node depth).kids.length) :
    ∃ v, findWrappingR S f t depth ty = some v := by
  have hpv := path_valid S Rf hv depth hdf
  unfold findWrappingR
  rw [if_neg (by simp; omega)]
  simp only
  have hout : ∃ v, findWrappingOutside S (f.node depth) (f.index depth) (t.indexAfter depth) ty = some v := by
    unfold findWrappingOutside
    rw [if_neg (by omega)]
    obtain ⟨q, hq⟩ := contentMatchAt_isSome S _ hpv (f.index depth)
    rw [hq]
    dsimp only
    split
    · exact ⟨_, rfl⟩
    · rename_i around _
      obtain ⟨c, hc⟩ := nodeCanReplaceWith_isSome S _ hpv (f.index depth) (t.indexAfter depth)
        (wrapHead around ty) (by omega)
      rw [hc]
      cases c <;> exact ⟨_, rfl⟩
  have hin : ∃ v, findWrappingInside S (f.node depth) (f.index depth) (t.indexAfter depth) ty = some v := by
    unfold findWrappingInside
    rw [List.getElem?_eq_getElem hstart]
    dsimp only
    split
    · exact ⟨_, rfl⟩
    · rename_i inside _
      obtain ⟨w, hw⟩ := insideLoop_isSome S
        (S.dfa (wrapLast inside ty))
        ((f.node depth).kids.drop (f.index depth)) (t.indexAfter depth - f.index depth) 0
        (by simp only [List.length_drop]; omega)
      rw [hw]
      rcases w with _ | q
      · exact ⟨_, rfl⟩
      · dsimp only
        split <;> exact ⟨_, rfl⟩
  obtain ⟨o, ho⟩ := hout
  obtain ⟨i, hi⟩ := hin
  simp only [ho]
  rcases o with _ | around
  · exact ⟨_, rfl⟩
  · simp only [hi]
    rcases i with _ | inner <;> exact ⟨_, rfl⟩

end PM
