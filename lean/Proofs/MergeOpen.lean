/-
  Proofs/MergeOpen.lean — C16: the merged replace step applies whenever the two steps it replaces
  apply one after the other, for slices that are open on their outer sides.

  Route: the merged step is compared with the step "put the slice cut from the pair's result `K2`
  over the same range of `K`", which succeeds by `replaceKids_undoG` (Proofs/UndoInverse.lean) given
    * `LeftRel K K2 f` (nothing changed left of `f`: equal tokens),
    * `RightRel S K T K2 E` (right of the range: the two forward steps' `replaceKids_rrel`, moved along
      and composed — this is where transitivity of `compatible_content` is needed).
  The merged slice and that cut differ only in the markup of their left-spine nodes
  (`lspineEq_of_toks`), which `replace` looks at only in the `check_join`s the first (resp. second) step
  already made (`replaceKids_lcompat`, `replaceKids_lcongr` of Proofs/SpineCongr.lean).
-/
import Proofs.SpineCongr
import Proofs.Merge
import Proofs.FlatReplace
namespace PM

/-! ### balance of slice tokens -/

theorem balance_take_spineL (M : List Node) (a : Nat) (h : a ≤ spineL M) :
    balance ((ftoks M).take a) = a := by
  have hs := spineL_le M
  have := depthAt_balance M a (by omega)
  rw [depthAt_spineL M a h] at this
  exact this.symm

theorem balance_take_spineR (M : List Node) (b : Nat) (h : b ≤ spineR M) :
    balance ((ftoks M).take (fsize M - b)) = b := by
  have := depthAt_balance M (fsize M - b) (by omega)
  rw [depthAt_spineR M b h] at this
  exact this.symm

theorem take_add_drop {α} (T : List α) (a i : Nat) : T.take (a + i) = T.take a ++ (T.drop a).take i := by
  rw [List.take_add]

/-- every prefix of a slice's tokens closes at most the `openStart` levels its left side opens -/
theorem sliceToks_balance_ge (s : Slice) (hwf : s.wf = true) (i : Nat) :
    -(s.openStart : Int) ≤ balance (s.toks.take i) := by
  simp only [Slice.wf, Bool.and_eq_true, decide_eq_true_eq] at hwf
  simp only [Slice.toks, List.take_take]
  have h1 := take_add_drop (ftoks s.content) s.openStart (min i (fsize s.content - s.openStart - s.openEnd))
  have h2 := balance_prefix_nonneg s.content (s.openStart + min i (fsize s.content - s.openStart - s.openEnd))
  rw [h1, balance_append, balance_take_spineL _ _ hwf.1] at h2
  omega

theorem sliceToks_balance (s : Slice) (hwf : s.wf = true) :
    balance s.toks = (s.openEnd : Int) - s.openStart := by
  have ho := wf_opens_le hwf
  simp only [Slice.wf, Bool.and_eq_true, decide_eq_true_eq] at hwf
  simp only [Slice.toks]
  have h1 := take_add_drop (ftoks s.content) s.openStart (fsize s.content - s.openStart - s.openEnd)
  have e : s.openStart + (fsize s.content - s.openStart - s.openEnd) = fsize s.content - s.openEnd := by
    omega
  rw [e] at h1
  have h2 := balance_take_spineR _ _ hwf.2
  rw [h1, balance_append, balance_take_spineL _ _ hwf.1] at h2
  omega

/-! ### the last `b` tokens of content open `b` levels on the right are closes -/

theorem drop_spineR : ∀ (M : List Node) (b : Nat), b ≤ spineR M →
    (ftoks M).drop (fsize M - b) = List.replicate b Tok.cl
  | [], b, h => by
    have : b = 0 := by simpa [spineR] using h
    subst this; simp
  | [.text s m], b, h => by
    have : b = 0 := by simpa [spineR] using h
    subst this
    rw [Nat.sub_zero, List.drop_of_length_le (by rw [ftoks_length]; exact Nat.le_refl _)]; rfl
  | [.leaf t a m], b, h => by
    have : b = 0 := by simpa [spineR] using h
    subst this
    rw [Nat.sub_zero, List.drop_of_length_le (by rw [ftoks_length]; exact Nat.le_refl _)]; rfl
  | [.elem ty a m k], b, h => by
    cases b with
    | zero =>
      rw [Nat.sub_zero, List.drop_of_length_le (by rw [ftoks_length]; exact Nat.le_refl _)]; rfl
    | succ b =>
      simp only [spineR_elem_single] at h
      have hs := spineR_le k
      have ih := drop_spineR k b (by omega)
      simp only [ftoks_cons, ftoks_nil, List.append_nil, Node.toks_elem, fsize_cons, fsize_nil,
        Node.size_elem, Nat.add_zero]
      rw [show 2 + fsize k - (b + 1) = (fsize k - b) + 1 by omega, List.drop_succ_cons,
        drop_app_le _ _ _ (by rw [ftoks_length]; omega), ih, replicate_snoc]
  | x :: n :: ns, b, h => by
    have e : spineR (x :: n :: ns) = spineR (n :: ns) := by
      conv => lhs; unfold spineR
      cases x <;> rfl
    rw [e] at h
    have hs := spineR_le (n :: ns)
    have ih := drop_spineR (n :: ns) b h
    rw [ftoks_cons, fsize_cons, drop_app_ge _ _ _ (by rw [Node.toks_length]; omega), Node.toks_length,
      show x.size + fsize (n :: ns) - b - x.size = fsize (n :: ns) - b by omega]
    exact ih

/-- two slices open alike with the same tokens: the contents agree beyond the left opens -/
theorem drop_of_sliceToks_eq (M0 M : List Node) (a b : Nat) (ha0 : a ≤ spineL M0) (hb0 : b ≤ spineR M0)
    (ha : a ≤ spineL M) (hb : b ≤ spineR M)
    (h : (Slice.mk M0 a b).toks = (Slice.mk M a b).toks) :
    (ftoks M0).drop a = (ftoks M).drop a := by
  have s0 := spine_sum_le M0
  have s1 := spine_sum_le M
  simp only [Slice.toks] at h
  have hlen := congrArg List.length h
  simp only [List.length_take, List.length_drop, ftoks_length] at hlen
  have hsz : fsize M0 = fsize M := by omega
  have d0 := List.take_append_drop (fsize M0 - a - b) ((ftoks M0).drop a)
  have d1 := List.take_append_drop (fsize M - a - b) ((ftoks M).drop a)
  rw [List.drop_drop] at d0 d1
  rw [show a + (fsize M0 - a - b) = fsize M0 - b by omega, drop_spineR M0 b hb0] at d0
  rw [show a + (fsize M - a - b) = fsize M - b by omega, drop_spineR M b hb] at d1
  rw [← d0, ← d1, h]

/-! ### relabelling the left spine -/

/-- `M` with the markup of its left-spine nodes (`a` levels) taken from `M0` -/
def relabelBy : Nat → List Node → List Node → List Node
  | a + 1, .elem ty at_ m k0 :: _, .elem _ _ _ k :: rest => .elem ty at_ m (relabelBy a k0 k) :: rest
  | _, _, M => M

theorem relabelBy_zero (M0 M : List Node) : relabelBy 0 M0 M = M := by
  unfold relabelBy; rfl

theorem relabelBy_succ (a : Nat) (ty : TypeId) (at_ : Attrs) (m : Marks) (k0 r0 : List Node)
    (ty' : TypeId) (at' : Attrs) (m' : Marks) (k rest : List Node) :
    relabelBy (a + 1) (.elem ty at_ m k0 :: r0) (.elem ty' at' m' k :: rest)
      = .elem ty at_ m (relabelBy a k0 k) :: rest := by
  conv => lhs; unfold relabelBy

theorem relabelBy_toks : ∀ (a : Nat) (M0 M : List Node), a ≤ spineL M0 → a ≤ spineL M →
    ftoks (relabelBy a M0 M) = (ftoks M0).take a ++ (ftoks M).drop a
  | 0, M0, M, _, _ => by simp [relabelBy_zero]
  | a + 1, M0, M, h0, h => by
    obtain ⟨ty0, at0, m0, k0, r0, rfl, hak0, hk0⟩ := spineL_pos_decomp h0
    obtain ⟨ty, at_, m, k, rest, rfl, hak, hk⟩ := spineL_pos_decomp h
    rw [relabelBy_succ, ftoks_cons, ftoks_cons, ftoks_cons, take_elem_toks _ _ _ _ _ _ (by omega) (by omega),
      drop_elem_toks _ _ _ _ _ _ (by omega) (by simpa using hk), Node.toks_elem,
      relabelBy_toks a k0 k hak0 hak]
    simp

theorem sameKind_elem' (t : TypeId) (a : Attrs) (m : Marks) (k : List Node) (t' : TypeId) (a' : Attrs)
    (m' : Marks) (k' : List Node) : sameKind (.elem t a m k) (.elem t' a' m' k') :=
  ⟨fun x => by cases x <;> simp [adjOk], fun y => by cases y <;> simp [adjOk]⟩

theorem relabelBy_norm : ∀ (a : Nat) (M0 M : List Node), a ≤ spineL M0 → a ≤ spineL M →
    fnorm M = true → fnorm (relabelBy a M0 M) = true
  | 0, M0, M, _, _, hn => by rw [relabelBy_zero]; exact hn
  | a + 1, M0, M, h0, h, hn => by
    obtain ⟨ty0, at0, m0, k0, r0, rfl, hak0, hk0⟩ := spineL_pos_decomp h0
    obtain ⟨ty, at_, m, k, rest, rfl, hak, hk⟩ := spineL_pos_decomp h
    rw [relabelBy_succ]
    have hnk := fnorm_elem_kids hn
    have ih := relabelBy_norm a k0 k hak0 hak hnk
    simp only [fnorm, Bool.and_eq_true, fnormKids_cons, Node.norm_elem] at hn ⊢
    simp only [fnorm, Bool.and_eq_true] at ih
    refine ⟨⟨ih, hn.1.2⟩, ?_⟩
    rw [chainOk_cons_sameKind (sameKind_elem' ty at_ m k ty0 at0 m0 (relabelBy a k0 k))]
    exact hn.2

theorem relabelBy_size : ∀ (a : Nat) (M0 M : List Node), a ≤ spineL M0 → a ≤ spineL M →
    fsize (relabelBy a M0 M) = fsize M
  | 0, M0, M, _, _ => by rw [relabelBy_zero]
  | a + 1, M0, M, h0, h => by
    obtain ⟨ty0, at0, m0, k0, r0, rfl, hak0, hk0⟩ := spineL_pos_decomp h0
    obtain ⟨ty, at_, m, k, rest, rfl, hak, hk⟩ := spineL_pos_decomp h
    rw [relabelBy_succ]
    simp only [fsize_cons, Node.size_elem, relabelBy_size a k0 k hak0 hak]

theorem relabelBy_lspine : ∀ (a : Nat) (M0 M : List Node), a ≤ spineL M0 → a ≤ spineL M →
    LSpineEq a (relabelBy a M0 M) M
  | 0, M0, M, _, _ => by rw [relabelBy_zero]; exact .zero M
  | a + 1, M0, M, h0, h => by
    obtain ⟨ty0, at0, m0, k0, r0, rfl, hak0, hk0⟩ := spineL_pos_decomp h0
    obtain ⟨ty, at_, m, k, rest, rfl, hak, hk⟩ := spineL_pos_decomp h
    rw [relabelBy_succ]
    exact .succ (by rw [relabelBy_size a k0 k hak0 hak]; exact hk) hk (relabelBy_lspine a k0 k hak0 hak)

/-- **normal-form contents that agree beyond their `a` left opens differ only in left-spine markup** -/
theorem lspineEq_of_toks (M0 M : List Node) (a : Nat) (h0 : fnorm M0 = true) (h : fnorm M = true)
    (ha0 : a ≤ spineL M0) (ha : a ≤ spineL M) (htk : (ftoks M0).drop a = (ftoks M).drop a) :
    LSpineEq a M0 M := by
  have e : relabelBy a M0 M = M0 := by
    apply ftoks_inj _ _ (relabelBy_norm a M0 M ha0 ha h) h0
    rw [relabelBy_toks a M0 M ha0 ha, ← htk, List.take_append_drop]
  have := relabelBy_lspine a M0 M ha0 ha
  rwa [e] at this

/-! ### the merged content has at least two children when it is open on both sides -/

theorem addNode_cons_elem_ne (ty : TypeId) (a : Attrs) (m : Marks) (k x : List Node) (c : Node) :
    ∃ x', addNode (.elem ty a m k :: x) c = .elem ty a m k :: x' ∧ x' ≠ [] := by
  cases x with
  | nil =>
    refine ⟨[c], ?_, by simp⟩
    unfold addNode
    split
    · rename_i h; simp at h
    · rfl
  | cons y ys =>
    unfold addNode
    split
    · split
      · rename_i s1 m1 s2 m2 _ _
        exact ⟨(y :: ys).dropLast ++ [Node.text (s1 ++ s2) m1], by
          simp only [List.dropLast_cons_cons, List.cons_append], by simp⟩
      · exact ⟨_, rfl, by simp⟩
    · exact ⟨_, rfl, by simp⟩

theorem fappend_two (c c' : List Node) (a b : Nat) (ha : a + 1 ≤ spineL c) (hb : b + 1 ≤ spineR c') :
    2 ≤ (fappend c c').length := by
  obtain ⟨ty, at_, m, k, rest, rfl, _, _⟩ := spineL_pos_decomp ha
  cases c' with
  | nil => simp [spineR] at hb
  | cons y ys =>
    obtain ⟨x', hx, hne⟩ := addNode_cons_elem_ne ty at_ m k rest y
    simp only [fappend, List.isEmpty_cons, Bool.false_eq_true, if_false, hx]
    cases x' with
    | nil => exact absurd rfl hne
    | cons z zs => simp

/-! ### the merged slice: well-formedness -/

theorem fappend_spineL (c c' : List Node) (a : Nat) (ha : a ≤ spineL c) : a ≤ spineL (fappend c c') := by
  cases a with
  | zero => omega
  | succ a =>
    obtain ⟨ty, at_, m, k, rest, rfl, _, _⟩ := spineL_pos_decomp ha
    obtain ⟨x', hx⟩ := fappend_cons_elem ty at_ m k rest c'
    rw [hx, spineL_cons_congr _ x' rest]
    exact ha

theorem fappend_spineR (c c' : List Node) (b : Nat) (hb : b ≤ spineR c') : b ≤ spineR (fappend c c') := by
  by_cases hb0 : b = 0
  · omega
  obtain ⟨ty, at_, m, k, hl, _⟩ := spineR_pos_last hb hb0
  have hM := getLast?_decomp hl
  obtain ⟨x', hx⟩ := fappend_snoc_elem ty at_ m k c c'.dropLast
  rw [← hM] at hx
  rw [hx, spineR_concat]
  rw [hM, spineR_concat] at hb
  exact hb

theorem sliceToks_empty_content (c : List Node) (a b : Nat) (hn : fnorm c = true)
    (ha : a ≤ spineL c) (hb : b ≤ spineR c) (hab : a = 0 ∨ b = 0)
    (h : (Slice.mk c a b).toks.length = 0) : c = [] := by
  have h1 := spineL_le c
  have h2 := spineR_le c
  have h3 := spine_sum_le c
  simp only [Slice.toks, List.length_take, List.length_drop, ftoks_length] at h
  rw [Nat.min_eq_left (by omega)] at h
  exact fsize_zero_of_fnormKids c (fnormKids_of_fnorm hn) (by omega)

theorem take_splice {α} (P X Q : List α) (i : Nat) (hi : i ≤ X.length) :
    (P ++ X ++ Q).take (P.length + i) = P ++ X.take i := by
  rw [List.append_assoc, List.take_length_add_append, take_app_le _ _ _ hi]

/-! ### the core: a slice `A ++ B` closed at the seam goes over `f … T` of `K` when the result is known -/

/-- `K2` is valid, in normal form and reads `K[..f] ++ A ++ B ++ K[T..]`, where `A` is closed on the
    right and `B` on the left; the right-hand sides are related (`hR`), the depths fit (`hda`, `hdb`),
    and `from`'s ancestors join with `A`'s left spine (`hc`).  Then the replace with the merged slice
    succeeds and yields `K2`. -/
theorem replaceKids_merged (S : Schema) (ty : TypeId) (K K2 : List Node) (f T : Nat) (cA cB : List Node)
    (a b : Nat) (hnK : fnorm K = true) (hvc : S.validContent ty K2 = true)
    (hv : S.checkKids K2 = true) (hn2 : fnorm K2 = true)
    (hnA : fnorm cA = true) (hnB : fnorm cB = true) (haA : a ≤ spineL cA) (hbB : b ≤ spineR cB)
    (hfT : f ≤ T) (hT : T ≤ fsize K)
    (htk : ftoks K2 = (ftoks K).take f ++ ((Slice.mk cA a 0).toks ++ (Slice.mk cB 0 b).toks)
      ++ (ftoks K).drop T)
    (haf : alignedAt K f = true) (haf2 : alignedAt K2 f = true)
    (hR : RightRel S K T K2 (f + (Slice.mk cA a 0).toks.length + (Slice.mk cB 0 b).toks.length))
    (hda : a ≤ depthAt K f) (hdb : depthAt K f - a + b = depthAt K T)
    (hc : lcompat S K f (depthAt K f - a) cA a = true) :
    replaceKids S ty K f T ⟨fappend cA cB, a, b⟩ = .ok K2 := by
  -- names
  have hsA := spineL_le cA
  have hsB := spineR_le cB
  have hwfA : (Slice.mk cA a 0).wf = true := by simp [Slice.wf, haA]
  have hwfB : (Slice.mk cB 0 b).wf = true := by simp [Slice.wf, hbB]
  have hmt : (Slice.mk (fappend cA cB) a b).toks = (Slice.mk cA a 0).toks ++ (Slice.mk cB 0 b).toks :=
    merged_toks cA cB a b (by omega) (by omega)
  generalize hTA : (Slice.mk cA a 0).toks = TA at *
  generalize hTB : (Slice.mk cB 0 b).toks = TB at *
  have hnM : fnorm (fappend cA cB) = true := fappend_norm _ _ hnA hnB
  have haM := fappend_spineL cA cB a haA
  have hbM := fappend_spineR cA cB b hbB
  have hlenK := ftoks_length K
  have hf : f ≤ fsize K := by omega
  have hPlen : ((ftoks K).take f).length = f := by simp; omega
  have hsz2 : fsize K2 = f + TA.length + TB.length + (fsize K - T) := by
    have := congrArg List.length htk
    simp only [List.length_append, List.length_drop, ftoks_length, hPlen] at this
    omega
  -- left of `f`
  have hL : LeftRel K K2 f := by
    refine leftRel_of_toks K K2 f hnK hn2 hf (by omega) haf ?_
    rw [htk, List.append_assoc, take_app_le _ _ _ (by rw [hPlen]; exact Nat.le_refl _), List.take_take,
      Nat.min_self]
  -- the lcompat fact for the merged content
  have hcM : lcompat S K f (depthAt K f - a) (fappend cA cB) a = true := by
    cases a with
    | zero => exact lcompat_zero S _ _ _ _
    | succ a =>
      obtain ⟨ty1, at1, m1, k1, rest, rfl, _, _⟩ := spineL_pos_decomp haA
      obtain ⟨x', hx⟩ := fappend_cons_elem ty1 at1 m1 k1 rest cB
      rw [hx, lcompat_head S _ x' rest]
      exact hc
  have hE2 : f + TA.length + TB.length ≤ fsize K2 := by omega
  by_cases hemp : TA.length + TB.length = 0
  · -- nothing inserted: the merged slice is the empty slice
    have hA0 : cA = [] := sliceToks_empty_content cA a 0 hnA haA (by omega) (.inr rfl) (by rw [hTA]; omega)
    have hB0 : cB = [] := sliceToks_empty_content cB 0 b hnB (by omega) hbB (.inl rfl) (by rw [hTB]; omega)
    subst hA0; subst hB0
    have ha0 : a = 0 := by simpa [spineL] using haA
    have hb0 : b = 0 := by simpa [spineR] using hbB
    subst ha0; subst hb0
    have hs : sliceKids K2 f f = .ok Slice.empty := by simp [sliceKids]
    have hR' : RightRel S K T K2 f := by
      have e : f + TA.length + TB.length = f := by omega
      rwa [e] at hR
    obtain ⟨X, hX⟩ := replaceKids_undoG S ty K2 K f f T Slice.empty hvc hv hn2 hnK (Nat.le_refl _)
      (by omega) hfT hs hL hR'
    have hXn := replaceKids_norm S ty K f T _ X hnK (by simp [Slice.empty, fnorm, chainOk]) hX
    have hXt := replaceKids_toks S ty K f T _ X hX
    have : X = K2 := by
      apply ftoks_inj _ _ hXn hn2
      have z1 : TA = [] := List.eq_nil_of_length_eq_zero (by omega)
      have z2 : TB = [] := List.eq_nil_of_length_eq_zero (by omega)
      rw [hXt, htk, z1, z2]
      simp [Slice.toks, Slice.empty]
    subst this
    exact hX
  · -- the slice cut from the result
    have hfE : f < f + TA.length + TB.length := by omega
    obtain ⟨old, hs⟩ := sliceKids_total K2 f (f + TA.length + TB.length) (by omega) hE2 haf2
      hR.aligned.2 hn2
    have hspec := sliceKids_spec K2 f _ old hfE hE2 hs
    obtain ⟨hon, howf⟩ := hspec.norm hn2
    have hotk : old.toks = TA ++ TB := by
      rw [hspec.toks, htk, List.append_assoc, drop_app_ge _ _ _ (by omega), hPlen, Nat.sub_self,
        List.drop_zero, take_app_le _ _ _ (by simp; omega),
        List.take_of_length_le (by simp; omega)]
    -- the cut is open exactly like the merged slice
    have hbalP : balance ((ftoks K).take f) = (depthAt K f : Int) := (depthAt_balance K f hf).symm
    have hbalA : balance TA = -(a : Int) := by
      have := sliceToks_balance _ hwfA
      rw [hTA] at this; simp at this; omega
    have key : ∀ i, i ≤ TA.length + TB.length →
        ((depthAt K f - a : Nat) : Int) ≤ balance ((ftoks K2).take (f + i)) := by
      intro i hi
      have e1 : (ftoks K2).take (f + i) = (ftoks K).take f ++ (TA ++ TB).take i := by
        have := take_splice ((ftoks K).take f) (TA ++ TB) ((ftoks K).drop T) i (by simp; omega)
        rw [hPlen] at this
        rw [htk, this]
      rw [e1, balance_append, hbalP]
      by_cases hiA : i ≤ TA.length
      · rw [take_app_le _ _ _ hiA]
        have := sliceToks_balance_ge _ hwfA i
        rw [hTA] at this; simp only at this
        omega
      · rw [take_app_ge _ _ _ (by omega), balance_append, hbalA]
        have := sliceToks_balance_ge _ hwfB (i - TA.length)
        rw [hTB] at this; simp only at this
        omega
    have seam : balance ((ftoks K2).take (f + TA.length)) = ((depthAt K f - a : Nat) : Int) := by
      have e1 : (ftoks K2).take (f + TA.length) = (ftoks K).take f ++ TA := by
        have := take_splice ((ftoks K).take f) (TA ++ TB) ((ftoks K).drop T) TA.length (by simp)
        rw [hPlen] at this
        rw [htk, this, List.take_left']
        rfl
      rw [e1, balance_append, hbalP, hbalA]
      omega
    obtain ⟨sh, o1, o2, o3, k0, k1, k2, k3⟩ := hspec.opens
    have hsh : sh = depthAt K f - a := by
      have u1 := o3 (f + TA.length) (by omega) (by omega)
      rw [seam] at u1
      have u2 := key (k0 - f) (by omega)
      rw [show f + (k0 - f) = k0 by omega, ← k3] at u2
      omega
    have hoS : old.openStart = a := by
      have := hL.depth
      omega
    have hoE : old.openEnd = b := by
      have := hR.depth
      omega
    have hold : old = ⟨old.content, a, b⟩ := by
      cases old; simp only at hoS hoE; subst hoS; subst hoE; rfl
    simp only [Slice.wf, Bool.and_eq_true, decide_eq_true_eq] at howf
    rw [hoS, hoE] at howf
    have hse : LSpineEq a old.content (fappend cA cB) := by
      refine lspineEq_of_toks _ _ a hon hnM howf.1 haM ?_
      refine drop_of_sliceToks_eq _ _ a b howf.1 howf.2 haM hbM ?_
      rw [hmt, ← hotk, hold]
    have hex : a ≠ 0 → b ≠ 0 → 2 ≤ (fappend cA cB).length := by
      intro ha0 hb0
      exact fappend_two cA cB (a - 1) (b - 1) (by omega) (by omega)
    obtain ⟨X, hX⟩ := replaceKids_undoG S ty K2 K f (f + TA.length + TB.length) T old hvc hv hn2 hnK
      (by omega) hE2 hfT hs hL hR
    rw [hold] at hX
    have hX2 := replaceKids_lcongr S ty K f T old.content (fappend cA cB) a b X hse hex hX hcM
    have hXn := replaceKids_norm S ty K f T _ X hnK hnM hX2
    have hXt := replaceKids_toks S ty K f T _ X hX2
    have : X = K2 := by
      apply ftoks_inj _ _ hXn hn2
      rw [hXt, htk, hmt]
    subst this
    exact hX2

end PM
