/-
  Proofs/MergeOpen.lean — C16: the merged replace step applies whenever the two steps it replaces
  apply one after the other, for slices that are open on their outer sides.

  Route: the merged step is compared with the step "put the slice cut from the pair's result `K2`
  over the same range of `K`", which succeeds by `replaceKids_undoG` (Proofs/UndoInverse.lean) given
    * `LeftRel K K2 f` (nothing changed left of `f`: equal tokens),
    * `RightRel S K T K2 E` (right of the range: the two forward steps' `replaceKids_rrel`, moved along
      and composed — this is where transitivity of `compatible_content` is needed).
  The merged slice and that cut differ only in the markup of their left-spine nodes
  (`lspineEq_of_toks`), which `replace` looks at only in the `check_join`s the first (resp. second) step
  already made (`replaceKids_lcompat`, `replaceKids_lcongr` of Proofs/SpineCongr.lean).
-/
import Proofs.SpineCongr
import Proofs.ReplaceAligned
import Proofs.Merge
import Proofs.FlatReplace
namespace PM

/-! ### balance of slice tokens -/

theorem balance_take_spineL (M : List Node) (a : Nat) (h : a ≤ spineL M) :
    balance ((ftoks M).take a) = a := by
  have hs := spineL_le M
  have := depthAt_balance M a (by omega)
  rw [depthAt_spineL M a h] at this
  exact this.symm

theorem balance_take_spineR (M : List Node) (b : Nat) (h : b ≤ spineR M) :
    balance ((ftoks M).take (fsize M - b)) = b := by
  have := depthAt_balance M (fsize M - b) (by omega)
  rw [depthAt_spineR M b h] at this
  exact this.symm

theorem take_add_drop {α} (T : List α) (a i : Nat) : T.take (a + i) = T.take a ++ (T.drop a).take i := by
  rw [List.take_add]

/-- every prefix of a slice's tokens closes at most the `openStart` levels its left side opens -/
theorem sliceToks_balance_ge (s : Slice) (hwf : s.wf = true) (i : Nat) :
    -(s.openStart : Int) ≤ balance (s.toks.take i) := by
  simp only [Slice.wf, Bool.and_eq_true, decide_eq_true_eq] at hwf
  simp only [Slice.toks, List.take_take]
  have h1 := take_add_drop (ftoks s.content) s.openStart (min i (fsize s.content - s.openStart - s.openEnd))
  have h2 := balance_prefix_nonneg s.content (s.openStart + min i (fsize s.content - s.openStart - s.openEnd))
  rw [h1, balance_append, balance_take_spineL _ _ hwf.1] at h2
  omega

theorem sliceToks_balance (s : Slice) (hwf : s.wf = true) :
    balance s.toks = (s.openEnd : Int) - s.openStart := by
  have ho := wf_opens_le hwf
  simp only [Slice.wf, Bool.and_eq_true, decide_eq_true_eq] at hwf
  simp only [Slice.toks]
  have h1 := take_add_drop (ftoks s.content) s.openStart (fsize s.content - s.openStart - s.openEnd)
  have e : s.openStart + (fsize s.content - s.openStart - s.openEnd) = fsize s.content - s.openEnd := by
    omega
  rw [e] at h1
  have h2 := balance_take_spineR _ _ hwf.2
  rw [h1, balance_append, balance_take_spineL _ _ hwf.1] at h2
  omega

/-! ### the last `b` tokens of content open `b` levels on the right are closes -/

theorem drop_spineR : ∀ (M : List Node) (b : Nat), b ≤ spineR M →
    (ftoks M).drop (fsize M - b) = List.replicate b Tok.cl
  | [], b, h => by
    have : b = 0 := by simpa [spineR] using h
    subst this; simp
  | [.text s m], b, h => by
    have : b = 0 := by simpa [spineR] using h
    subst this
    rw [Nat.sub_zero, List.drop_of_length_le (by rw [ftoks_length]; exact Nat.le_refl _)]; rfl
  | [.leaf t a m], b, h => by
    have : b = 0 := by simpa [spineR] using h
    subst this
    rw [Nat.sub_zero, List.drop_of_length_le (by rw [ftoks_length]; exact Nat.le_refl _)]; rfl
  | [.elem ty a m k], b, h => by
    cases b with
    | zero =>
      rw [Nat.sub_zero, List.drop_of_length_le (by rw [ftoks_length]; exact Nat.le_refl _)]; rfl
    | succ b =>
      simp only [spineR_elem_single] at h
      have hs := spineR_le k
      have ih := drop_spineR k b (by omega)
      simp only [ftoks_cons, ftoks_nil, List.append_nil, Node.toks_elem, fsize_cons, fsize_nil,
        Node.size_elem, Nat.add_zero]
      rw [show 2 + fsize k - (b + 1) = (fsize k - b) + 1 by omega, List.drop_succ_cons,
        drop_app_le _ _ _ (by rw [ftoks_length]; omega), ih, replicate_snoc]
  | x :: n :: ns, b, h => by
    have e : spineR (x :: n :: ns) = spineR (n :: ns) := by
      conv => lhs; unfold spineR
      cases x <;> rfl
    rw [e] at h
    have hs := spineR_le (n :: ns)
    have ih := drop_spineR (n :: ns) b h
    rw [ftoks_cons, fsize_cons, drop_app_ge _ _ _ (by rw [Node.toks_length]; omega), Node.toks_length,
      show x.size + fsize (n :: ns) - b - x.size = fsize (n :: ns) - b by omega]
    exact ih

/-- two slices open alike with the same tokens: the contents agree beyond the left opens -/
theorem drop_of_sliceToks_eq (M0 M : List Node) (a b : Nat) (ha0 : a ≤ spineL M0) (hb0 : b ≤ spineR M0)
    (ha : a ≤ spineL M) (hb : b ≤ spineR M)
    (h : (Slice.mk M0 a b).toks = (Slice.mk M a b).toks) :
    (ftoks M0).drop a = (ftoks M).drop a := by
  have s0 := spine_sum_le M0
  have s1 := spine_sum_le M
  simp only [Slice.toks] at h
  have hlen := congrArg List.length h
  simp only [List.length_take, List.length_drop, ftoks_length] at hlen
  have hsz : fsize M0 = fsize M := by omega
  have d0 := List.take_append_drop (fsize M0 - a - b) ((ftoks M0).drop a)
  have d1 := List.take_append_drop (fsize M - a - b) ((ftoks M).drop a)
  rw [List.drop_drop] at d0 d1
  rw [show a + (fsize M0 - a - b) = fsize M0 - b by omega, drop_spineR M0 b hb0] at d0
  rw [show a + (fsize M - a - b) = fsize M - b by omega, drop_spineR M b hb] at d1
  rw [← d0, ← d1, h]

/-! ### relabelling the left spine -/

/-- `M` with the markup of its left-spine nodes (`a` levels) taken from `M0` -/
def relabelBy : Nat → List Node → List Node → List Node
  | a + 1, .elem ty at_ m k0 :: _, .elem _ _ _ k :: rest => .elem ty at_ m (relabelBy a k0 k) :: rest
  | _, _, M => M

theorem relabelBy_zero (M0 M : List Node) : relabelBy 0 M0 M = M := by
  unfold relabelBy; rfl

theorem relabelBy_succ (a : Nat) (ty : TypeId) (at_ : Attrs) (m : Marks) (k0 r0 : List Node)
    (ty' : TypeId) (at' : Attrs) (m' : Marks) (k rest : List Node) :
    relabelBy (a + 1) (.elem ty at_ m k0 :: r0) (.elem ty' at' m' k :: rest)
      = .elem ty at_ m (relabelBy a k0 k) :: rest := by
  conv => lhs; unfold relabelBy

theorem relabelBy_toks : ∀ (a : Nat) (M0 M : List Node), a ≤ spineL M0 → a ≤ spineL M →
    ftoks (relabelBy a M0 M) = (ftoks M0).take a ++ (ftoks M).drop a
  | 0, M0, M, _, _ => by simp [relabelBy_zero]
  | a + 1, M0, M, h0, h => by
    obtain ⟨ty0, at0, m0, k0, r0, rfl, hak0, hk0⟩ := spineL_pos_decomp h0
    obtain ⟨ty, at_, m, k, rest, rfl, hak, hk⟩ := spineL_pos_decomp h
    rw [relabelBy_succ, ftoks_cons, ftoks_cons, ftoks_cons, take_elem_toks _ _ _ _ _ _ (by omega) (by omega),
      drop_elem_toks _ _ _ _ _ _ (by omega) (by simpa using hk), Node.toks_elem,
      relabelBy_toks a k0 k hak0 hak]
    simp

theorem sameKind_elem' (t : TypeId) (a : Attrs) (m : Marks) (k : List Node) (t' : TypeId) (a' : Attrs)
    (m' : Marks) (k' : List Node) : sameKind (.elem t a m k) (.elem t' a' m' k') :=
  ⟨fun x => by cases x <;> simp [adjOk], fun y => by cases y <;> simp [adjOk]⟩

theorem relabelBy_norm : ∀ (a : Nat) (M0 M : List Node), a ≤ spineL M0 → a ≤ spineL M →
    fnorm M = true → fnorm (relabelBy a M0 M) = true
  | 0, M0, M, _, _, hn => by rw [relabelBy_zero]; exact hn
  | a + 1, M0, M, h0, h, hn => by
    obtain ⟨ty0, at0, m0, k0, r0, rfl, hak0, hk0⟩ := spineL_pos_decomp h0
    obtain ⟨ty, at_, m, k, rest, rfl, hak, hk⟩ := spineL_pos_decomp h
    rw [relabelBy_succ]
    have hnk := fnorm_elem_kids hn
    have ih := relabelBy_norm a k0 k hak0 hak hnk
    simp only [fnorm, Bool.and_eq_true, fnormKids_cons, Node.norm_elem] at hn ⊢
    simp only [fnorm, Bool.and_eq_true] at ih
    refine ⟨⟨ih, hn.1.2⟩, ?_⟩
    rw [chainOk_cons_sameKind (sameKind_elem' ty at_ m k ty0 at0 m0 (relabelBy a k0 k))]
    exact hn.2

theorem relabelBy_size : ∀ (a : Nat) (M0 M : List Node), a ≤ spineL M0 → a ≤ spineL M →
    fsize (relabelBy a M0 M) = fsize M
  | 0, M0, M, _, _ => by rw [relabelBy_zero]
  | a + 1, M0, M, h0, h => by
    obtain ⟨ty0, at0, m0, k0, r0, rfl, hak0, hk0⟩ := spineL_pos_decomp h0
    obtain ⟨ty, at_, m, k, rest, rfl, hak, hk⟩ := spineL_pos_decomp h
    rw [relabelBy_succ]
    simp only [fsize_cons, Node.size_elem, relabelBy_size a k0 k hak0 hak]

theorem relabelBy_lspine : ∀ (a : Nat) (M0 M : List Node), a ≤ spineL M0 → a ≤ spineL M →
    LSpineEq a (relabelBy a M0 M) M
  | 0, M0, M, _, _ => by rw [relabelBy_zero]; exact .zero M
  | a + 1, M0, M, h0, h => by
    obtain ⟨ty0, at0, m0, k0, r0, rfl, hak0, hk0⟩ := spineL_pos_decomp h0
    obtain ⟨ty, at_, m, k, rest, rfl, hak, hk⟩ := spineL_pos_decomp h
    rw [relabelBy_succ]
    exact .succ (by rw [relabelBy_size a k0 k hak0 hak]; exact hk) hk (relabelBy_lspine a k0 k hak0 hak)

/-- **normal-form contents that agree beyond their `a` left opens differ only in left-spine markup** -/
theorem lspineEq_of_toks (M0 M : List Node) (a : Nat) (h0 : fnorm M0 = true) (h : fnorm M = true)
    (ha0 : a ≤ spineL M0) (ha : a ≤ spineL M) (htk : (ftoks M0).drop a = (ftoks M).drop a) :
    LSpineEq a M0 M := by
  have e : relabelBy a M0 M = M0 := by
    apply ftoks_inj _ _ (relabelBy_norm a M0 M ha0 ha h) h0
    rw [relabelBy_toks a M0 M ha0 ha, ← htk, List.take_append_drop]
  have := relabelBy_lspine a M0 M ha0 ha
  rwa [e] at this

/-! ### the merged content has at least two children when it is open on both sides -/

theorem addNode_cons_elem_ne (ty : TypeId) (a : Attrs) (m : Marks) (k x : List Node) (c : Node) :
    ∃ x', addNode (.elem ty a m k :: x) c = .elem ty a m k :: x' ∧ x' ≠ [] := by
  cases x with
  | nil =>
    refine ⟨[c], ?_, by simp⟩
    unfold addNode
    split
    · rename_i h; simp at h
    · rfl
  | cons y ys =>
    unfold addNode
    split
    · split
      · rename_i s1 m1 s2 m2 _ _
        exact ⟨(y :: ys).dropLast ++ [Node.text (s1 ++ s2) m1], by
          simp only [List.dropLast_cons_cons, List.cons_append], by simp⟩
      · exact ⟨_, rfl, by simp⟩
    · exact ⟨_, rfl, by simp⟩

theorem fappend_two (c c' : List Node) (a b : Nat) (ha : a + 1 ≤ spineL c) (hb : b + 1 ≤ spineR c') :
    2 ≤ (fappend c c').length := by
  obtain ⟨ty, at_, m, k, rest, rfl, _, _⟩ := spineL_pos_decomp ha
  cases c' with
  | nil => simp [spineR] at hb
  | cons y ys =>
    obtain ⟨x', hx, hne⟩ := addNode_cons_elem_ne ty at_ m k rest y
    simp only [fappend, List.isEmpty_cons, Bool.false_eq_true, if_false, hx]
    cases x' with
    | nil => exact absurd rfl hne
    | cons z zs => simp

/-! ### the merged slice: well-formedness -/

theorem fappend_spineL (c c' : List Node) (a : Nat) (ha : a ≤ spineL c) : a ≤ spineL (fappend c c') := by
  cases a with
  | zero => omega
  | succ a =>
    obtain ⟨ty, at_, m, k, rest, rfl, _, _⟩ := spineL_pos_decomp ha
    obtain ⟨x', hx⟩ := fappend_cons_elem ty at_ m k rest c'
    rw [hx, spineL_cons_congr _ x' rest]
    exact ha

theorem fappend_spineR (c c' : List Node) (b : Nat) (hb : b ≤ spineR c') : b ≤ spineR (fappend c c') := by
  by_cases hb0 : b = 0
  · omega
  obtain ⟨ty, at_, m, k, hl, _⟩ := spineR_pos_last hb hb0
  have hM := getLast?_decomp hl
  obtain ⟨x', hx⟩ := fappend_snoc_elem ty at_ m k c c'.dropLast
  rw [← hM] at hx
  rw [hx, spineR_concat]
  rw [hM, spineR_concat] at hb
  exact hb

theorem sliceToks_empty_content (c : List Node) (a b : Nat) (hn : fnorm c = true)
    (ha : a ≤ spineL c) (hb : b ≤ spineR c) (hab : a = 0 ∨ b = 0)
    (h : (Slice.mk c a b).toks.length = 0) : c = [] := by
  have h1 := spineL_le c
  have h2 := spineR_le c
  have h3 := spine_sum_le c
  simp only [Slice.toks, List.length_take, List.length_drop, ftoks_length] at h
  rw [Nat.min_eq_left (by omega)] at h
  exact fsize_zero_of_fnormKids c (fnormKids_of_fnorm hn) (by omega)

theorem take_splice {α} (P X Q : List α) (i : Nat) (hi : i ≤ X.length) :
    (P ++ X ++ Q).take (P.length + i) = P ++ X.take i := by
  rw [List.append_assoc, List.take_length_add_append, take_app_le _ _ _ hi]

/-! ### the core: a slice `A ++ B` closed at the seam goes over `f … T` of `K` when the result is known -/

/-- `K2` is valid, in normal form and reads `K[..f] ++ A ++ B ++ K[T..]`, where `A` is closed on the
    right and `B` on the left; the right-hand sides are related (`hR`), the depths fit (`hda`, `hdb`),
    and `from`'s ancestors join with `A`'s left spine (`hc`).  Then the replace with the merged slice
    succeeds and yields `K2`. -/
theorem replaceKids_merged (S : Schema) (ty : TypeId) (K K2 : List Node) (f T : Nat) (cA cB : List Node)
    (a b : Nat) (hnK : fnorm K = true) (hvc : S.validContent ty K2 = true)
    (hv : S.checkKids K2 = true) (hn2 : fnorm K2 = true)
    (hnA : fnorm cA = true) (hnB : fnorm cB = true) (haA : a ≤ spineL cA) (hbB : b ≤ spineR cB)
    (hfT : f ≤ T) (hT : T ≤ fsize K)
    (htk : ftoks K2 = (ftoks K).take f ++ ((Slice.mk cA a 0).toks ++ (Slice.mk cB 0 b).toks)
      ++ (ftoks K).drop T)
    (haf : alignedAt K f = true) (haf2 : alignedAt K2 f = true)
    (hR : RightRel S K T K2 (f + (Slice.mk cA a 0).toks.length + (Slice.mk cB 0 b).toks.length))
    (hda : a ≤ depthAt K f) (hdb : depthAt K f - a + b = depthAt K T)
    (hc : lcompat S K f (depthAt K f - a) cA a = true) :
    replaceKids S ty K f T ⟨fappend cA cB, a, b⟩ = .ok K2 := by
  -- names
  have hsA := spineL_le cA
  have hsB := spineR_le cB
  have hwfA : (Slice.mk cA a 0).wf = true := by simp [Slice.wf, haA]
  have hwfB : (Slice.mk cB 0 b).wf = true := by simp [Slice.wf, hbB]
  have hmt : (Slice.mk (fappend cA cB) a b).toks = (Slice.mk cA a 0).toks ++ (Slice.mk cB 0 b).toks :=
    merged_toks cA cB a b (by omega) (by omega)
  generalize hTA : (Slice.mk cA a 0).toks = TA at *
  generalize hTB : (Slice.mk cB 0 b).toks = TB at *
  have hnM : fnorm (fappend cA cB) = true := fappend_norm _ _ hnA hnB
  have haM := fappend_spineL cA cB a haA
  have hbM := fappend_spineR cA cB b hbB
  have hlenK := ftoks_length K
  have hf : f ≤ fsize K := by omega
  have hPlen : ((ftoks K).take f).length = f := by simp; omega
  have hsz2 : fsize K2 = f + TA.length + TB.length + (fsize K - T) := by
    have := congrArg List.length htk
    simp only [List.length_append, List.length_drop, ftoks_length, hPlen] at this
    omega
  -- left of `f`
  have hL : LeftRel K K2 f := by
    refine leftRel_of_toks K K2 f hnK hn2 hf (by omega) haf ?_
    rw [htk, List.append_assoc, take_app_le _ _ _ (by rw [hPlen]; exact Nat.le_refl _), List.take_take,
      Nat.min_self]
  -- the lcompat fact for the merged content
  have hcM : lcompat S K f (depthAt K f - a) (fappend cA cB) a = true := by
    cases a with
    | zero => exact lcompat_zero S _ _ _ _
    | succ a =>
      obtain ⟨ty1, at1, m1, k1, rest, rfl, _, _⟩ := spineL_pos_decomp haA
      obtain ⟨x', hx⟩ := fappend_cons_elem ty1 at1 m1 k1 rest cB
      rw [hx, lcompat_head S _ x' rest]
      exact hc
  have hE2 : f + TA.length + TB.length ≤ fsize K2 := by omega
  by_cases hemp : TA.length + TB.length = 0
  · -- nothing inserted: the merged slice is the empty slice
    have hA0 : cA = [] := sliceToks_empty_content cA a 0 hnA haA (by omega) (.inr rfl) (by rw [hTA]; omega)
    have hB0 : cB = [] := sliceToks_empty_content cB 0 b hnB (by omega) hbB (.inl rfl) (by rw [hTB]; omega)
    subst hA0; subst hB0
    have ha0 : a = 0 := by simpa [spineL] using haA
    have hb0 : b = 0 := by simpa [spineR] using hbB
    subst ha0; subst hb0
    have hs : sliceKids K2 f f = .ok Slice.empty := by simp [sliceKids]
    have hR' : RightRel S K T K2 f := by
      have e : f + TA.length + TB.length = f := by omega
      rwa [e] at hR
    obtain ⟨X, hX⟩ := replaceKids_undoG S ty K2 K f f T Slice.empty hvc hv hn2 hnK (Nat.le_refl _)
      (by omega) hfT hs hL hR'
    have hXn := replaceKids_norm S ty K f T _ X hnK (by simp [Slice.empty, fnorm, chainOk]) hX
    have hXt := replaceKids_toks S ty K f T _ X hX
    have : X = K2 := by
      apply ftoks_inj _ _ hXn hn2
      have z1 : TA = [] := List.eq_nil_of_length_eq_zero (by omega)
      have z2 : TB = [] := List.eq_nil_of_length_eq_zero (by omega)
      rw [hXt, htk, z1, z2]
      simp [Slice.toks, Slice.empty]
    subst this
    exact hX
  · -- the slice cut from the result
    have hfE : f < f + TA.length + TB.length := by omega
    obtain ⟨old, hs⟩ := sliceKids_total K2 f (f + TA.length + TB.length) (by omega) hE2 haf2
      hR.aligned.2 hn2
    have hspec := sliceKids_spec K2 f _ old hfE hE2 hs
    obtain ⟨hon, howf⟩ := hspec.norm hn2
    have hotk : old.toks = TA ++ TB := by
      rw [hspec.toks, htk, List.append_assoc, drop_app_ge _ _ _ (by omega), hPlen, Nat.sub_self,
        List.drop_zero, take_app_le _ _ _ (by simp; omega),
        List.take_of_length_le (by simp; omega)]
    -- the cut is open exactly like the merged slice
    have hbalP : balance ((ftoks K).take f) = (depthAt K f : Int) := (depthAt_balance K f hf).symm
    have hbalA : balance TA = -(a : Int) := by
      have := sliceToks_balance _ hwfA
      rw [hTA] at this; simp at this; omega
    have key : ∀ i, i ≤ TA.length + TB.length →
        ((depthAt K f - a : Nat) : Int) ≤ balance ((ftoks K2).take (f + i)) := by
      intro i hi
      have e1 : (ftoks K2).take (f + i) = (ftoks K).take f ++ (TA ++ TB).take i := by
        have := take_splice ((ftoks K).take f) (TA ++ TB) ((ftoks K).drop T) i (by simp; omega)
        rw [hPlen] at this
        rw [htk, this]
      rw [e1, balance_append, hbalP]
      by_cases hiA : i ≤ TA.length
      · rw [take_app_le _ _ _ hiA]
        have := sliceToks_balance_ge _ hwfA i
        rw [hTA] at this; simp only at this
        omega
      · rw [take_app_ge _ _ _ (by omega), balance_append, hbalA]
        have := sliceToks_balance_ge _ hwfB (i - TA.length)
        rw [hTB] at this; simp only at this
        omega
    have seam : balance ((ftoks K2).take (f + TA.length)) = ((depthAt K f - a : Nat) : Int) := by
      have e1 : (ftoks K2).take (f + TA.length) = (ftoks K).take f ++ TA := by
        have := take_splice ((ftoks K).take f) (TA ++ TB) ((ftoks K).drop T) TA.length (by simp)
        rw [hPlen] at this
        rw [htk, this, List.take_left']
        rfl
      rw [e1, balance_append, hbalP, hbalA]
      omega
    obtain ⟨sh, o1, o2, o3, k0, k1, k2, k3⟩ := hspec.opens
    have hsh : sh = depthAt K f - a := by
      have u1 := o3 (f + TA.length) (by omega) (by omega)
      rw [seam] at u1
      have u2 := key (k0 - f) (by omega)
      rw [show f + (k0 - f) = k0 by omega, ← k3] at u2
      omega
    have hoS : old.openStart = a := by
      have := hL.depth
      omega
    have hoE : old.openEnd = b := by
      have := hR.depth
      omega
    have hold : old = ⟨old.content, a, b⟩ := by
      cases old; simp only at hoS hoE; subst hoS; subst hoE; rfl
    simp only [Slice.wf, Bool.and_eq_true, decide_eq_true_eq] at howf
    rw [hoS, hoE] at howf
    have hse : LSpineEq a old.content (fappend cA cB) := by
      refine lspineEq_of_toks _ _ a hon hnM howf.1 haM ?_
      refine drop_of_sliceToks_eq _ _ a b howf.1 howf.2 haM hbM ?_
      rw [hmt, ← hotk, hold]
    have hex : a ≠ 0 → b ≠ 0 → 2 ≤ (fappend cA cB).length := by
      intro ha0 hb0
      exact fappend_two cA cB (a - 1) (b - 1) (by omega) (by omega)
    obtain ⟨X, hX⟩ := replaceKids_undoG S ty K2 K f (f + TA.length + TB.length) T old hvc hv hn2 hnK
      (by omega) hE2 hfT hs hL hR
    rw [hold] at hX
    have hX2 := replaceKids_lcongr S ty K f T old.content (fappend cA cB) a b X hse hex hX hcM
    have hXn := replaceKids_norm S ty K f T _ X hnK hnM hX2
    have hXt := replaceKids_toks S ty K f T _ X hX2
    have : X = K2 := by
      apply ftoks_inj _ _ hXn hn2
      rw [hXt, htk, hmt]
    subst this
    exact hX2

/-! ### what the two forward steps leave -/

/-- the facts about one successfully applied replace the merge argument uses -/
structure FwdFacts (S : Schema) (ty : TypeId) (K K1 : List Node) (f t : Nat) (sl : Slice) : Prop where
  range : f ≤ t ∧ t ≤ fsize K
  wf : sl.wf = true
  toks : ftoks K1 = (ftoks K).take f ++ sl.toks ++ (ftoks K).drop t
  size : fsize K1 = f + sl.toks.length + (fsize K - t)
  depths : sl.openStart ≤ depthAt K f ∧
    (depthAt K f : Int) - sl.openStart = (depthAt K t : Int) - sl.openEnd
  norm : fnorm K = true → fnorm sl.content = true → fnorm K1 = true
  valid : S.checkKids K = true → S.validContent ty K = true →
    openValid S sl.openStart sl.openEnd sl.content = true →
    S.checkKids K1 = true ∧ S.validContent ty K1 = true
  lcompat : lcompat S K f (depthAt K f - sl.openStart) sl.content sl.openStart = true
  rrel : fnorm K = true → fnorm sl.content = true → sl.openStart = 0 ∨ sl.openEnd = 0 →
    alignedAt K1 (f + sl.toks.length) = true → RightRel S K1 (f + sl.toks.length) K t

theorem fwdFacts (S : Schema) (ty : TypeId) (K K1 : List Node) (f t : Nat) (sl : Slice)
    (h : replaceKids S ty K f t sl = .ok K1) : FwdFacts S ty K K1 f t sl := by
  obtain ⟨hft, ht, hwf⟩ := replaceKids_guards S ty K f t sl K1 h
  have htk := replaceKids_toks S ty K f t sl K1 h
  have hsz : fsize K1 = f + sl.toks.length + (fsize K - t) := by
    have := congrArg List.length htk
    simp only [List.length_append, List.length_take, List.length_drop, ftoks_length] at this
    omega
  refine ⟨⟨hft, ht⟩, hwf, htk, hsz, replaceKids_depths h, fun hn hs => replaceKids_norm S ty K f t sl K1 hn hs h,
    fun hk hv hs => replaceKids_valid S ty K f t sl K1 hk hv hs h, replaceKids_lcompat S ty K f t sl K1 h, ?_⟩
  intro hn hsn hcl ha
  have hpos : fsize K1 - (fsize K - t) = f + sl.toks.length := by omega
  have hbr : bridgeCompat S (depthAt K f - sl.openStart)
      (singleDepth sl.content sl.openStart sl.openEnd) K f K t = true := by
    rcases hcl with h0 | h0
    · rw [h0, singleDepth_closed_left]; exact bridgeCompat_nil S _ _ _ _ _
    · rw [h0, singleDepth_closed_right]; exact bridgeCompat_nil S _ _ _ _ _
  have := replaceKids_rrel S ty K K1 f t sl hn hsn h hbr (by rw [hpos]; exact ha)
  rwa [hpos] at this

/-- tokens of the result right of the inserted content are the old tokens right of `t` -/
theorem FwdFacts.get_right {S : Schema} {ty : TypeId} {K K1 : List Node} {f t : Nat} {sl : Slice}
    (h : FwdFacts S ty K K1 f t sl) (j : Nat) :
    (ftoks K1)[f + sl.toks.length + j]? = (ftoks K)[t + j]? := by
  have hl : ((ftoks K).take f ++ sl.toks).length = f + sl.toks.length := by
    have := h.range
    simp [ftoks_length]; omega
  rw [h.toks, List.getElem?_append_right (by omega), hl, List.getElem?_drop]
  congr 1; omega

theorem FwdFacts.get_left {S : Schema} {ty : TypeId} {K K1 : List Node} {f t : Nat} {sl : Slice}
    (h : FwdFacts S ty K K1 f t sl) (j : Nat) (hj : j < f) :
    (ftoks K1)[j]? = (ftoks K)[j]? := by
  have := h.range
  rw [h.toks, List.append_assoc, List.getElem?_append_left (by simp [ftoks_length]; omega),
    List.getElem?_take, if_pos hj]

theorem FwdFacts.take_left {S : Schema} {ty : TypeId} {K K1 : List Node} {f t : Nat} {sl : Slice}
    (h : FwdFacts S ty K K1 f t sl) (p : Nat) (hp : p ≤ f) :
    (ftoks K1).take p = (ftoks K).take p := by
  have := h.range
  rw [h.toks, List.append_assoc, take_app_le _ _ _ (by simp [ftoks_length]; omega), List.take_take,
    Nat.min_eq_left hp]

theorem depthAt_of_take_eq (K K1 : List Node) (p : Nat) (hp : p ≤ fsize K) (hp1 : p ≤ fsize K1)
    (h : (ftoks K1).take p = (ftoks K).take p) : depthAt K1 p = depthAt K p := by
  have h1 := depthAt_balance K p hp
  have h2 := depthAt_balance K1 p hp1
  rw [h] at h2
  omega

/-- pair-alignment at `p` in `K` follows from pair-alignment at `q` in `K1` when the tokens around agree -/
theorem alignedAt_shift (K K1 : List Node) (p q : Nat) (hn : fnorm K = true) (hn1 : fnorm K1 = true)
    (hp : 0 < p) (hq : 0 < q) (h1 : (ftoks K)[p - 1]? = (ftoks K1)[q - 1]?)
    (h2 : (ftoks K)[p]? = (ftoks K1)[q]?) (ha : alignedAt K1 q = true) : alignedAt K p = true := by
  rw [alignedAt_toks K p hn, tokAligned_shift _ _ p q hp hq h1 h2, ← alignedAt_toks K1 q hn1]
  exact ha

/-! ### the two `merge` branches at the level of child lists -/

/-- **the second step starts where the first one's content ends** (first slice closed on the right,
    second closed on the left; open on the outer sides) -/
theorem replaceKids_merge_open (S : Schema) (htr : CompatTrans S) (ty : TypeId) (K K1 K2 : List Node)
    (f t f' t' : Nat) (c c' : List Node) (a b : Nat)
    (hvc : S.validContent ty K = true) (hv : S.checkKids K = true) (hn : fnorm K = true)
    (hcn : fnorm c = true) (hcn' : fnorm c' = true)
    (hp : openValid S a 0 c = true) (hp' : openValid S 0 b c' = true)
    (hr1 : replaceKids S ty K f t ⟨c, a, 0⟩ = .ok K1)
    (hr2 : replaceKids S ty K1 f' t' ⟨c', 0, b⟩ = .ok K2)
    (hf' : f' = f + (Slice.mk c a 0).toks.length)
    (ha1 : alignedAt K1 f = true)
    (ha2 : alignedAt K2 f' = true ∧ alignedAt K2 (f' + (Slice.mk c' 0 b).toks.length) = true) :
    replaceKids S ty K f (t + (t' - f')) ⟨fappend c c', a, b⟩ = .ok K2 := by
  have F1 := fwdFacts S ty K K1 f t _ hr1
  have F2 := fwdFacts S ty K1 K2 f' t' _ hr2
  have hn1 := F1.norm hn hcn
  have hn2 := F2.norm hn1 hcn'
  have haK : alignedAt K f = true := (replaceKids_aligned S ty K f t _ K1 hr1).1
  have haK1 := replaceKids_aligned S ty K1 f' t' _ K2 hr2
  have haK2 : alignedAt K2 f = true ∧ alignedAt K2 (f' + (Slice.mk c' 0 b).toks.length) = true := by
    refine ⟨?_, ha2.2⟩
    by_cases he : f' = f
    · rw [← he]; exact ha2.1
    · exact alignedAt_transfer K2 K1 f hn2 hn1 (F2.get_left (f - 1) (by omega)).symm
        (F2.get_left f (by omega)).symm ha1
  obtain ⟨hv1, hvc1⟩ := F1.valid hv hvc hp
  obtain ⟨hv2, hvc2⟩ := F2.valid hv1 hvc1 hp'
  have hwf1 := F1.wf
  have hwf2 := F2.wf
  simp only [Slice.wf, Bool.and_eq_true, decide_eq_true_eq] at hwf1 hwf2
  obtain ⟨hft, ht⟩ := F1.range
  obtain ⟨hft', ht'⟩ := F2.range
  have hsz1 := F1.size
  have hd1 := F1.depths
  have hd2 := F2.depths
  simp only at hd1 hd2 hsz1
  generalize hTA : (Slice.mk c a 0).toks = TA at *
  generalize hTB : (Slice.mk c' 0 b).toks = TB at *
  subst hf'
  -- right of the first step's content
  have R1 : RightRel S K1 (f + TA.length) K t := by
    have := F1.rrel hn hcn (.inr rfl)
    rw [hTA] at this
    exact this haK1.1
  have hTle : t + (t' - (f + TA.length)) ≤ fsize K := by omega
  have haT : alignedAt K (t + (t' - (f + TA.length))) = true := by
    by_cases hd : t' - (f + TA.length) = 0
    · rw [hd]; exact R1.aligned.2
    · obtain ⟨j, hj⟩ : ∃ j, t' = f + TA.length + (j + 1) := ⟨t' - (f + TA.length) - 1, by omega⟩
      have g1 := F1.get_right j
      have g2 := F1.get_right (j + 1)
      rw [hTA] at g1 g2
      refine alignedAt_shift K K1 _ t' hn hn1 (by omega) (by omega) ?_ ?_ haK1.2
      · rw [show t + (t' - (f + TA.length)) - 1 = t + j by omega, ← g1]
        congr 1; omega
      · rw [show t + (t' - (f + TA.length)) = t + (j + 1) by omega, ← g2]
        congr 1; omega
  have R1s := R1.shift (t' - (f + TA.length)) hTle haT
  rw [show f + TA.length + (t' - (f + TA.length)) = t' by omega] at R1s
  -- right of the second step's content
  have R2 : RightRel S K2 (f + TA.length + TB.length) K1 t' := by
    have := F2.rrel hn1 hcn' (.inl rfl)
    rw [hTB] at this
    exact this haK2.2
  have hR : RightRel S K (t + (t' - (f + TA.length))) K2 (f + TA.length + TB.length) :=
    (R2.trans htr R1s).symm
  -- tokens of the pair's result
  have htk : ftoks K2 = (ftoks K).take f ++ (TA ++ TB) ++ (ftoks K).drop (t + (t' - (f + TA.length))) := by
    have h2 := F2.toks
    rw [hTB, F1.toks, hTA] at h2
    rw [h2]
    exact splice_splice_right (ftoks K) TA TB f t t' (by rw [ftoks_length]; omega) hft'
  have hdR1 := R1.depth
  have hdR1s := R1s.depth
  have hc := F1.lcompat
  simp only at hc
  exact replaceKids_merged S ty K K2 f _ c c' a b hn hvc2 hv2 hn2 hcn hcn' hwf1.1 hwf2.2 (by omega) hTle
    (by rw [hTA, hTB]; exact htk) haK haK2.1 (by rw [hTA, hTB]; exact hR) hd1.1 (by omega) hc

/-- **the second step ends where the first one starts** (first slice closed on the left, second closed
    on the right; open on the outer sides) -/
theorem replaceKids_merge_open_left (S : Schema) (htr : CompatTrans S) (ty : TypeId)
    (K K1 K2 : List Node) (f t f' : Nat) (c c' : List Node) (a b : Nat)
    (hvc : S.validContent ty K = true) (hv : S.checkKids K = true) (hn : fnorm K = true)
    (hcn : fnorm c = true) (hcn' : fnorm c' = true)
    (hp : openValid S 0 b c = true) (hp' : openValid S a 0 c' = true)
    (hr1 : replaceKids S ty K f t ⟨c, 0, b⟩ = .ok K1)
    (hr2 : replaceKids S ty K1 f' f ⟨c', a, 0⟩ = .ok K2)
    (haK1 : alignedAt K1 (f + (Slice.mk c 0 b).toks.length) = true)
    (haK2 : alignedAt K2 f' = true ∧ alignedAt K2 (f' + (Slice.mk c' a 0).toks.length) = true) :
    replaceKids S ty K f' t ⟨fappend c' c, a, b⟩ = .ok K2 := by
  have F1 := fwdFacts S ty K K1 f t _ hr1
  have F2 := fwdFacts S ty K1 K2 f' f _ hr2
  have hn1 := F1.norm hn hcn
  have hn2 := F2.norm hn1 hcn'
  have haK : alignedAt K f' = true := by
    by_cases he : f' = f
    · rw [he]; exact (replaceKids_aligned S ty K f t _ K1 hr1).1
    · have := F2.range
      exact alignedAt_transfer K K1 f' hn hn1 (F1.get_left (f' - 1) (by omega))
        (F1.get_left f' (by omega)) (replaceKids_aligned S ty K1 f' f _ K2 hr2).1
  obtain ⟨hv1, hvc1⟩ := F1.valid hv hvc hp
  obtain ⟨hv2, hvc2⟩ := F2.valid hv1 hvc1 hp'
  have hwf1 := F1.wf
  have hwf2 := F2.wf
  simp only [Slice.wf, Bool.and_eq_true, decide_eq_true_eq] at hwf1 hwf2
  obtain ⟨hft, ht⟩ := F1.range
  obtain ⟨hft', ht'⟩ := F2.range
  have hsz1 := F1.size
  have hsz2 := F2.size
  have hd1 := F1.depths
  have hd2 := F2.depths
  simp only at hd1 hd2 hsz1 hsz2
  generalize hTB : (Slice.mk c 0 b).toks = TB at *
  generalize hTA : (Slice.mk c' a 0).toks = TA at *
  -- right of the first step's content
  have R1 : RightRel S K1 (f + TB.length) K t := by
    have := F1.rrel hn hcn (.inl rfl)
    rw [hTB] at this
    exact this haK1
  -- right of the second step's content, moved past the first step's content
  have R2 : RightRel S K2 (f' + TA.length) K1 f := by
    have := F2.rrel hn1 hcn' (.inr rfl)
    rw [hTA] at this
    exact this haK2.2
  have R2s := R2.shift TB.length (by omega) haK1
  have hR : RightRel S K t K2 (f' + TA.length + TB.length) := (R2s.trans htr R1).symm
  -- tokens of the pair's result
  have htk : ftoks K2 = (ftoks K).take f' ++ (TA ++ TB) ++ (ftoks K).drop t := by
    have h2 := F2.toks
    rw [hTA, F1.toks, hTB] at h2
    rw [h2]
    exact splice_splice_left (ftoks K) TB TA f f' t (by rw [ftoks_length]; omega) hft'
  -- depths: left of `f` the first step changed nothing
  have e1 : depthAt K1 f' = depthAt K f' :=
    depthAt_of_take_eq K K1 f' (by omega) (by omega) (F1.take_left f' hft')
  have e2 : depthAt K1 f = depthAt K f :=
    depthAt_of_take_eq K K1 f (by omega) (by omega) (F1.take_left f (Nat.le_refl _))
  have hdR1 := R1.depth
  -- the left-spine joins were checked by the second step, in `K1`; left of `f'` it looks like `K`
  have hL1 : LeftRel K K1 f' :=
    leftRel_of_toks K K1 f' hn hn1 (by omega) (by omega) haK (F1.take_left f' hft').symm
  have hc := F2.lcompat
  simp only at hc
  rw [e1, ← hL1.lcompat_eq S] at hc
  exact replaceKids_merged S ty K K2 f' t c' c a b hn hvc2 hv2 hn2 hcn' hcn hwf2.1 hwf1.2 (by omega) ht
    (by rw [hTA, hTB]; exact htk) haK haK2.1 (by rw [hTA, hTB]; exact hR) (by omega) (by omega) hc

end PM
