/-
  Proofs/BuildKernel.lean — `buildSchema` in a form the kernel can evaluate.

  `nullFrom` and `sortDesc` (PM/Compile.lean) sort with `List.mergeSort`, which Lean defines by well-founded
  recursion: the kernel cannot unfold it on a list with two or more elements, so `decide +kernel` gets stuck on
  `buildSchema spec` as soon as an automaton has a state set with two NFA nodes (every `*`, `+`, `?`, `|`).
  Here the same chain of definitions is written over an insertion sort (structural), and proved equal:
  a sorted permutation of a list of numbers is unique.  `buildSchemaK_eq : buildSchemaK = buildSchema` lets the
  generated `lean/Gen/SchemaBuilds/*.lean` prove `buildSchema <spec> = .ok <compiled>` by kernel evaluation of the twin.
-/
import PM.Compile
import PM.SchemaBuild
namespace PM.BuildK
open PM PM.SchemaCompile PM.SchemaBuild

/-! ### insertion sort = merge sort on numbers -/

def insertBy (le : Nat → Nat → Bool) (x : Nat) : List Nat → List Nat
  | [] => [x]
  | y :: ys => if le x y then x :: y :: ys else y :: insertBy le x ys

def isort (le : Nat → Nat → Bool) : List Nat → List Nat
  | [] => []
  | x :: xs => insertBy le x (isort le xs)

theorem insertBy_perm (le : Nat → Nat → Bool) (x : Nat) : ∀ l, (insertBy le x l).Perm (x :: l)
  | [] => List.Perm.refl _
  | y :: ys => by
    unfold insertBy
    split
    · exact List.Perm.refl _
    · exact ((insertBy_perm le x ys).cons y).trans (List.Perm.swap x y ys)

theorem isort_perm (le : Nat → Nat → Bool) : ∀ l, (isort le l).Perm l
  | [] => List.Perm.refl _
  | x :: xs => by
    unfold isort
    exact (insertBy_perm le x _).trans ((isort_perm le xs).cons x)

theorem insertBy_pairwise (le : Nat → Nat → Bool)
    (htrans : ∀ a b c, le a b = true → le b c = true → le a c = true)
    (htot : ∀ a b, (le a b || le b a) = true) (x : Nat) :
    ∀ l, l.Pairwise (fun a b => le a b = true) → (insertBy le x l).Pairwise (fun a b => le a b = true)
  | [], _ => by simp [insertBy]
  | y :: ys, h => by
    unfold insertBy
    split
    · rename_i hxy
      refine List.Pairwise.cons ?_ h
      intro b hb
      rcases List.mem_cons.1 hb with rfl | hb
      · exact hxy
      · exact htrans _ _ _ hxy (List.rel_of_pairwise_cons h hb)
    · rename_i hxy
      have hyx : le y x = true := by
        have := htot x y
        simp only [Bool.or_eq_true] at this
        rcases this with h1 | h1
        · exact absurd h1 hxy
        · exact h1
      refine List.Pairwise.cons ?_ (insertBy_pairwise le htrans htot x ys (List.Pairwise.of_cons h))
      intro b hb
      rcases List.mem_cons.1 ((insertBy_perm le x ys).mem_iff.1 hb) with rfl | hb
      · exact hyx
      · exact List.rel_of_pairwise_cons h hb

theorem isort_pairwise (le : Nat → Nat → Bool)
    (htrans : ∀ a b c, le a b = true → le b c = true → le a c = true)
    (htot : ∀ a b, (le a b || le b a) = true) :
    ∀ l, (isort le l).Pairwise (fun a b => le a b = true)
  | [] => List.Pairwise.nil
  | x :: xs => by
    unfold isort
    exact insertBy_pairwise le htrans htot x _ (isort_pairwise le htrans htot xs)

theorem mergeSort_eq_isort (le : Nat → Nat → Bool)
    (htrans : ∀ a b c, le a b = true → le b c = true → le a c = true)
    (htot : ∀ a b, (le a b || le b a) = true)
    (hanti : ∀ a b, le a b = true → le b a = true → a = b) (l : List Nat) :
    l.mergeSort le = isort le l :=
  List.Perm.eq_of_pairwise (le := fun a b => le a b = true) (fun a b _ _ => hanti a b)
    (List.pairwise_mergeSort htrans htot l) (isort_pairwise le htrans htot l)
    ((List.mergeSort_perm l le).trans (isort_perm le l).symm)

def leAsc (a b : Nat) : Bool := decide (a ≤ b)
def leDesc (a b : Nat) : Bool := decide (b ≤ a)

theorem mergeSort_asc (l : List Nat) : l.mergeSort (fun a b => a ≤ b) = isort leAsc l :=
  mergeSort_eq_isort leAsc (by simp only [leAsc, decide_eq_true_eq]; omega)
    (by simp only [leAsc, Bool.or_eq_true, decide_eq_true_eq]; omega)
    (by simp only [leAsc, decide_eq_true_eq]; omega) l

theorem mergeSort_desc (l : List Nat) : l.mergeSort (fun a b => b ≤ a) = isort leDesc l :=
  mergeSort_eq_isort leDesc (by simp only [leDesc, decide_eq_true_eq]; omega)
    (by simp only [leDesc, Bool.or_eq_true, decide_eq_true_eq]; omega)
    (by simp only [leDesc, decide_eq_true_eq]; omega) l

/-! ### the chain `nullFrom … buildSchema` over the insertion sort -/

def nullFromK (nfa : Nfa) (node : Nat) : List Nat :=
  isort leAsc (scan nfa (scanFuel nfa) node ⟨[], []⟩).result

theorem nullFromK_eq : nullFromK = nullFrom := by
  funext nfa node
  simp only [nullFromK, nullFrom, mergeSort_asc]

def addOutK (nfa : Nfa) (out : List (Nat × List Nat)) (e : NfaEdge) : List (Nat × List Nat) :=
  match e.1 with
  | none => out
  | some t =>
    let ns := nullFromK nfa e.2
    if out.any (fun p => p.1 == t) then
      out.map (fun p => if p.1 == t then (p.1, addAll p.2 ns) else p)
    else if ns.isEmpty then out
    else out ++ [(t, addAll [] ns)]

theorem addOutK_eq : addOutK = addOut := by
  funext nfa out e
  simp only [addOutK, addOut, nullFromK_eq]
  all_goals rfl

def stepOutK (nfa : Nfa) (states : List Nat) : List (Nat × List Nat) :=
  states.foldl (fun out node => (nfa.getD node []).foldl (addOutK nfa) out) []

theorem stepOutK_eq : stepOutK = stepOut := by
  funext nfa states
  simp only [stepOutK, stepOut, addOutK_eq]

def exploreStK (nfa : Nfa) : Nat → List Nat → DSt → Nat × DSt
  | 0, _, st => (0, st)
  | fuel + 1, states, st =>
    let out := stepOutK nfa states
    let idx := st.states.size
    let st : DSt := { labeled := st.labeled ++ [(states, idx)],
                      states := st.states.push ⟨states.contains (nfa.size - 1), []⟩ }
    let r := out.foldl (fun (acc : List (Nat × Nat) × DSt) (p : Nat × List Nat) =>
        let key := isort leDesc p.2
        match lookupKey acc.2.labeled key with
        | some j => (acc.1 ++ [(p.1, j)], acc.2)
        | none =>
          let (j, st') := exploreStK nfa fuel key acc.2
          (acc.1 ++ [(p.1, j)], st')) ([], st)
    (idx, { r.2 with states := r.2.states.modify idx (fun s => { s with edges := r.1 }) })

theorem exploreStK_eq (nfa : Nfa) : ∀ fuel, exploreStK nfa fuel = exploreSt nfa fuel
  | 0 => by funext states st; simp only [exploreStK, exploreSt]
  | fuel + 1 => by
    funext states st
    simp only [exploreStK, exploreSt, stepOutK_eq, exploreStK_eq nfa fuel, sortDesc, mergeSort_desc]
    all_goals rfl

def dfaK (nfa : Nfa) : Dfa :=
  (exploreStK nfa (exploreFuel nfa) (nullFromK nfa 0) ⟨[], #[]⟩).2.states

theorem dfaK_eq : dfaK = dfa := by
  funext nfa
  simp only [dfaK, dfa, exploreStK_eq, nullFromK_eq]

def contentMatchK (spec : Spec) (s : String) : Except BuildErr Dfa :=
  match parseC (nameTable spec) s with
  | .error e => .error (.content e)
  | .ok none => .ok emptyMatch
  | .ok (some e) =>
    let d := (dfaK (nfa e)).bfs
    if d.hasDeadEnd (specGen spec) then .error .deadEnd else .ok d

theorem contentMatchK_eq : contentMatchK = contentMatch := by
  funext spec s
  simp only [contentMatchK, contentMatch, dfaK_eq]
  all_goals rfl

def cachedMatchK (spec : Spec) (cache : Cache) (s : String) : Except BuildErr (Dfa × Cache) :=
  match cache.find? (fun p => p.1 == s) with
  | some p => .ok (p.2, cache)
  | none =>
    match contentMatchK spec s with
    | .error e => .error e
    | .ok d => .ok (d, cache ++ [(s, d)])

theorem cachedMatchK_eq : cachedMatchK = cachedMatch := by
  funext spec cache s
  simp only [cachedMatchK, cachedMatch, contentMatchK_eq]
  all_goals rfl

def buildNodesK (spec : Spec) : List NodeSpec → Cache → Except BuildErr (List NodeType)
  | [], _ => .ok []
  | ns :: rest, cache =>
    if spec.marks.any (fun m => m.name == ns.name) then .error (.table .nameClash)
    else
      match cachedMatchK spec cache ns.content with
      | .error e => .error e
      | .ok (d, cache) =>
        match compileNode spec [d] 0 ns with
        | .error e => .error (.table e)
        | .ok nt =>
          match buildNodesK spec rest cache with
          | .error e => .error e
          | .ok nts => .ok (nt :: nts)

theorem buildNodesK_eq (spec : Spec) : ∀ l cache, buildNodesK spec l cache = buildNodes spec l cache
  | [], _ => by simp only [buildNodesK, buildNodes]
  | ns :: rest, cache => by
    simp only [buildNodesK, buildNodes, cachedMatchK_eq, buildNodesK_eq spec rest]
    all_goals rfl

def buildSchemaK (spec : Spec) : Except BuildErr Schema :=
  match spec.nodes.findIdx? (fun n => n.name == spec.topName) with
  | none => .error (.table .missingTop)
  | some top =>
    match spec.nodes.findIdx? (fun n => n.name == "text") with
    | none => .error (.table .missingText)
    | some textTy =>
      if (spec.nodes[textTy]?.map (fun n => n.attrs.isEmpty)).getD true = false then .error (.table .textAttrs)
      else
        match buildNodesK spec spec.nodes [] with
        | .error e => .error e
        | .ok nodes =>
          match seqIdx (compileMark spec) 0 spec.marks with
          | .error e => .error (.table e)
          | .ok marks => .ok { nodes := nodes.toArray, marks := marks.toArray, top := top, textTy := textTy }

/-- the kernel-evaluable twin is the model of `Schema(spec)` -/
theorem buildSchemaK_eq (spec : Spec) : buildSchemaK spec = buildSchema spec := by
  simp only [buildSchemaK, buildSchema, buildNodesK_eq]
  all_goals rfl

end PM.BuildK
