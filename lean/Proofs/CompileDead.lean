/-
  Proofs/CompileDead.lean — `check_for_dead_ends` on a compiled automaton: the breadth-first work list is the
  set of reachable states, the backward fixpoint `live` is the set of reachable states from which a valid end
  can be reached through generatable types, so `Dfa.hasDeadEnd = false` says every reachable state can be
  completed by generatable nodes alone.
-/
import PM.Compile
import Mathlib.Data.List.Sublists
namespace PM
set_option linter.unusedSimpArgs false

/-- edge targets are states, there is a start state -/
structure Dfa.WF (d : Dfa) : Prop where
  pos : 0 < d.size
  tgt : ∀ q e, e ∈ d.edgesOf q → e.2 < d.size

/-- reachable from the start state -/
inductive Dfa.Reach (d : Dfa) : Nat → Prop
  | start : Dfa.Reach d 0
  | step {q : Nat} {e : TypeId × Nat} : Dfa.Reach d q → e ∈ d.edgesOf q → Dfa.Reach d e.2

/-- a valid end can be reached through generatable types only -/
inductive Dfa.GenLive (d : Dfa) (gen : Nat → Bool) : Nat → Prop
  | here {q : Nat} : d.validEnd q = true → Dfa.GenLive d gen q
  | step {q : Nat} {e : TypeId × Nat} : e ∈ d.edgesOf q → gen e.1 = true → Dfa.GenLive d gen e.2 → Dfa.GenLive d gen q

theorem length_le_of_nodup_lt {l : List Nat} {n : Nat} (hnd : l.Nodup) (hlt : ∀ x, x ∈ l → x < n) : l.length ≤ n := by
  have := (List.subperm_of_subset hnd (l₂ := List.range n) (fun x hx => List.mem_range.2 (hlt x hx))).length_le
  simpa using this

/-! ### the work list -/

def addTargets (order : List Nat) (es : List (TypeId × Nat)) : List Nat :=
  es.foldl (fun o e => if o.contains e.2 then o else o ++ [e.2]) order

theorem addTargets_spec (es : List (TypeId × Nat)) : ∀ (order : List Nat), order.Nodup →
    (addTargets order es).Nodup ∧ (∃ l, addTargets order es = order ++ l) ∧
      ∀ m, m ∈ addTargets order es ↔ m ∈ order ∨ ∃ e, e ∈ es ∧ e.2 = m := by
  induction es with
  | nil => intro order h; exact ⟨h, ⟨[], by simp [addTargets]⟩, by simp [addTargets]⟩
  | cons e es ih =>
    intro order h
    unfold addTargets
    simp only [List.foldl_cons]
    by_cases hc : order.contains e.2 = true
    · rw [if_pos hc]
      simp only [List.contains_eq_mem, decide_eq_true_eq] at hc
      obtain ⟨h1, h2, h3⟩ := ih order h
      refine ⟨h1, h2, fun m => ?_⟩
      unfold addTargets at h3
      rw [h3]
      constructor
      · rintro (h | ⟨e', he', h⟩)
        · exact Or.inl h
        · exact Or.inr ⟨e', List.mem_cons_of_mem _ he', h⟩
      · rintro (h | ⟨e', he', h⟩)
        · exact Or.inl h
        · rcases List.mem_cons.1 he' with rfl | he'
          · exact Or.inl (h ▸ hc)
          · exact Or.inr ⟨e', he', h⟩
    · rw [if_neg hc]
      simp only [List.contains_eq_mem, decide_eq_true_eq] at hc
      have hnd : (order ++ [e.2]).Nodup := List.nodup_append.2 ⟨h, by simp, by
        intro a ha b hb
        simp only [List.mem_singleton] at hb
        subst hb
        exact fun hab => hc (hab ▸ ha)⟩
      obtain ⟨h1, ⟨l, h2⟩, h3⟩ := ih (order ++ [e.2]) hnd
      unfold addTargets at h2 h3
      refine ⟨h1, ⟨[e.2] ++ l, by rw [h2, List.append_assoc]⟩, fun m => ?_⟩
      rw [h3]
      simp only [List.mem_append, List.mem_singleton]
      constructor
      · rintro ((h | h) | ⟨e', he', h⟩)
        · exact Or.inl h
        · exact Or.inr ⟨e, List.mem_cons_self .., h.symm⟩
        · exact Or.inr ⟨e', List.mem_cons_of_mem _ he', h⟩
      · rintro (h | ⟨e', he', h⟩)
        · exact Or.inl (Or.inl h)
        · rcases List.mem_cons.1 he' with rfl | he'
          · exact Or.inl (Or.inr h.symm)
          · exact Or.inr ⟨e', he', h⟩

structure BInv (d : Dfa) (i : Nat) (order : List Nat) : Prop where
  nodup : order.Nodup
  reach : ∀ m, m ∈ order → m < d.size ∧ Dfa.Reach d m
  closed : ∀ j q, j < i → order[j]? = some q → ∀ e, e ∈ d.edgesOf q → e.2 ∈ order
  zero : 0 ∈ order
  head : order[0]? = some 0
  le : i ≤ order.length

theorem bfs_go_spec (d : Dfa) (hd : d.WF) : ∀ (fuel i : Nat) (order : List Nat), BInv d i order →
    d.size + 1 ≤ fuel + i →
    BInv d (Dfa.bfsOrder.go d fuel i order).length (Dfa.bfsOrder.go d fuel i order) := by
  intro fuel
  induction fuel with
  | zero =>
    intro i order h hf
    have := length_le_of_nodup_lt h.nodup (fun x hx => (h.reach x hx).1)
    have := h.le
    omega
  | succ fuel ih =>
    intro i order h hf
    unfold Dfa.bfsOrder.go
    cases hq : order[i]? with
    | none =>
      simp only
      have hi : order.length ≤ i := by
        rw [List.getElem?_eq_none_iff] at hq; exact hq
      have : i = order.length := Nat.le_antisymm h.le hi
      subst this
      exact h
    | some q =>
      simp only
      have hqmem : q ∈ order := List.mem_of_getElem? hq
      obtain ⟨h1, ⟨l, h2⟩, h3⟩ := addTargets_spec (d.edgesOf q) order h.nodup
      have hi : i < order.length := (List.getElem?_eq_some_iff.1 hq).1
      refine ih (i + 1) _ ⟨h1, ?_, ?_, ?_, ?_, ?_⟩ (by omega)
      · intro m hm
        rcases (h3 m).1 hm with hm | ⟨e, he, rfl⟩
        · exact h.reach m hm
        · exact ⟨hd.tgt q e he, .step (h.reach q hqmem).2 he⟩
      · intro j q' hj hq' e he
        have hq'' : order[j]? = some q' := by
          have : (addTargets order (d.edgesOf q))[j]? = some q' := hq'
          rw [h2, List.getElem?_append_left (by omega)] at this
          exact this
        by_cases hji : j < i
        · exact (h3 _).2 (Or.inl (h.closed j q' hji hq'' e he))
        · have : j = i := by omega
          subst this
          rw [hq] at hq''
          cases hq''
          exact (h3 _).2 (Or.inr ⟨e, he, rfl⟩)
      · exact (h3 0).2 (Or.inl h.zero)
      · show (addTargets order (d.edgesOf q))[0]? = some 0
        rw [h2, List.getElem?_append_left (by omega)]
        exact h.head
      · show i + 1 ≤ (addTargets order (d.edgesOf q)).length
        rw [h2, List.length_append]; omega

/-- the work list of `check_for_dead_ends` is the set of reachable states -/
theorem bfsOrder_spec (d : Dfa) (hd : d.WF) :
    d.bfsOrder.Nodup ∧ d.bfsOrder[0]? = some 0 ∧ ∀ q, q ∈ d.bfsOrder ↔ Dfa.Reach d q := by
  have h0 : BInv d 0 [0] := ⟨by simp, by
    intro m hm
    simp only [List.mem_singleton] at hm
    subst hm
    exact ⟨hd.pos, .start⟩, by intro j q hj; omega, by simp, by simp, by simp⟩
  have h := bfs_go_spec d hd (d.size + 1) 0 [0] h0 (by omega)
  refine ⟨h.nodup, h.head, fun q => ⟨fun hq => (h.reach q hq).2, ?_⟩⟩
  intro hr
  induction hr with
  | start => exact h.zero
  | step _ he ih =>
    obtain ⟨j, hj⟩ := List.mem_iff_getElem?.1 ih
    exact h.closed j _ (List.getElem?_eq_some_iff.1 hj).1 hj _ he

/-! ### the backward fixpoint `live` -/

/-- state `q` has a generatable edge into `live` -/
def liveCond (d : Dfa) (gen : Nat → Bool) (live : List Nat) (q : Nat) : Bool :=
  (d.edgesOf q).any (fun e => live.contains e.2 && gen e.1)

theorem livePass_spec (d : Dfa) (gen : Nat → Bool) (W : List Nat) : ∀ (live : List Nat), live.Nodup →
    (d.livePass gen W live).Nodup ∧ (∃ l, d.livePass gen W live = live ++ l) ∧
    (∀ q, q ∈ d.livePass gen W live → q ∈ live ∨ q ∈ W) ∧
    ((∀ q, q ∈ live → Dfa.GenLive d gen q) → ∀ q, q ∈ d.livePass gen W live → Dfa.GenLive d gen q) ∧
    ((∃ q, q ∈ W ∧ q ∉ live ∧ liveCond d gen live q = true) → live.length < (d.livePass gen W live).length) := by
  induction W with
  | nil =>
    intro live h
    refine ⟨h, ⟨[], by simp [Dfa.livePass]⟩, fun q hq => Or.inl hq, fun hs => hs, ?_⟩
    rintro ⟨q, hq, _⟩; simp at hq
  | cons w W ih =>
    intro live h
    unfold Dfa.livePass
    simp only [List.foldl_cons]
    by_cases hc : live.contains w = true
    · rw [if_pos hc]
      simp only [List.contains_eq_mem, decide_eq_true_eq] at hc
      obtain ⟨h1, h2, h3, h4, h5⟩ := ih live h
      refine ⟨h1, h2, fun q hq => ?_, h4, ?_⟩
      · rcases h3 q hq with hq | hq
        · exact Or.inl hq
        · exact Or.inr (List.mem_cons_of_mem _ hq)
      · rintro ⟨q, hq, hnl, hcond⟩
        rcases List.mem_cons.1 hq with rfl | hq
        · exact absurd hc hnl
        · exact h5 ⟨q, hq, hnl, hcond⟩
    · rw [if_neg hc]
      simp only [List.contains_eq_mem, decide_eq_true_eq] at hc
      by_cases hcond : liveCond d gen live w = true
      · have hcond' := hcond
        unfold liveCond at hcond'
        rw [if_pos hcond']
        have hnd : (live ++ [w]).Nodup := List.nodup_append.2 ⟨h, by simp, by
          intro a ha b hb
          simp only [List.mem_singleton] at hb
          subst hb
          exact fun hab => hc (hab ▸ ha)⟩
        obtain ⟨h1, ⟨l, h2⟩, h3, h4, _⟩ := ih (live ++ [w]) hnd
        unfold Dfa.livePass at h2 h3 h4
        refine ⟨h1, ⟨[w] ++ l, by rw [h2, List.append_assoc]⟩, fun q hq => ?_, fun hs => h4 ?_, fun _ => ?_⟩
        · rcases h3 q hq with hq | hq
          · rcases List.mem_append.1 hq with hq | hq
            · exact Or.inl hq
            · simp only [List.mem_singleton] at hq; subst hq; exact Or.inr (List.mem_cons_self ..)
          · exact Or.inr (List.mem_cons_of_mem _ hq)
        · intro q hq
          rcases List.mem_append.1 hq with hq | hq
          · exact hs q hq
          · simp only [List.mem_singleton] at hq
            subst hq
            simp only [List.any_eq_true, Bool.and_eq_true, List.contains_eq_mem, decide_eq_true_eq] at hcond'
            obtain ⟨e, he, hel, heg⟩ := hcond'
            exact .step he heg (hs _ hel)
        · rw [h2]
          simp only [List.length_append, List.length_cons, List.length_nil]
          omega
      · have hcond' := hcond
        unfold liveCond at hcond'
        rw [if_neg hcond']
        obtain ⟨h1, h2, h3, h4, h5⟩ := ih live h
        refine ⟨h1, h2, fun q hq => ?_, h4, ?_⟩
        · rcases h3 q hq with hq | hq
          · exact Or.inl hq
          · exact Or.inr (List.mem_cons_of_mem _ hq)
        · rintro ⟨q, hq, hnl, hcq⟩
          rcases List.mem_cons.1 hq with rfl | hq
          · exact absurd hcq hcond
          · exact h5 ⟨q, hq, hnl, hcq⟩

structure LiveInv (d : Dfa) (gen : Nat → Bool) (W live : List Nat) : Prop where
  nodup : live.Nodup
  sub : ∀ q, q ∈ live → q ∈ W
  sound : ∀ q, q ∈ live → Dfa.GenLive d gen q

theorem liveLoop_spec (d : Dfa) (gen : Nat → Bool) (W : List Nat) : ∀ (fuel : Nat) (live : List Nat),
    LiveInv d gen W live → W.length + 1 ≤ fuel + live.length →
    LiveInv d gen W (d.liveLoop gen W fuel live) ∧ (∀ q, q ∈ live → q ∈ d.liveLoop gen W fuel live) ∧
    ∀ q, q ∈ W → q ∉ d.liveLoop gen W fuel live → liveCond d gen (d.liveLoop gen W fuel live) q = false := by
  intro fuel
  induction fuel with
  | zero =>
    intro live h hf
    have := (List.subperm_of_subset h.nodup (l₂ := W) (fun x hx => h.sub x hx)).length_le
    omega
  | succ fuel ih =>
    intro live h hf
    unfold Dfa.liveLoop
    obtain ⟨h1, ⟨l, h2⟩, h3, h4, h5⟩ := livePass_spec d gen W live h.nodup
    simp only
    by_cases heq : ((d.livePass gen W live).length == live.length) = true
    · rw [if_pos heq]
      simp only [beq_iff_eq] at heq
      refine ⟨h, fun _ hq => hq, ?_⟩
      intro q hq hnl
      by_contra hc
      have := h5 ⟨q, hq, hnl, by simpa using hc⟩
      omega
    · rw [if_neg heq]
      simp only [beq_iff_eq] at heq
      have hlen : live.length < (d.livePass gen W live).length := by
        rw [h2, List.length_append] at heq ⊢
        omega
      have hinv' : LiveInv d gen W (d.livePass gen W live) := ⟨h1, fun q hq => by
        rcases h3 q hq with hq | hq
        · exact h.sub q hq
        · exact hq, h4 h.sound⟩
      obtain ⟨r1, r2, r3⟩ := ih _ hinv' (by omega)
      refine ⟨r1, fun q hq => r2 q (by rw [h2]; exact List.mem_append_left _ hq), r3⟩

/-- **`check_for_dead_ends`**: the expression is refused exactly when some reachable state of the automaton
    cannot reach a valid end through generatable node types alone -/
theorem hasDeadEnd_iff (d : Dfa) (hd : d.WF) (gen : Nat → Bool) :
    d.hasDeadEnd gen = false ↔ ∀ q, Dfa.Reach d q → Dfa.GenLive d gen q := by
  obtain ⟨hnd, _, hreach⟩ := bfsOrder_spec d hd
  have hinv0 : LiveInv d gen d.bfsOrder (d.bfsOrder.filter d.validEnd) :=
    ⟨hnd.filter _, fun q hq => (List.mem_filter.1 hq).1, fun q hq => .here (List.mem_filter.1 hq).2⟩
  obtain ⟨r1, r2, r3⟩ := liveLoop_spec d gen d.bfsOrder (d.bfsOrder.length + 1) _ hinv0 (by omega)
  unfold Dfa.hasDeadEnd Dfa.liveStates
  simp only
  rw [Bool.eq_false_iff, ne_eq, List.any_eq_true]
  simp only [Bool.not_eq_true', List.contains_eq_mem, decide_eq_false_iff_not, not_exists, not_and, not_not]
  constructor
  · intro h q hq
    exact r1.sound q (h q ((hreach q).2 hq))
  · intro h q hq
    have key : ∀ q, Dfa.GenLive d gen q → Dfa.Reach d q →
        q ∈ d.liveLoop gen d.bfsOrder (d.bfsOrder.length + 1) (d.bfsOrder.filter d.validEnd) := by
      intro q hg
      induction hg with
      | here hv => intro hr; exact r2 _ (List.mem_filter.2 ⟨(hreach _).2 hr, hv⟩)
      | @step q e he hgen _ ih =>
        intro hr
        have hmem := ih (.step hr he)
        by_contra hnot
        have := r3 q ((hreach q).2 hr) hnot
        unfold liveCond at this
        rw [List.any_eq_false] at this
        have := this e he
        simp [hmem, hgen] at this
    exact key q (h q ((hreach q).1 hq)) ((hreach q).1 hq)

/-! ### renumbering by breadth-first order keeps the behaviour -/

theorem bfs_getElem (d : Dfa) (i q : Nat) (hq : d.bfsOrder[i]? = some q) :
    d.bfs[i]? = some ⟨d.validEnd q, (d.edgesOf q).map (fun e => (e.1, d.bfsOrder.idxOf e.2))⟩ := by
  unfold Dfa.bfs
  simp only [List.getElem?_toArray, List.getElem?_map, hq, Option.map_some]

theorem find_map_snd (f : Nat → Nat) (t : Nat) (es : List (Nat × Nat)) :
    ((es.map (fun e => (e.1, f e.2))).find? (fun e => e.1 == t)).map (·.2) =
      ((es.find? (fun e => e.1 == t)).map (·.2)).map f := by
  induction es with
  | nil => rfl
  | cons e es ih =>
    simp only [List.map_cons, List.find?_cons]
    by_cases h : (e.1 == t) = true
    · simp [h]
    · have h' : (e.1 == t) = false := by simpa using h
      simp only [h']
      exact ih

theorem bfs_matchType (d : Dfa) (i q : Nat) (hq : d.bfsOrder[i]? = some q) (t : Nat) :
    d.bfs.matchType i t = (d.matchType q t).map (fun q' => d.bfsOrder.idxOf q') := by
  have h1 : d.bfs.edgesOf i = (d.edgesOf q).map (fun e => (e.1, d.bfsOrder.idxOf e.2)) := by
    rw [Dfa.edgesOf, bfs_getElem d i q hq]
  rw [Dfa.matchType, h1]
  exact find_map_snd (fun q' => d.bfsOrder.idxOf q') t (d.edgesOf q)

theorem idxOf_getElem? {l : List Nat} {q : Nat} (h : q ∈ l) : l[l.idxOf q]? = some q := by
  have hlt := List.idxOf_lt_length_iff.2 h
  rw [List.getElem?_eq_getElem hlt, List.getElem_idxOf hlt]

/-- the automaton renumbered breadth-first (the form the harness dumps, and `NodeType.dfa` holds) runs like
    the original -/
theorem bfs_run (d : Dfa) (hd : d.WF) (w : List Nat) : ∀ q, Dfa.Reach d q →
    d.bfs.run (d.bfsOrder.idxOf q) w = (d.run q w).map (fun q' => d.bfsOrder.idxOf q') ∧
    ∀ q', d.run q w = some q' → Dfa.Reach d q' := by
  obtain ⟨_, _, hreach⟩ := bfsOrder_spec d hd
  induction w with
  | nil => intro q hq; exact ⟨rfl, fun q' h => by cases h; exact hq⟩
  | cons t w ih =>
    intro q hq
    unfold Dfa.run
    rw [bfs_matchType d _ q (idxOf_getElem? ((hreach q).2 hq)) t]
    cases hm : d.matchType q t with
    | none => exact ⟨rfl, fun q' h => by simp at h⟩
    | some q1 =>
      have hr1 : Dfa.Reach d q1 := by
        unfold Dfa.matchType at hm
        rw [Option.map_eq_some_iff] at hm
        obtain ⟨e, he, rfl⟩ := hm
        exact .step hq (List.mem_of_find?_eq_some he)
      simp only [Option.map_some]
      exact ih q1 hr1

theorem bfs_accepts (d : Dfa) (hd : d.WF) (w : List Nat) :
    d.bfs.accepts w = d.accepts w ∧ (d.bfs.run 0 w).isSome = (d.run 0 w).isSome := by
  obtain ⟨_, hhead, hreach⟩ := bfsOrder_spec d hd
  have h0 : d.bfsOrder.idxOf 0 = 0 := by
    cases hl : d.bfsOrder with
    | nil => rw [hl] at hhead; simp at hhead
    | cons a l => rw [hl] at hhead; simp at hhead; subst hhead; simp
  obtain ⟨hrun, hr⟩ := bfs_run d hd w 0 .start
  rw [h0] at hrun
  unfold Dfa.accepts
  rw [hrun]
  cases hq : d.run 0 w with
  | none => simp
  | some q =>
    simp only [Option.map_some, Option.isSome_some, and_true]
    have hqr := hr q hq
    rw [Dfa.validEnd, bfs_getElem d _ q (idxOf_getElem? ((hreach q).2 hqr))]

end PM
