/-
  Proofs/StepMapHist.lean — helper lemmas for the history-level / both-sides theorems of
  Props/C03.lean: the `deleted` flag of `StepMap._map` read off the ranges, the two association
  sides compared, and `Mapping._map` of a mirror-less mapping as the folds of PM/MapFold.lean.
-/
import PM.Map
import PM.MapFold
import Proofs.Map
import Proofs.StepMapLeft
namespace PM

/-! ### the scan over stored (non-inverted) ranges, in plain coordinates -/

theorem mapAuxF_before (pos a : Int) (r : Range) (rest : List Range) (diff : Int) (idx : Nat)
    (h : pos < r.1) : mapAux false pos a (r :: rest) diff idx = { pos := pos + diff } :=
  mapAux_cons_before false pos a r rest diff idx (by simpa using h)

theorem mapAuxF_inside (pos a : Int) (r : Range) (rest : List Range) (diff : Int) (idx : Nat)
    (h1 : r.1 ≤ pos) (h2 : pos ≤ r.1 + r.2.1) :
    mapAux false pos a (r :: rest) diff idx =
      insideRes r.1 (r.1 + r.2.1) (r.1 + diff) (r.1 + diff + r.2.2) idx pos a := by
  have := mapAux_cons_inside false pos a r rest diff idx (by simpa using h1)
    (by simpa [Range.oldSize] using h2)
  simpa [Range.oldSize, Range.newSize] using this

theorem mapAuxF_after (pos a : Int) (r : Range) (rest : List Range) (diff : Int) (idx : Nat)
    (h0 : 0 ≤ r.2.1) (h : r.1 + r.2.1 < pos) :
    mapAux false pos a (r :: rest) diff idx = mapAux false pos a rest (diff + r.2.2 - r.2.1) (idx + 1) := by
  have := mapAux_cons_after false pos a r rest diff idx (by simpa [Range.oldSize] using h0)
    (by simpa [Range.oldSize] using h)
  simpa [Range.oldSize, Range.newSize] using this

theorem RWF.start_ge : ∀ {rs : List Range} {lo : Int}, RWF lo rs → ∀ r ∈ rs, lo ≤ r.1
  | [], _, _, _, h => by cases h
  | r0 :: rest, lo, hwf, r, hr => by
    obtain ⟨h1, h2, _, h4⟩ := hwf
    rcases List.mem_cons.1 hr with rfl | hr
    · exact h1
    · have := RWF.start_ge h4 r hr; omega

theorem deleted_plain (p : Int) : ({ pos := p } : MapResult).deleted = false := by
  simp [MapResult.deleted]

/-! ### the `deleted` flag, read off the ranges -/

/-- **left side**: the flag is set exactly when the token *before* the position lies in a replaced
    range (any sorted map; touching ranges are harmless on this side) -/
theorem mapAux_deleted_left (pos a : Int) (ha : a < 0) :
    ∀ (rs : List Range) (lo diff : Int) (idx : Nat), RWF lo rs →
      ((mapAux false pos a rs diff idx).deleted = true ↔ ∃ r ∈ rs, r.1 < pos ∧ pos ≤ r.1 + r.2.1) := by
  intro rs
  induction rs with
  | nil => intro lo diff idx _; simp [mapAux, MapResult.deleted]
  | cons r rest ih =>
    intro lo diff idx hwf
    obtain ⟨hl, h1, h2, hwf'⟩ := hwf
    have hge : ∀ r' ∈ rest, r.1 + r.2.1 ≤ r'.1 := RWF.start_ge hwf'
    by_cases hb : pos < r.1
    · rw [mapAuxF_before _ _ _ _ _ _ hb, deleted_plain]
      constructor
      · intro h; cases h
      · rintro ⟨r', hr', h3, h4⟩
        rcases List.mem_cons.1 hr' with rfl | hr'
        · omega
        · have := hge r' hr'; omega
    · by_cases he : pos ≤ r.1 + r.2.1
      · rw [mapAuxF_inside _ _ _ _ _ _ (by omega) he, insideRes_deleted, if_pos ha]
        constructor
        · intro hne; exact ⟨r, List.mem_cons_self, by omega, he⟩
        · rintro ⟨r', hr', h3, h4⟩
          rcases List.mem_cons.1 hr' with rfl | hr'
          · omega
          · have := hge r' hr'; omega
      · rw [mapAuxF_after _ _ _ _ _ _ h1 (by omega), ih _ _ _ hwf']
        constructor
        · rintro ⟨r', hr', h⟩; exact ⟨r', List.mem_cons_of_mem _ hr', h⟩
        · rintro ⟨r', hr', h3, h4⟩
          rcases List.mem_cons.1 hr' with rfl | hr'
          · omega
          · exact ⟨r', hr', h3, h4⟩

/-- **right side**: the flag is set exactly when the token *after* the position lies in a replaced
    range — provided no range ends where a range with a non-empty old side starts (there the first
    range catches the position at its end and reports nothing) -/
theorem mapAux_deleted_right (pos a : Int) (ha : ¬ a < 0) :
    ∀ (rs : List Range) (lo diff : Int) (idx : Nat), RWF lo rs →
      (∀ r ∈ rs, ∀ r' ∈ rs, 0 < r'.2.1 → r.1 + r.2.1 ≠ r'.1) →
      ((mapAux false pos a rs diff idx).deleted = true ↔ ∃ r ∈ rs, r.1 ≤ pos ∧ pos < r.1 + r.2.1) := by
  intro rs
  induction rs with
  | nil => intro lo diff idx _ _; simp [mapAux, MapResult.deleted]
  | cons r rest ih =>
    intro lo diff idx hwf hnt
    obtain ⟨hl, h1, h2, hwf'⟩ := hwf
    have hge : ∀ r' ∈ rest, r.1 + r.2.1 ≤ r'.1 := RWF.start_ge hwf'
    by_cases hb : pos < r.1
    · rw [mapAuxF_before _ _ _ _ _ _ hb, deleted_plain]
      constructor
      · intro h; cases h
      · rintro ⟨r', hr', h3, h4⟩
        rcases List.mem_cons.1 hr' with rfl | hr'
        · omega
        · have := hge r' hr'; omega
    · by_cases he : pos ≤ r.1 + r.2.1
      · rw [mapAuxF_inside _ _ _ _ _ _ (by omega) he, insideRes_deleted, if_neg ha]
        constructor
        · intro hne; exact ⟨r, List.mem_cons_self, by omega, by omega⟩
        · rintro ⟨r', hr', h3, h4⟩
          rcases List.mem_cons.1 hr' with rfl | hr'
          · omega
          · have := hge r' hr'
            have := hnt r List.mem_cons_self r' (List.mem_cons_of_mem _ hr') (by omega)
            omega
      · rw [mapAuxF_after _ _ _ _ _ _ h1 (by omega), ih _ _ _ hwf'
          (fun x hx y hy => hnt x (List.mem_cons_of_mem _ hx) y (List.mem_cons_of_mem _ hy))]
        constructor
        · rintro ⟨r', hr', h⟩; exact ⟨r', List.mem_cons_of_mem _ hr', h⟩
        · rintro ⟨r', hr', h3, h4⟩
          rcases List.mem_cons.1 hr' with rfl | hr'
          · omega
          · exact ⟨r', hr', h3, h4⟩

theorem noTouch_spec (m : StepMap) (h : m.noTouch = true) :
    ∀ r ∈ m.ranges, ∀ r' ∈ m.ranges, 0 < r'.2.1 → r.1 + r.2.1 ≠ r'.1 := by
  intro r hr r' hr' h0
  simp only [StepMap.noTouch, List.all_eq_true, Bool.or_eq_true, decide_eq_true_eq] at h
  rcases h r hr r' hr' with h | h
  · omega
  · exact h

theorem coversSide_iff (m : StepMap) (a p : Int) :
    m.coversSide a p = true ↔ ∃ r ∈ m.ranges, r.1 ≤ sideTok a p ∧ sideTok a p < r.1 + r.2.1 := by
  simp only [StepMap.coversSide, List.any_eq_true, Bool.and_eq_true, decide_eq_true_eq]

/-- **one stored map, either side**: `map_result(pos, assoc).deleted` says that the token on the
    asked side of `pos` lies in a replaced range -/
theorem StepMap.deleted_eq_covers (m : StepMap) (hinv : m.inverted = false) (hwf : RWF 0 m.ranges)
    (p a : Int) (hside : a < 0 ∨ m.noTouch = true) :
    (m.mapResult p a).deleted = m.coversSide a p := by
  rw [Bool.eq_iff_iff, coversSide_iff]
  unfold StepMap.mapResult
  rw [hinv]
  by_cases ha : a < 0
  · rw [mapAux_deleted_left p a ha m.ranges 0 0 0 hwf]
    simp only [sideTok, if_pos ha]
    constructor
    · rintro ⟨r, hr, h1, h2⟩; exact ⟨r, hr, by omega, by omega⟩
    · rintro ⟨r, hr, h1, h2⟩; exact ⟨r, hr, by omega, by omega⟩
  · have hnt : m.noTouch = true := by
      rcases hside with h | h
      · exact absurd h ha
      · exact h
    rw [mapAux_deleted_right p a ha m.ranges 0 0 0 hwf (noTouch_spec m hnt)]
    simp only [sideTok, if_neg ha]

/-! ### the two association sides compared -/

theorem insideRes_pos_assoc_mono (os oe ns ne : Int) (i : Nat) (p a a' : Int) (h : ns ≤ ne)
    (haa : a ≤ a') : (insideRes os oe ns ne i p a).pos ≤ (insideRes os oe ns ne i p a').pos := by
  simp only [insideRes]
  repeat' split
  all_goals omega

/-- a larger association side never maps further left (any orientation) -/
theorem mapAux_assoc_mono (inv : Bool) (pos a a' : Int) (haa : a ≤ a') :
    ∀ (rs : List Range) (lo diff : Int) (idx : Nat), RWF lo rs →
      (mapAux inv pos a rs diff idx).pos ≤ (mapAux inv pos a' rs diff idx).pos := by
  intro rs
  induction rs with
  | nil => intro lo diff idx _; simp only [mapAux]; omega
  | cons r rest ih =>
    intro lo diff idx hwf
    obtain ⟨hl, hr1, hr2, hwf'⟩ := hwf
    have ho := oldSize_nonneg inv r hr1 hr2
    have hn := newSize_nonneg inv r hr1 hr2
    by_cases hs : pos < r.1 - (if inv then diff else 0)
    · rw [mapAux_cons_before _ _ _ _ _ _ _ hs, mapAux_cons_before _ _ _ _ _ _ _ hs]
      exact Int.le_refl _
    · by_cases he : pos ≤ r.1 - (if inv then diff else 0) + r.oldSize inv
      · rw [mapAux_cons_inside _ _ a _ _ _ _ (by omega) he, mapAux_cons_inside _ _ a' _ _ _ _ (by omega) he]
        exact insideRes_pos_assoc_mono _ _ _ _ _ _ _ _ (by omega) haa
      · rw [mapAux_cons_after _ _ a _ _ _ _ ho (by omega), mapAux_cons_after _ _ a' _ _ _ _ ho (by omega)]
        exact ih _ _ _ hwf'

theorem StepMap.map_assoc_mono (m : StepMap) (hwf : RWF 0 m.ranges) (p a a' : Int) (haa : a ≤ a') :
    m.map p a ≤ m.map p a' :=
  mapAux_assoc_mono m.inverted p a a' haa m.ranges 0 0 0 hwf

theorem StepMap.map_pos_mono (m : StepMap) (hwf : RWF 0 m.ranges) (p q a : Int) (hpq : p ≤ q) :
    m.map p a ≤ m.map q a :=
  mapAux_mono m.inverted p q a hpq m.ranges 0 0 0 hwf

/-! ### folds over a history -/

theorem mapFold_nil (a p : Int) : mapFold [] a p = p := rfl
theorem mapFold_cons (m : StepMap) (ms : List StepMap) (a p : Int) :
    mapFold (m :: ms) a p = mapFold ms a (m.map p a) := rfl

theorem mapFold_append (ms ms' : List StepMap) (a p : Int) :
    mapFold (ms ++ ms') a p = mapFold ms' a (mapFold ms a p) := by
  simp [mapFold, List.foldl_append]

theorem mapFold_mono : ∀ (ms : List StepMap), (∀ m ∈ ms, RWF 0 m.ranges) → ∀ (a p q : Int), p ≤ q →
    mapFold ms a p ≤ mapFold ms a q
  | [], _, _, _, _, h => h
  | m :: ms, hwf, a, p, q, h => by
    rw [mapFold_cons, mapFold_cons]
    exact mapFold_mono ms (fun x hx => hwf x (List.mem_cons_of_mem _ hx)) a _ _
      (StepMap.map_pos_mono m (hwf m List.mem_cons_self) p q a h)

theorem mapFold_assoc_mono : ∀ (ms : List StepMap), (∀ m ∈ ms, RWF 0 m.ranges) →
    ∀ (a a' p : Int), a ≤ a' → mapFold ms a p ≤ mapFold ms a' p
  | [], _, _, _, _, _ => Int.le_refl _
  | m :: ms, hwf, a, a', p, h => by
    rw [mapFold_cons, mapFold_cons]
    have hwf' : ∀ x ∈ ms, RWF 0 x.ranges := fun x hx => hwf x (List.mem_cons_of_mem _ hx)
    exact Int.le_trans
      (mapFold_mono ms hwf' a _ _ (StepMap.map_assoc_mono m (hwf m List.mem_cons_self) p a a' h))
      (mapFold_assoc_mono ms hwf' a a' _ h)

theorem side_bit_or (x y : Nat) :
    decide ((x ||| y) &&& DEL_SIDE > 0) = (decide (x &&& DEL_SIDE > 0) || decide (y &&& DEL_SIDE > 0)) := by
  rw [Bool.eq_iff_iff]
  simp only [Bool.or_eq_true, decide_eq_true_eq, Nat.and_or_distrib_right, gt_iff_lt,
    Nat.pos_iff_ne_zero, ne_eq, Nat.or_eq_zero_iff]
  omega

/-- the `DEL_SIDE` bit of the gathered deletion info: set on entry or set by some map on the way -/
theorem delFold_side : ∀ (ms : List StepMap) (a p : Int) (del : Nat),
    decide (delFold ms a p del &&& DEL_SIDE > 0) = (decide (del &&& DEL_SIDE > 0) || deletedFold ms a p)
  | [], _, _, _ => by simp [delFold, deletedFold]
  | m :: ms, a, p, del => by
    rw [delFold, deletedFold, delFold_side ms, side_bit_or, Bool.or_assoc]
    rfl

/-- `Mapping._map` of a mapping without mirrors, position **and** deletion info: the two folds -/
theorem mappingMapAux_plain_full (mp : Mapping) (hm : mp.mirror = []) (hto : mp.to ≤ mp.maps.length)
    (assoc : Int) :
    ∀ (fuel i : Nat) (pos : Int) (del : Nat), mp.to - i < fuel →
      mappingMapAux mp assoc fuel i pos del =
        some { pos := mapFold ((mp.maps.take mp.to).drop i) assoc pos,
               delInfo := delFold ((mp.maps.take mp.to).drop i) assoc pos del } := by
  intro fuel
  induction fuel with
  | zero => intro i pos del h; omega
  | succ fuel ih =>
    intro i pos del h
    rw [mappingMapAux]
    by_cases hi : i < mp.to
    · have hil : i < mp.maps.length := by omega
      have hd : (mp.maps.take mp.to).drop i = mp.maps[i] :: (mp.maps.take mp.to).drop (i + 1) := by
        rw [List.drop_eq_getElem_cons (by simp; omega)]
        simp
      simp only [hi, if_true, List.getElem?_eq_getElem hil, Mapping.getMirror, hm, getMirrorAux_nil]
      rw [hd, mapFold_cons, delFold]
      split <;> exact ih _ _ _ (by omega)
    · simp only [hi, if_false]
      rw [List.drop_eq_nil_of_le (by simp; omega)]
      rfl

theorem ofMaps_mapResult (ms : List StepMap) (p a : Int) :
    (Mapping.ofMaps ms).mapResult p a =
      some { pos := mapFold ms a p, delInfo := delFold ms a p 0 } := by
  unfold Mapping.mapResult
  rw [mappingMapAux_plain_full (Mapping.ofMaps ms) rfl (by simp [Mapping.ofMaps]) a _ _ _ _
    (by simp [Mapping.ofMaps])]
  simp [Mapping.ofMaps]

theorem ofMaps_map (ms : List StepMap) (p a : Int) :
    (Mapping.ofMaps ms).map p a = some (mapFold ms a p) := by
  simp [Mapping.map, Mapping.ofMaps, Mapping.mapPlain, mapFold]

theorem ofMaps_deleted (ms : List StepMap) (p a : Int) :
    ((Mapping.ofMaps ms).mapResult p a).map MapResult.deleted = some (deletedFold ms a p) := by
  rw [ofMaps_mapResult, Option.map_some]
  simp only [MapResult.deleted]
  rw [delFold_side]
  simp

/-- a history of stored, sorted maps: the gathered flag is the range-level reading -/
theorem deletedFold_eq_covered : ∀ (ms : List StepMap),
    (∀ m ∈ ms, m.inverted = false ∧ RWF 0 m.ranges) → ∀ (a p : Int),
    (a < 0 ∨ ∀ m ∈ ms, m.noTouch = true) → deletedFold ms a p = coveredFold ms a p
  | [], _, _, _, _ => rfl
  | m :: ms, h, a, p, hs => by
    rw [deletedFold, coveredFold,
      StepMap.deleted_eq_covers m (h m List.mem_cons_self).1 (h m List.mem_cons_self).2 p a
        (hs.imp id (fun h' => h' m List.mem_cons_self)),
      deletedFold_eq_covered ms (fun x hx => h x (List.mem_cons_of_mem _ hx)) a _
        (hs.imp id (fun h' x hx => h' x (List.mem_cons_of_mem _ hx)))]

/-! ### a surviving token keeps width one -/

/-- one range: for a token `i` outside the range, the left image of the position after it is one
    past the right image of the position before it -/
theorem map_one_unit (f o n i : Int) (ho : 0 ≤ o) (hout : i < f ∨ f + o ≤ i) :
    (StepMap.mk [(f, o, n)] false).map (i + 1) (-1) = (StepMap.mk [(f, o, n)] false).map i 1 + 1 := by
  rw [map_one_rule _ _ _ _ _ ho, map_one_rule _ _ _ _ _ ho]
  simp only [rangeSide]
  repeat' split
  all_goals omega

/-- two ranges, left side: at or before the start of the first range -/
theorem map_two_left_le (f o n g o' n' p : Int) (ho : 0 ≤ o) (ho' : 0 ≤ o') (h : p ≤ f) :
    (StepMap.mk [(f, o, n), (g, o', n')] false).map p (-1) = p := by
  rw [map_two_rule _ _ _ _ _ _ _ _ ho ho']
  by_cases h1 : p < f
  · rw [if_pos h1]
  · have hp : p = f := by omega
    subst hp
    rw [if_neg h1, if_pos (by omega)]
    simp only [rangeSide]
    split <;> simp

/-- two ranges, left side: strictly after the first range, at or before the start of the second -/
theorem map_two_left_mid (f o n g o' n' p : Int) (ho : 0 ≤ o) (ho' : 0 ≤ o') (h1 : f + o < p) (h2 : p ≤ g) :
    (StepMap.mk [(f, o, n), (g, o', n')] false).map p (-1) = p + (n - o) := by
  rw [map_two_rule _ _ _ _ _ _ _ _ ho ho', if_neg (by omega), if_neg (by omega)]
  by_cases h3 : p < g
  · rw [if_pos h3]
  · have hp : p = g := by omega
    subst hp
    rw [if_neg h3, if_pos (by omega)]
    simp only [rangeSide]
    split <;> simp

/-- two ranges, left side: strictly after both -/
theorem map_two_left_gt (f o n g o' n' p : Int) (ho : 0 ≤ o) (ho' : 0 ≤ o') (hfg : f + o ≤ g)
    (h : g + o' < p) :
    (StepMap.mk [(f, o, n), (g, o', n')] false).map p (-1) = p + (n - o) + (n' - o') := by
  rw [map_two_rule _ _ _ _ _ _ _ _ ho ho', if_neg (by omega), if_neg (by omega), if_neg (by omega),
    if_neg (by omega)]

/-- two ranges: a surviving token keeps width one, unless the first range ends where an empty second
    range with new content starts (the touching-empty-gap shape) -/
theorem map_two_unit (f o n g o' n' i : Int) (ho : 0 ≤ o) (ho' : 0 ≤ o') (hfg : f + o ≤ g)
    (hne : f + o < g ∨ 0 < o' ∨ n' = 0)
    (hout : (i < f ∨ f + o ≤ i) ∧ (i < g ∨ g + o' ≤ i)) :
    (StepMap.mk [(f, o, n), (g, o', n')] false).map (i + 1) (-1) =
      (StepMap.mk [(f, o, n), (g, o', n')] false).map i 1 + 1 := by
  obtain ⟨h1 | h1, h2⟩ := hout
  · rw [map_two_lt _ _ _ _ _ _ _ _ h1, map_two_left_le _ _ _ _ _ _ _ ho ho' (by omega)]
  · rcases h2 with h2 | h2
    · rw [map_two_mid _ _ _ _ _ _ _ ho h1 h2, map_two_left_mid _ _ _ _ _ _ _ ho ho' (by omega) (by omega)]
      omega
    · rw [map_two_left_gt _ _ _ _ _ _ _ ho ho' hfg (by omega)]
      by_cases h3 : f + o < i
      · rw [map_two_ge _ _ _ _ _ _ _ ho ho' h3 h2]; omega
      · rw [map_two_end _ _ _ _ _ _ _ ho (by omega)]; omega

end PM
