/-
  Proofs/StepMapLeft.lean — the maps of the replace steps for either association side, in closed
  form (helper lemmas for the `assoc = -1` theorems of Props/C03.lean).
-/
import PM.Map
import Proofs.StepMap
namespace PM

/-- the side `StepMap._map` takes inside a range (C08's rule): an empty old range follows `assoc`;
    otherwise the start sticks left, the end sticks right, the interior follows `assoc` -/
def rangeSide (start old pos assoc : Int) : Int :=
  if old = 0 then assoc
  else if pos = start then -1
  else if pos = start + old then 1
  else assoc

theorem rangeSide_empty (s p a : Int) : rangeSide s 0 p a = a := by simp [rangeSide]
theorem rangeSide_start (s o a : Int) (ho : o ≠ 0) : rangeSide s o s a = -1 := by simp [rangeSide, ho]
theorem rangeSide_end (s o e a : Int) (ho : o ≠ 0) (he : e = s + o) : rangeSide s o e a = 1 := by
  subst he
  have : ¬ s + o = s := by omega
  simp [rangeSide, ho, this]
theorem rangeSide_inner (s o p a : Int) (ho : o ≠ 0) (h1 : p ≠ s) (h2 : p ≠ s + o) :
    rangeSide s o p a = a := by simp [rangeSide, ho, h1, h2]

/-- a position inside (closed interval) the first range of the scan -/
theorem mapAux_cons_in (pos a : Int) (r : Range) (rest : List Range) (diff : Int) (idx : Nat)
    (h1 : r.1 ≤ pos) (h2 : pos ≤ r.1 + r.2.1) :
    (mapAux false pos a (r :: rest) diff idx).pos =
      r.1 + diff + (if rangeSide r.1 r.2.1 pos a < 0 then 0 else r.2.2) := by
  simp only [mapAux, Range.oldSize, Range.newSize, Bool.false_eq_true, if_false, Int.sub_zero, rangeSide]
  rw [if_neg (by omega), if_pos (by omega)]
  rfl

/-- strictly after a range the scan goes on, whatever the side -/
theorem mapAux_cons_after (pos a : Int) (r : Range) (rest : List Range) (diff : Int) (idx : Nat)
    (h : r.1 + r.2.1 < pos) (h0 : 0 ≤ r.2.1) :
    mapAux false pos a (r :: rest) diff idx = mapAux false pos a rest (diff + r.2.2 - r.2.1) (idx + 1) :=
  mapAux_cons_gt pos a r rest diff idx h h0

/-- **one range, either side**: before → unchanged; after → shifted; inside (closed) → the start of
    the new content or its end, by `rangeSide` -/
theorem map_one_rule (f o n i a : Int) (ho : 0 ≤ o) :
    (StepMap.mk [(f, o, n)] false).map i a =
      if i < f then i
      else if f + o < i then i + (n - o)
      else f + (if rangeSide f o i a < 0 then 0 else n) := by
  simp only [StepMap.map, StepMap.mapResult]
  by_cases h1 : i < f
  · rw [if_pos h1, mapAux_cons_lt _ _ _ _ _ _ h1]; omega
  · rw [if_neg h1]
    by_cases h2 : f + o < i
    · rw [if_pos h2, mapAux_cons_gt _ _ _ _ _ _ (by simp only; omega) ho, mapAux_nil_pos]
      simp only; omega
    · rw [if_neg h2, mapAux_cons_in _ _ _ _ _ _ (by simp only; omega) (by simp only; omega)]
      simp only; omega

/-- **two ranges, either side**: the first range catches the closed interval
    `[f, f + o]`, the second what is left of `[g, g + o']` -/
theorem map_two_rule (f o n g o' n' i a : Int) (ho : 0 ≤ o) (ho' : 0 ≤ o') :
    (StepMap.mk [(f, o, n), (g, o', n')] false).map i a =
      if i < f then i
      else if i ≤ f + o then f + (if rangeSide f o i a < 0 then 0 else n)
      else if i < g then i + (n - o)
      else if i ≤ g + o' then g + (n - o) + (if rangeSide g o' i a < 0 then 0 else n')
      else i + (n - o) + (n' - o') := by
  simp only [StepMap.map, StepMap.mapResult]
  by_cases h1 : i < f
  · rw [if_pos h1, mapAux_cons_lt _ _ _ _ _ _ h1]; omega
  · rw [if_neg h1]
    by_cases h2 : i ≤ f + o
    · rw [if_pos h2, mapAux_cons_in _ _ _ _ _ _ (by simp only; omega) (by simp only; omega)]
      simp only; omega
    · rw [if_neg h2, mapAux_cons_gt _ _ _ _ _ _ (by simp only; omega) ho]
      by_cases h3 : i < g
      · rw [if_pos h3, mapAux_cons_lt _ _ _ _ _ _ h3]; simp only; omega
      · rw [if_neg h3]
        by_cases h4 : i ≤ g + o'
        · rw [if_pos h4, mapAux_cons_in _ _ _ _ _ _ (by simp only; omega) (by simp only; omega)]
          simp only; omega
        · rw [if_neg h4, mapAux_cons_gt _ _ _ _ _ _ (by simp only; omega) ho', mapAux_nil_pos]
          simp only; omega

/-- the token before position `i` (`0 < i ≤ f`) of a splice -/
theorem splice_get_before {α} (l m r : List α) (f i : Nat) (hi : i ≤ f) (h0 : 0 < i) (hf : f ≤ l.length) :
    (l.take f ++ m ++ r)[i - 1]? = l[i - 1]? :=
  splice_get_lt l m r f (i - 1) (by omega) hf

end PM
