/-
  Proofs/MergeGuard.lean — C16, second `merge` branch (the second step ends where the first one starts)
  under the per-case guard `mergeCompat` (PM/MergeGuard.lean) instead of schema-wide transitivity.

  `replaceKids_merge_open_left` (Proofs/MergeOpen.lean) composes, level by level, the second step's
  relation `K2 ~ K1` (right of the second step's content, moved past the first step's content) with
  the first step's `K1 ~ K`.  The types on the `K2` side at the levels above the second slice are those of
  the ancestors of the second step's `from` in `K` (`LeftRel.ancCompat_eq`, `ancCompat_stays`); the guard
  says they are compatible with the ancestors of the first step's `to`, which is what the composition
  needs (`RightRel.trans_mix`); below those levels the second step's relation is equality of splits.
-/
import Proofs.MergeForward
import PM.MergeGuard
namespace PM

/-! ### `ancCompat`: congruence, positions that stay inside the same ancestors -/

theorem ancCompat_congr_left (S : Schema) (n : Nat) {L L2 : List Node} {f f2 : Nat} (X : List Node) (x : Nat)
    (h : splitRight L f = splitRight L2 f2) : ancCompat S n L f X x = ancCompat S n L2 f2 X x := by
  cases n with
  | zero => simp [ancCompat]
  | succ n => simp only [ancCompat, h]

theorem ancCompat_of_flat (S : Schema) (n : Nat) (L : List Node) (p : Nat) (X : List Node) (x : Nat)
    (hd : depthAt L p = 0) : ancCompat S n L p X x = true := by
  cases n with
  | zero => simp [ancCompat]
  | succ n =>
    cases hs : splitRight L p with
    | none => simp [ancCompat, hs]
    | some rs =>
      cases rs with
      | flat r => simp [ancCompat, hs]
      | deep c i r =>
        obtain ⟨_, _, _, _, _, d, _, _⟩ := splitRight_deep_facts _ _ _ _ _ hs
        omega

/-- `p` deep in a child, and every position up to `p + δ` at least `n + 1` levels deep: `p + δ` is in the
    same child, and relative to it the positions are `n` levels deep -/
theorem splitRight_deep_stays : ∀ (L : List Node) (p : Nat) (ty : TypeId) (a : Attrs) (m : Marks)
    (k : List Node) (i : Nat) (r : List Node) (δ n : Nat),
    splitRight L p = some (.deep (.elem ty a m k) i r) →
    (∀ j, j ≤ δ → n + 1 ≤ depthAt L (p + j)) →
    i + δ ≤ fsize k ∧ ∀ j, j ≤ δ → n ≤ depthAt k (i + j)
  | [], 0, _, _, _, _, _, _, _, _, h, _ => by simp at h
  | [], _ + 1, _, _, _, _, _, _, _, _, h, _ => by simp [splitRight] at h
  | n0 :: ns, p, ty, a, m, k, i, r, δ, n, h, hst => by
    rw [splitRight_cons] at h
    split at h
    · simp at h
    · rename_i hp
      split at h
      · rename_i hle
        refine splitRight_deep_stays ns (p - n0.size) ty a m k i r δ n h ?_
        intro j hj
        have := hst j hj
        rw [depthAt_skip n0 ns (p + j) (by omega)] at this
        rw [show p - n0.size + j = p + j - n0.size by omega]
        exact this
      · rename_i hlt
        cases n0 with
        | text s m' =>
          simp only at h
          split at h <;> simp at h
        | leaf ty' a' m' => simp at h
        | elem ty' a' m' k' =>
          simp at h
          obtain ⟨⟨rfl, rfl, rfl, rfl⟩, rfl, rfl⟩ := h
          simp only [Node.size_elem, Nat.not_le] at hlt
          have hin : p - 1 + δ ≤ fsize k' := by
            refine Classical.byContradiction fun hc => ?_
            have := hst (2 + fsize k' - p) (by omega)
            rw [depthAt_skip _ _ _ (by simp; omega), show p + (2 + fsize k' - p) - (Node.elem ty' a' m' k').size = 0 by
              simp; omega] at this
            simp at this
          refine ⟨hin, ?_⟩
          intro j hj
          have := hst j hj
          rw [depthAt_cons, if_neg (by omega), if_neg (by simp; omega)] at this
          simp only at this
          rw [show p - 1 + j = p + j - 1 by omega]
          omega

/-- moving right inside the same `n` ancestors does not change what `ancCompat` sees -/
theorem ancCompat_stays (S : Schema) : ∀ (n : Nat) (L : List Node) (p δ : Nat) (X : List Node) (x : Nat),
    p ≤ fsize L → alignedAt L p = true → (∀ j, j ≤ δ → n ≤ depthAt L (p + j)) →
    ancCompat S n L (p + δ) X x = ancCompat S n L p X x
  | 0, _, _, _, _, _, _, _, _ => by simp [ancCompat]
  | n + 1, L, p, δ, X, x, hp, ha, hst => by
    obtain ⟨rs, hrs⟩ := splitRight_total L p hp ha
    cases rs with
    | flat r =>
      have := splitRight_flat_depth L p r hrs
      have := hst 0 (by omega)
      simp at this
      omega
    | deep c i r =>
      obtain ⟨ty, a, m, k, rfl, hd, hik, _⟩ := splitRight_deep_facts _ _ _ _ _ hrs
      obtain ⟨hin, hst'⟩ := splitRight_deep_stays L p ty a m k i r δ n hrs hst
      have hrs' := splitRight_deep_shift_in L p ty a m k i r δ hrs hin
      have hak : alignedAt k i = true := by
        have := splitRight_aligned _ _ _ hrs
        simp only at this
        rw [← this]; exact ha
      simp only [ancCompat, hrs, hrs']
      cases hX : splitRight X x with
      | none => rfl
      | some rx =>
        cases rx with
        | flat _ => rfl
        | deep cx ix rx' =>
          cases cx with
          | text _ _ => rfl
          | leaf _ _ _ => rfl
          | elem tx ax mx kx =>
            simp only
            rw [ancCompat_stays S n k i δ kx ix hik hak hst']

/-- left of `p` the two lists look the same: `ancCompat` sees the same ancestors of `p` -/
theorem LeftRel.ancCompat_eq (S : Schema) {L' O : List Node} {p : Nat} (h : LeftRel L' O p) :
    ∀ (n : Nat) (X : List Node) (x : Nat), ancCompat S n L' p X x = ancCompat S n O p X x := by
  induction h with
  | flat _ _ hd' hd _ _ =>
    intro n X x
    rw [ancCompat_of_flat S n _ _ X x hd', ancCompat_of_flat S n _ _ X x hd]
  | @skip n0 L' O p hp hle _ ih =>
    intro n X x
    rw [ancCompat_congr_left S n X x (splitRight_skip n0 L' p hp hle),
      ancCompat_congr_left S n X x (splitRight_skip n0 O p hp hle)]
    exact ih n X x
  | @elem ty a m k' k L' O p hp h1 h2 _ ih =>
    intro n X x
    cases n with
    | zero => simp [ancCompat]
    | succ n =>
      simp only [ancCompat, splitRight_elem ty a m k' L' p hp h1, splitRight_elem ty a m k O p hp h2]
      cases hX : splitRight X x with
      | none => rfl
      | some rx =>
        cases rx with
        | flat _ => rfl
        | deep cx ix rx' =>
          cases cx with
          | text _ _ => rfl
          | leaf _ _ _ => rfl
          | elem tx ax mx kx =>
            simp only
            rw [ih n kx ix]

/-- related positions have compatible ancestors -/
theorem RightRel.ancCompat {S : Schema} {A : List Node} {a : Nat} {C : List Node} {c : Nat}
    (h : RightRel S A a C c) : ∀ n, ancCompat S n A a C c = true := by
  induction h with
  | flat h1 h2 =>
    intro n
    cases n with
    | zero => simp [PM.ancCompat]
    | succ n => simp [PM.ancCompat, h1]
  | deep h1 h2 h3 _ ih =>
    intro n
    cases n with
    | zero => simp [PM.ancCompat]
    | succ n => simp only [PM.ancCompat, h1, h2, h3, ih n, Bool.and_self]

/-! ### composing two relations under the guard -/

/-- `A ~ B` at `a / b`, `B ~ C` at `b + δ / c` where `b + δ` is still inside every ancestor of `b`, and the
    ancestors of `a` in `A` are compatible with those of `c` in `C` (as many levels as `b` is deep):
    then `A ~ C` at `a + δ / c` — no transitivity of `compatible_content` -/
theorem RightRel.trans_mix {S : Schema} {A : List Node} {a : Nat} {B : List Node} {b : Nat}
    (h2 : RightRel S A a B b) : ∀ (δ : Nat) {C : List Node} {c : Nat}, RightRel S B (b + δ) C c →
    (∀ j, j ≤ δ → depthAt B b ≤ depthAt B (b + j)) → PM.ancCompat S (depthAt B b) A a C c = true →
    RightRel S A (a + δ) C c := by
  induction h2 with
  | @flat A a B b r h1 h2' =>
    intro δ C c R1 _ _
    refine R1.congr_left ?_
    rw [splitRight_flat_shift A a r δ h1, splitRight_flat_shift B b r δ h2']
  | @deep A a B b ty' a' m' k' i' ty at_ m k i r h1 h2' h3 hrel ih =>
    intro δ C c R1 hst hg
    obtain ⟨_, _, _, _, e, hd, _, _⟩ := splitRight_deep_facts _ _ _ _ _ h2'
    cases e
    obtain ⟨hin, hst'⟩ := splitRight_deep_stays B b ty at_ m k i r δ (depthAt k i) h2'
      (by intro j hj; have := hst j hj; omega)
    have hB := splitRight_deep_shift_in B b ty at_ m k i r δ h2' hin
    have hlen := congrArg List.length hrel.toks
    simp only [List.length_drop, ftoks_length] at hlen
    have hi' := hrel.le.1
    have hi := hrel.le.2
    have hA := splitRight_deep_shift_in A a ty' a' m' k' i' r δ h1 (by omega)
    cases R1 with
    | flat g1 g2 => rw [hB] at g1; simp at g1
    | @deep _ _ _ _ tyB aB mB kB iB tyC aC mC kC iC rC g1 g2 g3 grel =>
      rw [hB] at g1
      simp only [Option.some.injEq, RSplit.deep.injEq, Node.elem.injEq] at g1
      obtain ⟨⟨rfl, rfl, rfl, rfl⟩, rfl, rfl⟩ := g1
      rw [hd, Nat.add_comm] at hg
      simp only [PM.ancCompat, h1, g2, Bool.and_eq_true] at hg
      exact .deep hA g2 hg.1 (ih δ grel hst' hg.2)

/-! ### the second `merge` branch at the level of child lists, under the guard -/

/-- **the second step ends where the first one starts** (first slice closed on the left, second closed
    on the right; open on the outer sides) -/
theorem replaceKids_merge_open_left_guarded (S : Schema) (ty : TypeId)
    (K K1 K2 : List Node) (f t f' : Nat) (c c' : List Node) (a b : Nat)
    (hg : ancCompat S (depthAt K f) K f' K t = true)
    (hvc : S.validContent ty K = true) (hv : S.checkKids K = true) (hn : fnorm K = true)
    (hcn : fnorm c = true) (hcn' : fnorm c' = true)
    (hp : openValid S 0 b c = true) (hp' : openValid S a 0 c' = true)
    (hr1 : replaceKids S ty K f t ⟨c, 0, b⟩ = .ok K1)
    (hr2 : replaceKids S ty K1 f' f ⟨c', a, 0⟩ = .ok K2)
    (haK1 : alignedAt K1 (f + (Slice.mk c 0 b).toks.length) = true)
    (haK2 : alignedAt K2 f' = true ∧ alignedAt K2 (f' + (Slice.mk c' a 0).toks.length) = true) :
    replaceKids S ty K f' t ⟨fappend c' c, a, b⟩ = .ok K2 := by
  have F1 := fwdFacts S ty K K1 f t _ hr1
  have F2 := fwdFacts S ty K1 K2 f' f _ hr2
  have hn1 := F1.norm hn hcn
  have hn2 := F2.norm hn1 hcn'
  have haK : alignedAt K f' = true := by
    by_cases he : f' = f
    · rw [he]; exact (replaceKids_aligned S ty K f t _ K1 hr1).1
    · have := F2.range
      exact alignedAt_transfer K K1 f' hn hn1 (F1.get_left (f' - 1) (by omega))
        (F1.get_left f' (by omega)) (replaceKids_aligned S ty K1 f' f _ K2 hr2).1
  obtain ⟨hv1, hvc1⟩ := F1.valid hv hvc hp
  obtain ⟨hv2, hvc2⟩ := F2.valid hv1 hvc1 hp'
  have hwf1 := F1.wf
  have hwf2 := F2.wf
  simp only [Slice.wf, Bool.and_eq_true, decide_eq_true_eq] at hwf1 hwf2
  obtain ⟨hft, ht⟩ := F1.range
  obtain ⟨hft', ht'⟩ := F2.range
  have hsz1 := F1.size
  have hsz2 := F2.size
  have hd1 := F1.depths
  have hd2 := F2.depths
  simp only at hd1 hd2 hsz1 hsz2
  generalize hTB : (Slice.mk c 0 b).toks = TB at *
  generalize hTA : (Slice.mk c' a 0).toks = TA at *
  -- right of the first step's content
  have R1 : RightRel S K1 (f + TB.length) K t := by
    have := F1.rrel hn hcn (.inl rfl)
    rw [hTB] at this
    exact this haK1
  -- right of the second step's content, moved past the first step's content
  have R2 : RightRel S K2 (f' + TA.length) K1 f := by
    have := F2.rrel hn1 hcn' (.inr rfl)
    rw [hTA] at this
    exact this haK2.2
  -- tokens of the pair's result
  have htk : ftoks K2 = (ftoks K).take f' ++ (TA ++ TB) ++ (ftoks K).drop t := by
    have h2 := F2.toks
    rw [hTA, F1.toks, hTB] at h2
    rw [h2]
    exact splice_splice_left (ftoks K) TB TA f f' t (by rw [ftoks_length]; omega) hft'
  -- depths: left of `f` the first step changed nothing
  have e1 : depthAt K1 f' = depthAt K f' :=
    depthAt_of_take_eq K K1 f' (by omega) (by omega) (F1.take_left f' hft')
  have e2 : depthAt K1 f = depthAt K f :=
    depthAt_of_take_eq K K1 f (by omega) (by omega) (F1.take_left f (Nat.le_refl _))
  have hlenK := ftoks_length K
  have hPlen' : ((ftoks K).take f').length = f' := by simp; omega
  have hPlen : ((ftoks K).take f).length = f := by simp; omega
  -- the first step's content stays inside every ancestor of `f` (in `K1`)
  have hst1 : ∀ j, j ≤ TB.length → depthAt K1 f ≤ depthAt K1 (f + j) := by
    intro j hj
    have hb := depthAt_balance K1 (f + j) (by omega)
    have e : (ftoks K1).take (f + j) = (ftoks K).take f ++ TB.take j := by
      have := take_splice ((ftoks K).take f) TB ((ftoks K).drop t) j hj
      rw [hPlen] at this
      rw [F1.toks, hTB, this]
    have hge := sliceToks_balance_ge _ F1.wf j
    rw [hTB] at hge
    simp only at hge
    have hf0 := depthAt_balance K f (by omega)
    rw [e, balance_append, ← hf0] at hb
    omega
  -- the second step's content stays inside the ancestors of `f'` above its slice (in `K2`)
  have hst2 : ∀ j, j ≤ TA.length → depthAt K f ≤ depthAt K2 (f' + j) := by
    intro j hj
    have hb := depthAt_balance K2 (f' + j) (by omega)
    have e : (ftoks K2).take (f' + j) = (ftoks K).take f' ++ TA.take j := by
      have := take_splice ((ftoks K).take f') (TA ++ TB) ((ftoks K).drop t) j (by simp; omega)
      rw [hPlen'] at this
      rw [htk, this, take_app_le _ _ _ hj]
    have hge := sliceToks_balance_ge _ F2.wf j
    rw [hTA] at hge
    simp only at hge
    have hf0 := depthAt_balance K f' (by omega)
    rw [e, balance_append, ← hf0] at hb
    omega
  have hL2 : LeftRel K K2 f' := by
    refine leftRel_of_toks K K2 f' hn hn2 (by omega) (by omega) haK ?_
    rw [htk, List.append_assoc, take_app_le _ _ _ (by rw [hPlen']; exact Nat.le_refl _), List.take_take,
      Nat.min_self]
  have hR : RightRel S K t K2 (f' + TA.length + TB.length) := by
    have hg2 : ancCompat S (depthAt K1 f) K2 (f' + TA.length) K t = true := by
      rw [e2, ancCompat_stays S _ K2 f' TA.length K t (by omega) haK2.1 hst2, ← hL2.ancCompat_eq S]
      exact hg
    exact (R2.trans_mix TB.length R1 hst1 hg2).symm
  have hdR1 := R1.depth
  -- the left-spine joins were checked by the second step, in `K1`; left of `f'` it looks like `K`
  have hL1 : LeftRel K K1 f' :=
    leftRel_of_toks K K1 f' hn hn1 (by omega) (by omega) haK (F1.take_left f' hft').symm
  have hc := F2.lcompat
  simp only at hc
  rw [e1, ← hL1.lcompat_eq S] at hc
  exact replaceKids_merged S ty K K2 f' t c' c a b hn hvc2 hv2 hn2 hcn' hcn hwf2.1 hwf1.2 (by omega) ht
    (by rw [hTA, hTB]; exact htk) haK haK2.1 (by rw [hTA, hTB]; exact hR) (by omega) (by omega) hc

/-- **schema-wide transitivity and the pair applying give the per-case guard** -/
theorem ancCompat_of_trans_pair (S : Schema) (htr : CompatTrans S) (ty : TypeId)
    (K K1 K2 : List Node) (f t f' : Nat) (c c' : List Node) (a b : Nat)
    (hvc : S.validContent ty K = true) (hv : S.checkKids K = true) (hn : fnorm K = true)
    (hcn : fnorm c = true) (hcn' : fnorm c' = true)
    (hp : openValid S 0 b c = true) (hp' : openValid S a 0 c' = true)
    (hr1 : replaceKids S ty K f t ⟨c, 0, b⟩ = .ok K1)
    (hr2 : replaceKids S ty K1 f' f ⟨c', a, 0⟩ = .ok K2)
    (haK1 : alignedAt K1 (f + (Slice.mk c 0 b).toks.length) = true)
    (haK2 : alignedAt K2 f' = true ∧ alignedAt K2 (f' + (Slice.mk c' a 0).toks.length) = true) :
    ancCompat S (depthAt K f) K f' K t = true := by
  have F1 := fwdFacts S ty K K1 f t _ hr1
  have F2 := fwdFacts S ty K1 K2 f' f _ hr2
  have hn1 := F1.norm hn hcn
  have hn2 := F2.norm hn1 hcn'
  have haK : alignedAt K f' = true := by
    by_cases he : f' = f
    · rw [he]; exact (replaceKids_aligned S ty K f t _ K1 hr1).1
    · have := F2.range
      exact alignedAt_transfer K K1 f' hn hn1 (F1.get_left (f' - 1) (by omega))
        (F1.get_left f' (by omega)) (replaceKids_aligned S ty K1 f' f _ K2 hr2).1
  obtain ⟨hv1, hvc1⟩ := F1.valid hv hvc hp
  obtain ⟨hv2, hvc2⟩ := F2.valid hv1 hvc1 hp'
  have hwf1 := F1.wf
  have hwf2 := F2.wf
  simp only [Slice.wf, Bool.and_eq_true, decide_eq_true_eq] at hwf1 hwf2
  obtain ⟨hft, ht⟩ := F1.range
  obtain ⟨hft', ht'⟩ := F2.range
  have hsz1 := F1.size
  have hsz2 := F2.size
  have hd1 := F1.depths
  have hd2 := F2.depths
  simp only at hd1 hd2 hsz1 hsz2
  generalize hTB : (Slice.mk c 0 b).toks = TB at *
  generalize hTA : (Slice.mk c' a 0).toks = TA at *
  -- right of the first step's content
  have R1 : RightRel S K1 (f + TB.length) K t := by
    have := F1.rrel hn hcn (.inl rfl)
    rw [hTB] at this
    exact this haK1
  -- right of the second step's content, moved past the first step's content
  have R2 : RightRel S K2 (f' + TA.length) K1 f := by
    have := F2.rrel hn1 hcn' (.inr rfl)
    rw [hTA] at this
    exact this haK2.2
  -- tokens of the pair's result
  have htk : ftoks K2 = (ftoks K).take f' ++ (TA ++ TB) ++ (ftoks K).drop t := by
    have h2 := F2.toks
    rw [hTA, F1.toks, hTB] at h2
    rw [h2]
    exact splice_splice_left (ftoks K) TB TA f f' t (by rw [ftoks_length]; omega) hft'
  -- depths: left of `f` the first step changed nothing
  have e1 : depthAt K1 f' = depthAt K f' :=
    depthAt_of_take_eq K K1 f' (by omega) (by omega) (F1.take_left f' hft')
  have e2 : depthAt K1 f = depthAt K f :=
    depthAt_of_take_eq K K1 f (by omega) (by omega) (F1.take_left f (Nat.le_refl _))
  have hlenK := ftoks_length K
  have hPlen' : ((ftoks K).take f').length = f' := by simp; omega
  have hPlen : ((ftoks K).take f).length = f := by simp; omega
  -- the first step's content stays inside every ancestor of `f` (in `K1`)
  have hst1 : ∀ j, j ≤ TB.length → depthAt K1 f ≤ depthAt K1 (f + j) := by
    intro j hj
    have hb := depthAt_balance K1 (f + j) (by omega)
    have e : (ftoks K1).take (f + j) = (ftoks K).take f ++ TB.take j := by
      have := take_splice ((ftoks K).take f) TB ((ftoks K).drop t) j hj
      rw [hPlen] at this
      rw [F1.toks, hTB, this]
    have hge := sliceToks_balance_ge _ F1.wf j
    rw [hTB] at hge
    simp only at hge
    have hf0 := depthAt_balance K f (by omega)
    rw [e, balance_append, ← hf0] at hb
    omega
  -- the second step's content stays inside the ancestors of `f'` above its slice (in `K2`)
  have hst2 : ∀ j, j ≤ TA.length → depthAt K f ≤ depthAt K2 (f' + j) := by
    intro j hj
    have hb := depthAt_balance K2 (f' + j) (by omega)
    have e : (ftoks K2).take (f' + j) = (ftoks K).take f' ++ TA.take j := by
      have := take_splice ((ftoks K).take f') (TA ++ TB) ((ftoks K).drop t) j (by simp; omega)
      rw [hPlen'] at this
      rw [htk, this, take_app_le _ _ _ hj]
    have hge := sliceToks_balance_ge _ F2.wf j
    rw [hTA] at hge
    simp only at hge
    have hf0 := depthAt_balance K f' (by omega)
    rw [e, balance_append, ← hf0] at hb
    omega
  have hL2 : LeftRel K K2 f' := by
    refine leftRel_of_toks K K2 f' hn hn2 (by omega) (by omega) haK ?_
    rw [htk, List.append_assoc, take_app_le _ _ _ (by rw [hPlen']; exact Nat.le_refl _), List.take_take,
      Nat.min_self]
  have R2s := R2.shift TB.length (by omega) haK1
  have hR : RightRel S K2 (f' + TA.length + TB.length) K t := R2s.trans htr R1
  have hst3 : ∀ j, j ≤ TA.length + TB.length → depthAt K f ≤ depthAt K2 (f' + j) := by
    intro j hj
    by_cases hjA : j ≤ TA.length
    · exact hst2 j hjA
    · have hb := depthAt_balance K2 (f' + j) (by omega)
      have e : (ftoks K2).take (f' + j) = (ftoks K).take f' ++ (TA ++ TB.take (j - TA.length)) := by
        have := take_splice ((ftoks K).take f') (TA ++ TB) ((ftoks K).drop t) j (by simp; omega)
        rw [hPlen'] at this
        rw [htk, this, take_app_ge _ _ _ (by omega)]
      have hbalA := sliceToks_balance _ F2.wf
      rw [hTA] at hbalA
      simp only at hbalA
      have hge := sliceToks_balance_ge _ F1.wf (j - TA.length)
      rw [hTB] at hge
      simp only at hge
      have hf0 := depthAt_balance K f' (by omega)
      rw [e, balance_append, balance_append, ← hf0] at hb
      omega
  have h1 := hR.ancCompat (depthAt K f)
  have h2 := ancCompat_stays S (depthAt K f) K2 f' (TA.length + TB.length) K t (by omega) haK2.1 hst3
  rw [← Nat.add_assoc] at h2
  rw [h2, ← hL2.ancCompat_eq S] at h1
  exact h1

end PM
