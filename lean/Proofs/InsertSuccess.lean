/-
  Proofs/InsertSuccess.lean — "an approved insertion applies" (property C12: `insert_point`, `drop_point`):
  a closed fragment `C` put in at a child boundary of a node on the path of a resolved position.

  * `canReplace_insert_valid`, `canReplace_of_with`: what `can_replace(i, i, C)` / `can_replace_with(i, i, type)`
    establish about the new child list;
  * `level_insert_applies`: the replace step `ReplaceStep(p, p, Slice(C, 0, 0))` at such a boundary applies and the
    result is valid, given the parent's approval (`TextStable`: `C` may start or end with text that merges);
  * `insertPointR_spec`, `dropLoop_spec`: where the helpers' answers lie and which test they passed.
-/
import Proofs.WrapSuccess
import Proofs.ResolveBoundary
import PM.RangeOps
import PM.Fitter
import PM.InsertGuard
namespace PM

/-- `can_replace(i, i, C)` on a valid child list: the list with `C` put in at `i` is valid content -/
theorem canReplace_insert_valid (S : Schema) (tyP : TypeId) (pre post C : List Node)
    (hvn : S.validContent tyP (pre ++ post) = true)
    (hcr : S.canReplace tyP (pre ++ post) pre.length pre.length C 0 C.length = some true) :
    S.validContent tyP (pre ++ C ++ post) = true := by
  have hall := allowsMarks_of_valid S _ _ hvn
  unfold Schema.canReplace Schema.contentMatchAt at hcr
  have e1 : (pre ++ post).take pre.length = pre := by simp
  have e2 : (pre ++ post).drop pre.length = post := by simp
  have e3 : (C.take C.length).drop 0 = C := by simp
  rw [e1, e2] at hcr
  simp only [e3] at hcr
  split at hcr
  · simp at hcr
  · rename_i q hq
    split at hcr
    · simp at hcr
    · rename_i q1 hq1
      split at hcr
      · simp at hcr
      · rename_i q2 hq2
        simp only [Option.some.injEq, Bool.and_eq_true, List.all_eq_true] at hcr
        have hacc : (S.dfa tyP).accepts (S.types (pre ++ C ++ post)) = true := by
          unfold Dfa.accepts
          have e : S.types (pre ++ C ++ post) = S.types pre ++ (S.types C ++ S.types post) := by
            simp [Schema.types]
          rw [e, Dfa.run_append, hq]
          simp only [Option.bind_some]
          rw [Dfa.run_append, hq1]
          simp only [Option.bind_some, hq2]
          exact hcr.1
        simp only [Schema.validContent, hacc, Bool.true_and, List.all_eq_true]
        intro k hkm
        simp only [List.mem_append] at hkm
        rcases hkm with (h | h) | h
        · exact hall k (by simp [h])
        · exact hcr.2 k h
        · exact hall k (by simp [h])

/-- `can_replace_with(i, j, type)` is `can_replace(i, j, [n])` for a node of that type whose marks the parent allows -/
theorem canReplace_of_with (S : Schema) (tyP : TypeId) (L : List Node) (i j : Nat) (n : Node) (ty : TypeId)
    (hty : S.tyOf n = ty) (hm : (S.nodeType tyP).allowsMarks n.marks = true)
    (h : S.canReplaceWith tyP L i j ty [] = some true) : S.canReplace tyP L i j [n] 0 1 = some true := by
  unfold Schema.canReplaceWith at h
  simp only [List.isEmpty_nil, Bool.not_true, Bool.false_and, Bool.false_eq_true, if_false] at h
  unfold Schema.canReplace
  split at h
  · simp at h
  · rename_i q hq
    simp only []
    have e : (([n] : List Node).take 1).drop 0 = [n] := rfl
    rw [e]
    split at h
    · simp at h
    · rename_i q1 hq1
      have : (S.dfa tyP).run q (S.types [n]) = some q1 := by
        simp [Schema.types, Dfa.run, hty, hq1]
      rw [this]
      simp only []
      split at h
      · simp at h
      · rename_i q2 hq2
        simp only [Option.some.injEq] at h
        simp [h, hm]

/-- … and in general `can_replace(i, j, [n])` is then "the parent allows the marks of `n`" -/
theorem canReplace_of_with' (S : Schema) (tyP : TypeId) (L : List Node) (i j : Nat) (n : Node) (ty : TypeId)
    (hty : S.tyOf n = ty) (h : S.canReplaceWith tyP L i j ty [] = some true) :
    S.canReplace tyP L i j [n] 0 1 = some ((S.nodeType tyP).allowsMarks n.marks) := by
  unfold Schema.canReplaceWith at h
  simp only [List.isEmpty_nil, Bool.not_true, Bool.false_and, Bool.false_eq_true, if_false] at h
  unfold Schema.canReplace
  split at h
  · simp at h
  · rename_i q hq
    simp only []
    have e : (([n] : List Node).take 1).drop 0 = [n] := rfl
    rw [e]
    split at h
    · simp at h
    · rename_i q1 hq1
      have : (S.dfa tyP).run q (S.types [n]) = some q1 := by
        simp [Schema.types, Dfa.run, hty, hq1]
      rw [this]
      simp only []
      split at h
      · simp at h
      · rename_i q2 hq2
        simp only [Option.some.injEq] at h
        simp [h]

theorem nodeCanReplace_of_with' (S : Schema) (node : Node) (i : Nat) (n : Node) (ty : TypeId)
    (hty : S.tyOf n = ty) (h : S.nodeCanReplaceWith node i i ty = some true) :
    S.nodeCanReplace node i i [n] = some ((S.nodeType (S.tyOf node)).allowsMarks n.marks) := by
  unfold Schema.nodeCanReplaceWith at h
  unfold Schema.nodeCanReplace
  split at h
  · simp at h
  · rename_i hlen
    rw [if_neg hlen]
    exact canReplace_of_with' S _ _ i i n ty hty h

/-- **a closed fragment put in at a child boundary of a nested node**: if the node's `can_replace(i, i, C)` approves,
    `ReplaceStep(p, p, Slice(C, 0, 0))` applies and the document stays valid -/
theorem level_insert_applies (S : Schema) (hts : TextStableP S) (ty0 : TypeId) (a0 : Attrs) (m0 : Marks) (K : List Node)
    (hv : S.checkNode (.elem ty0 a0 m0 K) = true) (hn : fnorm K = true)
    {b nd : Nat} {tyP : TypeId} {ctx : List Node → List Node} {pre post : List Node}
    (hl : Lvl ty0 K b nd tyP (pre ++ post) ctx) (C : List Node) (hnC : fnorm C = true)
    (hcr : S.canReplace tyP (pre ++ post) pre.length pre.length C 0 C.length = some true) :
    S.apply (.replace (b + fsize pre) (b + fsize pre) ⟨C, 0, 0⟩ false) (.elem ty0 a0 m0 K)
      = .ok (.elem ty0 a0 m0 (ctx (fromArray (pre ++ C ++ post)))) := by
  have hvK : S.validContent ty0 K = true ∧ S.checkKids K = true := by
    simp only [checkNode_elem, Bool.and_eq_true] at hv
    exact ⟨hv.1.1, hv.2⟩
  obtain ⟨hvL, _, hnL⟩ := hl.valid hvK.1 hvK.2 hn
  have hval := canReplace_insert_valid S tyP pre post C hvL hcr
  have hl' : Lvl ty0 K b nd tyP (pre ++ [] ++ post) ctx := by simpa using hl
  have hrep := replaceKids_children hts hl' C hnC (by simpa using hnL) hval
  simp only [fsize_nil, Nat.add_zero] at hrep
  simp only [Schema.apply, Bool.false_eq_true, if_false, Schema.fromReplace, Schema.replace, hrep, Except.map]

/-! ### the child boundaries around the path of a resolved position -/

/-- at depth `d` of the path of `pos` (at the innermost depth: `pos` not strictly inside a text child), the children of
    `node(d)` split into those before the path child, the path child (nothing at the innermost depth), those after;
    `before(d + 1)` / `after(d + 1)` are the two boundaries -/
theorem boundary_level (S : Schema) {ty0 : TypeId} {a0 : Attrs} {m0 : Marks} {K : List Node} {pos : Nat} {r : RPos}
    (hf : (Node.elem ty0 a0 m0 K).resolve pos = some r) (hn : fnorm K = true) (d : Nat) (hd : d ≤ r.depth)
    (hb : d < r.depth ∨ r.textOffset = 0) :
    ∃ tyP ctx pre mid post, Lvl ty0 K (r.start d) d tyP (pre ++ mid ++ post) ctx ∧
      (r.node d).kids = pre ++ mid ++ post ∧ S.tyOf (r.node d) = tyP ∧
      pre.length = r.index d ∧ (pre ++ mid).length = r.indexAfter d ∧
      r.before (d + 1) = some (r.start d + fsize pre) ∧
      r.after (d + 1) = some (r.start d + (fsize pre + fsize mid)) := by
  have R := resolve_resolved hf
  obtain ⟨gs, hgs⟩ := R.before_isSome d hd
  obtain ⟨ge, hge⟩ := R.after_isSome d hd
  have pin := R.pos_in d hd
  obtain ⟨pre, mid, post, hk, _, hpre, hmid, hpost, hij, hial, egs, ege⟩ :=
    range_level hf hf (by simpa [Node.kids] using hn) d (Nat.le_refl _) hd hd pin.2 hb hb gs ge hgs hge
  obtain ⟨tyP, aP, mP, ctx, eP, hl⟩ := Resolved.lvl hf hn d hd
  have hprelen : pre.length = r.index d := by
    rw [hpre, List.length_take]; omega
  have hpmlen : (pre ++ mid).length = r.indexAfter d := by
    rw [hpre, hmid, List.length_append, List.length_take]
    unfold cutByIndex
    rw [List.length_drop, List.length_take]
    omega
  refine ⟨tyP, ctx, pre, mid, post, by rw [← hk]; exact hl, hk, by rw [eP]; rfl, hprelen, hpmlen, ?_, ?_⟩
  · rw [hgs, egs]
  · rw [hge, ege]

/-! ### what `insert_point` established -/

/-- which side of the path child an answer lies on -/
inductive Side where
  | before | after
deriving DecidableEq, Repr

/-- an answer `p` of a helper that walks up the path: at depth `d`, in front of or behind the path child, with the
    child index `i` the helper's test used -/
def AtBoundary (r : RPos) (d : Nat) (sd : Side) (i p : Nat) : Prop :=
  d ≤ r.depth ∧
  match sd with
  | .before => i = r.index d ∧ r.before (d + 1) = some p
  | .after => i = r.indexAfter d ∧ r.after (d + 1) = some p

theorem insertLoopStart_spec (S : Schema) (r : RPos) (ty : TypeId) : ∀ (n : Nat) (p : Nat), n ≤ r.depth →
    insertLoopStart S r ty n = some (some (some p)) →
    ∃ d, d < r.depth ∧ AtBoundary r d .before (r.index d) p ∧
      S.nodeCanReplaceWith (r.node d) (r.index d) (r.index d) ty = some true
  | 0, p, _, h => by simp [insertLoopStart] at h
  | d + 1, p, hd, h => by
    simp only [insertLoopStart] at h
    split at h
    · simp at h
    · rename_i hcr
      split at h
      · simp at h
      · rename_i p' hp'
        simp only [Option.some.injEq] at h
        subst h
        exact ⟨d, by omega, ⟨by omega, rfl, hp'⟩, hcr⟩
    · split at h
      · simp at h
      · exact insertLoopStart_spec S r ty d p (by omega) h

theorem insertLoopEnd_spec (S : Schema) (r : RPos) (ty : TypeId) : ∀ (n : Nat) (p : Nat), n ≤ r.depth →
    insertLoopEnd S r ty n = some (some (some p)) →
    ∃ d, d < r.depth ∧ AtBoundary r d .after (r.indexAfter d) p ∧
      S.nodeCanReplaceWith (r.node d) (r.indexAfter d) (r.indexAfter d) ty = some true
  | 0, p, _, h => by simp [insertLoopEnd] at h
  | d + 1, p, hd, h => by
    simp only [insertLoopEnd] at h
    split at h
    · simp at h
    · rename_i hcr
      split at h
      · simp at h
      · rename_i p' hp'
        simp only [Option.some.injEq] at h
        subst h
        exact ⟨d, by omega, ⟨by omega, rfl, hp'⟩, hcr⟩
    · split at h
      · simp at h
      · exact insertLoopEnd_spec S r ty d p (by omega) h

/-- **where an insert point lies**: either the position itself (the parent approved), or a boundary of an ancestor
    strictly above, with that ancestor's approval -/
theorem insertPointR_spec (S : Schema) (r : RPos) (ty : TypeId) (p : Nat)
    (h : insertPointR S r ty = some (some p)) :
    (p = r.pos ∧ S.nodeCanReplaceWith r.parent (r.index r.depth) (r.index r.depth) ty = some true) ∨
    ∃ d sd i, d < r.depth ∧ AtBoundary r d sd i p ∧ S.nodeCanReplaceWith (r.node d) i i ty = some true := by
  unfold insertPointR at h
  split at h
  · simp at h
  · rename_i hcr
    simp only [Option.some.injEq] at h
    exact .inl ⟨h.symm, hcr⟩
  · simp only at h
    split at h
    · simp at h
    · rename_i res hfirst
      simp only [Option.some.injEq] at h
      subst h
      split at hfirst
      · obtain ⟨d, h1, h2, h3⟩ := insertLoopStart_spec S r ty r.depth p (Nat.le_refl _) hfirst
        exact .inr ⟨d, .before, _, h1, h2, h3⟩
      · simp at hfirst
    · split at h
      · split at h
        · simp at h
        · rename_i res hend
          simp only [Option.some.injEq] at h
          subst h
          obtain ⟨d, h1, h2, h3⟩ := insertLoopEnd_spec S r ty r.depth p (Nat.le_refl _) hend
          exact .inr ⟨d, .after, _, h1, h2, h3⟩
        · simp at h
      · simp at h

/-- **a closed fragment put in at a boundary the helper's walk reached**: `node(d).can_replace(i, i, C)` ⇒ the replace
    step at `p` applies and gives a valid document -/
theorem boundary_insert_applies (S : Schema) (hts : TextStableP S) (ty0 : TypeId) (a0 : Attrs) (m0 : Marks)
    (K : List Node) (pos : Nat) (r : RPos) (hf : (Node.elem ty0 a0 m0 K).resolve pos = some r)
    (hv : S.checkNode (.elem ty0 a0 m0 K) = true) (hn : fnorm K = true)
    (d : Nat) (sd : Side) (i p : Nat) (hb : d < r.depth ∨ r.textOffset = 0)
    (hat : AtBoundary r d sd i p) (C : List Node) (hnC : fnorm C = true)
    (hcr : S.nodeCanReplace (r.node d) i i C = some true) :
    ∃ doc', S.apply (.replace p p ⟨C, 0, 0⟩ false) (.elem ty0 a0 m0 K) = .ok doc' := by
  obtain ⟨hd, hside⟩ := hat
  obtain ⟨tyP, ctx, pre, mid, post, hl, hk, hty, hpl, hpml, hbef, haft⟩ := boundary_level S hf hn d hd hb
  unfold Schema.nodeCanReplace at hcr
  split at hcr
  · simp at hcr
  · rw [hty, hk] at hcr
    cases sd with
    | before =>
      simp only at hside
      obtain ⟨hi, hp⟩ := hside
      rw [hbef] at hp
      simp only [Option.some.injEq] at hp
      subst hp
      rw [hi, ← hpl] at hcr
      have hl' : Lvl ty0 K (r.start d) d tyP (pre ++ (mid ++ post)) ctx := by simpa using hl
      exact ⟨_, level_insert_applies S hts ty0 a0 m0 K hv hn hl' C hnC (by simpa using hcr)⟩
    | after =>
      simp only at hside
      obtain ⟨hi, hp⟩ := hside
      rw [haft] at hp
      simp only [Option.some.injEq] at hp
      subst hp
      rw [hi, ← hpml] at hcr
      have := level_insert_applies S hts ty0 a0 m0 K hv hn (pre := pre ++ mid) (post := post) hl C hnC hcr
      rw [fsize_append] at this
      exact ⟨_, this⟩

/-- the position a helper's walk reached, resolved: its parent is the ancestor the helper asked, its index the one the
    helper's test used, and it is a child boundary -/
theorem boundary_resolve (S : Schema) {ty0 : TypeId} {a0 : Attrs} {m0 : Marks} {K : List Node} {pos : Nat} {r : RPos}
    (hf : (Node.elem ty0 a0 m0 K).resolve pos = some r) (hn : fnorm K = true)
    (d : Nat) (sd : Side) (i p : Nat) (hb : d < r.depth ∨ r.textOffset = 0) (hat : AtBoundary r d sd i p) :
    ∃ rp, (Node.elem ty0 a0 m0 K).resolve p = some rp ∧ S.tyOf rp.parent = S.tyOf (r.node d) ∧
      rp.parent.kids = (r.node d).kids ∧ rp.index rp.depth = i ∧ rp.textOffset = 0 := by
  obtain ⟨hd, hside⟩ := hat
  obtain ⟨tyP, ctx, pre, mid, post, hl, hk, hty, hpl, hpml, hbef, haft⟩ := boundary_level S hf hn d hd hb
  have hnL := fnormKids_of_fnorm (hl.norm hn)
  simp only [fnormKids_append, Bool.and_eq_true] at hnL
  cases sd with
  | before =>
    simp only at hside
    obtain ⟨hi, hp⟩ := hside
    rw [hbef] at hp
    simp only [Option.some.injEq] at hp
    subst hp
    have hl' : Lvl ty0 K (r.start d) d tyP (pre ++ (mid ++ post)) ctx := by simpa using hl
    obtain ⟨rp, h1, h2, h3, h4, h5, _, _⟩ := resolve_at_boundary S ty0 a0 m0 hl' hnL.1.1
    exact ⟨rp, h1, by rw [h3, hty], by rw [h2, hk]; simp, by rw [h4, hi, hpl], h5⟩
  | after =>
    simp only at hside
    obtain ⟨hi, hp⟩ := hside
    rw [haft] at hp
    simp only [Option.some.injEq] at hp
    subst hp
    obtain ⟨rp, h1, h2, h3, h4, h5, _, _⟩ := resolve_at_boundary S ty0 a0 m0 (pre := pre ++ mid) (post := post) hl
      (by simp [fnormKids_append, hnL.1.1, hnL.1.2])
    rw [fsize_append] at h1
    exact ⟨rp, h1, by rw [h3, hty], by rw [h2, hk], by rw [h4, hi, hpml], h5⟩

/-- … so `fits_trivially(p, p, Slice(C, 0, 0))` is the test the helper made -/
theorem boundary_fitsTrivially (S : Schema) {ty0 : TypeId} {a0 : Attrs} {m0 : Marks} {K : List Node} {pos : Nat}
    {r : RPos} (hf : (Node.elem ty0 a0 m0 K).resolve pos = some r) (hn : fnorm K = true)
    (d : Nat) (sd : Side) (i p : Nat) (hb : d < r.depth ∨ r.textOffset = 0) (hat : AtBoundary r d sd i p)
    (C : List Node) :
    fitsTriviallyO S (.elem ty0 a0 m0 K) p p ⟨C, 0, 0⟩ = S.nodeCanReplace (r.node d) i i C := by
  obtain ⟨rp, h1, h2, h3, h4, _⟩ := boundary_resolve S hf hn d sd i p hb hat
  simp only [fitsTriviallyO, h1, fitsTriviallyR, beq_self_eq_true, Bool.and_self, if_true, h4]
  simp only [Schema.nodeCanReplace, h2, h3]

/-- `replace_step` on a request that fits trivially (and is not empty) -/
theorem replaceStep_trivial (S : Schema) (doc : Node) (f t : Nat) (sl : Slice)
    (hne : ¬ (f = t ∧ sl.size = 0)) (h : fitsTriviallyO S doc f t sl = some true) :
    replaceStep S doc f t sl = .ok (some (.replace f t sl false)) := by
  unfold replaceStep
  rw [if_neg (by simpa using hne)]
  unfold fitsTriviallyO at h
  split at h
  · rename_i rf rt hrf hrt
    simp only [hrf, hrt, h]
    rfl
  · simp at h

/-! ### what the first pass of `drop_point` established -/

theorem before_innermost (r : RPos) : r.before (r.depth + 1) = some r.pos := by
  simp [RPos.before]

theorem dropLoop_spec (S : Schema) (r : RPos) (content : List Node) : ∀ (n p : Nat), n ≤ r.depth + 1 →
    dropLoop S r content false n = some (some p) →
    ∃ d sd i, d ≤ r.depth ∧ (d < r.depth ∨ (d = r.depth ∧ sd = .before ∧ i = r.index r.depth ∧ p = r.pos)) ∧
      AtBoundary r d sd i p ∧
      S.nodeCanReplace (r.node d) i i content = some true
  | 0, p, _, h => by simp [dropLoop] at h
  | d + 1, p, hd, h => by
    simp only [dropLoop] at h
    split at h
    · simp at h
    · rename_i hfit
      simp only [dropFits, Bool.not_false, if_true] at hfit
      by_cases hdd : d = r.depth
      · have hb : dropBias r d = 0 := by simp [dropBias, hdd]
        rw [hb] at hfit h
        simp only [if_true, Option.some.injEq] at h
        subst h
        simp only [Int.lt_irrefl, if_false, Nat.add_zero] at hfit
        exact ⟨d, .before, r.index d, by omega, .inr ⟨hdd, rfl, by rw [hdd], rfl⟩,
          ⟨by omega, rfl, by rw [hdd]; exact before_innermost r⟩, hfit⟩
      · have hlt : d < r.depth := by omega
        by_cases hbias : 2 * r.pos ≤ r.start (d + 1) + r.end_ (d + 1)
        · have hb : dropBias r d = -1 := by simp [dropBias, hdd, hbias]
          rw [hb] at hfit h
          simp only [show ¬ ((-1 : Int) = 0) by decide, if_false, show ((-1 : Int) < 0) by decide, if_true] at h
          simp only [show ¬ ((-1 : Int) > 0) by decide, if_false, Nat.add_zero] at hfit
          split at h
          · simp at h
          · rename_i p' hp'
            simp only [Option.some.injEq] at h
            subst h
            exact ⟨d, .before, r.index d, by omega, .inl hlt, ⟨by omega, rfl, hp'⟩, hfit⟩
        · have hb : dropBias r d = 1 := by simp [dropBias, hdd, hbias]
          rw [hb] at hfit h
          simp only [show ¬ ((1 : Int) = 0) by decide, if_false, show ¬ ((1 : Int) < 0) by decide] at h
          simp only [show ((1 : Int) > 0) by decide, if_true] at hfit
          split at h
          · simp at h
          · rename_i p' hp'
            simp only [Option.some.injEq] at h
            subst h
            have hia : r.indexAfter d = r.index d + 1 := by
              unfold RPos.indexAfter
              rw [if_neg (by simp [hdd])]
            exact ⟨d, .after, r.index d + 1, by omega, .inl hlt, ⟨by omega, hia.symm, hp'⟩, hfit⟩
    · exact dropLoop_spec S r content d p (by omega) h

/-! ### a closed fragment put in strictly inside a text child -/

/-- validity only looks at the types and marks of the children: the two halves of a cut text child stand for it -/
theorem validContent_text_halves (S : Schema) (tyP : TypeId) (pre C post : List Node) (s s1 s2 : List Nat) (m : Marks)
    (h : S.validContent tyP (pre ++ [.text s m] ++ (C ++ [.text s m]) ++ post) = true) :
    S.validContent tyP (pre ++ [.text s1 m] ++ C ++ [.text s2 m] ++ post) = true := by
  simp only [Schema.validContent, Schema.types, List.map_append, List.map_cons, List.map_nil, List.all_append,
    List.all_cons, List.all_nil, Schema.tyOf, Node.tyOr, Node.marks, List.append_assoc] at h ⊢
  exact h

/-- **a closed fragment put in between the two halves of a text child**: the replace re-validates the parent with
    `text C text` in place of the text child; approved by `can_replace(i + 1, i + 1, C ++ [text])` -/
theorem text_insert_applies (S : Schema) (hts : TextStableP S) (ty0 : TypeId) (a0 : Attrs) (m0 : Marks) (K : List Node)
    (hv : S.checkNode (.elem ty0 a0 m0 K) = true) (hn : fnorm K = true)
    {b nd : Nat} {tyP : TypeId} {ctx : List Node → List Node} {pre post : List Node} (s : List Nat) (m : Marks)
    (k : Nat) (hk0 : 0 < k) (hk : k < s.length) (hsp : splitOk s k = true)
    (hl : Lvl ty0 K b nd tyP (pre ++ .text s m :: post) ctx) (C : List Node) (hnC : fnorm C = true)
    (hcr : S.canReplace tyP (pre ++ .text s m :: post) (pre.length + 1) (pre.length + 1) (C ++ [.text s m]) 0
      (C.length + 1) = some true) :
    ∃ doc', S.apply (.replace (b + (fsize pre + k)) (b + (fsize pre + k)) ⟨C, 0, 0⟩ false) (.elem ty0 a0 m0 K)
      = .ok doc' := by
  have hvK : S.validContent ty0 K = true ∧ S.checkKids K = true := by
    simp only [checkNode_elem, Bool.and_eq_true] at hv
    exact ⟨hv.1.1, hv.2⟩
  obtain ⟨hvL, _, hnL⟩ := hl.valid hvK.1 hvK.2 hn
  have hd : depthAt (pre ++ .text s m :: post) (fsize pre + k) = 0 := by
    rw [depthAt_append_pre, depthAt_cons, if_neg (by omega), if_neg (by simp only [Node.size_text]; omega)]
  have ha : alignedAt (pre ++ .text s m :: post) (fsize pre + k) = true := by
    rw [alignedAt_append_pre, alignedAt_cons, if_neg (by omega), if_neg (by simp only [Node.size_text]; omega)]
    exact hsp
  have hsz : fsize pre + k ≤ fsize (pre ++ .text s m :: post) := by
    rw [fsize_append, fsize_cons, Node.size_text]; omega
  have hrep := replaceKids_flat (S := S) hl C (fsize pre + k) (fsize pre + k) (Nat.le_refl _) hsz hd hd
  obtain ⟨Y, hnY, htY, hY⟩ := atLevel_flat_spec S C hnC tyP (pre ++ .text s m :: post) (fsize pre + k)
    (fsize pre + k) (Nat.le_refl _) hsz hd hd ha ha hnL
  -- the new child list, unmerged
  have hnk := fnormKids_of_fnorm hnL
  simp only [fnormKids_append, fnormKids_cons, Bool.and_eq_true] at hnk
  have hnp : fnormKids (pre ++ [.text (s.take k) m] ++ C ++ [.text (s.drop k) m] ++ post) = true := by
    simp only [fnormKids_append, fnormKids_cons, Node.norm_text, fnormKids, Bool.and_eq_true, Bool.and_true,
      Bool.not_eq_true', List.isEmpty_eq_false_iff]
    refine ⟨⟨⟨⟨hnk.1, ?_⟩, fnormKids_of_fnorm hnC⟩, ?_⟩, hnk.2.2⟩
    · intro h; have := congrArg List.length h; rw [List.length_take, List.length_nil] at this; omega
    · intro h; have := congrArg List.length h; rw [List.length_drop, List.length_nil] at this; omega
  have hYe : Y = fromArray (pre ++ [.text (s.take k) m] ++ C ++ [.text (s.drop k) m] ++ post) := by
    apply ftoks_inj _ _ hnY (fromArray_norm _ hnp)
    rw [htY, fromArray_toks]
    have hlen : (ftoks pre).length = fsize pre := ftoks_length pre
    have hk' : k ≤ (s.map (Tok.unit · m)).length := by simp; omega
    have e0 : ftoks (pre ++ .text s m :: post) = ftoks pre ++ (s.map (Tok.unit · m) ++ ftoks post) := by
      simp [ftoks_append, ftoks, Node.toks]
    have e1 : (ftoks (pre ++ .text s m :: post)).take (fsize pre + k) = ftoks pre ++ (s.take k).map (Tok.unit · m) := by
      rw [e0, ← hlen, List.take_length_add_append, List.take_append_of_le_length hk', List.map_take]
    have e2 : (ftoks (pre ++ .text s m :: post)).drop (fsize pre + k) = (s.drop k).map (Tok.unit · m) ++ ftoks post := by
      rw [e0, ← hlen, List.drop_length_add_append, List.drop_append_of_le_length hk', List.map_drop]
    rw [e1, e2]
    simp [ftoks_append, ftoks, Node.toks]
  have hval : S.validContent tyP Y = true := by
    rw [hYe]
    apply validContent_fromArray hts
    apply validContent_text_halves S tyP pre C post s
    have hL : pre ++ Node.text s m :: post = (pre ++ [.text s m]) ++ post := by simp
    rw [hL] at hvL hcr
    have := canReplace_insert_valid S tyP (pre ++ [.text s m]) post (C ++ [.text s m]) hvL
      (by simpa using hcr)
    exact this
  refine ⟨.elem ty0 a0 m0 (ctx Y), ?_⟩
  simp only [Schema.apply, Bool.false_eq_true, if_false, Schema.fromReplace, Schema.replace, hrep, hY, hval, if_true,
    Except.map]

theorem list_split_at {α} (l : List α) (i : Nat) (c : α) (h : l[i]? = some c) :
    l = l.take i ++ c :: l.drop (i + 1) ∧ i < l.length := by
  obtain ⟨hi, rfl⟩ := List.getElem?_eq_some_iff.mp h
  have := List.take_append_drop i l
  rw [List.drop_eq_getElem_cons hi] at this
  exact ⟨this.symm, hi⟩

/-- **a closed fragment put in at a position strictly inside a text child** (where `insert_point` / `drop_point` answer
    the position itself): approved by the parent's `can_replace(index + 1, index + 1, C ++ [that child])` -/
theorem inside_insert_applies (S : Schema) (hts : TextStableP S) (ty0 : TypeId) (a0 : Attrs) (m0 : Marks)
    (K : List Node) (pos : Nat) (r : RPos) (hf : (Node.elem ty0 a0 m0 K).resolve pos = some r)
    (hv : S.checkNode (.elem ty0 a0 m0 K) = true) (hn : fnorm K = true)
    (ho : r.textOffset ≠ 0) (hp : r.pairOk = true) (C : List Node) (hnC : fnorm C = true) (c : Node)
    (hc : r.parent.kids[r.index r.depth]? = some c)
    (hg : S.nodeCanReplace r.parent (r.index r.depth + 1) (r.index r.depth + 1) (C ++ [c]) = some true) :
    ∃ doc', S.apply (.replace pos pos ⟨C, 0, 0⟩ false) (.elem ty0 a0 m0 K) = .ok doc' := by
  have R := resolve_resolved hf
  obtain ⟨s, m, hs, hlt⟩ := R.in_text ho
  rw [hs] at hc
  simp only [Option.some.injEq] at hc
  subst hc
  obtain ⟨tyP, aP, mP, ctx, eP, hl⟩ := Resolved.lvl hf hn r.depth (Nat.le_refl _)
  obtain ⟨hsplit, hidx⟩ := list_split_at _ _ _ hs
  have E := R.entry r.depth (Nat.le_refl _)
  have hpe : (r.entry r.depth).pos = r.start r.depth + fsize (r.parent.kids.take (r.index r.depth)) := E.pos_eq
  have hple := E.pos_le
  have hto : r.textOffset = pos - (r.entry r.depth).pos := by unfold RPos.textOffset; rw [R.pos_eq]
  have hsp : splitOk s r.textOffset = true := by
    simp only [RPos.pairOk, hs, Bool.or_eq_true, decide_eq_true_eq] at hp
    exact hp.resolve_left ho
  have hty : S.tyOf r.parent = tyP := by
    show S.tyOf (r.node r.depth) = tyP
    rw [eP]; rfl
  have hplen : (r.parent.kids.take (r.index r.depth)).length = r.index r.depth := by
    rw [List.length_take]; omega
  have hl' : Lvl ty0 K (r.start r.depth) r.depth tyP
      (r.parent.kids.take (r.index r.depth) ++ .text s m :: r.parent.kids.drop (r.index r.depth + 1)) ctx := by
    rw [← hsplit]; exact hl
  unfold Schema.nodeCanReplace at hg
  split at hg
  · simp at hg
  · rw [hty] at hg
    have hg' : S.canReplace tyP
        (r.parent.kids.take (r.index r.depth) ++ .text s m :: r.parent.kids.drop (r.index r.depth + 1))
        ((r.parent.kids.take (r.index r.depth)).length + 1) ((r.parent.kids.take (r.index r.depth)).length + 1)
        (C ++ [.text s m]) 0 (C.length + 1) = some true := by
      rw [← hsplit, hplen]
      simpa using hg
    obtain ⟨doc', hap⟩ := text_insert_applies S hts ty0 a0 m0 K hv hn s m r.textOffset (by omega) hlt hsp hl' C hnC hg'
    have hpos : r.start r.depth + (fsize (r.parent.kids.take (r.index r.depth)) + r.textOffset) = pos := by omega
    rw [hpos] at hap
    exact ⟨doc', hap⟩

/-- **the helpers' answer "the position itself"**: the parent approved `C` at `index`; with `insideTextGuardR` the
    request fits trivially and the step applies, whether or not `pos` is a child boundary -/
theorem innermost_insert_applies (S : Schema) (hts : TextStableP S) (ty0 : TypeId) (a0 : Attrs) (m0 : Marks)
    (K : List Node) (pos : Nat) (r : RPos) (hf : (Node.elem ty0 a0 m0 K).resolve pos = some r)
    (hv : S.checkNode (.elem ty0 a0 m0 K) = true) (hn : fnorm K = true) (C : List Node) (hnC : fnorm C = true)
    (hg : insideTextGuardR S r C = true)
    (hcr : S.nodeCanReplace r.parent (r.index r.depth) (r.index r.depth) C = some true) :
    fitsTriviallyO S (.elem ty0 a0 m0 K) pos pos ⟨C, 0, 0⟩ = some true ∧
    ∃ doc', S.apply (.replace pos pos ⟨C, 0, 0⟩ false) (.elem ty0 a0 m0 K) = .ok doc' := by
  have R := resolve_resolved hf
  refine ⟨by simp only [fitsTriviallyO, hf, fitsTriviallyR, beq_self_eq_true, Bool.and_self, if_true]; exact hcr, ?_⟩
  by_cases ho : r.textOffset = 0
  · exact boundary_insert_applies S hts ty0 a0 m0 K pos r hf hv hn r.depth .before (r.index r.depth) pos (.inr ho)
      ⟨Nat.le_refl _, rfl, by rw [← R.pos_eq]; exact before_innermost r⟩ C hnC hcr
  · simp only [insideTextGuardR, Bool.or_eq_true, beq_iff_eq] at hg
    have hg' := hg.resolve_left ho
    split at hg'
    · rename_i s m hs
      simp only [Bool.and_eq_true, beq_iff_eq] at hg'
      have hp : r.pairOk = true := by simp [RPos.pairOk, hs, hg'.1]
      exact inside_insert_applies S hts ty0 a0 m0 K pos r hf hv hn ho hp C hnC _ hs hg'.2
    · simp at hg'

/-! ### the second pass of `drop_point` -/

/-- a pass of `drop_point` that ran out refused at every depth -/
theorem dropLoop_miss (S : Schema) (r : RPos) (content : List Node) (pass2 : Bool) : ∀ (n : Nat),
    dropLoop S r content pass2 n = some none → ∀ d, d < n → dropFits S r content pass2 d = some false
  | 0, _, d, hd => by omega
  | n + 1, h, d, hd => by
    simp only [dropLoop] at h
    split at h
    · simp at h
    · split at h
      · simp at h
      · split at h <;> simp at h
    · rename_i hf
      rcases Nat.lt_or_ge d n with hlt | hge
      · exact dropLoop_miss S r content pass2 n h d hlt
      · have : d = n := by omega
        subst this; exact hf

/-- where a pass of `drop_point` answers -/
theorem dropLoop_hit (S : Schema) (r : RPos) (content : List Node) (pass2 : Bool) : ∀ (n p : Nat), n ≤ r.depth + 1 →
    dropLoop S r content pass2 n = some (some p) →
    ∃ d, d ≤ r.depth ∧ dropFits S r content pass2 d = some true ∧
      ((d = r.depth ∧ p = r.pos) ∨
       (d < r.depth ∧ AtBoundary r d (if dropBias r d > 0 then .after else .before)
          (r.index d + (if dropBias r d > 0 then 1 else 0)) p))
  | 0, p, _, h => by simp [dropLoop] at h
  | d + 1, p, hd, h => by
    simp only [dropLoop] at h
    split at h
    · simp at h
    · rename_i hfit
      by_cases hdd : d = r.depth
      · have hb : dropBias r d = 0 := by simp [dropBias, hdd]
        rw [hb] at h
        simp only [if_true, Option.some.injEq] at h
        exact ⟨d, by omega, hfit, .inl ⟨hdd, h.symm⟩⟩
      · have hlt : d < r.depth := by omega
        refine ⟨d, by omega, hfit, .inr ⟨hlt, by omega, ?_⟩⟩
        by_cases hbias : 2 * r.pos ≤ r.start (d + 1) + r.end_ (d + 1)
        · have hb : dropBias r d = -1 := by simp [dropBias, hdd, hbias]
          rw [hb] at h ⊢
          simp only [show ¬ ((-1 : Int) = 0) by decide, if_false, show ((-1 : Int) < 0) by decide, if_true] at h
          simp only [show ¬ ((-1 : Int) > 0) by decide, if_false, Nat.add_zero]
          split at h
          · simp at h
          · rename_i p' hp'
            simp only [Option.some.injEq] at h
            subst h
            first | exact ⟨rfl, hp'⟩ | exact ⟨trivial, hp'⟩ | exact hp'
        · have hb : dropBias r d = 1 := by simp [dropBias, hdd, hbias]
          rw [hb] at h ⊢
          simp only [show ¬ ((1 : Int) = 0) by decide, if_false, show ¬ ((1 : Int) < 0) by decide] at h
          simp only [show ((1 : Int) > 0) by decide, if_true]
          split at h
          · simp at h
          · rename_i p' hp'
            simp only [Option.some.injEq] at h
            subst h
            have hia : r.indexAfter d = r.index d + 1 := by
              unfold RPos.indexAfter
              rw [if_neg (by simp [hdd])]
            exact ⟨hia.symm, hp'⟩
    · exact dropLoop_hit S r content pass2 d p (by omega) h

/-- `replace_step` on a non-empty request that does not fit trivially is the Fitter's answer -/
theorem replaceStep_nontrivial (S : Schema) (doc : Node) (f t : Nat) (sl : Slice)
    (hne : ¬ (f = t ∧ sl.size = 0)) (h : fitsTriviallyO S doc f t sl = some false) :
    ∃ rf rt, doc.resolve f = some rf ∧ doc.resolve t = some rt ∧
      replaceStep S doc f t sl = fitterFit S doc rf rt sl (fitFuel S sl) := by
  unfold replaceStep
  rw [if_neg (by simpa using hne)]
  unfold fitsTriviallyO at h
  split at h
  · rename_i rf rt hrf hrt
    exact ⟨rf, rt, hrf, hrt, by simp only [hrf, hrt, h]⟩
  · simp at h

/-- **an answer of the second pass of `drop_point` never fits trivially**: the first pass refused the content at every
    depth, in particular at the depth and index of the answer -/
theorem dropPass2_not_trivial (S : Schema) {ty0 : TypeId} {a0 : Attrs} {m0 : Marks} {K : List Node} {pos : Nat}
    {r : RPos} (hf : (Node.elem ty0 a0 m0 K).resolve pos = some r) (hn : fnorm K = true) (C : List Node) (p : Nat)
    (h1 : dropLoop S r C false (r.depth + 1) = some none)
    (h2 : dropLoop S r C true (r.depth + 1) = some (some p)) :
    fitsTriviallyO S (.elem ty0 a0 m0 K) p p ⟨C, 0, 0⟩ = some false := by
  have R := resolve_resolved hf
  obtain ⟨d, hd, _, hcase⟩ := dropLoop_hit S r C true (r.depth + 1) p (Nat.le_refl _) h2
  have hmiss := dropLoop_miss S r C false (r.depth + 1) h1 d (by omega)
  simp only [dropFits, Bool.not_false, if_true] at hmiss
  rcases hcase with ⟨hde, hp⟩ | ⟨hlt, hat⟩
  · subst hde
    have hb : dropBias r r.depth = 0 := by simp [dropBias]
    rw [hb] at hmiss
    simp only [Int.lt_irrefl, if_false, Nat.add_zero] at hmiss
    rw [hp, R.pos_eq]
    simp only [fitsTriviallyO, hf, fitsTriviallyR, beq_self_eq_true, Bool.and_self, if_true]
    exact hmiss
  · rw [boundary_fitsTrivially S hf hn d _ _ p (.inl hlt) hat C]
    exact hmiss

/-! ### typing inside text: the inside-text guard follows from the approval -/

/-- in a `TextStable` schema, if the parent takes a text node in front of a text child, it takes `text n text` in its place
    for every text node `n` whose marks it allows -/
theorem canReplace_text_between (S : Schema) (hts : TextStableP S) (tyP : TypeId) (pre post : List Node)
    (s : List Nat) (m : Marks) (n : Node) (hnt : S.tyOf n = S.textTy)
    (hvL : S.validContent tyP (pre ++ .text s m :: post) = true)
    (hm : (S.nodeType tyP).allowsMarks n.marks = true)
    (hcr : S.canReplaceWith tyP (pre ++ .text s m :: post) pre.length pre.length S.textTy [] = some true) :
    S.canReplace tyP (pre ++ .text s m :: post) (pre.length + 1) (pre.length + 1) ([n] ++ [.text s m]) 0 2
      = some true := by
  have hall := allowsMarks_of_valid S _ _ hvL (.text s m) (by simp)
  unfold Schema.canReplaceWith Schema.contentMatchAt at hcr
  simp only [List.isEmpty_nil, Bool.not_true, Bool.false_and, Bool.false_eq_true, if_false] at hcr
  have e1 : (pre ++ Node.text s m :: post).take pre.length = pre := by simp
  have e2 : (pre ++ Node.text s m :: post).drop pre.length = .text s m :: post := by simp
  have e3 : S.types (Node.text s m :: post) = S.textTy :: S.types post := by simp [Schema.types, Schema.tyOf, Node.tyOr]
  rw [e1, e2, e3] at hcr
  split at hcr
  · simp at hcr
  · rename_i q0 hq0
    split at hcr
    · simp at hcr
    · rename_i q1 hq1
      split at hcr
      · simp at hcr
      · rename_i q2 hq2
        simp only [Option.some.injEq] at hcr
        rw [Dfa.run_cons] at hq2
        cases hq1' : (S.dfa tyP).matchType q1 S.textTy with
        | none => simp [hq1'] at hq2
        | some q1' =>
          have hst := hts tyP q0 q1 q1' hq1 hq1'
          subst hst
          simp only [hq1', Option.bind_some] at hq2
          unfold Schema.canReplace Schema.contentMatchAt
          have t1 : S.types ((pre ++ Node.text s m :: post).take (pre.length + 1)) = S.types pre ++ [S.textTy] := by
            rw [take_mid]; simp [Schema.types, Schema.tyOf, Node.tyOr]
          have t2 : (pre ++ Node.text s m :: post).drop (pre.length + 1) = post := drop_mid _ _ _
          have t3 : S.types ((([n] ++ [Node.text s m]).take 2).drop 0) = [S.textTy, S.textTy] := by
            have : S.tyOf (Node.text s m) = S.textTy := rfl
            simp [Schema.types, hnt, this]
          rw [t1, t2, Dfa.run_append, hq0]
          simp only [Option.bind_some, Dfa.run, hq1, t3, hq1', hq2]
          simp only [hcr, Bool.true_and, List.take, List.drop, List.cons_append, List.nil_append, List.all_cons,
            List.all_nil, Bool.and_true, Option.some.injEq, Bool.and_eq_true]
          exact ⟨hm, hall⟩

end PM
