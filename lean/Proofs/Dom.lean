/- Proofs/Dom.lean — helper lemmas for Props/C19.lean -/
import PM.Dom
namespace PM.Dom
end PM.Dom
