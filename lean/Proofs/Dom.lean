/- Proofs/Dom.lean — helper lemmas for Props/C19.lean -/
import PM.Dom
namespace PM.Dom

theorem escape_nil : escape [] = [] := rfl

theorem escape_cons (c : Char) (s : List Char) : escape (c :: s) = escapeChar c ++ escape s := by
  simp [escape]

/-- the five-way case split on a character, with the generic case carrying the disequalities -/
theorem escapeChar_cases (c : Char) :
    (c = '&' ∧ escapeChar c = "&amp;".toList) ∨ (c = '<' ∧ escapeChar c = "&lt;".toList) ∨
    (c = '>' ∧ escapeChar c = "&gt;".toList) ∨ (c = '"' ∧ escapeChar c = "&quot;".toList) ∨
    (c = '\'' ∧ escapeChar c = "&#x27;".toList) ∨
    (c ≠ '&' ∧ c ≠ '<' ∧ c ≠ '>' ∧ c ≠ '"' ∧ c ≠ '\'' ∧ escapeChar c = [c]) := by
  unfold escapeChar
  split <;> simp_all

theorem unescape_cons_ne (c : Char) (r : List Char) (h : c ≠ '&') :
    unescape (c :: r) = c :: unescape r := by
  rw [unescape.eq_def]
  split <;> simp_all

theorem unescape_amp (r : List Char) : unescape ("&amp;".toList ++ r) = '&' :: unescape r := by
  show unescape ('&' :: 'a' :: 'm' :: 'p' :: ';' :: r) = _
  rw [unescape]
theorem unescape_lt (r : List Char) : unescape ("&lt;".toList ++ r) = '<' :: unescape r := by
  show unescape ('&' :: 'l' :: 't' :: ';' :: r) = _
  rw [unescape]
theorem unescape_gt (r : List Char) : unescape ("&gt;".toList ++ r) = '>' :: unescape r := by
  show unescape ('&' :: 'g' :: 't' :: ';' :: r) = _
  rw [unescape]
theorem unescape_quot (r : List Char) : unescape ("&quot;".toList ++ r) = '"' :: unescape r := by
  show unescape ('&' :: 'q' :: 'u' :: 'o' :: 't' :: ';' :: r) = _
  rw [unescape]
theorem unescape_apos (r : List Char) : unescape ("&#x27;".toList ++ r) = '\'' :: unescape r := by
  show unescape ('&' :: '#' :: 'x' :: '2' :: '7' :: ';' :: r) = _
  rw [unescape]

theorem unescape_escape' (s : List Char) : unescape (escape s) = s := by
  induction s with
  | nil => simp [escape, unescape]
  | cons c s ih =>
    rw [escape_cons]
    rcases escapeChar_cases c with h | h | h | h | h | h
    · rw [h.2, unescape_amp, ih, h.1]
    · rw [h.2, unescape_lt, ih, h.1]
    · rw [h.2, unescape_gt, ih, h.1]
    · rw [h.2, unescape_quot, ih, h.1]
    · rw [h.2, unescape_apos, ih, h.1]
    · rw [h.2.2.2.2.2]
      show unescape (c :: escape s) = _
      rw [unescape_cons_ne c _ h.1, ih]


theorem escapeChar_no_raw (d c : Char) (h : c ∈ escapeChar d) :
    c ≠ '<' ∧ c ≠ '>' ∧ c ≠ '"' ∧ c ≠ '\'' := by
  rcases escapeChar_cases d with h' | h' | h' | h' | h' | h'
  · rw [h'.2] at h; simp at h; rcases h with h | h | h | h | h <;> subst h <;> decide
  · rw [h'.2] at h; simp at h; rcases h with h | h | h | h <;> subst h <;> decide
  · rw [h'.2] at h; simp at h; rcases h with h | h | h | h <;> subst h <;> decide
  · rw [h'.2] at h; simp at h; rcases h with h | h | h | h | h | h <;> subst h <;> decide
  · rw [h'.2] at h; simp at h; rcases h with h | h | h | h | h | h <;> subst h <;> decide
  · rw [h'.2.2.2.2.2] at h; simp at h; subst h
    exact ⟨h'.2.1, h'.2.2.1, h'.2.2.2.1, h'.2.2.2.2.1⟩

theorem escape_no_raw' (s : List Char) (c : Char) (h : c ∈ escape s) :
    c ≠ '<' ∧ c ≠ '>' ∧ c ≠ '"' ∧ c ≠ '\'' := by
  unfold escape at h
  rw [List.mem_flatMap] at h
  obtain ⟨d, _, hd⟩ := h
  exact escapeChar_no_raw d c hd

/-- the five possible continuations of an `&` -/
def AmpTail (post : List Char) : Prop :=
  (∃ r, post = "amp;".toList ++ r) ∨ (∃ r, post = "lt;".toList ++ r) ∨ (∃ r, post = "gt;".toList ++ r) ∨
  (∃ r, post = "quot;".toList ++ r) ∨ (∃ r, post = "#x27;".toList ++ r)

/-- an `&` inside a single escaped character is its first character, followed by the entity body -/
theorem escapeChar_amp (c : Char) (pre post : List Char) (h : escapeChar c = pre ++ '&' :: post) :
    pre = [] ∧ (post = "amp;".toList ∨ post = "lt;".toList ∨ post = "gt;".toList ∨
      post = "quot;".toList ∨ post = "#x27;".toList) := by
  rcases escapeChar_cases c with h' | h' | h' | h' | h' | h'
  all_goals
    first
    | (rw [h'.2] at h
       cases pre with
       | nil => simp at h; simp [← h]
       | cons p pre =>
         exfalso
         simp at h
         have hm : '&' ∈ pre ++ '&' :: post := by simp
         rw [← h.2] at hm
         revert hm; decide)
    | (rw [h'.2.2.2.2.2] at h
       cases pre with
       | nil => simp at h; exact absurd h.1 h'.1
       | cons p pre => simp at h)

theorem escape_amp' (s : List Char) (pre post : List Char) (h : escape s = pre ++ '&' :: post) :
    AmpTail post := by
  induction s generalizing pre with
  | nil => simp [escape] at h
  | cons c s ih =>
    rw [escape_cons, List.append_eq_append_iff] at h
    rcases h with ⟨a', _, h2⟩ | ⟨c', h1, h2⟩
    · exact ih a' h2
    · cases c' with
      | nil => exact ih [] (by simpa using h2.symm)
      | cons x c'' =>
        simp at h2
        obtain ⟨hx, hpost⟩ := h2
        subst hx
        obtain ⟨_, hc⟩ := escapeChar_amp c pre c'' h1
        subst hpost
        unfold AmpTail
        rcases hc with hc | hc | hc | hc | hc <;> subst hc
        · exact Or.inl ⟨_, rfl⟩
        · exact Or.inr (Or.inl ⟨_, rfl⟩)
        · exact Or.inr (Or.inr (Or.inl ⟨_, rfl⟩))
        · exact Or.inr (Or.inr (Or.inr (Or.inl ⟨_, rfl⟩)))
        · exact Or.inr (Or.inr (Or.inr (Or.inr ⟨_, rfl⟩)))

end PM.Dom
