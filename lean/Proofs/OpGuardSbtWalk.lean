/-
  Proofs/OpGuardSbtWalk.lean — the walk of `Transform.set_block_type` to a *plain* target type
  (`Schema.plainType`: the Fitter is never consulted), visit by visit, with the recorded history made
  explicit (C04, work package `wk-sbt`): which steps a converting visit records, on which documents,
  and the facts about those documents the undo guards need (`sbtVisit_cases`).  Guard-agnostic: the
  guards themselves are assembled in Props/C04.lean (`sbt_fold_guard`, `setBlockType_residual`).
-/
import Proofs.OpGuardSetBlock
import Proofs.OpHistory
namespace PM

/-- `Transform.step`, everything it appends -/
theorem Tr.step_hist' {S : Schema} {tr tr' : Tr} {s : Step} (hlen : tr.steps.length = tr.docs.length)
    (h : tr.step S s = .ok tr') :
    tr'.hist = tr.hist ++ [(s, tr.doc)] ∧ S.apply s tr.doc = .ok tr'.doc ∧
      tr'.steps.length = tr'.docs.length := by
  obtain ⟨h1, h2⟩ := Tr.step_hist hlen h
  refine ⟨h1, h2, ?_⟩
  simp only [Tr.step] at h
  cases ha : S.apply s tr.doc with
  | error e => rw [ha] at h; simp at h
  | ok d =>
    rw [ha] at h
    simp only [Except.ok.injEq] at h
    subst h
    simp [Tr.addStep, hlen]

/-- growing keeps `maps` and `steps` the same length -/
theorem Tr.Grows.maps_len {S : Schema} {tr tr' : Tr} (h : Tr.Grows S tr tr') :
    tr.maps.length = tr.steps.length → tr'.maps.length = tr'.steps.length := by
  induction h with
  | refl => exact id
  | @step tr tr1 tr' s hs _ ih =>
    intro hl
    apply ih
    simp only [Tr.step] at hs
    cases ha : S.apply s tr.doc with
    | error e => rw [ha] at hs; simp at hs
    | ok d =>
      rw [ha] at hs
      simp only [Except.ok.injEq] at hs
      subst hs
      simp [Tr.addStep, hl]

/-- an invariant kept by every guarded recorded step holds of the final document -/
theorem inv_fin_of_hist (S : Schema) (I : Node → Prop) (G : Step → Node → Node → Prop)
    (hstep : ∀ s d d', I d → S.apply s d = .ok d' → G s d d' → I d') :
    ∀ (hist : List (Step × Node)) (fin : Node), I (histNext hist fin) → ReplayChain S hist fin →
      HistAll G hist fin → I fin
  | [], _, hI, _, _ => hI
  | (s, d) :: rest, fin, hI, ⟨ha, hr⟩, ⟨hg, hG⟩ =>
    inv_fin_of_hist S I G hstep rest fin (hstep s d _ hI ha hg) hr hG

/-- `PSt.stepAll`: what it appends to the recorded history -/
theorem PSt.stepAll_hist (S : Schema) : ∀ (ss : List Step) (st st' : PSt),
    st.tr.steps.length = st.tr.docs.length → st.stepAll S ss = .ok st' →
    st'.tr.hist = st.tr.hist ++ S.stepsHist ss st.tr.doc ∧ st'.tr.steps.length = st'.tr.docs.length ∧
      S.applyAll ss st.tr.doc = .ok st'.tr.doc
  | [], st, st', hlen, h => by
    simp only [PSt.stepAll, Except.ok.injEq] at h
    subst h
    simp [Schema.stepsHist, Schema.applyAll, hlen]
  | s :: ss, st, st', hlen, h => by
    simp only [PSt.stepAll] at h
    cases hs : st.step S s with
    | error e => rw [hs] at h; simp at h
    | ok st1 =>
      rw [hs] at h
      simp only at h
      obtain ⟨a1, a2, a3⟩ := Tr.step_hist' hlen (PSt.step_tr' hs)
      obtain ⟨b1, b2, b3⟩ := PSt.stepAll_hist S ss st1 st' a3 h
      refine ⟨?_, b2, ?_⟩
      · rw [b1, a1]
        simp [Schema.stepsHist, a2]
      · simp only [Schema.applyAll, a2]
        exact b3

/-- a property of the steps of a list holds along its recorded history -/
theorem histAll_stepsHist_mem (S : Schema) (P : Step → Prop) : ∀ (sts : List Step) (doc fin : Node),
    (∀ s ∈ sts, P s) → HistAll (fun s _ _ => P s) (S.stepsHist sts doc) fin
  | [], _, _, _ => trivial
  | s :: ss, doc, fin, h => by
    simp only [Schema.stepsHist]
    refine ⟨h s (by simp), ?_⟩
    split
    · exact histAll_stepsHist_mem S P ss _ fin (fun x hx => h x (by simp [hx]))
    · trivial

theorem clearRm_isRm (S : Schema) (pty : TypeId) : ∀ (kids : List Node) (q cur : Nat),
    ∀ s ∈ clearRm S pty kids q cur, ∃ a b x, s = Step.removeMark a b x ∧ ∃ c ∈ kids, x ∈ badMarks S pty c.marks
  | [], _, _, s, hs => by simp [clearRm] at hs
  | c :: cs, q, cur, s, hs => by
    unfold clearRm at hs
    split at hs
    · obtain ⟨a, b, x, e, c', hc', hx⟩ := clearRm_isRm S pty cs _ _ s hs
      exact ⟨a, b, x, e, c', by simp [hc'], hx⟩
    · rcases List.mem_append.mp hs with hs | hs
      · simp only [List.mem_map] at hs
        obtain ⟨m, hm, rfl⟩ := hs
        exact ⟨_, _, _, rfl, c, by simp, hm⟩
      · obtain ⟨a, b, x, e, c', hc', hx⟩ := clearRm_isRm S pty cs _ _ s hs
        exact ⟨a, b, x, e, c', by simp [hc'], hx⟩

/-- no child carries a mark the new type forbids ⇒ `clear_incompatible` records no `RemoveMarkStep` -/
theorem clearRm_nil (S : Schema) (pty : TypeId) : ∀ (kids : List Node) (q cur : Nat),
    (∀ c ∈ kids, badMarks S pty c.marks = []) → clearRm S pty kids q cur = []
  | [], _, _, _ => rfl
  | c :: cs, q, cur, h => by
    unfold clearRm
    split
    · exact clearRm_nil S pty cs _ _ (fun x hx => h x (by simp [hx]))
    · rw [h c (by simp), clearRm_nil S pty cs _ _ (fun x hx => h x (by simp [hx]))]
      rfl

/-- the payload of every `ReplaceStep` of `clear_incompatible` is nothing or one space: no high surrogate -/
theorem clearEdits_bmp (S : Schema) (pty : TypeId) : ∀ (kids : List Node) (q cur : Nat),
    ∀ e ∈ clearEdits S pty kids q cur, (ftoks e.2.2).all Tok.noHigh = true
  | [], _, _, e, he => by simp [clearEdits] at he
  | c :: cs, q, cur, e, he => by
    unfold clearEdits at he
    split at he
    · simp only [List.mem_cons] at he
      rcases he with rfl | he
      · rfl
      · exact clearEdits_bmp S pty cs _ _ e he
    · simp only [List.mem_append] at he
      rcases he with he | he
      · cases c with
        | leaf t a m => simp [nlEdits] at he
        | elem t a m k => simp [nlEdits] at he
        | text s ms =>
          simp only [nlEdits] at he
          split at he
          · simp at he
          · simp only [List.mem_map] at he
            obtain ⟨ab, _, rfl⟩ := he
            simp [ftoks, Node.toks, Tok.noHigh, isHigh]
      · exact clearEdits_bmp S pty cs _ _ e he

/-- the shapes of the steps `set_block_type` (to a plain type) records, with the document each is applied to:
    a `RemoveMarkStep` of a mark in `bad` (the marks of children of visited textblocks that the new type
    forbids); a `ReplaceStep` with a closed payload without high surrogates; the retype step of the
    non-leaf node found at its start -/
def SbtShape (bad : Mark → Prop) (s : Step) (d : Node) : Prop :=
  (∃ a b x, s = Step.removeMark a b x ∧ bad x) ∨
  (∃ a b c, s = Step.replace a b ⟨c, 0, 0⟩ false ∧ (ftoks c).all Tok.noHigh = true) ∨
  (∃ p node ty a m, s = retypeStep p (p + node.size) (.elem ty a m []) ∧ d.nodeAt p = .ok (some node) ∧
    node.isLeaf = false)

theorem fillPlan_nil (cur : Nat) : fillPlan cur [] = [] := by simp [fillPlan, fsize]

/-- for a plain target type the plan of `clear_incompatible` has no filler step -/
theorem clearPlan_plain (S : Schema) (ty : TypeId) (hp : S.plainType ty = true) (kids : List Node) (cur : Nat) :
    clearPlan S ty kids 0 cur =
      clearRm S ty kids 0 cur ++ ((clearEdits S ty kids 0 cur).map Edit.step).reverse := by
  unfold clearPlan retypeFill
  rw [plainType_validEnd S ty hp kids]
  simp [fillPlan_nil]

/-- **one visit of the `set_block_type` callback for a plain target type**: either nothing happens, or the
    visited textblock `v.node` sits at `p` in the current document; the steps of `clear_incompatible` — its
    `RemoveMarkStep`s, then its `ReplaceStep`s last to first, no filler — lead to `st1`, whose document is in
    normal form and still has the node's open token at `p`; then the retype step is recorded. -/
theorem sbtVisit_cases (S : Schema) (ty : TypeId) (attrs : Attrs) (mf : Nat) (L0 : List Tok)
    (hty : (S.nodeType ty).isLeaf = false) (hp : S.plainType ty = true)
    (st st2 : PSt) (skip skip2 : Nat) (X : List Tok) (v : NV)
    (hI : SbtInv L0 mf st skip X)
    (hw : (L0.drop v.pos).take v.node.size = v.node.toks) (hvn : v.node.norm = true)
    (hnl : S.isTextblockN v.node = true → v.node.isLeaf = false)
    (h : setBlockTypeVisit S ty attrs mf (.ok (st, skip)) v = .ok (st2, skip2)) :
    (st2 = st ∧ skip2 = skip) ∨
    ∃ st1 nn X2 p e,
      S.isTextblockN v.node = true ∧ v.node.isLeaf = false ∧
      st.tr.doc.nodeAt p = .ok (some v.node) ∧
      st.stepAll S (clearRm S ty v.node.kids 0 (p + 1) ++
        ((clearEdits S ty v.node.kids 0 (p + 1)).map Edit.step).reverse) = .ok st1 ∧
      S.createNode ty attrs v.node.marks = .ok nn ∧
      (ftoks st1.tr.doc.kids)[p]? = some v.node.headTok ∧
      fnorm st1.tr.doc.kids = true ∧
      st1.step S (retypeStep p e nn) = .ok st2 ∧
      SbtInv L0 mf st2 skip2 X2 := by
  unfold setBlockTypeVisit at h
  simp only at h
  split at h
  · simp only [Except.ok.injEq, Prod.mk.injEq] at h
    exact .inl ⟨h.1.symm, h.2.symm⟩
  · rename_i hsk
    split at h
    · simp only [Except.ok.injEq, Prod.mk.injEq] at h
      exact .inl ⟨h.1.symm, h.2.symm⟩
    · rename_i htb
      simp only [Bool.or_eq_true, Bool.not_eq_true', not_or, Bool.not_eq_false, Bool.not_eq_true] at htb
      split at h
      · simp at h
      · simp only [Except.ok.injEq, Prod.mk.injEq] at h
        exact .inl ⟨h.1.symm, h.2.symm⟩
      · split at h
        · simp at h
        · rename_i st1 hclear
          split at h
          · simp at h
          · rename_i nn hnn
            cases hs : st1.step S (retypeStep (st1.mapFrom mf v.pos 1)
                (st1.mapFrom mf (v.pos + v.node.size) 1) nn) with
            | error e => rw [hs] at h; simp [Except.map] at h
            | ok st2' =>
              rw [hs] at h
              simp only [Except.map, Except.ok.injEq, Prod.mk.injEq] at h
              obtain ⟨rfl, rfl⟩ := h
              have hnl' := hnl htb.1
              obtain ⟨p1, p2, p3, p4, hI2⟩ := sbtVisit_conv S ty attrs mf L0 hty st st1 st2' skip X v nn
                hI (by omega) hw hvn hnl' hclear hnn hs
              rw [p1] at hclear
              rw [p3] at hs
              obtain ⟨node, hnode, _, _, _, hall, htoks⟩ :=
                clearIncompatible_effect S st st1 _ ty 0 hI.fits hclear
              have e1 : node = v.node := by rw [p2] at hnode; simpa using hnode.symm
              subst e1
              obtain ⟨hplan⟩ : Nonempty (st.stepAll S (clearPlan S ty v.node.kids 0 (X.length + (v.pos - skip) + 1))
                  = .ok st1) := by
                obtain ⟨node', hnode', hpl⟩ := clearIncompatible_plan S st st1 _ ty 0 hI.fits hclear
                have : node' = v.node := by rw [p2] at hnode'; simpa using hnode'.symm
                subst this
                exact ⟨hpl⟩
              have hn1 : fnorm st1.tr.doc.kids = true :=
                applyAll_norm S _ _ _ (clearPlan_normOk S ty v.node.kids 0 _) hI.norm hall
              rw [clearPlan_plain S ty hp] at hplan
              refine .inr ⟨st1, nn, _, _, _, htb.1, hnl', p2, hplan, hnn, ?_, hn1, hs, hI2⟩
              have hlen : X.length + (v.pos - skip) ≤ (ftoks st.tr.doc.kids).length := by
                cases hvnode : v.node with
                | text => rw [hvnode] at hnl'; simp [Node.isLeaf] at hnl'
                | leaf => rw [hvnode] at hnl'; simp [Node.isLeaf] at hnl'
                | elem t a m kids =>
                  rw [hvnode] at p2
                  have := (nodeAt_window st.tr.doc _ _ p2 rfl).2
                  omega
              rw [htoks hnl', List.getElem?_append_right (by rw [List.length_take]; omega)]
              simp [List.length_take, Nat.min_eq_left hlen]

/-- **`set_block_type` to a plain type, from the operation to the fold of the oracle version**: the Fitter is
    never consulted, so the run is the fold of `setBlockTypeVisit` (empty oracle list) over the visits -/
theorem setBlockTypeF_plain_fold (S : Schema) (tr : Tr) (st' : PSt) (f t : Nat) (ty : TypeId) (attrs : Attrs)
    (hp : S.plainType ty = true)
    (h : ({ tr := tr } : PSt).setBlockTypeF S f t ty attrs = .ok st') :
    ∃ sk, (S.docVisits tr.doc f t).foldl (setBlockTypeVisit S ty attrs tr.steps.length) (.ok ({ tr := tr }, 0)) =
      .ok ({ tr := st'.tr }, sk) := by
  have hfits : st'.fits = [] := PSt.setBlockTypeF_fits_of_plain S _ st' f t ty attrs hp h
  have hb := ((PSt.setBlockTypeF_agrees S ({ tr := tr } : PSt) f t ty attrs).run_eq rfl).1 st' h
  rw [hfits] at hb
  simp only [PSt.withFits] at hb
  unfold PSt.setBlockType at hb
  simp only at hb
  split at hb
  · simp at hb
  · split at hb
    · simp at hb
    · rename_i st2 sk hfold
      split at hb
      · simp at hb
      · simp only [Except.ok.injEq] at hb
        subst hb
        exact ⟨sk, hfold⟩

end PM
