/- Proofs/GapTailDef.lean — the shape of the gap of a replace-around answer to a deletion inside the old slice:
   it starts at a child boundary or inside a text child of some node reached by descending into element
   children, and runs to the end of that node's content. -/
import Proofs.UndoFit
namespace PM
open PM

/-- the gap `F … T` starts at a child boundary (`hereB`) or inside a text child (`hereT`) of `level` or of a node
    reached by descending into element children (`down`), and ends at the end of that node's content -/
inductive TailPath : List Node → Nat → Nat → Prop
  | hereB {level l r : List Node} {F T : Nat} : level = l ++ r → F = fsize l → T = fsize level →
      TailPath level F T
  | hereT {level l r : List Node} {s1 s2 : List Nat} {m : Marks} {F T : Nat} :
      level = l ++ .text (s1 ++ s2) m :: r → s1 ≠ [] → s2 ≠ [] → F = fsize l + s1.length → T = fsize level →
      TailPath level F T
  | down {level pre ns k : List Node} {ty : TypeId} {a : Attrs} {m : Marks} {F T F' T' : Nat} :
      level = pre ++ .elem ty a m k :: ns → F = fsize pre + 1 + F' → T = fsize pre + 1 + T' →
      TailPath k F' T' → TailPath level F T

end PM
