/-
  Proofs/Reinsert.lean — the *success* half of re-insertion (C02): replacing a range of a valid,
  normal-form document by the slice that was cut from that very range does not fail.
  Together with `replaceKids_toks` / `ftoks_inj` (the value half) this gives
  `replaceKids S ty kids f t (slice kids f t) = .ok kids`.

  Structure: every `check_join` along the two cuts compares a type with itself, every `close`
  re-validates a child list that normalises (`fromArray`) to the original child list of a node of
  the valid document (token argument, `twoWay_rebuild` / `threeWay_rebuild`).
-/
import PM.Basic
import PM.Fragment
import PM.Content
import PM.Replace
import Proofs.Toks
import Proofs.TokCore
import Proofs.ReplaceToks
import Proofs.ReplaceValid
namespace PM

/-! ### small unfolding lemmas -/

theorem compatibleContent_self (S : Schema) (t : TypeId) : S.compatibleContent t t = true := by
  simp [Schema.compatibleContent]

theorem Node.cut_elem (t : TypeId) (a : Attrs) (m : Marks) (kids : List Node) (f to : Nat) :
    Node.cut (.elem t a m kids) f to = (fcut kids f to).map (Node.elem t a m ·) := by
  rw [Node.cut, fcut]
  split
  · rfl
  · split <;> rfl

theorem splitRight_cons (n : Node) (ns : List Node) (t : Nat) :
    splitRight (n :: ns) t =
      if t = 0 then some (.flat (n :: ns))
      else if n.size ≤ t then splitRight ns (t - n.size)
      else match n with
        | .text s m => if splitOk s t then some (.flat (.text (s.drop t) m :: ns)) else none
        | .leaf .. => none
        | .elem .. => some (.deep n (t - 1) ns) := by
  conv => lhs; unfold splitRight
  split
  · rfl
  · split
    · rfl
    · cases n <;> rfl

@[simp] theorem splitRight_zero (l : List Node) : splitRight l 0 = some (.flat l) := by
  cases l
  · simp [splitRight]
  · rw [splitRight_cons]; simp

theorem splitRight_skip (n : Node) (ns : List Node) (t : Nat) (h0 : t ≠ 0) (h : n.size ≤ t) :
    splitRight (n :: ns) t = splitRight ns (t - n.size) := by
  rw [splitRight_cons, if_neg h0, if_pos h]

theorem splitRight_elem (ty : TypeId) (a : Attrs) (m : Marks) (kids ns : List Node) (t : Nat)
    (h0 : t ≠ 0) (h : t < 2 + fsize kids) :
    splitRight (.elem ty a m kids :: ns) t = some (.deep (.elem ty a m kids) (t - 1) ns) := by
  rw [splitRight_cons, if_neg h0, if_neg (by simp; omega)]

theorem splitRight_text (s : List Nat) (m : Marks) (ns : List Node) (t : Nat)
    (h0 : t ≠ 0) (h : t < s.length) (hs : splitOk s t = true) :
    splitRight (.text s m :: ns) t = some (.flat (.text (s.drop t) m :: ns)) := by
  rw [splitRight_cons, if_neg h0, if_neg (by simp; omega)]
  simp [hs]

/-- `twoWay` looks at its right-hand side only through `splitRight` -/
theorem twoWay_congr (S : Schema) : ∀ (L : List Node) (f : Nat) (R : List Node) (t : Nat)
    (R' : List Node) (t' : Nat), splitRight R t = splitRight R' t' →
    twoWay S L f R t = twoWay S L f R' t'
  | [], f, R, t, R', t', h => by
    unfold twoWay; rw [h]
  | n :: ns, f, R, t, R', t', h => by
    unfold twoWay
    rw [h, twoWay_congr S ns (f - n.size) R t R' t' h]

/-- what a successful two-way join normalises to is determined by its tokens -/
theorem twoWay_rebuild (S : Schema) {L R O X : List Node} {f t : Nat}
    (h : twoWay S L f R t = .ok X) (hL : fnormKids L = true) (hR : fnormKids R = true)
    (hO : fnorm O = true) (htk : (ftoks L).take f ++ (ftoks R).drop t = ftoks O) :
    fromArray X = O := by
  apply ftoks_inj _ _ (fromArray_norm _ (twoWay_norm S _ _ _ _ _ hL hR h)) hO
  rw [fromArray_toks, twoWay_toks S _ _ _ _ _ h, htk]

theorem close_ok_of_valid (S : Schema) (ty : TypeId) (a : Attrs) (m : Marks) (c : List Node)
    (h : S.validContent ty c = true) : S.close ty a m c = .ok (.elem ty a m c) := by
  simp [Schema.close, h]

/-! ### facts about a valid / normal child -/

theorem elem_facts {S : Schema} {ty : TypeId} {a : Attrs} {m : Marks} {kids ns : List Node}
    (hv : S.checkKids (.elem ty a m kids :: ns) = true)
    (hn : fnormKids (.elem ty a m kids :: ns) = true) :
    S.validContent ty kids = true ∧ S.checkKids kids = true ∧ fnorm kids = true ∧
      S.checkKids ns = true ∧ fnormKids ns = true := by
  simp only [checkKids_cons, checkNode_elem, Bool.and_eq_true] at hv
  simp only [fnormKids_cons, Node.norm_elem, Bool.and_eq_true] at hn
  exact ⟨hv.1.1.1, hv.1.2, hn.1, hv.2, hn.2⟩

/-! ### Lemma A: joining a list with itself at one point (`replace(f, f, Slice.empty)`) -/

theorem twoWay_same (S : Schema) : ∀ (L : List Node) (f : Nat) (R : List Node) (t : Nat),
    f ≤ fsize L → alignedAt L f = true → S.checkKids L = true → fnormKids L = true →
    splitRight R t = splitRight L f → ∃ X, twoWay S L f R t = .ok X
  | [], f, R, t, hf, _, _, _, hs => by
    have : f = 0 := by simpa using hf
    subst this
    unfold twoWay
    rw [hs]; simp
  | n :: ns, f, R, t, hf, ha, hv, hn, hs => by
    by_cases hf0 : f = 0
    · subst hf0
      unfold twoWay
      rw [hs]; simp
    by_cases hle : n.size ≤ f
    · have hv' : S.checkKids ns = true := by
        simp only [checkKids_cons, Bool.and_eq_true] at hv; exact hv.2
      have hn' : fnormKids ns = true := by
        simp only [fnormKids_cons, Bool.and_eq_true] at hn; exact hn.2
      rw [alignedAt_cons, if_neg hf0, if_pos hle] at ha
      rw [splitRight_skip n ns f hf0 hle] at hs
      obtain ⟨r, hr⟩ := twoWay_same S ns (f - n.size) R t (by simp at hf; omega) ha hv' hn' hs
      unfold twoWay
      rw [if_neg hf0, if_pos hle, hr]
      exact ⟨_, rfl⟩
    cases n with
    | text s m =>
      simp only [Node.size_text, Nat.not_le] at hle
      rw [alignedAt_cons, if_neg hf0, if_neg (by simp; omega)] at ha
      simp only at ha
      rw [splitRight_text s m ns f hf0 hle ha] at hs
      unfold twoWay
      rw [if_neg hf0, if_neg (by simp; omega)]
      simp [ha, hs]
    | leaf ty a m => simp at hle; omega
    | elem ty a m kids =>
      simp only [Node.size_elem, Nat.not_le] at hle
      obtain ⟨hvc, hvk, hnk, _, _⟩ := elem_facts hv hn
      rw [alignedAt_cons, if_neg hf0, if_neg (by simp; omega)] at ha
      simp only at ha
      rw [splitRight_elem ty a m kids ns f hf0 hle] at hs
      obtain ⟨r, hr⟩ := twoWay_same S kids (f - 1) kids (f - 1) (by omega) ha hvk
        (fnormKids_of_fnorm hnk) rfl
      have hre : fromArray r = kids :=
        twoWay_rebuild S hr (fnormKids_of_fnorm hnk) (fnormKids_of_fnorm hnk) hnk
          (List.take_append_drop _ _)
      unfold twoWay
      rw [if_neg hf0, if_neg (by simp; omega)]
      simp only [hs, compatibleContent_self, if_true, hr, hre, close_ok_of_valid S ty a m kids hvc]
      exact ⟨_, rfl⟩

/-! ### `fcutLoop`: unfolding / inversion lemmas -/

theorem fcutLoop_skip (n : Node) (ns : List Node) (f t : Nat) (ht : t ≠ 0) (h : n.size ≤ f) :
    fcutLoop (n :: ns) f t = fcutLoop ns (f - n.size) (t - n.size) := by
  rw [fcutLoop, if_neg ht]
  simp only
  rw [if_neg (by omega)]

/-- head child kept whole -/
theorem fcutLoop_whole_inv {n : Node} {ns : List Node} {t : Nat} {M : List Node}
    (h : fcutLoop (n :: ns) 0 t = .ok M) (hpos : 0 < n.size) (hle : n.size ≤ t) :
    ∃ rest, fcutLoop ns 0 (t - n.size) = .ok rest ∧ M = n :: rest := by
  rw [fcutLoop, if_neg (by omega)] at h
  simp only at h
  have hc : ¬ ((decide (0 < 0) || decide (t < n.size)) = true) := by simp; omega
  rw [if_pos hpos, if_neg hc] at h
  simp only [Nat.zero_sub] at h
  cases hr : fcutLoop ns 0 (t - n.size) with
  | error e => simp [hr] at h
  | ok rest => simp [hr] at h; exact ⟨rest, rfl, h.symm⟩

theorem fcutLoop_elem_inv {ty : TypeId} {a : Attrs} {m : Marks} {kids ns : List Node} {f t : Nat}
    {M : List Node} (h : fcutLoop (.elem ty a m kids :: ns) f t = .ok M) (ht : t ≠ 0)
    (hf : f < 2 + fsize kids) (hc : 0 < f ∨ t < 2 + fsize kids) :
    ∃ c rest, fcut kids (f - 1) (min (fsize kids) (t - 1)) = .ok c ∧
      fcutLoop ns 0 (t - (2 + fsize kids)) = .ok rest ∧ M = .elem ty a m c :: rest := by
  rw [fcutLoop, if_neg ht] at h
  simp only [Node.size_elem] at h
  have hc' : (decide (0 < f) || decide (t < 2 + fsize kids)) = true := by simpa using hc
  rw [if_pos hf, if_pos hc', Node.cut_elem] at h
  have h0 : f - (2 + fsize kids) = 0 := by omega
  rw [h0] at h
  cases hcut : fcut kids (f - 1) (min (fsize kids) (t - 1)) with
  | error e => simp [hcut, Except.map] at h
  | ok c =>
    cases hr : fcutLoop ns 0 (t - (2 + fsize kids)) with
    | error e => simp [hcut, hr, Except.map] at h
    | ok rest =>
      simp [hcut, hr, Except.map] at h
      exact ⟨c, rest, rfl, rfl, h.symm⟩

theorem fcutLoop_text_inv {s : List Nat} {m : Marks} {ns : List Node} {f t : Nat}
    {M : List Node} (h : fcutLoop (.text s m :: ns) f t = .ok M) (ht : t ≠ 0)
    (hf : f < s.length) (hc : 0 < f ∨ t < s.length) :
    ∃ s' rest, cutText s f (min s.length t) = .ok s' ∧
      fcutLoop ns 0 (t - s.length) = .ok rest ∧ M = .text s' m :: rest := by
  rw [fcutLoop, if_neg ht] at h
  simp only [Node.size_text] at h
  have hc' : (decide (0 < f) || decide (t < s.length)) = true := by simpa using hc
  rw [if_pos hf, if_pos hc'] at h
  have h0 : f - s.length = 0 := by omega
  rw [h0] at h
  cases hcut : cutText s f (min s.length t) with
  | error e => simp [hcut] at h
  | ok s' =>
    cases hr : fcutLoop ns 0 (t - s.length) with
    | error e => simp [hcut, hr] at h
    | ok rest =>
      simp [hcut, hr] at h
      exact ⟨s', rest, rfl, rfl, h.symm⟩

theorem cutText_splitOk {s s' : List Nat} {f t : Nat} (h : cutText s f t = .ok s') :
    splitOk s f = true ∧ splitOk s t = true := by
  unfold cutText at h
  split at h
  · rename_i h1
    simp at h1
    obtain ⟨rfl, rfl⟩ := h1
    exact ⟨splitOk_zero s, splitOk_length s⟩
  · split at h
    · simp at h
    · rename_i h2
      simpa using h2

theorem fcutLoop_full : ∀ l : List Node, fnormKids l = true → fcutLoop l 0 (fsize l) = .ok l
  | [], _ => by simp [fcutLoop]
  | n :: ns, hn => by
    simp only [fnormKids_cons, Bool.and_eq_true] at hn
    have hpos := Node.size_pos_of_norm n hn.1
    rw [fcutLoop, if_neg (by simp; omega)]
    simp only
    rw [if_pos hpos, if_neg (by simp)]
    have : fsize (n :: ns) - n.size = fsize ns := by simp
    rw [Nat.zero_sub, this, fcutLoop_full ns hn.2]

theorem fcutLoop_end : ∀ l : List Node, fcutLoop l (fsize l) (fsize l) = .ok []
  | [] => by simp [fcutLoop]
  | n :: ns => by
    by_cases h0 : fsize (n :: ns) = 0
    · rw [h0]; exact fcutLoop_zero _ _
    · rw [fcutLoop_skip n ns _ _ h0 (by simp)]
      have : fsize (n :: ns) - n.size = fsize ns := by simp
      rw [this]; exact fcutLoop_end ns

theorem fcut_eq_loop {kids : List Node} {f t : Nat} (hn : fnormKids kids = true) (hft : f ≤ t)
    (ht : t ≤ fsize kids) (hdeg : f = t → f = 0 ∨ f = fsize kids) :
    fcut kids f t = fcutLoop kids f t := by
  unfold fcut
  split
  · rename_i h1
    simp at h1
    obtain ⟨rfl, rfl⟩ := h1
    exact (fcutLoop_full kids hn).symm
  · split
    · have : f = t := by omega
      subst this
      rcases hdeg rfl with rfl | rfl
      · exact (fcutLoop_zero _ _).symm
      · exact (fcutLoop_end kids).symm
    · rfl

/-! ### a successful cut implies pair-alignment of both ends -/

theorem alignedAt_skip (n : Node) (ns : List Node) (t : Nat) (h : n.size ≤ t) :
    alignedAt (n :: ns) t = alignedAt ns (t - n.size) := by
  rw [alignedAt_cons]
  split
  · subst_vars; simp
  · first | rfl | rw [if_pos h]

def CutAlignedSpec (kids : List Node) : Prop :=
  ∀ (f t : Nat) (c : List Node), f < t → t ≤ fsize kids → fcutLoop kids f t = .ok c →
    alignedAt kids f = true ∧ alignedAt kids t = true

theorem cutElem_aligned (kids : List Node) (IH : CutAlignedSpec kids) (f2 t2 : Nat) (c : List Node)
    (hle : f2 ≤ t2) (ht2 : t2 ≤ fsize kids) (hdeg : f2 = t2 → f2 = 0 ∨ f2 = fsize kids)
    (h : fcut kids f2 t2 = .ok c) : alignedAt kids f2 = true ∧ alignedAt kids t2 = true := by
  unfold fcut at h
  split at h
  · rename_i h1
    simp at h1
    obtain ⟨rfl, rfl⟩ := h1
    exact ⟨alignedAt_zero _, alignedAt_fsize _⟩
  · split at h
    · have : f2 = t2 := by omega
      subst this
      rcases hdeg rfl with rfl | rfl
      · exact ⟨alignedAt_zero _, alignedAt_zero _⟩
      · exact ⟨alignedAt_fsize _, alignedAt_fsize _⟩
    · exact IH f2 t2 c (by omega) ht2 h

theorem fcutLoop_aligned : ∀ kids : List Node, CutAlignedSpec kids
  | [], f, t, c, hft, ht, _ => by simp at ht; omega
  | n :: ns, f, t, c, hft, ht, h => by
    have IHns := fcutLoop_aligned ns
    have ht0 : t ≠ 0 := by omega
    simp only [fsize_cons] at ht
    -- alignment of `t` in the tail, given a successful cut of the tail from 0
    have tailT : ∀ rest, fcutLoop ns 0 (t - n.size) = .ok rest → n.size ≤ t →
        alignedAt (n :: ns) t = true := by
      intro rest hr hle
      rw [alignedAt_cons, if_neg ht0, if_pos hle]
      by_cases h0 : t - n.size = 0
      · rw [h0]; simp
      · exact (IHns 0 (t - n.size) rest (by omega) (by omega) hr).2
    by_cases hfsz : n.size ≤ f
    · rw [fcutLoop_skip n ns f t ht0 hfsz] at h
      have := IHns (f - n.size) (t - n.size) c (by omega) (by omega) h
      refine ⟨?_, ?_⟩
      · rw [alignedAt_skip n ns f hfsz]; exact this.1
      · rw [alignedAt_skip n ns t (by omega)]; exact this.2
    · by_cases hcut : 0 < f ∨ t < n.size
      · cases n with
        | text s m =>
          simp only [Node.size_text] at hfsz hcut tailT ht
          obtain ⟨s', rest, hct, hr, _⟩ := fcutLoop_text_inv h ht0 (by omega) hcut
          have hso := cutText_splitOk hct
          refine ⟨?_, ?_⟩
          · rw [alignedAt_cons]
            split
            · rfl
            · rw [if_neg (by simp; omega)]; exact hso.1
          · by_cases hle : s.length ≤ t
            · exact tailT rest hr hle
            · rw [alignedAt_cons, if_neg ht0, if_neg (by simp; omega)]
              have : min s.length t = t := by omega
              rw [this] at hso; exact hso.2
        | leaf ty a m => simp at hfsz hcut; omega
        | elem ty a m kids =>
          simp only [Node.size_elem] at hfsz hcut tailT ht
          obtain ⟨c', rest, hct, hr, _⟩ := fcutLoop_elem_inv h ht0 (by omega) hcut
          have hal := cutElem_aligned kids (fcutLoop_aligned kids) _ _ c' (by omega) (by omega)
            (by omega) hct
          refine ⟨?_, ?_⟩
          · rw [alignedAt_cons]
            split
            · rfl
            · rw [if_neg (by simp; omega)]; exact hal.1
          · by_cases hle : 2 + fsize kids ≤ t
            · exact tailT rest hr hle
            · rw [alignedAt_cons, if_neg ht0, if_neg (by simp; omega)]
              have : min (fsize kids) (t - 1) = t - 1 := by omega
              rw [this] at hal; exact hal.2
      · have hf0 : f = 0 := by omega
        subst hf0
        obtain ⟨rest, hr, _⟩ := fcutLoop_whole_inv h (by omega) (by omega)
        exact ⟨alignedAt_zero _, tailT rest hr (by omega)⟩

theorem fcut_aligned {kids c : List Node} {f t : Nat} (hft : f < t) (ht : t ≤ fsize kids)
    (h : fcut kids f t = .ok c) : alignedAt kids f = true ∧ alignedAt kids t = true :=
  cutElem_aligned kids (fcutLoop_aligned kids) f t c (by omega) ht (by omega) h

/-! ### `splitRight`: totality and what it tells about the depth -/

theorem splitRight_total : ∀ (L : List Node) (t : Nat), t ≤ fsize L → alignedAt L t = true →
    ∃ rs, splitRight L t = some rs
  | [], t, ht, _ => by
    have : t = 0 := by simpa using ht
    subst this; exact ⟨_, splitRight_zero _⟩
  | n :: ns, t, ht, ha => by
    by_cases h0 : t = 0
    · subst h0; exact ⟨_, splitRight_zero _⟩
    by_cases hle : n.size ≤ t
    · rw [splitRight_skip n ns t h0 hle]
      rw [alignedAt_cons, if_neg h0, if_pos hle] at ha
      exact splitRight_total ns (t - n.size) (by simp at ht; omega) ha
    · rw [alignedAt_cons, if_neg h0, if_neg hle] at ha
      cases n with
      | text s m =>
        simp only [Node.size_text] at hle
        exact ⟨_, splitRight_text s m ns t h0 (by omega) ha⟩
      | leaf ty a m => simp at hle; omega
      | elem ty a m kids =>
        simp only [Node.size_elem] at hle
        exact ⟨_, splitRight_elem ty a m kids ns t h0 (by omega)⟩

theorem splitRight_flat_depth : ∀ (L : List Node) (t : Nat) (r : List Node),
    splitRight L t = some (.flat r) → depthAt L t = 0
  | [], t, r, _ => by simp [depthAt]
  | n :: ns, t, r, h => by
    by_cases h0 : t = 0
    · subst h0; simp
    by_cases hle : n.size ≤ t
    · rw [splitRight_skip n ns t h0 hle] at h
      rw [depthAt_skip n ns t hle]
      exact splitRight_flat_depth ns _ r h
    · cases n with
      | text s m => exact depthAt_nonelem_cons _ ns t (by omega) (by simp)
      | leaf ty a m => exact depthAt_nonelem_cons _ ns t (by omega) (by simp)
      | elem ty a m kids =>
        simp only [Node.size_elem] at hle
        rw [splitRight_elem ty a m kids ns t h0 (by omega)] at h
        simp at h

theorem splitRight_deep_facts : ∀ (L : List Node) (t : Nat) (c : Node) (i : Nat) (r : List Node),
    splitRight L t = some (.deep c i r) →
    ∃ ty a m k, c = .elem ty a m k ∧ depthAt L t = 1 + depthAt k i ∧ i ≤ fsize k ∧ c ∈ L
  | [], t, c, i, r, h => by
    cases t <;> simp [splitRight] at h
  | n :: ns, t, c, i, r, h => by
    by_cases h0 : t = 0
    · subst h0; simp at h
    by_cases hle : n.size ≤ t
    · rw [splitRight_skip n ns t h0 hle] at h
      obtain ⟨ty, a, m, k, h1, h2, h3, h4⟩ := splitRight_deep_facts ns _ c i r h
      exact ⟨ty, a, m, k, h1, by rw [depthAt_skip n ns t hle]; exact h2, h3, List.mem_cons_of_mem _ h4⟩
    · cases n with
      | text s m =>
        rw [splitRight_cons, if_neg h0, if_neg hle] at h
        simp only at h
        split at h <;> simp at h
      | leaf ty a m =>
        rw [splitRight_cons, if_neg h0, if_neg hle] at h
        simp at h
      | elem ty a m kids =>
        simp only [Node.size_elem] at hle
        rw [splitRight_elem ty a m kids ns t h0 (by omega)] at h
        simp at h
        obtain ⟨rfl, rfl, rfl⟩ := h
        exact ⟨ty, a, m, kids, rfl, depthAt_elem_cons _ _ _ _ _ _ (by omega) (by omega),
          by omega, by simp⟩

/-! ### token facts about the three kinds of cut (suffix, prefix, middle) -/

theorem fnorm_cons {n : Node} {ns : List Node} (h : fnorm (n :: ns) = true) :
    n.norm = true ∧ fnorm ns = true := by
  simp only [fnorm, fnormKids_cons, Bool.and_eq_true] at h ⊢
  exact ⟨h.1.1, h.1.2, chainOk_tail h.2⟩

theorem suffix_cut_facts {kids c : List Node} {p : Nat} (h : fcutLoop kids p (fsize kids) = .ok c)
    (hp : p ≤ fsize kids) (hn : fnorm kids = true) :
    (ftoks c).drop (depthAt kids p) = (ftoks kids).drop p ∧ depthAt kids p ≤ fsize c ∧
      fnormKids c = true := by
  have hnc : fnormKids c = true := by
    simp only [fnorm, Bool.and_eq_true] at hn
    exact (fcutLoop_norm kids p (fsize kids) c hn.1 hn.2 h).1
  refine ⟨?_, ?_, hnc⟩
  all_goals
    by_cases hlt : p < fsize kids
    · have htk := fcutLoop_toks kids p (fsize kids) c (Or.inl hlt) (Nat.le_refl _) h
      have hao := ancestorOpens_length kids p
      rw [depthAt_fsize] at htk
      simp only [List.replicate_zero, List.append_nil] at htk
      first
        | (rw [htk, drop_app_ge _ _ _ (by omega), hao, Nat.sub_self, List.drop_zero]
           exact List.take_of_length_le (by rw [List.length_drop, ftoks_length]; exact Nat.le_refl _))
        | (rw [← ftoks_length c, htk, List.length_append, hao]; omega)
    · have hpe : p = fsize kids := by omega
      subst hpe
      rw [depthAt_fsize]
      first
        | (rw [fcutLoop_end] at h
           simp at h; subst h
           simp [List.drop_eq_nil_of_le, ftoks_length])
        | omega

theorem prefix_cut_facts {kids c : List Node} {q : Nat} (h : fcutLoop kids 0 q = .ok c)
    (hq : q ≤ fsize kids) (hn : fnorm kids = true) :
    (ftoks c).take (fsize c - depthAt kids q) = (ftoks kids).take q ∧ depthAt kids q ≤ fsize c ∧
      fnormKids c = true := by
  have hnc : fnormKids c = true := by
    simp only [fnorm, Bool.and_eq_true] at hn
    exact (fcutLoop_norm kids 0 q c hn.1 hn.2 h).1
  have htk := fcutLoop_toks kids 0 q c (by omega) hq h
  simp only [ancestorOpens_zero, List.nil_append, List.drop_zero, Nat.sub_zero] at htk
  have hlen : ((ftoks kids).take q).length = q := by simp [ftoks_length]; omega
  have hsz : fsize c = q + depthAt kids q := by
    rw [← ftoks_length c, htk, List.length_append, hlen]; simp
  refine ⟨?_, by omega, hnc⟩
  rw [htk, hsz, Nat.add_sub_cancel, take_app_le _ _ _ (by omega)]
  exact List.take_of_length_le (by omega)

theorem mid_cut_facts {kids c : List Node} {f t : Nat} (h : fcutLoop kids f t = .ok c)
    (hft : f < t) (ht : t ≤ fsize kids) (hn : fnorm kids = true) :
    midToks c (depthAt kids f) (depthAt kids t) = ((ftoks kids).drop f).take (t - f) ∧
      depthAt kids f ≤ spineL c ∧ depthAt kids t ≤ spineR c ∧ fnormKids c = true := by
  have hnc : fnormKids c = true := by
    simp only [fnorm, Bool.and_eq_true] at hn
    exact (fcutLoop_norm kids f t c hn.1 hn.2 h).1
  have hsp := fcutLoop_spine kids f t c (Or.inl hft) ht h
  refine ⟨?_, hsp.1, hsp.2, hnc⟩
  have htk := fcutLoop_toks kids f t c (Or.inl hft) ht h
  have hlen : (((ftoks kids).drop f).take (t - f)).length = t - f := by
    simp [ftoks_length]; omega
  have hao := ancestorOpens_length kids f
  have hsz : fsize c = depthAt kids f + (t - f) + depthAt kids t := by
    rw [← ftoks_length, htk]; simp [hao, ftoks_length]; omega
  simp only [midToks, htk, hsz]
  rw [List.append_assoc, List.drop_append_of_le_length (by omega), List.drop_of_length_le (by omega)]
  have : depthAt kids f + (t - f) + depthAt kids t - depthAt kids f - depthAt kids t
      = (((ftoks kids).drop f).take (t - f)).length := by rw [hlen]; omega
  rw [this]; simp

/-! ### Lemma B: the left join of `threeWay` — a list joined at `p` with its own suffix cut -/

theorem twoWay_left (S : Schema) : ∀ (O : List Node) (p : Nat) (R : List Node),
    p ≤ fsize O → fcutLoop O p (fsize O) = .ok R → S.checkKids O = true → fnorm O = true →
    ∃ X, twoWay S O p R (depthAt O p) = .ok X
  | [], p, R, hp, _, _, _ => by
    have : p = 0 := by simpa using hp
    subst this
    unfold twoWay; simp
  | n :: ns, p, R, hp, h, hv, hn => by
    obtain ⟨hnn, hnns⟩ := fnorm_cons hn
    have hpos := Node.size_pos_of_norm n hnn
    simp only [fsize_cons] at hp
    by_cases hp0 : p = 0
    · subst hp0
      unfold twoWay; simp
    by_cases hle : n.size ≤ p
    · rw [fcutLoop_skip n ns p _ (by simp; omega) hle] at h
      have e : fsize (n :: ns) - n.size = fsize ns := by simp
      rw [e] at h
      have hv' : S.checkKids ns = true := by
        simp only [checkKids_cons, Bool.and_eq_true] at hv; exact hv.2
      obtain ⟨r, hr⟩ := twoWay_left S ns (p - n.size) R (by omega) h hv' hnns
      unfold twoWay
      rw [if_neg hp0, if_pos hle, depthAt_skip n ns p hle, hr]
      exact ⟨_, rfl⟩
    cases n with
    | text s m =>
      simp only [Node.size_text, Nat.not_le] at hle hpos
      obtain ⟨s', rest, hct, _, _⟩ := fcutLoop_text_inv h (by rw [fsize_cons, Node.size_text]; omega) hle (Or.inl (by omega))
      have hso := (cutText_splitOk hct).1
      unfold twoWay
      rw [if_neg hp0, if_neg (by simp; omega)]
      simp [hso, depthAt_nonelem_cons (.text s m) ns p (by simpa using hle) (by simp)]
    | leaf ty a m => simp at hle; omega
    | elem ty a m kids =>
      simp only [Node.size_elem, Nat.not_le] at hle
      obtain ⟨hvc, hvk, hnk, _, _⟩ := elem_facts hv (fnormKids_of_fnorm hn)
      obtain ⟨c, rest, hct, _, hM⟩ := fcutLoop_elem_inv h (by simp) hle (Or.inl (by omega))
      have hmin : min (fsize kids) (fsize (Node.elem ty a m kids :: ns) - 1) = fsize kids := by
        simp; omega
      rw [hmin, fcut_eq_loop (fnormKids_of_fnorm hnk) (by omega) (Nat.le_refl _) (by omega)] at hct
      obtain ⟨htk, hdc, hnc⟩ := suffix_cut_facts hct (by omega) hnk
      obtain ⟨r, hr⟩ := twoWay_left S kids (p - 1) c (by omega) hct hvk hnk
      have hre : fromArray r = kids :=
        twoWay_rebuild S hr (fnormKids_of_fnorm hnk) hnc hnk
          (by rw [htk]; exact List.take_append_drop _ _)
      have hd : depthAt (Node.elem ty a m kids :: ns) p = 1 + depthAt kids (p - 1) :=
        depthAt_elem_cons _ _ _ _ _ _ (by omega) hle
      subst hM
      have hs : splitRight (Node.elem ty a m c :: rest) (1 + depthAt kids (p - 1))
          = some (.deep (.elem ty a m c) (depthAt kids (p - 1)) rest) := by
        have := splitRight_elem ty a m c rest (1 + depthAt kids (p - 1)) (by omega) (by omega)
        simpa using this
      unfold twoWay
      rw [if_neg hp0, if_neg (by simp; omega)]
      simp only [hd, hs, compatibleContent_self, if_true, hr, hre, close_ok_of_valid S ty a m kids hvc]
      exact ⟨_, rfl⟩

/-! ### Lemma C: the right join — the prefix cut up to `q` joined back with the list at `q` -/

theorem twoWay_right (S : Schema) : ∀ (O : List Node) (q : Nat) (E R : List Node) (t : Nat),
    q ≤ fsize O → fcutLoop O 0 q = .ok E → splitRight R t = splitRight O q →
    S.checkKids O = true → fnorm O = true →
    ∃ X, twoWay S E (fsize E - depthAt O q) R t = .ok X
  | [], q, E, R, t, hq, h, hs, _, _ => by
    have : q = 0 := by simpa using hq
    subst this
    rw [fcutLoop_zero] at h
    simp at h; subst h
    unfold twoWay; rw [hs]; simp
  | n :: ns, q, E, R, t, hq, h, hs, hv, hn => by
    obtain ⟨hnn, hnns⟩ := fnorm_cons hn
    have hpos := Node.size_pos_of_norm n hnn
    simp only [fsize_cons] at hq
    by_cases hq0 : q = 0
    · subst hq0
      rw [fcutLoop_zero] at h
      simp at h; subst h
      unfold twoWay; rw [hs]; simp
    by_cases hle : n.size ≤ q
    · obtain ⟨rest, hr, hM⟩ := fcutLoop_whole_inv h hpos hle
      subst hM
      obtain ⟨_, hd, _⟩ := prefix_cut_facts hr (by omega) hnns
      rw [splitRight_skip n ns q hq0 hle] at hs
      have hv' : S.checkKids ns = true := by
        simp only [checkKids_cons, Bool.and_eq_true] at hv; exact hv.2
      obtain ⟨X, hX⟩ := twoWay_right S ns (q - n.size) rest R t (by omega) hr hs hv' hnns
      rw [depthAt_skip n ns q hle]
      have e : fsize (n :: rest) - depthAt ns (q - n.size) - n.size
          = fsize rest - depthAt ns (q - n.size) := by simp; omega
      unfold twoWay
      rw [if_neg (by simp; omega), if_pos (by simp; omega), e, hX]
      exact ⟨_, rfl⟩
    cases n with
    | text s m =>
      simp only [Node.size_text, Nat.not_le] at hle hpos
      obtain ⟨s', rest, hct, hr, hM⟩ := fcutLoop_text_inv h hq0 hpos (Or.inr hle)
      have hmin : min s.length q = q := by omega
      rw [hmin] at hct
      have h0 : q - s.length = 0 := by omega
      rw [h0, fcutLoop_zero] at hr
      simp at hr; subst hr; subst hM
      have hs' := (cutText_ok hct).1
      have hso := (cutText_splitOk hct).2
      rw [splitRight_text s m ns q hq0 hle hso] at hs
      have hlen : s'.length = q := by rw [hs']; simp; omega
      have hd : depthAt (Node.text s m :: ns) q = 0 :=
        depthAt_nonelem_cons _ ns q (by simpa using hle) (by simp)
      rw [hd]
      unfold twoWay
      simp only [fsize_cons, fsize_nil, Node.size_text, hlen, Nat.add_zero, Nat.sub_zero,
        if_neg hq0, Nat.le_refl, if_true, Nat.sub_self]
      unfold twoWay
      simp [hs]
    | leaf ty a m => simp at hle; omega
    | elem ty a m kids =>
      simp only [Node.size_elem, Nat.not_le] at hle
      obtain ⟨hvc, hvk, hnk, _, _⟩ := elem_facts hv (fnormKids_of_fnorm hn)
      obtain ⟨c, rest, hct, hr, hM⟩ := fcutLoop_elem_inv h hq0 (by omega) (Or.inr hle)
      have hmin : min (fsize kids) (q - 1) = q - 1 := by omega
      have h0 : q - (2 + fsize kids) = 0 := by omega
      rw [h0, fcutLoop_zero] at hr
      simp at hr; subst hr; subst hM
      rw [hmin, Nat.zero_sub, fcut_eq_loop (fnormKids_of_fnorm hnk) (by omega) (by omega) (by omega)] at hct
      obtain ⟨htk, hdc, hnc⟩ := prefix_cut_facts hct (by omega) hnk
      rw [splitRight_elem ty a m kids ns q hq0 hle] at hs
      obtain ⟨r, hr⟩ := twoWay_right S kids (q - 1) c kids (q - 1) (by omega) hct rfl hvk hnk
      have hre : fromArray r = kids :=
        twoWay_rebuild S hr hnc (fnormKids_of_fnorm hnk) hnk
          (by rw [htk]; exact List.take_append_drop _ _)
      have hd : depthAt (Node.elem ty a m kids :: ns) q = 1 + depthAt kids (q - 1) :=
        depthAt_elem_cons _ _ _ _ _ _ (by omega) hle
      have hf : fsize [Node.elem ty a m c] - depthAt (Node.elem ty a m kids :: ns) q
          = (fsize c - depthAt kids (q - 1)) + 1 := by
        rw [hd]; simp; omega
      rw [hf]
      unfold twoWay
      rw [if_neg (by omega), if_neg (by simp; omega)]
      simp only [hs, compatibleContent_self, if_true, Nat.add_sub_cancel, hr, hre,
        close_ok_of_valid S ty a m kids hvc]
      exact ⟨_, rfl⟩

/-! ### the right join of `threeWay` / `flatTail` -/

/-- what `rightJoin` needs to know about the slice content `M` and the right split -/
def RJoinOK (S : Schema) (M : List Node) (b : Nat) : RSplit → Prop
  | .flat _ => b = 0
  | .deep cR innerT _ => ∃ ty a m kidsR kidsE, cR = .elem ty a m kidsR ∧
      M.getLast? = some (.elem ty a m kidsE) ∧ fcutLoop kidsR 0 innerT = .ok kidsE ∧
      innerT ≤ fsize kidsR ∧ b = 1 + depthAt kidsR innerT ∧
      S.validContent ty kidsR = true ∧ S.checkKids kidsR = true ∧ fnorm kidsR = true

theorem rjoinOK_cons {S : Schema} {M : List Node} {b : Nat} {rs : RSplit} (x : Node)
    (h : RJoinOK S M b rs) : RJoinOK S (x :: M) b rs := by
  cases rs with
  | flat r => exact h
  | deep c i r =>
    obtain ⟨ty, a, m, kR, kE, h1, h2, h3⟩ := h
    refine ⟨ty, a, m, kR, kE, h1, ?_, h3⟩
    cases M with
    | nil => simp at h2
    | cons y ys => rw [List.getLast?_cons_cons]; exact h2

theorem rjoinOK_ne_nil {S : Schema} {M : List Node} {b : Nat} {c : Node} {i : Nat} {r : List Node}
    (h : RJoinOK S M b (.deep c i r)) : M ≠ [] ∧ b ≠ 0 := by
  obtain ⟨ty, a, m, kR, kE, _, h2, _, _, hb, _⟩ := h
  refine ⟨?_, by omega⟩
  intro h0; subst h0; simp at h2

theorem rightJoin_ok {S : Schema} {M : List Node} {b : Nat} {rs : RSplit} (h : RJoinOK S M b rs) :
    ∃ rj, rightJoin S M b rs = .ok rj := by
  cases rs with
  | flat r =>
    simp only [RJoinOK] at h; subst h
    exact ⟨[], by simp [rightJoin]⟩
  | deep c i r =>
    obtain ⟨ty, a, m, kR, kE, rfl, hl, hcut, hi, hb, hvc, hvk, hnk⟩ := h
    obtain ⟨htk, hd, hnE⟩ := prefix_cut_facts hcut hi hnk
    obtain ⟨X, hX⟩ := twoWay_right S kR i kE kR i hi hcut rfl hvk hnk
    have hre : fromArray X = kR :=
      twoWay_rebuild S hX hnE (fnormKids_of_fnorm hnk) hnk
        (by rw [htk]; exact List.take_append_drop _ _)
    subst hb
    unfold rightJoin
    simp only [hl, Nat.add_sub_cancel_left, compatibleContent_self, if_true, hX, hre,
      close_ok_of_valid S ty a m kR hvc]
    rw [if_neg (by omega)]
    exact ⟨_, rfl⟩

theorem flatTail_ok {S : Schema} {M : List Node} {b : Nat} {R : List Node} {t : Nat} {rs : RSplit}
    (hs : splitRight R t = some rs) (h : RJoinOK S M b rs) : ∃ X, flatTail S M 0 b R t = .ok X := by
  obtain ⟨rj, hrj⟩ := rightJoin_ok h
  unfold flatTail
  simp only [hs, hrj]
  rw [if_neg (by simp)]
  exact ⟨_, rfl⟩

theorem rjoinOK_of_cut0 (S : Schema) : ∀ (L : List Node) (t : Nat) (M : List Node) (rs : RSplit),
    t ≤ fsize L → fcutLoop L 0 t = .ok M → splitRight L t = some rs →
    S.checkKids L = true → fnorm L = true → RJoinOK S M (depthAt L t) rs
  | [], t, M, rs, ht, _, hs, _, _ => by
    have : t = 0 := by simpa using ht
    subst this
    simp at hs; subst hs
    simp [RJoinOK]
  | n :: ns, t, M, rs, ht, h, hs, hv, hn => by
    obtain ⟨hnn, hnns⟩ := fnorm_cons hn
    have hpos := Node.size_pos_of_norm n hnn
    simp only [fsize_cons] at ht
    by_cases ht0 : t = 0
    · subst ht0
      simp at hs; subst hs
      simp [RJoinOK]
    by_cases hle : n.size ≤ t
    · obtain ⟨rest, hr, hM⟩ := fcutLoop_whole_inv h hpos hle
      subst hM
      rw [splitRight_skip n ns t ht0 hle] at hs
      have hv' : S.checkKids ns = true := by
        simp only [checkKids_cons, Bool.and_eq_true] at hv; exact hv.2
      rw [depthAt_skip n ns t hle]
      exact rjoinOK_cons n (rjoinOK_of_cut0 S ns (t - n.size) rest rs (by omega) hr hs hv' hnns)
    cases n with
    | text s m =>
      rw [splitRight_cons, if_neg ht0, if_neg hle] at hs
      simp only at hs
      split at hs
      · simp at hs; subst hs
        simp only [RJoinOK]
        exact depthAt_nonelem_cons _ ns t (by omega) (by simp)
      · simp at hs
    | leaf ty a m => simp at hle; omega
    | elem ty a m kids =>
      simp only [Node.size_elem, Nat.not_le] at hle
      obtain ⟨hvc, hvk, hnk, _, _⟩ := elem_facts hv (fnormKids_of_fnorm hn)
      rw [splitRight_elem ty a m kids ns t ht0 hle] at hs
      simp at hs; subst hs
      obtain ⟨c, rest, hct, hr, hM⟩ := fcutLoop_elem_inv h ht0 (by omega) (Or.inr hle)
      have hmin : min (fsize kids) (t - 1) = t - 1 := by omega
      have h0 : t - (2 + fsize kids) = 0 := by omega
      rw [h0, fcutLoop_zero] at hr
      simp at hr; subst hr; subst hM
      rw [hmin, Nat.zero_sub, fcut_eq_loop (fnormKids_of_fnorm hnk) (by omega) (by omega) (by omega)] at hct
      exact ⟨ty, a, m, kids, c, rfl, by simp, hct, by omega,
        depthAt_elem_cons _ _ _ _ _ _ (by omega) hle, hvc, hvk, hnk⟩

/-! ### the three-way join with the slice cut from the same range -/

theorem threeWay_rebuild (S : Schema) {L M R O X : List Node} {f a b t : Nat}
    (h : threeWay S L f 0 M a b R t = .ok X) (hL : fnormKids L = true) (hM : fnormKids M = true)
    (hR : fnormKids R = true) (hO : fnorm O = true) (ha : a ≤ spineL M) (hb : b ≤ spineR M)
    (htk : (ftoks L).take f ++ midToks M a b ++ (ftoks R).drop t = ftoks O) :
    fromArray X = O := by
  apply ftoks_inj _ _ (fromArray_norm _ (threeWay_norm S _ _ _ _ _ _ _ _ _ hL hM hR h)) hO
  rw [fromArray_toks, threeWay_toks S _ _ _ _ _ _ _ _ _ ha hb h, htk]

set_option linter.unusedVariables false in
theorem splice_mid {α} (l : List α) (f t : Nat) (hft : f ≤ t) (ht : t ≤ l.length) :
    l.take f ++ (l.drop f).take (t - f) ++ l.drop t = l := by
  have h1 : (l.drop f).take (t - f) ++ l.drop t = l.drop f := by
    have : l.drop t = (l.drop f).drop (t - f) := by
      rw [List.drop_drop]; congr 1; omega
    rw [this, List.take_append_drop]
  rw [List.append_assoc, h1, List.take_append_drop]

theorem threeWay_cut (S : Schema) : ∀ (L : List Node) (f t : Nat) (M R : List Node) (t0 : Nat),
    f < t → t ≤ fsize L → fcutLoop L f t = .ok M → splitRight R t0 = splitRight L t →
    S.checkKids L = true → fnorm L = true →
    ∃ X, threeWay S L f 0 M (depthAt L f) (depthAt L t) R t0 = .ok X
  | [], f, t, M, R, t0, hft, ht, _, _, _, _ => by
    have : t ≤ 0 := by simpa using ht
    omega
  | n :: ns, f, t, M, R, t0, hft, ht, h, hs, hv, hn => by
    obtain ⟨hnn, hnns⟩ := fnorm_cons hn
    have hpos := Node.size_pos_of_norm n hnn
    have ht0 : t ≠ 0 := by omega
    have hv' : S.checkKids ns = true := by
      simp only [checkKids_cons, Bool.and_eq_true] at hv; exact hv.2
    obtain ⟨rs, hrs⟩ := splitRight_total (n :: ns) t ht
      (fcutLoop_aligned (n :: ns) f t M hft ht h).2
    rw [hrs] at hs
    simp only [fsize_cons] at ht
    by_cases hf0 : f = 0
    · subst hf0
      have hl := rjoinOK_of_cut0 S (n :: ns) t M rs (by simp; omega) h hrs hv hn
      obtain ⟨X, hX⟩ := flatTail_ok hs hl
      unfold threeWay
      simp only [if_true, depthAt_zero]
      exact ⟨X, hX⟩
    by_cases hle : n.size ≤ f
    · rw [fcutLoop_skip n ns f t ht0 hle] at h
      rw [splitRight_skip n ns t ht0 (by omega)] at hrs
      obtain ⟨X, hX⟩ := threeWay_cut S ns (f - n.size) (t - n.size) M R t0 (by omega) (by omega) h
        (hs.trans hrs.symm) hv' hnns
      unfold threeWay
      rw [if_neg hf0, if_pos hle, depthAt_skip n ns f hle, depthAt_skip n ns t (by omega), hX]
      exact ⟨_, rfl⟩
    cases n with
    | text s m =>
      simp only [Node.size_text, Nat.not_le] at hle hpos ht
      obtain ⟨s', rest, hct, hr, hM⟩ := fcutLoop_text_inv h ht0 hle (Or.inl (by omega))
      subst hM
      have hso := cutText_splitOk hct
      have hdf : depthAt (Node.text s m :: ns) f = 0 :=
        depthAt_nonelem_cons _ ns f (by simpa using hle) (by simp)
      have hl : RJoinOK S (Node.text s' m :: rest) (depthAt (Node.text s m :: ns) t) rs := by
        by_cases hlt : s.length ≤ t
        · rw [splitRight_skip _ ns t ht0 (by simpa using hlt)] at hrs
          rw [depthAt_skip _ ns t (by simpa using hlt)]
          simp only [Node.size_text] at hrs ⊢
          exact rjoinOK_cons _ (rjoinOK_of_cut0 S ns (t - s.length) rest rs (by omega) hr hrs hv' hnns)
        · have : min s.length t = t := by omega
          rw [this] at hso
          rw [splitRight_text s m ns t ht0 (by omega) hso.2] at hrs
          simp at hrs; subst hrs
          simp only [RJoinOK]
          exact depthAt_nonelem_cons _ ns t (by simp; omega) (by simp)
      obtain ⟨X, hX⟩ := flatTail_ok hs hl
      unfold threeWay
      rw [if_neg hf0, if_neg (by simp; omega)]
      simp only [hso.1, hdf, hX]
      simp
    | leaf ty a m => simp at hle; omega
    | elem tyL aL mL kidsL =>
      simp only [Node.size_elem, Nat.not_le] at hle ht
      obtain ⟨hvc, hvk, hnk, _, _⟩ := elem_facts hv (fnormKids_of_fnorm hn)
      obtain ⟨c, rest, hct, hr, hM⟩ := fcutLoop_elem_inv h ht0 hle (Or.inl (by omega))
      subst hM
      have hda : depthAt (Node.elem tyL aL mL kidsL :: ns) f = depthAt kidsL (f - 1) + 1 := by
        rw [depthAt_elem_cons _ _ _ _ _ _ (by omega) hle]; omega
      by_cases hlt : t < 2 + fsize kidsL
      · -- both ends inside this child: one level down
        have hmin : min (fsize kidsL) (t - 1) = t - 1 := by omega
        have h0 : t - (2 + fsize kidsL) = 0 := by omega
        rw [h0, fcutLoop_zero] at hr
        simp at hr; subst hr
        rw [hmin, fcut_eq_loop (fnormKids_of_fnorm hnk) (by omega) (by omega) (by omega)] at hct
        rw [splitRight_elem tyL aL mL kidsL ns t ht0 hlt] at hrs
        simp at hrs; subst hrs
        have hdb : depthAt (Node.elem tyL aL mL kidsL :: ns) t = depthAt kidsL (t - 1) + 1 := by
          rw [depthAt_elem_cons _ _ _ _ _ _ (by omega) hlt]; omega
        obtain ⟨hmid, hsl, hsr, hnc⟩ := mid_cut_facts hct (by omega) (by omega) hnk
        obtain ⟨X, hX⟩ := threeWay_cut S kidsL (f - 1) (t - 1) c kidsL (t - 1) (by omega) (by omega)
          hct rfl hvk hnk
        have hre : fromArray X = kidsL :=
          threeWay_rebuild S hX (fnormKids_of_fnorm hnk) hnc (fnormKids_of_fnorm hnk) hnk hsl hsr
            (by rw [hmid]; exact splice_mid _ _ _ (by omega) (by rw [ftoks_length]; omega))
        unfold threeWay
        rw [if_neg hf0, if_neg (by simp; omega)]
        simp only [hs, hda, hdb]
        simp [compatibleContent_self, hX, hre, close_ok_of_valid S tyL aL mL kidsL hvc]
      · -- `t` at or beyond the end of this child: left join, middle, right join
        have hge : 2 + fsize kidsL ≤ t := by omega
        have hmin : min (fsize kidsL) (t - 1) = fsize kidsL := by omega
        rw [hmin, fcut_eq_loop (fnormKids_of_fnorm hnk) (by omega) (Nat.le_refl _) (by omega)] at hct
        rw [splitRight_skip _ ns t ht0 (by simpa using hge)] at hrs
        simp only [Node.size_elem] at hrs
        have hdb : depthAt (Node.elem tyL aL mL kidsL :: ns) t = depthAt ns (t - (2 + fsize kidsL)) := by
          rw [depthAt_skip _ ns t (by simpa using hge)]; simp
        have hl0 := rjoinOK_of_cut0 S ns (t - (2 + fsize kidsL)) rest rs (by omega) hr hrs hv' hnns
        obtain ⟨htk, hdc, hnc⟩ := suffix_cut_facts hct (by omega) hnk
        obtain ⟨lr, hlr⟩ := twoWay_left S kidsL (f - 1) c (by omega) hct hvk hnk
        have hre : fromArray lr = kidsL :=
          twoWay_rebuild S hlr (fnormKids_of_fnorm hnk) hnc hnk
            (by rw [htk]; exact List.take_append_drop _ _)
        obtain ⟨rj, hrj⟩ := rightJoin_ok (rjoinOK_cons (Node.elem tyL aL mL c) hl0)
        unfold threeWay
        rw [if_neg hf0, if_neg (by simp; omega)]
        simp only [hs, hda, hdb]
        cases rs with
        | flat r =>
          simp only [RJoinOK] at hl0
          rw [hl0] at hrj ⊢
          simp [threeWay.rightJoinCheck, compatibleContent_self, hlr, hre,
            close_ok_of_valid S tyL aL mL kidsL hvc, hrj]
        | deep cR i r =>
          obtain ⟨hne, hb0⟩ := rjoinOK_ne_nil hl0
          cases rest with
          | nil => exact absurd rfl hne
          | cons y ys =>
            obtain ⟨ty, a, m, kR, kE, rfl, _, _, _, hb, _⟩ := hl0
            have hb' : depthAt ns (t - (2 + fsize kidsL)) = depthAt kR i + 1 := by omega
            rw [hb'] at hrj ⊢
            simp [threeWay.rightJoinCheck, compatibleContent_self, hlr, hre,
              close_ok_of_valid S tyL aL mL kidsL hvc, hrj]

/-! ### `atLevel`: the slice cut at this level goes back in -/

theorem atLevel_reinsert (S : Schema) (ty : TypeId) (level c : List Node) (f t : Nat)
    (hft : f < t) (ht : t ≤ fsize level) (hc : fcut level f t = .ok c)
    (hvc : S.validContent ty level = true) (hv : S.checkKids level = true)
    (hn : fnorm level = true) :
    atLevel S ⟨c, depthAt level f, depthAt level t⟩ ty level f t 0 = .ok level := by
  have hcl : fcutLoop level f t = .ok c := by
    rw [← fcut_eq_loop (fnormKids_of_fnorm hn) (by omega) ht (by omega)]; exact hc
  obtain ⟨hmid, hsl, hsr, hnc⟩ := mid_cut_facts hcl hft ht hn
  have hsz : fsize c ≠ 0 := by
    have := congrArg List.length hmid
    simp [midToks, ftoks_length] at this
    omega
  unfold atLevel
  simp only []
  rw [if_neg hsz]
  by_cases hcl0 : depthAt level f = 0 ∧ depthAt level t = 0
  · obtain ⟨hdf, hdt⟩ := hcl0
    obtain ⟨haf, hat⟩ := fcut_aligned hft ht hc
    obtain ⟨l, hl⟩ := fcut_total level 0 f (by omega) (by omega) (alignedAt_zero _) haf hn
    obtain ⟨r, hr⟩ := fcut_total level t (fsize level) ht (Nat.le_refl _) hat (alignedAt_fsize _) hn
    have hX : fappend (fappend l c) r = level := by
      apply ftoks_inj _ _ (fappend_norm _ _ (fappend_norm _ _ (fcut_norm _ _ _ _ hn hl)
        (fcut_norm _ _ _ _ hn hc)) (fcut_norm _ _ _ _ hn hr)) hn
      rw [fappend_toks, fappend_toks, fcut_prefix_toks hl (by omega) hdf, fcut_suffix_toks hr hdt,
        fcut_toks level c f t hft ht hc, ancestorOpens_nil_of_depth hdf, hdt]
      simp only [List.nil_append, List.replicate_zero, List.append_nil]
      exact splice_mid _ _ _ (by omega) (by rw [ftoks_length]; exact ht)
    simp only [hdf, hdt, decide_true, Bool.and_self, if_true, hl, hr, hX, hvc]
  · have hcond : ¬ ((decide (depthAt level f = 0) && decide (depthAt level t = 0) &&
        decide (depthAt level f = 0) && decide (depthAt level t = 0)) = true) := by
      simp only [Bool.and_eq_true, decide_eq_true_eq]
      intro h; exact hcl0 ⟨h.1.1.1, h.2⟩
    rw [if_neg hcond]
    obtain ⟨X, hX⟩ := threeWay_cut S level f t c level t hft ht hcl rfl hv hn
    have hre : fromArray X = level :=
      threeWay_rebuild S hX (fnormKids_of_fnorm hn) hnc (fnormKids_of_fnorm hn) hn hsl hsr
        (by rw [hmid]; exact splice_mid _ _ _ (by omega) (by rw [ftoks_length]; exact ht))
    simp only [hX, Except.map, hre, hvc, if_true]

theorem atLevel_empty (S : Schema) (ty : TypeId) (level : List Node) (f extra : Nat)
    (hf : f ≤ fsize level) (ha : alignedAt level f = true)
    (hvc : S.validContent ty level = true) (hv : S.checkKids level = true)
    (hn : fnorm level = true) :
    atLevel S Slice.empty ty level f f extra = .ok level := by
  obtain ⟨X, hX⟩ := twoWay_same S level f level f hf ha hv (fnormKids_of_fnorm hn) rfl
  have hre : fromArray X = level :=
    twoWay_rebuild S hX (fnormKids_of_fnorm hn) (fnormKids_of_fnorm hn) hn
      (List.take_append_drop _ _)
  unfold atLevel
  simp only [Slice.empty, fsize_nil, if_true, hX, Except.map, hre, hvc]

/-! ### `outer`: descending to the level of the cut -/

theorem child_facts {S : Schema} {pre ns : List Node} {ty : TypeId} {a : Attrs} {m : Marks}
    {kids : List Node} (hv : S.checkKids (pre ++ .elem ty a m kids :: ns) = true)
    (hn : fnorm (pre ++ .elem ty a m kids :: ns) = true) :
    S.validContent ty kids = true ∧ S.checkKids kids = true ∧ fnorm kids = true := by
  rw [checkKids_append] at hv
  simp only [Bool.and_eq_true] at hv
  have hn' := fnormKids_of_fnorm hn
  rw [fnormKids_append] at hn'
  simp only [Bool.and_eq_true] at hn'
  obtain ⟨h1, h2, h3, _, _⟩ := elem_facts hv.2 hn'.2
  exact ⟨h1, h2, h3⟩

theorem outer_empty (S : Schema) : ∀ (rest : List Node) (ty : TypeId) (level : List Node)
    (f0 idx f extra : Nat) (pre : List Node),
    level = pre ++ rest → idx = pre.length → f0 = fsize pre + f → f ≤ fsize rest →
    alignedAt level f0 = true → S.validContent ty level = true → S.checkKids level = true →
    fnorm level = true →
    outer S Slice.empty ty level f0 f0 idx rest f f extra = .ok level
  | [], ty, level, f0, idx, f, extra, pre, hl, _, hf0, hf, ha, hvc, hv, hn => by
    unfold outer
    exact atLevel_empty S ty level f0 extra (by rw [hl, fsize_append]; omega) ha hvc hv hn
  | n :: ns, ty, level, f0, idx, f, extra, pre, hl, hi, hf0, hf, ha, hvc, hv, hn => by
    have hfl : f0 ≤ fsize level := by rw [hl, fsize_append]; omega
    have here := atLevel_empty S ty level f0 extra hfl ha hvc hv hn
    simp only [fsize_cons] at hf
    unfold outer
    split
    · exact here
    · rename_i hfz
      split
      · rename_i hle
        refine outer_empty S ns ty level f0 (idx + 1) (f - n.size) extra (pre ++ [n]) ?_ ?_ ?_
          (by omega) ha hvc hv hn
        · simp [hl]
        · simp [hi]
        · rw [fsize_append]; simp; omega
      · rename_i hlt
        split
        · rename_i tyC aC mC kidsC
          simp only [Node.size_elem, Nat.not_le] at hlt
          split
          · subst hl
            obtain ⟨h1, h2, h3⟩ := child_facts hv hn
            have ha' : alignedAt kidsC (f - 1) = true := by
              rw [hf0, alignedAt_append_pre, alignedAt_cons, if_neg hfz, if_neg (by simp; omega)] at ha
              exact ha
            have ih := outer_empty S kidsC tyC kidsC (f - 1) 0 (f - 1) (extra - 1) [] rfl rfl
              (by simp) (by omega) ha' h1 h2 h3
            rw [ih, hi]
            simp only [set_mid]
          · exact here
        · exact here

/-- inversion of `sliceHere` -/
theorem sliceHere_inv {level : List Node} {f t : Nat} {s : Slice} (h : sliceHere level f t = .ok s) :
    ∃ c, fcut level f t = .ok c ∧ s = ⟨c, depthAt level f, depthAt level t⟩ := by
  unfold sliceHere at h
  cases hc : fcut level f t with
  | error e => simp [hc] at h
  | ok c => simp [hc] at h; exact ⟨c, rfl, h.symm⟩

theorem outer_slice (S : Schema) : ∀ (rest : List Node) (ty : TypeId) (level : List Node)
    (f0 t0 idx f t : Nat) (pre : List Node) (s : Slice),
    level = pre ++ rest → idx = pre.length → f0 = fsize pre + f → t0 = fsize pre + t →
    f < t → t ≤ fsize rest → sliceScan level f0 t0 rest f t = .ok s →
    S.validContent ty level = true → S.checkKids level = true → fnorm level = true →
    ∃ e, s.openStart + e = depthAt level f0 ∧ s.openEnd + e = depthAt level t0 ∧
      outer S s ty level f0 t0 idx rest f t e = .ok level
  | [], ty, level, f0, t0, idx, f, t, pre, s, _, _, _, _, hft, ht, _, _, _, _ => by
    have : t ≤ 0 := by simpa using ht
    omega
  | n :: ns, ty, level, f0, t0, idx, f, t, pre, s, hl, hi, hf0, ht0, hft, ht, h, hvc, hv, hn => by
    simp only [fsize_cons] at ht
    have htl : t0 ≤ fsize level := by rw [hl, fsize_append]; simp; omega
    -- when the scan stops here
    have here : sliceHere level f0 t0 = .ok s →
        s.openStart + 0 = depthAt level f0 ∧ s.openEnd + 0 = depthAt level t0 ∧
          atLevel S s ty level f0 t0 0 = .ok level := by
      intro hh
      obtain ⟨c, hc, rfl⟩ := sliceHere_inv hh
      exact ⟨rfl, rfl, atLevel_reinsert S ty level c f0 t0 (by omega) htl hc hvc hv hn⟩
    rw [sliceScan_cons] at h
    split at h
    · rename_i hfz
      obtain ⟨h1, h2, h3⟩ := here h
      refine ⟨0, h1, h2, ?_⟩
      unfold outer
      rw [if_pos hfz]; exact h3
    · rename_i hfz
      split at h
      · rename_i hle
        obtain ⟨e, h1, h2, h3⟩ := outer_slice S ns ty level f0 t0 (idx + 1) (f - n.size) (t - n.size)
          (pre ++ [n]) s (by simp [hl]) (by simp [hi]) (by rw [fsize_append]; simp; omega)
          (by rw [fsize_append]; simp; omega) (by omega) (by omega) h hvc hv hn
        refine ⟨e, h1, h2, ?_⟩
        unfold outer
        rw [if_neg hfz, if_pos hle]; exact h3
      · rename_i hlt
        cases n with
        | text s' m =>
          obtain ⟨h1, h2, h3⟩ := here h
          refine ⟨0, h1, h2, ?_⟩
          unfold outer
          rw [if_neg hfz, if_neg hlt]; exact h3
        | leaf ty' a m =>
          obtain ⟨h1, h2, h3⟩ := here h
          refine ⟨0, h1, h2, ?_⟩
          unfold outer
          rw [if_neg hfz, if_neg hlt]; exact h3
        | elem tyC aC mC kidsC =>
          simp only at h
          simp only [Node.size_elem, Nat.not_le] at hlt
          split at h
          · rename_i htsz
            simp only [Node.size_elem] at htsz
            subst hl
            obtain ⟨c1, c2, c3⟩ := child_facts hv hn
            obtain ⟨e, h1, h2, h3⟩ := outer_slice S kidsC tyC kidsC (f - 1) (t - 1) 0 (f - 1) (t - 1)
              [] s rfl rfl (by simp) (by simp) (by omega) (by omega) h c1 c2 c3
            refine ⟨e + 1, ?_, ?_, ?_⟩
            · rw [hf0, depthAt_append_pre, depthAt_elem_cons _ _ _ _ _ _ (by omega) hlt]; omega
            · rw [ht0, depthAt_append_pre, depthAt_elem_cons _ _ _ _ _ _ (by omega) htsz]; omega
            · unfold outer
              rw [if_neg hfz, if_neg (by simp; omega)]
              simp only [Node.size_elem, Nat.add_sub_cancel, h3, hi, set_mid]
              simp [htsz]
          · rename_i htsz
            obtain ⟨h1, h2, h3⟩ := here h
            refine ⟨0, h1, h2, ?_⟩
            unfold outer
            rw [if_neg hfz, if_neg (by simp; omega)]
            simp only [h3]
            simp

/-! ### `replaceKids` -/

/-- **re-inserting the slice cut from `f … t` at `f … t` succeeds and gives back the child list.**
    For `f = t` `sliceKids` returns `Slice.empty` without looking at the document, so range and
    pair-alignment of `f` are hypotheses there; for `f < t` they follow from `sliceKids … = .ok s`. -/
theorem replaceKids_reinsert (S : Schema) (ty : TypeId) (kids : List Node) (f t : Nat) (s : Slice)
    (hvc : S.validContent ty kids = true) (hv : S.checkKids kids = true) (hn : fnorm kids = true)
    (he : f = t → f ≤ fsize kids ∧ alignedAt kids f = true)
    (hs : sliceKids kids f t = .ok s) : replaceKids S ty kids f t s = .ok kids := by
  by_cases hft : f = t
  · subst hft
    obtain ⟨hf, ha⟩ := he rfl
    simp [sliceKids] at hs; subst hs
    have ho := outer_empty S kids ty kids f 0 f (depthAt kids f - 0) [] rfl rfl (by simp) hf ha hvc hv hn
    unfold replaceKids
    simp [inRange, hf, Slice.empty, Slice.wf, spineL, spineR]
    simpa [Slice.empty] using ho
  · have hs' := hs
    unfold sliceKids at hs'
    rw [if_neg hft] at hs'
    split at hs'
    · simp at hs'
    · rename_i hg
      simp only [inRange, Bool.or_eq_true, Bool.not_eq_true', decide_eq_false_iff_not,
        decide_eq_true_eq, not_or, Nat.not_lt, Decidable.not_not] at hg
      obtain ⟨⟨hf, ht⟩, hle⟩ := hg
      have hlt : f < t := by omega
      obtain ⟨e, h1, h2, h3⟩ := outer_slice S kids ty kids f t 0 f t [] s rfl rfl (by simp) (by simp)
        hlt ht hs' hvc hv hn
      have hwf := (sliceKids_norm kids f t s hn hs).2
      have hex : depthAt kids f - s.openStart = e := by omega
      unfold replaceKids
      rw [if_neg (by simp [inRange, hf, ht]; omega)]
      simp only []
      rw [if_neg (by omega), if_neg (by omega), if_neg (by simp [hwf]), hex]
      exact h3

end PM
