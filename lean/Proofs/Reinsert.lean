/-
  Proofs/Reinsert.lean — the *success* half of re-insertion (C02): replacing a range of a valid,
  normal-form document by the slice that was cut from that very range does not fail.
  Together with `replaceKids_toks` / `ftoks_inj` (the value half) this gives
  `replaceKids S ty kids f t (slice kids f t) = .ok kids`.

  Structure: every `check_join` along the two cuts compares a type with itself, every `close`
  re-validates a child list that normalises (`fromArray`) to the original child list of a node of
  the valid document (token argument, `twoWay_rebuild` / `threeWay_rebuild`).
-/
import PM.Basic
import PM.Fragment
import PM.Content
import PM.Replace
import Proofs.Toks
import Proofs.TokCore
import Proofs.ReplaceToks
import Proofs.ReplaceValid
namespace PM

/-! ### small unfolding lemmas -/

theorem compatibleContent_self (S : Schema) (t : TypeId) : S.compatibleContent t t = true := by
  simp [Schema.compatibleContent]

theorem Node.cut_elem (t : TypeId) (a : Attrs) (m : Marks) (kids : List Node) (f to : Nat) :
    Node.cut (.elem t a m kids) f to = (fcut kids f to).map (Node.elem t a m ·) := by
  rw [Node.cut, fcut]
  split
  · rfl
  · split <;> rfl

theorem splitRight_cons (n : Node) (ns : List Node) (t : Nat) :
    splitRight (n :: ns) t =
      if t = 0 then some (.flat (n :: ns))
      else if n.size ≤ t then splitRight ns (t - n.size)
      else match n with
        | .text s m => if splitOk s t then some (.flat (.text (s.drop t) m :: ns)) else none
        | .leaf .. => none
        | .elem .. => some (.deep n (t - 1) ns) := by
  conv => lhs; unfold splitRight
  split
  · rfl
  · split
    · rfl
    · cases n <;> rfl

@[simp] theorem splitRight_zero (l : List Node) : splitRight l 0 = some (.flat l) := by
  cases l
  · simp [splitRight]
  · rw [splitRight_cons]; simp

theorem splitRight_skip (n : Node) (ns : List Node) (t : Nat) (h0 : t ≠ 0) (h : n.size ≤ t) :
    splitRight (n :: ns) t = splitRight ns (t - n.size) := by
  rw [splitRight_cons, if_neg h0, if_pos h]

theorem splitRight_elem (ty : TypeId) (a : Attrs) (m : Marks) (kids ns : List Node) (t : Nat)
    (h0 : t ≠ 0) (h : t < 2 + fsize kids) :
    splitRight (.elem ty a m kids :: ns) t = some (.deep (.elem ty a m kids) (t - 1) ns) := by
  rw [splitRight_cons, if_neg h0, if_neg (by simp; omega)]

theorem splitRight_text (s : List Nat) (m : Marks) (ns : List Node) (t : Nat)
    (h0 : t ≠ 0) (h : t < s.length) (hs : splitOk s t = true) :
    splitRight (.text s m :: ns) t = some (.flat (.text (s.drop t) m :: ns)) := by
  rw [splitRight_cons, if_neg h0, if_neg (by simp; omega)]
  simp [hs]

/-- `twoWay` looks at its right-hand side only through `splitRight` -/
theorem twoWay_congr (S : Schema) : ∀ (L : List Node) (f : Nat) (R : List Node) (t : Nat)
    (R' : List Node) (t' : Nat), splitRight R t = splitRight R' t' →
    twoWay S L f R t = twoWay S L f R' t'
  | [], f, R, t, R', t', h => by
    unfold twoWay; rw [h]
  | n :: ns, f, R, t, R', t', h => by
    unfold twoWay
    rw [h, twoWay_congr S ns (f - n.size) R t R' t' h]

/-- what a successful two-way join normalises to is determined by its tokens -/
theorem twoWay_rebuild (S : Schema) {L R O X : List Node} {f t : Nat}
    (h : twoWay S L f R t = .ok X) (hL : fnormKids L = true) (hR : fnormKids R = true)
    (hO : fnorm O = true) (htk : (ftoks L).take f ++ (ftoks R).drop t = ftoks O) :
    fromArray X = O := by
  apply ftoks_inj _ _ (fromArray_norm _ (twoWay_norm S _ _ _ _ _ hL hR h)) hO
  rw [fromArray_toks, twoWay_toks S _ _ _ _ _ h, htk]

theorem close_ok_of_valid (S : Schema) (ty : TypeId) (a : Attrs) (m : Marks) (c : List Node)
    (h : S.validContent ty c = true) : S.close ty a m c = .ok (.elem ty a m c) := by
  simp [Schema.close, h]

/-! ### facts about a valid / normal child -/

theorem elem_facts {S : Schema} {ty : TypeId} {a : Attrs} {m : Marks} {kids ns : List Node}
    (hv : S.checkKids (.elem ty a m kids :: ns) = true)
    (hn : fnormKids (.elem ty a m kids :: ns) = true) :
    S.validContent ty kids = true ∧ S.checkKids kids = true ∧ fnorm kids = true ∧
      S.checkKids ns = true ∧ fnormKids ns = true := by
  simp only [checkKids_cons, checkNode_elem, Bool.and_eq_true] at hv
  simp only [fnormKids_cons, Node.norm_elem, Bool.and_eq_true] at hn
  exact ⟨hv.1.1.1, hv.1.2, hn.1, hv.2, hn.2⟩

/-! ### Lemma A: joining a list with itself at one point (`replace(f, f, Slice.empty)`) -/

theorem twoWay_same (S : Schema) : ∀ (L : List Node) (f : Nat) (R : List Node) (t : Nat),
    f ≤ fsize L → alignedAt L f = true → S.checkKids L = true → fnormKids L = true →
    splitRight R t = splitRight L f → ∃ X, twoWay S L f R t = .ok X
  | [], f, R, t, hf, _, _, _, hs => by
    have : f = 0 := by simpa using hf
    subst this
    unfold twoWay
    rw [hs]; simp
  | n :: ns, f, R, t, hf, ha, hv, hn, hs => by
    by_cases hf0 : f = 0
    · subst hf0
      unfold twoWay
      rw [hs]; simp
    by_cases hle : n.size ≤ f
    · have hv' : S.checkKids ns = true := by
        simp only [checkKids_cons, Bool.and_eq_true] at hv; exact hv.2
      have hn' : fnormKids ns = true := by
        simp only [fnormKids_cons, Bool.and_eq_true] at hn; exact hn.2
      rw [alignedAt_cons, if_neg hf0, if_pos hle] at ha
      rw [splitRight_skip n ns f hf0 hle] at hs
      obtain ⟨r, hr⟩ := twoWay_same S ns (f - n.size) R t (by simp at hf; omega) ha hv' hn' hs
      unfold twoWay
      rw [if_neg hf0, if_pos hle, hr]
      exact ⟨_, rfl⟩
    cases n with
    | text s m =>
      simp only [Node.size_text, Nat.not_le] at hle
      rw [alignedAt_cons, if_neg hf0, if_neg (by simp; omega)] at ha
      simp only at ha
      rw [splitRight_text s m ns f hf0 hle ha] at hs
      unfold twoWay
      rw [if_neg hf0, if_neg (by simp; omega)]
      simp [ha, hs]
    | leaf ty a m => simp at hle; omega
    | elem ty a m kids =>
      simp only [Node.size_elem, Nat.not_le] at hle
      obtain ⟨hvc, hvk, hnk, _, _⟩ := elem_facts hv hn
      rw [alignedAt_cons, if_neg hf0, if_neg (by simp; omega)] at ha
      simp only at ha
      rw [splitRight_elem ty a m kids ns f hf0 hle] at hs
      obtain ⟨r, hr⟩ := twoWay_same S kids (f - 1) kids (f - 1) (by omega) ha hvk
        (fnormKids_of_fnorm hnk) rfl
      have hre : fromArray r = kids :=
        twoWay_rebuild S hr (fnormKids_of_fnorm hnk) (fnormKids_of_fnorm hnk) hnk
          (List.take_append_drop _ _)
      unfold twoWay
      rw [if_neg hf0, if_neg (by simp; omega)]
      simp only [hs, compatibleContent_self, if_true, hr, hre, close_ok_of_valid S ty a m kids hvc]
      exact ⟨_, rfl⟩

/-! ### `fcutLoop`: unfolding / inversion lemmas -/

theorem fcutLoop_skip (n : Node) (ns : List Node) (f t : Nat) (ht : t ≠ 0) (h : n.size ≤ f) :
    fcutLoop (n :: ns) f t = fcutLoop ns (f - n.size) (t - n.size) := by
  rw [fcutLoop, if_neg ht]
  simp only
  rw [if_neg (by omega)]

/-- head child kept whole -/
theorem fcutLoop_whole_inv {n : Node} {ns : List Node} {t : Nat} {M : List Node}
    (h : fcutLoop (n :: ns) 0 t = .ok M) (hpos : 0 < n.size) (hle : n.size ≤ t) :
    ∃ rest, fcutLoop ns 0 (t - n.size) = .ok rest ∧ M = n :: rest := by
  rw [fcutLoop, if_neg (by omega)] at h
  simp only at h
  have hc : ¬ ((decide (0 < 0) || decide (t < n.size)) = true) := by simp; omega
  rw [if_pos hpos, if_neg hc] at h
  simp only [Nat.zero_sub] at h
  cases hr : fcutLoop ns 0 (t - n.size) with
  | error e => simp [hr] at h
  | ok rest => simp [hr] at h; exact ⟨rest, rfl, h.symm⟩

theorem fcutLoop_elem_inv {ty : TypeId} {a : Attrs} {m : Marks} {kids ns : List Node} {f t : Nat}
    {M : List Node} (h : fcutLoop (.elem ty a m kids :: ns) f t = .ok M) (ht : t ≠ 0)
    (hf : f < 2 + fsize kids) (hc : 0 < f ∨ t < 2 + fsize kids) :
    ∃ c rest, fcut kids (f - 1) (min (fsize kids) (t - 1)) = .ok c ∧
      fcutLoop ns 0 (t - (2 + fsize kids)) = .ok rest ∧ M = .elem ty a m c :: rest := by
  rw [fcutLoop, if_neg ht] at h
  simp only [Node.size_elem] at h
  have hc' : (decide (0 < f) || decide (t < 2 + fsize kids)) = true := by simpa using hc
  rw [if_pos hf, if_pos hc', Node.cut_elem] at h
  have h0 : f - (2 + fsize kids) = 0 := by omega
  rw [h0] at h
  cases hcut : fcut kids (f - 1) (min (fsize kids) (t - 1)) with
  | error e => simp [hcut, Except.map] at h
  | ok c =>
    cases hr : fcutLoop ns 0 (t - (2 + fsize kids)) with
    | error e => simp [hcut, hr, Except.map] at h
    | ok rest =>
      simp [hcut, hr, Except.map] at h
      exact ⟨c, rest, rfl, rfl, h.symm⟩

theorem fcutLoop_text_inv {s : List Nat} {m : Marks} {ns : List Node} {f t : Nat}
    {M : List Node} (h : fcutLoop (.text s m :: ns) f t = .ok M) (ht : t ≠ 0)
    (hf : f < s.length) (hc : 0 < f ∨ t < s.length) :
    ∃ s' rest, cutText s f (min s.length t) = .ok s' ∧
      fcutLoop ns 0 (t - s.length) = .ok rest ∧ M = .text s' m :: rest := by
  rw [fcutLoop, if_neg ht] at h
  simp only [Node.size_text] at h
  have hc' : (decide (0 < f) || decide (t < s.length)) = true := by simpa using hc
  rw [if_pos hf, if_pos hc'] at h
  have h0 : f - s.length = 0 := by omega
  rw [h0] at h
  cases hcut : cutText s f (min s.length t) with
  | error e => simp [hcut] at h
  | ok s' =>
    cases hr : fcutLoop ns 0 (t - s.length) with
    | error e => simp [hcut, hr] at h
    | ok rest =>
      simp [hcut, hr] at h
      exact ⟨s', rest, rfl, rfl, h.symm⟩

theorem cutText_splitOk {s s' : List Nat} {f t : Nat} (h : cutText s f t = .ok s') :
    splitOk s f = true ∧ splitOk s t = true := by
  unfold cutText at h
  split at h
  · rename_i h1
    simp at h1
    obtain ⟨rfl, rfl⟩ := h1
    exact ⟨splitOk_zero s, splitOk_length s⟩
  · split at h
    · simp at h
    · rename_i h2
      simpa using h2

theorem fcutLoop_full : ∀ l : List Node, fnormKids l = true → fcutLoop l 0 (fsize l) = .ok l
  | [], _ => by simp [fcutLoop]
  | n :: ns, hn => by
    simp only [fnormKids_cons, Bool.and_eq_true] at hn
    have hpos := Node.size_pos_of_norm n hn.1
    rw [fcutLoop, if_neg (by simp; omega)]
    simp only
    rw [if_pos hpos, if_neg (by simp)]
    have : fsize (n :: ns) - n.size = fsize ns := by simp
    rw [Nat.zero_sub, this, fcutLoop_full ns hn.2]

theorem fcutLoop_end : ∀ l : List Node, fcutLoop l (fsize l) (fsize l) = .ok []
  | [] => by simp [fcutLoop]
  | n :: ns => by
    by_cases h0 : fsize (n :: ns) = 0
    · rw [h0]; exact fcutLoop_zero _ _
    · rw [fcutLoop_skip n ns _ _ h0 (by simp)]
      have : fsize (n :: ns) - n.size = fsize ns := by simp
      rw [this]; exact fcutLoop_end ns

theorem fcut_eq_loop {kids : List Node} {f t : Nat} (hn : fnormKids kids = true) (hft : f ≤ t)
    (ht : t ≤ fsize kids) (hdeg : f = t → f = 0 ∨ f = fsize kids) :
    fcut kids f t = fcutLoop kids f t := by
  unfold fcut
  split
  · rename_i h1
    simp at h1
    obtain ⟨rfl, rfl⟩ := h1
    exact (fcutLoop_full kids hn).symm
  · split
    · have : f = t := by omega
      subst this
      rcases hdeg rfl with rfl | rfl
      · exact (fcutLoop_zero _ _).symm
      · exact (fcutLoop_end kids).symm
    · rfl

/-! ### a successful cut implies pair-alignment of both ends -/

theorem alignedAt_skip (n : Node) (ns : List Node) (t : Nat) (h : n.size ≤ t) :
    alignedAt (n :: ns) t = alignedAt ns (t - n.size) := by
  rw [alignedAt_cons]
  split
  · subst_vars; simp
  · first | rfl | rw [if_pos h]

def CutAlignedSpec (kids : List Node) : Prop :=
  ∀ (f t : Nat) (c : List Node), f < t → t ≤ fsize kids → fcutLoop kids f t = .ok c →
    alignedAt kids f = true ∧ alignedAt kids t = true

theorem cutElem_aligned (kids : List Node) (IH : CutAlignedSpec kids) (f2 t2 : Nat) (c : List Node)
    (hle : f2 ≤ t2) (ht2 : t2 ≤ fsize kids) (hdeg : f2 = t2 → f2 = 0 ∨ f2 = fsize kids)
    (h : fcut kids f2 t2 = .ok c) : alignedAt kids f2 = true ∧ alignedAt kids t2 = true := by
  unfold fcut at h
  split at h
  · rename_i h1
    simp at h1
    obtain ⟨rfl, rfl⟩ := h1
    exact ⟨alignedAt_zero _, alignedAt_fsize _⟩
  · split at h
    · have : f2 = t2 := by omega
      subst this
      rcases hdeg rfl with rfl | rfl
      · exact ⟨alignedAt_zero _, alignedAt_zero _⟩
      · exact ⟨alignedAt_fsize _, alignedAt_fsize _⟩
    · exact IH f2 t2 c (by omega) ht2 h

theorem fcutLoop_aligned : ∀ kids : List Node, CutAlignedSpec kids
  | [], f, t, c, hft, ht, _ => by simp at ht; omega
  | n :: ns, f, t, c, hft, ht, h => by
    have IHns := fcutLoop_aligned ns
    have ht0 : t ≠ 0 := by omega
    simp only [fsize_cons] at ht
    -- alignment of `t` in the tail, given a successful cut of the tail from 0
    have tailT : ∀ rest, fcutLoop ns 0 (t - n.size) = .ok rest → n.size ≤ t →
        alignedAt (n :: ns) t = true := by
      intro rest hr hle
      rw [alignedAt_cons, if_neg ht0, if_pos hle]
      by_cases h0 : t - n.size = 0
      · rw [h0]; simp
      · exact (IHns 0 (t - n.size) rest (by omega) (by omega) hr).2
    by_cases hfsz : n.size ≤ f
    · rw [fcutLoop_skip n ns f t ht0 hfsz] at h
      have := IHns (f - n.size) (t - n.size) c (by omega) (by omega) h
      refine ⟨?_, ?_⟩
      · rw [alignedAt_skip n ns f hfsz]; exact this.1
      · rw [alignedAt_skip n ns t (by omega)]; exact this.2
    · by_cases hcut : 0 < f ∨ t < n.size
      · cases n with
        | text s m =>
          simp only [Node.size_text] at hfsz hcut tailT ht
          obtain ⟨s', rest, hct, hr, _⟩ := fcutLoop_text_inv h ht0 (by omega) hcut
          have hso := cutText_splitOk hct
          refine ⟨?_, ?_⟩
          · rw [alignedAt_cons]
            split
            · rfl
            · rw [if_neg (by simp; omega)]; exact hso.1
          · by_cases hle : s.length ≤ t
            · exact tailT rest hr hle
            · rw [alignedAt_cons, if_neg ht0, if_neg (by simp; omega)]
              have : min s.length t = t := by omega
              rw [this] at hso; exact hso.2
        | leaf ty a m => simp at hfsz hcut; omega
        | elem ty a m kids =>
          simp only [Node.size_elem] at hfsz hcut tailT ht
          obtain ⟨c', rest, hct, hr, _⟩ := fcutLoop_elem_inv h ht0 (by omega) hcut
          have hal := cutElem_aligned kids (fcutLoop_aligned kids) _ _ c' (by omega) (by omega)
            (by omega) hct
          refine ⟨?_, ?_⟩
          · rw [alignedAt_cons]
            split
            · rfl
            · rw [if_neg (by simp; omega)]; exact hal.1
          · by_cases hle : 2 + fsize kids ≤ t
            · exact tailT rest hr hle
            · rw [alignedAt_cons, if_neg ht0, if_neg (by simp; omega)]
              have : min (fsize kids) (t - 1) = t - 1 := by omega
              rw [this] at hal; exact hal.2
      · have hf0 : f = 0 := by omega
        subst hf0
        obtain ⟨rest, hr, _⟩ := fcutLoop_whole_inv h (by omega) (by omega)
        exact ⟨alignedAt_zero _, tailT rest hr (by omega)⟩

theorem fcut_aligned {kids c : List Node} {f t : Nat} (hft : f < t) (ht : t ≤ fsize kids)
    (h : fcut kids f t = .ok c) : alignedAt kids f = true ∧ alignedAt kids t = true :=
  cutElem_aligned kids (fcutLoop_aligned kids) f t c (by omega) ht (by omega) h

/-! ### `splitRight`: totality and what it tells about the depth -/

theorem splitRight_total : ∀ (L : List Node) (t : Nat), t ≤ fsize L → alignedAt L t = true →
    ∃ rs, splitRight L t = some rs
  | [], t, ht, _ => by
    have : t = 0 := by simpa using ht
    subst this; exact ⟨_, splitRight_zero _⟩
  | n :: ns, t, ht, ha => by
    by_cases h0 : t = 0
    · subst h0; exact ⟨_, splitRight_zero _⟩
    by_cases hle : n.size ≤ t
    · rw [splitRight_skip n ns t h0 hle]
      rw [alignedAt_cons, if_neg h0, if_pos hle] at ha
      exact splitRight_total ns (t - n.size) (by simp at ht; omega) ha
    · rw [alignedAt_cons, if_neg h0, if_neg hle] at ha
      cases n with
      | text s m =>
        simp only [Node.size_text] at hle
        exact ⟨_, splitRight_text s m ns t h0 (by omega) ha⟩
      | leaf ty a m => simp at hle; omega
      | elem ty a m kids =>
        simp only [Node.size_elem] at hle
        exact ⟨_, splitRight_elem ty a m kids ns t h0 (by omega)⟩

theorem splitRight_flat_depth : ∀ (L : List Node) (t : Nat) (r : List Node),
    splitRight L t = some (.flat r) → depthAt L t = 0
  | [], t, r, _ => by simp [depthAt]
  | n :: ns, t, r, h => by
    by_cases h0 : t = 0
    · subst h0; simp
    by_cases hle : n.size ≤ t
    · rw [splitRight_skip n ns t h0 hle] at h
      rw [depthAt_skip n ns t hle]
      exact splitRight_flat_depth ns _ r h
    · cases n with
      | text s m => exact depthAt_nonelem_cons _ ns t (by omega) (by simp)
      | leaf ty a m => exact depthAt_nonelem_cons _ ns t (by omega) (by simp)
      | elem ty a m kids =>
        simp only [Node.size_elem] at hle
        rw [splitRight_elem ty a m kids ns t h0 (by omega)] at h
        simp at h

theorem splitRight_deep_facts : ∀ (L : List Node) (t : Nat) (c : Node) (i : Nat) (r : List Node),
    splitRight L t = some (.deep c i r) →
    ∃ ty a m k, c = .elem ty a m k ∧ depthAt L t = 1 + depthAt k i ∧ i ≤ fsize k ∧ c ∈ L
  | [], t, c, i, r, h => by
    cases t <;> simp [splitRight] at h
  | n :: ns, t, c, i, r, h => by
    by_cases h0 : t = 0
    · subst h0; simp at h
    by_cases hle : n.size ≤ t
    · rw [splitRight_skip n ns t h0 hle] at h
      obtain ⟨ty, a, m, k, h1, h2, h3, h4⟩ := splitRight_deep_facts ns _ c i r h
      exact ⟨ty, a, m, k, h1, by rw [depthAt_skip n ns t hle]; exact h2, h3, List.mem_cons_of_mem _ h4⟩
    · cases n with
      | text s m =>
        rw [splitRight_cons, if_neg h0, if_neg hle] at h
        simp only at h
        split at h <;> simp at h
      | leaf ty a m =>
        rw [splitRight_cons, if_neg h0, if_neg hle] at h
        simp at h
      | elem ty a m kids =>
        simp only [Node.size_elem] at hle
        rw [splitRight_elem ty a m kids ns t h0 (by omega)] at h
        simp at h
        obtain ⟨rfl, rfl, rfl⟩ := h
        exact ⟨ty, a, m, kids, rfl, depthAt_elem_cons _ _ _ _ _ _ (by omega) (by omega),
          by omega, by simp⟩

/-! ### token facts about the three kinds of cut (suffix, prefix, middle) -/

theorem fnorm_cons {n : Node} {ns : List Node} (h : fnorm (n :: ns) = true) :
    n.norm = true ∧ fnorm ns = true := by
  simp only [fnorm, fnormKids_cons, Bool.and_eq_true] at h ⊢
  exact ⟨h.1.1, h.1.2, chainOk_tail h.2⟩

theorem suffix_cut_facts {kids c : List Node} {p : Nat} (h : fcutLoop kids p (fsize kids) = .ok c)
    (hp : p ≤ fsize kids) (hn : fnorm kids = true) :
    (ftoks c).drop (depthAt kids p) = (ftoks kids).drop p ∧ depthAt kids p ≤ fsize c ∧
      fnormKids c = true := by
  have hnc : fnormKids c = true := by
    simp only [fnorm, Bool.and_eq_true] at hn
    exact (fcutLoop_norm kids p (fsize kids) c hn.1 hn.2 h).1
  refine ⟨?_, ?_, hnc⟩
  all_goals
    by_cases hlt : p < fsize kids
    · have htk := fcutLoop_toks kids p (fsize kids) c (Or.inl hlt) (Nat.le_refl _) h
      have hao := ancestorOpens_length kids p
      rw [depthAt_fsize] at htk
      simp only [List.replicate_zero, List.append_nil] at htk
      first
        | (rw [htk, drop_app_ge _ _ _ (by omega), hao, Nat.sub_self, List.drop_zero]
           exact List.take_of_length_le (by rw [List.length_drop, ftoks_length]; exact Nat.le_refl _))
        | (rw [← ftoks_length c, htk, List.length_append, hao]; omega)
    · have hpe : p = fsize kids := by omega
      subst hpe
      rw [depthAt_fsize]
      first
        | (rw [fcutLoop_end] at h
           simp at h; subst h
           simp [List.drop_eq_nil_of_le, ftoks_length])
        | omega

theorem prefix_cut_facts {kids c : List Node} {q : Nat} (h : fcutLoop kids 0 q = .ok c)
    (hq : q ≤ fsize kids) (hn : fnorm kids = true) :
    (ftoks c).take (fsize c - depthAt kids q) = (ftoks kids).take q ∧ depthAt kids q ≤ fsize c ∧
      fnormKids c = true := by
  have hnc : fnormKids c = true := by
    simp only [fnorm, Bool.and_eq_true] at hn
    exact (fcutLoop_norm kids 0 q c hn.1 hn.2 h).1
  have htk := fcutLoop_toks kids 0 q c (by omega) hq h
  simp only [ancestorOpens_zero, List.nil_append, List.drop_zero, Nat.sub_zero] at htk
  have hlen : ((ftoks kids).take q).length = q := by simp [ftoks_length]; omega
  have hsz : fsize c = q + depthAt kids q := by
    rw [← ftoks_length c, htk, List.length_append, hlen]; simp
  refine ⟨?_, by omega, hnc⟩
  rw [htk, hsz, Nat.add_sub_cancel, take_app_le _ _ _ (by omega)]
  exact List.take_of_length_le (by omega)

theorem mid_cut_facts {kids c : List Node} {f t : Nat} (h : fcutLoop kids f t = .ok c)
    (hft : f < t) (ht : t ≤ fsize kids) (hn : fnorm kids = true) :
    midToks c (depthAt kids f) (depthAt kids t) = ((ftoks kids).drop f).take (t - f) ∧
      depthAt kids f ≤ spineL c ∧ depthAt kids t ≤ spineR c ∧ fnormKids c = true := by
  have hnc : fnormKids c = true := by
    simp only [fnorm, Bool.and_eq_true] at hn
    exact (fcutLoop_norm kids f t c hn.1 hn.2 h).1
  have hsp := fcutLoop_spine kids f t c (Or.inl hft) ht h
  refine ⟨?_, hsp.1, hsp.2, hnc⟩
  have htk := fcutLoop_toks kids f t c (Or.inl hft) ht h
  have hlen : (((ftoks kids).drop f).take (t - f)).length = t - f := by
    simp [ftoks_length]; omega
  have hao := ancestorOpens_length kids f
  have hsz : fsize c = depthAt kids f + (t - f) + depthAt kids t := by
    rw [← ftoks_length, htk]; simp [hao, ftoks_length]; omega
  simp only [midToks, htk, hsz]
  rw [List.append_assoc, List.drop_append_of_le_length (by omega), List.drop_of_length_le (by omega)]
  have : depthAt kids f + (t - f) + depthAt kids t - depthAt kids f - depthAt kids t
      = (((ftoks kids).drop f).take (t - f)).length := by rw [hlen]; omega
  rw [this]; simp

end PM
