/-
  Proofs/IsoFlows.lean — the positions of the steps the structural builders (`lift`, `wrap`; PM/StructEdit.lean)
  emit, relative to the content windows of the ancestors of the range: helpers of the "selection inside an
  isolating node → block range → lift / split / wrap" theorems of Props/C18.lean.
-/
import PM.StructEdit
import PM.Monitor
import Proofs.Resolve
import Proofs.Respects
import Proofs.Structure
import Proofs.StructEdit
namespace PM

/-- a `liftSide` loop moves the outer position by at most one per level -/
theorem liftSide_moved_le (nodeAt : Nat → Node) (splitsAt : Nat → Bool) (target : Nat) :
    ∀ (n : Nat) (frag : List Node) (opened moved : Nat) (sp : Bool),
      (liftSide nodeAt splitsAt target n frag opened moved sp).2.2 ≤ moved + n
  | 0, frag, opened, moved, sp => by simp [liftSide]
  | n + 1, frag, opened, moved, sp => by
    unfold liftSide
    simp only
    split
    · have := liftSide_moved_le nodeAt splitsAt target n [(nodeAt (target + n + 1)).withKids frag] (opened + 1) moved true
      omega
    · have := liftSide_moved_le nodeAt splitsAt target n frag opened (moved + 1) false
      omega

/-- `from.before(depth + 1)` lies at or after the content start of the depth-`depth` ancestor -/
theorem Resolved.start_le_before {doc : Node} {pos : Nat} {r : RPos} (R : Resolved doc pos r) (d s : Nat)
    (h : r.before (d + 1) = some s) : d ≤ r.depth ∧ r.start d ≤ s := by
  by_cases hd : d = r.depth
  · subst hd
    simp [RPos.before] at h
    have := (R.pos_in r.depth (Nat.le_refl _)).1
    rw [← h, R.pos_eq]; exact ⟨Nat.le_refl _, this⟩
  · by_cases hle : d + 1 ≤ r.depth
    · rw [R.before_eq (d + 1) (by omega) hle] at h
      simp only [Option.some.injEq] at h
      have := R.nestW d (d + 1) (by omega) hle
      omega
    · simp [RPos.before, hd, hle] at h

/-- `to.after(depth + 1)` lies at or before the content end of the depth-`depth` ancestor -/
theorem Resolved.after_le_end {doc : Node} {pos : Nat} {r : RPos} (R : Resolved doc pos r) (d e : Nat)
    (h : r.after (d + 1) = some e) : d ≤ r.depth ∧ e ≤ r.end_ d := by
  by_cases hd : d = r.depth
  · subst hd
    simp [RPos.after] at h
    have := (R.pos_in r.depth (Nat.le_refl _)).2
    rw [← h, R.pos_eq]; exact ⟨Nat.le_refl _, this⟩
  · by_cases hle : d + 1 ≤ r.depth
    · rw [R.after_eq (d + 1) (by omega) hle] at h
      simp only [Option.some.injEq] at h
      have := R.nestW d (d + 1) (by omega) hle
      omega
    · simp [RPos.after, hd, hle] at h

/-- **the step `lift(NodeRange(from, to, depth), target)` builds** is a replace-around step with a
    well-formed slice whose outer range lies within the content window of the depth-`target`
    ancestor (of `from` on the left, of `to` on the right) and contains the gap, which is the range -/
theorem liftStepR_inside {doc : Node} {a b : Nat} {f t : RPos}
    (hf : doc.resolve a = some f) (ht : doc.resolve b = some t) (hab : a ≤ b)
    (depth target : Nat) (htg : target ≤ depth) (st : Step)
    (h : liftStepR f t depth target = .ok st) :
    depth ≤ f.depth ∧ depth ≤ t.depth ∧
    ∃ F T gs ge sl i, st = .replaceAround F T gs ge sl i true ∧
      f.before (depth + 1) = some gs ∧ t.after (depth + 1) = some ge ∧
      sl.wf = true ∧ (i : Int) ≤ sl.size ∧ F ≤ gs ∧ gs ≤ ge ∧ ge ≤ T ∧
      f.start target ≤ F ∧ T ≤ t.end_ target := by
  unfold liftStepR at h
  cases hb : f.before (depth + 1) with
  | none => simp [hb] at h
  | some gs =>
    cases hafter : t.after (depth + 1) with
    | none => simp [hb, hafter] at h
    | some ge =>
      simp only [hb, hafter] at h
      have Rf := resolve_resolved hf
      have Rt := resolve_resolved ht
      have h1 := Rf.before_le depth gs hb
      have h2 := Rt.le_after depth ge hafter
      obtain ⟨hdf, hs⟩ := Rf.start_le_before depth gs hb
      obtain ⟨hdt, he⟩ := Rt.after_le_end depth ge hafter
      have NL := liftSide_nest f.node (fun d => decide (0 < f.index d)) target (depth - target) [] 0 0 false
        (fun d h1 h2 => by
          obtain ⟨k, rfl⟩ : ∃ k, d = k + 1 := ⟨d - 1, by omega⟩
          obtain ⟨ty, at_, m, kids, e⟩ := resolve_node_elem hf k (by omega)
          rw [e]; rfl) .nil
      have NR := liftSide_nest t.node (fun d => decide (t.afterT (d + 1) < t.end_ d)) target
        (depth - target) [] 0 0 false
        (fun d h1 h2 => by
          obtain ⟨k, rfl⟩ : ∃ k, d = k + 1 := ⟨d - 1, by omega⟩
          obtain ⟨ty, at_, m, kids, e⟩ := resolve_node_elem ht k (by omega)
          rw [e]; rfl) .nil
      have ML := liftSide_moved_le f.node (fun d => decide (0 < f.index d)) target (depth - target) [] 0 0 false
      have MR := liftSide_moved_le t.node (fun d => decide (t.afterT (d + 1) < t.end_ d)) target
        (depth - target) [] 0 0 false
      generalize liftSide f.node (fun d => decide (0 < f.index d)) target (depth - target) [] 0 0 false = L
        at h NL ML
      generalize liftSide t.node (fun d => decide (t.afterT (d + 1) < t.end_ d)) target
        (depth - target) [] 0 0 false = R at h NR MR
      obtain ⟨before, os, ml⟩ := L
      obtain ⟨after, oe, mr⟩ := R
      simp only [Except.ok.injEq] at h
      subst h
      simp only at NL NR ML MR
      have nf := Rf.nestW target depth htg hdf
      have nt := Rt.nestW target depth htg hdt
      refine ⟨hdf, hdt, _, _, _, _, _, _, rfl, rfl, rfl, nests_wf NL NR, ?_, ?_, ?_, ?_, ?_, ?_⟩
      · rw [nests_size NL NR, NL.fsize]
        omega
      all_goals omega

/-- the content `wrap` builds is at least as long as the wrapper list (every wrapper contributes at
    least its open token) -/
theorem wrapContent_size_ge (S : Schema) : ∀ (ws : List (TypeId × Attrs)) (c : List Node),
    wrapContent S ws = .ok c → ws.length ≤ fsize c
  | [], c, h => by simp
  | (ty, given) :: rest, c, h => by
    unfold wrapContent at h
    cases hr : wrapContent S rest with
    | error e => simp [hr] at h
    | ok content =>
      have ih := wrapContent_size_ge S rest content hr
      simp only [hr] at h
      split at h
      · simp at h
      · split at h
        · simp at h
        · cases hc : computeAttrs (S.nodeType ty).attrs given with
          | error e => simp [hc] at h
          | ok a =>
            simp only [hc] at h
            split at h
            · split at h
              · rename_i hemp
                simp only [Except.ok.injEq] at h
                subst h
                have : content = [] := by simpa using hemp
                subst this
                have : rest.length = 0 := by simpa using ih
                simp [fsize, Node.size, this]
              · simp at h
            · simp only [Except.ok.injEq] at h
              subst h
              simp only [List.length_cons, fsize, Node.size]
              omega

/-- **the step `wrap(NodeRange(from, to, depth), wrappers)` builds**: a replace-around step on exactly
    the range `[from.before(depth+1), to.after(depth+1)]` with a closed slice -/
theorem wrapStepR_inside (S : Schema) {doc : Node} {a b : Nat} {f t : RPos}
    (hf : doc.resolve a = some f) (ht : doc.resolve b = some t) (hab : a ≤ b)
    (depth : Nat) (ws : List (TypeId × Attrs)) (st : Step)
    (h : wrapStepR S f t depth ws = .ok st) :
    ∃ s e sl, st = .replaceAround s e s e sl ws.length true ∧
      f.before (depth + 1) = some s ∧ t.after (depth + 1) = some e ∧
      sl.wf = true ∧ (ws.length : Int) ≤ sl.size ∧ s ≤ e := by
  unfold wrapStepR at h
  cases hc : wrapContent S ws with
  | error e => simp [hc] at h
  | ok content =>
    cases hb : f.before (depth + 1) with
    | none => simp [hc, hb] at h
    | some gs =>
      cases hafter : t.after (depth + 1) with
      | none => simp [hc, hb, hafter] at h
      | some ge =>
        simp only [hc, hb, hafter, Except.ok.injEq] at h
        subst h
        have h1 := (resolve_resolved hf).before_le depth gs hb
        have h2 := (resolve_resolved ht).le_after depth ge hafter
        have := wrapContent_size_ge S ws content hc
        refine ⟨gs, ge, _, rfl, rfl, rfl, ?_, ?_, by omega⟩
        · simp [Slice.wf]
        · simp only [Slice.size]; omega

end PM
