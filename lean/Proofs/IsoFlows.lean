/-
  Proofs/IsoFlows.lean — the positions of the steps the structural builders (`lift`, `wrap`; PM/StructEdit.lean)
  emit, relative to the content windows of the ancestors of the range: helpers of the "selection inside an
  isolating node → block range → lift / split / wrap" theorems of Props/C18.lean.
-/
import PM.StructEdit
import PM.Monitor
import Proofs.Resolve
import Proofs.Respects
import Proofs.Structure
import Proofs.StructEdit
import Proofs.Range
import Proofs.MergeOpen
namespace PM

/-- a `liftSide` loop moves the outer position by at most one per level -/
theorem liftSide_moved_le (nodeAt : Nat → Node) (splitsAt : Nat → Bool) (target : Nat) :
    ∀ (n : Nat) (frag : List Node) (opened moved : Nat) (sp : Bool),
      (liftSide nodeAt splitsAt target n frag opened moved sp).2.2 ≤ moved + n
  | 0, frag, opened, moved, sp => by simp [liftSide]
  | n + 1, frag, opened, moved, sp => by
    unfold liftSide
    simp only
    split
    · have := liftSide_moved_le nodeAt splitsAt target n [(nodeAt (target + n + 1)).withKids frag] (opened + 1) moved true
      omega
    · have := liftSide_moved_le nodeAt splitsAt target n frag opened (moved + 1) false
      omega

/-- a `liftSide` loop either opens a level or moves the outer position, at every level -/
theorem liftSide_opened_moved (nodeAt : Nat → Node) (splitsAt : Nat → Bool) (target : Nat) :
    ∀ (n : Nat) (frag : List Node) (opened moved : Nat) (sp : Bool),
      (liftSide nodeAt splitsAt target n frag opened moved sp).2.1 +
        (liftSide nodeAt splitsAt target n frag opened moved sp).2.2 = opened + moved + n
  | 0, frag, opened, moved, sp => by simp [liftSide]
  | n + 1, frag, opened, moved, sp => by
    unfold liftSide
    simp only
    split
    · have := liftSide_opened_moved nodeAt splitsAt target n [(nodeAt (target + n + 1)).withKids frag] (opened + 1) moved true
      omega
    · have := liftSide_opened_moved nodeAt splitsAt target n frag opened (moved + 1) false
      omega

/-- `from.before(depth + 1)` lies at or after the content start of the depth-`depth` ancestor -/
theorem Resolved.start_le_before {doc : Node} {pos : Nat} {r : RPos} (R : Resolved doc pos r) (d s : Nat)
    (h : r.before (d + 1) = some s) : d ≤ r.depth ∧ r.start d ≤ s := by
  by_cases hd : d = r.depth
  · subst hd
    simp [RPos.before] at h
    have := (R.pos_in r.depth (Nat.le_refl _)).1
    rw [← h, R.pos_eq]; exact ⟨Nat.le_refl _, this⟩
  · by_cases hle : d + 1 ≤ r.depth
    · rw [R.before_eq (d + 1) (by omega) hle] at h
      simp only [Option.some.injEq] at h
      have := R.nestW d (d + 1) (by omega) hle
      omega
    · simp [RPos.before, hd, hle] at h

/-- `to.after(depth + 1)` lies at or before the content end of the depth-`depth` ancestor -/
theorem Resolved.after_le_end {doc : Node} {pos : Nat} {r : RPos} (R : Resolved doc pos r) (d e : Nat)
    (h : r.after (d + 1) = some e) : d ≤ r.depth ∧ e ≤ r.end_ d := by
  by_cases hd : d = r.depth
  · subst hd
    simp [RPos.after] at h
    have := (R.pos_in r.depth (Nat.le_refl _)).2
    rw [← h, R.pos_eq]; exact ⟨Nat.le_refl _, this⟩
  · by_cases hle : d + 1 ≤ r.depth
    · rw [R.after_eq (d + 1) (by omega) hle] at h
      simp only [Option.some.injEq] at h
      have := R.nestW d (d + 1) (by omega) hle
      omega
    · simp [RPos.after, hd, hle] at h

/-- **the step `lift(NodeRange(from, to, depth), target)` builds** is a replace-around step with a
    well-formed slice whose outer range lies within the content window of the depth-`target`
    ancestor (of `from` on the left, of `to` on the right) and contains the gap, which is the range -/
theorem liftStepR_inside {doc : Node} {a b : Nat} {f t : RPos}
    (hf : doc.resolve a = some f) (ht : doc.resolve b = some t) (hab : a ≤ b)
    (depth target : Nat) (htg : target ≤ depth) (st : Step)
    (h : liftStepR f t depth target = .ok st) :
    depth ≤ f.depth ∧ depth ≤ t.depth ∧
    ∃ F T gs ge sl i, st = .replaceAround F T gs ge sl i true ∧
      f.before (depth + 1) = some gs ∧ t.after (depth + 1) = some ge ∧
      sl.wf = true ∧ (i : Int) ≤ sl.size ∧ F ≤ gs ∧ gs ≤ ge ∧ ge ≤ T ∧
      f.start target ≤ F ∧ T ≤ t.end_ target ∧ sl.openStart + (gs - F) = depth - target := by
  unfold liftStepR at h
  cases hb : f.before (depth + 1) with
  | none => simp [hb] at h
  | some gs =>
    cases hafter : t.after (depth + 1) with
    | none => simp [hb, hafter] at h
    | some ge =>
      simp only [hb, hafter] at h
      have Rf := resolve_resolved hf
      have Rt := resolve_resolved ht
      have h1 := Rf.before_le depth gs hb
      have h2 := Rt.le_after depth ge hafter
      obtain ⟨hdf, hs⟩ := Rf.start_le_before depth gs hb
      obtain ⟨hdt, he⟩ := Rt.after_le_end depth ge hafter
      have NL := liftSide_nest f.node (fun d => decide (0 < f.index d)) target (depth - target) [] 0 0 false
        (fun d h1 h2 => by
          obtain ⟨k, rfl⟩ : ∃ k, d = k + 1 := ⟨d - 1, by omega⟩
          obtain ⟨ty, at_, m, kids, e⟩ := resolve_node_elem hf k (by omega)
          rw [e]; rfl) .nil
      have NR := liftSide_nest t.node (fun d => decide (t.afterT (d + 1) < t.end_ d)) target
        (depth - target) [] 0 0 false
        (fun d h1 h2 => by
          obtain ⟨k, rfl⟩ : ∃ k, d = k + 1 := ⟨d - 1, by omega⟩
          obtain ⟨ty, at_, m, kids, e⟩ := resolve_node_elem ht k (by omega)
          rw [e]; rfl) .nil
      have OM := liftSide_opened_moved f.node (fun d => decide (0 < f.index d)) target (depth - target) [] 0 0 false
      have ML := liftSide_moved_le f.node (fun d => decide (0 < f.index d)) target (depth - target) [] 0 0 false
      have MR := liftSide_moved_le t.node (fun d => decide (t.afterT (d + 1) < t.end_ d)) target
        (depth - target) [] 0 0 false
      generalize liftSide f.node (fun d => decide (0 < f.index d)) target (depth - target) [] 0 0 false = L
        at h NL ML OM
      generalize liftSide t.node (fun d => decide (t.afterT (d + 1) < t.end_ d)) target
        (depth - target) [] 0 0 false = R at h NR MR
      obtain ⟨before, os, ml⟩ := L
      obtain ⟨after, oe, mr⟩ := R
      simp only [Except.ok.injEq] at h
      subst h
      simp only at NL NR ML MR OM
      have nf := Rf.nestW target depth htg hdf
      have nt := Rt.nestW target depth htg hdt
      refine ⟨hdf, hdt, _, _, _, _, _, _, rfl, rfl, rfl, nests_wf NL NR, ?_, ?_, ?_, ?_, ?_, ?_, ?_⟩
      · rw [nests_size NL NR, NL.fsize]
        omega
      all_goals first | omega | (simp only []; omega)

/-- the content `wrap` builds is at least as long as the wrapper list (every wrapper contributes at
    least its open token) -/
theorem wrapContent_size_ge (S : Schema) : ∀ (ws : List (TypeId × Attrs)) (c : List Node),
    wrapContent S ws = .ok c → ws.length ≤ fsize c
  | [], c, h => by simp
  | (ty, given) :: rest, c, h => by
    unfold wrapContent at h
    cases hr : wrapContent S rest with
    | error e => simp [hr] at h
    | ok content =>
      have ih := wrapContent_size_ge S rest content hr
      simp only [hr] at h
      split at h
      · simp at h
      · split at h
        · simp at h
        · cases hc : computeAttrs (S.nodeType ty).attrs given with
          | error e => simp [hc] at h
          | ok a =>
            simp only [hc] at h
            split at h
            · split at h
              · rename_i hemp
                simp only [Except.ok.injEq] at h
                subst h
                have : content = [] := by simpa using hemp
                subst this
                have : rest.length = 0 := by simpa using ih
                simp [fsize, Node.size, this]
              · simp at h
            · simp only [Except.ok.injEq] at h
              subst h
              simp only [List.length_cons, fsize, Node.size]
              omega

/-- **the step `wrap(NodeRange(from, to, depth), wrappers)` builds**: a replace-around step on exactly
    the range `[from.before(depth+1), to.after(depth+1)]` with a closed slice -/
theorem wrapStepR_inside (S : Schema) {doc : Node} {a b : Nat} {f t : RPos}
    (hf : doc.resolve a = some f) (ht : doc.resolve b = some t) (hab : a ≤ b)
    (depth : Nat) (ws : List (TypeId × Attrs)) (st : Step)
    (h : wrapStepR S f t depth ws = .ok st) :
    ∃ s e sl, st = .replaceAround s e s e sl ws.length true ∧
      f.before (depth + 1) = some s ∧ t.after (depth + 1) = some e ∧
      sl.wf = true ∧ (ws.length : Int) ≤ sl.size ∧ s ≤ e ∧ sl.openStart = 0 := by
  unfold wrapStepR at h
  cases hc : wrapContent S ws with
  | error e => simp [hc] at h
  | ok content =>
    cases hb : f.before (depth + 1) with
    | none => simp [hc, hb] at h
    | some gs =>
      cases hafter : t.after (depth + 1) with
      | none => simp [hc, hb, hafter] at h
      | some ge =>
        simp only [hc, hb, hafter, Except.ok.injEq] at h
        subst h
        have h1 := (resolve_resolved hf).before_le depth gs hb
        have h2 := (resolve_resolved ht).le_after depth ge hafter
        have := wrapContent_size_ge S ws content hc
        refine ⟨gs, ge, _, rfl, rfl, rfl, ?_, ?_, by omega, rfl⟩
        · simp [Slice.wf]
        · simp only [Slice.size]; omega

/-! ### nesting level: a splice that does not close deeper than the window's level keeps the window closed -/

/-- the tokens in front of the content of the depth-`k` ancestor open exactly `k` nodes -/
theorem balance_take_start {doc : Node} {pos : Nat} {r : RPos} (h : doc.resolve pos = some r) :
    ∀ k, k ≤ r.depth → balance ((ftoks doc.kids).take (r.start k)) = k
  | 0, _ => by simp [RPos.start]
  | k + 1, hk => by
    have R := resolve_resolved h
    have ih := balance_take_start h k (by omega)
    have hw := R.window_kids k (by omega)
    have hn := R.window_node k (by omega)
    have E := R.entry k (by omega)
    have hp : (r.entry k).pos = r.start k + fsize ((r.node k).kids.take (r.index k)) := E.pos_eq
    obtain ⟨ty, at_, m, kids, e⟩ := resolve_node_elem h k (by omega)
    have hle := fsize_take_le (r.node k).kids (r.index k)
    have h1 : ((ftoks doc.kids).drop (r.start k)).take (fsize ((r.node k).kids.take (r.index k))) =
        (ftoks (r.node k).kids).take (fsize ((r.node k).kids.take (r.index k))) := by
      rw [← hw, List.take_take, Nat.min_eq_left hle]
    have h2 : ((ftoks doc.kids).drop (r.entry k).pos).take 1 = [Tok.op ty at_ m] := by
      have : (((ftoks doc.kids).drop (r.entry k).pos).take (r.node (k + 1)).size).take 1 = [Tok.op ty at_ m] := by
        rw [hn, e]; simp [Node.toks]
      rw [List.take_take, e, Nat.min_eq_left (by simp [Node.size]; omega)] at this
      exact this
    rw [Resolved.start_succ, List.take_add, balance_append, h2, hp, List.take_add, balance_append, h1,
      balance_take_boundary, ih]
    simp [Tok.delta]

/-- inside the content window of the depth-`k` ancestor the nesting level never drops below `k` -/
theorem balance_in_ancestor {doc : Node} {pos : Nat} {r : RPos} (h : doc.resolve pos = some r)
    (k : Nat) (hk : k ≤ r.depth) (j : Nat) (h1 : r.start k ≤ j) (h2 : j ≤ r.end_ k) :
    (k : Int) ≤ balance ((ftoks doc.kids).take j) := by
  have R := resolve_resolved h
  have hw := R.window_kids k hk
  have hb := balance_take_start h k hk
  have e : ((ftoks doc.kids).drop (r.start k)).take (j - r.start k) =
      (ftoks (r.node k).kids).take (j - r.start k) := by
    rw [← hw, List.take_take, Nat.min_eq_left (by rw [Resolved.end_eq] at h2; omega)]
  have := balance_prefix_nonneg (r.node k).kids (j - r.start k)
  rw [show j = r.start k + (j - r.start k) by omega, List.take_add, balance_append, hb, e]
  omega

/-- the nesting level at a resolved position is its depth -/
theorem balance_take_pos {doc : Node} {pos : Nat} {r : RPos} (h : doc.resolve pos = some r) :
    balance ((ftoks doc.kids).take pos) = r.depth := by
  have R := resolve_resolved h
  rw [← depthAt_balance _ _ R.le, R.depth_eq]

/-- **splicing tokens into a window**: if inside `[sk, ek]` the nesting level of `G` never drops below
    `base`, the spliced-in tokens `X` (replacing `[F, T]`, `sk ≤ F ≤ T ≤ ek`) never take it below `base`
    either and end at the level `G` has at `T`, then in the result the level never drops below `base`
    inside the (shifted) window: no token of the window closes what was opened in front of it -/
theorem splice_keeps_level (G X : List Tok) (sk ek F T : Nat) (base : Int)
    (hFT : F ≤ T) (hsF : sk ≤ F) (hTe : T ≤ ek) (hek : ek ≤ G.length)
    (hwin : ∀ j, sk ≤ j → j ≤ ek → base ≤ balance (G.take j))
    (hX : ∀ i, base ≤ balance (G.take F) + balance (X.take i))
    (hbal : balance (G.take F) + balance X = balance (G.take T)) :
    ∀ j, sk ≤ j → j + (T - F) ≤ ek + X.length →
      base ≤ balance ((G.take F ++ X ++ G.drop T).take j) := by
  intro j h1 h2
  have hl : (G.take F).length = F := by simp; omega
  rw [List.append_assoc, List.take_append, hl, List.take_append, balance_append, balance_append,
    List.take_take]
  rcases Nat.lt_or_ge j F with h | h
  · rw [Nat.min_eq_left (by omega), show j - F = 0 by omega]
    simp only [List.take_zero, balance_nil, Nat.zero_sub, Int.add_zero]
    exact hwin j h1 (by omega)
  · rw [Nat.min_eq_right h]
    rcases Nat.lt_or_ge X.length (j - F) with h' | h'
    · rw [List.take_of_length_le (by omega : X.length ≤ j - F)]
      have e : balance ((G.drop T).take (j - F - X.length)) =
          balance (G.take (T + (j - F - X.length))) - balance (G.take T) := by
        rw [List.take_add, balance_append]; omega
      have := hwin (T + (j - F - X.length)) (by omega) (by omega)
      rw [e]; omega
    · rw [show j - F - X.length = 0 by omega]
      simp only [List.take_zero, balance_nil, Int.add_zero]
      exact hX _

/-- **the step `split(pos, depth)` builds**: an insertion at `pos` of a well-formed slice open by
    `depth` on both sides -/
theorem splitStep_shape {doc : Node} {pos : Nat} (depth : Nat) (st : Step) (hdoc : doc.isLeaf = false)
    (h : splitStep doc pos depth = .ok st) :
    ∃ sl, st = .replace pos pos sl true ∧ sl.wf = true ∧ sl.openStart = depth ∧ sl.openEnd = depth ∧
      sl.size = 2 * (depth : Int) := by
  unfold splitStep at h
  cases hr : doc.resolve pos with
  | none => simp [hr] at h
  | some r =>
    simp only [hr] at h
    cases hn : splitNodes r depth with
    | none => simp [hn] at h
    | some nodes =>
      simp only [hn, Except.ok.injEq] at h
      subst h
      obtain ⟨hlen, hel⟩ := splitNodesFrom_spec hr hdoc depth _ nodes hn
      have N := nestOut_nest nodes hel
      rw [hlen] at N
      refine ⟨_, rfl, nests_wf N N, rfl, rfl, ?_⟩
      rw [nests_size N N]; omega

/-! ### replace-around steps: the level inside the window -/

theorem balance_le_length : ∀ l : List Tok, balance l ≤ l.length
  | [] => by simp
  | x :: l => by
    have := balance_le_length l
    have hx : x.delta ≤ 1 := by cases x <;> simp [Tok.delta]
    simp only [balance_cons, List.length_cons]
    omega

/-- going back `m` tokens lowers the nesting level by at most `m` -/
theorem balance_take_sub (G : List Tok) (p m : Nat) :
    balance (G.take p) - m ≤ balance (G.take (p - m)) := by
  rcases Nat.lt_or_ge p m with h | h
  · rw [show p - m = 0 by omega]
    have := balance_le_length (G.take p)
    simp only [List.take_zero, balance_nil, List.length_take] at *
    omega
  · have e : G.take p = G.take (p - m) ++ (G.drop (p - m)).take m := by
      conv => lhs; rw [show p = (p - m) + m by omega, List.take_add]
    have := balance_le_length ((G.drop (p - m)).take m)
    rw [e, balance_append]
    simp only [List.length_take] at this
    omega

/-- the nesting level in front of a node range of depth `d` is (at least) `d` -/
theorem balance_take_before {doc : Node} {pos : Nat} {r : RPos} (h : doc.resolve pos = some r) (d s : Nat)
    (hb : r.before (d + 1) = some s) : (d : Int) ≤ balance ((ftoks doc.kids).take s) := by
  have R := resolve_resolved h
  by_cases hd : d = r.depth
  · subst hd
    simp [RPos.before] at hb
    rw [← hb, R.pos_eq, balance_take_pos h]; omega
  · by_cases hle : d + 1 ≤ r.depth
    · rw [R.before_eq (d + 1) (by omega) hle] at hb
      simp only [Option.some.injEq] at hb
      have := balance_take_sub (ftoks doc.kids) (r.start (d + 1)) 1
      rw [balance_take_start h (d + 1) hle, hb] at this
      omega
    · simp [RPos.before, hd, hle] at hb

/-- a splice keeps the total balance: the spliced-in tokens end at the level the old list has at `T` -/
theorem splice_balance (G X : List Tok) (F T : Nat) (h0 : balance G = 0)
    (h1 : balance (G.take F ++ X ++ G.drop T) = 0) :
    balance (G.take F) + balance X = balance (G.take T) := by
  have : balance (G.take T ++ G.drop T) = 0 := by rw [List.take_append_drop]; exact h0
  simp only [balance_append] at h1 this
  omega

/-- the prefixes of `slice[:i] ++ gap ++ slice[i:]` for a gap whose prefixes never close more than
    they opened and that is balanced: the level never drops by more than `openStart` -/
theorem around_prefix_level (sl : Slice) (hwf : sl.wf = true) (i : Nat) (gap : List Tok)
    (hg : ∀ m, 0 ≤ balance (gap.take m)) (hg0 : balance gap = 0) (n : Nat) :
    -(sl.openStart : Int) ≤ balance ((sl.toks.take i ++ gap ++ sl.toks.drop i).take n) := by
  rw [List.append_assoc, List.take_append, List.take_append, balance_append, balance_append, List.take_take]
  rcases Nat.lt_or_ge (n - (sl.toks.take i).length) gap.length with h | h
  · rw [show n - (sl.toks.take i).length - gap.length = 0 by omega]
    have := sliceToks_balance_ge sl hwf (min n i)
    have := hg (n - (sl.toks.take i).length)
    simp only [List.take_zero, balance_nil]
    omega
  · rw [List.take_of_length_le h, hg0]
    rcases Nat.lt_or_ge n (sl.toks.take i).length with h' | h'
    · rw [show n - (sl.toks.take i).length - gap.length = 0 by omega]
      have := sliceToks_balance_ge sl hwf (min n i)
      simp only [List.take_zero, balance_nil]
      omega
    · -- the whole of `slice[:i]` is taken
      have hl : (sl.toks.take i).length ≤ i := by simp; omega
      have e1 : sl.toks.take (min n i) = sl.toks.take i := by
        rcases Nat.lt_or_ge n i with h'' | h''
        · rw [Nat.min_eq_left (by omega)]
          have : sl.toks.length ≤ n := by simp at h'; omega
          rw [List.take_of_length_le this, List.take_of_length_le (by omega)]
        · rw [Nat.min_eq_right h'']
      have e2 : balance (sl.toks.take i) + balance ((sl.toks.drop i).take (n - (sl.toks.take i).length - gap.length)) =
          balance (sl.toks.take (i + (n - (sl.toks.take i).length - gap.length))) := by
        rw [List.take_add, balance_append]
      have := sliceToks_balance_ge sl hwf (i + (n - (sl.toks.take i).length - gap.length))
      rw [e1]
      omega

theorem around_balance (sl : Slice) (i : Nat) (gap : List Tok) (hg0 : balance gap = 0) :
    balance (sl.toks.take i ++ gap ++ sl.toks.drop i) = balance sl.toks := by
  rw [balance_append, balance_append, hg0]
  conv => rhs; rw [← List.take_append_drop i sl.toks, balance_append]
  omega

end PM
